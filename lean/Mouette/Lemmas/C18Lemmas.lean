import Mouette.Model.FrameField
import Mathlib.Tactic.Ring
import Mathlib.Tactic.Linarith
import Mathlib.Tactic.FieldSimp
import Mathlib.Tactic.LinearCombination
/-
Helper lemmas for C18 (surface frame fields). Complex numbers are `Rat × Rat`.
-/
namespace Mouette.Lemmas.C18
open Mouette.FF

/-! ### Gaussian rationals -/
theorem cconj_cconj (z : Cpx) : cconj (cconj z) = z := by
  unfold cconj; simp

theorem cconj_cadd (x y : Cpx) : cconj (cadd x y) = cadd (cconj x) (cconj y) := by
  unfold cconj cadd; simp; ring

theorem cconj_czero : cconj czero = czero := by
  unfold cconj czero; simp

theorem cconj_ofReal (r : Rat) : cconj (ofReal r) = ofReal r := by
  unfold cconj ofReal; simp

theorem cadd_comm (x y : Cpx) : cadd x y = cadd y x := by
  unfold cadd; ext <;> simp <;> ring

theorem cadd_ofReal (x y : Rat) : cadd (ofReal x) (ofReal y) = ofReal (x + y) := by
  unfold cadd ofReal; simp

theorem cpow_cone (n : Nat) : cpow cone n = cone := by
  induction n with
  | zero => rfl
  | succ n ih =>
    show cmul cone (cpow cone n) = cone
    rw [ih]; simp [cmul, cone]

theorem cpow_real (s : Rat) (k : Nat) : cpow (s, 0) k = (s ^ k, 0) := by
  induction k with
  | zero => simp [cpow, cone]
  | succ k ih => simp [cpow, ih, cmul]; ring

/-! ### normalisation -/
theorem normSq_cdivR (z : Cpx) (r : Rat) (hr : r ≠ 0) (h : r * r = normSq z) : normSq (cdivR z r) = 1 := by
  unfold normSq at h
  unfold normSq cdivR
  simp only
  field_simp
  linarith

theorem normThreshold_nonneg : (0 : Rat) ≤ normThreshold := by
  unfold normThreshold Generated.C18.normThreshold
  norm_num

theorem normalize1_unit (z : Cpx) (r : Rat) (hr : normThreshold < r) (h : r * r = normSq z) :
    normSq (normalize1 z r) = 1 := by
  unfold normalize1
  rw [if_pos hr]
  have : r ≠ 0 := by
    have := normThreshold_nonneg
    intro h0; rw [h0] at hr; linarith
  exact normSq_cdivR z r this h

theorem normalizeAll_unit : ∀ (zs : List Cpx) (rs : List Rat),
    (∀ p ∈ zs.zip rs, p.2 * p.2 = normSq p.1) →
    ∀ p ∈ (normalizeAll zs rs).zip rs, normThreshold < p.2 → normSq p.1 = 1
  | [], _, _, p, hp, _ => by simp [normalizeAll] at hp
  | _ :: _, [], _, p, hp, _ => by simp at hp
  | z :: zs, r :: rs, h, p, hp, ht => by
    simp only [normalizeAll, List.zip_cons_cons, List.mem_cons] at hp
    rcases hp with rfl | hp
    · exact normalize1_unit z r ht (h (z, r) (by simp))
    · exact normalizeAll_unit zs rs (fun q hq => h q (by simp [hq])) p hp ht

theorem normalize1_fixed (z : Cpx) (r : Rat) (hz : normSq z = 1) (hr : 0 < r) (h : r * r = normSq z) :
    normalize1 z r = z := by
  have h1 : r = 1 := by
    rw [hz] at h
    have : (r - 1) * (r + 1) = 0 := by ring_nf; linarith
    rcases mul_eq_zero.mp this with h' | h'
    · linarith
    · linarith
  unfold normalize1 cdivR
  subst h1
  split <;> simp

/-! ### fixed / free partition, scatter -/
theorem getD_set_ne {α} (l : List α) (i j : Nat) (x d : α) (h : j ≠ i) : (l.set j x).getD i d = l.getD i d := by
  simp [List.getD_eq_getElem?_getD, List.getElem?_set_ne h]

theorem scatter_untouched : ∀ (free : List Nat) (var res : List Cpx) (i : Nat), i ∉ free →
    (scatter var free res).getD i czero = var.getD i czero
  | [], var, res, i, _ => by simp [scatter]
  | j :: js, var, [], i, _ => by simp [scatter]
  | j :: js, var, r :: rs, i, h => by
    simp only [scatter]
    have hj : j ≠ i := fun e => h (by simp [e])
    rw [scatter_untouched js (var.set j r) rs i (fun hm => h (by simp [hm]))]
    exact getD_set_ne var i j r czero hj

theorem mem_freeInds (flags : List Bool) (i : Nat) (h : i ∈ freeInds flags) : flags.getD i false = false := by
  unfold freeInds at h
  simp only [List.mem_filter] at h
  simpa using h.2

theorem mem_fixedInds (flags : List Bool) (i : Nat) (hi : i < flags.length) (h : flags.getD i false = true) :
    i ∈ fixedInds flags := by
  unfold fixedInds
  simp only [List.mem_filter, List.mem_range]
  exact ⟨hi, h⟩

/-! ### sums over vertices -/
theorem sumTo_add (f g : Nat → Rat) (n : Nat) : sumTo (fun v => f v + g v) n = sumTo f n + sumTo g n := by
  induction n with
  | zero => simp [sumTo]
  | succ n ih => simp only [sumTo, ih]; ring

theorem sumTo_mul (c : Rat) (f : Nat → Rat) (n : Nat) : sumTo (fun v => c * f v) n = c * sumTo f n := by
  induction n with
  | zero => simp [sumTo]
  | succ n ih => simp only [sumTo, ih]; ring

theorem sumTo_congr (f g : Nat → Rat) (n : Nat) (h : ∀ v, v < n → f v = g v) : sumTo f n = sumTo g n := by
  induction n with
  | zero => rfl
  | succ n ih =>
    simp only [sumTo]
    rw [ih (fun v hv => h v (Nat.lt_succ_of_lt hv)), h n (Nat.lt_succ_self n)]

theorem sumTo_zero (n : Nat) : sumTo (fun _ => (0 : Rat)) n = 0 := by
  induction n with
  | zero => rfl
  | succ n ih => simp [sumTo, ih]

theorem sumTo_indicator (a : Nat) (x : Rat) (n : Nat) :
    sumTo (fun v => if v = a then x else 0) n = if a < n then x else 0 := by
  induction n with
  | zero => simp [sumTo]
  | succ n ih =>
    simp only [sumTo, ih]
    by_cases h1 : a < n
    · have : n ≠ a := by omega
      have h2 : a < n + 1 := by omega
      simp [h1, h2, this]
    · by_cases h3 : n = a
      · subst h3; simp
      · have h2 : ¬ a < n + 1 := by omega
        simp [h1, h2, h3]

theorem sumTo_telescope (g : Nat → Rat) (k : Nat) : sumTo (fun i => g (i + 1) - g i) k = g k - g 0 := by
  induction k with
  | zero => simp [sumTo]
  | succ k ih => simp only [sumTo, ih]; ring

/-! ### holonomy sums -/
/-- integer sign with which edge `(a,b)` enters the sum at `v` -/
def sigma (a b v : Nat) : Int :=
  let s : Int := if Generated.C18.signPlusWhenOtherLess then 1 else -1
  if v = a then (if b < a then s else -s) else if v = b then (if a < b then s else -s) else 0

theorem edgeContrib_eq (e : REdge) (v : Nat) : edgeContrib e v = (sigma e.a e.b v : Rat) * e.rot := by
  unfold edgeContrib sigma
  cases Generated.C18.signPlusWhenOtherLess <;> simp only [] <;>
    (split_ifs <;> simp)

theorem sigma_sum (a b nv : Nat) (hab : a ≠ b) (ha : a < nv) (hb : b < nv) :
    sumTo (fun v => ((sigma a b v : Int) : Rat)) nv = 0 := by
  have hpt : ∀ v, ((sigma a b v : Int) : Rat) =
      (if v = a then ((sigma a b a : Int) : Rat) else 0) + (if v = b then ((sigma a b b : Int) : Rat) else 0) := by
    intro v
    by_cases h1 : v = a
    · subst h1; simp [hab]
    · by_cases h2 : v = b
      · subst h2; simp [h1]
      · simp [h1, h2, sigma]
  rw [sumTo_congr _ _ nv (fun v _ => hpt v), sumTo_add, sumTo_indicator, sumTo_indicator, if_pos ha, if_pos hb]
  have : sigma a b a + sigma a b b = 0 := by
    unfold sigma
    have hba : b ≠ a := fun h => hab h.symm
    cases Generated.C18.signPlusWhenOtherLess <;> simp only [hba, if_true, if_false] <;>
      (by_cases h : b < a
       · have h' : ¬ a < b := by omega
         simp [h, h']
       · have h' : a < b := by omega
         simp [h, h'])
  have h2 : ((sigma a b a : Int) : Rat) + ((sigma a b b : Int) : Rat) = ((sigma a b a + sigma a b b : Int) : Rat) := by
    push_cast; ring
  rw [h2, this]; simp

theorem edgeContrib_sum (e : REdge) (nv : Nat) (hab : e.a ≠ e.b) (ha : e.a < nv) (hb : e.b < nv) :
    sumTo (edgeContrib e) nv = 0 := by
  have : sumTo (edgeContrib e) nv = sumTo (fun v => e.rot * ((sigma e.a e.b v : Int) : Rat)) nv :=
    sumTo_congr _ _ nv (fun v _ => by rw [edgeContrib_eq]; ring)
  rw [this, sumTo_mul, sigma_sum e.a e.b nv hab ha hb]; ring

theorem vertexAngle_cons (defect : Nat → Rat) (e : REdge) (es : List REdge) (v : Nat) :
    vertexAngle defect (e :: es) v = vertexAngle defect es v + edgeContrib e v := by
  unfold vertexAngle; simp only [List.foldr]; ring

theorem totalAngle_eq (nv : Nat) (defect : Nat → Rat) : ∀ (es : List REdge),
    (∀ e ∈ es, e.a ≠ e.b ∧ e.a < nv ∧ e.b < nv) → totalAngle nv defect es = sumTo defect nv
  | [], _ => by
    unfold totalAngle
    exact sumTo_congr _ _ nv (fun v _ => by simp [vertexAngle])
  | e :: es, h => by
    unfold totalAngle
    have hfun : sumTo (vertexAngle defect (e :: es)) nv
        = sumTo (fun v => vertexAngle defect es v + edgeContrib e v) nv :=
      sumTo_congr _ _ nv (fun v _ => vertexAngle_cons defect e es v)
    rw [hfun, sumTo_add]
    have he := h e (by simp)
    rw [edgeContrib_sum e nv he.1 he.2.1 he.2.2]
    have := totalAngle_eq nv defect es (fun e' he' => h e' (by simp [he']))
    unfold totalAngle at this
    rw [this]; ring

/-! ### branch matching -/
theorem angleDiff_eq (x y : Rat) : ∃ F : Int, angleDiff x y = x - y - (F : Rat) := by
  refine ⟨(x - y + 1/2).floor, ?_⟩
  unfold angleDiff; simp only; ring

theorem argminAbs_mem : ∀ (l : List Rat), l ≠ [] → argminAbs l ∈ l
  | [], h => absurd rfl h
  | [x], _ => by simp [argminAbs]
  | x :: y :: ys, _ => by
    have ih := argminAbs_mem (y :: ys) (by simp)
    unfold argminAbs
    simp only
    split
    · exact List.mem_cons_of_mem _ ih
    · simp


theorem argminAbs_le : ∀ (l : List Rat) (c : Rat), c ∈ l → rabs (argminAbs l) ≤ rabs c
  | [], c, h => by simp at h
  | [x], c, h => by
    simp at h; subst h; simp [argminAbs]
  | x :: y :: ys, c, h => by
    have ih := argminAbs_le (y :: ys)
    unfold argminAbs
    simp only
    rcases List.mem_cons.mp h with rfl | h'
    · split
      · rename_i hlt; exact le_of_lt hlt
      · exact le_refl _
    · split
      · exact ih c h'
      · rename_i hge
        exact le_trans (not_lt.mp hge) (ih c h')

theorem candidate_quantised (n : Nat) (hn : 0 < n) (th1 a1 th2 a2 : Rat) (c : Rat)
    (hc : c ∈ candidates n th1 a1 th2 a2) :
    ∃ j : Int, (n : Rat) * c = (th2 - th1) - (n : Rat) * (a2 - a1) + (j : Rat) := by
  unfold candidates at hc
  simp only [List.mem_map, List.mem_range] at hc
  obtain ⟨k, _, rfl⟩ := hc
  obtain ⟨F, hF⟩ := angleDiff_eq (th2 / (n : Rat) - a2) ((th1 + (k : Rat)) / (n : Rat) - a1)
  refine ⟨-(k : Int) - (n : Int) * F, ?_⟩
  rw [hF]
  have hn' : (n : Rat) ≠ 0 := by exact_mod_cast (Nat.pos_iff_ne_zero.mp hn)
  push_cast
  field_simp
  ring

theorem edgeRot_quantised (n : Nat) (hn : 0 < n) (th1 a1 th2 a2 : Rat) :
    ∃ j : Int, (n : Rat) * edgeRot n th1 a1 th2 a2 = (th2 - th1) - (n : Rat) * (a2 - a1) + (j : Rat) := by
  apply candidate_quantised n hn th1 a1 th2 a2
  unfold edgeRot
  apply argminAbs_mem
  unfold candidates
  intro h
  have := congrArg List.length h
  simp at this
  omega

theorem signedSum_cons (q : MEdge → Rat) (e : MEdge) (es : List MEdge) (v : Nat) :
    signedSum q (e :: es) v = (sigma e.a e.b v : Rat) * q e + signedSum q es v := by
  unfold signedSum
  simp only [List.foldr]
  rw [edgeContrib_eq]

theorem vertexAngle_map_cons (n : Nat) (defect : Nat → Rat) (e : MEdge) (es : List MEdge) (v : Nat) :
    vertexAngle defect ((e :: es).map (MEdge.toR n)) v
      = vertexAngle defect (es.map (MEdge.toR n)) v + (sigma e.a e.b v : Rat) * edgeRot n e.th1 e.a1 e.th2 e.a2 := by
  simp only [List.map_cons]
  rw [vertexAngle_cons, edgeContrib_eq]
  simp [MEdge.toR]

theorem index_decomposition (n : Nat) (hn : 0 < n) (defect : Nat → Rat) : ∀ (es : List MEdge) (v : Nat),
    ∃ J : Int, (n : Rat) * vertexAngle defect (es.map (MEdge.toR n)) v
      = (n : Rat) * geomSum defect es v + thetaSum es v + (J : Rat)
  | [], v => ⟨0, by simp [vertexAngle, geomSum, thetaSum, signedSum]⟩
  | e :: es, v => by
    obtain ⟨J, hJ⟩ := index_decomposition n hn defect es v
    obtain ⟨j, hj⟩ := edgeRot_quantised n hn e.th1 e.a1 e.th2 e.a2
    refine ⟨J + sigma e.a e.b v * j, ?_⟩
    rw [vertexAngle_map_cons]
    unfold geomSum thetaSum at *
    rw [signedSum_cons, signedSum_cons]
    push_cast
    have e1 : (n : Rat) * (vertexAngle defect (es.map (MEdge.toR n)) v + (sigma e.a e.b v : Rat) * edgeRot n e.th1 e.a1 e.th2 e.a2)
        = (n : Rat) * vertexAngle defect (es.map (MEdge.toR n)) v
          + (sigma e.a e.b v : Rat) * ((n : Rat) * edgeRot n e.th1 e.a1 e.th2 e.a2) := by ring
    rw [e1, hJ, hj]
    ring

/-! ### Hermitian structure -/
theorem contrib_herm (e : Entry) (h : e.oji = cconj e.oij) (a b : Nat) :
    contrib e a b = cconj (contrib e b a) := by
  unfold contrib
  rw [cconj_cadd, cconj_cadd, cconj_cadd]
  have t1 : (if a = e.i ∧ b = e.i then ofReal e.dii else czero) = cconj (if b = e.i ∧ a = e.i then ofReal e.dii else czero) := by
    by_cases h1 : a = e.i ∧ b = e.i
    · rw [if_pos h1, if_pos ⟨h1.2, h1.1⟩, cconj_ofReal]
    · rw [if_neg h1, if_neg (fun h' => h1 ⟨h'.2, h'.1⟩), cconj_czero]
  have t2 : (if a = e.j ∧ b = e.j then ofReal e.djj else czero) = cconj (if b = e.j ∧ a = e.j then ofReal e.djj else czero) := by
    by_cases h1 : a = e.j ∧ b = e.j
    · rw [if_pos h1, if_pos ⟨h1.2, h1.1⟩, cconj_ofReal]
    · rw [if_neg h1, if_neg (fun h' => h1 ⟨h'.2, h'.1⟩), cconj_czero]
  have t3 : (if a = e.i ∧ b = e.j then e.oij else czero) = cconj (if b = e.j ∧ a = e.i then e.oji else czero) := by
    by_cases h1 : a = e.i ∧ b = e.j
    · rw [if_pos h1, if_pos ⟨h1.2, h1.1⟩, h, cconj_cconj]
    · rw [if_neg h1, if_neg (fun h' => h1 ⟨h'.2, h'.1⟩), cconj_czero]
  have t4 : (if a = e.j ∧ b = e.i then e.oji else czero) = cconj (if b = e.i ∧ a = e.j then e.oij else czero) := by
    by_cases h1 : a = e.j ∧ b = e.i
    · rw [if_pos h1, if_pos ⟨h1.2, h1.1⟩, h]
    · rw [if_neg h1, if_neg (fun h' => h1 ⟨h'.2, h'.1⟩), cconj_czero]
  rw [← t1, ← t2, ← t3, ← t4]
  congr 1
  exact cadd_comm _ _

theorem coeff_herm : ∀ (es : List Entry), (∀ e ∈ es, e.oji = cconj e.oij) → ∀ a b, coeff es a b = cconj (coeff es b a)
  | [], _, a, b => by simp [coeff, cconj_czero]
  | e :: es, h, a, b => by
    have ih := coeff_herm es (fun e' he' => h e' (by simp [he'])) a b
    unfold coeff at *
    simp only [List.foldr]
    rw [cconj_cadd, ← ih, ← contrib_herm e (h e (by simp)) a b]

theorem entryFace_herm (t1 t2 : Nat) (w : Rat) (t : Cpx) : (entryFace t1 t2 w t).oji = cconj (entryFace t1 t2 w t).oij := by
  unfold entryFace cconj cneg csmul; simp

theorem inverse_unit_is_conj (tij tji : Cpx) (hinv : cmul tij tji = cone) (hunit : normSq tij = 1) : tji = cconj tij := by
  obtain ⟨a, b⟩ := tij
  obtain ⟨c, d⟩ := tji
  unfold cmul cone at hinv
  unfold normSq at hunit
  simp only [Prod.mk.injEq] at hinv
  obtain ⟨h1, h2⟩ := hinv
  simp only at hunit h1 h2
  unfold cconj
  simp only [Prod.mk.injEq]
  constructor
  · linear_combination a * h1 + b * h2 - c * hunit
  · linear_combination a * h2 - b * h1 - d * hunit

theorem entryVert_herm (i j : Nat) (v : Rat) (tij tji : Cpx) (h : tji = cconj tij) :
    (entryVert i j v tij tji).oji = cconj (entryVert i j v tij tji).oij := by
  subst h
  unfold entryVert cconj cneg csmul; simp

/-! ### trivial transports -/
theorem ite_ofReal (c : Prop) [Decidable c] (x : Rat) : (if c then ofReal x else czero) = ofReal (if c then x else 0) := by
  split <;> rfl

theorem entryFace_cone (i j : Nat) (w : Rat) :
    entryFace i j w cone = { i := i, j := j, dii := w, djj := w, oij := ofReal (-w), oji := ofReal (-w) } := by
  unfold entryFace
  simp [cone, normSq, cconj, csmul, cneg, ofReal]

theorem entryVert_cone (i j : Nat) (w : Rat) :
    entryVert i j w cone cone = { i := i, j := j, dii := w, djj := w, oij := ofReal (-w), oji := ofReal (-w) } := by
  unfold entryVert
  simp [cone, csmul, cneg, ofReal]

theorem contrib_real (i j : Nat) (w : Rat) (a b : Nat) :
    contrib { i := i, j := j, dii := w, djj := w, oij := ofReal (-w), oji := ofReal (-w) } a b = ofReal (contribS i j w a b) := by
  unfold contrib contribS
  simp only [ite_ofReal, cadd_ofReal]

theorem contrib_flat_face (i j : Nat) (w : Rat) (a b : Nat) :
    contrib (entryFace i j w cone) a b = ofReal (contribS i j w a b) := by
  rw [entryFace_cone, contrib_real]

theorem contrib_flat_vert (i j : Nat) (w : Rat) (a b : Nat) :
    contrib (entryVert i j w cone cone) a b = ofReal (contribS i j w a b) := by
  rw [entryVert_cone, contrib_real]

theorem coeff_flat_face : ∀ (es : List (Nat × Nat × Rat)) (a b : Nat),
    coeff (es.map (fun e => entryFace e.1 e.2.1 e.2.2 cone)) a b = ofReal (coeffS es a b)
  | [], a, b => by simp [coeff, coeffS, ofReal, czero]
  | e :: es, a, b => by
    have ih := coeff_flat_face es a b
    unfold coeff coeffS at *
    simp only [List.map_cons, List.foldr]
    rw [ih, contrib_flat_face, cadd_ofReal]

theorem coeff_flat_vert : ∀ (es : List (Nat × Nat × Rat)) (a b : Nat),
    coeff (es.map (fun e => entryVert e.1 e.2.1 e.2.2 cone cone)) a b = ofReal (coeffS es a b)
  | [], a, b => by simp [coeff, coeffS, ofReal, czero]
  | e :: es, a, b => by
    have ih := coeff_flat_vert es a b
    unfold coeff coeffS at *
    simp only [List.map_cons, List.foldr]
    rw [ih, contrib_flat_vert, cadd_ofReal]


/-! ### representation power -/
theorem normSq_cmul (a b : Cpx) : normSq (cmul a b) = normSq a * normSq b := by
  unfold normSq cmul; simp only; ring

theorem normSq_cpow (z : Cpx) (n : Nat) : normSq (cpow z n) = (normSq z) ^ n := by
  induction n with
  | zero => simp [cpow, cone, normSq]
  | succ n ih => simp only [cpow, normSq_cmul, ih]; ring

theorem cmul_cneg (a b : Cpx) : cmul (cneg a) b = cneg (cmul a b) := by
  unfold cmul cneg; simp only; ext <;> simp <;> ring

theorem cmul_cneg_right (a b : Cpx) : cmul a (cneg b) = cneg (cmul a b) := by
  unfold cmul cneg; simp only; ext <;> simp <;> ring

theorem cneg_cneg (a : Cpx) : cneg (cneg a) = a := by
  unfold cneg; simp

theorem cpow_cneg_odd (u : Cpx) (k : Nat) : cpow (cneg u) (2 * k + 1) = cneg (cpow u (2 * k + 1)) := by
  induction k with
  | zero => simp [cpow, cmul_cneg]
  | succ k ih =>
    have e : 2 * (k + 1) + 1 = (2 * k + 1) + 1 + 1 := by ring
    rw [e]
    simp only [cpow] at *
    rw [ih, cmul_cneg, cmul_cneg]
    simp only [cmul_cneg_right, cneg_cneg]

theorem cadd_cneg (a : Cpx) : cadd a (cneg a) = czero := by
  unfold cadd cneg czero; simp

/-! ### flags -/
theorem getD_set_true (l : List Bool) (i j : Nat) (h : l.getD i false = true) : (l.set j true).getD i false = true := by
  by_cases hij : j = i
  · subst hij
    have hlt : j < l.length := by
      by_contra hge
      have : l.getD j false = false := by
        rw [List.getD_eq_getElem?_getD, List.getElem?_eq_none (by omega)]; rfl
      rw [this] at h; exact Bool.noConfusion h
    simp [List.getD_eq_getElem?_getD, List.getElem?_set_self hlt]
  · rw [getD_set_ne l i j true false hij]; exact h

theorem getD_set_self_true (l : List Bool) (i : Nat) (h : i < l.length) : (l.set i true).getD i false = true := by
  simp [List.getD_eq_getElem?_getD, List.getElem?_set_self h]

def stepFlags (fl : List Bool) (p : Option Nat × Option Nat) : List Bool :=
  let fl := match p.1 with | some t => fl.set t true | none => fl
  match p.2 with | some t => fl.set t true | none => fl

theorem stepFlags_length (fl : List Bool) (p : Option Nat × Option Nat) : (stepFlags fl p).length = fl.length := by
  unfold stepFlags
  rcases p with ⟨a, b⟩
  cases a <;> cases b <;> simp

theorem stepFlags_mono (fl : List Bool) (p : Option Nat × Option Nat) (i : Nat) (h : fl.getD i false = true) :
    (stepFlags fl p).getD i false = true := by
  unfold stepFlags
  rcases p with ⟨a, b⟩
  cases a <;> cases b <;> simp only <;> first | exact h | (apply getD_set_true; first | exact h | (apply getD_set_true; exact h))

theorem stepFlags_sets (fl : List Bool) (p : Option Nat × Option Nat) (t : Nat) (ht : t < fl.length)
    (hp : p.1 = some t ∨ p.2 = some t) : (stepFlags fl p).getD t false = true := by
  unfold stepFlags
  rcases p with ⟨a, b⟩
  rcases hp with h | h
  · simp only at h; subst h
    cases b with
    | none => simp only; exact getD_set_self_true fl t ht
    | some u => simp only; exact getD_set_true _ t u (getD_set_self_true fl t ht)
  · simp only at h; subst h
    cases a with
    | none => simp only; exact getD_set_self_true fl t ht
    | some u => simp only; exact getD_set_self_true _ t (by simp; exact ht)

theorem foldl_stepFlags_mono : ∀ (adj : List (Option Nat × Option Nat)) (fl : List Bool) (i : Nat),
    fl.getD i false = true → (adj.foldl stepFlags fl).getD i false = true
  | [], _, _, h => h
  | p :: ps, fl, i, h => foldl_stepFlags_mono ps (stepFlags fl p) i (stepFlags_mono fl p i h)

theorem foldl_stepFlags_sets : ∀ (adj : List (Option Nat × Option Nat)) (fl : List Bool) (t : Nat), t < fl.length →
    (∃ p ∈ adj, p.1 = some t ∨ p.2 = some t) → (adj.foldl stepFlags fl).getD t false = true
  | [], _, _, _, h => by obtain ⟨p, hp, _⟩ := h; simp at hp
  | q :: qs, fl, t, ht, h => by
    obtain ⟨p, hp, hpt⟩ := h
    simp only [List.foldl]
    rcases List.mem_cons.mp hp with rfl | hp'
    · exact foldl_stepFlags_mono qs _ t (stepFlags_sets fl p t ht hpt)
    · exact foldl_stepFlags_sets qs (stepFlags fl q) t (by rw [stepFlags_length]; exact ht) ⟨p, hp', hpt⟩

theorem fixedFlagsFaces_eq (n : Nat) (adj : List (Option Nat × Option Nat)) :
    fixedFlagsFaces n adj = adj.foldl stepFlags (List.replicate n false) := rfl

end Mouette.Lemmas.C18
