import Mouette.Lemmas.SubdivComplete2
import Mouette.Lemmas.SubdivVolume
/-
C13 (round 2): `split_cell_as_fan` followed by `prepare()`: exactly 6 faces and 4 edges are completed, hence
V − E + F − C is preserved.
-/
namespace Mouette.Subdiv

theorem p12 (x y z : Nat) : [y, x, z].Perm [x, y, z] := List.Perm.swap x y [z]
theorem p23 (x y z : Nat) : [x, z, y].Perm [x, y, z] := List.Perm.cons x (List.Perm.swap y z [])
theorem prev3 (x y z : Nat) : [z, y, x].Perm [x, y, z] := by
  have := List.reverse_perm [x, y, z]; simpa using this

/-- V − E + F − C -/
def chiVol (m : Raw) : Int := (m.verts.length : Int) - m.edges.length + m.faces.length - m.cells.length

theorem mem_set_self' {α} (l : List α) (i : Nat) (x : α) (hi : i < l.length) : x ∈ l.set i x :=
  List.mem_iff_getElem.mpr ⟨i, by simpa using hi, by simp⟩

theorem cellFan_prepare_counts (m m' : Raw) (cid a b c d : Nat) (hc : m.cells[cid]? = some [a, b, c, d])
    (h : splitCellAsFan m cid = .ok m') (hF : FacesAreCellFaces m) (hwf : WF m) (hE : EdgesCoverSides m)
    (hcn : [a, b, c, d].Nodup) :
    (prepare m').verts.length = m.verts.length + 1 ∧ (prepare m').edges.length = m.edges.length + 4 ∧
    (prepare m').faces.length = m.faces.length + 6 ∧ (prepare m').cells.length = m.cells.length + 3 := by
  obtain ⟨ps, hp, hv, hce, hfa, hed⟩ := cellFan_spec m m' cid a b c d hc h
  obtain ⟨_, la, lb, lc, ld⟩ := pts4 m a b c d ps hp
  set ib := m.verts.length with hib
  have hi : cid < m.cells.length := by
    by_contra hcn'; rw [List.getElem?_eq_none (by omega)] at hc; cases hc
  have hcell : [a, b, c, d] ∈ m.cells := List.mem_of_getElem? hc
  simp only [List.nodup_cons, List.mem_cons, List.not_mem_nil, or_false, not_or, List.nodup_nil, and_true,
    not_false_eq_true] at hcn
  obtain ⟨⟨nab, nac, nad⟩, ⟨nbc, nbd⟩, ncd⟩ := hcn
  -- cells of the result
  have hcells : ∀ cell ∈ m'.cells, cell ∈ m.cells ∨ cell = [ib, b, c, d] ∨ cell = [a, ib, c, d] ∨ cell = [a, b, ib, d] ∨
      cell = [a, b, c, ib] := by
    intro cell hcm
    rw [hce] at hcm
    rcases List.mem_append.mp hcm with h1 | h1
    · rcases List.mem_or_eq_of_mem_set h1 with h2 | h2
      · exact Or.inl h2
      · exact Or.inr (Or.inl h2)
    · simp only [List.mem_cons, List.not_mem_nil, or_false] at h1
      rcases h1 with h1 | h1 | h1
      · exact Or.inr (Or.inr (Or.inl h1))
      · exact Or.inr (Or.inr (Or.inr (Or.inl h1)))
      · exact Or.inr (Or.inr (Or.inr (Or.inr h1)))
  have hC1 : [ib, b, c, d] ∈ m'.cells := by rw [hce]; exact List.mem_append_left _ (mem_set_self' _ _ _ hi)
  have hC2 : [a, ib, c, d] ∈ m'.cells := by rw [hce]; simp
  -- old faces are present (by key)
  have hold : ∀ f ∈ tetFaces [a, b, c, d], keyifyL f ∈ m.faces.map keyifyL := hF.2 _ hcell
  have o0 := hold [b, d, c] (by simp [tetFaces])
  have o1 := hold [a, c, d] (by simp [tetFaces])
  have o2 := hold [d, b, a] (by simp [tetFaces])
  have o3 := hold [a, b, c] (by simp [tetFaces])
  -- the six new keys
  let N6 : List (List Nat) := [keyifyL [ib, c, d], keyifyL [d, b, ib], keyifyL [ib, b, c], keyifyL [d, ib, a],
    keyifyL [a, ib, c], keyifyL [a, b, ib]]
  have hL : ∀ f ∈ m'.cells.flatMap tetFaces, keyifyL f ∈ m.faces.map keyifyL ∨ keyifyL f ∈ N6 := by
    intro f hf
    obtain ⟨cell, hcm, hfc⟩ := List.mem_flatMap.mp hf
    rcases hcells cell hcm with h1 | rfl | rfl | rfl | rfl
    · exact Or.inl (hF.2 cell h1 f hfc)
    all_goals
      simp only [tetFaces, List.mem_cons, List.not_mem_nil, or_false] at hfc
      rcases hfc with rfl | rfl | rfl | rfl
    · exact Or.inl o0
    · exact Or.inr (by simp [N6])
    · exact Or.inr (by simp [N6])
    · exact Or.inr (by simp [N6])
    · exact Or.inr (by rw [keyifyL_congr (p23 ib c d)]; simp [N6])
    · exact Or.inl o1
    · exact Or.inr (by simp [N6])
    · exact Or.inr (by simp [N6])
    · exact Or.inr (by rw [keyifyL_congr (p12 d b ib)]; simp [N6])
    · exact Or.inr (by rw [keyifyL_congr (prev3 d ib a)]; simp [N6])
    · exact Or.inl o2
    · exact Or.inr (by simp [N6])
    · exact Or.inr (by rw [keyifyL_congr (p12 ib b c)]; simp [N6])
    · exact Or.inr (by rw [keyifyL_congr (p23 a ib c)]; simp [N6])
    · exact Or.inr (by rw [keyifyL_congr (prev3 a b ib)]; simp [N6])
    · exact Or.inl o3
  have hN6L : ∀ k ∈ N6, k ∈ (m'.cells.flatMap tetFaces).map keyifyL := by
    have hC3 : [a, b, ib, d] ∈ m'.cells := by rw [hce]; simp
    intro k hk
    simp only [N6, List.mem_cons, List.not_mem_nil, or_false] at hk
    rcases hk with rfl | rfl | rfl | rfl | rfl | rfl
    · exact List.mem_map.mpr ⟨_, List.mem_flatMap.mpr ⟨_, hC1, by simp [tetFaces]⟩, rfl⟩
    · exact List.mem_map.mpr ⟨_, List.mem_flatMap.mpr ⟨_, hC1, by simp [tetFaces]⟩, rfl⟩
    · exact List.mem_map.mpr ⟨_, List.mem_flatMap.mpr ⟨_, hC1, by simp [tetFaces]⟩, rfl⟩
    · exact List.mem_map.mpr ⟨_, List.mem_flatMap.mpr ⟨_, hC2, by simp [tetFaces]⟩, rfl⟩
    · exact List.mem_map.mpr ⟨_, List.mem_flatMap.mpr ⟨_, hC2, by simp [tetFaces]⟩, rfl⟩
    · exact List.mem_map.mpr ⟨_, List.mem_flatMap.mpr ⟨_, hC3, by simp [tetFaces]⟩, rfl⟩
  -- a key containing the new vertex is not the key of an old face
  have hfresh : ∀ l : List Nat, ib ∈ l → keyifyL l ∉ m.faces.map keyifyL := by
    intro l hl hk
    obtain ⟨f, hf, e⟩ := List.mem_map.mp hk
    have := key_mem_of_eq e.symm ib hl
    exact absurd (hwf f hf ib this) (by omega)
  have hN6dis : ∀ k ∈ N6, k ∉ m.faces.map keyifyL := by
    intro k hk
    simp only [N6, List.mem_cons, List.not_mem_nil, or_false] at hk
    rcases hk with rfl | rfl | rfl | rfl | rfl | rfl <;> exact hfresh _ (by simp)
  have hN6nd : N6.Nodup := by
    have sep : ∀ (l₁ l₂ : List Nat) (t : Nat), t ∈ l₁ → t ∉ l₂ → keyifyL l₁ ≠ keyifyL l₂ :=
      fun l₁ l₂ t h1 h2 e => h2 (key_mem_of_eq e t h1)
    simp only [N6, List.nodup_cons, List.mem_cons, List.not_mem_nil, or_false, not_or, List.nodup_nil, and_true,
      not_false_eq_true]
    refine ⟨⟨?_, ?_, ?_, ?_, ?_⟩, ⟨?_, ?_, ?_, ?_⟩, ⟨?_, ?_, ?_⟩, ⟨?_, ?_⟩, ?_⟩
    · exact sep _ _ c (by simp) (by simp; omega)
    · exact sep _ _ d (by simp) (by simp; omega)
    · exact sep _ _ c (by simp) (by simp; omega)
    · exact sep _ _ d (by simp) (by simp; omega)
    · exact sep _ _ c (by simp) (by simp; omega)
    · exact sep _ _ d (by simp) (by simp; omega)
    · exact sep _ _ b (by simp) (by simp; omega)
    · exact sep _ _ d (by simp) (by simp; omega)
    · exact sep _ _ d (by simp) (by simp; omega)
    · exact sep _ _ b (by simp) (by simp; omega)
    · exact sep _ _ b (by simp) (by simp; omega)
    · exact sep _ _ c (by simp) (by simp; omega)
    · exact sep _ _ d (by simp) (by simp; omega)
    · exact sep _ _ d (by simp) (by simp; omega)
    · exact sep _ _ c (by simp) (by simp; omega)
  have hfaces : (completeFaces m').faces.length = m.faces.length + 6 := by
    rw [completeFaces_eq, hfa]
    have := completeFold_count keyifyL (m.faces.map keyifyL) m.faces (m'.cells.flatMap tetFaces) N6 hF.1 hN6nd hN6dis ?_
    · simpa [N6] using this
    · intro k
      constructor
      · rintro (hk | hk)
        · exact Or.inl hk
        · obtain ⟨f, hf, rfl⟩ := List.mem_map.mp hk
          exact hL f hf
      · rintro (hk | hk)
        · exact Or.inl hk
        · exact Or.inr (hN6L k hk)
  -- ### edges
  obtain ⟨hend, hesb, hcov⟩ := hE
  set m2 := completeFaces m' with hm2
  have hm2e : m2.edges = m.edges := by rw [hm2, (completeFaces_other m').2.1, hed]
  have hm2v : m2.verts = m'.verts := (completeFaces_other m').1
  -- sides of the faces of the old cell are edges
  have hfaceSides : ∀ face ∈ tetFaces [a, b, c, d], ∀ s ∈ sidesKeyed face, s ∈ m.edges := by
    intro face hface s hs
    obtain ⟨p, q, r, rfl, _, _, _, hd⟩ := tetFaces_mem a b c d face hface
    obtain ⟨d1, d2, d3⟩ := hd (by
      simp only [List.nodup_cons, List.mem_cons, List.not_mem_nil, or_false, not_or, List.nodup_nil, and_true,
        not_false_eq_true]
      exact ⟨⟨nab, nac, nad⟩, ⟨nbc, nbd⟩, ncd⟩)
    obtain ⟨f', hf', e⟩ := List.mem_map.mp (hold _ hface)
    exact hcov s (List.mem_flatMap.mpr ⟨f', hf', (sides_of_same_key f' p q r d1 d2 d3 e s).mpr hs⟩)
  have s0 := hfaceSides [b, d, c] (by simp [tetFaces])
  have s1 := hfaceSides [a, c, d] (by simp [tetFaces])
  have s3 := hfaceSides [a, b, c] (by simp [tetFaces])
  simp only [sidesKeyed_tri, List.mem_cons, List.not_mem_nil, or_false, forall_eq_or_imp, forall_eq] at s0 s1 s3
  have oldEdge : ∀ x y, x ∈ [a, b, c, d] → y ∈ [a, b, c, d] → x ≠ y → keyify x y ∈ m.edges := by
    intro x y hx hy hne
    simp only [List.mem_cons, List.not_mem_nil, or_false] at hx hy
    rcases hx with rfl | rfl | rfl | rfl <;> rcases hy with rfl | rfl | rfl | rfl <;>
      first
      | exact absurd rfl hne
      | exact s3.1
      | exact s3.2.1
      | exact s3.2.2
      | exact s1.2.1
      | exact s1.2.2
      | exact s0.1
      | (rw [keyify_comm]; first | exact s3.1 | exact s3.2.1 | exact s3.2.2 | exact s1.2.1 | exact s1.2.2 | exact s0.1)
  let N4 : List (Nat × Nat) := [(a, ib), (b, ib), (c, ib), (d, ib)]
  have pairKey : ∀ x y, x ∈ [a, b, c, d, ib] → y ∈ [a, b, c, d, ib] → x ≠ y → keyify x y ∈ m.edges ∨ keyify x y ∈ N4 := by
    intro x y hx hy hne
    by_cases hxi : x = ib
    · subst hxi
      have hy' : y ∈ [a, b, c, d] := by
        simp only [List.mem_cons, List.not_mem_nil, or_false] at hy ⊢
        rcases hy with h | h | h | h | h
        · exact Or.inl h
        · exact Or.inr (Or.inl h)
        · exact Or.inr (Or.inr (Or.inl h))
        · exact Or.inr (Or.inr (Or.inr h))
        · exact absurd h.symm hne
      have hylt : y < ib := by
        simp only [List.mem_cons, List.not_mem_nil, or_false] at hy'
        rcases hy' with rfl | rfl | rfl | rfl <;> assumption
      right; rw [keyify_sorted' hylt]
      simp only [List.mem_cons, List.not_mem_nil, or_false] at hy'
      simp only [N4, List.mem_cons, Prod.mk.injEq, and_true, List.not_mem_nil, or_false]
      exact hy'
    · by_cases hyi : y = ib
      · subst hyi
        have hx' : x ∈ [a, b, c, d] := by
          simp only [List.mem_cons, List.not_mem_nil, or_false] at hx ⊢
          rcases hx with h | h | h | h | h
          · exact Or.inl h
          · exact Or.inr (Or.inl h)
          · exact Or.inr (Or.inr (Or.inl h))
          · exact Or.inr (Or.inr (Or.inr h))
          · exact absurd h hxi
        have hxlt : x < ib := by
          simp only [List.mem_cons, List.not_mem_nil, or_false] at hx'
          rcases hx' with rfl | rfl | rfl | rfl <;> assumption
        right; rw [keyify_sorted hxlt]
        simp only [List.mem_cons, List.not_mem_nil, or_false] at hx'
        simp only [N4, List.mem_cons, Prod.mk.injEq, and_true, List.not_mem_nil, or_false]
        exact hx'
      · left
        refine oldEdge x y ?_ ?_ hne
        · simp only [List.mem_cons, List.not_mem_nil, or_false] at hx ⊢
          rcases hx with h | h | h | h | h
          · exact Or.inl h
          · exact Or.inr (Or.inl h)
          · exact Or.inr (Or.inr (Or.inl h))
          · exact Or.inr (Or.inr (Or.inr h))
          · exact absurd h hxi
        · simp only [List.mem_cons, List.not_mem_nil, or_false] at hy ⊢
          rcases hy with h | h | h | h | h
          · exact Or.inl h
          · exact Or.inr (Or.inl h)
          · exact Or.inr (Or.inr (Or.inl h))
          · exact Or.inr (Or.inr (Or.inr h))
          · exact absurd h hyi
  have hedges : (completeEdges m2).edges.length = m.edges.length + 4 := by
    have := completeEdges_count m2 N4 (by rw [hm2e]; intro e he; exact Nat.le_of_lt (hesb e he).1) (by rw [hm2e]; exact hend)
      ?_ ?_ ?_
    · simpa [hm2e, N4] using this
    · simp only [N4, List.nodup_cons, List.mem_cons, Prod.mk.injEq, List.not_mem_nil, or_false, not_or, List.nodup_nil,
        and_true, not_false_eq_true]
      omega
    · intro k hk hke
      rw [hm2e] at hke
      have := (hesb k hke).2
      simp only [N4, List.mem_cons, List.not_mem_nil, or_false] at hk
      rcases hk with rfl | rfl | rfl | rfl <;> simp at this <;> omega
    · intro k
      rw [hm2e]
      constructor
      · rintro (hk | hk)
        · exact Or.inl hk
        · obtain ⟨f, hf, hkf⟩ := List.mem_flatMap.mp hk
          rw [hm2, completeFaces_eq] at hf
          rcases completeFold_mem keyifyL _ _ f hf with h1 | ⟨h1, h2⟩
          · simp only at h1
            rw [hfa] at h1
            exact Or.inl (hcov k (List.mem_flatMap.mpr ⟨f, h1, hkf⟩))
          · simp only at h2
            rw [hfa] at h2
            obtain ⟨cell, hcm, hfc⟩ := List.mem_flatMap.mp h1
            have hnew : cell = [ib, b, c, d] ∨ cell = [a, ib, c, d] ∨ cell = [a, b, ib, d] ∨ cell = [a, b, c, ib] := by
              rcases hcells cell hcm with h3 | h3
              · exact absurd (hF.2 cell h3 f hfc) h2
              · exact h3
            have hsub : ∀ v ∈ cell, v ∈ [a, b, c, d, ib] := by
              intro v hv
              rcases hnew with rfl | rfl | rfl | rfl <;>
                (simp only [List.mem_cons, List.not_mem_nil, or_false] at hv ⊢; tauto)
            have hcnd : cell.Nodup := by
              rcases hnew with rfl | rfl | rfl | rfl <;>
                (simp only [List.nodup_cons, List.mem_cons, List.not_mem_nil, or_false, not_or, List.nodup_nil, and_true,
                  not_false_eq_true]; omega)
            obtain ⟨v0, v1, v2, v3, rfl⟩ : ∃ v0 v1 v2 v3, cell = [v0, v1, v2, v3] := by
              rcases hnew with rfl | rfl | rfl | rfl <;> exact ⟨_, _, _, _, rfl⟩
            obtain ⟨p, q, r, rfl, hp', hq', hr', hd⟩ := tetFaces_mem v0 v1 v2 v3 f hfc
            obtain ⟨d1, d2, d3⟩ := hd hcnd
            simp only [sidesKeyed_tri, List.mem_cons, List.not_mem_nil, or_false] at hkf
            rcases hkf with rfl | rfl | rfl
            · exact pairKey p q (hsub p hp') (hsub q hq') d1
            · exact pairKey q r (hsub q hq') (hsub r hr') d2
            · exact pairKey r p (hsub r hr') (hsub p hp') d3
      · rintro (hk | hk)
        · exact Or.inl hk
        · right
          have side : ∀ (x y z : Nat) (s : Nat × Nat), x ≠ y → y ≠ z → z ≠ x → [x, y, z] ∈ m'.cells.flatMap tetFaces →
              s ∈ sidesKeyed [x, y, z] → s ∈ m2.faces.flatMap sidesKeyed := by
            intro x y z s h1 h2 h3 hmem hs
            obtain ⟨g, hg, e⟩ := completeFaces_has_key m' [x, y, z] hmem
            exact List.mem_flatMap.mpr ⟨g, hg, (sides_of_same_key g x y z h1 h2 h3 e s).mpr hs⟩
          have f1 : [ib, c, d] ∈ m'.cells.flatMap tetFaces := List.mem_flatMap.mpr ⟨_, hC1, by simp [tetFaces]⟩
          have f2 : [d, b, ib] ∈ m'.cells.flatMap tetFaces := List.mem_flatMap.mpr ⟨_, hC1, by simp [tetFaces]⟩
          have f3 : [d, ib, a] ∈ m'.cells.flatMap tetFaces := List.mem_flatMap.mpr ⟨_, hC2, by simp [tetFaces]⟩
          simp only [N4, List.mem_cons, List.not_mem_nil, or_false] at hk
          rcases hk with rfl | rfl | rfl | rfl
          · exact side d ib a _ (by omega) (by omega) (by omega) f3 (by simp [sidesKeyed_tri, keyify_sorted' la])
          · exact side d b ib _ (by omega) (by omega) (by omega) f2 (by simp [sidesKeyed_tri, keyify_sorted lb])
          · exact side ib c d _ (by omega) (by omega) (by omega) f1 (by simp [sidesKeyed_tri, keyify_sorted' lc])
          · exact side ib c d _ (by omega) (by omega) (by omega) f1 (by simp [sidesKeyed_tri, keyify_sorted ld])
  refine ⟨?_, hedges, hfaces, ?_⟩
  · show (completeEdges (completeFaces m')).verts.length = _
    have : (completeEdges (completeFaces m')).verts = m'.verts := rfl
    rw [this, hv]; simp only [List.length_append, List.length_cons, List.length_nil]; omega
  · show (completeEdges (completeFaces m')).cells.length = _
    have : (completeEdges (completeFaces m')).cells = m'.cells := rfl
    rw [this, hce]; simp

/-- **V − E + F − C is preserved by `split_cell_as_fan` + `prepare()`** -/
theorem cellFan_chi (m m' : Raw) (cid a b c d : Nat) (hc : m.cells[cid]? = some [a, b, c, d])
    (h : splitCellAsFan m cid = .ok m') (hF : FacesAreCellFaces m) (hwf : WF m) (hE : EdgesCoverSides m)
    (hcn : [a, b, c, d].Nodup) : chiVol (prepare m') = chiVol m := by
  obtain ⟨hv, he, hf, hcc⟩ := cellFan_prepare_counts m m' cid a b c d hc h hF hwf hE hcn
  unfold chiVol; rw [hv, he, hf, hcc]; push_cast; omega

end Mouette.Subdiv
