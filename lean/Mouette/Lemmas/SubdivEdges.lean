import Mathlib.Data.List.Nodup
import Mathlib.Data.List.Perm.Basic
import Mathlib.Data.List.Pairwise
import Mouette.Lemmas.SubdivBlock
/-
C13 (round 2): the number of DISTINCT edges written by the 1→4 and 1→3-quads refinements.
`dedup` (the model of Python's `set`) of the 9·F keyified pairs has exactly 2E + 3F elements when the edge list of the
input is exactly the set of undirected sides of its (non-degenerate triangular) faces.
-/
namespace Mouette.Subdiv

/-! ### `dedup` is a duplicate-free list with the same members -/

theorem dedup_foldl_spec {α} [BEq α] [LawfulBEq α] : ∀ (l acc : List α), acc.Nodup →
    (l.foldl (fun acc x => if acc.elem x then acc else acc ++ [x]) acc).Nodup ∧
    ∀ x, x ∈ l.foldl (fun acc x => if acc.elem x then acc else acc ++ [x]) acc ↔ x ∈ acc ∨ x ∈ l
  | [], acc, h => by simp [h]
  | a :: t, acc, h => by
    simp only [List.foldl_cons]
    by_cases ha : acc.elem a = true
    · have hm : a ∈ acc := List.elem_iff.mp ha
      simp only [ha, if_true]
      obtain ⟨h1, h2⟩ := dedup_foldl_spec t acc h
      refine ⟨h1, fun x => ?_⟩
      rw [h2 x]; simp only [List.mem_cons]
      constructor
      · rintro (h | h); exact Or.inl h; exact Or.inr (Or.inr h)
      · rintro (h | h | h); exact Or.inl h; exact Or.inl (h ▸ hm); exact Or.inr h
    · have hm : a ∉ acc := fun hc => ha (List.elem_iff.mpr hc)
      have ha' : acc.elem a = false := by simpa using ha
      simp only [ha', Bool.false_eq_true, if_false]
      have hnd : (acc ++ [a]).Nodup := by
        rw [List.nodup_append]
        refine ⟨h, List.nodup_singleton a, ?_⟩
        intro x hx y hy
        simp only [List.mem_singleton] at hy
        subst hy
        exact fun e => hm (e ▸ hx)
      obtain ⟨h1, h2⟩ := dedup_foldl_spec t (acc ++ [a]) hnd
      refine ⟨h1, fun x => ?_⟩
      rw [h2 x]; simp only [List.mem_append, List.mem_cons]
      tauto

theorem dedup_nodup {α} [BEq α] [LawfulBEq α] (l : List α) : (dedup l).Nodup :=
  (dedup_foldl_spec l [] List.nodup_nil).1

theorem mem_dedup {α} [BEq α] [LawfulBEq α] (l : List α) (x : α) : x ∈ dedup l ↔ x ∈ l := by
  have := (dedup_foldl_spec l [] List.nodup_nil).2 x
  simpa [dedup] using this

theorem length_eq_of_nodup_of_mem_iff {α} [DecidableEq α] (l₁ l₂ : List α) (h1 : l₁.Nodup) (h2 : l₂.Nodup)
    (h : ∀ x, x ∈ l₁ ↔ x ∈ l₂) : l₁.length = l₂.length :=
  ((List.perm_ext_iff_of_nodup h1 h2).2 h).length_eq

/-! ### the two halves of every edge -/

/-- (endpoint, midpoint index) for both endpoints of every edge, midpoint indices counting up from `c` -/
def halvesOf : List (Nat × Nat) → Nat → List (Nat × Nat)
  | [], _ => []
  | e :: es, c => (e.1, c) :: (e.2, c) :: halvesOf es (c + 1)

theorem halvesOf_length : ∀ (es : List (Nat × Nat)) (c : Nat), (halvesOf es c).length = 2 * es.length
  | [], _ => rfl
  | e :: es, c => by simp [halvesOf, halvesOf_length es (c + 1)]; ring

theorem mem_halvesOf : ∀ (es : List (Nat × Nat)) (c : Nat) (x : Nat × Nat),
    x ∈ halvesOf es c ↔ ∃ i, ∃ (hi : i < es.length), x.2 = c + i ∧ (x.1 = es[i].1 ∨ x.1 = es[i].2)
  | [], c, x => by simp [halvesOf]
  | e :: es, c, x => by
    simp only [halvesOf, List.mem_cons, mem_halvesOf es (c + 1) x]
    constructor
    · rintro (h | h | ⟨i, hi, h2, h3⟩)
      · exact ⟨0, by simp, by simp [h], by simp [h]⟩
      · exact ⟨0, by simp, by simp [h], by simp [h]⟩
      · exact ⟨i + 1, by simpa using hi, by omega, by simpa using h3⟩
    · rintro ⟨i, hi, h2, h3⟩
      cases i with
      | zero =>
        simp only [List.getElem_cons_zero] at h3
        rcases h3 with h3 | h3
        · left; exact Prod.ext h3 (by simpa using h2)
        · right; left; exact Prod.ext h3 (by simpa using h2)
      | succ j =>
        right; right
        exact ⟨j, by simpa using hi, by omega, by simpa using h3⟩

theorem nodup_halvesOf : ∀ (es : List (Nat × Nat)) (c : Nat), (∀ e ∈ es, e.1 ≠ e.2) → (halvesOf es c).Nodup
  | [], _, _ => List.nodup_nil
  | e :: es, c, h => by
    have ih := nodup_halvesOf es (c + 1) (fun x hx => h x (by simp [hx]))
    have hne := h e (by simp)
    have hnot : ∀ y, (y, c) ∉ halvesOf es (c + 1) := by
      intro y hy
      obtain ⟨i, _, h2, _⟩ := (mem_halvesOf es (c + 1) (y, c)).mp hy
      simp at h2; omega
    simp only [halvesOf, List.nodup_cons, List.mem_cons, not_or]
    exact ⟨⟨fun e' => hne (by simpa using congrArg Prod.fst e'), hnot _⟩, hnot _, ih⟩

/-! ### counting lemma shared by the 1→4 and the 1→3 refinement -/

theorem count_refined_edges {β} (edges : List (Nat × Nat)) (base : Nat) (parts : List (β × List (Nat × Nat)))
    (hedges : ∀ e ∈ edges, e.1 ≠ e.2 ∧ e.1 < base ∧ e.2 < base)
    (hS1 : ∀ x, x ∈ parts.flatMap (fun p => p.2.take 6) ↔ x ∈ halvesOf edges base)
    (hS2 : ∀ p ∈ parts, (p.2.drop 6).length = 3 ∧ (p.2.drop 6).Nodup ∧ ∀ x ∈ p.2.drop 6, base ≤ x.1)
    (hpw : parts.Pairwise (fun p q => ∀ x ∈ p.2.drop 6, x ∉ q.2.drop 6)) :
    (dedup (parts.flatMap (·.2))).length = 2 * edges.length + 3 * parts.length := by
  set S2 := parts.flatMap (fun p => p.2.drop 6) with hS2def
  have hS2len : S2.length = 3 * parts.length :=
    flatMap_length_const (fun p : β × List (Nat × Nat) => p.2.drop 6) 3 parts (fun p hp => (hS2 p hp).1)
  have hS2nd : S2.Nodup := by
    rw [hS2def, List.nodup_flatMap]
    refine ⟨fun p hp => (hS2 p hp).2.1, ?_⟩
    refine hpw.imp ?_
    intro p q hpq
    simp only [Function.onFun, List.disjoint_left]
    exact hpq
  have hL : (halvesOf edges base ++ S2).Nodup := by
    rw [List.nodup_append]
    refine ⟨nodup_halvesOf edges base (fun e he => (hedges e he).1), hS2nd, ?_⟩
    intro x hx y hy hxy
    subst hxy
    obtain ⟨i, hi, _, h3⟩ := (mem_halvesOf edges base x).mp hx
    have hlt : x.1 < base := by
      have := hedges edges[i] (List.getElem_mem hi)
      rcases h3 with h3 | h3 <;> rw [h3] <;> omega
    obtain ⟨p, hp, hxp⟩ := List.mem_flatMap.mp hy
    have := (hS2 p hp).2.2 x hxp
    omega
  have hmem : ∀ x, x ∈ dedup (parts.flatMap (·.2)) ↔ x ∈ halvesOf edges base ++ S2 := by
    intro x
    rw [mem_dedup, List.mem_append, ← hS1 x]
    simp only [List.mem_flatMap, hS2def]
    constructor
    · rintro ⟨p, hp, hx⟩
      rw [← List.take_append_drop 6 p.2, List.mem_append] at hx
      rcases hx with hx | hx
      · exact Or.inl ⟨p, hp, hx⟩
      · exact Or.inr ⟨p, hp, hx⟩
    · rintro (⟨p, hp, hx⟩ | ⟨p, hp, hx⟩)
      · exact ⟨p, hp, List.mem_of_mem_take hx⟩
      · exact ⟨p, hp, List.mem_of_mem_drop hx⟩
  rw [length_eq_of_nodup_of_mem_iff _ _ (dedup_nodup _) hL hmem, List.length_append, halvesOf_length, hS2len]

end Mouette.Subdiv
