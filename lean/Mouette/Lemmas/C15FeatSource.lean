import Mathlib.Tactic.Linarith
import Mathlib.Tactic.FieldSimp
import Mathlib.Tactic.Ring
import Mouette.Generated.C15Feat
import Mouette.Model.Features
/-!
Bridges between the feature passes / corner flagging TRANSLATED from `mouette/processing/features.py`
(`Generated/C15Feat.lean`) and the hand-written model `Model/Features.lean`.
-/
namespace Mouette.Lemmas.C15FeatSource
open Mouette.Features Mouette.PySrc Mouette.FeatSource
open Mouette.Generated.C15Src

theorem foldl_filter_map {α β γ} (l : List α) (p : α → Bool) (g : α → β) (f : γ → β → γ) (a : γ) :
    ((l.filter p).map g).foldl f a = l.foldl (fun acc x => if p x then f acc (g x) else acc) a := by
  induction l generalizing a with
  | nil => rfl
  | cons x l ih =>
    rw [List.filter_cons, List.foldl_cons]
    cases hp : p x
    · simp only [Bool.false_eq_true, if_false]; exact ih a
    · simp only [if_true, List.map_cons, List.foldl_cons]; exact ih _

theorem foldl_congr_mem {α β} (l : List α) (f g : β → α → β) (h : ∀ b, ∀ x ∈ l, f b x = g b x) (b : β) :
    l.foldl f b = l.foldl g b := by
  induction l generalizing b with
  | nil => rfl
  | cons x l ih =>
    rw [List.foldl_cons, List.foldl_cons, h b x (List.mem_cons_self ..)]
    exact ih (fun b y hy => h b y (List.mem_cons_of_mem _ hy)) _

/-! ### pass 3: border -/
theorem border_bridge (env : FeatEnv) (ob : Bool) (es : List EdgeInfo) (hm : EnvMatches env es) (flags : BoolMap) :
    addBorderToFeatures env ob flags = borderPass es flags := by
  have hstep : addBorderToFeatures_for1_step env ob = fun (st : BoolMap) (x : Nat) => st ++ [x] := by
    funext st x; simp [addBorderToFeatures_for1_step, boolSet]
  have hboth : addBorderToFeatures env ob flags = env.boundaryEdges.foldl (fun (st : BoolMap) (x : Nat) => st ++ [x]) flags := by
    unfold addBorderToFeatures
    rw [hstep]
    cases hbe : env.boundaryEdges with
    | nil => rfl
    | cons x l => simp
  rw [hboth, hm.border, foldl_filter_map]
  rfl

/-! ### pass 1: declared hard edges -/
theorem hard_bridge (env : FeatEnv) (ob : Bool) (es : List EdgeInfo) (hm : EnvMatches env es) (th : Thresholds)
    (hth : th.hardDelta = 1 / 5) (flags : BoolMap) :
    addHardEdgesToFeatures env ob flags = hardPass th ob es flags := by
  unfold addHardEdgesToFeatures hardPass
  cases ob with
  | true => rfl
  | false =>
    simp only [Bool.false_eq_true, if_false]
    have h1 : (if env.hasHard then (env.hardIds).foldl (addHardEdgesToFeatures_for1_step env false ((1 : Rat) / 5)) flags else flags) =
        (if env.hasHard then env.hardIds else []).foldl (addHardEdgesToFeatures_for1_step env false ((1 : Rat) / 5)) flags := by
      cases env.hasHard <;> rfl
    rw [h1, hm.hard, foldl_filter_map]
    apply foldl_congr_mem
    intro fl p hp
    obtain ⟨x, e⟩ := p
    have hx : es[e]? = some x := List.mem_zipIdx_iff_getElem?.mp hp
    cases hh : x.hard
    · simp
    · simp only [if_true, Bool.true_and]
      unfold addHardEdgesToFeatures_for1_step
      simp only [hm.edge e x hx, hm.faces e x hx, hm.onBorder e x hx]
      cases ht1 : x.t1 with
      | none => simp [interior, ht1]
      | some f1 =>
        cases ht2 : x.t2 with
        | none => simp [interior, ht1, ht2]
        | some f2 =>
          simp only [hm.dot e x f1 f2 hx ht1 ht2, interior, ht1, ht2, Option.isSome_some, Bool.true_and, boolSet, hth, if_true]

/-! ### pass 2: crease edges -/
theorem enumerate_edges (env : FeatEnv) (es : List EdgeInfo) (hm : EnvMatches env es) :
    ((List.range env.nEdges).map fun e => (e, env.edge e)) = es.zipIdx.map (fun p => (p.2, (p.1.a, p.1.b))) := by
  apply List.ext_getElem
  · simp [hm.nEdges]
  · intro i h1 h2
    simp only [List.length_map, List.length_range, hm.nEdges] at h1
    simp only [List.getElem_map, List.getElem_range, List.getElem_zipIdx, Nat.zero_add]
    rw [hm.edge i es[i] (List.getElem?_eq_getElem h1)]

theorem sharp_bridge (env : FeatEnv) (ob : Bool) (es : List EdgeInfo) (hm : EnvMatches env es) (th : Thresholds)
    (hth : th.sharp = 1 / 2) (flags : BoolMap) :
    addSharpAnglesToFeatures env ob flags = sharpPass th ob es flags := by
  unfold addSharpAnglesToFeatures sharpPass
  cases ob with
  | true => rfl
  | false =>
    simp only [Bool.false_eq_true, if_false]
    rw [enumerate_edges env es hm, List.foldl_map]
    apply foldl_congr_mem
    intro fl p hp
    obtain ⟨x, e⟩ := p
    have hx : es[e]? = some x := List.mem_zipIdx_iff_getElem?.mp hp
    unfold addSharpAnglesToFeatures_for1_step
    simp only [hm.faces e x hx]
    cases ht1 : x.t1 with
    | none => simp [interior, ht1]
    | some f1 =>
      cases ht2 : x.t2 with
      | none => simp [interior, ht1, ht2]
      | some f2 =>
        simp only [hm.dot e x f1 f2 hx ht1 ht2, interior, ht1, ht2, Option.isSome_some, Bool.true_and, boolSet, hth, if_true]

/-! ### corner flagging -/
theorem angle_loop (cenv : CornerEnv) (twoPi : Rat) (order : Nat) (fv : List Nat) (c0 : IntMap) (v : Nat) :
    (cenv.vertexToFaces v).foldl (flagCorners_for2_step cenv twoPi order fv c0 () v) (0 : Rat) = angleSum cenv v := by
  unfold angleSum
  apply foldl_congr_mem
  intro s T _
  show cenv.angle (cenv.cornerInFace v T) + s = s + cenv.angle (cenv.cornerInFace v T)
  exact add_comm _ _

theorem corner_rule (twoPi a : Rat) (order : Nat) (hT : 0 < twoPi) (ho : 0 < order) :
    (if decide (ratAbs a < twoPi / (order : Rat)) then (if decide ((0 : Rat) ≤ a) then (1 : Int) else -1)
      else roundHalfEven (a * (order : Rat) / twoPi)) = cornerOf (a * (order : Rat) / twoPi) := by
  have ho' : (0 : Rat) < (order : Rat) := by exact_mod_cast ho
  unfold cornerOf
  have hx : a * (order : Rat) / twoPi = a * ((order : Rat) / twoPi) := by ring
  have hpos : (0 : Rat) < (order : Rat) / twoPi := div_pos ho' hT
  have habs : ratAbs a < twoPi / (order : Rat) ↔ (-1 < a * (order : Rat) / twoPi ∧ a * (order : Rat) / twoPi < 1) := by
    unfold ratAbs
    rw [lt_div_iff₀ ho', lt_div_iff₀ hT, div_lt_iff₀ hT]
    split <;> constructor <;> intro h
    · constructor <;> nlinarith
    · nlinarith [h.1]
    · constructor <;> nlinarith
    · nlinarith [h.2]
  have hsign : (0 : Rat) ≤ a ↔ 0 ≤ a * (order : Rat) / twoPi := by
    rw [hx]
    constructor
    · intro h; exact mul_nonneg h hpos.le
    · intro h; by_contra hc; have : a < 0 := not_le.mp hc; nlinarith [mul_neg_of_neg_of_pos this hpos]
  by_cases h : ratAbs a < twoPi / (order : Rat)
  · have h' := habs.mp h
    simp only [h, decide_true, if_true, h'.1, h'.2, Bool.and_self]
    by_cases hs : (0 : Rat) ≤ a
    · simp [hs, hsign.mp hs]
    · have : ¬ (0 ≤ a * (order : Rat) / twoPi) := fun hh => hs (hsign.mpr hh)
      simp [hs, this]
  · have h' : ¬ (-1 < a * (order : Rat) / twoPi ∧ a * (order : Rat) / twoPi < 1) := fun hh => h (habs.mpr hh)
    simp only [h, decide_false, Bool.false_eq_true, if_false]
    have : (decide (-1 < a * (order : Rat) / twoPi) && decide (a * (order : Rat) / twoPi < 1)) = false := by
      simpa using h'
    rw [this]; rfl

/-- **bridge**: `_flag_corners` as translated writes, for every feature vertex in turn, the model's `cornerOf` of
`angle sum · order / 2π` -/
theorem flagCorners_bridge (cenv : CornerEnv) (twoPi : Rat) (order : Nat) (fv : List Nat) (c0 : IntMap)
    (hT : 0 < twoPi) (ho : 0 < order) :
    flagCorners cenv twoPi order fv c0 =
      fv.foldl (fun m v => (v, cornerOf (angleSum cenv v * (order : Rat) / twoPi)) :: m) c0 := by
  unfold flagCorners
  apply foldl_congr_mem
  intro m v _
  unfold flagCorners_for1_step
  simp only [angle_loop]
  rw [mul_comm ((order : Nat) : Rat) (angleSum cenv v), ← corner_rule twoPi (angleSum cenv v) order hT ho]
  by_cases h : ratAbs (angleSum cenv v) < twoPi / (order : Rat)
  · simp only [h, decide_true, if_true]
    first | done | rfl
  · simp only [h, decide_false, Bool.false_eq_true, if_false]
    first | done | rfl

/-- reading the result: the last write for a vertex wins; with `fv` a set (no repetition) every feature vertex holds its
own value, every other vertex keeps what the attribute held before -/
theorem foldl_corner_get (g : Nat → Int) (fv : List Nat) (c0 : IntMap) (v : Nat) :
    intGet (fv.foldl (fun m w => (w, g w) :: m) c0) v = if v ∈ fv then g v else intGet c0 v := by
  induction fv generalizing c0 with
  | nil => simp
  | cons w l ih =>
    rw [List.foldl_cons, ih]
    by_cases hv : v ∈ l
    · simp [hv]
    · simp only [hv, if_false, List.mem_cons, or_false]
      by_cases hw : v = w
      · subst hw; simp [intGet]
      · have : (w == v) = false := by simpa using fun h => hw h.symm
        simp [intGet, List.find?_cons, this, hw]

end Mouette.Lemmas.C15FeatSource
