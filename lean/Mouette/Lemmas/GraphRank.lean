import Mathlib.Tactic.Linarith
import Mouette.Lemmas.TreesKruskal
/-
Counting connected components of an edge list on the vertices `0..n-1`, and the exchange (Steinitz) bound of
the graphic matroid:  an acyclic edge list whose edges lie in the span of `B` has at most `|B|` edges.

  `CR L`       : connectivity through the pairs of `L` (equivalence closure)
  `ncomp n R`  : number of `v < n` that are the least element of their `R`-class
-/
namespace Mouette.Trees
open Mouette.UF

/-- connectivity through the pairs of `L` -/
def CR (L : List (Nat × Nat)) : Nat → Nat → Prop := EqvClosure (fun a b => (a, b) ∈ L)

theorem CR.refl (L : List (Nat × Nat)) (a : Nat) : CR L a a := EqvClosure.refl a
theorem CR.symm {L : List (Nat × Nat)} {a b : Nat} (h : CR L a b) : CR L b a := EqvClosure.symm h
theorem CR.trans {L : List (Nat × Nat)} {a b c : Nat} (h : CR L a b) (k : CR L b c) : CR L a c :=
  EqvClosure.trans h k

theorem CR.mono {L L' : List (Nat × Nat)} (h : ∀ p ∈ L, p ∈ L') {a b : Nat} (e : CR L a b) : CR L' a b :=
  EqvClosure.mono (fun a b hab => h (a, b) hab) e

theorem CR_nil {a b : Nat} (h : CR [] a b) : a = b := by
  induction h with
  | rel h => simp at h
  | refl a => rfl
  | symm _ ih => exact ih.symm
  | trans _ _ i1 i2 => exact i1.trans i2

theorem CR_cons (p : Nat × Nat) (L : List (Nat × Nat)) (u v : Nat) :
    CR (p :: L) u v ↔ CR L u v ∨ (CR L u p.1 ∧ CR L p.2 v) ∨ (CR L u p.2 ∧ CR L p.1 v) := by
  unfold CR
  apply EqvClosure.insert_pair
  intro a b
  simp only [List.mem_cons]
  constructor
  · rintro (h | h)
    · right
      have h1 : a = p.1 := congrArg Prod.fst h
      have h2 : b = p.2 := congrArg Prod.snd h
      exact ⟨h1, h2⟩
    · exact Or.inl h
  · rintro (h | ⟨h1, h2⟩)
    · exact Or.inr h
    · left; subst h1; subst h2; rfl

/-- the span of `B` absorbs pairs it already connects -/
theorem CR_append_span {A B : List (Nat × Nat)} (h : ∀ p ∈ A, CR B p.1 p.2) {u v : Nat} :
    CR (A ++ B) u v ↔ CR B u v := by
  constructor
  · intro e
    induction e with
    | @rel a b hab =>
      rcases List.mem_append.mp hab with h' | h'
      · exact h (a, b) h'
      · exact EqvClosure.rel h'
    | refl a => exact CR.refl B a
    | symm _ ih => exact ih.symm
    | trans _ _ i1 i2 => exact i1.trans i2
  · exact CR.mono (fun p hp => List.mem_append_right _ hp)

/-! ### counting classes -/

open Classical in
/-- `v` is the least element of its class -/
noncomputable def isRep (R : Nat → Nat → Prop) (v : Nat) : Bool := decide (∀ u, u < v → ¬ R u v)

noncomputable def ncomp (n : Nat) (R : Nat → Nat → Prop) : Nat := (List.range n).countP (isRep R)

theorem isRep_iff {R : Nat → Nat → Prop} {v : Nat} : isRep R v = true ↔ ∀ u, u < v → ¬ R u v := by
  unfold isRep; simp

theorem ncomp_congr {n : Nat} {R R' : Nat → Nat → Prop} (h : ∀ u v, R u v ↔ R' u v) : ncomp n R = ncomp n R' := by
  unfold ncomp
  apply countP_range_congr
  intro i _
  have : (∀ u, u < i → ¬ R u i) ↔ (∀ u, u < i → ¬ R' u i) := by
    constructor <;> intro k u hu hr
    · exact k u hu ((h u i).mpr hr)
    · exact k u hu ((h u i).mp hr)
  unfold isRep
  simp [this]

/-- a coarser relation has fewer classes -/
theorem ncomp_mono {n : Nat} {R R' : Nat → Nat → Prop} (h : ∀ u v, R u v → R' u v) : ncomp n R' ≤ ncomp n R := by
  unfold ncomp
  apply List.countP_mono_left
  intro v _ hv
  rw [isRep_iff] at hv ⊢
  exact fun u hu hr => hv u hu (h u v hr)

theorem ncomp_le (n : Nat) (R : Nat → Nat → Prop) : ncomp n R ≤ n := by
  unfold ncomp
  have := List.countP_le_length (p := isRep R) (l := List.range n)
  simpa using this

theorem ncomp_eq (n : Nat) : ncomp n (fun a b => a = b) = n := by
  unfold ncomp
  have : ∀ v ∈ List.range n, isRep (fun a b => a = b) v = true := by
    intro v _
    rw [isRep_iff]
    intro u hu h
    omega
  rw [List.countP_eq_length.mpr this]
  simp

/-- least element of the class of `a` -/
theorem exists_rep {R : Nat → Nat → Prop} (hrefl : ∀ a, R a a) (a : Nat) :
    ∃ m, R m a ∧ m ≤ a ∧ ∀ u, u < m → ¬ R u a := by
  have key : ∀ k, (∃ u, u ≤ k ∧ R u a) → ∃ m, R m a ∧ ∀ u, u < m → ¬ R u a := by
    intro k
    induction k with
    | zero =>
      rintro ⟨u, hu, hr⟩
      have : u = 0 := by omega
      subst this
      exact ⟨0, hr, fun u hu => by omega⟩
    | succ k ih =>
      rintro ⟨u, hu, hr⟩
      by_cases h : ∃ u, u ≤ k ∧ R u a
      · exact ih h
      · have hk : u = k + 1 := by
          by_contra hne
          exact h ⟨u, by omega, hr⟩
        subst hk
        refine ⟨k + 1, hr, ?_⟩
        intro u' hu' hr'
        exact h ⟨u', by omega, hr'⟩
  obtain ⟨m, hm, hmin⟩ := key a ⟨a, le_refl _, hrefl a⟩
  refine ⟨m, hm, ?_, hmin⟩
  by_contra h
  exact hmin a (by omega) (hrefl a)

/-- merging two different classes removes exactly one class -/
theorem ncomp_merge {n : Nat} {R R' : Nat → Nat → Prop} (hrefl : ∀ a, R a a) (hsymm : ∀ a b, R a b → R b a)
    (htrans : ∀ a b c, R a b → R b c → R a c) {a b : Nat} (ha : a < n) (hb : b < n) (hab : ¬ R a b)
    (hR' : ∀ u v, R' u v ↔ R u v ∨ (R u a ∧ R b v) ∨ (R u b ∧ R a v)) :
    ncomp n R' + 1 = ncomp n R := by
  -- wlog the least element of the class of `a` is below the least element of the class of `b`
  have main : ∀ a b, a < n → b < n → ¬ R a b →
      (∀ u v, R' u v ↔ R u v ∨ (R u a ∧ R b v) ∨ (R u b ∧ R a v)) →
      ∀ ma mb, R ma a → (∀ u, u < ma → ¬ R u a) → R mb b → mb ≤ b → (∀ u, u < mb → ¬ R u b) → ma < mb →
      ncomp n R' + 1 = ncomp n R := by
    intro a b _ hb hab hR' ma mb hma hmina hmb hmbb hminb hlt
    unfold ncomp
    apply countP_range_flip mb n (by omega)
    · -- `mb` is a representative for `R`
      rw [isRep_iff]
      intro u hu hr
      exact hminb u hu (htrans _ _ _ hr hmb)
    · -- but not for `R'`
      have : ¬ (isRep R' mb = true) := by
        rw [isRep_iff]
        intro h
        exact h ma hlt ((hR' ma mb).mpr (Or.inr (Or.inl ⟨hma, hsymm _ _ hmb⟩)))
      simpa using this
    · intro v _ hv
      have : (isRep R' v = true) ↔ (isRep R v = true) := by
        rw [isRep_iff, isRep_iff]
        constructor
        · intro h u hu hr
          exact h u hu ((hR' u v).mpr (Or.inl hr))
        · intro h u hu hr
          rcases (hR' u v).mp hr with h1 | ⟨h1, h2⟩ | ⟨h1, h2⟩
          · exact h u hu h1
          · -- `v` is in the class of `b`, so `v = mb`
            have hvb : R v b := hsymm _ _ h2
            have : v = mb := by
              rcases Nat.lt_trichotomy v mb with h3 | h3 | h3
              · exact absurd hvb (hminb v h3)
              · exact h3
              · exact absurd (htrans _ _ _ hmb (hsymm _ _ hvb)) (h mb h3)
            exact hv this
          · -- `v` is in the class of `a` (so `v = ma`), `u` in the class of `b` (so `u ≥ mb > ma`)
            have hva : R v a := hsymm _ _ h2
            have hvma : v = ma := by
              rcases Nat.lt_trichotomy v ma with h3 | h3 | h3
              · exact absurd hva (hmina v h3)
              · exact h3
              · exact absurd (htrans _ _ _ hma (hsymm _ _ hva)) (h ma h3)
            have : mb ≤ u := by
              by_contra h3
              exact hminb u (by omega) h1
            omega
      cases h1 : isRep R' v <;> cases h2 : isRep R v <;> simp_all
  obtain ⟨ma, hma, hmaa, hmina⟩ := exists_rep hrefl a
  obtain ⟨mb, hmb, hmbb, hminb⟩ := exists_rep hrefl b
  have hne : ma ≠ mb := by
    intro h
    subst h
    exact hab (htrans _ _ _ (hsymm _ _ hma) hmb)
  rcases Nat.lt_or_gt_of_ne hne with h | h
  · exact main a b ha hb hab hR' ma mb hma hmina hmb hmbb hminb h
  · refine main b a hb ha (fun h => hab (hsymm _ _ h)) ?_ mb ma hmb hminb hma hmaa hmina h
    intro u v
    rw [hR' u v]
    constructor
    · rintro (h | h | h)
      · exact Or.inl h
      · exact Or.inr (Or.inr h)
      · exact Or.inr (Or.inl h)
    · rintro (h | h | h)
      · exact Or.inl h
      · exact Or.inr (Or.inr h)
      · exact Or.inr (Or.inl h)

/-! ### edge lists -/

/-- all endpoints are vertex ids `< n` -/
def InRange (n : Nat) (L : List (Nat × Nat)) : Prop := ∀ p ∈ L, p.1 < n ∧ p.2 < n

theorem ncomp_nil (n : Nat) : ncomp n (CR []) = n := by
  rw [ncomp_congr (R' := fun a b => a = b)]
  · exact ncomp_eq n
  · intro u v
    constructor
    · exact CR_nil
    · rintro rfl; exact CR.refl _ _

/-- adding an edge between two classes removes one class -/
theorem ncomp_cons_new {n : Nat} {p : Nat × Nat} {L : List (Nat × Nat)} (h1 : p.1 < n) (h2 : p.2 < n)
    (hnew : ¬ CR L p.1 p.2) : ncomp n (CR (p :: L)) + 1 = ncomp n (CR L) :=
  ncomp_merge (CR.refl L) (fun _ _ h => h.symm) (fun _ _ _ h k => h.trans k) h1 h2 hnew (CR_cons p L)

/-- adding an edge inside a class changes nothing -/
theorem ncomp_cons_old {n : Nat} {p : Nat × Nat} {L : List (Nat × Nat)} (hold : CR L p.1 p.2) :
    ncomp n (CR (p :: L)) = ncomp n (CR L) := by
  apply ncomp_congr
  intro u v
  have := CR_append_span (A := [p]) (B := L) (by intro q hq; simp at hq; subst hq; exact hold) (u := u) (v := v)
  simpa using this

/-- every edge list leaves at least `n − |L|` classes -/
theorem ncomp_ge {n : Nat} : ∀ L : List (Nat × Nat), InRange n L → n ≤ ncomp n (CR L) + L.length
  | [], _ => by rw [ncomp_nil]; simp
  | p :: L, h => by
    have ih := ncomp_ge L (fun q hq => h q (List.mem_cons_of_mem _ hq))
    have hp := h p (by simp)
    by_cases hc : CR L p.1 p.2
    · rw [ncomp_cons_old hc]; simp only [List.length_cons]; omega
    · have := ncomp_cons_new hp.1 hp.2 hc
      simp only [List.length_cons]; omega

/-- an acyclic edge list with `k` edges leaves exactly `n − k` classes -/
theorem ncomp_indep {n : Nat} : ∀ L : List (Nat × Nat), InRange n L → Indep L → ncomp n (CR L) + L.length = n
  | [], _, _ => by rw [ncomp_nil]; simp
  | p :: L, h, hi => by
    have ih := ncomp_indep L (fun q hq => h q (List.mem_cons_of_mem _ hq)) hi.1
    have hp := h p (by simp)
    have := ncomp_cons_new hp.1 hp.2 hi.2
    simp only [List.length_cons]; omega

/-- conversely: `n − |L|` classes force acyclicity (so acyclicity does not depend on the listing order) -/
theorem indep_of_ncomp {n : Nat} : ∀ L : List (Nat × Nat), InRange n L → ncomp n (CR L) + L.length = n → Indep L
  | [], _, _ => trivial
  | p :: L, h, he => by
    have hL : InRange n L := fun q hq => h q (List.mem_cons_of_mem _ hq)
    have hge := ncomp_ge L hL
    have hp := h p (by simp)
    by_cases hc : CR L p.1 p.2
    · rw [ncomp_cons_old hc] at he; simp only [List.length_cons] at he; omega
    · have := ncomp_cons_new hp.1 hp.2 hc
      simp only [List.length_cons] at he
      exact ⟨indep_of_ncomp L hL (by omega), hc⟩

theorem ncomp_perm {n : Nat} {L L' : List (Nat × Nat)} (h : L.Perm L') : ncomp n (CR L) = ncomp n (CR L') := by
  apply ncomp_congr
  intro u v
  exact ⟨CR.mono (fun p hp => h.mem_iff.mp hp), CR.mono (fun p hp => h.mem_iff.mpr hp)⟩

theorem Indep.perm {n : Nat} {L L' : List (Nat × Nat)} (hr : InRange n L) (h : L.Perm L') (hi : Indep L) : Indep L' := by
  have hr' : InRange n L' := fun p hp => hr p (h.mem_iff.mpr hp)
  apply indep_of_ncomp L' hr'
  rw [← ncomp_perm h, ← h.length_eq]
  exact ncomp_indep L hr hi

theorem Indep.sublist : ∀ {L L' : List (Nat × Nat)}, L'.Sublist L → Indep L → Indep L'
  | _, _, .slnil, _ => trivial
  | _, _, .cons _ hs, hi => Indep.sublist hs hi.1
  | _, _, .cons_cons p hs, hi =>
    ⟨Indep.sublist hs hi.1, fun h => hi.2 (CR.mono (fun _ hq => hs.subset hq) h)⟩

/-- Exchange bound (graphic matroid): an acyclic `A` inside the span of `B` has at most `|B|` edges. -/
theorem indep_le_of_span {n : Nat} {A B : List (Nat × Nat)} (hA : InRange n A) (hB : InRange n B) (hi : Indep A)
    (hspan : ∀ p ∈ A, CR B p.1 p.2) : A.length ≤ B.length := by
  have h1 := ncomp_indep A hA hi
  have h2 := ncomp_ge B hB
  have h3 : ncomp n (CR (A ++ B)) = ncomp n (CR B) := ncomp_congr (fun u v => CR_append_span hspan)
  have h4 : ncomp n (CR (A ++ B)) ≤ ncomp n (CR A) :=
    ncomp_mono (fun u v h => CR.mono (fun p hp => List.mem_append_left _ hp) h)
  omega

end Mouette.Trees
