import Mouette.Lemmas.C02CompleteBy
import Mouette.Lemmas.C02Prepare
/-
"No later behaviour depends on whether index rows were given as lists, tuples or numpy rows", on the model.

`Row β` is a value tagged with the Python container type it came in. `RawR` is the raw data with tagged index rows
(edges, faces, cells). `prepareR` is `RawMeshData.prepare` written over tagged rows, following the code for the tags:
`keyify` returns tuples (stored edges, completed edges and faces), `_prepare_faces` / `_prepare_cells` turn numpy
rows into lists, everything else keeps the row it was given. Every stage reads a row only through its value, so
`prepareR` commutes with forgetting the tags (`forget_prepareR`), hence two raw inputs with the same index values give
the same containers (`prepareR_values_only`); moreover no numpy row survives `prepareR` (`prepareR_no_numpy_rows`).
Core Lean only.
-/
set_option linter.unusedSimpArgs false
namespace Mouette.Prepare

inductive Row (β : Type) where
  | list (v : β)
  | tuple (v : β)
  | nparray (v : β)
  deriving Repr, DecidableEq

def Row.val {β : Type} : Row β → β
  | .list v => v
  | .tuple v => v
  | .nparray v => v

def Row.isNumpy {β : Type} : Row β → Bool
  | .nparray _ => true
  | _ => false

def Row.isTuple {β : Type} : Row β → Bool
  | .tuple _ => true
  | _ => false

/-- `row.tolist()` for numpy rows, the row itself otherwise (`_prepare_faces`, `_prepare_cells`) -/
def Row.unNumpy {β : Type} : Row β → Row β
  | .nparray v => .list v
  | r => r

/-- `row.tolist()` (vocabulary of the translated `_prepare_faces` / `_prepare_cells`) -/
def Row.tolist {β : Type} (r : Row β) : Row β := .list r.val
/-- `container[i]` on tagged rows -/
def rowGet (l : List (Row (List Nat))) (i : Nat) : Row (List Nat) := l.getD i (.list [])

@[simp] theorem Row.val_unNumpy {β : Type} (r : Row β) : r.unNumpy.val = r.val := by cases r <;> rfl
@[simp] theorem Row.val_tuple {β : Type} (v : β) : (Row.tuple v).val = v := rfl
theorem Row.unNumpy_not_numpy {β : Type} (r : Row β) : r.unNumpy.isNumpy = false := by cases r <;> rfl

structure RawR where
  verts : List (List Rat) := []
  edges : List (Row (Int × Int)) := []
  eattrs : List Attr := []
  faces : List (Row (List Nat)) := []
  fcElem : List Nat := []
  fcAdj : List Nat := []
  cells : List (Row (List Nat)) := []
  ccElem : List Nat := []
  ccAdj : List Nat := []
  cfElem : List Nat := []
  cfAdj : List Nat := []
  prepared : Bool := false

/-- forgetting the container type of every index row -/
def forget (x : RawR) : Raw :=
  { verts := x.verts, edges := x.edges.map Row.val, eattrs := x.eattrs, faces := x.faces.map Row.val,
    fcElem := x.fcElem, fcAdj := x.fcAdj, cells := x.cells.map Row.val, ccElem := x.ccElem, ccAdj := x.ccAdj,
    cfElem := x.cfElem, cfAdj := x.cfAdj, prepared := x.prepared }

/-! ### the stages over tagged rows -/

def completeFacesR (x : RawR) : RawR :=
  if x.cells.isEmpty then x
  else { x with faces := completeBy (fun r => keyF r.val) x.faces
                  ((x.cells.flatMap (fun c => cellFacesC c.val)).map Row.tuple) }

def completeEdgesR (x : RawR) : RawR :=
  if x.faces.isEmpty then x
  else
    { x with
      edges := completeBy (fun r => keyE r.val) x.edges ((validSides x.verts.length (x.faces.map Row.val)).map Row.tuple),
      eattrs := (if hasAttr x.eattrs hardName then x.eattrs else x.eattrs ++ [hardAttr x.edges.length]).map
        (expandAttr ((completeBy (fun r => keyE r.val) x.edges
          ((validSides x.verts.length (x.faces.map Row.val)).map Row.tuple)).length - x.edges.length)) }

def prepareVerticesR (x : RawR) : RawR := { x with verts := x.verts.map padVertex }

def prepareEdgesR (x : RawR) : RawR :=
  if x.edges.any (fun e => !validE x.verts.length e.val) then
    { x with edges := (x.edges.filter (fun e => validE x.verts.length e.val)).map (fun e => Row.tuple (keyE e.val)),
             eattrs := x.eattrs.map (reindexAttr (survIdx x.verts.length (x.edges.map Row.val) 0)) }
  else { x with edges := x.edges.map (fun e => Row.tuple (keyE e.val)) }

def prepareFacesR (x : RawR) : RawR := { x with faces := x.faces.map Row.unNumpy }
def prepareCellsR (x : RawR) : RawR := { x with cells := x.cells.map Row.unNumpy }

def genFaceCornersR (x : RawR) : RawR :=
  if x.fcElem.length = 0 ∨ x.fcElem.length ≠ ((x.faces.map Row.val).map List.length).sum then
    { x with fcElem := (x.faces.map Row.val).flatten, fcAdj := owners (x.faces.map Row.val) }
  else x

def genCellCornersR (x : RawR) : RawR :=
  if x.ccElem.length = 0 ∨ x.ccAdj.length = 0 ∨ x.ccElem.length ≠ ((x.cells.map Row.val).map List.length).sum
      ∨ x.ccAdj.length ≠ ((x.cells.map Row.val).map List.length).sum then
    if x.ccAdj.length = 0 ∧ x.ccElem.length > 0 then
      { x with ccAdj := [], ccElem := x.ccElem ++ owners (x.cells.map Row.val) }
    else { x with ccElem := (x.cells.map Row.val).flatten, ccAdj := owners (x.cells.map Row.val) }
  else x

def genCellFacesR (x : RawR) : Except String RawR :=
  match cellFaceIds ((x.faces.map Row.val).map keyF) (x.cells.map Row.val) with
  | .ok ids => .ok { x with cfElem := ids.flatten, cfAdj := owners ids }
  | .error e => .error e

def completedR (cfg : Cfg) (x : RawR) : RawR :=
  if cfg.ce then completeEdgesR (if cfg.cf then completeFacesR x else x) else (if cfg.cf then completeFacesR x else x)

/-- the per-container steps in the order of `prepare()` (with `_prepare_faces`, `_prepare_cells` at their place) -/
def stagesR (cfg : Cfg) (x : RawR) : RawR :=
  genCellCornersR (prepareCellsR (genFaceCornersR (prepareFacesR (prepareEdgesR (prepareVerticesR (completedR cfg x))))))

def prepareR (cfg : Cfg) (x : RawR) : Except String RawR :=
  if x.prepared then .ok x
  else
    match genCellFacesR (stagesR cfg x) with
    | .ok y => .ok { y with prepared := true }
    | .error e => .error e

def forgetE : Except String RawR → Except String Raw
  | .ok y => .ok (forget y)
  | .error e => .error e

/-! ### commutation with `forget` -/

theorem completeBy_map {α α' κ : Type} [DecidableEq κ] (f : α → α') (key : α' → κ) (acc cands : List α) :
    (completeBy (fun a => key (f a)) acc cands).map f = completeBy key (acc.map f) (cands.map f) := by
  induction cands generalizing acc with
  | nil => rfl
  | cons c cs ih =>
    simp only [completeBy, List.map_cons]
    have hm : (acc.map (fun a => key (f a))) = (acc.map f).map key := by simp
    by_cases h : key (f c) ∈ (acc.map f).map key
    · rw [if_pos (by rw [hm]; exact h), if_pos h]; exact ih acc
    · rw [if_neg (by rw [hm]; exact h), if_neg h]
      have := ih (acc ++ [c])
      simpa using this

theorem map_val_map_tuple {β : Type} (l : List β) : (l.map Row.tuple).map Row.val = l := by
  induction l with
  | nil => rfl
  | cons a l ih => simp [ih]

theorem completeBy_length_map {α α' κ : Type} [DecidableEq κ] (f : α → α') (key : α' → κ) (acc cands : List α) :
    (completeBy (fun a => key (f a)) acc cands).length = (completeBy key (acc.map f) (cands.map f)).length := by
  rw [← completeBy_map]; simp

theorem forget_completeFacesR (x : RawR) : forget (completeFacesR x) = completeFaces (forget x) := by
  unfold completeFacesR completeFaces
  by_cases h : x.cells.isEmpty = true
  · have : (forget x).cells.isEmpty = true := by simp [forget, List.isEmpty_iff] at h ⊢; exact h
    simp [h, this]
  · have h' : (forget x).cells.isEmpty = false := by
      simp [forget, List.isEmpty_iff] at h ⊢; exact h
    have h'' : x.cells.isEmpty = false := by simpa using h
    simp only [h'', h', Bool.false_eq_true, if_false]
    simp only [forget]
    rw [completeBy_map Row.val keyF, map_val_map_tuple]
    simp [List.flatMap_map]

theorem forget_completeEdgesR (x : RawR) : forget (completeEdgesR x) = completeEdges (forget x) := by
  unfold completeEdgesR completeEdges
  by_cases h : x.faces.isEmpty = true
  · have : (forget x).faces.isEmpty = true := by simp [forget, List.isEmpty_iff] at h ⊢; exact h
    simp [h, this]
  · have h' : (forget x).faces.isEmpty = false := by
      simp [forget, List.isEmpty_iff] at h ⊢; exact h
    have h'' : x.faces.isEmpty = false := by simpa using h
    simp only [h'', h', Bool.false_eq_true, if_false]
    simp only [forget]
    rw [completeBy_map Row.val keyE, completeBy_length_map Row.val keyE, map_val_map_tuple]
    simp [List.flatMap_map]

theorem forget_prepareVerticesR (x : RawR) : forget (prepareVerticesR x) = prepareVertices (forget x) := rfl

theorem forget_prepareEdgesR (x : RawR) : forget (prepareEdgesR x) = prepareEdges (forget x) := by
  unfold prepareEdgesR prepareEdges
  have hany : (forget x).edges.any (fun e => !validE (forget x).verts.length e)
      = x.edges.any (fun e => !validE x.verts.length e.val) := by
    simp [forget, List.any_map, Function.comp_def]
  rw [hany]
  by_cases h : x.edges.any (fun e => !validE x.verts.length e.val) = true
  · simp only [h, if_true]
    simp [forget, List.filter_map, Function.comp_def]
  · simp only [h, Bool.false_eq_true, if_false]
    simp [forget, Function.comp_def]

theorem forget_prepareFacesR (x : RawR) : forget (prepareFacesR x) = forget x := by
  simp [forget, prepareFacesR, Function.comp_def]

theorem forget_prepareCellsR (x : RawR) : forget (prepareCellsR x) = forget x := by
  simp [forget, prepareCellsR, Function.comp_def]

theorem forget_genFaceCornersR (x : RawR) : forget (genFaceCornersR x) = genFaceCorners (forget x) := by
  unfold genFaceCornersR genFaceCorners
  by_cases h : x.fcElem.length = 0 ∨ x.fcElem.length ≠ ((x.faces.map Row.val).map List.length).sum
  · have h' : (forget x).fcElem.length = 0 ∨ (forget x).fcElem.length ≠ ((forget x).faces.map List.length).sum := h
    rw [if_pos h, if_pos h']; rfl
  · have h' : ¬ ((forget x).fcElem.length = 0 ∨ (forget x).fcElem.length ≠ ((forget x).faces.map List.length).sum) := h
    rw [if_neg h, if_neg h']

theorem forget_genCellCornersR (x : RawR) : forget (genCellCornersR x) = genCellCorners (forget x) := by
  unfold genCellCornersR genCellCorners
  by_cases h : x.ccElem.length = 0 ∨ x.ccAdj.length = 0 ∨ x.ccElem.length ≠ ((x.cells.map Row.val).map List.length).sum
      ∨ x.ccAdj.length ≠ ((x.cells.map Row.val).map List.length).sum
  · have h' : (forget x).ccElem.length = 0 ∨ (forget x).ccAdj.length = 0 ∨
        (forget x).ccElem.length ≠ ((forget x).cells.map List.length).sum ∨
        (forget x).ccAdj.length ≠ ((forget x).cells.map List.length).sum := h
    rw [if_pos h, if_pos h']
    by_cases g : x.ccAdj.length = 0 ∧ x.ccElem.length > 0
    · have g' : (forget x).ccAdj.length = 0 ∧ (forget x).ccElem.length > 0 := g
      rw [if_pos g, if_pos g']; rfl
    · have g' : ¬ ((forget x).ccAdj.length = 0 ∧ (forget x).ccElem.length > 0) := g
      rw [if_neg g, if_neg g']; rfl
  · have h' : ¬ ((forget x).ccElem.length = 0 ∨ (forget x).ccAdj.length = 0 ∨
        (forget x).ccElem.length ≠ ((forget x).cells.map List.length).sum ∨
        (forget x).ccAdj.length ≠ ((forget x).cells.map List.length).sum) := h
    rw [if_neg h, if_neg h']

theorem forget_genCellFacesR (x : RawR) : forgetE (genCellFacesR x) = genCellFaces (forget x) := by
  unfold genCellFacesR genCellFaces
  have hk : cellFaceIds ((forget x).faces.map keyF) (forget x).cells
      = cellFaceIds ((x.faces.map Row.val).map keyF) (x.cells.map Row.val) := rfl
  rw [hk]
  cases cellFaceIds ((x.faces.map Row.val).map keyF) (x.cells.map Row.val) with
  | ok ids => rfl
  | error e => rfl

theorem forget_completedR (cfg : Cfg) (x : RawR) : forget (completedR cfg x) = completed cfg (forget x) := by
  unfold completedR completed
  cases cfg.ce <;> cases cfg.cf <;> simp [forget_completeEdgesR, forget_completeFacesR]

theorem forget_stagesR (cfg : Cfg) (x : RawR) : forget (stagesR cfg x) = stages cfg (forget x) := by
  unfold stagesR stages
  rw [forget_genCellCornersR, forget_prepareCellsR, forget_genFaceCornersR, forget_prepareFacesR,
    forget_prepareEdgesR, forget_prepareVerticesR, forget_completedR]

/-- `prepare` commutes with forgetting the container type of the index rows -/
theorem forget_prepareR (cfg : Cfg) (x : RawR) : forgetE (prepareR cfg x) = prepare cfg (forget x) := by
  unfold prepareR prepare
  have hp : (forget x).prepared = x.prepared := rfl
  rw [hp]
  by_cases h : x.prepared = true
  · simp [h, forgetE]
  · simp only [h, Bool.false_eq_true, if_false]
    rw [← forget_stagesR, ← forget_genCellFacesR]
    cases genCellFacesR (stagesR cfg x) with
    | ok y => simp [forgetE, forget]
    | error e => simp [forgetE]

/-- the answer depends only on the index VALUES: inputs that differ only in the container types of their rows give
results that differ only in the container types of their rows (same error or same containers) -/
theorem prepareR_values_only (cfg : Cfg) (x y : RawR) (h : forget x = forget y) :
    forgetE (prepareR cfg x) = forgetE (prepareR cfg y) := by
  rw [forget_prepareR, forget_prepareR, h]

/-! ### no numpy row survives -/

theorem completeBy_all {α κ : Type} [DecidableEq κ] (key : α → κ) (P : α → Prop) (acc cands : List α)
    (ha : ∀ a ∈ acc, P a) (hc : ∀ a ∈ cands, P a) : ∀ a ∈ completeBy key acc cands, P a := by
  intro a hm
  rcases completeBy_mem key acc cands a hm with h | h
  · exact ha a h
  · exact hc a h

/-- rows of `x` once `prepareR` succeeded on fresh data: every edge is a tuple, no face / cell row is a numpy row -/
theorem prepareR_no_numpy_rows (cfg : Cfg) (x y : RawR) (h0 : x.prepared = false) (h : prepareR cfg x = .ok y) :
    (∀ e ∈ y.edges, e.isTuple = true) ∧ (∀ f ∈ y.faces, f.isNumpy = false) ∧ (∀ c ∈ y.cells, c.isNumpy = false) := by
  unfold prepareR at h
  rw [h0] at h
  simp only [Bool.false_eq_true, if_false] at h
  have key : ∀ z, genCellFacesR (stagesR cfg x) = .ok z →
      (∀ e ∈ z.edges, e.isTuple = true) ∧ (∀ f ∈ z.faces, f.isNumpy = false) ∧ (∀ c ∈ z.cells, c.isNumpy = false) := by
    intro z hz
    have hfields : z.edges = (stagesR cfg x).edges ∧ z.faces = (stagesR cfg x).faces ∧ z.cells = (stagesR cfg x).cells := by
      unfold genCellFacesR at hz
      split at hz
      · injection hz with hz; subst hz; exact ⟨rfl, rfl, rfl⟩
      · cases hz
    rw [hfields.1, hfields.2.1, hfields.2.2]
    have he : (stagesR cfg x).edges = (prepareEdgesR (prepareVerticesR (completedR cfg x))).edges := by
      unfold stagesR genCellCornersR prepareCellsR genFaceCornersR prepareFacesR
      repeat' split
      all_goals rfl
    have hf : (stagesR cfg x).faces = ((prepareEdgesR (prepareVerticesR (completedR cfg x))).faces).map Row.unNumpy := by
      unfold stagesR genCellCornersR prepareCellsR genFaceCornersR prepareFacesR
      repeat' split
      all_goals rfl
    have hc : (stagesR cfg x).cells = ((prepareEdgesR (prepareVerticesR (completedR cfg x))).cells).map Row.unNumpy := by
      unfold stagesR genCellCornersR prepareCellsR genFaceCornersR prepareFacesR
      repeat' split
      all_goals rfl
    refine ⟨?_, ?_, ?_⟩
    · rw [he]
      unfold prepareEdgesR
      split
      · intro e hm; simp only [List.mem_map] at hm; obtain ⟨_, _, rfl⟩ := hm; rfl
      · intro e hm; simp only [List.mem_map] at hm; obtain ⟨_, _, rfl⟩ := hm; rfl
    · rw [hf]; intro f hm; obtain ⟨g, _, rfl⟩ := List.mem_map.mp hm; exact Row.unNumpy_not_numpy g
    · rw [hc]; intro c hm; obtain ⟨g, _, rfl⟩ := List.mem_map.mp hm; exact Row.unNumpy_not_numpy g
  split at h
  · rename_i z hz
    injection h with h; subst h
    exact key z hz
  · cases h

end Mouette.Prepare
