import Mouette.Generated.C16Dual
import Mouette.Lemmas.DijkstraFinal
/-!
The TRANSLATED dual Dijkstra of `SingularityCutter._build_dual_tree_no_features` (`Generated/C16Dual.lean`) is the C09
Dijkstra model (`Model/Dijkstra.lean`, proved in `Lemmas/Dijkstra*.lean`) run on the DUAL graph: nodes = faces, one arc
`g → f` of weight `face_distance(g,f)` for every edge `e` of `face_to_edges(g)` that is not forbidden and has an opposite
face `f`. The only difference is the decoration: the source stores in `path[f]` the EDGE that was crossed, the model the
face it was crossed from.
-/
namespace Mouette.DualSrc
open Mouette Mouette.PQ Mouette.Dijkstra Mouette.CutSrc Mouette.Generated

variable (E : List (Nat × Nat)) (f2e : Nat → List Nat) (forbidden : Nat → Bool)
  (opp : Nat → Nat → Nat → Option Nat) (fd : Nat → Nat → Rat)

/-- the arc of the dual graph carried by edge `e` seen from face `g` (none: forbidden edge, or no opposite face) -/
def arcOf (g e : Nat) : Option (Nat × Rat) :=
  if forbidden e then none else (opp (edgeEnds E e).1 (edgeEnds E e).2 g).map (fun f => (f, fd g f))

/-- the dual graph -/
def dualAdj : Adj := fun g => (f2e g).filterMap (arcOf E forbidden opp fd g)

/-- edge `e` joins face `g` to face `f` and may be crossed -/
def Joins (e g f : Nat) : Prop :=
  e ∈ f2e g ∧ forbidden e = false ∧ opp (edgeEnds E e).1 (edgeEnds E e).2 g = some f

/-- simulation: same flags, labels and queue; `path[f] = e` exactly when the model has a predecessor `g` of `f`, and then
`e` joins `g` to `f` -/
structure Sim (s : DSt) (t : State) : Prop where
  visited : s.visited = t.visited
  dist : s.dist = t.dist
  queue : s.queue = t.queue
  path_some : ∀ f e, s.path f = some e → ∃ g, t.pred f = some g ∧ Joins E f2e forbidden opp e g f
  path_none : ∀ f, s.path f = none → t.pred f = none

theorem sim_init : Sim E f2e forbidden opp C16D.dualInit (init 0) :=
  ⟨rfl, rfl, rfl, fun f e h => by simp [C16D.dualInit] at h, fun _ _ => rfl⟩

/-- one edge of `face_to_edges(g)`: either nothing happens on both sides, or the source performs the model's `relax` -/
theorem dualInner_sim {g e : Nat} (he : e ∈ f2e g) {s : DSt} {t : State} (h : Sim E f2e forbidden opp s t) :
    Sim E f2e forbidden opp (C16D.dualInner E forbidden opp fd g s e)
      (match arcOf E forbidden opp fd g e with | none => t | some a => relax g t a) := by
  unfold C16D.dualInner arcOf
  simp only []
  cases hf : forbidden e with
  | true => simpa using h
  | false =>
    simp only [Bool.false_eq_true, if_false]
    cases ho : opp (edgeEnds E e).1 (edgeEnds E e).2 g with
    | none => simpa using h
    | some f =>
      simp only [Option.map_some]
      have J : Joins E f2e forbidden opp e g f := ⟨he, hf, ho⟩
      obtain ⟨tv, tp, td, tq⟩ := t
      obtain ⟨h1, h2, h3, h4, h5⟩ := h
      simp only [] at h1 h2 h3 h4 h5
      subst h1; subst h2; subst h3
      unfold relax
      simp only []
      have upd_some : ∀ x e', upd s.path f (some e) x = some e' →
          ∃ g', upd tp f (some g) x = some g' ∧ Joins E f2e forbidden opp e' g' x := by
        intro x e' hx
        by_cases hxf : x = f
        · subst hxf
          simp only [upd, if_true] at hx ⊢
          injection hx with hx; subst hx
          exact ⟨g, rfl, J⟩
        · simp only [upd, if_neg hxf] at hx ⊢
          exact h4 x e' hx
      have upd_none : ∀ x, upd s.path f (some e) x = none → upd tp f (some g) x = none := by
        intro x hx
        by_cases hxf : x = f
        · subst hxf; simp [upd] at hx
        · simp only [upd, if_neg hxf] at hx ⊢
          exact h5 x hx
      by_cases hg : gt (s.dist f) (addW (s.dist g) (fd g f)) = true
      · simp only [hg, if_true]
        by_cases hv : s.visited f = true
        · simp only [hv, Bool.not_true, Bool.false_eq_true, if_false, if_true]
          exact ⟨rfl, rfl, rfl, upd_some, upd_none⟩
        · have hv' : s.visited f = false := by simpa using hv
          simp only [hv', Bool.not_false, if_true, Bool.false_eq_true, if_false]
          exact ⟨rfl, rfl, rfl, upd_some, upd_none⟩
      · have hg' : gt (s.dist f) (addW (s.dist g) (fd g f)) = false := by simpa using hg
        simp only [hg', Bool.false_eq_true, if_false]
        by_cases hv : s.visited f = true
        · simp only [hv, Bool.not_true, Bool.false_eq_true, if_false, if_true]
          exact ⟨rfl, rfl, rfl, h4, h5⟩
        · have hv' : s.visited f = false := by simpa using hv
          simp only [hv', Bool.not_false, if_true, Bool.false_eq_true, if_false]
          exact ⟨rfl, rfl, rfl, h4, h5⟩

theorem foldl_dualInner_sim {g : Nat} : ∀ (L : List Nat) (s : DSt) (t : State), (∀ e, e ∈ L → e ∈ f2e g) →
    Sim E f2e forbidden opp s t →
    Sim E f2e forbidden opp (L.foldl (C16D.dualInner E forbidden opp fd g) s)
      ((L.filterMap (arcOf E forbidden opp fd g)).foldl (relax g) t)
  | [], _, _, _, h => h
  | e :: L, s, t, hL, h => by
    have h1 := dualInner_sim E f2e forbidden opp fd (hL e List.mem_cons_self) h
    rw [List.foldl_cons, List.filterMap_cons]
    cases ha : arcOf E forbidden opp fd g e with
    | none =>
      rw [ha] at h1
      exact foldl_dualInner_sim L _ _ (fun x hx => hL x (List.mem_cons_of_mem _ hx)) h1
    | some a =>
      rw [ha] at h1
      rw [List.foldl_cons]
      exact foldl_dualInner_sim L _ _ (fun x hx => hL x (List.mem_cons_of_mem _ hx)) h1

/-- one iteration of the `while` loop is one `step` of the model -/
theorem dualBody_sim (pop : Pop) {s : DSt} {t : State} (h : Sim E f2e forbidden opp s t) :
    match C16D.dualBody pop E f2e forbidden opp fd s, step pop (dualAdj E f2e forbidden opp fd) t with
    | none, none => True
    | some s', some t' => Sim E f2e forbidden opp s' t'
    | _, _ => False := by
  obtain ⟨tv, tp, td, tq⟩ := t
  obtain ⟨h1, h2, h3, h4, h5⟩ := h
  simp only [] at h1 h2 h3 h4 h5
  subst h1; subst h2; subst h3
  unfold C16D.dualBody step
  simp only []
  cases hp : pop s.queue with
  | none => trivial
  | some r =>
    obtain ⟨it, q⟩ := r
    simp only []
    by_cases hv : s.visited it.1 = true
    · simp only [hv, if_true]
      exact ⟨rfl, rfl, rfl, h4, h5⟩
    · have hv' : s.visited it.1 = false := by simpa using hv
      simp only [hv', Bool.false_eq_true, if_false]
      unfold dualAdj
      apply foldl_dualInner_sim E f2e forbidden opp fd (f2e it.1) _ _ (fun _ hx => hx)
      exact ⟨rfl, rfl, rfl, h4, h5⟩

theorem dualWhile_sim (pop : Pop) : ∀ (fuel : Nat) (s : DSt) (t : State), Sim E f2e forbidden opp s t →
    Sim E f2e forbidden opp (C16D.dualWhile pop E f2e forbidden opp fd fuel s)
      (iter pop (dualAdj E f2e forbidden opp fd) fuel t)
  | 0, _, _, h => h
  | fuel + 1, s, t, h => by
    have hb := dualBody_sim E f2e forbidden opp fd pop h
    unfold C16D.dualWhile iter
    cases hs : C16D.dualBody pop E f2e forbidden opp fd s with
    | none =>
      cases ht : step pop (dualAdj E f2e forbidden opp fd) t with
      | none => exact h
      | some t' => rw [hs, ht] at hb; exact hb.elim
    | some s' =>
      cases ht : step pop (dualAdj E f2e forbidden opp fd) t with
      | none => rw [hs, ht] at hb; exact hb.elim
      | some t' =>
        rw [hs, ht] at hb
        exact dualWhile_sim pop fuel s' t' hb

/-- the whole function, with the fuel of the model (`1 + Σ deg` of the dual graph): the source's final state simulates the
model's `run` on the dual graph from face 0 -/
theorem buildDualTree_sim (pop : Pop) (nF : Nat) :
    Sim E f2e forbidden opp
      (C16D.buildDualTreeNoFeatures pop (fuel (dualAdj E f2e forbidden opp fd) nF) nF E f2e forbidden opp fd).1
      (run pop (dualAdj E f2e forbidden opp fd) nF 0) :=
  dualWhile_sim E f2e forbidden opp fd pop _ _ _ (sim_init E f2e forbidden opp)

theorem dualAdj_nonneg (hfd : ∀ g f, 0 ≤ fd g f) : NonNeg (dualAdj E f2e forbidden opp fd) := by
  intro g a ha
  unfold dualAdj at ha
  obtain ⟨e, _, hea⟩ := List.mem_filterMap.mp ha
  unfold arcOf at hea
  split at hea
  · cases hea
  · cases ho : opp (edgeEnds E e).1 (edgeEnds E e).2 g with
    | none => rw [ho] at hea; cases hea
    | some f => rw [ho] at hea; simp at hea; subst hea; exact hfd g f

theorem dualAdj_wf {nF : Nat} (hopp : ∀ a b g f, opp a b g = some f → f < nF) : WF (dualAdj E f2e forbidden opp fd) nF := by
  intro g a ha
  unfold dualAdj at ha
  obtain ⟨e, _, hea⟩ := List.mem_filterMap.mp ha
  unfold arcOf at hea
  split at hea
  · cases hea
  · cases ho : opp (edgeEnds E e).1 (edgeEnds E e).2 g with
    | none => rw [ho] at hea; cases hea
    | some f => rw [ho] at hea; simp at hea; subst hea; exact hopp _ _ _ _ ho

end Mouette.DualSrc
