import Mathlib.Tactic.Ring
import Mathlib.Tactic.LinearCombination
import Mathlib.Tactic.Linarith
import Mathlib.Tactic.Positivity
/-!
Small vector vocabulary for the C14 theorems about the corner expressions of the solids (round 4), and the count recurrence of
the 1-to-4 subdivision used by `icosphere`.
-/
namespace Mouette.C14Solids

section vec
variable {K : Type} [CommRing K]

def vsub (a b : K × K × K) : K × K × K := (a.1 - b.1, a.2.1 - b.2.1, a.2.2 - b.2.2)
def vadd (a b : K × K × K) : K × K × K := (a.1 + b.1, a.2.1 + b.2.1, a.2.2 + b.2.2)
def dot (a b : K × K × K) : K := a.1 * b.1 + a.2.1 * b.2.1 + a.2.2 * b.2.2
def cross (a b : K × K × K) : K × K × K :=
  (a.2.1 * b.2.2 - a.2.2 * b.2.1, a.2.2 * b.1 - a.1 * b.2.2, a.1 * b.2.1 - a.2.1 * b.1)
/-- det [u; v; w] = u · (v × w) -/
def det3 (u v w : K × K × K) : K := dot u (cross v w)
def dist2 (a b : K × K × K) : K := dot (vsub a b) (vsub a b)

/-- corner `k` of a corner list (origin when out of range) -/
def pt (ps : List (K × K × K)) (k : Nat) : K × K × K := ps.getD k (0, 0, 0)

/-- `cross (pb − pa) (pc − pa)` of the first three corners of a face: its (unnormalised) normal by the right-hand rule -/
def faceNormal (ps : List (K × K × K)) (f : List Nat) : K × K × K :=
  cross (vsub (pt ps (f.getD 1 0)) (pt ps (f.getD 0 0))) (vsub (pt ps (f.getD 2 0)) (pt ps (f.getD 0 0)))

/-- normal of face `f` · (first corner of `f` − q): positive iff `q` lies behind the face (the face looks away from q) -/
def awayFrom (ps : List (K × K × K)) (f : List Nat) (q : K × K × K) : K :=
  dot (faceNormal ps f) (vsub (pt ps (f.getD 0 0)) q)

theorem cross_swap (a b : K × K × K) : cross b a = (-(cross a b).1, -(cross a b).2.1, -(cross a b).2.2) := by
  simp only [cross]; refine Prod.ext ?_ (Prod.ext ?_ ?_) <;> simp only [] <;> ring

end vec

/-! ### decidable checks on the translated tables -/

/-- colour writes `[k, r, g, b]` against a face list: every written index is a face id, no index is written twice, and — when the
attribute is expected to be filled — every face id is written -/
def colorsValid (fs ws : List (List Nat)) (expectAll : Bool) : Bool :=
  ws.all (fun w => decide (w.length = 4) && decide (w.getD 0 0 < fs.length)) && decide ((ws.map (·.getD 0 0)).Nodup) &&
    (!expectAll || (List.range fs.length).all (fun k => ws.any (fun w => w.getD 0 0 == k)))

/-- the side (quad of `quads`) a face lies in -/
def sideOf (quads : List (List Nat)) (f : List Nat) : List Nat := (quads.find? (fun q => f.all (q.contains ·))).getD []

/-- two written faces have the same colour exactly when they lie in the same side or in opposite (vertex-disjoint) sides -/
def colorsByAxis (quads fs ws : List (List Nat)) : Bool :=
  ws.all fun w1 => ws.all fun w2 =>
    let s1 := sideOf quads (fs.getD (w1.getD 0 0) []); let s2 := sideOf quads (fs.getD (w2.getD 0 0) [])
    (w1.drop 1 == w2.drop 1) == (s1 == s2 || s1.all (fun v => !s2.contains v))

def det3i (a b c : Int × Int × Int) : Int :=
  a.1 * (b.2.1 * c.2.2 - b.2.2 * c.2.1) + a.2.1 * (b.2.2 * c.1 - b.1 * c.2.2) + a.2.2 * (b.1 * c.2.1 - b.2.1 * c.1)

/-- integer corners around the origin: every face (a, b, c, …) has det [pa; pb; pc] > 0, i.e. its right-hand-rule normal
`(pb − pa) × (pc − pa)` has a positive component along pa: it points away from the origin -/
def outwardFromOrigin (ps : List (Int × Int × Int)) (fs : List (List Nat)) : Bool :=
  fs.all fun f => decide (0 < det3i (ps.getD (f.getD 0 0) (0, 0, 0)) (ps.getD (f.getD 1 0) (0, 0, 0)) (ps.getD (f.getD 2 0) (0, 0, 0)))

/-- (V, E, F) after one 1-to-4 subdivision of a triangle surface: a new vertex per edge, every edge split in two plus three
inner edges per triangle, four triangles per triangle (the counts proved for `loop_subdivision` in C13) -/
def subdivStep (c : Nat × Nat × Nat) : Nat × Nat × Nat := (c.1 + c.2.1, 2 * c.2.1 + 3 * c.2.2, 4 * c.2.2)

def subdivIter : Nat → Nat × Nat × Nat → Nat × Nat × Nat
  | 0, c => c
  | n + 1, c => subdivStep (subdivIter n c)

theorem subdivIter_ico (n : Nat) : subdivIter n (12, 30, 20) = (10 * 4 ^ n + 2, 30 * 4 ^ n, 20 * 4 ^ n) := by
  induction n with
  | zero => rfl
  | succ n ih =>
    simp only [subdivIter, ih, subdivStep, Prod.mk.injEq, Nat.pow_succ]
    refine ⟨by omega, by omega, by omega⟩

end Mouette.C14Solids
