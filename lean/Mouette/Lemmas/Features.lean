import Mathlib.Tactic.Linarith
import Mathlib.Tactic.Ring
import Mouette.Model.Features
import Mouette.Model.Border
/-! Helper lemmas for `Model/Features.lean` and `Model/Border.lean` (C15). -/
namespace Mouette.Features

/-- for unit normals (`q = 1`) the square-root-free test is the plain comparison of the cosine -/
theorem cosLt_unit (d t : Rat) (ht : 0 ≤ t) : cosLt d 1 t = true ↔ d < t := by
  unfold cosLt
  simp only [Bool.or_eq_true, decide_eq_true_eq, mul_one]
  constructor
  · rintro (h | h)
    · linarith
    · by_contra hc
      have hc' : t ≤ d := not_lt.mp hc
      nlinarith
  · intro h
    by_cases h0 : d < 0
    · exact Or.inl h0
    · right
      have h0' : 0 ≤ d := not_lt.mp h0
      nlinarith

/-- general form: `cosLt d q t ↔ d < 0 ∨ d² < t² q` is `d/√q < t`; stated without square root:
    scaling both normals by positive factors `a`, `b` does not change the verdict -/
theorem cosLt_scale (d q t a b : Rat) (ha : 0 < a) (hb : 0 < b) :
    cosLt (a * b * d) (a * a * (b * b) * q) t = cosLt d q t := by
  unfold cosLt
  have hab : 0 < a * b := mul_pos ha hb
  have h1 : (a * b * d < 0) ↔ (d < 0) := by
    constructor
    · intro h; by_contra hc; have : 0 ≤ d := not_lt.mp hc; nlinarith [mul_nonneg hab.le this]
    · intro h; nlinarith
  have h2 : (a * b * d * (a * b * d) < t * t * (a * a * (b * b) * q)) ↔ (d * d < t * t * q) := by
    have e1 : a * b * d * (a * b * d) = (a * b) * (a * b) * (d * d) := by ring
    have e2 : t * t * (a * a * (b * b) * q) = (a * b) * (a * b) * (t * t * q) := by ring
    rw [e1, e2]
    have hp : 0 < (a * b) * (a * b) := mul_pos hab hab
    constructor
    · intro h; exact lt_of_mul_lt_mul_left h hp.le
    · intro h; exact mul_lt_mul_of_pos_left h hp
  simp only [decide_eq_decide.mpr h1, decide_eq_decide.mpr h2]

/-! ### the three passes -/

theorem mem_foldl_append_if {α} (p : α × Nat → Bool) (l : List (α × Nat)) (init : List Nat) (e : Nat) :
    e ∈ l.foldl (fun fl x => if p x then fl ++ [x.2] else fl) init ↔
      e ∈ init ∨ ∃ x ∈ l, p x = true ∧ x.2 = e := by
  induction l generalizing init with
  | nil => simp
  | cons y rest ih =>
    rw [List.foldl_cons, ih]
    by_cases hy : p y = true
    · rw [if_pos hy]
      simp only [List.mem_append, List.mem_cons, List.not_mem_nil, or_false]
      constructor
      · rintro ((h | h) | ⟨x, hx, hp, rfl⟩)
        · exact Or.inl h
        · exact Or.inr ⟨y, Or.inl rfl, hy, h.symm⟩
        · exact Or.inr ⟨x, Or.inr hx, hp, rfl⟩
      · rintro (h | ⟨x, hx | hx, hp, rfl⟩)
        · exact Or.inl (Or.inl h)
        · subst hx; exact Or.inl (Or.inr rfl)
        · exact Or.inr ⟨x, hx, hp, rfl⟩
    · rw [if_neg hy]
      simp only [List.mem_cons]
      constructor
      · rintro (h | ⟨x, hx, hp, rfl⟩)
        · exact Or.inl h
        · exact Or.inr ⟨x, Or.inr hx, hp, rfl⟩
      · rintro (h | ⟨x, hx | hx, hp, rfl⟩)
        · exact Or.inl h
        · subst hx; exact absurd hp hy
        · exact Or.inr ⟨x, hx, hp, rfl⟩

theorem mem_pass (p : EdgeInfo × Nat → Bool) (es : List EdgeInfo) (init : List Nat) (e : Nat) :
    e ∈ es.zipIdx.foldl (fun fl x => if p x then fl ++ [x.2] else fl) init ↔
      e ∈ init ∨ ∃ x, es[e]? = some x ∧ p (x, e) = true := by
  rw [mem_foldl_append_if]
  constructor
  · rintro (h | ⟨⟨x, i⟩, hx, hp, rfl⟩)
    · exact Or.inl h
    · exact Or.inr ⟨x, List.mem_zipIdx_iff_getElem?.mp hx, hp⟩
  · rintro (h | ⟨x, hx, hp⟩)
    · exact Or.inl h
    · exact Or.inr ⟨(x, e), List.mem_zipIdx_iff_getElem?.mpr hx, hp, rfl⟩

/-! ### degrees -/

/-- contribution of edge `e` to the degree of `v` -/
def inc (es : List EdgeInfo) (v e : Nat) : Nat :=
  match es[e]? with
  | some x => (if x.a = v then 1 else 0) + (if x.b = v then 1 else 0)
  | none => 0

theorem degreeOf_bump (deg : List (Nat × Nat)) (w v : Nat) :
    degreeOf (bump deg w) v = degreeOf deg v + (if w = v then 1 else 0) := by
  unfold bump
  cases hf : deg.find? (fun x => x.1 == w) with
  | none =>
    by_cases hwv : w = v
    · subst hwv
      simp only [degreeOf, List.find?_cons, beq_self_eq_true, if_true, hf]
      simp
    · have : (w == v) = false := by simpa using hwv
      simp [degreeOf, this, hwv]
  | some wk =>
    obtain ⟨w', k⟩ := wk
    by_cases hwv : w = v
    · subst hwv
      simp only [degreeOf, List.find?_cons, beq_self_eq_true, if_true, hf]
      simp
    · have : (w == v) = false := by simpa using hwv
      simp [degreeOf, this, hwv]

theorem degreeOf_foldl (es : List EdgeInfo) (fe : List Nat) (deg0 : List (Nat × Nat)) (v : Nat) :
    degreeOf (fe.foldl (degStep es) deg0) v =
      degreeOf deg0 v + (fe.map (inc es v)).sum := by
  induction fe generalizing deg0 with
  | nil => simp
  | cons e rest ih =>
    rw [List.foldl_cons, ih]
    simp only [List.map_cons, List.sum_cons]
    unfold inc degStep
    cases hx : es[e]? with
    | none => simp
    | some x =>
      simp only [degreeOf_bump]
      omega

end Mouette.Features

namespace Mouette.Border

theorem find_zipIdx_reverse_nat {l : List Nat} (hnd : l.Nodup) (k : Nat) (e : Nat) :
    ((l.zipIdx.reverse.find? fun x => x.1 == k).map (·.2)) = some e ↔ l[e]? = some k := by
  rw [Option.map_eq_some_iff]
  constructor
  · rintro ⟨x, hx, rfl⟩
    have hp := List.find?_some hx
    have hm := List.mem_reverse.mp (List.mem_of_find?_eq_some hx)
    rw [List.mem_zipIdx_iff_getElem?] at hm
    simp only [beq_iff_eq] at hp
    rw [hm, hp]
  · intro h
    have hsome : (l.zipIdx.reverse.find? fun x => x.1 == k).isSome := by
      rw [List.find?_isSome]
      exact ⟨(k, e), List.mem_reverse.mpr (List.mem_zipIdx_iff_getElem?.mpr h), by simp⟩
    obtain ⟨x, hx⟩ := Option.isSome_iff_exists.mp hsome
    have hp := List.find?_some hx
    have hm := List.mem_reverse.mp (List.mem_of_find?_eq_some hx)
    rw [List.mem_zipIdx_iff_getElem?] at hm
    simp only [beq_iff_eq] at hp
    refine ⟨x, hx, ?_⟩
    have hlt : x.2 < l.length := by
      rcases Nat.lt_or_ge x.2 l.length with h1 | h1
      · exact h1
      · rw [List.getElem?_eq_none h1] at hm; cases hm
    exact (List.getElem?_inj hlt hnd).mp (by rw [hm, h, hp])

/-- inverse lookup in `map_v2v` (new index ↦ surface vertex), as used to map the polyline back -/
def invLookup (m : List (Nat × Nat)) (i : Nat) : Option Nat := (m.find? fun e => e.2 == i).map (·.1)

theorem invLookup_indexMap (vs : List Nat) (i v : Nat) (h : vs[i]? = some v) :
    invLookup (indexMap vs) i = some v := by
  unfold invLookup indexMap
  have hsome : (vs.zipIdx.reverse.find? fun e => e.2 == i).isSome := by
    rw [List.find?_isSome]
    exact ⟨(v, i), List.mem_reverse.mpr (List.mem_zipIdx_iff_getElem?.mpr h), by simp⟩
  obtain ⟨x, hx⟩ := Option.isSome_iff_exists.mp hsome
  have hp := List.find?_some hx
  have hm := List.mem_zipIdx_iff_getElem?.mp (List.mem_reverse.mp (List.mem_of_find?_eq_some hx))
  simp only [beq_iff_eq] at hp
  rw [hx]
  simp only [Option.map_some, Option.some.injEq]
  rw [hp, h] at hm
  exact (Option.some.inj hm).symm

end Mouette.Border
