import Mouette.Lemmas.DijkstraFinal
import Mouette.Lemmas.BinHeap
import Mouette.Lemmas.C09Glue
/-
The Dijkstra loop on the REAL queue (heapq's binary heap, Model/BinHeap.lean) simulates the loop on the abstract queue of
Model/Dijkstra.lean: the heap invariant `IsHeap` is carried by the loop invariant, so what `heappop` returns is a pending
item of minimum priority (`heappop_ok`) — the pop contract `PopOK` is a CONSEQUENCE for the queues the loop generates, not an
assumption. Every step of the heap loop is a step of the abstract loop for the pop function `popE e` that returns the very
item `e` the heap returned (and which satisfies `PopOK` on all queues); the invariant `Reach` does not mention the pop
function, so it is carried along.
-/
namespace Mouette.Dijkstra
open Mouette.PQ Mouette.BinHeap

/-- body of `for nv in neighbours(v)` with `heappush` -/
def relaxH (v : Nat) (s : State) (e : Nat × Rat) : State :=
  let d := addW (s.dist v) e.2
  let s1 : State := if gt (s.dist e.1) d then
      { s with dist := upd s.dist e.1 d, pred := upd s.pred e.1 (some v) } else s
  if s1.visited e.1 then s1 else { s1 with queue := heappush s1.queue (e.1, prioOf (s1.dist e.1)) }

/-- one iteration of `while not queue.empty()` with `heappop` -/
def stepH (adj : Adj) (s : State) : Option State :=
  match heappop s.queue with
  | none => none
  | some (e, q') =>
    if s.visited e.1 then some { s with queue := q' }
    else some ((adj e.1).foldl (relaxH e.1) { s with visited := upd s.visited e.1 true, queue := q' })

def initH (start : Nat) : State :=
  { visited := fun _ => false, pred := fun _ => none,
    dist := upd (fun _ => none) start (some 0), queue := heappush [] (start, .fin 0) }

/-- the loop on the heap, with the fuel of the abstract loop -/
def runH (adj : Adj) (n start : Nat) : State := iterG (stepH adj) (fuel adj n) (initH start)

/-- same tables, same pending items (as a multiset), and the real queue is a heap -/
structure Sim (s sH : State) : Prop where
  vis : sH.visited = s.visited
  pred : sH.pred = s.pred
  dist : sH.dist = s.dist
  perm : sH.queue.Perm s.queue
  heap : IsHeap sH.queue

open Classical in
/-- a pop function that returns the given item whenever it is a pending item of minimum priority -/
noncomputable def popE (e : Nat × Prio) : Pop := fun q =>
  if e ∈ q ∧ (∀ e' ∈ q, Prio.le e.2 e'.2 = true) then some (e, q.erase e) else PQ.pop q

theorem popOK_popE (e : Nat × Prio) : PopOK (popE e) := by
  have P := popOK_firstMin
  refine ⟨?_, ?_, ?_⟩
  · intro q
    unfold popE
    split
    · rename_i h
      constructor
      · intro h'; cases h'
      · intro hq; rw [hq] at h; simp at h
    · exact P.none_iff q
  · intro q x q' h
    unfold popE at h
    split at h
    · rename_i hc
      simp at h
      obtain ⟨rfl, rfl⟩ := h
      exact (List.perm_cons_erase hc.1).symm
    · exact P.perm q x q' h
  · intro q x q' h
    unfold popE at h
    split at h
    · rename_i hc
      simp at h
      obtain ⟨rfl, rfl⟩ := h
      exact hc.2
    · exact P.min q x q' h

theorem sim_relax {s sH : State} (S : Sim s sH) (v : Nat) (e : Nat × Rat) : Sim (relax v s e) (relaxH v sH e) := by
  obtain ⟨vis, prd, dst, q⟩ := s
  obtain ⟨visH, prdH, dstH, h⟩ := sH
  obtain ⟨h1, h2, h3, h4, h5⟩ := S
  simp only at h1 h2 h3 h4 h5
  subst h1 h2 h3
  have hp : ∀ x : Nat × Prio, (heappush h x).Perm (push q x.1 x.2) := fun x =>
    (heappush_perm _ _).trans ((List.Perm.cons _ h4).trans (List.perm_append_singleton _ _).symm)
  unfold relax relaxH
  simp only
  split <;> split <;>
    first
    | exact ⟨rfl, rfl, rfl, h4, h5⟩
    | exact ⟨rfl, rfl, rfl, hp _, heappush_heap h5 _⟩

theorem sim_fold (v : Nat) : ∀ (l : List (Nat × Rat)) {s sH : State}, Sim s sH →
    Sim (l.foldl (relax v) s) (l.foldl (relaxH v) sH)
  | [], _, _, S => S
  | e :: l, _, _, S => by
    simp only [List.foldl_cons]
    exact sim_fold v l (sim_relax S v e)

/-- one iteration of the heap loop is one iteration of the abstract loop for `popE e`, `e` the item the heap returned -/
theorem sim_step {adj : Adj} {s sH sH' : State} (S : Sim s sH) (h : stepH adj sH = some sH') :
    ∃ e s', step (popE e) adj s = some s' ∧ Sim s' sH' := by
  obtain ⟨vis, prd, dst, q⟩ := s
  obtain ⟨visH, prdH, dstH, hq0⟩ := sH
  obtain ⟨h1, h2, h3, h4, h5⟩ := S
  simp only at h1 h2 h3 h4 h5
  subst h1 h2 h3
  unfold stepH at h
  simp only at h
  cases hp : heappop hq0 with
  | none => rw [hp] at h; simp at h
  | some r =>
    obtain ⟨e, q'⟩ := r
    rw [hp] at h
    simp only at h
    have ok := heappop_ok h5 hp
    have hperm := heappop_perm hp
    have hmem : e ∈ q := h4.mem_iff.mp ok.1
    have hmin : ∀ e' ∈ q, Prio.le e.2 e'.2 = true := fun e' he' => ok.2.1 e' (h4.mem_iff.mpr he')
    have hpop : popE e q = some (e, q.erase e) := by
      unfold popE
      rw [if_pos ⟨hmem, hmin⟩]
    have hq : q'.Perm (q.erase e) := by
      have := (hperm.trans h4).erase e
      rwa [List.erase_cons_head] at this
    have hheap := heappop_heap h5 hp
    refine ⟨e, ?_⟩
    unfold step
    simp only [hpop]
    by_cases hv : visH e.1 = true
    · rw [if_pos hv] at h ⊢
      simp only [Option.some.injEq] at h
      subst h
      exact ⟨_, rfl, ⟨rfl, rfl, rfl, hq, hheap⟩⟩
    · rw [if_neg hv] at h ⊢
      simp only [Option.some.injEq] at h
      subst h
      refine ⟨_, rfl, ?_⟩
      apply sim_fold
      exact ⟨rfl, rfl, rfl, hq, hheap⟩

theorem stepH_none {adj : Adj} {s sH : State} (S : Sim s sH) (h : stepH adj sH = none) : s.queue = [] := by
  unfold stepH at h
  cases hp : heappop sH.queue with
  | none =>
    have := (heappop_none_iff _).mp hp
    have hq := S.perm
    rw [this] at hq
    exact List.Perm.eq_nil hq.symm
  | some r =>
    rw [hp] at h
    simp only at h
    split at h <;> simp at h

theorem sim_init (start : Nat) : Sim (init start) (initH start) := by
  refine ⟨rfl, rfl, rfl, ?_, heappush_heap isHeap_nil _⟩
  exact heappush_perm [] _

/-- the heap loop, run with the fuel `1 + Σ deg`, ends in a state whose tables are those of a final state of the
abstract loop (invariant reached, queue empty) -/
theorem simH_iter {adj : Adj} {start n : Nat} (hnn : NonNeg adj) (hwf : WF adj n) :
    ∀ (f : Nat) (s sH : State), Sim s sH → Reach adj start n s → measure adj n s ≤ f →
      ∃ s', Sim s' (iterG (stepH adj) f sH) ∧ Final adj start n s'
  | 0, s, sH, S, R, h => by
    refine ⟨s, S, R, ?_⟩
    unfold measure at h
    have : s.queue.length = 0 := by omega
    simpa using this
  | f+1, s, sH, S, R, h => by
    unfold iterG
    cases hs : stepH adj sH with
    | none => exact ⟨s, S, R, stepH_none S hs⟩
    | some sH' =>
      simp only
      obtain ⟨e, s', h1, S'⟩ := sim_step S hs
      have hm := step_measure (popOK_popE e) R h1
      exact simH_iter hnn hwf f s' sH' S' (reach_step (popOK_popE e) hnn hwf R h1) (by omega)

theorem heap_final {adj : Adj} {start n : Nat} (hnn : NonNeg adj) (hwf : WF adj n) (hs : start < n) :
    ∃ s, Sim s (runH adj n start) ∧ Final adj start n s :=
  simH_iter hnn hwf _ _ _ (sim_init start) (reach_init adj hs) (le_of_eq (measure_init adj n start))

end Mouette.Dijkstra
