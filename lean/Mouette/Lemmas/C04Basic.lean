import Mouette.Model.IO
/-! Helper lemmas for C04: option-valued maps/folds and the elementary token round trips. -/
namespace Mouette.IO
variable {C : Type} {α β σ : Type}

theorem mapOpt_map_of (f : α → β) (g : β → Option α) (l : List α) (h : ∀ x ∈ l, g (f x) = some x) :
    mapOpt g (l.map f) = some l := by
  induction l with
  | nil => rfl
  | cons a t ih =>
    have h1 : g (f a) = some a := h a (by simp)
    have h2 := ih (fun x hx => h x (by simp [hx]))
    simp [mapOpt, h1, h2]

theorem mapOpt_map (f : α → β) (g : β → Option α) (h : ∀ x, g (f x) = some x) (l : List α) :
    mapOpt g (l.map f) = some l := mapOpt_map_of f g l (fun x _ => h x)

theorem mapOpt_map_gen {γ : Type} (f : α → β) (g : β → Option γ) (k : α → γ) (l : List α)
    (h : ∀ x ∈ l, g (f x) = some (k x)) : mapOpt g (l.map f) = some (l.map k) := by
  induction l with
  | nil => rfl
  | cons a t ih =>
    have h1 : g (f a) = some (k a) := h a (by simp)
    have h2 := ih (fun x hx => h x (by simp [hx]))
    simp [mapOpt, h1, h2]

theorem foldOpt_append (f : σ → α → Option σ) (s : σ) (a b : List α) :
    foldOpt f s (a ++ b) = (foldOpt f s a).bind (fun s' => foldOpt f s' b) := by
  induction a generalizing s with
  | nil => rfl
  | cons x xs ih =>
    simp only [List.cons_append, foldOpt]
    cases f s x with
    | none => rfl
    | some s' => exact ih s'

theorem foldOpt_append_some (f : σ → α → Option σ) (s s' : σ) (a b : List α)
    (h : foldOpt f s a = some s') : foldOpt f s (a ++ b) = foldOpt f s' b := by
  rw [foldOpt_append, h]; rfl

@[simp] theorem readIdx0_idx0 (n : Nat) : readIdx0 (idx0 n) = some n := by
  simp [readIdx0, idx0]

@[simp] theorem readIdx1_idx1 (n : Nat) : readIdx1 (idx1 n) = some n := by
  simp only [readIdx1, idx1]
  have h : (1 : Int) ≤ (n : Int) + 1 := by omega
  simp only [h, if_true]
  congr 1
  omega

@[simp] theorem readInt_idx0 (n : Nat) : readInt (idx0 n) = some (n : Int) := rfl
@[simp] theorem readInt_idx1 (n : Nat) : readInt (idx1 n) = some ((n : Int) + 1) := rfl

/-- the float text round trip assumed of the codec (trusted-base item T5) -/
def RoundTrips (cd : Codec C) : Prop := ∀ c, cd.parse (cd.fmt c) = some c

theorem readNum_num (cd : Codec C) (h : RoundTrips cd) (c : C) : readNum cd (num cd c) = some c := by
  simp [readNum, num, h c]

theorem readCoords_coordLine (cd : Codec C) (h : RoundTrips cd) (v : C × C × C) :
    readCoords cd (coordLine cd v) = some v := by
  simp [readCoords, coordLine, readNum_num cd h]

theorem mapOpt_idx0 (f : List Nat) : mapOpt readIdx0 (f.map idx0) = some f :=
  mapOpt_map idx0 readIdx0 readIdx0_idx0 f

theorem mapOpt_idx1 (f : List Nat) : mapOpt readIdx1 (f.map idx1) = some f :=
  mapOpt_map idx1 readIdx1 readIdx1_idx1 f

end Mouette.IO
