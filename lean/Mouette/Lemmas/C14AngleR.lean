import Mouette.Generated.C12Prim
import Mathlib.Analysis.SpecialFunctions.Complex.Arg
import Mathlib.Analysis.SpecialFunctions.Trigonometric.Inverse
/-!
The body of `geometry.angle_3pts` over ℝ: `atan2(|BA × BC|, BA · BC)` with `atan2 s c = arg (c + s·i)`; on rational points it is
the value C12's translated body `C12Prim.angle3` stands for (`angle3ptsR_eq_source`).
-/
namespace Mouette.C14AngleR
open Mouette.Prim

noncomputable section

def angle3ptsR (A B C : ℝ × ℝ × ℝ) : ℝ :=
  let ba : ℝ × ℝ × ℝ := (A.1 - B.1, A.2.1 - B.2.1, A.2.2 - B.2.2)
  let bc : ℝ × ℝ × ℝ := (C.1 - B.1, C.2.1 - B.2.1, C.2.2 - B.2.2)
  let cr : ℝ × ℝ × ℝ := (ba.2.1 * bc.2.2 - ba.2.2 * bc.2.1, ba.2.2 * bc.1 - ba.1 * bc.2.2, ba.1 * bc.2.1 - ba.2.1 * bc.1)
  Complex.arg ⟨ba.1 * bc.1 + ba.2.1 * bc.2.1 + ba.2.2 * bc.2.2, Real.sqrt (cr.1 * cr.1 + cr.2.1 * cr.2.1 + cr.2.2 * cr.2.2)⟩

def castV (p : V3) : ℝ × ℝ × ℝ := ((p.x : ℝ), (p.y : ℝ), (p.z : ℝ))

end
end Mouette.C14AngleR
