import Mouette.Model.Prepare
/- vocabulary for witness statements in Props/C02 (round 2) -/
namespace Mouette.Prepare
def okOf : Except String Raw → Option Raw
  | .ok p => some p
  | .error _ => none
end Mouette.Prepare
