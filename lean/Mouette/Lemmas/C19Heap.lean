import Mathlib.Tactic.Ring
import Mathlib.Tactic.Linarith
import Mouette.Lemmas.C19Loop
import Mouette.Model.BezierHeap
/- C19 round 3 — the heap model of `de_casteljau` refines the list model and never touches old cells. -/
namespace Mouette.Lemmas.C19
open Mouette.Bezier Mouette.BezierHeap

/-- abstraction: the values read through the slots -/
def absSt (s : St) : List Rat := (List.range s.coeffs.length).map (deref s)

/-- every slot points into the heap -/
def InvSt (s : St) : Prop := ∀ r ∈ s.coeffs, r < s.heap.length

theorem absSt_length (s : St) : (absSt s).length = s.coeffs.length := by simp [absSt]

theorem absSt_getD (s : St) (k : Nat) (hk : k < s.coeffs.length) : (absSt s).getD k 0 = deref s k := by
  simp [absSt, List.getD_eq_getElem?_getD, hk]

theorem storeRebind_abs (s : St) (i : Nat) (v : Rat) (hinv : InvSt s) (hi : i < s.coeffs.length) :
    absSt (storeRebind s i v) = (absSt s).set i v ∧ InvSt (storeRebind s i v) ∧
    (storeRebind s i v).coeffs.length = s.coeffs.length ∧ (storeRebind s i v).heap = s.heap ++ [v] := by
  refine ⟨?_, ?_, by simp [storeRebind], rfl⟩
  · apply ext_getD
    · simp [absSt, storeRebind]
    · intro k
      by_cases hk : k < s.coeffs.length
      · have hk' : k < (storeRebind s i v).coeffs.length := by simpa [storeRebind] using hk
        rw [absSt_getD _ k hk', getD_set, absSt_length]
        by_cases hik : i = k
        · subst hik
          simp only [hi, and_self, if_true]
          simp [deref, storeRebind, List.getD_eq_getElem?_getD, hi]
        · have : ¬ (i = k ∧ i < s.coeffs.length) := fun h => hik h.1
          rw [if_neg this, absSt_getD _ k hk]
          have hr : s.coeffs.getD k 0 < s.heap.length := by
            apply hinv
            rw [List.getD_eq_getElem?_getD, List.getElem?_eq_getElem hk]
            exact List.getElem_mem hk
          have hc : (s.coeffs.set i s.heap.length).getD k 0 = s.coeffs.getD k 0 := by
            simp [List.getD_eq_getElem?_getD, List.getElem?_set, hik]
          simp only [deref, storeRebind, hc]
          rw [List.getD_eq_getElem?_getD (l := s.heap ++ [v]), List.getD_eq_getElem?_getD (l := s.heap),
            List.getElem?_append_left hr]
      · have h1 : (absSt (storeRebind s i v)).length ≤ k := by simp [absSt, storeRebind]; omega
        have h2 : ((absSt s).set i v).length ≤ k := by simp [absSt]; omega
        simp [List.getD_eq_getElem?_getD, List.getElem?_eq_none h1, List.getElem?_eq_none h2]
  · intro r hr
    simp only [storeRebind, List.length_append, List.length_singleton] at hr ⊢
    rcases List.mem_or_eq_of_mem_set hr with h | h
    · have := hinv r h; omega
    · omega

theorem pass_succ_set (t : Rat) (n : Nat) (l : List Rat) (hl : n + 2 ≤ l.length) :
    pass t (n + 1) l = (pass t n l).set n (lerp t ((pass t n l).getD n 0) ((pass t n l).getD (n + 1) 0)) := by
  rw [← impInner_eq_pass t (n + 1) l (by omega), impInner_succ, impInner_eq_pass t n l (by omega)]
  simp [lerpUpd]

/-- heap extension relation: `h'` keeps every old cell -/
def Extends (h h' : List Rat) : Prop := ∃ ext, h' = h ++ ext

theorem Extends.refl (h : List Rat) : Extends h h := ⟨[], by simp⟩
theorem Extends.trans {a b c : List Rat} (h1 : Extends a b) (h2 : Extends b c) : Extends a c := by
  obtain ⟨x, rfl⟩ := h1; obtain ⟨y, rfl⟩ := h2; exact ⟨x ++ y, by simp⟩
theorem Extends.getD {h h' : List Rat} (e : Extends h h') (r : Nat) (hr : r < h.length) : h'.getD r 0 = h.getD r 0 := by
  obtain ⟨x, rfl⟩ := e
  simp only [List.getD_eq_getElem?_getD]
  rw [List.getElem?_append_left hr]

theorem inner_rebind (t : Rat) : ∀ (n : Nat) (s : St), InvSt s → n + 1 ≤ s.coeffs.length →
    absSt (inner true t n s) = pass t n (absSt s) ∧ InvSt (inner true t n s) ∧
    (inner true t n s).coeffs.length = s.coeffs.length ∧ Extends s.heap (inner true t n s).heap := by
  intro n
  induction n with
  | zero => intro s hinv _; simp [inner, pass_zero, hinv, Extends.refl]
  | succ n ih =>
    intro s hinv hl
    obtain ⟨ha, hi, hlen, hext⟩ := ih s hinv (by omega)
    have hstep : inner true t (n + 1) s =
        storeRebind (inner true t n s) n (lerp t (deref (inner true t n s) n) (deref (inner true t n s) (n + 1))) := by
      simp [inner, List.range_succ, List.foldl_append, store]
    have hn : n < (inner true t n s).coeffs.length := by omega
    obtain ⟨sa, si, sl, sh⟩ := storeRebind_abs (inner true t n s) n
      (lerp t (deref (inner true t n s) n) (deref (inner true t n s) (n + 1))) hi hn
    rw [hstep]
    refine ⟨?_, si, by rw [sl, hlen], hext.trans ⟨_, sh⟩⟩
    rw [sa, ha, pass_succ_set t n (absSt s) (by rw [absSt_length]; omega), ← ha,
      absSt_getD _ n hn, absSt_getD _ (n + 1) (by omega)]

theorem outer_rebind (t : Rat) : ∀ (order : Nat) (s : St), InvSt s → order + 1 ≤ s.coeffs.length →
    absSt (outer true t order s) = loop t order (absSt s) ∧ Extends s.heap (outer true t order s).heap ∧
    (outer true t order s).coeffs.length = s.coeffs.length := by
  intro order
  induction order with
  | zero => intro s _ _; simp [outer, loop, Extends.refl]
  | succ n ih =>
    intro s hinv hl
    obtain ⟨ha, hi, hlen, hext⟩ := inner_rebind t (n + 1) s hinv hl
    obtain ⟨ha2, hext2, hlen2⟩ := ih (inner true t (n + 1) s) hi (by omega)
    have hstep : outer true t (n + 1) s = outer true t n (inner true t (n + 1) s) := by
      simp only [outer]
      rw [List.range_succ_eq_map, List.foldl_cons, List.foldl_map]
      simp only [Nat.sub_zero, Nat.succ_eq_add_one, Nat.add_sub_add_right]
    rw [hstep, loop]
    exact ⟨by rw [ha2, ha], hext.trans hext2, by rw [hlen2, hlen]⟩

theorem absSt_init (heap : List Rat) (P : List Nat) : absSt { heap := heap, coeffs := P } = values heap P := by
  apply List.ext_getElem (by simp [absSt, values])
  intro k h1 h2
  have hk : k < P.length := by simpa [absSt] using h1
  simp [absSt, values, deref, List.getD_eq_getElem?_getD, hk]

/-- rebinding semantics: the result is the model's value of the control VALUES, and no old cell is touched -/
theorem run_rebind (t : Rat) (heap : List Rat) (P : List Nat) (hne : P ≠ []) (hP : ∀ r ∈ P, r < heap.length) :
    result (run true t heap P) = deCasteljau t (values heap P) ∧ Extends heap (run true t heap P).heap := by
  cases P with
  | nil => exact absurd rfl hne
  | cons a P =>
    have hinv : InvSt { heap := heap, coeffs := a :: P } := hP
    obtain ⟨ha, hext, hlen⟩ := outer_rebind t P.length { heap := heap, coeffs := a :: P } hinv (by simp)
    refine ⟨?_, by simpa [run] using hext⟩
    have h0 : 0 < (outer true t P.length { heap := heap, coeffs := a :: P }).coeffs.length := by
      rw [hlen]; simp
    have hrun : run true t heap (a :: P) = outer true t P.length { heap := heap, coeffs := a :: P } := by
      simp [run]
    rw [hrun, result, ← absSt_getD _ 0 h0, ha, absSt_init, ← headD_eq_getD]
    simp [deCasteljau, values]

/-- the control values seen through `P` are the same after the call -/
theorem run_rebind_values (t : Rat) (heap : List Rat) (P : List Nat) (hne : P ≠ []) (hP : ∀ r ∈ P, r < heap.length) :
    values (run true t heap P).heap P = values heap P := by
  obtain ⟨_, hext⟩ := run_rebind t heap P hne hP
  simp only [values]
  apply List.map_congr_left
  intro r hr
  exact hext.getD r (hP r hr)

/-- histories: every evaluation of a history returns the value a fresh object would return, and the control
values are unchanged at the end -/
theorem evalMany_rebind (P : List Nat) (hne : P ≠ []) : ∀ (ts : List Rat) (heap : List Rat), (∀ r ∈ P, r < heap.length) →
    (evalMany true heap P ts).1 = ts.map (fun t => deCasteljau t (values heap P)) ∧
    values (evalMany true heap P ts).2 P = values heap P ∧ Extends heap (evalMany true heap P ts).2 := by
  intro ts
  induction ts with
  | nil => intro heap _; simp [evalMany, Extends.refl]
  | cons t ts ih =>
    intro heap hP
    obtain ⟨hr, hext⟩ := run_rebind t heap P hne hP
    have hv := run_rebind_values t heap P hne hP
    have hP' : ∀ r ∈ P, r < (run true t heap P).heap.length := by
      intro r hr'
      obtain ⟨x, hx⟩ := hext
      rw [hx, List.length_append]
      have := hP r hr'; omega
    obtain ⟨i1, i2, i3⟩ := ih (run true t heap P).heap hP'
    simp only [evalMany, List.map_cons]
    refine ⟨by rw [i1, hr, hv], by rw [i2, hv], hext.trans i3⟩

end Mouette.Lemmas.C19
