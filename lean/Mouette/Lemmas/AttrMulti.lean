import Mouette.Model.AttrMulti
import Mouette.Lemmas.AttrHandlesStep
/-
Several attributes on one container: every attribute sees exactly its own operations and the container's.
-/
namespace Mouette.Attr
set_option linter.unusedSimpArgs false
set_option linter.unusedVariables false

theorem stepAll_getElem? (op : Op) : ∀ (l : List State) (b i : Nat),
    (stepAll b l op)[i]? = l[i]?.map (fun st => (step (modeOf (b + i)) st op).1) := by
  intro l
  induction l with
  | nil => intro b i; simp [stepAll]
  | cons st rest ih =>
    intro b i
    cases i with
    | zero => simp [stepAll]
    | succ j =>
      simp only [stepAll, List.getElem?_cons_succ]
      rw [ih (b + 1) j]
      have : b + 1 + j = b + (j + 1) := by omega
      rw [this]

theorem stepAll_length (op : Op) : ∀ (l : List State) (b : Nat), (stepAll b l op).length = l.length := by
  intro l
  induction l with
  | nil => intro b; rfl
  | cons st rest ih => intro b; simp [stepAll, ih]

theorem step_cont_obs (dense : Bool) (s : State) (op : Op) (h : op.isCont = true) : (step dense s op).2 = .ok := by
  cases op <;> first | rfl | (simp [Op.isCont] at h)

theorem sizeAfter_noncont (n : Nat) (op : Op) (h : op.isCont = false) : sizeAfter n op = n := by
  cases op <;> first | rfl | (simp [Op.isCont] at h)

theorem put_size {s s' : State} {a a' : Attr} {i : Int} {v : Val} (hp : put s a i v = .ok (s', a')) : s'.size = s.size := by
  unfold put at hp
  cases hst : a.store with
  | sparse data => rw [hst] at hp; simp only at hp; injection hp with hp; injection hp with h1 _; rw [← h1]
  | dense n arr =>
    rw [hst] at hp; simp only at hp
    by_cases hb : oobGuard i n = true
    · rw [if_pos hb] at hp; cases hp
    · rw [if_neg hb] at hp; injection hp with hp; injection hp with h1 _; rw [← h1]

theorem get_size {s s' : State} {a : Attr} {i : Int} {hd : Handle} {v : Val} (hg : get s a i = .ok (s', hd, v)) :
    s'.size = s.size := by
  unfold get at hg
  cases hst : a.store with
  | sparse data =>
    rw [hst] at hg; simp only at hg
    cases hl : data.lookup i with
    | some r => rw [hl] at hg; simp only at hg; injection hg with hg; injection hg with h1 _; rw [← h1]
    | none => rw [hl] at hg; simp only at hg; injection hg with hg; injection hg with h1 _; rw [← h1]
  | dense n arr =>
    rw [hst] at hg; simp only at hg
    by_cases hb : oobGuard i n = true
    · rw [if_pos hb] at hg; cases hg
    · rw [if_neg hb] at hg; injection hg with hg; injection hg with h1 _; rw [← h1]

/-- the container size after an operation does not depend on the attribute, for EVERY state -/
theorem step_size (dense : Bool) (s : State) (op : Op) : (step dense s op).1.size = sizeAfter s.size op := by
  cases op with
  | create ty k d =>
    cases d with
    | none => rw [step_create_none]; cases dense <;> simp [mkAttr, sizeAfter]
    | some x =>
      by_cases h : x.ty = ty
      · rw [step_create_some_ok h]; cases dense <;> simp [mkAttr, sizeAfter]
      · rw [step_create_some_bad h]; rfl
  | delete => rfl
  | cclear => rfl
  | append => simp only [step, sizeAfter, grow]; cases s.attr <;> rfl
  | extendList n => simp only [step, sizeAfter, grow]; cases s.attr <;> rfl
  | extendCont m => simp only [step, sizeAfter, grow]; cases s.attr <;> rfl
  | extendSelf => simp only [step, sizeAfter, grow]; cases s.attr <;> rfl
  | set i v =>
    simp only [sizeAfter]
    cases ha : s.attr with
    | none => rw [step_set_none ha]
    | some a =>
      cases hb : boundsFail a i with
      | true => rw [step_set_oob ha hb]
      | false =>
        cases hc : checkVal a.ty a.k v with
        | error e => rw [step_set_bad ha hb hc]
        | ok val =>
          obtain ⟨s', a', hp⟩ := put_ok_of_guard (s := s) val hb
          rw [step_set_ok ha hb hc hp]; show s'.size = s.size; exact put_size hp
  | get i =>
    simp only [sizeAfter]
    cases ha : s.attr with
    | none => rw [step_get_none ha]
    | some a =>
      cases hg : get s a i with
      | error e => rw [step_get_err ha hg]
      | ok r => obtain ⟨s', hd, v⟩ := r; rw [step_get_ok ha hg]; exact get_size hg
  | upd i c x =>
    simp only [sizeAfter]
    cases ha : s.attr with
    | none => rw [step_mut_none ha]
    | some a =>
      cases hg : get s a i with
      | error e => rw [step_mut_err ha hg]
      | ok r =>
        obtain ⟨s', hd, v⟩ := r
        by_cases hk : a.k > 1
        · by_cases hc : c < a.k
          · rw [step_mut_ok ha hg hk hc]; show s'.size = s.size; exact get_size hg
          · rw [step_mut_index ha hg hk hc]; exact get_size hg
        · rw [step_mut_scalar ha hg hk]; exact get_size hg
  | clear =>
    simp only [sizeAfter]
    cases ha : s.attr with
    | none => rw [step_clear_none ha]
    | some a => rw [step_clear_some ha]
  | asArray =>
    simp only [sizeAfter]
    cases ha : s.attr with
    | none => rw [step_arr_none ha]
    | some a =>
      cases hr : asArray s a with
      | ok rows => rw [step_arr_ok ha hr]
      | error e => rw [step_arr_err ha hr]

theorem final_size (dense : Bool) : ∀ (ops : List Op) (s : State), (final dense s ops).size = ops.foldl sizeAfter s.size := by
  intro ops
  induction ops with
  | nil => intro s; rfl
  | cons op ops ih => intro s; simp only [final, List.foldl_cons]; rw [ih, step_size]

/-- attribute `a` of a multi-attribute run behaves exactly like a single-attribute run on the script it sees -/
theorem multi_project_aux (a : Nat) : ∀ (ops : List OpM) (s : StateM) (st : State), wfM ops = true → s.sts[a]? = some st →
    (finalM s ops).sts[a]? = some (final (modeOf a) st (proj a ops)) ∧
    projObs a ops (runM s ops) = runObs (modeOf a) st (proj a ops) := by
  intro ops
  induction ops with
  | nil => intro s st _ h; exact ⟨h, rfl⟩
  | cons o rest ih =>
    intro s st hwf hst
    cases o with
    | on b op =>
      simp only [wfM, Bool.and_eq_true] at hwf
      simp only [finalM, runM, proj, projObs]
      by_cases hba : b = a
      · subst hba
        have hstep : stepM s (.on b op) = ({ sts := s.sts.set b (step (modeOf b) st op).1 }, (step (modeOf b) st op).2) := by
          simp only [stepM, hst]
        have hb : b < s.sts.length := by rw [List.getElem?_eq_some_iff] at hst; exact hst.1
        rw [hstep, if_pos rfl, if_pos rfl]
        obtain ⟨h1, h2⟩ := ih { sts := s.sts.set b (step (modeOf b) st op).1 } (step (modeOf b) st op).1 hwf.2
          (by simp only; rw [List.getElem?_set_self hb])
        exact ⟨by simp only [final]; exact h1, by rw [runObs_cons, h2]⟩
      · rw [if_neg hba, if_neg hba]
        have hkeep : (stepM s (.on b op)).1.sts[a]? = some st := by
          simp only [stepM]
          cases hb : s.sts[b]? with
          | none => exact hst
          | some stb => simp only; rw [List.getElem?_set_ne hba]; exact hst
        exact ih _ st hwf.2 hkeep
    | cont op =>
      simp only [wfM, Bool.and_eq_true] at hwf
      simp only [finalM, runM, proj, projObs, stepM]
      have hnew : (stepAll 0 s.sts op)[a]? = some (step (modeOf a) st op).1 := by
        rw [stepAll_getElem?, hst]; simp
      obtain ⟨h1, h2⟩ := ih { sts := stepAll 0 s.sts op } (step (modeOf a) st op).1 hwf.2 hnew
      exact ⟨by simp only [final]; exact h1, by rw [runObs_cons, h2, step_cont_obs _ _ _ hwf.1]⟩

theorem initM_getElem? (n0 K a : Nat) (ha : a < K) : (initM n0 K).sts[a]? = some (init n0) := by
  simp [initM, List.getElem?_replicate, ha]

theorem sizeFold_proj (a b : Nat) : ∀ (ops : List OpM) (n : Nat), wfM ops = true →
    (proj a ops).foldl sizeAfter n = (proj b ops).foldl sizeAfter n := by
  intro ops
  induction ops with
  | nil => intro n _; rfl
  | cons o rest ih =>
    intro n hwf
    cases o with
    | on c op =>
      simp only [wfM, Bool.and_eq_true, Bool.not_eq_true'] at hwf
      simp only [proj]
      have hs := sizeAfter_noncont n op hwf.1
      have e : ∀ x : Nat, (if c = x then op :: proj x rest else proj x rest).foldl sizeAfter n = (proj x rest).foldl sizeAfter n := by
        intro x; by_cases h : c = x
        · rw [if_pos h, List.foldl_cons, hs]
        · rw [if_neg h]
      rw [e a, e b]; exact ih n hwf.2
    | cont op =>
      simp only [wfM, Bool.and_eq_true] at hwf
      simp only [proj, List.foldl_cons]; exact ih _ hwf.2

end Mouette.Attr
