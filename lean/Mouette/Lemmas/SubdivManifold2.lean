import Mathlib.Data.Multiset.AddSub
import Mathlib.Algebra.Order.Group.Multiset
import Mathlib.Tactic.Abel
import Mouette.Lemmas.SubdivManifold
import Mouette.Lemmas.SubdivArea
/-
C13 (round 2): `split_face_as_fan` preserves "every directed side occurs in at most one face" and the border sides.
The directed sides of the result are, as a multiset, those of the input plus the two orientations of every spoke.
-/
namespace Mouette.Subdiv

theorem cycGo_map_fst {α} (first : α) : ∀ l : List α, (cycGo first l).map Prod.fst = l
  | [] => rfl
  | [_] => rfl
  | x :: y :: t => by simp [cycGo, cycGo_map_fst first (y :: t)]

theorem cycGo_map_snd {α} (first : α) : ∀ (l : List α) (x : α), (cycGo first (x :: l)).map Prod.snd = l ++ [first]
  | [], _ => rfl
  | y :: t, x => by simp [cycGo, cycGo_map_snd first t y]

theorem cycPairs_map_fst {α} (l : List α) : (cycPairs l).map Prod.fst = l := by
  cases l with
  | nil => rfl
  | cons a t => simp [cycPairs, cycGo_map_fst]

theorem cycPairs_map_snd_perm {α} (l : List α) : ((cycPairs l).map Prod.snd).Perm l := by
  cases l with
  | nil => exact List.Perm.refl _
  | cons a t =>
    simp only [cycPairs, cycGo_map_snd]
    exact List.perm_append_singleton a t

theorem cycPairs_pairwise_ne (f : List Nat) (hn : f.Nodup) :
    (cycPairs f).Pairwise (fun p q => p.1 ≠ q.1 ∧ p.2 ≠ q.2) := by
  have h1 : ((cycPairs f).map Prod.fst).Nodup := by rw [cycPairs_map_fst]; exact hn
  have h2 : ((cycPairs f).map Prod.snd).Nodup := ((cycPairs_map_snd_perm f).nodup_iff).mpr hn
  rw [List.Nodup, List.pairwise_map] at h1 h2
  exact List.Pairwise.and h1 h2

theorem perm_flatMap_cons {α β} (g : α → β) (h : α → List β) : ∀ l : List α,
    (l.flatMap (fun x => g x :: h x)).Perm (l.map g ++ l.flatMap h)
  | [] => List.Perm.refl _
  | a :: t => by
    simp only [List.flatMap_cons, List.map_cons, List.cons_append]
    refine List.Perm.cons _ ?_
    have ih := perm_flatMap_cons g h t
    exact (List.Perm.append_left _ ih).trans (by
      rw [← List.append_assoc, ← List.append_assoc]
      exact List.Perm.append_right _ List.perm_append_comm)

/-- the two orientations of the spoke at the end / at the start of every directed side of the split face -/
def spokes (f : List Nat) (iV : Nat) : List (Nat × Nat) := (cycPairs f).flatMap (fun p => [(p.2, iV), (iV, p.1)])

theorem mem_spokes (f : List Nat) (iV : Nat) (y : Nat × Nat) :
    y ∈ spokes f iV ↔ ∃ p ∈ cycPairs f, y = (p.2, iV) ∨ y = (iV, p.1) := by
  simp [spokes, List.mem_flatMap]

theorem spokes_nodup (f : List Nat) (iV : Nat) (hn : f.Nodup) (hlt : ∀ v ∈ f, v < iV) : (spokes f iV).Nodup := by
  rw [spokes, List.nodup_flatMap]
  constructor
  · intro p hp
    have := hlt _ (cycPairs_mem f p hp).2
    simp only [List.nodup_cons, List.mem_cons, Prod.mk.injEq, List.not_mem_nil, or_false, List.nodup_nil, and_true,
      not_false_eq_true]
    omega
  · refine (List.Pairwise.and_mem.mp (cycPairs_pairwise_ne f hn)).imp ?_
    rintro p q ⟨hp, hq, h1, h2⟩
    simp only [Function.onFun, List.disjoint_left, List.mem_cons, List.not_mem_nil, or_false]
    have b1 := hlt _ (cycPairs_mem f p hp).2
    have b2 := hlt _ (cycPairs_mem f q hq).1
    have b3 := hlt _ (cycPairs_mem f p hp).1
    have b4 := hlt _ (cycPairs_mem f q hq).2
    rintro x (rfl | rfl) (h | h) <;> simp only [Prod.mk.injEq] at h <;> omega

/-- the directed sides after the fan split: those of the input plus the spokes, as a multiset -/
theorem fan_dirSides_perm (m m' : Raw) (fid : Nat) (h : splitFaceAsFan m fid = .ok m') :
    ∃ f, m.faces[fid]? = some f ∧ (dirSides m').Perm (dirSides m ++ spokes f m.verts.length) := by
  obtain ⟨f, ps, a, b, rest, hf, _, hc, _, hfa, _, _⟩ := fan_spec m m' fid h
  refine ⟨f, hf, ?_⟩
  have hi : fid < m.faces.length := by
    by_contra hcn; rw [List.getElem?_eq_none (by omega)] at hf; cases hf
  have hget : m.faces[fid] = f := by
    have := List.getElem?_eq_getElem hi; rw [this] at hf; exact Option.some.inj hf
  set iV := m.verts.length
  set L1 := m.faces.take fid
  set L2 := m.faces.drop (fid + 1)
  have hsplit : m.faces = L1 ++ f :: L2 := by
    rw [← hget, ← List.drop_eq_getElem_cons hi, List.take_append_drop]
  have hset : m.faces.set fid [a, b, iV] = L1 ++ [a, b, iV] :: L2 := by
    rw [List.set_eq_take_append_cons_drop, if_pos hi]
  let T : Nat × Nat → List (Nat × Nat) := fun p => p :: [(p.2, iV), (iV, p.1)]
  have e1 : dirSides m' = L1.flatMap cycPairs ++ (T (a, b) ++ L2.flatMap cycPairs) ++ rest.flatMap T := by
    simp only [dirSides, hfa, hset, List.flatMap_append, List.flatMap_cons, List.flatMap_map]
    rfl
  have e0 : dirSides m = L1.flatMap cycPairs ++ (cycPairs f ++ L2.flatMap cycPairs) := by
    simp only [dirSides]
    rw [hsplit]
    simp only [List.flatMap_append, List.flatMap_cons]
  have pX : (T (a, b) ++ rest.flatMap T).Perm (cycPairs f ++ spokes f iV) := by
    have := perm_flatMap_cons (fun p : Nat × Nat => p) (fun p => [(p.2, iV), (iV, p.1)]) (cycPairs f)
    simp only [List.map_id'] at this
    rw [hc] at this ⊢
    simpa [spokes, hc, T] using this
  rw [e1, e0]
  rw [← Multiset.coe_eq_coe] at pX ⊢
  simp only [← Multiset.coe_add] at pX ⊢
  have gen : ∀ (A B C D E F : Multiset (Nat × Nat)), B + D = E + F → A + (B + C) + D = A + (E + C) + F := by
    intro A B C D E F hh
    calc A + (B + C) + D = A + C + (B + D) := by abel
      _ = A + C + (E + F) := by rw [hh]
      _ = A + (E + C) + F := by abel
  exact gen _ _ _ _ _ _ pX

/-- **the fan split preserves "every directed side occurs in at most one face"** -/
theorem fan_oriented (m m' : Raw) (fid : Nat) (hwf : WF m) (hn : ∀ f ∈ m.faces, f.Nodup) (ho : OrientedSides m)
    (h : splitFaceAsFan m fid = .ok m') : OrientedSides m' := by
  obtain ⟨f, hf, hperm⟩ := fan_dirSides_perm m m' fid h
  have hfm : f ∈ m.faces := List.mem_of_getElem? hf
  unfold OrientedSides
  rw [hperm.nodup_iff, List.nodup_append]
  refine ⟨ho, spokes_nodup f _ (hn f hfm) (hwf f hfm), ?_⟩
  intro x hx y hy hxy
  subst hxy
  obtain ⟨g, hg, hxg⟩ := List.mem_flatMap.mp hx
  have b1 := hwf g hg _ (cycPairs_mem g x hxg).1
  have b2 := hwf g hg _ (cycPairs_mem g x hxg).2
  obtain ⟨p, _, hy⟩ := (mem_spokes f _ x).mp hy
  rcases hy with rfl | rfl <;> simp at b1 b2

/-- **border sides of the fan split are exactly the border sides of the input** (every spoke has its opposite) -/
theorem fan_border (m m' : Raw) (fid : Nat) (hwf : WF m) (h : splitFaceAsFan m fid = .ok m') (x : Nat × Nat)
    (hx : x ∈ dirSides m') : (x.2, x.1) ∉ dirSides m' ↔ (x ∈ dirSides m ∧ (x.2, x.1) ∉ dirSides m) := by
  obtain ⟨f, hf, hperm⟩ := fan_dirSides_perm m m' fid h
  have hfm : f ∈ m.faces := List.mem_of_getElem? hf
  have memD : ∀ y, y ∈ dirSides m' ↔ y ∈ dirSides m ∨ y ∈ spokes f m.verts.length := fun y => by
    rw [hperm.mem_iff, List.mem_append]
  have bound : ∀ y ∈ dirSides m, y.1 < m.verts.length ∧ y.2 < m.verts.length := by
    intro y hy
    obtain ⟨g, hg, hyg⟩ := List.mem_flatMap.mp hy
    exact ⟨hwf g hg _ (cycPairs_mem g y hyg).1, hwf g hg _ (cycPairs_mem g y hyg).2⟩
  have spoke_comp : ∀ y ∈ spokes f m.verts.length, y.1 = m.verts.length ∨ y.2 = m.verts.length := by
    intro y hy
    obtain ⟨p, _, hy⟩ := (mem_spokes f _ y).mp hy
    rcases hy with rfl | rfl <;> simp
  -- every vertex of the face starts one directed side and ends one
  have hfst : ∀ v ∈ f, ∃ p ∈ cycPairs f, p.1 = v := by
    intro v hv
    have : v ∈ (cycPairs f).map Prod.fst := by rw [cycPairs_map_fst]; exact hv
    obtain ⟨p, hp, e⟩ := List.mem_map.mp this
    exact ⟨p, hp, e⟩
  have hsnd : ∀ v ∈ f, ∃ p ∈ cycPairs f, p.2 = v := by
    intro v hv
    have : v ∈ (cycPairs f).map Prod.snd := ((cycPairs_map_snd_perm f).mem_iff).mpr hv
    obtain ⟨p, hp, e⟩ := List.mem_map.mp this
    exact ⟨p, hp, e⟩
  rcases (memD x).mp hx with hxm | hxs
  · obtain ⟨b1, b2⟩ := bound x hxm
    constructor
    · intro hno
      exact ⟨hxm, fun hc => hno ((memD _).mpr (Or.inl hc))⟩
    · rintro ⟨_, hno⟩ hopp
      rcases (memD _).mp hopp with hc | hc
      · exact hno hc
      · rcases spoke_comp _ hc with e | e <;> simp at e <;> omega
  · constructor
    · intro hno
      exfalso
      apply hno
      obtain ⟨p, hp, hxe⟩ := (mem_spokes f _ x).mp hxs
      rcases hxe with rfl | rfl
      · obtain ⟨q, hq, e⟩ := hfst p.2 (cycPairs_mem f p hp).2
        exact (memD _).mpr (Or.inr ((mem_spokes f _ _).mpr ⟨q, hq, Or.inr (by simp [e])⟩))
      · obtain ⟨q, hq, e⟩ := hsnd p.1 (cycPairs_mem f p hp).1
        exact (memD _).mpr (Or.inr ((mem_spokes f _ _).mpr ⟨q, hq, Or.inl (by simp [e])⟩))
    · rintro ⟨hxm, _⟩
      obtain ⟨b1, b2⟩ := bound x hxm
      rcases spoke_comp _ hxs with e | e <;> omega

end Mouette.Subdiv
