import Mathlib.Data.List.Perm.Subperm
import Mouette.Model.Border
import Mouette.Lemmas.RingVerts
/-! C15 `border_cycle_correct`: the border walk of `Model/Border.lean` follows the map
`w0 A = vertex_to_vertices(A)[0]` and closes up. -/
namespace Mouette.Border
open Mouette.Surface

/-- `k`-th iterate -/
def iter (f : Nat → Nat) : Nat → Nat → Nat
  | 0, x => x
  | k+1, x => f (iter f k x)

/-- what the walk uses: on border vertices the sorted vertex ring starts with `w0 A`, which is a border
vertex again, never the vertex we came from, and `w0` is injective -/
structure WalkHyp (S : Surf) (bv : List Nat) (w0 : Nat → Nat) : Prop where
  head : ∀ A ∈ bv, ∃ rest, vertexToVertices S A = w0 A :: rest
  mem : ∀ A ∈ bv, w0 A ∈ bv
  noback : ∀ A ∈ bv, w0 (w0 A) ≠ A
  inj : ∀ A ∈ bv, ∀ B ∈ bv, w0 A = w0 B → A = B

section walk
variable {S : Surf} {bv : List Nat} {w0 : Nat → Nat}

theorem iter_mem (h : WalkHyp S bv w0) {x : Nat} (hx : x ∈ bv) : ∀ k, iter w0 k x ∈ bv
  | 0 => hx
  | k+1 => h.mem _ (iter_mem h hx k)

/-- the `for v in vertex_to_vertices(point2)` loop picks `w0 point2` -/
theorem nextBorder_eq (h : WalkHyp S bv w0) {p1 : Nat} (hp : p1 ∈ bv) :
    nextBorder S bv p1 (w0 p1) = (w0 p1, w0 (w0 p1)) := by
  unfold nextBorder
  obtain ⟨rest, hrest⟩ := h.head (w0 p1) (h.mem p1 hp)
  rw [hrest, List.find?_cons_of_pos]
  simp only [Bool.and_eq_true, bne_iff_ne, ne_eq]
  exact ⟨List.contains_iff_mem.mpr (h.mem _ (h.mem p1 hp)), h.noback p1 hp⟩

/-- the `while` loop, `d` steps before the walk is back at `start` -/
theorem walk_iter (h : WalkHyp S bv w0) {start : Nat} (hs : start ∈ bv) :
    ∀ (d k fuel : Nat) (vb : List Nat) (eb : List (Option Nat)), d ≤ fuel →
      iter w0 (k + 1 + d) start = start →
      (∀ j, k + 1 ≤ j → j < k + 1 + d → iter w0 j start ≠ start) →
      walk S bv start fuel (iter w0 k start) (iter w0 (k+1) start) vb eb =
        (vb ++ (List.range d).map (fun t => iter w0 (k + 1 + t) start),
         eb ++ (List.range (d + 1)).map (fun t => edgeId S (iter w0 (k + t) start) (iter w0 (k + t + 1) start))) := by
  intro d
  induction d with
  | zero =>
    intro k fuel vb eb _ hret _
    have hp2 : iter w0 (k + 1) start = start := by simpa using hret
    cases fuel with
    | zero => simp [walk]
    | succ f => simp [walk, hp2]
  | succ d ih =>
    intro k fuel vb eb hf hret hmin
    obtain ⟨f, rfl⟩ : ∃ f, fuel = f + 1 := ⟨fuel - 1, by omega⟩
    have hne : iter w0 (k + 1) start ≠ start := hmin (k+1) (by omega) (by omega)
    have hne' : (iter w0 (k + 1) start == start) = false := by simpa using hne
    have hnb : nextBorder S bv (iter w0 k start) (iter w0 (k+1) start) =
        (iter w0 (k+1) start, iter w0 (k+2) start) := nextBorder_eq h (iter_mem h hs k)
    unfold walk
    rw [hne']
    simp only [Bool.false_eq_true, if_false, hnb]
    rw [ih (k+1) f _ _ (by omega) (by rw [← hret]; congr 1; omega)
      (fun j h1 h2 => hmin j (by omega) (by omega))]
    congr 1
    · rw [List.range_succ_eq_map, List.map_cons, List.map_map]
      simp only [List.append_assoc, List.singleton_append, Nat.add_zero]
      congr 2
      apply List.map_congr_left
      intro t _
      simp only [Function.comp]
      congr 1; omega
    · rw [List.range_succ_eq_map (n := d + 1), List.map_cons, List.map_map]
      simp only [List.append_assoc, List.singleton_append, Nat.add_zero]
      congr 2
      apply List.map_congr_left
      intro t _
      simp only [Function.comp]
      congr 2 <;> omega

/-- `extract_border_cycle(mesh, start)` when the `w0`-orbit of `start` returns after `d+1 ≤ nv+1` steps -/
theorem extractBorderCycle_eq (h : WalkHyp S bv w0) {start : Nat} (hs : start ∈ bv) (d : Nat)
    (hd : d ≤ S.nv) (hret : iter w0 (d + 1) start = start)
    (hmin : ∀ j, 1 ≤ j → j < d + 1 → iter w0 j start ≠ start) :
    extractBorderCycle S bv start =
      some ((List.range (d + 1)).map (fun t => iter w0 t start),
            (List.range (d + 1)).map (fun t => edgeId S (iter w0 t start) (iter w0 (t + 1) start))) := by
  unfold extractBorderCycle
  have hc : bv.contains start = true := List.contains_iff_mem.mpr hs
  obtain ⟨rest, hrest⟩ := h.head start hs
  simp only [hc, Bool.not_true, Bool.false_eq_true, if_false, hrest]
  have := walk_iter h hs d 0 S.nv [start] [] hd (by rw [← hret]; congr 1; omega)
    (fun j h1 h2 => hmin j (by omega) (by omega))
  simp only [iter, Nat.zero_add] at this
  rw [this]
  congr 2
  · rw [List.range_succ_eq_map, List.map_cons, List.map_map]
    simp only [iter, List.singleton_append]
    congr 1
    apply List.map_congr_left
    intro t _
    simp only [Function.comp]
    congr 1; omega

/-! ### the orbit closes up (pigeonhole) and has no repetition -/

theorem iter_cancel (h : WalkHyp S bv w0) {start : Nat} (hs : start ∈ bv) :
    ∀ a b, a ≤ b → iter w0 a start = iter w0 b start → iter w0 (b - a) start = start := by
  intro a
  induction a with
  | zero => intro b _ he; simpa [iter] using he.symm
  | succ a ih =>
    intro b hab he
    obtain ⟨b', rfl⟩ : ∃ b', b = b' + 1 := ⟨b - 1, by omega⟩
    simp only [iter] at he
    have := h.inj _ (iter_mem h hs a) _ (iter_mem h hs b') he
    have h2 := ih b' (by omega) this
    have : b' + 1 - (a + 1) = b' - a := by omega
    rw [this]; exact h2

theorem exists_least {P : Nat → Prop} (hP : ∃ n, P n) : ∃ m, P m ∧ ∀ k, k < m → ¬ P k := by
  obtain ⟨n, hn⟩ := hP
  induction n using Nat.strongRecOn with
  | _ n ih =>
    by_cases hex : ∃ k, k < n ∧ P k
    · obtain ⟨k, hk, hpk⟩ := hex
      exact ih k hk hpk
    · exact ⟨n, hn, fun k hk hpk => hex ⟨k, hk, hpk⟩⟩

/-- the `w0`-orbit of a border vertex returns to it after at most `|bv|` steps; `d+1` is the first return -/
theorem orbit_returns (h : WalkHyp S bv w0) {start : Nat} (hs : start ∈ bv) :
    ∃ d, d + 1 ≤ bv.length ∧ iter w0 (d + 1) start = start ∧
      ∀ j, 1 ≤ j → j < d + 1 → iter w0 j start ≠ start := by
  -- two of the first |bv|+1 iterates coincide
  have hdup : ∃ a b, a < b ∧ b ≤ bv.length ∧ iter w0 a start = iter w0 b start := by
    by_contra hc
    have hnd : ((List.range (bv.length + 1)).map (fun t => iter w0 t start)).Nodup := by
      rw [List.Nodup, List.pairwise_iff_getElem]
      intro i j hi hj hij heq
      simp only [List.length_map, List.length_range] at hi hj
      simp only [List.getElem_map, List.getElem_range] at heq
      exact hc ⟨i, j, hij, by omega, heq⟩
    have hsub : ((List.range (bv.length + 1)).map (fun t => iter w0 t start)) ⊆ bv := by
      intro x hx
      obtain ⟨t, _, rfl⟩ := List.mem_map.mp hx
      exact iter_mem h hs t
    have := (List.subperm_of_subset hnd hsub).length_le
    simp at this
    omega
  obtain ⟨a, b, hab, hb, he⟩ := hdup
  have hret := iter_cancel h hs a b (by omega) he
  have hex : ∃ L, 1 ≤ L ∧ iter w0 L start = start := ⟨b - a, by omega, hret⟩
  obtain ⟨L, ⟨hL1, hL2⟩, hLmin⟩ := exists_least hex
  have hLle : L ≤ b - a := by
    by_contra hc
    exact hLmin (b - a) (by omega) ⟨by omega, hret⟩
  refine ⟨L - 1, by omega, ?_, ?_⟩
  · have : L - 1 + 1 = L := by omega
    rw [this]; exact hL2
  · intro j hj1 hj2 hj3
    exact hLmin j (by omega) ⟨hj1, hj3⟩

/-- before the first return the iterates are pairwise distinct -/
theorem orbit_nodup (h : WalkHyp S bv w0) {start : Nat} (hs : start ∈ bv) (d : Nat)
    (hmin : ∀ j, 1 ≤ j → j < d + 1 → iter w0 j start ≠ start) :
    ((List.range (d + 1)).map (fun t => iter w0 t start)).Nodup := by
  rw [List.Nodup, List.pairwise_iff_getElem]
  intro i j hi hj hij heq
  simp only [List.length_map, List.length_range] at hi hj
  simp only [List.getElem_map, List.getElem_range] at heq
  exact hmin (j - i) (by omega) (by omega) (iter_cancel h hs i j (by omega) heq)

/-- the list of the first `d+1` iterates (the vertex list of the cycle) -/
def orbit (w0 : Nat → Nat) (d start : Nat) : List Nat := (List.range (d + 1)).map (fun t => iter w0 t start)

theorem mem_orbit {d start x : Nat} : x ∈ orbit w0 d start ↔ ∃ t, t ≤ d ∧ iter w0 t start = x := by
  unfold orbit
  simp only [List.mem_map, List.mem_range]
  constructor
  · rintro ⟨t, ht, rfl⟩; exact ⟨t, by omega, rfl⟩
  · rintro ⟨t, ht, rfl⟩; exact ⟨t, by omega, rfl⟩

/-- a full cycle is closed under `w0` … -/
theorem orbit_fwd_closed {d start : Nat} (hret : iter w0 (d + 1) start = start) {x : Nat}
    (hx : x ∈ orbit w0 d start) : w0 x ∈ orbit w0 d start := by
  obtain ⟨t, ht, rfl⟩ := mem_orbit.mp hx
  rcases Nat.lt_or_ge t d with h1 | h1
  · exact mem_orbit.mpr ⟨t + 1, by omega, rfl⟩
  · have : t = d := by omega
    subst this
    exact mem_orbit.mpr ⟨0, by omega, by simpa [iter] using hret.symm⟩

/-- … and under its inverse on border vertices -/
theorem orbit_back_closed (h : WalkHyp S bv w0) {d start : Nat} (hs : start ∈ bv)
    (hret : iter w0 (d + 1) start = start) {y : Nat} (hy : y ∈ bv)
    (hwy : w0 y ∈ orbit w0 d start) : y ∈ orbit w0 d start := by
  obtain ⟨t, ht, he⟩ := mem_orbit.mp hwy
  cases t with
  | zero =>
    have : w0 y = w0 (iter w0 d start) := by
      simp only [iter] at he
      rw [← he]; exact hret.symm
    have := h.inj y hy _ (iter_mem h hs d) this
    exact mem_orbit.mpr ⟨d, by omega, this.symm⟩
  | succ t' =>
    simp only [iter] at he
    have := h.inj _ (iter_mem h hs t') y hy he
    exact mem_orbit.mpr ⟨t', by omega, this⟩

/-- a vertex outside a backward-closed set has no iterate inside it -/
theorem iter_not_mem_of_back_closed (h : WalkHyp S bv w0) {V : List Nat}
    (hV : ∀ y ∈ bv, w0 y ∈ V → y ∈ V) {v : Nat} (hv : v ∈ bv) (hnv : v ∉ V) : ∀ k, iter w0 k v ∉ V
  | 0 => hnv
  | k+1 => fun hk => iter_not_mem_of_back_closed h hV hv hnv k (hV _ (iter_mem h hv k) hk)

end walk

end Mouette.Border
