import Mouette.Props.C01
import Mouette.Lemmas.RingSort
/-! Corners around a vertex read on the face list: what `cornersAt`, `stepB`, `stepF` mean for `build nv faces so`. -/
namespace Mouette.Surface
open Mouette.Props.C01

theorem cornersAt_nodup (S : Surf) (v : Nat) : (cornersAt S v).Nodup := by
  unfold cornersAt
  have hsub : ((S.fc.zipIdx.filter fun e => e.1.1 == v).map (·.2)).Sublist (S.fc.zipIdx.map (·.2)) :=
    (List.filter_sublist).map _
  have hnd : (S.fc.zipIdx.map (·.2)).Nodup := by
    rw [List.zipIdx_map_snd]; exact List.nodup_range'
  exact hnd.sublist hsub

theorem mem_cornersAt {faces : Faces} {nv : Nat} {so : Bool} {v c : Nat} :
    c ∈ cornersAt (build nv faces so) v ↔
      ∃ f i, f < faces.length ∧ i < (fa faces f).length ∧ (fa faces f).getD i 0 = v ∧ c = offset faces f + i := by
  have hS : (build nv faces so).fc = faceCornersFrom 0 faces := rfl
  unfold cornersAt
  rw [hS, mem_zipIdx_filter]
  constructor
  · rintro ⟨⟨w, g⟩, hx, hp⟩
    obtain ⟨k, i, hk, hi, hc, hv, _⟩ := faceCornersFrom_getElem?_inv hx
    simp only [beq_iff_eq] at hp
    exact ⟨k, i, hk, hi, by rw [hv, hp], hc⟩
  · rintro ⟨f, i, hf, hi, hv, rfl⟩
    have h := faceCornersFrom_getElem? (f0 := 0) hf hi
    exact ⟨_, h, by simp only [beq_iff_eq]; exact hv⟩

theorem pred_lt {n i : Nat} (hi : i < n) : (i + n - 1) % n < n := Nat.mod_lt _ (by omega)

theorem pred_succ_mod {n i : Nat} (hi : i < n) : ((i + n - 1) % n + 1) % n = i := by
  rcases mod_cases (i + n - 1) n (by omega) with ⟨h1, h2⟩ | ⟨h1, h2⟩
  · rw [h2]
    have : i + n - 1 + 1 = n := by omega
    rw [this, Nat.mod_self]; omega
  · rw [h2]
    have : i + n - 1 - n + 1 = i := by omega
    rw [this, Nat.mod_eq_of_lt hi]

theorem succ_pred_mod {n i : Nat} (hi : i < n) : ((i + 1) % n + n - 1) % n = i := by
  rcases mod_cases (i + 1) n (by omega) with ⟨h1, h2⟩ | ⟨h1, h2⟩
  · rw [h2]
    have : i + 1 + n - 1 = i + n := by omega
    rw [this, Nat.add_mod_right, Nat.mod_eq_of_lt hi]
  · rw [h2]
    have : i + 1 - n + n - 1 = i := by omega
    rw [this, Nat.mod_eq_of_lt hi]

section mesh
variable {faces : Faces} (nv : Nat) (so : Bool)

/-- `stepB (f,i)` = the corner that starts the half-edge `(F[i] → F[i-1])`: the corner at the same
vertex in the face on the other side of the side *entering* the vertex; `none` when that side is a
border side -/
theorem stepB_eq (hO : Oriented faces) {f i : Nat} (hf : f < faces.length) (hi : i < (fa faces f).length) :
    stepB (build nv faces so) (offset faces f + i) =
      halfEdgeToCorner (build nv faces so) ((fa faces f).getD i 0)
        ((fa faces f).getD ((i + (fa faces f).length - 1) % (fa faces f).length) 0) := by
  unfold stepB
  rw [prev_eq_spec nv so hO hf hi]
  simp only [Option.bind_some]
  rw [opposite_eq_halfEdge nv so hO hf (pred_lt hi), pred_succ_mod hi]

/-- `stepF (f,i)` = next corner of the corner that starts the half-edge `(F[i+1] → F[i])` -/
theorem stepF_eq (hO : Oriented faces) {f i : Nat} (hf : f < faces.length) (hi : i < (fa faces f).length) :
    stepF (build nv faces so) (offset faces f + i) =
      (halfEdgeToCorner (build nv faces so) ((fa faces f).getD ((i + 1) % (fa faces f).length) 0)
        ((fa faces f).getD i 0)).bind (nextCorner (build nv faces so)) := by
  unfold stepF
  rw [opposite_eq_halfEdge nv so hO hf hi]

/-- the two moves are inverse of each other: if `stepB c = c'` then `stepF c' = c` -/
theorem stepF_of_stepB (hO : Oriented faces) {f i : Nat} (hf : f < faces.length) (hi : i < (fa faces f).length)
    {c' : Nat} (h : stepB (build nv faces so) (offset faces f + i) = some c') :
    stepF (build nv faces so) c' = some (offset faces f + i) := by
  rw [stepB_eq nv so hO hf hi] at h
  obtain ⟨g, j, ⟨hg, hj, hu, hv⟩, rfl⟩ := (halfEdgeToCorner_eq_spec nv so hO _ _ _).mp h
  rw [stepF_eq nv so hO hg hj, hu, hv]
  have hside : IsSide faces f ((i + (fa faces f).length - 1) % (fa faces f).length)
      ((fa faces f).getD ((i + (fa faces f).length - 1) % (fa faces f).length) 0) ((fa faces f).getD i 0) :=
    ⟨hf, pred_lt hi, rfl, by rw [pred_succ_mod hi]⟩
  have h2 := (halfEdgeToCorner_eq_spec nv so hO _ _ _).mpr ⟨f, _, hside, rfl⟩
  rw [h2]
  simp only [Option.bind_some]
  rw [next_eq_spec nv so hO hf (pred_lt hi), pred_succ_mod hi]

/-- … and if `stepF c = c'` then `stepB c' = c` -/
theorem stepB_of_stepF (hO : Oriented faces) {f i : Nat} (hf : f < faces.length) (hi : i < (fa faces f).length)
    {c' : Nat} (h : stepF (build nv faces so) (offset faces f + i) = some c') :
    stepB (build nv faces so) c' = some (offset faces f + i) := by
  rw [stepF_eq nv so hO hf hi] at h
  obtain ⟨o, ho, hn⟩ := Option.bind_eq_some_iff.mp h
  obtain ⟨g, j, ⟨hg, hj, hu, hv⟩, rfl⟩ := (halfEdgeToCorner_eq_spec nv so hO _ _ _).mp ho
  rw [next_eq_spec nv so hO hg hj] at hn
  have hc' : c' = offset faces g + (j + 1) % (fa faces g).length := (Option.some.inj hn).symm
  subst hc'
  have hj' : (j + 1) % (fa faces g).length < (fa faces g).length := Nat.mod_lt _ (by omega)
  rw [stepB_eq nv so hO hg hj', succ_pred_mod hj, hv, hu]
  exact (halfEdgeToCorner_eq_spec nv so hO _ _ _).mpr ⟨f, i, ⟨hf, hi, rfl, rfl⟩, rfl⟩

end mesh

end Mouette.Surface
