import Mouette.Lemmas.GraphRank
/-
Minimality of the Kruskal selection.

Route: (1) `sum_le_of_count_dom` — if two lists of rationals have the same length and for every threshold `t` the
first has at least as many elements `≤ t` as the second, its sum is smaller; (2) the Kruskal loop with the
selected *weighted* edges as a ghost (`kStepW`; its first component is exactly the model's `kStep`); after every
prefix of the sorted edge list the selection is an acyclic list spanning that prefix (`KW`); (3) for a threshold
`t` the edges of weight `≤ t` form a prefix of the sorted list, so by the exchange bound (`indep_le_of_span`) any
forest has at most as many edges `≤ t` as the selection.
-/
namespace Mouette.Trees
open Mouette.UF

/-! ### (1) the counting inequality -/

theorem exists_max : ∀ (L : List Rat), L ≠ [] → ∃ m ∈ L, ∀ x ∈ L, x ≤ m
  | [], h => absurd rfl h
  | [a], _ => ⟨a, by simp, by intro x hx; simp at hx; subst hx; exact le_refl _⟩
  | a :: b :: L, _ => by
    obtain ⟨m, hm, hmax⟩ := exists_max (b :: L) (by simp)
    by_cases h : a ≤ m
    · refine ⟨m, List.mem_cons_of_mem _ hm, ?_⟩
      intro x hx
      rcases List.mem_cons.mp hx with rfl | hx
      · exact h
      · exact hmax x hx
    · refine ⟨a, by simp, ?_⟩
      intro x hx
      rcases List.mem_cons.mp hx with rfl | hx
      · exact le_refl _
      · have := hmax x hx; linarith

theorem sum_erase' : ∀ (L : List Rat) (x : Rat), x ∈ L → (L.erase x).sum + x = L.sum
  | [], _, h => by simp at h
  | a :: L, x, h => by
    rw [List.erase_cons]
    by_cases hax : a = x
    · subst hax; simp; exact add_comm _ _
    · have hb : (a == x) = false := by simpa using hax
      rw [hb]
      have hx : x ∈ L := by
        rcases List.mem_cons.mp h with h | h
        · exact absurd h.symm hax
        · exact h
      have := sum_erase' L x hx
      simp only [Bool.false_eq_true, if_false, List.sum_cons]
      linarith

theorem countP_erase' (p : Rat → Bool) : ∀ (L : List Rat) (x : Rat), x ∈ L →
    (L.erase x).countP p + (if p x then 1 else 0) = L.countP p
  | [], _, h => by simp at h
  | a :: L, x, h => by
    rw [List.erase_cons]
    by_cases hax : a = x
    · subst hax
      simp only [beq_self_eq_true, if_true, List.countP_cons]
    · have hb : (a == x) = false := by simpa using hax
      rw [hb]
      have hx : x ∈ L := by
        rcases List.mem_cons.mp h with h | h
        · exact absurd h.symm hax
        · exact h
      have := countP_erase' p L x hx
      simp only [Bool.false_eq_true, if_false, List.countP_cons]
      omega

/-- same length, more small elements at every threshold ⇒ smaller sum -/
theorem sum_le_of_count_dom : ∀ (m : Nat) (K F : List Rat), K.length = m → F.length = m →
    (∀ t : Rat, F.countP (fun x => decide (x ≤ t)) ≤ K.countP (fun x => decide (x ≤ t))) → K.sum ≤ F.sum
  | 0, K, F, hK, hF, _ => by
    have : K = [] := List.length_eq_zero_iff.mp hK
    have : F = [] := List.length_eq_zero_iff.mp hF
    subst_vars; exact le_refl _
  | m+1, K, F, hK, hF, hdom => by
    have hKne : K ≠ [] := by intro h; subst h; simp at hK
    have hFne : F ≠ [] := by intro h; subst h; simp at hF
    obtain ⟨k, hk, hkmax⟩ := exists_max K hKne
    obtain ⟨f, hf, hfmax⟩ := exists_max F hFne
    have hkf : k ≤ f := by
      by_contra hlt
      have hlt' : f < k := lt_of_not_ge hlt
      have h1 : F.countP (fun x => decide (x ≤ f)) = F.length :=
        List.countP_eq_length.mpr (fun a ha => by simpa using hfmax a ha)
      have h2 := countP_erase' (fun x => decide (x ≤ f)) K k hk
      have h3 : decide (k ≤ f) = false := by simpa using hlt'
      have h4 : (K.erase k).countP (fun x => decide (x ≤ f)) ≤ (K.erase k).length := List.countP_le_length
      have h5 := List.length_erase_of_mem hk
      have := hdom f
      simp only [h3] at h2
      simp at h2
      omega
    have ih := sum_le_of_count_dom m (K.erase k) (F.erase f)
      (by rw [List.length_erase_of_mem hk]; omega) (by rw [List.length_erase_of_mem hf]; omega) (by
        intro t
        have h1 := countP_erase' (fun x => decide (x ≤ t)) K k hk
        have h2 := countP_erase' (fun x => decide (x ≤ t)) F f hf
        have h3 := hdom t
        by_cases hft : f ≤ t
        · have e2 : decide (f ≤ t) = true := by simpa using hft
          by_cases hkt : k ≤ t
          · have e1 : decide (k ≤ t) = true := by simpa using hkt
            simp only [e1, e2, if_true] at h1 h2; omega
          · have e1 : decide (k ≤ t) = false := by simpa using hkt
            simp only [e1, e2, if_true] at h1 h2; simp at h1; omega
        · have e2 : decide (f ≤ t) = false := by simpa using hft
          by_cases hkt : k ≤ t
          · have e1 : decide (k ≤ t) = true := by simpa using hkt
            have hall : K.countP (fun x => decide (x ≤ t)) = K.length :=
              List.countP_eq_length.mpr (fun a ha => by
                have := hkmax a ha
                simpa using le_trans this hkt)
            have hle : (F.erase f).countP (fun x => decide (x ≤ t)) ≤ (F.erase f).length := List.countP_le_length
            have hlen := List.length_erase_of_mem hf
            simp only [e1, e2, if_true] at h1 h2; simp at h2; omega
          · have e1 : decide (k ≤ t) = false := by simpa using hkt
            simp only [e1, e2] at h1 h2; simp at h1 h2; omega)
    have s1 := sum_erase' K k hk
    have s2 := sum_erase' F f hf
    linarith

/-! ### (2) the Kruskal loop with the selected weighted edges as a ghost -/

/-- endpoints of a weighted edge -/
def pr (e : Nat × Nat × Rat) : Nat × Nat := (e.1, e.2.1)

abbrev KState := (UF.State × List (Nat × Nat)) × List (Nat × Nat × Rat)

/-- `kStep` of the model, plus the list of selected weighted edges (most recent first) -/
def kStepW (st : KState) (e : Nat × Nat × Rat) : KState :=
  (kStep st.1 e,
   match UF.connected st.1.1 e.1 e.2.1 with
   | some (_, false) => e :: st.2
   | _ => st.2)

theorem foldl_kStepW_fst : ∀ (es : List (Nat × Nat × Rat)) (st : KState),
    (es.foldl kStepW st).1 = es.foldl kStep st.1
  | [], _ => rfl
  | e :: es, st => by rw [List.foldl_cons, List.foldl_cons, foldl_kStepW_fst es]; rfl

structure KW (n : Nat) (done : List (Nat × Nat × Rat)) (st : KState) : Prop where
  hist : ∃ ops, st.1.1 = run ops ∧ (∀ v, v < n → v ∈ present ops) ∧ unionPairs ops = (st.2.map pr).reverse
  out : st.1.2 = (st.2.map pr).reverse.map (fun p => keyify p.1 p.2)
  indep : Indep (st.2.map pr)
  sub : ∀ x ∈ st.2, x ∈ done
  span : ∀ e ∈ done, CR (st.2.map pr) e.1 e.2.1

theorem kw_init (n : Nat) : KW n [] ((ufInit n, []), []) := by
  refine ⟨⟨(List.range n).map Op.add, ufInit_eq n, ?_, ?_⟩, rfl, trivial, by simp, by simp⟩
  · intro v hv; rw [present_adds]; exact List.mem_range.mpr hv
  · rw [unionPairs_adds]; rfl

theorem kw_step {n : Nat} {done : List (Nat × Nat × Rat)} {st : KState} (I : KW n done st)
    (e : Nat × Nat × Rat) (ha : e.1 < n) (hb : e.2.1 < n) :
    KW n (done ++ [e]) (kStepW st e) ∧ ((kStepW st e).2 = st.2 ∨ (kStepW st e).2 = e :: st.2) := by
  obtain ⟨ops, h1, h2, h3⟩ := I.hist
  obtain ⟨b, hc, hb'⟩ := connected_run ops e.1 e.2.1 (h2 _ ha) (h2 _ hb)
  have hJ : ∀ u v, Joined ops u v ↔ CR (st.2.map pr) u v := by
    intro u v
    unfold Joined CR
    rw [h3]
    exact mem_reverse_rel _ u v
  unfold kStepW kStep
  rw [h1, hc]
  cases b with
  | true =>
    simp only
    have hj : CR (st.2.map pr) e.1 e.2.1 := (hJ _ _).mp (hb'.mp rfl)
    refine ⟨⟨⟨ops ++ [.connected e.1 e.2.1], rfl, ?_, ?_⟩, I.out, I.indep, ?_, ?_⟩, by simp⟩
    · intro v hv; rw [present_append]; exact List.mem_append_left _ (h2 v hv)
    · rw [unionPairs_append]; simp [unionPairs, h3]
    · intro x hx; exact List.mem_append_left _ (I.sub x hx)
    · intro e' he'
      rcases List.mem_append.mp he' with h | h
      · exact I.span e' h
      · simp at h; subst h; exact hj
  | false =>
    simp only
    have hnj : ¬ CR (st.2.map pr) e.1 e.2.1 := by
      intro h
      have := hb'.mpr ((hJ _ _).mpr h)
      simp at this
    refine ⟨⟨⟨ops ++ [.connected e.1 e.2.1] ++ [.union e.1 e.2.1], ?_, ?_, ?_⟩, ?_, ⟨I.indep, hnj⟩, ?_, ?_⟩, by simp⟩
    · simp only [run_snoc]; rfl
    · intro v hv
      rw [present_append, present_append]
      exact List.mem_append_left _ (List.mem_append_left _ (h2 v hv))
    · rw [unionPairs_append, unionPairs_append]; simp [unionPairs, h3, pr]
    · rw [I.out]; simp [pr]
    · intro x hx
      rcases List.mem_cons.mp hx with h | h
      · subst h; simp
      · exact List.mem_append_left _ (I.sub x h)
    · intro e' he'
      rcases List.mem_append.mp he' with h | h
      · exact CR.mono (fun p hp => List.mem_cons_of_mem _ hp) (I.span e' h)
      · simp at h; subst h
        exact EqvClosure.rel (by simp [pr])

theorem kw_fold {n : Nat} : ∀ (es done : List (Nat × Nat × Rat)) (st : KState),
    (∀ e ∈ es, e.1 < n ∧ e.2.1 < n) → KW n done st →
    KW n (done ++ es) (es.foldl kStepW st) ∧ ∃ W2, (es.foldl kStepW st).2 = W2 ++ st.2 ∧ W2.Sublist es.reverse
  | [], done, st, _, I => ⟨by simpa using I, [], rfl, List.Sublist.refl _⟩
  | e :: es, done, st, hlt, I => by
    obtain ⟨I', hW⟩ := kw_step I e (hlt e (by simp)).1 (hlt e (by simp)).2
    obtain ⟨I'', W2, hW2, hsub⟩ := kw_fold es (done ++ [e]) (kStepW st e)
      (fun x hx => hlt x (List.mem_cons_of_mem _ hx)) I'
    refine ⟨by simpa using I'', ?_⟩
    rw [List.foldl_cons, hW2, List.reverse_cons]
    rcases hW with h | h
    · exact ⟨W2, by rw [h], hsub.trans (List.sublist_append_left _ _)⟩
    · refine ⟨W2 ++ [e], by rw [h]; simp, ?_⟩
      exact List.Sublist.append hsub (List.Sublist.refl _)

/-! ### (3) sorted edge lists and thresholds -/

abbrev wle (a b : Nat × Nat × Rat) : Bool := decide (a.2.2 ≤ b.2.2)

theorem sorted_mergeSort (es : List (Nat × Nat × Rat)) :
    (es.mergeSort wle).Pairwise (fun a b => a.2.2 ≤ b.2.2) := by
  have := List.pairwise_mergeSort (le := wle)
    (fun a b c h1 h2 => by simp [wle] at h1 h2 ⊢; exact le_trans h1 h2)
    (fun a b => by simp [wle]; exact le_total _ _) es
  refine this.imp ?_
  intro a b h
  simpa [wle] using h

/-- in a list sorted by weight the edges of weight `≤ t` form a prefix -/
theorem split_at_threshold (t : Rat) : ∀ (S : List (Nat × Nat × Rat)), S.Pairwise (fun a b => a.2.2 ≤ b.2.2) →
    ∃ S1 S2, S = S1 ++ S2 ∧ (∀ x ∈ S1, x.2.2 ≤ t) ∧ (∀ x ∈ S2, t < x.2.2)
  | [], _ => ⟨[], [], rfl, by simp, by simp⟩
  | x :: S, h => by
    rw [List.pairwise_cons] at h
    by_cases hx : x.2.2 ≤ t
    · obtain ⟨S1, S2, hS, h1, h2⟩ := split_at_threshold t S h.2
      refine ⟨x :: S1, S2, by rw [hS]; rfl, ?_, h2⟩
      intro y hy
      rcases List.mem_cons.mp hy with rfl | hy
      · exact hx
      · exact h1 y hy
    · refine ⟨[], x :: S, rfl, by simp, ?_⟩
      intro y hy
      have hx' : t < x.2.2 := lt_of_not_ge hx
      rcases List.mem_cons.mp hy with rfl | hy
      · exact hx'
      · have := h.1 y hy; linarith

/-- the selected weighted edges of the modelled Kruskal, in order of selection -/
def kruskalW (n : Nat) (es : List (Nat × Nat × Rat)) : List (Nat × Nat × Rat) :=
  ((es.mergeSort wle).foldl kStepW ((ufInit n, []), [])).2.reverse

theorem inRange_map_pr {n : Nat} {L es : List (Nat × Nat × Rat)} (hwf : ∀ e ∈ es, e.1 < n ∧ e.2.1 < n)
    (h : ∀ x ∈ L, x ∈ es) : InRange n (L.map pr) := by
  intro p hp
  obtain ⟨x, hx, rfl⟩ := List.mem_map.mp hp
  exact hwf x (h x hx)

end Mouette.Trees
