import Mouette.Lemmas.SubdivBorder
/-
C13 (round 3): connected components through the 1→4 refinement.  Two vertices are adjacent when a directed side joins
them (in either direction); components are the classes of the reflexive-transitive closure (adjacency is symmetric).
Old vertices connected in the input stay connected, every new vertex is adjacent to an old one, and two old vertices
connected in the refined mesh were connected in the input: the components are in bijection.
-/
namespace Mouette.Subdiv

def Adj (m : Raw) (a b : Nat) : Prop := (a, b) ∈ dirSides m ∨ (b, a) ∈ dirSides m

def Conn (m : Raw) : Nat → Nat → Prop := Relation.ReflTransGen (Adj m)

theorem Adj.symm {m : Raw} {a b : Nat} (h : Adj m a b) : Adj m b a := Or.symm h

theorem Conn.symm {m : Raw} {a b : Nat} (h : Conn m a b) : Conn m b a := by
  induction h with
  | refl => exact Relation.ReflTransGen.refl
  | tail _ hbc ih => exact Relation.ReflTransGen.head hbc.symm ih

/-- adjacent old vertices stay connected (through the midpoint), so connected old vertices stay connected -/
theorem conn_lift (m m' : Raw) (h : loopOnce m = .ok m') (hes : EdgesSorted m) (a b : Nat) (hc : Conn m a b) : Conn m' a b := by
  induction hc with
  | refl => exact Relation.ReflTransGen.refl
  | @tail x y _ hxy ih =>
    have step : ∀ u v, (u, v) ∈ dirSides m → Conn m' u v := by
      intro u v huv
      obtain ⟨mu, hl⟩ := lookup_of_side m m' h hes u v huv
      obtain ⟨h1, h2⟩ := half_mem_dirSides m m' h hes u v mu huv hl
      exact (Relation.ReflTransGen.single (show Adj m' u mu from Or.inl h1)).tail (show Adj m' mu v from Or.inl h2)
    rcases hxy with hxy | hxy
    · exact ih.trans (step x y hxy)
    · exact ih.trans (step y x hxy).symm

/-- `a` represents the vertex `x` of the refined mesh in the input: `x` itself if it is an old vertex, an endpoint of the
edge it is the midpoint of otherwise -/
def Rep (m : Raw) (x a : Nat) : Prop :=
  (x = a ∧ x < m.verts.length) ∨ (∃ u v, (u, v) ∈ dirSides m ∧ halfLookup m.edges m.verts.length (keyify u v) = some x ∧ (a = u ∨ a = v))

/-- the vertices of one face are pairwise connected -/
theorem conn_in_face (m : Raw) (f : List Nat) (hf : f ∈ m.faces) (a b c : Nat) (e : f = [a, b, c]) (x y : Nat)
    (hx : x ∈ f) (hy : y ∈ f) : Conn m x y := by
  subst e
  have sab : Adj m a b := Or.inl (List.mem_flatMap.mpr ⟨_, hf, by simp [cycPairs, cycGo]⟩)
  have sbc : Adj m b c := Or.inl (List.mem_flatMap.mpr ⟨_, hf, by simp [cycPairs, cycGo]⟩)
  have sca : Adj m c a := Or.inl (List.mem_flatMap.mpr ⟨_, hf, by simp [cycPairs, cycGo]⟩)
  simp only [List.mem_cons, List.not_mem_nil, or_false] at hx hy
  rcases hx with rfl | rfl | rfl <;> rcases hy with rfl | rfl | rfl
  · exact Relation.ReflTransGen.refl
  · exact Relation.ReflTransGen.single sab
  · exact Relation.ReflTransGen.single sca.symm
  · exact Relation.ReflTransGen.single sab.symm
  · exact Relation.ReflTransGen.refl
  · exact Relation.ReflTransGen.single sbc
  · exact Relation.ReflTransGen.single sca
  · exact Relation.ReflTransGen.single sbc.symm
  · exact Relation.ReflTransGen.refl

/-- one step in the refined mesh: representatives are connected in the input -/
theorem rep_step (m m' : Raw) (h : loopOnce m = .ok m') (hes : EdgesSorted m) (x y : Nat) (hxy : (x, y) ∈ dirSides m')
    (a b : Nat) (ha : Rep m x a) (hb : Rep m y b) : Conn m a b := by
  have hesb : ∀ e ∈ m.edges, e.1 < e.2 ∧ e.2 < m.verts.length := hes
  -- an old vertex is its own representative; a midpoint is represented by the endpoints of its edge
  have repOld : ∀ z c, z < m.verts.length → Rep m z c → c = z := by
    intro z c hz hr
    rcases hr with ⟨e, _⟩ | ⟨u, v, _, hl, _⟩
    · exact e.symm
    · have := (half_bounds hesb hl).2.2.2; omega
  have repMid : ∀ u v mu c, (u, v) ∈ dirSides m → halfLookup m.edges m.verts.length (keyify u v) = some mu → Rep m mu c →
      c = u ∨ c = v := by
    intro u v mu c _ hl hr
    rcases hr with ⟨_, hlt⟩ | ⟨u', v', _, hl', hc⟩
    · have := (half_bounds hesb hl).2.2.2; omega
    · rcases same_mid hl hl' with ⟨e1, e2⟩ | ⟨e1, e2⟩ <;> rcases hc with rfl | rfl <;> simp [e1, e2]
  obtain ⟨f, hfm, hcase⟩ := (mem_dirSides_loop m m' h hes (x, y)).mp hxy
  rcases hcase with ⟨u, v, mu, huv, hl, hxe⟩ | ⟨s, t, ms, mt, hs, ht, _, l1, l2, hxe⟩
  · obtain ⟨b1, b2, _, _⟩ := half_bounds hesb hl
    have huvD : (u, v) ∈ dirSides m := List.mem_flatMap.mpr ⟨f, hfm, huv⟩
    have cuv : Conn m u v := Relation.ReflTransGen.single (Or.inl huvD)
    rcases hxe with e | e <;> simp only [Prod.mk.injEq] at e <;> obtain ⟨e1, e2⟩ := e <;> subst e1 <;> subst e2
    · have := repOld _ a b1 ha; subst this
      rcases repMid _ _ _ b huvD hl hb with rfl | rfl
      · exact Relation.ReflTransGen.refl
      · exact cuv
    · have := repOld _ b b2 hb; subst this
      rcases repMid _ _ _ a huvD hl ha with rfl | rfl
      · exact cuv
      · exact Relation.ReflTransGen.refl
  · simp only [Prod.mk.injEq] at hxe
    obtain ⟨rfl, rfl⟩ := hxe
    -- both midpoints belong to sides of the face f
    obtain ⟨mids, parts, _, h2, _, _, _, _⟩ := loopOnce_spec m m' h
    obtain ⟨p, _, hfl⟩ := mapE_mem_of _ _ _ h2 f hfm
    obtain ⟨a0, b0, c0, mab, mbc, mca, rfl, _, _, _, _, _, _, _⟩ := loop_part_desc m hes f p hfl
    have inFace : ∀ (k : Nat × Nat) (mk c : Nat), k ∈ sidesKeyed [a0, b0, c0] →
        halfLookup m.edges m.verts.length k = some mk → Rep m mk c → c ∈ [a0, b0, c0] := by
      intro k mk c hk hl hr
      have cA : (a0, b0) ∈ dirSides m := List.mem_flatMap.mpr ⟨_, hfm, by simp [cycPairs, cycGo]⟩
      have cB : (b0, c0) ∈ dirSides m := List.mem_flatMap.mpr ⟨_, hfm, by simp [cycPairs, cycGo]⟩
      have cC : (c0, a0) ∈ dirSides m := List.mem_flatMap.mpr ⟨_, hfm, by simp [cycPairs, cycGo]⟩
      simp only [sidesKeyed_tri, List.mem_cons, List.not_mem_nil, or_false] at hk
      rcases hk with rfl | rfl | rfl
      · rcases repMid _ _ _ c cA hl hr with rfl | rfl <;> simp
      · rcases repMid _ _ _ c cB hl hr with rfl | rfl <;> simp
      · rcases repMid _ _ _ c cC hl hr with rfl | rfl <;> simp
    exact conn_in_face m _ hfm a0 b0 c0 rfl a b (inFace s _ a hs l1 ha) (inFace t _ b ht l2 hb)

/-- connected in the refined mesh ⇒ representatives connected in the input -/
theorem conn_project (m m' : Raw) (h : loopOnce m = .ok m') (hes : EdgesSorted m) (x y : Nat) (hc : Conn m' x y)
    (hused : ∀ z w, Adj m' z w → ∃ c, Rep m w c) :
    ∀ a b, Rep m x a → Rep m y b → Conn m a b := by
  induction hc with
  | refl =>
    intro a b ha hb
    -- two representatives of the same vertex are equal or the two ends of one edge
    rcases ha with ⟨rfl, hlt⟩ | ⟨u, v, huv, hl, hau⟩
    · rcases hb with ⟨e, _⟩ | ⟨u, v, _, hl, _⟩
      · rw [e]; exact Relation.ReflTransGen.refl
      · have := (half_bounds (fun e he => hes e he) hl).2.2.2; omega
    · rcases hb with ⟨_, hlt⟩ | ⟨u', v', _, hl', hbu⟩
      · have := (half_bounds (fun e he => hes e he) hl).2.2.2; omega
      · have cuv : Conn m u v := Relation.ReflTransGen.single (Or.inl huv)
        rcases same_mid hl hl' with ⟨e1, e2⟩ | ⟨e1, e2⟩ <;> subst e1 <;> subst e2 <;>
          rcases hau with rfl | rfl <;> rcases hbu with rfl | rfl <;>
          first | exact Relation.ReflTransGen.refl | exact cuv | exact cuv.symm
  | @tail z w _ hzw ih =>
    intro a b ha hb
    obtain ⟨c, hc⟩ : ∃ c, Rep m z c := by
      rcases hzw with hz | hz
      · exact hused w z (Or.inr hz)
      · exact hused w z (Or.inl hz)
    have s1 := ih a c ha hc
    rcases hzw with hz | hz
    · exact s1.trans (rep_step m m' h hes z w hz c b hc hb)
    · exact s1.trans (rep_step m m' h hes w z hz b c hb hc).symm

/-- every vertex on a side of the refined mesh has a representative -/
theorem rep_exists (m m' : Raw) (h : loopOnce m = .ok m') (hes : EdgesSorted m) (z w : Nat) (hzw : Adj m' z w) :
    ∃ c, Rep m w c := by
  have hesb : ∀ e ∈ m.edges, e.1 < e.2 ∧ e.2 < m.verts.length := hes
  have one : ∀ x y, (x, y) ∈ dirSides m' → (∃ c, Rep m x c) ∧ (∃ c, Rep m y c) := by
    intro x y hxy
    obtain ⟨f, hfm, hcase⟩ := (mem_dirSides_loop m m' h hes (x, y)).mp hxy
    rcases hcase with ⟨u, v, mu, huv, hl, hxe⟩ | ⟨s, t, ms, mt, hs, ht, _, l1, l2, hxe⟩
    · obtain ⟨b1, b2, _, _⟩ := half_bounds hesb hl
      have huvD : (u, v) ∈ dirSides m := List.mem_flatMap.mpr ⟨f, hfm, huv⟩
      rcases hxe with e | e <;> simp only [Prod.mk.injEq] at e <;> rw [e.1, e.2]
      · exact ⟨⟨_, Or.inl ⟨rfl, b1⟩⟩, ⟨u, Or.inr ⟨u, v, huvD, hl, Or.inl rfl⟩⟩⟩
      · exact ⟨⟨u, Or.inr ⟨u, v, huvD, hl, Or.inl rfl⟩⟩, ⟨_, Or.inl ⟨rfl, b2⟩⟩⟩
    · simp only [Prod.mk.injEq] at hxe
      obtain ⟨rfl, rfl⟩ := hxe
      have side : ∀ (k : Nat × Nat) (mk : Nat), k ∈ sidesKeyed f → halfLookup m.edges m.verts.length k = some mk → ∃ c, Rep m mk c := by
        intro k mk hk hl
        obtain ⟨mids, parts, _, h2, _, _, _, _⟩ := loopOnce_spec m m' h
        obtain ⟨p, _, hfl⟩ := mapE_mem_of _ _ _ h2 f hfm
        obtain ⟨a0, b0, c0, mab, mbc, mca, rfl, _, _, _, _, _, _, _⟩ := loop_part_desc m hes f p hfl
        have cA : (a0, b0) ∈ dirSides m := List.mem_flatMap.mpr ⟨_, hfm, by simp [cycPairs, cycGo]⟩
        have cB : (b0, c0) ∈ dirSides m := List.mem_flatMap.mpr ⟨_, hfm, by simp [cycPairs, cycGo]⟩
        have cC : (c0, a0) ∈ dirSides m := List.mem_flatMap.mpr ⟨_, hfm, by simp [cycPairs, cycGo]⟩
        simp only [sidesKeyed_tri, List.mem_cons, List.not_mem_nil, or_false] at hk
        rcases hk with rfl | rfl | rfl
        · exact ⟨a0, Or.inr ⟨_, _, cA, hl, Or.inl rfl⟩⟩
        · exact ⟨b0, Or.inr ⟨_, _, cB, hl, Or.inl rfl⟩⟩
        · exact ⟨c0, Or.inr ⟨_, _, cC, hl, Or.inl rfl⟩⟩
      exact ⟨side s _ hs l1, side t _ ht l2⟩
  rcases hzw with hz | hz
  · exact (one z w hz).2
  · exact (one w z hz).1

/-- **components are preserved by the 1→4 refinement** -/
theorem components_loop (m m' : Raw) (h : loopOnce m = .ok m') (hes : EdgesSorted m) :
    (∀ a b, Conn m a b → Conn m' a b) ∧
    (∀ a b, a < m.verts.length → b < m.verts.length → Conn m' a b → Conn m a b) ∧
    (∀ z w, Adj m' z w → ∃ c, c < m.verts.length ∧ Conn m' w c) := by
  have hesb : ∀ e ∈ m.edges, e.1 < e.2 ∧ e.2 < m.verts.length := hes
  refine ⟨fun a b => conn_lift m m' h hes a b, ?_, ?_⟩
  · intro a b ha hb hc
    exact conn_project m m' h hes a b hc (rep_exists m m' h hes) a b (Or.inl ⟨rfl, ha⟩) (Or.inl ⟨rfl, hb⟩)
  · intro z w hzw
    obtain ⟨c, hc⟩ := rep_exists m m' h hes z w hzw
    rcases hc with ⟨rfl, hlt⟩ | ⟨u, v, huv, hl, hcu⟩
    · exact ⟨w, hlt, Relation.ReflTransGen.refl⟩
    · obtain ⟨b1, b2, _, _⟩ := half_bounds hesb hl
      obtain ⟨h1, _⟩ := half_mem_dirSides m m' h hes u v w huv hl
      exact ⟨u, b1, Relation.ReflTransGen.single (Or.inr h1)⟩

end Mouette.Subdiv
