import Mouette.Generated.C13Src
import Mouette.Lemmas.SubdivTables2
/-
C13 (round 4): BRIDGES between the function bodies translated from `mouette/mesh/subdivision.py` on every run
(`Generated/C13Src.lean`) and the hand model `Model/Subdiv.lean` - part 1: the in-place operations
(`split_edge`, `split_face_as_fan`, `triangulate_face`, `triangulate`, `split_cell_as_fan`).
-/
namespace Mouette.SubdivSrc
open Mouette.Subdiv
open Mouette.Generated

/-- every face has at least two corners (the fan reads `f[0]` and `f[1]`; the hand model is total there) -/
def FacesGe2 (m : Raw) : Prop := ∀ f ∈ m.faces, 2 ≤ f.length

theorem idx_eq_getPt (m : Raw) : (fun y => idx m.verts y) = getPt m := by
  funext y; unfold idx getPt; cases m.verts[y]? <;> rfl

theorem idx_some {α} {l : List α} {i : Nat} {x : α} (h : l[i]? = some x) : idx l i = .ok x := by
  simp [idx, h]

theorem idx_none {α} {l : List α} {i : Nat} (h : l[i]? = none) : idx l i = (.error Err.index : Except Err α) := by
  simp [idx, h]

theorem setAt_lt {α} {l : List α} {i : Nat} (v : α) (h : i < l.length) : setAt l i v = .ok (l.set i v) := by
  simp [setAt, h]

theorem lt_of_getElem? {α} {l : List α} {i : Nat} {x : α} (h : l[i]? = some x) : i < l.length := by
  obtain ⟨h1, _⟩ := List.getElem?_eq_some_iff.mp h
  exact h1

/-! ### `split_edge` -/

theorem splitEdge_bridge (m : Raw) (e : Nat) : C13Src.splitEdge m e = Subdiv.splitEdge m e := by
  unfold C13Src.splitEdge Subdiv.splitEdge
  cases he : m.edges[e]? with
  | none => simp only [idx_none he, bind, Except.bind]; rfl
  | some ab =>
    obtain ⟨a, b⟩ := ab
    have hlt := lt_of_getElem? he
    simp only [idx_some he, bind, Except.bind]
    cases ha : m.verts[a]? with
    | none => simp only [idx_none ha]; rfl
    | some pa =>
      simp only [idx_some ha]
      cases hb : m.verts[b]? with
      | none => simp only [idx_none hb]; rfl
      | some pb =>
        simp only [idx_some hb]
        rw [setAt_lt _ (by simpa using hlt)]
        rfl

/-! ### generic loop lemma: a loop whose body cannot fail on the elements it visits is a `foldl` -/

theorem foldE_ok_of_step {σ α} (g : σ → α → Except Err σ) (step : σ → α → σ) (P : α → Prop) :
    ∀ (l : List α) (s : σ), (∀ a ∈ l, P a) → (∀ s a, P a → g s a = .ok (step s a)) → foldE g s l = .ok (l.foldl step s) := by
  intro l
  induction l with
  | nil => intro s _ _; rfl
  | cons a t ih =>
    intro s hP hg
    simp only [foldE, hg s a (hP a (by simp)), List.foldl_cons]
    exact ih _ (fun b hb => hP b (by simp [hb])) hg

theorem foldl_faces_append (mk : Nat → List Nat) : ∀ (ks : List Nat) (s : Raw),
    ks.foldl (fun (s : Raw) k => { s with faces := s.faces ++ [mk k] }) s = { s with faces := s.faces ++ ks.map mk } := by
  intro ks
  induction ks with
  | nil => intro s; simp
  | cons k ks ih => intro s; simp only [List.foldl_cons, ih]; simp

theorem foldl_edges_append (mk : Nat → Nat × Nat) : ∀ (ks : List Nat) (s : Raw),
    ks.foldl (fun (s : Raw) k => { s with edges := s.edges ++ [mk k] }) s = { s with edges := s.edges ++ ks.map mk } := by
  intro ks
  induction ks with
  | nil => intro s; simp
  | cons k ks ih => intro s; simp only [List.foldl_cons, ih]; simp

/-! ### `split_face_as_fan` -/

theorem idx_getD (f : List Nat) (k : Nat) (hk : k < f.length) : idx f k = .ok (f.getD k 0) := by
  simp [idx, List.getElem?_eq_getElem hk, List.getD_eq_getElem?_getD]

theorem splitFaceAsFan_bridge (m : Raw) (fid : Nat) (h2 : ∀ f, m.faces[fid]? = some f → 2 ≤ f.length) :
    C13Src.splitFaceAsFan m fid = Subdiv.splitFaceAsFan m fid := by
  unfold C13Src.splitFaceAsFan Subdiv.splitFaceAsFan
  cases hf : m.faces[fid]? with
  | none => simp only [idx_none hf, bind, Except.bind]; rfl
  | some f =>
    have hlt := lt_of_getElem? hf
    have hlen := h2 f hf
    simp only [idx_some hf, bind, Except.bind, idx_eq_getPt]
    have e : mapE (fun y => getPt m y) f = pts m f := rfl
    rw [e]
    cases hp : pts m f with
    | error e => rfl
    | ok ps =>
      have hpl : ps.length = f.length := mapE_length _ _ _ hp
      match f, hlen, hf, hp, hpl with
      | a0 :: a1 :: t, hlen, hf, hp, hpl =>
        have hc : cycPairs (a0 :: a1 :: t) = (a0, a1) :: cycGo a0 (a1 :: t) := rfl
        obtain ⟨_, hrest⟩ := fan_faces_follow_source (a0 :: a1 :: t) m.verts.length a0 a1 _ hc
        simp only [C13.fanLo, C13.fanHi, C13.fanFst, C13.fanSnd] at hrest
        have i0 : idx (a0 :: a1 :: t) 0 = .ok a0 := rfl
        have i1 : idx (a0 :: a1 :: t) 1 = .ok a1 := rfl
        simp only [hc, i0, i1]
        rw [setAt_lt _ (by simpa using hlt)]
        simp only []
        rw [foldE_ok_of_step _
              (fun (s : Raw) k => { s with faces := s.faces ++ [[(a0 :: a1 :: t).getD k 0,
                  (a0 :: a1 :: t).getD ((k + 1) % (a0 :: a1 :: t).length) 0, m.verts.length]] })
              (fun k => k < (a0 :: a1 :: t).length) _ _
              (by intro k hk; have := List.mem_range'_1.mp hk; omega)
              (by
                intro s k hk
                have hk2 : (k + 1) % (a0 :: a1 :: t).length < (a0 :: a1 :: t).length := Nat.mod_lt _ (by simp)
                simp only [idx_getD _ k hk, idx_getD _ _ hk2]; rfl)]
        simp only []
        rw [foldE_ok_of_step _ (fun (s : Raw) k => { s with edges := s.edges ++ [keyify k m.verts.length] })
              (fun _ => True) _ _ (by intros; trivial) (by intro s k _; rfl)]
        rw [foldl_faces_append (fun k => [(a0 :: a1 :: t).getD k 0,
                  (a0 :: a1 :: t).getD ((k + 1) % (a0 :: a1 :: t).length) 0, m.verts.length]),
            foldl_edges_append (fun k => keyify k m.verts.length)]
        simp only [pure, Except.pure, bary, hpl, hrest]

/-! ### `triangulate_face` -/

theorem triangulateFace_bridge (m : Raw) (fid : Nat) (h2 : ∀ f, m.faces[fid]? = some f → 2 ≤ f.length) :
    C13Src.triangulateFace m fid = Subdiv.triangulateFace m fid := by
  unfold C13Src.triangulateFace Subdiv.triangulateFace
  cases hf : m.faces[fid]? with
  | none => simp only [idx_none hf, bind, Except.bind]; rfl
  | some f =>
    have hlt := lt_of_getElem? hf
    simp only [idx_some hf, bind, Except.bind]
    rcases f with _ | ⟨a, _ | ⟨b, _ | ⟨c, _ | ⟨d, _ | ⟨e, t⟩⟩⟩⟩⟩
    · simp
    · simp
    · simp
    · simp
    · simp [unpack4, setAt_lt _ hlt, pure, Except.pure]
    · have h1 : ¬ ((a :: b :: c :: d :: e :: t).length < 4) := by simp
      have h3 : ¬ (4 = (a :: b :: c :: d :: e :: t).length) := by simp
      simp only [h1, h3, if_false]
      rw [splitFaceAsFan_bridge m fid h2]

/-! ### `triangulate` -/

theorem mem_set_append {α} {l r : List α} {i : Nat} {x y : α} (h : y ∈ l.set i x ++ r) : y ∈ l ∨ y = x ∨ y ∈ r := by
  rcases List.mem_append.mp h with h1 | h1
  · rcases List.mem_or_eq_of_mem_set h1 with h2 | h2
    · exact Or.inl h2
    · exact Or.inr (Or.inl h2)
  · exact Or.inr (Or.inr h1)

theorem fan_facesGe2 (m m' : Raw) (fid : Nat) (h : Subdiv.splitFaceAsFan m fid = .ok m') (h2 : FacesGe2 m) : FacesGe2 m' := by
  obtain ⟨f, ps, a, b, rest, _, _, _, _, hfa, _, _⟩ := fan_spec m m' fid h
  intro y hy
  rw [hfa] at hy
  rcases mem_set_append hy with h1 | h1 | h1
  · exact h2 y h1
  · subst h1; simp
  · obtain ⟨ab, _, hab⟩ := List.mem_map.mp h1
    subst hab; simp

theorem triangulateFace_facesGe2 (m m' : Raw) (fid : Nat) (h : Subdiv.triangulateFace m fid = .ok m') (h2 : FacesGe2 m) :
    FacesGe2 m' := by
  unfold Subdiv.triangulateFace at h
  cases hf : m.faces[fid]? with
  | none => simp [hf] at h
  | some f =>
    simp only [hf] at h
    rcases f with _ | ⟨a, _ | ⟨b, _ | ⟨c, _ | ⟨d, _ | ⟨e, t⟩⟩⟩⟩⟩
    · simp [pure, Except.pure] at h; subst h; exact h2
    · simp [pure, Except.pure] at h; subst h; exact h2
    · simp [pure, Except.pure] at h; subst h; exact h2
    · simp [pure, Except.pure] at h; subst h; exact h2
    · simp only [pure, Except.pure, Except.ok.injEq] at h
      subst h
      intro y hy
      rcases mem_set_append hy with h1 | h1 | h1
      · exact h2 y h1
      · subst h1; simp
      · simp at h1; subst h1; simp
    · have h1 : ¬ ((a :: b :: c :: d :: e :: t).length < 4) := by simp
      simp only [h1, if_false] at h
      exact fan_facesGe2 m m' fid h h2

/-- one step of the loop of `triangulate`, as the hand model writes it -/
def triStep (m : Raw) (k : Nat) : Except Err Raw :=
  match m.faces[k]? with
  | none => .error Err.index
  | some face => if face.length ≠ 3 then Subdiv.triangulateFace m k else .ok m

theorem triangulateFrom_eq_foldE (g : Raw → Nat → Except Err Raw) (hg : ∀ m k, FacesGe2 m → g m k = triStep m k) :
    ∀ (ids : List Nat) (m : Raw), FacesGe2 m → foldE g m ids = triangulateFrom m ids := by
  intro ids
  induction ids with
  | nil => intro m _; rfl
  | cons k ks ih =>
    intro m h2
    simp only [foldE, triangulateFrom, hg m k h2, triStep]
    cases hf : m.faces[k]? with
    | none => rfl
    | some face =>
      simp only []
      by_cases h3 : face.length ≠ 3
      · simp only [h3, if_true, ne_eq, not_false_eq_true, bind, Except.bind]
        cases ht : Subdiv.triangulateFace m k with
        | error e => rfl
        | ok m' => exact ih m' (triangulateFace_facesGe2 m m' k ht h2)
      · simp only [h3, if_false]
        exact ih m h2

theorem triangulate_bridge (m : Raw) (h2 : FacesGe2 m) : C13Src.triangulate m = Subdiv.triangulate m := by
  unfold C13Src.triangulate Subdiv.triangulate
  simp only [bind, Except.bind]
  rw [triangulateFrom_eq_foldE _ ?hg _ m h2]
  case hg =>
    intro m k hm
    unfold triStep
    cases hf : m.faces[k]? with
    | none => simp only [idx_none hf]
    | some face =>
      simp only [idx_some hf]
      rw [triangulateFace_bridge m k (fun f hf' => hm f (List.mem_of_getElem? hf'))]
      by_cases h3 : face.length = 3
      · have : ¬ (3 ≠ face.length) := by omega
        simp [h3, pure, Except.pure]
      · have : 3 ≠ face.length := by omega
        simp only [this, h3, ne_eq, not_false_eq_true, if_true]

theorem triangulate_facesGe2 : ∀ (ids : List Nat) (m m' : Raw), triangulateFrom m ids = .ok m' → FacesGe2 m → FacesGe2 m' := by
  intro ids
  induction ids with
  | nil => intro m m' h h2; simp [triangulateFrom, pure, Except.pure] at h; subst h; exact h2
  | cons k ks ih =>
    intro m m' h h2
    simp only [triangulateFrom] at h
    cases hf : m.faces[k]? with
    | none => simp [hf] at h
    | some face =>
      simp only [hf] at h
      by_cases h3 : face.length ≠ 3
      · simp only [h3, if_true, ne_eq, not_false_eq_true, bind, Except.bind] at h
        cases ht : Subdiv.triangulateFace m k with
        | error e => simp [ht] at h
        | ok m1 => simp only [ht] at h; exact ih m1 m' h (triangulateFace_facesGe2 m m1 k ht h2)
      · simp only [h3, if_false] at h
        exact ih m m' h h2

/-! ### `split_cell_as_fan` -/

theorem divn4_eq (pa pb pc pd : Pt) :
    Pt.divn (Pt.add (Pt.add (Pt.add pa pb) pc) pd) 4 = Pt.smul (1/4) (sumPts [pa, pb, pc, pd]) := by
  obtain ⟨a1, a2, a3⟩ := pa; obtain ⟨b1, b2, b3⟩ := pb; obtain ⟨c1, c2, c3⟩ := pc; obtain ⟨d1, d2, d3⟩ := pd
  simp only [Pt.divn, Pt.add, Pt.smul, sumPts, List.foldr, Pt.zero]
  refine Prod.ext ?_ (Prod.ext ?_ ?_) <;> simp <;> ring

theorem splitCellAsFan_bridge (m : Raw) (cid : Nat) : C13Src.splitCellAsFan m cid = Subdiv.splitCellAsFan m cid := by
  unfold C13Src.splitCellAsFan Subdiv.splitCellAsFan
  cases hc : m.cells[cid]? with
  | none => simp only [idx_none hc, bind, Except.bind]; rfl
  | some cell =>
    have hlt := lt_of_getElem? hc
    simp only [idx_some hc, bind, Except.bind]
    rcases cell with _ | ⟨a, _ | ⟨b, _ | ⟨c, _ | ⟨d, _ | ⟨e, t⟩⟩⟩⟩⟩
    · simp
    · simp
    · simp
    · simp
    · simp only [List.length_cons, List.length_nil, ne_eq, not_true_eq_false, if_false, unpack4, pts, mapE, getPt]
      cases ha : m.verts[a]? with
      | none => simp only [idx_none ha]
      | some pa =>
        cases hb : m.verts[b]? with
        | none => simp only [idx_some ha, idx_none hb]
        | some pb =>
          cases hc' : m.verts[c]? with
          | none => simp only [idx_some ha, idx_some hb, idx_none hc']
          | some pc =>
            cases hd : m.verts[d]? with
            | none => simp only [idx_some ha, idx_some hb, idx_some hc', idx_none hd]
            | some pd =>
              simp only [idx_some ha, idx_some hb, idx_some hc', idx_some hd]
              rw [setAt_lt _ (by simpa using hlt)]
              simp [pure, Except.pure, divn4_eq]
    · simp
