import Mouette.Lemmas.C04Geo
import Mouette.Lemmas.C04Medit
import Mouette.Model.IOGeogramRef
/-! C04: `import_geogram_ascii` applied to the chunks written by `export_geogram_ascii` (no user attributes, cells
all tetrahedra — the exporter writes no `cell_ptr`).  The three passes of the importer are evaluated on the 16
shapes the exported chunk list can take (edges / faces / cells present or not, `facet_ptr` written or not). -/
namespace Mouette.IO.Geo
open Mouette.IO
variable {C : Type}

def szOf (g : GMesh C) : Sizes := fun k => match k with
  | .vertices => g.raw.verts.length | .edges => g.raw.edges.length | .facets => g.raw.faces.length
  | .facetCorners => g.raw.faces.flatten.length | .cells => g.raw.cells.length
  | .cellCorners => g.raw.cells.flatten.length | .cellFacets => g.raw.cells.flatten.length

/-- the pointer pair the importer derives for the facets of an exported mesh -/
def fpOf (g : GMesh C) : List Nat × List Nat :=
  if g.raw.faces = [] ∨ g.raw.faces.all (fun f => f.length == 3) = true then ([], [])
  else (g.raw.faces.map List.length, prefixSums 0 g.raw.faces)

theorem facesBuild (g : GMesh C) :
    buildElems g.raw.faces.flatten g.raw.faces.length (defaultPtr 3 g.raw.faces.length (fpOf g)) = some g.raw.faces := by
  unfold fpOf
  by_cases hf : g.raw.faces = []
  · simp [hf, buildElems, defaultPtr, mapOpt]
  · by_cases ht : g.raw.faces.all (fun f => f.length == 3) = true
    · simp only [hf, ht, or_true, if_true]
      apply buildElems_default 3
      intro f hfm
      have := List.all_eq_true.mp ht f hfm
      simpa using this
    · have e : (if g.raw.faces = [] ∨ g.raw.faces.all (fun f => f.length == 3) = true then (([], []) : List Nat × List Nat)
            else (g.raw.faces.map List.length, prefixSums 0 g.raw.faces))
          = (g.raw.faces.map List.length, prefixSums 0 g.raw.faces) := by
        simp [hf, ht]
      rw [e]
      have hpos : ¬ ((g.raw.faces.map List.length).length = 0 ∧ 0 < g.raw.faces.length) := by
        simp [hf]
      simp only [defaultPtr, hpos, if_false]
      exact buildElems_ptr _

theorem pts_read (cd : Codec C) (h : RoundTrips cd) (vs : List (C × C × C)) :
    mapOpt (readNum cd) (flatPts cd vs) = some (vs.flatMap (fun v => [v.1, v.2.1, v.2.2])) := by
  induction vs with
  | nil => rfl
  | cons v t ih =>
    have e : flatPts cd (v :: t) = coordLine cd v ++ flatPts cd t := by simp [flatPts]
    rw [e]
    have hv : mapOpt (readNum cd) (coordLine cd v) = some [v.1, v.2.1, v.2.2] := by
      simp [coordLine, mapOpt, readNum_num cd h]
    simpa using mapOpt_append (readNum cd) _ _ _ _ hv ih

theorem triples_flat {α : Type} (vs : List (α × α × α)) :
    triples (vs.flatMap (fun v => [v.1, v.2.1, v.2.2])) = vs := by
  induction vs with
  | nil => rfl
  | cons v t ih => simp [triples, ih]

theorem edges_read (es : List (Nat × Nat)) :
    mapOpt readIdx0 ((es.map (fun e => [idx0 e.1, idx0 e.2])).flatten) = some (es.flatMap (fun e => [e.1, e.2])) := by
  induction es with
  | nil => rfl
  | cons e t ih =>
    simp only [List.map_cons, List.flatten_cons, List.flatMap_cons]
    exact mapOpt_append readIdx0 _ _ _ _ (by simp [mapOpt]) ih

theorem pairs_flat (es : List (Nat × Nat)) : pairs (es.flatMap (fun e => [e.1, e.2])) = some es := by
  induction es with
  | nil => rfl
  | cons e t ih => simp [pairs, ih]

theorem sum_two {α : Type} (l : List α) : (List.map (fun _ => 2) l).sum = 2 * l.length := by
  induction l with
  | nil => rfl
  | cons a t ih => simp [ih]; omega

theorem flat_len (es : List (Nat × Nat)) : (es.flatMap (fun e => [e.1, e.2])).length = 2 * es.length := by
  induction es with
  | nil => rfl
  | cons e t ih => simp [ih]; omega


/-- pointer pair derived by the importer for a list of elements whose default arity is `k` -/
def ptrOf (k : Nat) (l : List (List Nat)) : List Nat × List Nat :=
  if l = [] ∨ allLen k l = true then ([], []) else (l.map List.length, prefixSums 0 l)

theorem elemsBuild (k : Nat) (l : List (List Nat)) :
    buildElems l.flatten l.length (defaultPtr k l.length (ptrOf k l)) = some l := by
  unfold ptrOf
  by_cases hf : l = []
  · simp [hf, buildElems, defaultPtr, mapOpt]
  · by_cases ht : allLen k l = true
    · simp only [hf, ht, or_true, if_true]
      apply buildElems_default k
      intro f hfm
      have := List.all_eq_true.mp ht f hfm
      simpa using this
    · have e : (if l = [] ∨ allLen k l = true then (([], []) : List Nat × List Nat)
            else (l.map List.length, prefixSums 0 l)) = (l.map List.length, prefixSums 0 l) := by
        simp [hf, ht]
      rw [e]
      have hpos : ¬ ((l.map List.length).length = 0 ∧ 0 < l.length) := by simp [hf]
      simp only [defaultPtr, hpos, if_false]
      exact buildElems_ptr _

theorem convVals_int (cd : Codec C) (l : List Nat) : convVals cd .int (l.map idx0) = some (l.map idx0) := by
  simp only [convVals]
  have := mapOpt_map_gen idx0 (fun tk => (readInt tk).map Tok.int) idx0 l (fun x _ => rfl)
  simpa using this

/-- one user attribute chunk in isolation: read back with its container, name, type, arity and values -/
theorem stepImport_attrChunk (cd : Codec C) (sz : Sizes) (fp cp : List Nat × List Nat) (g : GMesh C) (a : GAttr)
    (hd : a.dim ≠ 0) (hv : convVals cd a.typ a.vals = some a.vals)
    (hn : a.name ≠ "\"point\"" ∧ a.name ≠ "\"GEO::Mesh::edges::edge_vertex\"" ∧
          a.name ≠ "\"GEO::Mesh::facet_corners::corner_vertex\"" ∧ a.name ≠ "\"GEO::Mesh::cell_corners::corner_vertex\"" ∧
          a.name ≠ "\"GEO::Mesh::cell_facets::adjacent_cell\"") :
    stepImport cd sz fp cp g (attrChunk a) = some { g with attrs := g.attrs ++ [a] } := by
  obtain ⟨h1, h2, h3, h4, h5⟩ := hn
  cases a with
  | mk cont name typ dim vals =>
    simp only at hd hv h1 h2 h3 h4 h5
    cases cont <;> cases typ <;>
      simp [stepImport, attrChunk, contOf, typeOf, Cont.name, h1, h2, h3, h4, h5, hd, hv]

end Mouette.IO.Geo
