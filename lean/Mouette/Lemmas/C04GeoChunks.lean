import Mouette.Lemmas.C04Geo
import Mouette.Lemmas.C04Medit
/-! C04: `import_geogram_ascii` applied to the chunks written by `export_geogram_ascii` (no user attributes, cells
all tetrahedra — the exporter writes no `cell_ptr`).  The three passes of the importer are evaluated on the 16
shapes the exported chunk list can take (edges / faces / cells present or not, `facet_ptr` written or not). -/
namespace Mouette.IO.Geo
open Mouette.IO
variable {C : Type}

def szOf (g : GMesh C) : Sizes := fun k => match k with
  | .vertices => g.raw.verts.length | .edges => g.raw.edges.length | .facets => g.raw.faces.length
  | .facetCorners => g.raw.faces.flatten.length | .cells => g.raw.cells.length
  | .cellCorners => g.raw.cells.flatten.length | .cellFacets => g.raw.cells.flatten.length

set_option maxHeartbeats 1000000 in
theorem sizesOf_export (cd : Codec C) (g : GMesh C) (ha : g.attrs = []) :
    sizesOf (exportChunks cd g) = szOf g := by
  funext k
  by_cases he : g.raw.edges = [] <;> by_cases hf : g.raw.faces = [] <;> by_cases hc : g.raw.cells = [] <;>
    by_cases ht : (g.raw.faces.all (fun f => f.length == 3)) = true <;>
    cases k <;> simp [exportChunks, userChunks, sizesOf, contOf, Cont.name, szOf, ha, he, hf, hc, ht]


/-- the pointer pair the importer derives for the facets of an exported mesh -/
def fpOf (g : GMesh C) : List Nat × List Nat :=
  if g.raw.faces = [] ∨ g.raw.faces.all (fun f => f.length == 3) = true then ([], [])
  else (g.raw.faces.map List.length, prefixSums 0 g.raw.faces)

set_option maxHeartbeats 1000000 in
theorem ptrPass_export (cd : Codec C) (g : GMesh C) (ha : g.attrs = []) :
    ptrPass (szOf g) (exportChunks cd g) = some (fpOf g, ([], [])) := by
  have hp : ∀ fs : List (List Nat), mapOpt readIdx0 ((prefixSums 0 fs).map idx0) = some (prefixSums 0 fs) :=
    fun fs => mapOpt_idx0 _
  by_cases he : g.raw.edges = [] <;> by_cases hf : g.raw.faces = [] <;> by_cases hc : g.raw.cells = [] <;>
    by_cases ht : (g.raw.faces.all (fun f => f.length == 3)) = true <;>
    simp [exportChunks, userChunks, ptrPass, foldOpt, facetPtrName, cellPtrName, typeOf, szOf, fpOf, ha, he, hf, hc, ht, hp,
      ptrSizes_export g.raw.faces]
  all_goals
    have hps := ptrSizes_export g.raw.faces hf
    simp only [List.length_flatten] at hps
    simp [hps]


theorem facesBuild (g : GMesh C) :
    buildElems g.raw.faces.flatten g.raw.faces.length (defaultPtr 3 g.raw.faces.length (fpOf g)) = some g.raw.faces := by
  unfold fpOf
  by_cases hf : g.raw.faces = []
  · simp [hf, buildElems, defaultPtr, mapOpt]
  · by_cases ht : g.raw.faces.all (fun f => f.length == 3) = true
    · simp only [hf, ht, or_true, if_true]
      apply buildElems_default 3
      intro f hfm
      have := List.all_eq_true.mp ht f hfm
      simpa using this
    · have e : (if g.raw.faces = [] ∨ g.raw.faces.all (fun f => f.length == 3) = true then (([], []) : List Nat × List Nat)
            else (g.raw.faces.map List.length, prefixSums 0 g.raw.faces))
          = (g.raw.faces.map List.length, prefixSums 0 g.raw.faces) := by
        simp [hf, ht]
      rw [e]
      have hpos : ¬ ((g.raw.faces.map List.length).length = 0 ∧ 0 < g.raw.faces.length) := by
        simp [hf]
      simp only [defaultPtr, hpos, if_false]
      exact buildElems_ptr _

theorem pts_read (cd : Codec C) (h : RoundTrips cd) (vs : List (C × C × C)) :
    mapOpt (readNum cd) (flatPts cd vs) = some (vs.flatMap (fun v => [v.1, v.2.1, v.2.2])) := by
  induction vs with
  | nil => rfl
  | cons v t ih =>
    have e : flatPts cd (v :: t) = coordLine cd v ++ flatPts cd t := by simp [flatPts]
    rw [e]
    have hv : mapOpt (readNum cd) (coordLine cd v) = some [v.1, v.2.1, v.2.2] := by
      simp [coordLine, mapOpt, readNum_num cd h]
    simpa using mapOpt_append (readNum cd) _ _ _ _ hv ih

theorem triples_flat {α : Type} (vs : List (α × α × α)) :
    triples (vs.flatMap (fun v => [v.1, v.2.1, v.2.2])) = vs := by
  induction vs with
  | nil => rfl
  | cons v t ih => simp [triples, ih]

theorem edges_read (es : List (Nat × Nat)) :
    mapOpt readIdx0 ((es.map (fun e => [idx0 e.1, idx0 e.2])).flatten) = some (es.flatMap (fun e => [e.1, e.2])) := by
  induction es with
  | nil => rfl
  | cons e t ih =>
    simp only [List.map_cons, List.flatten_cons, List.flatMap_cons]
    exact mapOpt_append readIdx0 _ _ _ _ (by simp [mapOpt]) ih

theorem pairs_flat (es : List (Nat × Nat)) : pairs (es.flatMap (fun e => [e.1, e.2])) = some es := by
  induction es with
  | nil => rfl
  | cons e t ih => simp [pairs, ih]

theorem sum_two {α : Type} (l : List α) : (List.map (fun _ => 2) l).sum = 2 * l.length := by
  induction l with
  | nil => rfl
  | cons a t ih => simp [ih]; omega

theorem flat_len (es : List (Nat × Nat)) : (es.flatMap (fun e => [e.1, e.2])).length = 2 * es.length := by
  induction es with
  | nil => rfl
  | cons e t ih => simp [ih]; omega


/-- what the importer returns for an exported mesh without user attributes: the mesh itself; the `facet_ptr`
block (when written) additionally shows up as an integer attribute of the facets, exactly as in the Python code -/
def expectedG (g : GMesh C) : GMesh C :=
  { raw := { g.raw with hard := none },
    attrs := if g.raw.faces = [] ∨ g.raw.faces.all (fun f => f.length == 3) = true then [] else
      [{ cont := .facets, name := facetPtrName, typ := .int, dim := 1, vals := (prefixSums 0 g.raw.faces).map idx0 }],
    adj := if g.raw.cells = [] then [] else g.adj }

theorem convVals_int (cd : Codec C) (l : List Nat) : convVals cd .int (l.map idx0) = some (l.map idx0) := by
  simp only [convVals]
  have := mapOpt_map_gen idx0 (fun tk => (readInt tk).map Tok.int) idx0 l (fun x _ => rfl)
  simpa using this

set_option maxHeartbeats 4000000 in
theorem mainPass_export (cd : Codec C) (h : RoundTrips cd) (g : GMesh C) (ha : g.attrs = [])
    (htet : ∀ c ∈ g.raw.cells, c.length = 4) :
    foldOpt (stepImport cd (szOf g) (defaultPtr 3 g.raw.faces.length (fpOf g)) (defaultPtr 4 g.raw.cells.length ([], [])))
      {} (exportChunks cd g) = some (expectedG g) := by
  have hF := facesBuild g
  have hC := buildElems_default 4 g.raw.cells htet
  have hA : mapOpt readIdx0 (g.adj.map idx0) = some g.adj := mapOpt_idx0 _
  have hFc : mapOpt readIdx0 (g.raw.faces.flatten.map idx0) = some g.raw.faces.flatten := mapOpt_idx0 _
  have hCc : mapOpt readIdx0 (g.raw.cells.flatten.map idx0) = some g.raw.cells.flatten := mapOpt_idx0 _
  have hP := pts_read cd h g.raw.verts
  have hE := edges_read g.raw.edges
  have hE2 : ¬ ((g.raw.edges.flatMap (fun e => [e.1, e.2])).length < 2 * g.raw.edges.length) := by
    rw [flat_len]; omega
  have hE3 : (g.raw.edges.flatMap (fun e => [e.1, e.2])).take (2 * g.raw.edges.length)
      = g.raw.edges.flatMap (fun e => [e.1, e.2]) := by
    apply List.take_of_length_le; rw [flat_len]; omega
  have hE4 := pairs_flat g.raw.edges
  have hV := convVals_int cd (prefixSums 0 g.raw.faces)
  by_cases he : g.raw.edges = [] <;> by_cases hf : g.raw.faces = [] <;> by_cases hc : g.raw.cells = [] <;>
    by_cases ht : (g.raw.faces.all (fun f => f.length == 3)) = true <;>
    simp [exportChunks, userChunks, stepImport, foldOpt, facetPtrName, cellPtrName, typeOf, contOf, Cont.name, szOf,
      expectedG, ha, he, hf, hc, ht, hF, hC, hA, hFc, hCc, hP, hE, hE2, hE3, hE4, hV, triples_flat, sum_two, -List.map_flatten]


theorem importChunks_exportChunks (cd : Codec C) (h : RoundTrips cd) (g : GMesh C) (ha : g.attrs = [])
    (htet : ∀ c ∈ g.raw.cells, c.length = 4) :
    importChunks cd (exportChunks cd g) = some (expectedG g) := by
  unfold importChunks
  simp only [sizesOf_export cd g ha, ptrPass_export cd g ha]
  exact mainPass_export cd h g ha htet

/-- one user attribute chunk in isolation: read back with its container, name, type, arity and values -/
theorem stepImport_attrChunk (cd : Codec C) (sz : Sizes) (fp cp : List Nat × List Nat) (g : GMesh C) (a : GAttr)
    (hd : a.dim ≠ 0) (hv : convVals cd a.typ a.vals = some a.vals)
    (hn : a.name ≠ "\"point\"" ∧ a.name ≠ "\"GEO::Mesh::edges::edge_vertex\"" ∧
          a.name ≠ "\"GEO::Mesh::facet_corners::corner_vertex\"" ∧ a.name ≠ "\"GEO::Mesh::cell_corners::corner_vertex\"" ∧
          a.name ≠ "\"GEO::Mesh::cell_facets::adjacent_cell\"") :
    stepImport cd sz fp cp g (attrChunk a) = some { g with attrs := g.attrs ++ [a] } := by
  obtain ⟨h1, h2, h3, h4, h5⟩ := hn
  cases a with
  | mk cont name typ dim vals =>
    simp only at hd hv h1 h2 h3 h4 h5
    cases cont <;> cases typ <;>
      simp [stepImport, attrChunk, contOf, typeOf, Cont.name, h1, h2, h3, h4, h5, hd, hv]

end Mouette.IO.Geo
