import Mouette.Lemmas.VolLazyClear
/-!
Value-level staleness of the lazy caches, over ANY guard table (`Model/VolLazy.lean`).

The guard-table machine only records whether a cache is missing / `None` / filled.  Here every filled cache also
carries a STAMP: the version of the cell list it was computed from (`write x` at version `v` stamps `x` with `v`), and
every `read` of a filled cache logs the stamp it sees.  A read that logs a stamp different from the current version is
a STALE read.  Core Lean only.
-/
namespace Mouette.VolLazy

/-- status per cache, stamp per cache, log of the stamps seen by the reads -/
abbrev VState := State × List Nat × List Nat

namespace Table
variable (t : Table)

/-- one event at version `v` (the recursive calls are passed in as `rec`) -/
def stepV (v : Nat) (rec : Nat → VState → VState × Outcome) (acc : VState × Outcome) (ev : Ev) : VState × Outcome :=
  match acc with
  | ((st, sp, log), .ok) =>
    (match ev with
     | .guard x g =>
       (match st.getD x 0 with
        | 0 => ((st, sp, log), .errAttr)
        | 1 => rec g (st, sp, log)
        | _ => ((st, sp, log), .ok))
     | .read x =>
       (match st.getD x 0 with
        | 0 => ((st, sp, log), .errAttr)
        | 1 => ((st, sp, log), .errNone)
        | _ => ((st, sp, log ++ [sp.getD x 0]), .ok))
     | .call g => rec g (st, sp, log)
     | .write x => ((st.set x 2, sp.set x v, log), .ok)
     | .writeNone x => ((st.set x 1, sp, log), .ok))
  | bad => bad

/-- `execM` with stamps, at version `v` of the cell list -/
def execV (v : Nat) : Nat → Nat → VState → VState × Outcome
  | 0, _, s => (s, .fuel)
  | fuel + 1, f, s => (t.methods.getD f []).foldl (stepV v (execV v fuel)) (s, .ok)

/-- lengths agree, every FILLED cache (status neither 0 = missing nor 1 = `None`) is stamped `v`, every logged stamp is `v` -/
def GoodS (v : Nat) (s : VState) : Prop :=
  s.1.length = s.2.1.length ∧ (∀ x, s.1.getD x 0 ≠ 0 → s.1.getD x 0 ≠ 1 → s.2.1.getD x 0 = v) ∧ (∀ w ∈ s.2.2, w = v)

theorem getD_set_eq {l : List Nat} {x y a : Nat} : (l.set x a).getD y 0 = if x = y ∧ x < l.length then a else l.getD y 0 := by
  rw [List.getD_eq_getElem?_getD, List.getD_eq_getElem?_getD, List.getElem?_set]
  by_cases h : x = y
  · subst h
    by_cases hl : x < l.length
    · simp [hl]
    · simp [hl]
  · simp [h]

theorem stepV_good (v : Nat) (rec : Nat → VState → VState × Outcome)
    (hrec : ∀ g s, GoodS v s → GoodS v (rec g s).1) (acc : VState × Outcome) (ev : Ev)
    (h : GoodS v acc.1) : GoodS v (stepV v rec acc ev).1 := by
  obtain ⟨⟨st, sp, log⟩, o⟩ := acc
  cases o with
  | ok =>
    cases ev with
    | guard x g =>
      simp only [stepV]
      split
      · exact h
      · exact hrec _ _ h
      · exact h
    | read x =>
      simp only [stepV]
      split
      · exact h
      · exact h
      · rename_i h0 h1
        obtain ⟨hl, hf, hg⟩ := h
        refine ⟨hl, hf, ?_⟩
        intro w hw
        simp only [List.mem_append, List.mem_singleton] at hw
        rcases hw with hw | rfl
        · exact hg w hw
        · exact hf x h0 h1
    | call g => exact hrec _ _ h
    | write x =>
      obtain ⟨hl, hf, hg⟩ := h
      refine ⟨by show (st.set x 2).length = (sp.set x v).length; rw [List.length_set, List.length_set]; exact hl, ?_, hg⟩
      intro y hy0 hy1
      change (st.set x 2).getD y 0 ≠ 0 at hy0
      change (st.set x 2).getD y 0 ≠ 1 at hy1
      show (sp.set x v).getD y 0 = v
      have hl' : st.length = sp.length := hl
      rw [getD_set_eq] at hy0 hy1 ⊢
      by_cases hxy : x = y ∧ x < st.length
      · have : x = y ∧ x < sp.length := ⟨hxy.1, by rw [← hl']; exact hxy.2⟩
        rw [if_pos this]
      · have : ¬ (x = y ∧ x < sp.length) := by rw [← hl']; exact hxy
        simp only [hxy, if_false] at hy0 hy1
        simp only [this, if_false]
        exact hf y hy0 hy1
    | writeNone x =>
      obtain ⟨hl, hf, hg⟩ := h
      refine ⟨by show (st.set x 1).length = sp.length; rw [List.length_set]; exact hl, ?_, hg⟩
      intro y hy0 hy1
      change (st.set x 1).getD y 0 ≠ 0 at hy0
      change (st.set x 1).getD y 0 ≠ 1 at hy1
      show sp.getD y 0 = v
      rw [getD_set_eq] at hy0 hy1
      by_cases hxy : x = y ∧ x < st.length
      · rw [if_pos hxy] at hy1; exact absurd rfl hy1
      · simp only [hxy, if_false] at hy0 hy1
        exact hf y hy0 hy1
  | errAttr => exact h
  | errNone => exact h
  | fuel => exact h

theorem foldl_stepV_good (v : Nat) (rec : Nat → VState → VState × Outcome)
    (hrec : ∀ g s, GoodS v s → GoodS v (rec g s).1) (evs : List Ev) (acc : VState × Outcome)
    (h : GoodS v acc.1) : GoodS v (evs.foldl (stepV v rec) acc).1 := by
  induction evs generalizing acc with
  | nil => exact h
  | cons e r ih => exact ih _ (stepV_good v rec hrec acc e h)

/-- a method run at version `v` keeps: filled ⇒ stamped `v`, logged ⇒ `v` -/
theorem execV_good (v : Nat) : ∀ (fuel f : Nat) (s : VState), GoodS v s → GoodS v (t.execV v fuel f s).1 := by
  intro fuel
  induction fuel with
  | zero => intro f s h; exact h
  | succ n ih =>
    intro f s h
    exact foldl_stepV_good v _ (fun g s hs => ih g s hs) _ (s, .ok) h

/-- the status component of the stamped machine is the guard-table machine -/
theorem stepV_proj (v : Nat) (rec : Nat → VState → VState × Outcome) (recM : Nat → State → State × Outcome)
    (hrec : ∀ g s, ((rec g s).1.1, (rec g s).2) = recM g s.1) (acc : VState × Outcome) (ev : Ev) :
    ((stepV v rec acc ev).1.1, (stepV v rec acc ev).2) =
      (match (acc.1.1, acc.2) with
       | (s, .ok) =>
         (match ev with
          | .guard x g => (match s.getD x 0 with | 0 => (s, .errAttr) | 1 => recM g s | _ => (s, .ok))
          | .read x => (match s.getD x 0 with | 0 => (s, .errAttr) | 1 => (s, .errNone) | _ => (s, .ok))
          | .call g => recM g s
          | .write x => (s.set x 2, .ok)
          | .writeNone x => (s.set x 1, .ok))
       | bad => bad) := by
  obtain ⟨⟨st, sp, log⟩, o⟩ := acc
  cases o with
  | ok =>
    cases ev with
    | guard x g => simp only [stepV]; split <;> first | rfl | exact hrec _ _
    | read x => simp only [stepV]; split <;> rfl
    | call g => exact hrec _ _
    | write x => rfl
    | writeNone x => rfl
  | errAttr => rfl
  | errNone => rfl
  | fuel => rfl

theorem execV_proj (v : Nat) : ∀ (fuel f : Nat) (s : VState),
    ((t.execV v fuel f s).1.1, (t.execV v fuel f s).2) = t.execM fuel f s.1 := by
  intro fuel
  induction fuel with
  | zero => intro f s; rfl
  | succ n ih =>
    intro f s
    simp only [execV, execM]
    generalize t.methods.getD f [] = evs
    have : ∀ (evs : List Ev) (a : VState × Outcome) (b : State × Outcome), (a.1.1, a.2) = b →
        ((evs.foldl (stepV v (t.execV v n)) a).1.1, (evs.foldl (stepV v (t.execV v n)) a).2)
          = evs.foldl (fun acc ev =>
              match acc with
              | (s, .ok) =>
                (match ev with
                 | .guard x g => (match s.getD x 0 with | 0 => (s, .errAttr) | 1 => t.execM n g s | _ => (s, .ok))
                 | .read x => (match s.getD x 0 with | 0 => (s, .errAttr) | 1 => (s, .errNone) | _ => (s, .ok))
                 | .call g => t.execM n g s
                 | .write x => (s.set x 2, .ok)
                 | .writeNone x => (s.set x 1, .ok))
              | bad => bad) b := by
      intro evs
      induction evs with
      | nil => intro a b h; exact h
      | cons e r ihr =>
        intro a b h
        simp only [List.foldl]
        apply ihr
        rw [stepV_proj v _ (t.execM n) (fun g s => ih g s), h]
    exact this evs (s, .ok) (s.1, .ok) rfl

/-- status list and stamp list keep the same length -/
def LenS (s : VState) : Prop := s.1.length = s.2.1.length

theorem stepV_len (v : Nat) (rec : Nat → VState → VState × Outcome)
    (hrec : ∀ g s, LenS s → LenS (rec g s).1) (acc : VState × Outcome) (ev : Ev)
    (h : LenS acc.1) : LenS (stepV v rec acc ev).1 := by
  obtain ⟨⟨st, sp, log⟩, o⟩ := acc
  cases o with
  | ok =>
    cases ev with
    | guard x g => simp only [stepV]; split <;> first | exact h | exact hrec _ _ h
    | read x => simp only [stepV]; split <;> exact h
    | call g => exact hrec _ _ h
    | write x => unfold LenS at h ⊢; simp only [stepV, List.length_set]; exact h
    | writeNone x => unfold LenS at h ⊢; simp only [stepV, List.length_set]; exact h
  | errAttr => exact h
  | errNone => exact h
  | fuel => exact h

theorem execV_len (v : Nat) : ∀ (fuel f : Nat) (s : VState), LenS s → LenS (t.execV v fuel f s).1 := by
  intro fuel
  induction fuel with
  | zero => intro f s h; exact h
  | succ n ih =>
    intro f s h
    simp only [execV]
    generalize t.methods.getD f [] = evs
    have : ∀ (evs : List Ev) (a : VState × Outcome), LenS a.1 → LenS (evs.foldl (stepV v (t.execV v n)) a).1 := by
      intro evs
      induction evs with
      | nil => intro a h; exact h
      | cons e r ihr => intro a h; exact ihr _ (stepV_len v _ (fun g s hs => ih g s hs) a e h)
    exact this evs (s, .ok) h

/-! ### histories with versions -/

/-- run a history of `(query, version)` pairs; the log is emptied before each query and returned per query -/
def runV (s : State × List Nat) : List (Nat × Nat) → List (List Nat)
  | [] => []
  | (q, v) :: h => let r := (t.execV v t.fuel q (s.1, s.2, [])).1; r.2.2 :: runV (r.1, r.2.1) h

def finalV (s : State × List Nat) : List (Nat × Nat) → State × List Nat
  | [] => s
  | (q, v) :: h => let r := (t.execV v t.fuel q (s.1, s.2, [])).1; finalV (r.1, r.2.1) h

theorem finalV_status (s : State × List Nat) (h : List (Nat × Nat)) :
    (t.finalV s h).1 = t.finalState s.1 (h.map (·.1)) := by
  induction h generalizing s with
  | nil => rfl
  | cons qv r ih =>
    obtain ⟨q, v⟩ := qv
    simp only [finalV, List.map, finalState]
    rw [ih]
    have := t.execV_proj v t.fuel q (s.1, s.2, [])
    have h1 : (t.execV v t.fuel q (s.1, s.2, [])).1.1 = (t.stepQ s.1 q).1 := by
      unfold stepQ; rw [← this]
    rw [h1]

theorem finalV_length (s : State × List Nat) (h : List (Nat × Nat)) (hl : s.1.length = s.2.length) :
    (t.finalV s h).1.length = (t.finalV s h).2.length := by
  induction h generalizing s with
  | nil => exact hl
  | cons qv r ih =>
    obtain ⟨q, v⟩ := qv
    simp only [finalV]
    apply ih
    exact t.execV_len v t.fuel q (s.1, s.2, []) hl

/-- from a state satisfying the stamp invariant at version `v`, every query of a history run at version `v` logs only `v` -/
theorem runV_fresh_logs (v : Nat) (qs : List Nat) (s : State × List Nat) (hg : GoodS v (s.1, s.2, [])) :
    ∀ log ∈ t.runV s (qs.map fun q => (q, v)), ∀ w ∈ log, w = v := by
  induction qs generalizing s with
  | nil => intro log hl; simp [runV] at hl
  | cons q r ih =>
    intro log hl
    simp only [List.map, runV, List.mem_cons] at hl
    have hgood := t.execV_good v t.fuel q (s.1, s.2, []) hg
    rcases hl with rfl | hl
    · exact hgood.2.2
    · exact ih _ ⟨hgood.1, hgood.2.1, by intro w hw; cases hw⟩ log hl

/-- **no stale read after `clear()`**. After ANY history of public queries made at ANY versions of the cell list
(the cells may have been changed in place between the queries), followed by `clear()`, every query made at the current
version `v` reads only caches computed from version `v`: nothing computed before `clear()` is ever observed again. -/
theorem no_stale_read_after_clear (h : t.wellGuarded = true) {c : Nat} (hc : t.clearResets c = true)
    (hnone : t.fresh.1.all (· == 1) = true)
    (hist : List (Nat × Nat)) (hq : ∀ p ∈ hist, p.1 ∈ t.alphabet) (vc v : Nat) (qs : List Nat)
    (stamps : List Nat) (hl : t.fresh.1.length = stamps.length) :
    ∀ log ∈ t.runV (t.finalV (t.fresh.1, stamps) (hist ++ [(c, vc)])) (qs.map fun q => (q, v)), ∀ w ∈ log, w = v := by
  apply runV_fresh_logs
  have hst : (t.finalV (t.fresh.1, stamps) (hist ++ [(c, vc)])).1 = t.fresh.1 := by
    rw [finalV_status]
    simp only [List.map_append, List.map_cons, List.map_nil]
    exact t.finalState_clear h hc _ (by
      intro q hqm
      simp only [List.mem_map] at hqm
      obtain ⟨p, hp, rfl⟩ := hqm
      exact hq p hp)
  refine ⟨t.finalV_length _ _ hl, ?_, by intro w hw; cases hw⟩
  intro x h0 h1
  exfalso
  simp only at h0 h1
  rw [hst] at h0 h1
  rw [List.all_eq_true] at hnone
  by_cases hx : x < t.fresh.1.length
  · have hmem : t.fresh.1.getD x 0 ∈ t.fresh.1 := by
      rw [List.getD_eq_getElem?_getD, List.getElem?_eq_getElem hx]; simp
    have := hnone _ hmem
    exact h1 (by simpa using this)
  · exact h0 (by rw [List.getD_eq_getElem?_getD, List.getElem?_eq_none (by omega)]; rfl)

end Table
end Mouette.VolLazy
