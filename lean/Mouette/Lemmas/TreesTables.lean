import Mouette.Lemmas.TreesTraverse
/-
The final loop of `compute()` (children lists, edge list) and the fact that the tables of a breadth-first
tree satisfy `TreeOK`.
-/
namespace Mouette.Trees

theorem childPairs_snd_sublist (parent : Nat → Option Nat) (keep : Nat → Bool) :
    ∀ ids : List Nat, ((childPairs parent keep ids).map (·.2)).Sublist ids
  | [] => by simp [childPairs]
  | v :: ids => by
    have ih := childPairs_snd_sublist parent keep ids
    unfold childPairs at ih ⊢
    let f : Nat → Option (Nat × Nat) := fun v => if keep v then (parent v).map (fun p => (p, v)) else none
    have ih' : ((List.filterMap f ids).map (·.2)).Sublist ids := ih
    show ((List.filterMap f (v :: ids)).map (·.2)).Sublist (v :: ids)
    cases hf : f v with
    | none => rw [List.filterMap_cons_none hf]; exact List.Sublist.cons _ ih'
    | some b =>
      rw [List.filterMap_cons_some hf, List.map_cons]
      have hb : b.2 = v := by
        simp only [f] at hf
        split at hf
        · cases hp : parent v with
          | none => rw [hp] at hf; simp at hf
          | some p => rw [hp] at hf; simp at hf; rw [← hf]
        · simp at hf
      rw [hb]; exact List.Sublist.cons_cons _ ih'

theorem mem_mkChildren {parent : Nat → Option Nat} {keep : Nat → Bool} {ids : List Nat} {p c : Nat} :
    c ∈ mkChildren parent keep ids p ↔ c ∈ ids ∧ keep c = true ∧ parent c = some p := by
  unfold mkChildren childPairs
  simp only [List.mem_map, List.mem_filter, List.mem_filterMap]
  constructor
  · rintro ⟨e, ⟨⟨v, hv, hve⟩, hep⟩, rfl⟩
    cases hk : keep v with
    | false => simp [hk] at hve
    | true =>
      simp only [hk, if_true] at hve
      cases hpv : parent v with
      | none => simp [hpv] at hve
      | some q =>
        simp [hpv] at hve
        subst hve
        simp at hep
        subst hep
        exact ⟨hv, hk, hpv⟩
  · rintro ⟨hc, hk, hp⟩
    exact ⟨(p, c), ⟨⟨c, hc, by simp [hk, hp]⟩, by simp⟩, rfl⟩

theorem mkChildren_nodup (parent : Nat → Option Nat) (keep : Nat → Bool) {ids : List Nat} (h : ids.Nodup) (p : Nat) :
    (mkChildren parent keep ids p).Nodup := by
  unfold mkChildren
  have h1 := childPairs_snd_sublist parent keep ids
  have h2 : (((childPairs parent keep ids).filter (fun e => e.1 == p)).map (·.2)).Sublist
      ((childPairs parent keep ids).map (·.2)) := List.Sublist.map _ List.filter_sublist
  exact (h.sublist h1).sublist h2

theorem length_mkEdges (parent : Nat → Option Nat) (keep : Nat → Bool) : ∀ ids : List Nat,
    (mkEdges parent keep ids).length = (ids.filter (fun v => keep v && (parent v).isSome)).length
  | [] => rfl
  | v :: ids => by
    have ih := length_mkEdges parent keep ids
    unfold mkEdges at ih ⊢
    rw [List.filterMap_cons, List.filter_cons]
    cases hk : keep v with
    | false => simpa [hk] using ih
    | true =>
      cases hp : parent v with
      | none => simpa [hk, hp] using ih
      | some p => simp [ih]

/-- counting: if `A v ↔ v = root ∨ B v` and `¬ B root` then `#A = #B + 1` among the ids `< n` (`root < n`) -/
theorem count_root (A B : Nat → Bool) (root : Nat) (hA : ∀ v, A v = (v == root || B v)) (hB : B root = false) :
    ∀ n, ((List.range n).filter A).length = ((List.range n).filter B).length + (if root < n then 1 else 0)
  | 0 => by simp
  | n+1 => by
    have ih := count_root A B root hA hB n
    rw [List.range_succ, List.filter_append, List.filter_append, List.length_append, List.length_append, ih]
    by_cases hn : n = root
    · subst hn
      have : A n = true := by rw [hA]; simp
      simp [this, hB]
    · have hAn : A n = B n := by
        rw [hA]
        have : (n == root) = false := by simpa using hn
        simp [this]
      have h1 : (if root < n + 1 then 1 else 0) = (if root < n then 1 else 0) := by
        split <;> split <;> omega
      rw [h1]
      cases hb : B n <;> simp [hAn, hb] <;> omega

section
variable {g : Cfg} {n root : Nat}

/-- the tables of a breadth-first tree form a tree in the sense needed by `traverse` -/
theorem bfsTree_ok (hwf : WF g n) (hr : root < n) (skipInf : Bool) :
    let t := bfsTree g n root skipInf
    TreeOK t.parent t.children root n t.reached t.depth := by
  have F := bfinal_run hwf hr
  have I := F.inv
  intro t
  have hkeep : ∀ c p, (brun g n root).parent c = some p →
      (if skipInf then ((brun g n root).dist c).isSome else true) = true := by
    intro c p hp
    obtain ⟨_, _, _, dp, _, h5⟩ := I.par_ok c p hp
    cases skipInf <;> simp [h5]
  refine { ch_iff := ?_, ch_nodup := ?_, parent_root := I.parent_root, root_reached := I.seen_root,
           reached_lt := I.seen_lt, par_reached := ?_, reached_par := I.par_some, depth_root := I.dist_root,
           depth_some := I.dist_some, depth_par := ?_ }
  · intro p c
    show c ∈ mkChildren _ _ (List.range n) p ↔ _
    rw [mem_mkChildren]
    constructor
    · exact fun h => h.2.2
    · intro h
      exact ⟨List.mem_range.mpr (I.seen_lt c (I.par_ok c p h).1), hkeep c p h, h⟩
  · intro p
    exact mkChildren_nodup _ _ List.nodup_range p
  · intro c p hp
    exact ⟨(I.par_ok c p hp).1, (I.par_ok c p hp).2.1⟩
  · intro c p hp
    obtain ⟨_, _, _, dp, h4, h5⟩ := I.par_ok c p hp
    exact ⟨dp, h4, h5⟩

end

end Mouette.Trees
