import Mathlib.Logic.Relation
import Mouette.Lemmas.SubdivManifold
/-
C13 (round 3): the border-loop successor map through the 1→4 refinement.  A border side is a directed side whose
opposite does not occur; its successor is the border side that starts where it ends.  Border loops are the orbits of the
successor relation.  Every border side (u → v) of the input becomes the two consecutive border sides (u → m), (m → v), and
(m → v) is followed by the first half of the successor of (u → v): loops of length k become loops of length 2k, and the
loops of the refined mesh are in bijection with those of the input.
-/
namespace Mouette.Subdiv

def IsBorder (m : Raw) (x : Nat × Nat) : Prop := x ∈ dirSides m ∧ (x.2, x.1) ∉ dirSides m

/-- `y` follows `x` along the border -/
def IsSucc (m : Raw) (x y : Nat × Nat) : Prop := IsBorder m x ∧ IsBorder m y ∧ y.1 = x.2

/-- `x` is one of the two halves of the border side `s` of the input -/
def HalfOfBorder (m : Raw) (x s : Nat × Nat) : Prop :=
  IsBorder m s ∧ ∃ mu, halfLookup m.edges m.verts.length (keyify s.1 s.2) = some mu ∧ (x = (s.1, mu) ∨ x = (mu, s.2))

/-- every directed side of the input has a midpoint in the table -/
theorem lookup_of_side (m m' : Raw) (h : loopOnce m = .ok m') (hes : EdgesSorted m) (u v : Nat) (huv : (u, v) ∈ dirSides m) :
    ∃ mu, halfLookup m.edges m.verts.length (keyify u v) = some mu := by
  obtain ⟨mids, parts, _, h2, _, _, _, _⟩ := loopOnce_spec m m' h
  obtain ⟨f, hf, hfuv⟩ := List.mem_flatMap.mp huv
  obtain ⟨p, _, hfl⟩ := mapE_mem_of _ _ _ h2 f hf
  obtain ⟨a, b, c, mab, mbc, mca, rfl, _, _, _, l1, l2, l3, _⟩ := loop_part_desc m hes f p hfl
  simp only [cycPairs, cycGo, List.mem_cons, Prod.mk.injEq, List.not_mem_nil, or_false] at hfuv
  rcases hfuv with ⟨rfl, rfl⟩ | ⟨rfl, rfl⟩ | ⟨rfl, rfl⟩
  · exact ⟨_, l1⟩
  · exact ⟨_, l2⟩
  · exact ⟨_, l3⟩

theorem half_mem_dirSides (m m' : Raw) (h : loopOnce m = .ok m') (hes : EdgesSorted m) (u v mu : Nat)
    (huv : (u, v) ∈ dirSides m) (hl : halfLookup m.edges m.verts.length (keyify u v) = some mu) :
    (u, mu) ∈ dirSides m' ∧ (mu, v) ∈ dirSides m' := by
  obtain ⟨f, hf, hfuv⟩ := List.mem_flatMap.mp huv
  exact ⟨(mem_dirSides_loop m m' h hes _).mpr ⟨f, hf, Or.inl ⟨u, v, mu, hfuv, hl, Or.inl rfl⟩⟩,
         (mem_dirSides_loop m m' h hes _).mpr ⟨f, hf, Or.inl ⟨u, v, mu, hfuv, hl, Or.inr rfl⟩⟩⟩

/-- border sides of the refined mesh = halves of border sides of the input -/
theorem border_iff (m m' : Raw) (h : loopOnce m = .ok m') (hes : EdgesSorted m) (x : Nat × Nat) :
    IsBorder m' x ↔ ∃ s, HalfOfBorder m x s := by
  constructor
  · rintro ⟨hx, hno⟩
    obtain ⟨u, v, mu, huv, hvu, hl, hxe⟩ := (loop_border m m' h hes x hx).mp hno
    exact ⟨(u, v), ⟨huv, hvu⟩, mu, hl, hxe⟩
  · rintro ⟨⟨u, v⟩, ⟨huv, hvu⟩, mu, hl, hxe⟩
    have hm := half_mem_dirSides m m' h hes u v mu huv hl
    have hx : x ∈ dirSides m' := by rcases hxe with rfl | rfl; exact hm.1; exact hm.2
    exact ⟨hx, (loop_border m m' h hes x hx).mpr ⟨u, v, mu, huv, hvu, hl, hxe⟩⟩

/-- a half determines the border side it is half of -/
theorem side_unique (m : Raw) (hes : EdgesSorted m) (x s s' : Nat × Nat) (h1 : HalfOfBorder m x s) (h2 : HalfOfBorder m x s') :
    s = s' := by
  obtain ⟨u, v⟩ := s; obtain ⟨u', v'⟩ := s'
  obtain ⟨_, mu, hl, hx⟩ := h1
  obtain ⟨_, mu', hl', hx'⟩ := h2
  simp only at hl hl' hx hx'
  obtain ⟨b1, b2, b3, b4⟩ := half_bounds hes hl
  obtain ⟨c1, c2, c3, c4⟩ := half_bounds hes hl'
  rcases hx with rfl | rfl <;> rcases hx' with e | e <;> simp only [Prod.mk.injEq] at e
  · obtain ⟨e1, e2⟩ := e; subst e2
    rcases same_mid hl hl' with ⟨e3, e4⟩ | ⟨e3, e4⟩
    · rw [e3, e4]
    · omega
  · omega
  · omega
  · obtain ⟨e1, e2⟩ := e; subst e1
    rcases same_mid hl hl' with ⟨e3, e4⟩ | ⟨e3, e4⟩
    · rw [e3, e4]
    · omega

/-- (T1) the two halves of a border side follow each other -/
theorem succ_within_side (m m' : Raw) (h : loopOnce m = .ok m') (hes : EdgesSorted m) (u v mu : Nat)
    (hb : IsBorder m (u, v)) (hl : halfLookup m.edges m.verts.length (keyify u v) = some mu) :
    IsSucc m' (u, mu) (mu, v) :=
  ⟨(border_iff m m' h hes _).mpr ⟨(u, v), hb, mu, hl, Or.inl rfl⟩,
   (border_iff m m' h hes _).mpr ⟨(u, v), hb, mu, hl, Or.inr rfl⟩, rfl⟩

/-- (T2) the second half of a border side is followed by the first half of its successor -/
theorem succ_across_sides (m m' : Raw) (h : loopOnce m = .ok m') (hes : EdgesSorted m) (u v w mu mw : Nat)
    (hs : IsSucc m (u, v) (v, w)) (hl : halfLookup m.edges m.verts.length (keyify u v) = some mu)
    (hl' : halfLookup m.edges m.verts.length (keyify v w) = some mw) : IsSucc m' (mu, v) (v, mw) :=
  ⟨(border_iff m m' h hes _).mpr ⟨(u, v), hs.1, mu, hl, Or.inr rfl⟩,
   (border_iff m m' h hes _).mpr ⟨(v, w), hs.2.1, mw, hl', Or.inl rfl⟩, rfl⟩

/-- (T3) and these are the only successions in the refined mesh -/
theorem succ_cases (m m' : Raw) (h : loopOnce m = .ok m') (hes : EdgesSorted m) (x y : Nat × Nat) (hs : IsSucc m' x y) :
    (∃ u v mu, IsBorder m (u, v) ∧ halfLookup m.edges m.verts.length (keyify u v) = some mu ∧ x = (u, mu) ∧ y = (mu, v)) ∨
    (∃ u v w mu mw, IsSucc m (u, v) (v, w) ∧ halfLookup m.edges m.verts.length (keyify u v) = some mu ∧
        halfLookup m.edges m.verts.length (keyify v w) = some mw ∧ x = (mu, v) ∧ y = (v, mw)) := by
  obtain ⟨hx, hy, hxy⟩ := hs
  obtain ⟨⟨u, v⟩, hb, mu, hl, hxe⟩ := (border_iff m m' h hes x).mp hx
  obtain ⟨⟨u', v'⟩, hb', mu', hl', hye⟩ := (border_iff m m' h hes y).mp hy
  simp only at hl hl' hxe hye
  obtain ⟨b1, b2, b3, b4⟩ := half_bounds hes hl
  obtain ⟨c1, c2, c3, c4⟩ := half_bounds hes hl'
  rcases hxe with rfl | rfl <;> rcases hye with rfl | rfl <;> simp only at hxy
  · omega
  · left
    subst hxy
    rcases same_mid hl hl' with ⟨e3, e4⟩ | ⟨e3, e4⟩
    · subst e3; subst e4; exact ⟨u, v, mu', hb, hl, rfl, rfl⟩
    · -- the opposite side would be a side of the input: (u,v) is not border
      subst e3; subst e4
      exact absurd hb'.1 hb.2
  · right
    subst hxy
    exact ⟨u, u', v', mu, mu', ⟨hb, hb', rfl⟩, hl, hl', rfl, rfl⟩
  · omega

/-- walking along the border of the input lifts to the refined mesh (two steps per step), between first halves -/
theorem loop_walk_lift (m m' : Raw) (h : loopOnce m = .ok m') (hes : EdgesSorted m) (s t : Nat × Nat)
    (hw : Relation.ReflTransGen (IsSucc m) s t) (mu mt : Nat)
    (hl : halfLookup m.edges m.verts.length (keyify s.1 s.2) = some mu)
    (hlt : halfLookup m.edges m.verts.length (keyify t.1 t.2) = some mt) :
    Relation.ReflTransGen (IsSucc m') (s.1, mu) (t.1, mt) := by
  induction hw generalizing mt with
  | refl =>
    rw [hl] at hlt; cases hlt
    exact Relation.ReflTransGen.refl
  | @tail b c _ hbc ih =>
    obtain ⟨hb, hc, e⟩ := hbc
    obtain ⟨mb, hlb⟩ := lookup_of_side m m' h hes b.1 b.2 hb.1
    have step1 := succ_within_side m m' h hes b.1 b.2 mb hb hlb
    have hc' : c = (b.2, c.2) := Prod.ext e rfl
    have step2 : IsSucc m' (mb, b.2) (c.1, mt) := by
      rw [e]
      refine succ_across_sides m m' h hes b.1 b.2 c.2 mb mt ⟨hb, hc' ▸ hc, rfl⟩ hlb ?_
      rw [← e]; exact hlt
    exact ((ih mb hlb).tail step1).tail step2

/-- walking along the border of the refined mesh projects to a walk of the input -/
theorem loop_walk_project (m m' : Raw) (h : loopOnce m = .ok m') (hes : EdgesSorted m) (x y : Nat × Nat)
    (hw : Relation.ReflTransGen (IsSucc m') x y) (s t : Nat × Nat) (hs : HalfOfBorder m x s) (ht : HalfOfBorder m y t) :
    Relation.ReflTransGen (IsSucc m) s t := by
  induction hw generalizing t with
  | refl => rw [side_unique m hes x s t hs ht]
  | @tail b c _ hbc ih =>
    rcases succ_cases m m' h hes b c hbc with ⟨u, v, mu, hb, hl, rfl, rfl⟩ | ⟨u, v, w, mu, mw, hsucc, hl, hl', rfl, rfl⟩
    · have hb1 : HalfOfBorder m (u, mu) (u, v) := ⟨hb, mu, hl, Or.inl rfl⟩
      have hb2 : HalfOfBorder m (mu, v) (u, v) := ⟨hb, mu, hl, Or.inr rfl⟩
      rw [← side_unique m hes _ _ _ hb2 ht]
      exact ih (u, v) hb1
    · have hb1 : HalfOfBorder m (mu, v) (u, v) := ⟨hsucc.1, mu, hl, Or.inr rfl⟩
      have hb2 : HalfOfBorder m (v, mw) (v, w) := ⟨hsucc.2.1, mw, hl', Or.inl rfl⟩
      rw [← side_unique m hes _ _ _ hb2 ht]
      exact (ih (u, v) hb1).tail hsucc

end Mouette.Subdiv
