import Mouette.Lemmas.VolLazyInv
/-!
A world of two objects, each with its own cache state (the guard-table machine has no state outside the object):
what is done to one object never changes what the other one answers.
-/
namespace Mouette.VolLazy

inductive Who where
  | a | b
deriving DecidableEq, Repr

namespace Table
variable (t : Table)

/-- an interleaved history over two instances; outcomes tagged with the instance they belong to -/
def runWorld : State × State → List (Who × Nat) → List (Who × Outcome)
  | _, [] => []
  | (sa, sb), (.a, q) :: h => let r := t.stepQ sa q; (.a, r.2) :: runWorld (r.1, sb) h
  | (sa, sb), (.b, q) :: h => let r := t.stepQ sb q; (.b, r.2) :: runWorld (sa, r.1) h

def queriesOf (w : Who) (h : List (Who × Nat)) : List Nat := h.filterMap fun p => if p.1 = w then some p.2 else none
def outcomesOf (w : Who) (o : List (Who × Outcome)) : List Outcome := o.filterMap fun p => if p.1 = w then some p.2 else none

/-- **instances are isolated**: in any interleaving, the outcomes seen on instance `a` are those of `a`'s own queries
run alone, and likewise for `b` -/
theorem instances_isolated (sa sb : State) (h : List (Who × Nat)) :
    outcomesOf .a (t.runWorld (sa, sb) h) = t.run sa (queriesOf .a h)
    ∧ outcomesOf .b (t.runWorld (sa, sb) h) = t.run sb (queriesOf .b h) := by
  induction h generalizing sa sb with
  | nil => exact ⟨rfl, rfl⟩
  | cons p h ih =>
    rcases p with ⟨w, q⟩
    cases w with
    | a =>
      have := ih (t.stepQ sa q).1 sb
      simp only [runWorld, outcomesOf, queriesOf, List.filterMap_cons] at this ⊢
      simp [this.1, this.2, run]
    | b =>
      have := ih sa (t.stepQ sb q).1
      simp only [runWorld, outcomesOf, queriesOf, List.filterMap_cons] at this ⊢
      simp [this.1, this.2, run]

end Table
end Mouette.VolLazy
