import Mouette.Lemmas.C04Codecs
/-! C04: the binary STL writer and the soup of the file it writes. -/
namespace Mouette.IO
variable {C : Type}

def r32tri (cd : Codec C) (t : Tri C) : Tri C := (r32pt cd t.1, r32pt cd t.2.1, r32pt cd t.2.2)

theorem readStlRec_stlRec (cd : Codec C) (h : RoundTrips cd) (t : Tri C) :
    readStlRec cd (stlRec cd t) = some (r32tri cd t) := by
  have e : stlRec cd t = [num cd cd.zero, num cd cd.zero, num cd cd.zero,
      num cd (r32pt cd t.1).1, num cd (r32pt cd t.1).2.1, num cd (r32pt cd t.1).2.2,
      num cd (r32pt cd t.2.1).1, num cd (r32pt cd t.2.1).2.1, num cd (r32pt cd t.2.1).2.2,
      num cd (r32pt cd t.2.2).1, num cd (r32pt cd t.2.2).2.1, num cd (r32pt cd t.2.2).2.2, .int 0] := rfl
  rw [e]
  simp only [readStlRec]
  have c1 := readCoords_coordLine cd h (r32pt cd t.1)
  have c2 := readCoords_coordLine cd h (r32pt cd t.2.1)
  have c3 := readCoords_coordLine cd h (r32pt cd t.2.2)
  simp only [coordLine] at c1 c2 c3
  simp [c1, c2, c3, r32tri]

/-- the soup of the file written by the STL exporter: every triangle the writer emitted, rounded to binary32 -/
theorem stlSoup_exportStl (cd : Codec C) (h : RoundTrips cd) (m : Raw C) (ts : List (Tri C))
    (ht : stlTris m = some ts) :
    ∃ file, exportStl cd m = some file ∧ stlSoup cd file = some (ts.map (r32tri cd)) := by
  refine ⟨[idx0 ts.length] :: ts.map (stlRec cd), ?_, ?_⟩
  · simp [exportStl, ht]
  · simp only [stlSoup, readIdx0_idx0, List.length_map, if_true]
    exact mapOpt_map_gen (stlRec cd) (readStlRec cd) (r32tri cd) ts (fun t _ => readStlRec_stlRec cd h t)

/-- faces of a triangle mesh as the writer sees them -/
theorem stlTris_triangles (cd : Codec C) (m : Raw C) (hall : ∀ f ∈ m.faces, f.length = 3) (ts : List (Tri C))
    (ht : stlTris m = some ts) : restrictStlSoup cd m = some (ts.map (r32tri cd)) := by
  unfold restrictStlSoup
  rw [ofArity_all 3 m.faces hall]
  unfold stlTris at ht
  generalize m.faces = fs at hall ht
  induction fs generalizing ts with
  | nil => simp [mapOpt] at ht; subst ht; simp [mapOpt]
  | cons f t ih =>
    have hf := hall f (by simp)
    simp only [mapOpt] at ht ⊢
    match f, hf with
    | [a, b, c], _ =>
      cases hv : mapOpt (fun v => m.verts[v]?) [a, b, c] with
      | none => simp [stlFaceTris, hv] at ht
      | some l =>
        have hl : l.length = 3 := by
          simp only [mapOpt] at hv
          cases ha : m.verts[a]? <;> cases hb : m.verts[b]? <;> cases hc : m.verts[c]? <;> simp [ha, hb, hc] at hv
          subst hv; rfl
        match l, hl with
        | [x, y, z], _ =>
          simp only [stlFaceTris, hv] at ht
          cases hrest : mapOpt (stlFaceTris m) t with
          | none => simp [hrest] at ht
          | some r =>
            simp only [hrest, Option.map_some, List.flatten_cons] at ht
            have := ih r.flatten (fun g hg => hall g (List.mem_cons_of_mem _ hg)) (by simp [hrest])
            simp only [hv, this]
            injection ht with ht
            subst ht
            simp [r32tri]

end Mouette.IO
