import Mouette.Model.ConnDict
import Mouette.Model.PathMesh
/-
Lemmas for the bridge of the translated `connectivity` construction (Generated/C09Glue.lean: connBuild) to the model's
`sinkAdj (adjOf …)`: every assignment of the two loops hits a FRESH key of its inner dict (edges are pairwise different
unordered pairs without loops, targets are pairwise different vertices, the sink id is not a vertex id), so every
`d[k] = w` appends; a dict iterates in insertion order (Model/ConnDict.lean).
-/
namespace Mouette.Dijkstra

theorem dset_fresh {d : List (Nat × Rat)} {k : Nat} (w : Rat) (h : ∀ p ∈ d, p.1 ≠ k) : dset d k w = d ++ [(k, w)] := by
  unfold dset
  have : d.any (fun p => p.1 == k) = false := by
    rw [List.any_eq_false]
    intro p hp
    simpa using h p hp
  rw [this]; rfl

/-- both directions of one weighted edge -/
def edgeStepW (c : Conn) (e : Nat × Nat × Rat) : Conn := cset (cset c e.1 e.2.1 e.2.2) e.2.1 e.1 e.2.2

theorem adjOf_append (P Q : List (Nat × Nat × Rat)) (u : Nat) : adjOf (P ++ Q) u = adjOf P u ++ adjOf Q u := by
  simp [adjOf, List.filterMap_append]

theorem adjOf_key {P : List (Nat × Nat × Rat)} {u : Nat} {p : Nat × Rat} (h : p ∈ adjOf P u) :
    ∃ e ∈ P, (e.1 = u ∧ e.2.1 = p.1) ∨ (e.2.1 = u ∧ e.1 = p.1) := by
  unfold adjOf at h
  rw [List.mem_filterMap] at h
  obtain ⟨e, he, hm⟩ := h
  refine ⟨e, he, ?_⟩
  split at hm
  · rename_i h1; simp at hm; subst hm; exact Or.inl ⟨h1, rfl⟩
  · split at hm
    · rename_i h2; simp at hm; subst hm; exact Or.inr ⟨h2, rfl⟩
    · simp at hm

/-- the edges of `P` are different (as unordered pairs) from the edge `a–b` -/
def Fresh (P : List (Nat × Nat × Rat)) (a b : Nat) : Prop :=
  ∀ e ∈ P, ¬ (e.1 = a ∧ e.2.1 = b) ∧ ¬ (e.1 = b ∧ e.2.1 = a)

theorem edgeStepW_spec {P : List (Nat × Nat × Rat)} {c : Conn} (hc : ∀ u, c u = adjOf P u) (e : Nat × Nat × Rat)
    (hl : e.1 ≠ e.2.1) (hf : Fresh P e.1 e.2.1) : ∀ u, edgeStepW c e u = adjOf (P ++ [e]) u := by
  obtain ⟨a, b, w⟩ := e
  simp only at hl hf
  have k1 : ∀ p ∈ c a, p.1 ≠ b := by
    intro p hp hpb
    rw [hc a] at hp
    obtain ⟨e', he', h | h⟩ := adjOf_key hp
    · exact (hf e' he').1 ⟨h.1, by rw [h.2, hpb]⟩
    · exact (hf e' he').2 ⟨by rw [h.2, hpb], h.1⟩
  have k2 : ∀ p ∈ c b, p.1 ≠ a := by
    intro p hp hpa
    rw [hc b] at hp
    obtain ⟨e', he', h | h⟩ := adjOf_key hp
    · exact (hf e' he').2 ⟨h.1, by rw [h.2, hpa]⟩
    · exact (hf e' he').1 ⟨by rw [h.2, hpa], h.1⟩
  intro u
  rw [adjOf_append, ← hc u]
  unfold edgeStepW cset
  simp only
  have hba : b ≠ a := fun h => hl h.symm
  by_cases hua : u = a
  · subst hua
    have : upd (upd c u (dset (c u) b w)) b (dset (upd c u (dset (c u) b w) b) u w) u = dset (c u) b w := by
      simp [upd, hl]
    rw [this, dset_fresh w k1]
    simp [adjOf]
  · by_cases hub : u = b
    · subst hub
      have e1 : upd c a (dset (c a) u w) u = c u := by simp [upd, hua]
      have : upd (upd c a (dset (c a) u w)) u (dset (upd c a (dset (c a) u w) u) a w) u = dset (c u) a w := by
        simp [upd, hua]
      rw [this, dset_fresh w k2]
      simp [adjOf, hl]
    · have : upd (upd c a (dset (c a) b w)) b (dset (upd c a (dset (c a) b w) b) a w) u = c u := by
        simp [upd, hua, hub]
      rw [this]
      have n1 : ¬ a = u := fun h => hua h.symm
      have n2 : ¬ b = u := fun h => hub h.symm
      simp [adjOf, n1, n2]

/-- pairwise different unordered end-point pairs -/
def DistinctEdges (es : List (Nat × Nat × Rat)) : Prop :=
  es.Pairwise (fun e e' => ¬ (e.1 = e'.1 ∧ e.2.1 = e'.2.1) ∧ ¬ (e.1 = e'.2.1 ∧ e.2.1 = e'.1))

theorem edges_fold : ∀ (rest P : List (Nat × Nat × Rat)) (c : Conn), (∀ u, c u = adjOf P u) →
    (∀ e ∈ rest, e.1 ≠ e.2.1) → DistinctEdges (P ++ rest) → ∀ u, rest.foldl edgeStepW c u = adjOf (P ++ rest) u := by
  intro rest
  induction rest with
  | nil => intro P c hc _ _ u; simpa using hc u
  | cons e rest ih =>
    intro P c hc hl hd u
    simp only [List.foldl_cons]
    have hd' : DistinctEdges ((P ++ [e]) ++ rest) := by simpa using hd
    have hf : Fresh P e.1 e.2.1 := by
      intro e' he'
      have := (List.pairwise_append.mp hd).2.2 e' he' e (List.mem_cons_self ..)
      exact this
    have := ih (P ++ [e]) (edgeStepW c e) (edgeStepW_spec hc e (hl e (List.mem_cons_self ..)) hf)
      (fun e' he' => hl e' (List.mem_cons_of_mem _ he')) hd' u
    simpa using this

/-- the loop over `mesh.edges`: the dict of dicts holds, for every vertex, its neighbours with the edge weights, in edge
order — the model's `adjOf` -/
theorem edges_fold_adjOf (es : List (Nat × Nat × Rat)) (hl : ∀ e ∈ es, e.1 ≠ e.2.1) (hd : DistinctEdges es) (u : Nat) :
    es.foldl edgeStepW (fun _ => []) u = adjOf es u :=
  by simpa using edges_fold es [] (fun _ => []) (fun _ => by simp [adjOf]) hl (by simpa using hd) u

/-- joining one target to the sink, both directions, weight `z` -/
def sinkStepW (sink : Nat) (z : Rat) (c : Conn) (s : Nat) : Conn := cset (cset c s sink z) sink s z

def sinkRows (adj : Adj) (n : Nat) (z : Rat) (T : List Nat) : Conn := fun u =>
  if u = n then T.map (fun t => (t, z)) else adj u ++ (if T.contains u then [(n, z)] else [])

theorem sinkStepW_spec {adj : Adj} {n : Nat} (z : Rat) (hwf : ∀ u, ∀ p ∈ adj u, p.1 < n) {T : List Nat} {s : Nat}
    (hs : s < n) (hsT : s ∉ T) : sinkStepW n z (sinkRows adj n z T) s = sinkRows adj n z (T ++ [s]) := by
  funext u
  have hsn : s ≠ n := Nat.ne_of_lt hs
  have r1 : ∀ p ∈ sinkRows adj n z T s, p.1 ≠ n := by
    intro p hp
    simp only [sinkRows, if_neg hsn] at hp
    have hc : T.contains s = false := by simpa using hsT
    rw [hc] at hp
    simp at hp
    exact Nat.ne_of_lt (hwf s p hp)
  have r2 : ∀ p ∈ sinkRows adj n z T n, p.1 ≠ s := by
    intro p hp
    simp only [sinkRows, if_true] at hp
    rw [List.mem_map] at hp
    obtain ⟨t, ht, rfl⟩ := hp
    exact fun h => hsT (h ▸ ht)
  unfold sinkStepW cset
  by_cases hun : u = n
  · subst hun
    have e1 : upd (sinkRows adj u z T) s (dset (sinkRows adj u z T s) u z) u = sinkRows adj u z T u := by
      simp [upd, Ne.symm hsn]
    have : upd (upd (sinkRows adj u z T) s (dset (sinkRows adj u z T s) u z)) u
        (dset (upd (sinkRows adj u z T) s (dset (sinkRows adj u z T s) u z) u) s z) u = dset (sinkRows adj u z T u) s z := by
      simp [upd, Ne.symm hsn]
    rw [this, dset_fresh z r2]
    simp [sinkRows]
  · by_cases hus : u = s
    · subst hus
      have : upd (upd (sinkRows adj n z T) u (dset (sinkRows adj n z T u) n z)) n
          (dset (upd (sinkRows adj n z T) u (dset (sinkRows adj n z T u) n z) n) u z) u = dset (sinkRows adj n z T u) n z := by
        simp [upd, hun]
      rw [this, dset_fresh z r1]
      simp [sinkRows, hun, hsT]
    · have : upd (upd (sinkRows adj n z T) s (dset (sinkRows adj n z T s) n z)) n
          (dset (upd (sinkRows adj n z T) s (dset (sinkRows adj n z T s) n z) n) s z) u = sinkRows adj n z T u := by
        simp [upd, hun, hus]
      rw [this]
      simp [sinkRows, hun, hus]

theorem sink_fold {adj : Adj} {n : Nat} (z : Rat) (hwf : ∀ u, ∀ p ∈ adj u, p.1 < n) : ∀ (rest T : List Nat),
    (∀ t ∈ rest, t < n) → (T ++ rest).Nodup →
    rest.foldl (sinkStepW n z) (sinkRows adj n z T) = sinkRows adj n z (T ++ rest) := by
  intro rest
  induction rest with
  | nil => intro T _ _; rw [List.append_nil]; rfl
  | cons s rest ih =>
    intro T ht hnd
    simp only [List.foldl_cons]
    have hsT : s ∉ T := by
      intro h
      have := (List.nodup_append.mp hnd).2.2 s h s (List.mem_cons_self ..)
      exact this rfl
    rw [sinkStepW_spec z hwf (ht s (List.mem_cons_self ..)) hsT]
    have := ih (T ++ [s]) (fun t h => ht t (List.mem_cons_of_mem _ h)) (by simpa using hnd)
    simpa using this

theorem sinkRows_zero (adj : Adj) (n : Nat) (T : List Nat) : sinkRows adj n 0 T = sinkAdj adj n T := rfl

theorem sinkRows_nil (adj : Adj) (n : Nat) (z : Rat) (h : adj n = []) : sinkRows adj n z [] = adj := by
  funext u
  by_cases hu : u = n
  · subst hu; simp [sinkRows, h]
  · simp [sinkRows, hu]

/-! ### duplicated targets -/

/-- first occurrences, in order: what a Python dict keeps of a sequence of keys -/
def dedupStep (T : List Nat) (s : Nat) : List Nat := if s ∈ T then T else T ++ [s]
def dedupL (l : List Nat) : List Nat := l.foldl dedupStep []

theorem dedup_fold_mem : ∀ (l T : List Nat) (x : Nat), x ∈ l.foldl dedupStep T ↔ x ∈ T ∨ x ∈ l := by
  intro l
  induction l with
  | nil => intro T x; simp
  | cons s l ih =>
    intro T x
    simp only [List.foldl_cons]
    rw [ih]
    unfold dedupStep
    by_cases h : s ∈ T
    · rw [if_pos h]
      simp only [List.mem_cons]
      constructor
      · rintro (h1 | h1)
        · exact Or.inl h1
        · exact Or.inr (Or.inr h1)
      · rintro (h1 | h1 | h1)
        · exact Or.inl h1
        · exact Or.inl (h1 ▸ h)
        · exact Or.inr h1
    · rw [if_neg h]
      simp only [List.mem_append, List.mem_cons, List.not_mem_nil, or_false]
      constructor
      · rintro ((h1 | h1) | h1)
        · exact Or.inl h1
        · exact Or.inr (Or.inl h1)
        · exact Or.inr (Or.inr h1)
      · rintro (h1 | h1 | h1)
        · exact Or.inl (Or.inl h1)
        · exact Or.inl (Or.inr h1)
        · exact Or.inr h1

theorem mem_dedupL (l : List Nat) (x : Nat) : x ∈ dedupL l ↔ x ∈ l := by
  unfold dedupL; rw [dedup_fold_mem]; simp

theorem dedup_fold_nodup : ∀ (l T : List Nat), T.Nodup → (l.foldl dedupStep T).Nodup := by
  intro l
  induction l with
  | nil => intro T h; exact h
  | cons s l ih =>
    intro T h
    simp only [List.foldl_cons]
    apply ih
    unfold dedupStep
    by_cases hs : s ∈ T
    · rw [if_pos hs]; exact h
    · rw [if_neg hs]
      rw [List.nodup_append]
      exact ⟨h, by simp, by intro a ha b hb; simp at hb; subst hb; exact fun e => hs (e ▸ ha)⟩

theorem nodup_dedupL (l : List Nat) : (dedupL l).Nodup := dedup_fold_nodup l [] List.nodup_nil

theorem dedupL_of_nodup : ∀ (l T : List Nat), (T ++ l).Nodup → l.foldl dedupStep T = T ++ l := by
  intro l
  induction l with
  | nil => intro T _; simp
  | cons s l ih =>
    intro T h
    simp only [List.foldl_cons]
    have hs : s ∉ T := by
      intro hs
      exact (List.nodup_append.mp h).2.2 s hs s (List.mem_cons_self ..) rfl
    have e : dedupStep T s = T ++ [s] := by unfold dedupStep; rw [if_neg hs]
    rw [e, ih (T ++ [s]) (by simpa using h)]
    simp

/-- assigning the value a key already has leaves a dict unchanged -/
theorem dset_same {d : List (Nat × Rat)} {k : Nat} {w : Rat} (h1 : ∃ p ∈ d, p.1 = k) (h2 : ∀ p ∈ d, p.1 = k → p = (k, w)) :
    dset d k w = d := by
  unfold dset
  have : d.any (fun p => p.1 == k) = true := by
    rw [List.any_eq_true]
    obtain ⟨p, hp, hk⟩ := h1
    exact ⟨p, hp, by simpa using hk⟩
  rw [this, if_pos rfl]
  have hm : d.map (fun p => if p.1 == k then (k, w) else p) = d.map id := by
    apply List.map_congr_left
    intro p hp
    by_cases hk : p.1 = k
    · simp [hk, h2 p hp hk]
    · simp [hk]
  rw [hm, List.map_id]

theorem upd_id {α : Type} (c : Nat → α) (u : Nat) : upd c u (c u) = c := by
  funext x; unfold upd; split <;> simp_all

/-- a target that is already joined to the sink: both assignments rewrite existing entries with the same value -/
theorem sinkStepW_dup {adj : Adj} {n : Nat} (z : Rat) (hwf : ∀ u, ∀ p ∈ adj u, p.1 < n) {T : List Nat} {s : Nat}
    (hs : s < n) (hsT : s ∈ T) : sinkStepW n z (sinkRows adj n z T) s = sinkRows adj n z T := by
  have hsn : s ≠ n := Nat.ne_of_lt hs
  have e1 : dset (sinkRows adj n z T s) n z = sinkRows adj n z T s := by
    apply dset_same
    · refine ⟨(n, z), ?_, rfl⟩
      simp [sinkRows, hsn, hsT]
    · intro p hp hk
      simp only [sinkRows, if_neg hsn] at hp
      rcases List.mem_append.mp hp with h | h
      · exact absurd hk (Nat.ne_of_lt (hwf s p h))
      · have hc : T.contains s = true := by simpa using hsT
        rw [hc] at h
        simpa using h
  have e2 : dset (sinkRows adj n z T n) s z = sinkRows adj n z T n := by
    apply dset_same
    · refine ⟨(s, z), ?_, rfl⟩
      simp only [sinkRows, if_true]
      exact List.mem_map.mpr ⟨s, hsT, rfl⟩
    · intro p hp hk
      simp only [sinkRows, if_true] at hp
      obtain ⟨t, _, rfl⟩ := List.mem_map.mp hp
      simp only at hk
      rw [hk]
  unfold sinkStepW cset
  rw [e1, upd_id, e2, upd_id]

theorem sink_fold_dups {adj : Adj} {n : Nat} (z : Rat) (hwf : ∀ u, ∀ p ∈ adj u, p.1 < n) : ∀ (rest T : List Nat),
    (∀ t ∈ rest, t < n) → T.Nodup →
    rest.foldl (sinkStepW n z) (sinkRows adj n z T) = sinkRows adj n z (rest.foldl dedupStep T) := by
  intro rest
  induction rest with
  | nil => intro T _ _; rfl
  | cons s rest ih =>
    intro T ht hnd
    simp only [List.foldl_cons]
    have hs := ht s (List.mem_cons_self ..)
    have ht' : ∀ t ∈ rest, t < n := fun t h => ht t (List.mem_cons_of_mem _ h)
    unfold dedupStep
    by_cases hsT : s ∈ T
    · rw [if_pos hsT, sinkStepW_dup z hwf hs hsT]
      exact ih T ht' hnd
    · rw [if_neg hsT, sinkStepW_spec z hwf hs hsT]
      apply ih _ ht'
      rw [List.nodup_append]
      exact ⟨hnd, by simp, by intro a ha b hb; simp at hb; subst hb; exact fun e => hsT (e ▸ ha)⟩

end Mouette.Dijkstra
