import Mouette.Lemmas.VolEdge
/-!
The stable sort by walk keys returns *the* sequence whose keys increase: if the list to be sorted is a
permutation of `L` and the keys strictly increase along `L`, the result is `L`.
-/
namespace Mouette.Vol

/-- the comparison used by `sortByKey` -/
def keyLe (a b : Option Int × Nat) : Bool :=
  match a.1, b.1 with
  | some x, some y => decide (x ≤ y)
  | none, some _ => false
  | _, none => true

theorem sortByKey_eq (l : List Nat) (keys : List (Nat × Int)) :
    Conn.sortByKey l keys = ((l.map fun x => ((keys.reverse).lookup x, x)).mergeSort keyLe).map (·.2) := rfl

theorem keyLe_trans (a b c : Option Int × Nat) : keyLe a b = true → keyLe b c = true → keyLe a c = true := by
  unfold keyLe
  rcases a with ⟨_ | x, a2⟩ <;> rcases b with ⟨_ | y, b2⟩ <;> rcases c with ⟨_ | z, c2⟩ <;> simp
  omega

theorem keyLe_total (a b : Option Int × Nat) : (keyLe a b || keyLe b a) = true := by
  unfold keyLe
  rcases a with ⟨_ | x, a2⟩ <;> rcases b with ⟨_ | y, b2⟩ <;> simp
  omega

theorem inj_of_pairwise_lt {L : List Nat} {κ : Nat → Int} (h : L.Pairwise (fun a b => κ a < κ b)) :
    ∀ x ∈ L, ∀ y ∈ L, κ x = κ y → x = y := by
  induction L with
  | nil => intro x hx; cases hx
  | cons a t ih =>
    rw [List.pairwise_cons] at h
    intro x hx y hy hxy
    rcases List.mem_cons.1 hx with h1 | hx' <;> rcases List.mem_cons.1 hy with h2 | hy'
    · rw [h1, h2]
    · have := h.1 y hy'; rw [h1] at hxy; omega
    · have := h.1 x hx'; rw [h2] at hxy; omega
    · exact ih h.2 x hx' y hy' hxy

theorem sortByKey_eq_of_increasing (l L : List Nat) (keys : List (Nat × Int)) (κ : Nat → Int)
    (hperm : l.Perm L) (hkey : ∀ x ∈ L, (keys.reverse).lookup x = some (κ x))
    (hinc : L.Pairwise (fun a b => κ a < κ b)) : Conn.sortByKey l keys = L := by
  rw [sortByKey_eq]
  let pair : Nat → Option Int × Nat := fun x => ((keys.reverse).lookup x, x)
  have hLpair : ∀ x ∈ L, pair x = (some (κ x), x) := fun x hx => by simp [pair, hkey x hx]
  have hsorted : ((l.map pair).mergeSort keyLe).Pairwise (fun a b => keyLe a b = true) :=
    List.pairwise_mergeSort keyLe_trans keyLe_total _
  have hpermR : ((l.map pair).mergeSort keyLe).Perm (L.map pair) :=
    (List.mergeSort_perm _ _).trans (hperm.map pair)
  have hLsorted : (L.map pair).Pairwise (fun a b => keyLe a b = true) := by
    rw [List.pairwise_map]
    refine hinc.imp_of_mem ?_
    intro a b ha hb hab
    rw [hLpair a ha, hLpair b hb]
    simp [keyLe]; omega
  have hinj := inj_of_pairwise_lt hinc
  have hanti : ∀ a b, a ∈ (l.map pair).mergeSort keyLe → b ∈ L.map pair → keyLe a b = true → keyLe b a = true → a = b := by
    intro a b ha hb hab hba
    have ha' : a ∈ L.map pair := hpermR.mem_iff.1 ha
    obtain ⟨x, hx, rfl⟩ := List.mem_map.1 ha'
    obtain ⟨y, hy, rfl⟩ := List.mem_map.1 hb
    rw [hLpair x hx, hLpair y hy] at hab hba ⊢
    simp [keyLe] at hab hba
    have : x = y := hinj x hx y hy (by omega)
    subst this; rfl
  have heq : (l.map pair).mergeSort keyLe = L.map pair :=
    List.Perm.eq_of_pairwise hanti hsorted hLsorted hpermR
  rw [heq]
  exact map_snd_map_pair _ L

end Mouette.Vol

namespace Mouette.Vol

/-- variant with an explicit list of (element, key) pairs -/
theorem sortByKey_eq_of_pairs (l : List Nat) (keys LK : List (Nat × Int))
    (hperm : l.Perm (LK.map (·.1))) (hkey : ∀ p ∈ LK, (keys.reverse).lookup p.1 = some p.2)
    (hinc : (LK.map (·.2)).Pairwise (· < ·)) : Conn.sortByKey l keys = LK.map (·.1) := by
  apply sortByKey_eq_of_increasing l _ keys (fun x => ((keys.reverse).lookup x).getD 0) hperm
  · intro x hx
    obtain ⟨p, hp, rfl⟩ := List.mem_map.1 hx
    simp [hkey p hp]
  · rw [List.pairwise_map] at hinc ⊢
    refine hinc.imp_of_mem ?_
    intro p q hp hq hpq
    simp [hkey p hp, hkey q hq, hpq]

theorem lookup_of_mem_nodup {al : List (Nat × Int)} (hn : (al.map (·.1)).Nodup) {x : Nat} {v : Int}
    (hm : (x, v) ∈ al) : al.lookup x = some v := by
  induction al with
  | nil => cases hm
  | cons p t ih =>
    rw [List.map_cons, List.nodup_cons] at hn
    rcases List.mem_cons.1 hm with h | h
    · subst h; simp [List.lookup]
    · have hne : x ≠ p.1 := by
        intro heq
        exact hn.1 (heq ▸ List.mem_map.2 ⟨(x, v), h, rfl⟩)
      rw [List.lookup_cons]
      have : (x == p.1) = false := by simpa using hne
      simp [this, ih hn.2 h]

theorem map_fst_enumFrom1 (l : List Nat) (s : Int) : (Conn.enumFrom1 l s).map (·.1) = l := by
  unfold Conn.enumFrom1
  rw [List.map_map]
  have : ((fun (p : Nat × Int) => p.1) ∘ fun (p : Nat × Nat) => (p.1, s * ((p.2 : Int) + 1))) = (·.1) := rfl
  rw [this]
  simp

theorem enumFrom1_snd_getElem (l : List Nat) (s : Int) (i : Nat) (h : i < ((Conn.enumFrom1 l s).map (·.2)).length) :
    ((Conn.enumFrom1 l s).map (·.2))[i] = s * ((i : Int) + 1) := by
  unfold Conn.enumFrom1
  simp

theorem enumFrom1_pos_pairwise (l : List Nat) : ((Conn.enumFrom1 l 1).map (·.2)).Pairwise (· < ·) := by
  rw [List.pairwise_iff_getElem]
  intro i j hi hj hij
  rw [enumFrom1_snd_getElem, enumFrom1_snd_getElem]; omega

theorem enumFrom1_neg_pairwise (l : List Nat) : ((Conn.enumFrom1 l (-1)).map (·.2)).Pairwise (fun a b => b < a) := by
  rw [List.pairwise_iff_getElem]
  intro i j hi hj hij
  rw [enumFrom1_snd_getElem, enumFrom1_snd_getElem]; omega

theorem enumFrom1_pos_mem {l : List Nat} {v : Int} (h : v ∈ (Conn.enumFrom1 l 1).map (·.2)) : 0 < v := by
  obtain ⟨i, hi, rfl⟩ := List.mem_iff_getElem.1 h
  rw [enumFrom1_snd_getElem]; omega

theorem enumFrom1_neg_mem {l : List Nat} {v : Int} (h : v ∈ (Conn.enumFrom1 l (-1)).map (·.2)) : v < 0 := by
  obtain ⟨i, hi, rfl⟩ := List.mem_iff_getElem.1 h
  rw [enumFrom1_snd_getElem]; omega

/-- the cell keys of `_sort_edge_neighborhoods` put the backward walk (reversed), the start cell and the forward
walk in this order -/
theorem sortByKey_cells (l : List Nat) (c0 : Nat) (cs1 cs2 : List Nat)
    (hperm : l.Perm (cs2.reverse ++ c0 :: cs1)) (hnd : (c0 :: cs1 ++ cs2).Nodup) :
    Conn.sortByKey l ((c0, (0 : Int)) :: Conn.enumFrom1 cs1 1 ++ Conn.enumFrom1 cs2 (-1)) = cs2.reverse ++ c0 :: cs1 := by
  let LK : List (Nat × Int) := (Conn.enumFrom1 cs2 (-1)).reverse ++ (c0, 0) :: Conn.enumFrom1 cs1 1
  have hfst : LK.map (·.1) = cs2.reverse ++ c0 :: cs1 := by
    simp only [LK, List.map_append, List.map_reverse, List.map_cons, map_fst_enumFrom1]
  rw [← hfst]
  apply sortByKey_eq_of_pairs
  · rw [hfst]; exact hperm
  · intro p hp
    rcases p with ⟨x, v⟩
    apply lookup_of_mem_nodup
    · rw [List.map_reverse, List.nodup_reverse]
      simp only [List.map_cons, List.map_append, map_fst_enumFrom1]
      exact hnd
    · rw [List.mem_reverse]
      simp only [LK, List.mem_append, List.mem_reverse, List.mem_cons] at hp
      simp only [List.cons_append, List.mem_cons, List.mem_append]
      rcases hp with h | h | h
      · exact Or.inr (Or.inr h)
      · exact Or.inl h
      · exact Or.inr (Or.inl h)
  · simp only [LK, List.map_append, List.map_reverse, List.map_cons]
    rw [List.pairwise_append]
    refine ⟨?_, ?_, ?_⟩
    · rw [List.pairwise_reverse]; exact enumFrom1_neg_pairwise cs2
    · rw [List.pairwise_cons]
      exact ⟨fun v hv => enumFrom1_pos_mem hv, enumFrom1_pos_pairwise cs1⟩
    · intro a ha b hb
      rw [List.mem_reverse] at ha
      have ha' := enumFrom1_neg_mem ha
      rcases List.mem_cons.1 hb with rfl | hb
      · exact ha'
      · have := enumFrom1_pos_mem hb; omega

end Mouette.Vol

namespace Mouette.Vol

/-- **rotational order of `edge_to_cell`**: if the two walks around the edge `e = (A,B)` reach every cell around
`e` (edge-umbrella hypothesis `hcover`), the sorted `_adjE2C[e]` is: the backward walk reversed, the start cell, the
forward walk — two `WalkChain`s, i.e. consecutive cells lie on either side of a stored face containing `A` and `B`. -/
theorem sortEdge_cells_order (k : Conn) {e A B c0 p1 p2 : Nat} {rest cs1 fs1 cs2 fs2 : List Nat}
    (hedge : k.m.edge e = [A, B]) (hraw : k.e2cRaw e = c0 :: rest)
    (hpiv : (k.m.cell c0).filter (fun x => x != A && x != B) = [p1, p2])
    (hw1 : k.walk A B (k.m.nC + 1) c0 p1 [c0] = some (cs1, fs1))
    (hw2 : k.walk A B (k.m.nC + 1) c0 p2 (cs1.reverse ++ [c0]) = some (cs2, fs2))
    (hcover : (k.e2cRaw e).Perm (cs2.reverse ++ c0 :: cs1)) :
    (∃ fs, k.sortEdge e = some (cs2.reverse ++ c0 :: cs1, fs))
    ∧ WalkChain k A B c0 cs1 fs1 ∧ WalkChain k A B c0 cs2 fs2 ∧ (c0 :: cs1 ++ cs2).Nodup := by
  obtain ⟨hch1, hnew1, hnd1, _⟩ := walk_chain k A B _ _ _ _ _ _ hw1
  obtain ⟨hch2, hnew2, hnd2, _⟩ := walk_chain k A B _ _ _ _ _ _ hw2
  have hnd : (c0 :: cs1 ++ cs2).Nodup := by
    rw [List.cons_append, List.nodup_cons, List.nodup_append]
    refine ⟨?_, hnd1, hnd2, ?_⟩
    · intro hmem
      rcases List.mem_append.1 hmem with h | h
      · exact hnew1 c0 h (by simp)
      · exact hnew2 c0 h (by simp)
    · intro a ha b hb hab
      subst hab
      exact hnew2 a hb (by simp [ha])
  refine ⟨?_, hch1, hch2, hnd⟩
  have hsort := sortByKey_cells (k.e2cRaw e) c0 cs1 cs2 hcover hnd
  refine ⟨Conn.sortByKey (k.e2f.getD e []) (Conn.enumFrom1 fs1 1 ++ Conn.enumFrom1 fs2 (-1)), ?_⟩
  rw [← hsort]
  unfold Conn.sortEdge
  rw [hedge]
  simp only [hraw, hpiv, hw1, hw2]

end Mouette.Vol
