import Mouette.Model.VolSource
import Mouette.Lemmas.VolBuckets
/-!
Generic lemmas about the source vocabulary `Mouette.VolS` (folds over dictionaries, association lists, flags),
used by the bridges of `Props/C03Source.lean`. Core Lean only.
-/
namespace Mouette.VolS
open Mouette.Vol

/-- a projection of the loop state that evolves on its own can be folded on its own -/
theorem foldl_proj {σ τ α : Type} (π : σ → τ) (f : σ → α → σ) (g : τ → α → τ) (l : List α)
    (h : ∀ s, ∀ a ∈ l, π (f s a) = g (π s) a) (s : σ) : π (l.foldl f s) = l.foldl g (π s) := by
  induction l generalizing s with
  | nil => rfl
  | cons a r ih =>
    simp only [List.foldl]
    rw [ih (fun s b hb => h s b (List.mem_cons_of_mem _ hb)), h s a (List.mem_cons_self)]

/-- a projection that no step changes is unchanged by the loop -/
theorem foldl_inv {σ τ α : Type} (π : σ → τ) (f : σ → α → σ) (l : List α)
    (h : ∀ s, ∀ a ∈ l, π (f s a) = π s) (s : σ) : π (l.foldl f s) = π s := by
  induction l generalizing s with
  | nil => rfl
  | cons a r ih =>
    simp only [List.foldl]
    rw [ih (fun s b hb => h s b (List.mem_cons_of_mem _ hb)), h s a (List.mem_cons_self)]

theorem foldl_congr_mem {σ α : Type} (f g : σ → α → σ) (l : List α) (h : ∀ s, ∀ a ∈ l, f s a = g s a) (s : σ) :
    l.foldl f s = l.foldl g s := by
  induction l generalizing s with
  | nil => rfl
  | cons a r ih =>
    simp only [List.foldl]
    rw [h s a List.mem_cons_self, ih (fun s b hb => h s b (List.mem_cons_of_mem _ hb))]

/-- `for k in range(n): d[k] = f(d[k])` -/
theorem foldl_range_modify_getElem? {α : Type} (f : α → α) (n : Nat) (d : List α) (j : Nat) :
    ((List.range n).foldl (fun d k => d.modify k f) d)[j]? = (d[j]?).map (fun a => if j < n then f a else a) := by
  induction n with
  | zero => cases h : d[j]? <;> simp [h]
  | succ n ih =>
    rw [List.range_succ, List.foldl_append]
    simp only [List.foldl]
    rw [List.getElem?_modify, ih]
    cases hd : d[j]? with
    | none => simp
    | some a =>
      by_cases h1 : n = j
      · subst h1; simp
      · by_cases h2 : j < n
        · have : j < n + 1 := by omega
          simp [h1, h2, this]
        · have : ¬ j < n + 1 := by omega
          simp [h1, h2, this]

/-- `for k in range(n): d[k] = list(d[k])` (set values), observed at key `k` -/
theorem dGet_foldl_dListOfSet (n : Nat) (d : Dict) (k : Nat) :
    dGet ((List.range n).foldl (fun d k => dListOfSet d k) d) k = if k < n then (dGet d k).eraseDups else dGet d k := by
  unfold dGet dListOfSet
  rw [List.getD_eq_getElem?_getD, foldl_range_modify_getElem?, List.getD_eq_getElem?_getD]
  cases hd : d[k]? with
  | none => simp
  | some a => by_cases h : k < n <;> simp [h]

/-- appends under keys, in program order, are the hand model's `buckets` -/
theorem foldl_dAppend_eq_buckets (n : Nat) (kvs : List (Nat × Nat)) :
    kvs.foldl (fun d kv => dAppend d kv.1 kv.2) (dictOfLists n) = buckets n kvs := rfl

/-- `d[k] |= vs` for every `(k, vs)`, at key `j` : the concatenation of the `vs` stored under `j`, in program order -/
theorem foldl_dUnion_getElem? (kvs : List (Nat × List Nat)) (d : Dict) (j : Nat) :
    (kvs.foldl (fun d kv => dUnion d kv.1 kv.2) d)[j]? =
      (d[j]?).map (fun l => l ++ (kvs.filter (fun kv => kv.1 == j)).flatMap (·.2)) := by
  induction kvs generalizing d with
  | nil => cases h : d[j]? <;> simp [h]
  | cons kv r ih =>
    simp only [List.foldl]
    rw [ih]
    unfold dUnion
    rw [List.getElem?_modify]
    cases hd : d[j]? with
    | none => simp
    | some l =>
      by_cases h : kv.1 = j
      · simp [h]
      · simp [h]

/-! ### association lists (later stores win) -/

theorem aGet_aSet {κ : Type} [BEq κ] [LawfulBEq κ] (a : AMap κ) (k k' : κ) (v : Nat) :
    aGet (aSet a k v) k' = if k' == k then some v else aGet a k' := by
  unfold aGet aSet
  rw [List.reverse_append]
  simp [List.lookup]
  cases h : k' == k <;> simp

theorem aGet_nil {κ : Type} [BEq κ] (k : κ) : aGet ([] : AMap κ) k = none := rfl

/-- `for x in l: if x != c: a[k] = x` -/
theorem aGet_foldl_store {κ : Type} [BEq κ] [LawfulBEq κ] (k : κ) (c : Nat) (l : List Nat) (a : AMap κ) (k' : κ) :
    aGet (l.foldl (fun a x => if (x != c) = true then aSet a k x else a) a) k'
      = if k' == k then ((l.filter (· != c)).getLast?).or (aGet a k') else aGet a k' := by
  induction l generalizing a with
  | nil => cases h : k' == k <;> simp
  | cons x r ih =>
    simp only [List.foldl]
    rw [ih]
    by_cases hx : (x != c) = true
    · simp only [hx, if_true, aGet_aSet]
      cases h : k' == k with
      | false => simp
      | true =>
        simp only [if_true, List.filter_cons, hx]
        cases hr : (r.filter (· != c)).getLast? with
        | none =>
          have : r.filter (· != c) = [] := by simpa using hr
          simp [this]
        | some y =>
          have hne : r.filter (· != c) ≠ [] := by intro h0; rw [h0] at hr; cases hr
          rw [List.getLast?_cons_of_ne_nil hne] <;> simp [hr]
    · simp only [hx]
      cases h : k' == k with
      | false => simp
      | true => simp [List.filter_cons, hx]

/-! ### partition of `range(n)` by a predicate -/

theorem filter_append_singleton {α : Type} (p : α → Bool) (l : List α) (x : α) :
    (l ++ [x]).filter p = if p x then l.filter p ++ [x] else l.filter p := by
  rw [List.filter_append]; cases h : p x <;> simp [h]

end Mouette.VolS
