import Mouette.Model.VolSource
import Mouette.Lemmas.VolBuckets
/-!
Generic lemmas about the source vocabulary `Mouette.VolS` (folds over dictionaries, association lists, flags),
used by the bridges of `Props/C03Source.lean`. Core Lean only.
-/
namespace Mouette.VolS
open Mouette.Vol

/-- a projection of the loop state that evolves on its own can be folded on its own -/
theorem foldl_proj {σ τ α : Type} (π : σ → τ) (f : σ → α → σ) (g : τ → α → τ) (l : List α)
    (h : ∀ s, ∀ a ∈ l, π (f s a) = g (π s) a) (s : σ) : π (l.foldl f s) = l.foldl g (π s) := by
  induction l generalizing s with
  | nil => rfl
  | cons a r ih =>
    simp only [List.foldl]
    rw [ih (fun s b hb => h s b (List.mem_cons_of_mem _ hb)), h s a (List.mem_cons_self)]

/-- a projection that no step changes is unchanged by the loop -/
theorem foldl_inv {σ τ α : Type} (π : σ → τ) (f : σ → α → σ) (l : List α)
    (h : ∀ s, ∀ a ∈ l, π (f s a) = π s) (s : σ) : π (l.foldl f s) = π s := by
  induction l generalizing s with
  | nil => rfl
  | cons a r ih =>
    simp only [List.foldl]
    rw [ih (fun s b hb => h s b (List.mem_cons_of_mem _ hb)), h s a (List.mem_cons_self)]

theorem foldl_congr_mem {σ α : Type} (f g : σ → α → σ) (l : List α) (h : ∀ s, ∀ a ∈ l, f s a = g s a) (s : σ) :
    l.foldl f s = l.foldl g s := by
  induction l generalizing s with
  | nil => rfl
  | cons a r ih =>
    simp only [List.foldl]
    rw [h s a List.mem_cons_self, ih (fun s b hb => h s b (List.mem_cons_of_mem _ hb))]

/-- `for k in range(n): d[k] = f(d[k])` -/
theorem foldl_range_modify_getElem? {α : Type} (f : α → α) (n : Nat) (d : List α) (j : Nat) :
    ((List.range n).foldl (fun d k => d.modify k f) d)[j]? = (d[j]?).map (fun a => if j < n then f a else a) := by
  induction n with
  | zero => cases h : d[j]? <;> simp [h]
  | succ n ih =>
    rw [List.range_succ, List.foldl_append]
    simp only [List.foldl]
    rw [List.getElem?_modify, ih]
    cases hd : d[j]? with
    | none => simp
    | some a =>
      by_cases h1 : n = j
      · subst h1; simp
      · by_cases h2 : j < n
        · have : j < n + 1 := by omega
          simp [h1, h2, this]
        · have : ¬ j < n + 1 := by omega
          simp [h1, h2, this]

/-- `for k in range(n): d[k] = list(d[k])` (set values), observed at key `k` -/
theorem dGet_foldl_dListOfSet (n : Nat) (d : Dict) (k : Nat) :
    dGet ((List.range n).foldl (fun d k => dListOfSet d k) d) k = if k < n then (dGet d k).eraseDups else dGet d k := by
  unfold dGet dListOfSet
  rw [List.getD_eq_getElem?_getD, foldl_range_modify_getElem?, List.getD_eq_getElem?_getD]
  cases hd : d[k]? with
  | none => simp
  | some a => by_cases h : k < n <;> simp [h]

/-- appends under keys, in program order, are the hand model's `buckets` -/
theorem foldl_dAppend_eq_buckets (n : Nat) (kvs : List (Nat × Nat)) :
    kvs.foldl (fun d kv => dAppend d kv.1 kv.2) (dictOfLists n) = buckets n kvs := rfl

/-- `d[k] |= vs` for every `(k, vs)`, at key `j` : the concatenation of the `vs` stored under `j`, in program order -/
theorem foldl_dUnion_getElem? (kvs : List (Nat × List Nat)) (d : Dict) (j : Nat) :
    (kvs.foldl (fun d kv => dUnion d kv.1 kv.2) d)[j]? =
      (d[j]?).map (fun l => l ++ (kvs.filter (fun kv => kv.1 == j)).flatMap (·.2)) := by
  induction kvs generalizing d with
  | nil => cases h : d[j]? <;> simp [h]
  | cons kv r ih =>
    simp only [List.foldl]
    rw [ih]
    unfold dUnion
    rw [List.getElem?_modify]
    cases hd : d[j]? with
    | none => simp
    | some l =>
      by_cases h : kv.1 = j
      · simp [h]
      · simp [h]

/-! ### association lists (later stores win) -/

theorem aGet_aSet {κ : Type} [BEq κ] [LawfulBEq κ] (a : AMap κ) (k k' : κ) (v : Nat) :
    aGet (aSet a k v) k' = if k' == k then some v else aGet a k' := by
  unfold aGet aSet
  rw [List.reverse_append]
  simp [List.lookup]
  cases h : k' == k <;> simp

theorem aGet_nil {κ : Type} [BEq κ] (k : κ) : aGet ([] : AMap κ) k = none := rfl

/-- `for x in l: if x != c: a[k] = x` -/
theorem aGet_foldl_store {κ : Type} [BEq κ] [LawfulBEq κ] (k : κ) (c : Nat) (l : List Nat) (a : AMap κ) (k' : κ) :
    aGet (l.foldl (fun a x => if (x != c) = true then aSet a k x else a) a) k'
      = if k' == k then ((l.filter (· != c)).getLast?).or (aGet a k') else aGet a k' := by
  induction l generalizing a with
  | nil => cases h : k' == k <;> simp
  | cons x r ih =>
    simp only [List.foldl]
    rw [ih]
    by_cases hx : (x != c) = true
    · simp only [hx, if_true, aGet_aSet]
      cases h : k' == k with
      | false => simp
      | true =>
        simp only [if_true, List.filter_cons, hx]
        cases hr : (r.filter (· != c)).getLast? with
        | none =>
          have : r.filter (· != c) = [] := by simpa using hr
          simp [this]
        | some y =>
          have hne : r.filter (· != c) ≠ [] := by intro h0; rw [h0] at hr; cases hr
          rw [List.getLast?_cons_of_ne_nil hne] <;> simp [hr]
    · simp only [hx]
      cases h : k' == k with
      | false => simp
      | true => simp [List.filter_cons, hx]

/-! ### partition of `range(n)` by a predicate -/

theorem filter_append_singleton {α : Type} (p : α → Bool) (l : List α) (x : α) :
    (l ++ [x]).filter p = if p x then l.filter p ++ [x] else l.filter p := by
  rw [List.filter_append]; cases h : p x <;> simp [h]

/-! ### round 5: `enumerate` loops building index maps -/

/-- a loop over `enumerate(l)` that ignores the index -/
theorem foldl_zipIdx_fst {σ : Type} (h : σ → Nat → σ) (l : List Nat) (n : Nat) (init : σ) :
    (l.zipIdx n).foldl (fun acc p => h acc p.1) init = l.foldl h init := by
  induction l generalizing n init with
  | nil => rfl
  | cons x r ih => simp only [List.zipIdx_cons, List.foldl]; exact ih _ _

/-- `for i, v in enumerate(l): m2b[v] = i` on a duplicate-free `l` -/
theorem aGet_foldl_zipIdx_m2b (l : List Nat) (hn : l.Nodup) (n : Nat) (a : AMap Nat) (v : Nat) :
    aGet ((l.zipIdx n).foldl (fun a p => aSet a p.1 p.2) a) v = if v ∈ l then some (n + l.idxOf v) else aGet a v := by
  induction l generalizing n a with
  | nil => simp
  | cons x r ih =>
    simp only [List.zipIdx_cons, List.foldl]
    rw [ih (List.nodup_cons.1 hn).2, aGet_aSet]
    have hx : x ∉ r := (List.nodup_cons.1 hn).1
    by_cases hv : v = x
    · subst hv
      simp [hx]
    · by_cases hr : v ∈ r
      · have hxv : (x == v) = false := by simp; exact fun h => hv h.symm
        simp only [hr, List.mem_cons, or_true, if_true, List.idxOf_cons, hxv, cond_false]
        congr 1; omega
      · simp [hr, hv]

/-- `for i, v in enumerate(l): b2m[i] = v` -/
theorem aGet_foldl_zipIdx_b2m (l : List Nat) (n : Nat) (a : AMap Nat) (i : Nat) :
    aGet ((l.zipIdx n).foldl (fun a p => aSet a p.2 p.1) a) i
      = if n ≤ i ∧ i < n + l.length then l[i - n]? else aGet a i := by
  induction l generalizing n a with
  | nil => simp; intro h; omega
  | cons x r ih =>
    simp only [List.zipIdx_cons, List.foldl]
    rw [ih, aGet_aSet]
    by_cases h1 : n + 1 ≤ i ∧ i < n + 1 + r.length
    · have h2 : n ≤ i ∧ i < n + (x :: r).length := by simp; omega
      simp only [h1, h2, and_self, if_true]
      have : i - n = (i - (n + 1)) + 1 := by omega
      rw [this, List.getElem?_cons_succ]
    · simp only [h1, if_false]
      by_cases hi : i = n
      · subst hi; simp
      · have h2 : ¬ (n ≤ i ∧ i < n + (x :: r).length) := by simp; omega
        have : (i == n) = false := by simp [hi]
        rw [if_neg h2]; simp [this]

/-- a loop that appends one value per element, computed from the element and a part of the state it does not write -/
theorem foldl_append_reading {σ τ β : Type} (getF : σ → List β) (getT : σ → τ) (f : σ → Nat → σ) (val : τ → Nat → β)
    (l : List Nat) (hT : ∀ s x, getT (f s x) = getT s) (hF : ∀ s x, getF (f s x) = getF s ++ [val (getT s) x]) (s : σ) :
    getF (l.foldl f s) = getF s ++ l.map (val (getT s)) := by
  induction l generalizing s with
  | nil => simp
  | cons a r ih => simp only [List.foldl, List.map]; rw [ih, hF, hT]; simp

/-- a loop whose step updates one part of the state from its element and a part it does not write -/
theorem foldl_proj_reading {σ τ φ α : Type} (getF : σ → φ) (getT : σ → τ) (f : σ → α → σ) (g : τ → φ → α → φ)
    (l : List α) (hT : ∀ s x, getT (f s x) = getT s) (hF : ∀ s x, getF (f s x) = g (getT s) (getF s) x) (s : σ) :
    getF (l.foldl f s) = l.foldl (g (getT s)) (getF s) := by
  induction l generalizing s with
  | nil => rfl
  | cons a r ih => simp only [List.foldl]; rw [ih, hF, hT]

/-- `for i, x in enumerate(l): l[i] = val(x)` (each entry replaced in place while the list is enumerated) -/
theorem foldl_listSet_zipIdx (val : List Nat → List Nat) (l pre : List (List Nat)) :
    (l.zipIdx pre.length).foldl (fun acc p => listSet acc p.2 (val p.1)) (pre ++ l) = pre ++ l.map val := by
  induction l generalizing pre with
  | nil => simp
  | cons x r ih =>
    simp only [List.zipIdx_cons, List.foldl, List.map]
    have h1 : listSet (pre ++ x :: r) pre.length (val x) = (pre ++ [val x]) ++ r := by
      unfold listSet
      rw [List.set_append_right _ _ (Nat.le_refl _)]
      simp
    rw [h1]
    have := ih (pre ++ [val x])
    simp only [List.length_append, List.length_singleton] at this
    rw [this]; simp

end Mouette.VolS
