import Mouette.Lemmas.VolLazyInv
/-!
`clear()` brings a used connectivity object back to the state of a fresh one: whatever was queried before,
the queries that follow behave exactly as on a freshly constructed object.
-/
namespace Mouette.VolLazy
namespace Table
variable (t : Table)

/-- state reached after a history of public queries -/
def finalState (s : State) : List Nat → State
  | [] => s
  | q :: qs => finalState (t.stepQ s q).1 qs

/-- on every reachable state, query `c` (meant: `clear`) leads to the state right after the constructor -/
def clearResets (c : Nat) : Bool := t.reach.all fun s => (t.stepQ s c).1 == t.fresh.1

theorem finalState_mem_of_closed {R : List State} (hR : t.closedUnder R = true) :
    ∀ (qs : List Nat) (s : State), s ∈ R → (∀ q ∈ qs, q ∈ t.alphabet) → t.finalState s qs ∈ R := by
  intro qs
  induction qs with
  | nil => intro s hs _; exact hs
  | cons q qs ih =>
    intro s hs hq
    exact ih _ (t.closedUnder_step hR hs (hq q (by simp))).2 (fun q' hq' => hq q' (by simp [hq']))

theorem finalState_append (s : State) (qs qs' : List Nat) :
    t.finalState s (qs ++ qs') = t.finalState (t.finalState s qs) qs' := by
  induction qs generalizing s with
  | nil => rfl
  | cons q qs ih => simp [finalState, ih]

/-- after ANY history followed by `clear`, the object is in the fresh state -/
theorem finalState_clear (h : t.wellGuarded = true) {c : Nat} (hc : t.clearResets c = true)
    (qs : List Nat) (hq : ∀ q ∈ qs, q ∈ t.alphabet) : t.finalState t.fresh.1 (qs ++ [c]) = t.fresh.1 := by
  unfold wellGuarded at h
  simp only [Bool.and_eq_true, beq_iff_eq] at h
  obtain ⟨⟨_, h2⟩, h3⟩ := h
  have hmem := t.finalState_mem_of_closed h3 qs _ (by simpa using h2) hq
  rw [finalState_append]
  unfold clearResets at hc
  rw [List.all_eq_true] at hc
  simpa [finalState] using hc _ hmem

/-- hence the queries made after `clear` behave as the same queries on a fresh object -/
theorem run_after_clear (h : t.wellGuarded = true) {c : Nat} (hc : t.clearResets c = true)
    (qs qs' : List Nat) (hq : ∀ q ∈ qs, q ∈ t.alphabet) :
    t.run (t.finalState t.fresh.1 (qs ++ [c])) qs' = t.run t.fresh.1 qs' := by
  rw [t.finalState_clear h hc qs hq]

end Table

end Mouette.VolLazy
