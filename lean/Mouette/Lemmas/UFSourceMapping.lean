import Mouette.Lemmas.UFSourceComps
/-!
Helper lemmas for the translated `component_mapping()` (core Lean only): the grouping loop
`by_root.setdefault(find(e), set()).add(e)` as a pure fold with its closed form, and the second loop
`comps.update({x: comp for x in comp})` over `by_root.values()`.
-/
namespace Mouette.UFS
open Mouette.UF

/-! ### sets -/

theorem foldl_setAdd_of_nodup : ∀ (l v : List Nat), (v ++ l).Nodup → l.foldl setAdd v = v ++ l := by
  intro l
  induction l with
  | nil => intro v _; simp
  | cons e l ih =>
    intro v h
    have he : e ∉ v := by
      intro hv
      rw [List.nodup_append] at h
      exact h.2.2 e hv e (List.mem_cons_self ..) rfl
    have h1 : setAdd v e = v ++ [e] := by
      unfold setAdd
      have : v.contains e = false := by simpa using he
      rw [this]; rfl
    rw [List.foldl_cons, h1, ih (v ++ [e]) (by simpa [List.append_assoc] using h)]
    simp [List.append_assoc]

/-! ### the grouping loop -/

/-- one iteration of the first loop of `component_mapping()`, without the state: `e` joins the set kept under its class -/
def grpStep (cls : Nat → Nat) (d : DictS) (e : Nat) : DictS := dsAdd d (cls e) e

theorem grpFold_cons (cls : Nat → Nat) (r : Nat) : ∀ (l : List Nat) (v : List Nat) (d : DictS),
    l.foldl (grpStep cls) ((r, v) :: d)
      = (r, (l.filter (fun e => decide (cls e = r))).foldl setAdd v)
        :: (l.filter (fun e => !(cls e == r))).foldl (grpStep cls) d := by
  intro l
  induction l with
  | nil => intro v d; rfl
  | cons e l ih =>
    intro v d
    rw [List.foldl_cons]
    by_cases h : cls e = r
    · have h1 : grpStep cls ((r, v) :: d) e = (r, setAdd v e) :: d := by
        simp [grpStep, dsAdd, h]
      rw [h1, ih]
      simp [List.filter_cons, h]
    · have hr : ¬ r = cls e := fun e' => h e'.symm
      have h1 : grpStep cls ((r, v) :: d) e = (r, v) :: grpStep cls d e := by
        simp [grpStep, dsAdd, hr]
      rw [h1, ih]
      simp [List.filter_cons, h]

/-- closed form of the grouping loop: one entry per distinct class, in order of first occurrence, holding the members of
that class in the order of the list -/
theorem grpFold_spec (cls : Nat → Nat) : ∀ (n : Nat) (l : List Nat), l.length ≤ n → l.Nodup →
    l.foldl (grpStep cls) []
      = (l.map cls).eraseDups.map (fun r => (r, l.filter (fun e => decide (cls e = r)))) := by
  intro n
  induction n with
  | zero =>
    intro l hl _
    have : l = [] := List.eq_nil_of_length_eq_zero (by omega)
    subst this; simp
  | succ n ih =>
    intro l hl hn
    cases l with
    | nil => simp
    | cons e l =>
      rw [List.nodup_cons] at hn
      have h0 : grpStep cls [] e = [(cls e, [e])] := rfl
      rw [List.foldl_cons, h0, grpFold_cons]
      have hlen : (l.filter (fun x => !(cls x == cls e))).length ≤ n := by
        have := List.length_filter_le (fun x => !(cls x == cls e)) l
        simp at hl; omega
      rw [ih _ hlen (hn.2.sublist List.filter_sublist)]
      have hnd : ([e] ++ l.filter (fun x => decide (cls x = cls e))).Nodup := by
        rw [List.singleton_append, List.nodup_cons]
        exact ⟨fun hm => hn.1 (List.mem_filter.mp hm).1, hn.2.sublist List.filter_sublist⟩
      rw [foldl_setAdd_of_nodup _ _ hnd, List.map_cons, List.eraseDups_cons, List.map_cons]
      congr 1
      · simp [List.filter_cons]
      · have hm : (l.filter (fun x => !(cls x == cls e))).map cls
            = (l.map cls).filter (fun b => !(b == cls e)) := by
          rw [List.filter_map]; rfl
        rw [hm]
        apply List.map_congr_left
        intro r' hr'
        rw [List.mem_eraseDups, List.mem_filter] at hr'
        have hne : r' ≠ cls e := by simpa using hr'.2
        have hne' : ¬ cls e = r' := fun e' => hne e'.symm
        congr 1
        rw [List.filter_filter, List.filter_cons]
        simp only [hne', decide_false, Bool.false_eq_true, if_false]
        apply List.filter_congr
        intro x _
        by_cases hx : cls x = r'
        · simp [hx, hne]
        · simp [hx]

/-! ### the second loop -/

theorem dsSet_append : ∀ (d : DictS) (k : Nat) (v : List Nat), k ∉ d.map Prod.fst → dsSet d k v = d ++ [(k, v)] := by
  intro d
  induction d with
  | nil => intro k v _; rfl
  | cons p d ih =>
    intro k v h
    obtain ⟨k', v'⟩ := p
    have h1 : ¬ k' = k := fun e => h (by simp [e])
    have h2 : k ∉ d.map Prod.fst := fun hm => h (by simp at hm ⊢; exact Or.inr hm)
    simp [dsSet, h1, ih k v h2]

theorem dsUpdate_append : ∀ (ps : List (Nat × List Nat)) (d : DictS), (ps.map Prod.fst).Nodup →
    (∀ p, p ∈ ps → p.1 ∉ d.map Prod.fst) → dsUpdate d ps = d ++ ps := by
  intro ps
  induction ps with
  | nil => intro d _ _; simp [dsUpdate]
  | cons p ps ih =>
    intro d hn hd
    rw [List.map_cons, List.nodup_cons] at hn
    have h1 := dsSet_append d p.1 p.2 (hd p (List.mem_cons_self ..))
    have : dsUpdate d (p :: ps) = dsUpdate (dsSet d p.1 p.2) ps := rfl
    rw [this, h1, ih (d ++ [(p.1, p.2)]) hn.2]
    · simp [List.append_assoc]
    · intro q hq hm
      rw [List.map_append, List.mem_append] at hm
      rcases hm with hm | hm
      · exact hd q (List.mem_cons_of_mem _ hq) hm
      · simp at hm
        exact hn.1 (List.mem_map.mpr ⟨q, hq, hm⟩)

/-- the step of the second loop: every member of the set is mapped to the (shared) set -/
def mapStep (c : DictS) (comp : List Nat) : DictS := dsUpdate c (comp.map (fun x => (x, comp)))

theorem mapFold_spec (cls : Nat → Nat) {l : List Nat} (hl : l.Nodup) : ∀ (K : List Nat) (c : DictS), K.Nodup →
    (∀ p, p ∈ c → cls p.1 ∉ K) →
    (K.map (fun r => l.filter (fun e => decide (cls e = r)))).foldl mapStep c
      = c ++ K.flatMap (fun r => (l.filter (fun e => decide (cls e = r))).map
          (fun x => (x, l.filter (fun e => decide (cls e = r))))) := by
  intro K
  induction K with
  | nil => intro c _ _; simp
  | cons r K ih =>
    intro c hK hc
    rw [List.nodup_cons] at hK
    rw [List.map_cons, List.foldl_cons]
    have hstep : mapStep c (l.filter (fun e => decide (cls e = r)))
        = c ++ (l.filter (fun e => decide (cls e = r))).map (fun x => (x, l.filter (fun e => decide (cls e = r)))) := by
      unfold mapStep
      apply dsUpdate_append
      · rw [List.map_map]
        have : (Prod.fst ∘ fun (x : Nat) => (x, l.filter (fun e => decide (cls e = r)))) = id := rfl
        rw [this, List.map_id]
        exact hl.sublist List.filter_sublist
      · intro p hp hm
        obtain ⟨x, hx, rfl⟩ := List.mem_map.mp hp
        obtain ⟨q, hq, e⟩ := List.mem_map.mp hm
        have hx' : cls x = r := by simpa using (List.mem_filter.mp hx).2
        have := hc q hq
        rw [e] at this
        exact this (by rw [hx']; exact List.mem_cons_self ..)
    rw [hstep, ih _ hK.2]
    · simp [List.append_assoc]
    · intro p hp
      rw [List.mem_append] at hp
      rcases hp with hp | hp
      · exact fun hm => hc p hp (List.mem_cons_of_mem _ hm)
      · obtain ⟨x, hx, rfl⟩ := List.mem_map.mp hp
        have hx' : cls x = r := by simpa using (List.mem_filter.mp hx).2
        show cls x ∉ K
        rw [hx']; exact hK.1

/-- both loops of `component_mapping()` without the state: every element of a duplicate-free list is mapped to the members
of its class, classes in order of first occurrence -/
theorem componentMapping_pure (cls : Nat → Nat) {l : List Nat} (hl : l.Nodup) :
    (dsValues (l.foldl (grpStep cls) [])).foldl mapStep []
      = (l.map cls).eraseDups.flatMap (fun r => (l.filter (fun e => decide (cls e = r))).map
          (fun x => (x, l.filter (fun e => decide (cls e = r))))) := by
  rw [grpFold_spec cls l.length l (Nat.le_refl _) hl]
  unfold dsValues
  rw [List.map_map]
  have : (Prod.snd ∘ fun (r : Nat) => (r, l.filter (fun e => decide (cls e = r))))
      = fun r => l.filter (fun e => decide (cls e = r)) := rfl
  rw [this, mapFold_spec cls hl _ [] (nodup_eraseDups _ _ (Nat.le_refl _)) (fun p hp => by cases hp)]
  simp

end Mouette.UFS
