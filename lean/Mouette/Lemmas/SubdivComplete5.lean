import Mouette.Lemmas.SubdivComplete4
/-
C13 (round 2): set-level description of the cells written by `split_tet_from_face_center`.
-/
namespace Mouette.Subdiv

/-- `cell'` is `cell` with the vertex `x` of the face replaced by the new centre `ic` -/
def SubcellOf (f : List Nat) (ic : Nat) (cell cell' : List Nat) : Prop :=
  ∃ x ∈ f, cell'.length = 4 ∧ cell'.Nodup ∧ ∀ v, v ∈ cell' ↔ (v = ic ∨ (v ∈ cell ∧ v ≠ x))

theorem isSubset_iff (f cell : List Nat) : isSubset f cell = true ↔ f ⊆ cell := by
  simp [isSubset, List.subset_def]

theorem mem_centreCells (cell : List Nat) (iF ic : Nat) (cell' : List Nat) :
    cell' ∈ centreCells cell iF ic ↔ ∃ i, i < 4 ∧ i ≠ iF ∧ cell.set i ic = cell' := by
  simp [centreCells, List.mem_map, List.mem_filter, List.mem_range, and_assoc]

/-- the three cells written for one adjacent cell, described as sets -/
theorem centre_subcells (f cell : List Nat) (ic iF : Nat) (hc : cell.Nodup) (h4 : cell.length = 4) (hn : f.Nodup)
    (h3 : f.length = 3) (hsub : f ⊆ cell) (hic : ic ∉ cell) (hopp : oppIndex f cell = some iF) :
    ∃ o, o ∈ cell ∧ o ∉ f ∧ (∀ v ∈ cell, v ≠ o → v ∈ f) ∧
      (∀ cell' ∈ centreCells cell iF ic, SubcellOf f ic cell cell') ∧
      (∀ x ∈ f, ∃ cell' ∈ centreCells cell iF ic, cell'.length = 4 ∧ cell'.Nodup ∧
          ∀ v, v ∈ cell' ↔ (v = ic ∨ (v ∈ cell ∧ v ≠ x))) := by
  unfold oppIndex at hopp
  have hmem := List.mem_of_find?_eq_some hopp
  have hp := List.find?_some hopp
  have hiF : iF < cell.length := by simpa using hmem
  rw [List.getElem?_eq_getElem hiF] at hp
  have ho : cell[iF] ∉ f := by simpa using hp
  have others : ∀ v ∈ cell, v ≠ cell[iF] → v ∈ f := by
    intro v hv hne
    have hsub' : f ⊆ cell.erase cell[iF] := by
      intro w hw
      have hne : w ≠ cell[iF] := fun e => ho (by rw [← e]; exact hw)
      exact (List.mem_erase_of_ne hne).mpr (hsub hw)
    have hlen : (cell.erase cell[iF]).length ≤ f.length := by
      rw [List.length_erase_of_mem (List.getElem_mem hiF), h4, h3]
    have hp := perm_of_subset hn hsub' hlen
    exact hp.mem_iff.mpr ((List.mem_erase_of_ne hne).mpr hv)
  refine ⟨cell[iF], List.getElem_mem hiF, ho, others, ?_, ?_⟩
  · intro cell' hcm
    obtain ⟨i, hi4, hne, rfl⟩ := (mem_centreCells cell iF ic cell').mp hcm
    have hi : i < cell.length := by omega
    have hx : cell[i] ∈ f := others _ (List.getElem_mem hi)
      (fun e => hne ((List.Nodup.getElem_inj_iff hc).mp e))
    exact ⟨cell[i], hx, by simp [h4], hc.set hic, mem_set_nodup cell i hi ic hc⟩
  · intro x hx
    obtain ⟨i, hi, rfl⟩ := List.getElem_of_mem (hsub hx)
    have hne : i ≠ iF := fun e => ho (by subst e; exact hx)
    exact ⟨cell.set i ic, (mem_centreCells cell iF ic _).mpr ⟨i, by omega, hne, rfl⟩, by simp [h4], hc.set hic,
      mem_set_nodup cell i hi ic hc⟩

/-- hypotheses on the cells listed for the split -/
def AdjOk (f : List Nat) (ic : Nat) (cs : List (List Nat)) (adj : List Nat) : Prop :=
  ∀ k ∈ adj, ∃ cell, cs[k]? = some cell ∧ f ⊆ cell ∧ cell.length = 4 ∧ cell.Nodup ∧ ic ∉ cell

theorem fold_cells_desc (f : List Nat) (ic : Nat) (hn : f.Nodup) (h3 : f.length = 3) :
    ∀ (adj : List Nat) (cs cs' : List (List Nat)), adj.Nodup → AdjOk f ic cs adj →
      foldE (splitOneCell ic f) cs adj = .ok cs' →
      (∀ cell' ∈ cs', (∃ j, j ∉ adj ∧ cs[j]? = some cell') ∨
          (∃ k ∈ adj, ∃ cell, cs[k]? = some cell ∧ SubcellOf f ic cell cell')) ∧
      (∀ j, j ∉ adj → ∀ cell, cs[j]? = some cell → cell ∈ cs') ∧
      (∀ k ∈ adj, ∀ cell, cs[k]? = some cell → ∀ x ∈ f, ∃ cell' ∈ cs', cell'.length = 4 ∧ cell'.Nodup ∧
          ∀ v, v ∈ cell' ↔ (v = ic ∨ (v ∈ cell ∧ v ≠ x)))
  | [], cs, cs', _, _, h => by
    simp only [foldE, Except.ok.injEq] at h; subst h
    refine ⟨?_, ?_, ?_⟩
    · intro cell' hc
      obtain ⟨j, hj, e⟩ := List.getElem_of_mem hc
      exact Or.inl ⟨j, by simp, by rw [List.getElem?_eq_getElem hj, e]⟩
    · intro j _ cell hj; exact List.mem_of_getElem? hj
    · intro k hk; simp at hk
  | k :: rest, cs, cs', hnd, hadj, h => by
    simp only [foldE] at h
    cases h1 : splitOneCell ic f cs k with
    | error e => simp [h1] at h
    | ok cs1 =>
      simp only [h1] at h
      obtain ⟨cell, hk, hsub, h4, hcn, hic⟩ := hadj k (by simp)
      obtain ⟨iF, c0, c1, c2, hopp, hcc, hcs1⟩ := splitOneCell_spec ic f cs cs1 k cell hk h4 h1
      obtain ⟨o, _, _, _, hS1, hS2⟩ := centre_subcells f cell ic iF hcn h4 hn h3 hsub hic hopp
      rw [hcc] at hS1 hS2
      have hkl : k < cs.length := by
        by_contra hc; rw [List.getElem?_eq_none (by omega)] at hk; cases hk
      have hnd' : rest.Nodup := (List.nodup_cons.mp hnd).2
      have hnk : k ∉ rest := (List.nodup_cons.mp hnd).1
      have hrestlt : ∀ j ∈ rest, j < cs.length := by
        intro j hj
        obtain ⟨cj, hcj, _⟩ := hadj j (by simp [hj])
        by_contra hc; rw [List.getElem?_eq_none (by omega)] at hcj; cases hcj
      have hsame : ∀ j, j ≠ k → j < cs.length → cs1[j]? = cs[j]? := by
        intro j hne hjl; rw [hcs1]; exact set_append_get_other _ _ _ _ _ hne hjl
      have hadj' : AdjOk f ic cs1 rest := by
        intro j hj
        obtain ⟨cj, hcj, r⟩ := hadj j (by simp [hj])
        exact ⟨cj, by rw [hsame j (fun e => hnk (e ▸ hj)) (hrestlt j hj)]; exact hcj, r⟩
      obtain ⟨A1, A2, A3⟩ := fold_cells_desc f ic hn h3 rest cs1 cs' hnd' hadj' h
      -- positions of the three new cells in cs1
      have p0 : cs1[k]? = some c0 := by
        rw [hcs1, List.getElem?_append_left (by simpa using hkl)]; simp [hkl]
      have p1 : cs1[cs.length]? = some c1 := by
        rw [hcs1, List.getElem?_append_right (by simp)]; simp
      have p2 : cs1[cs.length + 1]? = some c2 := by
        rw [hcs1, List.getElem?_append_right (by simp)]; simp
      have n1 : cs.length ∉ rest := fun hc => by have := hrestlt _ hc; omega
      have n2 : cs.length + 1 ∉ rest := fun hc => by have := hrestlt _ hc; omega
      refine ⟨?_, ?_, ?_⟩
      · intro cell' hc'
        rcases A1 cell' hc' with ⟨j, hj, hcj⟩ | ⟨k', hk', cellk, hck, hsc⟩
        · by_cases hjl : j < cs.length
          · by_cases hjk : j = k
            · subst hjk
              rw [p0] at hcj; cases hcj
              exact Or.inr ⟨j, by simp, cell, hk, hS1 _ (by simp)⟩
            · rw [hsame j hjk hjl] at hcj
              exact Or.inl ⟨j, by simp [hjk, hj], hcj⟩
          · rw [hcs1, List.getElem?_append_right (by simpa using Nat.le_of_not_lt hjl)] at hcj
            have := List.mem_of_getElem? hcj
            simp only [List.mem_cons, List.not_mem_nil, or_false] at this
            rcases this with rfl | rfl
            · exact Or.inr ⟨k, by simp, cell, hk, hS1 _ (by simp)⟩
            · exact Or.inr ⟨k, by simp, cell, hk, hS1 _ (by simp)⟩
        · rw [hsame k' (fun e => hnk (e ▸ hk')) (hrestlt k' hk')] at hck
          exact Or.inr ⟨k', by simp [hk'], cellk, hck, hsc⟩
      · intro j hj cj hcj
        have hjk : j ≠ k := fun e => hj (by simp [e])
        have hjr : j ∉ rest := fun e => hj (by simp [e])
        have hjl : j < cs.length := by
          by_contra hc; rw [List.getElem?_eq_none (by omega)] at hcj; cases hcj
        exact A2 j hjr cj (by rw [hsame j hjk hjl]; exact hcj)
      · intro k' hk' cellk hck x hx
        rcases List.mem_cons.mp hk' with rfl | hk'r
        · rw [hk] at hck; cases hck
          obtain ⟨cell', hcm, hdesc⟩ := hS2 x hx
          simp only [List.mem_cons, List.not_mem_nil, or_false] at hcm
          rcases hcm with rfl | rfl | rfl
          · exact ⟨_, A2 k' hnk _ p0, hdesc⟩
          · exact ⟨_, A2 _ n1 _ p1, hdesc⟩
          · exact ⟨_, A2 _ n2 _ p2, hdesc⟩
        · exact A3 k' hk'r cellk (by rw [hsame k' (fun e => hnk (e ▸ hk'r)) (hrestlt k' hk'r)]; exact hck) x hx

end Mouette.Subdiv
