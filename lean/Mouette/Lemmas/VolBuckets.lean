import Mouette.Model.Volume
/-!
Lemmas about the dictionary-of-lists model `buckets`, `eraseDups`, and the `enumerate` index maps
(core Lean only).
-/
namespace Mouette.Vol

theorem foldl_modify_length (kvs : List (Nat × Nat)) (d : List (List Nat)) :
    (kvs.foldl (fun d kv => d.modify kv.1 (· ++ [kv.2])) d).length = d.length := by
  induction kvs generalizing d with
  | nil => rfl
  | cons kv r ih => simp [List.foldl, ih]

theorem foldl_modify_getElem? (kvs : List (Nat × Nat)) (d : List (List Nat)) (j : Nat) :
    (kvs.foldl (fun d kv => d.modify kv.1 (· ++ [kv.2])) d)[j]? =
      (d[j]?).map (fun l => l ++ (kvs.filter (fun kv => kv.1 == j)).map (·.2)) := by
  induction kvs generalizing d with
  | nil => cases h : d[j]? <;> simp [h]
  | cons kv r ih =>
    simp only [List.foldl]
    rw [ih, List.getElem?_modify]
    cases hd : d[j]? with
    | none => simp
    | some l =>
      by_cases h : kv.1 = j
      · simp [h]
      · simp [h]

/-- `buckets n kvs` at key `j < n` is the list of values appended under `j`, in program order -/
theorem buckets_getD (n : Nat) (kvs : List (Nat × Nat)) (j : Nat) :
    (buckets n kvs).getD j [] = if j < n then (kvs.filter (fun kv => kv.1 == j)).map (·.2) else [] := by
  unfold buckets
  rw [List.getD_eq_getElem?_getD, foldl_modify_getElem?]
  by_cases h : j < n
  · simp [h]
  · simp [h]

theorem buckets_length (n : Nat) (kvs : List (Nat × Nat)) : (buckets n kvs).length = n := by
  unfold buckets; rw [foldl_modify_length]; simp

theorem mem_buckets_getD {n : Nat} {kvs : List (Nat × Nat)} {j v : Nat} :
    v ∈ (buckets n kvs).getD j [] ↔ j < n ∧ (j, v) ∈ kvs := by
  rw [buckets_getD]
  by_cases h : j < n
  · simp only [h, if_true, List.mem_map, List.mem_filter, true_and]
    constructor
    · rintro ⟨⟨a, b⟩, ⟨hm, he⟩, rfl⟩
      have : a = j := by simpa using he
      subst this; exact hm
    · intro hm; exact ⟨(j, v), ⟨hm, by simp⟩, rfl⟩
  · simp [h]

/-! ### `eraseDups` -/

theorem eraseDups_nodup (l : List Nat) : l.eraseDups.Nodup := by
  induction hn : l.length using Nat.strongRecOn generalizing l with
  | _ n ih =>
    cases l with
    | nil => simp
    | cons a as =>
      rw [List.eraseDups_cons]
      have hlen : (as.filter fun b => !b == a).length < n := by
        subst hn
        exact Nat.lt_of_le_of_lt (List.length_filter_le _ _) (by simp)
      refine List.nodup_cons.2 ⟨?_, ih _ hlen _ rfl⟩
      rw [List.mem_eraseDups]
      simp

/-! ### `for i, v in enumerate(l): m2b[v] = i; b2m[i] = v` -/

theorem enumM2B_eq_some {l : List Nat} (hn : l.Nodup) {v i : Nat} :
    Conn.enumM2B l v = some i ↔ Conn.enumB2M l i = some v := by
  unfold Conn.enumM2B Conn.enumB2M
  constructor
  · intro h
    simp only at h
    split at h
    · rename_i hlt
      cases h
      rw [List.getElem?_eq_getElem hlt]
      simp
    · cases h
  · intro h
    obtain ⟨hi, hv⟩ := List.getElem?_eq_some_iff.1 h
    subst hv
    simp only
    have : l.idxOf l[i] = i := List.Nodup.idxOf_getElem hn i hi
    simp [this, hi]

theorem enumM2B_isSome_iff {l : List Nat} {v : Nat} : (Conn.enumM2B l v).isSome ↔ v ∈ l := by
  unfold Conn.enumM2B
  simp only
  split
  · rename_i h; simp [List.idxOf_lt_length_iff.1 h]
  · rename_i h
    simp only [Option.isSome_none, Bool.false_eq_true, false_iff]
    intro hm; exact h (List.idxOf_lt_length_iff.2 hm)

end Mouette.Vol
