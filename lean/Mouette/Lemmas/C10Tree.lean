import Mouette.Model.Trees
/-
Helper lemmas for the bridges of Props/C10Source.lean: generic list facts about the loops of
mouette/processing/trees as translated (append-in-a-loop = map / filter), generic fuel iteration.
-/
namespace Mouette.Trees
open Mouette.Dijkstra (upd)

theorem foldl_append_map {α β : Type} (f : α → β) (l : List α) (q : List β) :
    l.foldl (fun q x => q ++ [f x]) q = q ++ l.map f := by
  induction l generalizing q with
  | nil => simp
  | cons x l ih => simp [ih]

theorem upd_self {α : Type} (f : Nat → α) (i : Nat) (a : α) : upd f i a i = a := by simp [upd]

theorem upd_const_same {α : Type} (a : α) (i : Nat) : upd (fun _ => a) i a = fun _ => a := by
  funext j; simp [upd]

/-- generic iteration of a step function with fuel (the `while` loop around a translated body) -/
def iterB {σ : Type} (stp : σ → Option σ) : Nat → σ → σ
  | 0, s => s
  | f+1, s => match stp s with
    | none => s
    | some s' => iterB stp f s'

theorem iterB_bstep (g : Cfg) : ∀ f s, iterB (bstep g) f s = biter g f s := by
  intro f
  induction f with
  | zero => intro s; rfl
  | succ f ih =>
    intro s
    unfold iterB biter
    cases bstep g s with
    | none => rfl
    | some s' => exact ih s'

/-- marking every traversed node -/
theorem foldl_mark (l : List (Nat × Option Nat)) (vis : Nat → Bool) :
    l.foldl (fun vis e => upd vis e.1 true) vis = fun x => vis x || (l.map (·.1)).contains x := by
  induction l generalizing vis with
  | nil => funext x; simp
  | cons e l ih =>
    simp only [List.foldl_cons, ih]
    funext x
    by_cases h : x = e.1
    · subst h; simp [upd]
    · simp [upd, h]
      cases vis x <;> simp [h] <;> exact fun h2 => absurd h2 h

/-- neighbour sets built by `neighbours[a].add(b)`, as the list of insertions `(a, b)` -/
def nbOf (N : List (Nat × Nat)) (u : Nat) : List Nat := N.filterMap (fun p => if p.1 = u then some p.2 else none)

theorem nbOf_append (N M : List (Nat × Nat)) (u : Nat) : nbOf (N ++ M) u = nbOf N u ++ nbOf M u := by
  simp [nbOf, List.filterMap_append]

theorem treeNbrs_append (E F : List (Nat × Nat)) (u : Nat) : treeNbrs (E ++ F) u = treeNbrs E u ++ treeNbrs F u := by
  simp [treeNbrs, List.filterMap_append]

theorem nbOf_pair (a b u : Nat) (h : a ≠ b) : nbOf [(a, b), (b, a)] u = treeNbrs [keyify a b] u := by
  unfold nbOf treeNbrs keyify
  by_cases hab : a ≤ b
  · rw [if_pos hab]
    by_cases h1 : a = u
    · subst h1; simp [Ne.symm h]
    · by_cases h2 : b = u
      · subst h2; simp [h1]
      · simp [h1, h2]
  · rw [if_neg hab]
    by_cases h1 : a = u
    · subst h1; simp [Ne.symm h]
    · by_cases h2 : b = u
      · subst h2; simp [h1]
      · simp [h1, h2]

end Mouette.Trees
