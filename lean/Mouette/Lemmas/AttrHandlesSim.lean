import Mouette.Model.AttrHandlesSpec
import Mouette.Lemmas.AttrHandlesInv
/-
Step-wise simulation of the extended operations by the extended total-map specification.
-/
namespace Mouette.Attr
set_option linter.unusedSimpArgs false
set_option linter.unusedVariables false

def shOf (hl : Held) : SHeld := { vec := hl.hd.isSome, orig := hl.orig }

def R2 (s : State2) (t : Spec2) : Prop := R s.st t.sp ∧ t.handles = s.held.map shOf

structure GoodR (dense : Bool) (s : State2) (t : Spec2) : Prop where
  good : Good2 dense s
  rel : R2 s t

theorem matches_isOk {so : SObs} {o : Obs} (h : Matches so o) : so.isOk = o.isOk := by
  cases so <;> cases o <;> first | rfl | exact absurd h id

theorem matches_ok_left {so : SObs} (h : Matches so .ok) : so = .ok := by
  cases so <;> first | rfl | exact absurd h id

theorem map_forget (l : List Held) : (forget l).map shOf = sforget (l.map shOf) := by
  simp [forget, sforget, shOf, List.map_map, Function.comp]

theorem specK_eq {s : State} {t : Spec} {a : Attr} (hR : R s t) (ha : s.attr = some a) : specK t = a.k := by
  rcases R_cases hR with ⟨hn, _⟩ | ⟨a0, ta, ha0, hta, _, hk, _⟩
  · rw [ha] at hn; cases hn
  · rw [ha] at ha0; injection ha0 with ha0; subst ha0
    simp only [specK, hta]; exact hk.symm

/-- making an entry unconstrained keeps the refinement relation -/
theorem R_taint {s : State} {t : Spec} (j : Int) (hR : R s t) : R s (taintAt j t) := by
  rcases R_cases hR with ⟨ha, hta⟩ | ⟨a, ta, ha, hta, hty, hk, hd, hki, hout, hf⟩
  · simp only [taintAt, hta]; exact hR
  · simp only [taintAt, hta]
    by_cases hir : inRange j t.size = true
    · rw [if_pos hir]
      obtain ⟨h0, h1⟩ := inRange_iff.mp hir
      have hsz := hR.1
      refine R_mk hsz ha rfl hty hk hd hki ?_ ?_
      · intro x hx; simp only
        have : ¬ x = j := by omega
        rw [if_neg this]; exact hout x hx
      · intro x hx0 hx1 w hw; simp only at hw
        by_cases hxj : x = j
        · rw [if_pos hxj] at hw; cases hw
        · rw [if_neg hxj] at hw; exact hf x hx0 hx1 w hw
    · rw [if_neg hir]; exact hR

/-- after a write to `j`, forgetting entry `j` gives the same specification as forgetting it before -/
theorem R_taint_set {s'' : State} {t : Spec} (j : Int) (X : InVal)
    (hR : R s'' (specStep t (.set j X)).1) : R s'' (taintAt j t) := by
  simp only [specStep] at hR
  cases hta : t.attr with
  | none => rw [hta] at hR; simp only at hR; simp only [taintAt, hta]; exact hR
  | some a =>
    rw [hta] at hR; simp only at hR
    by_cases hir : inRange j t.size = true
    · rw [if_pos hir] at hR
      cases hc : checkVal a.ty a.k X with
      | error e => rw [hc] at hR; simp only at hR; exact R_taint j hR
      | ok val =>
        rw [hc] at hR; simp only at hR
        have := R_taint j hR
        simp only [taintAt, hir, if_true] at this
        simp only [taintAt, hta, hir, if_true]
        have e : (fun x => if x = j then none else if x = j then some val else a.f x) = (fun x => if x = j then none else a.f x) := by
          funext x; by_cases h : x = j <;> simp [h]
        rw [e] at this; exact this
    · rw [if_neg hir] at hR; simp only at hR
      simp only [taintAt, hta, hir, if_false]; exact hR

theorem good_append {dense : Bool} {s : State} {t : Spec} (c : Cell) (hg : Good dense s t) :
    Good dense { s with heap := s.heap ++ [c] } t := by
  refine ⟨?_, hg.mode, ?_⟩
  · intro a ha; exact storeOk_append c (hg.inv a ha)
  · rcases R_cases hg.rel with ⟨ha, hta⟩ | ⟨a, ta, ha, hta, hty, hk, hd, hki, hout, hf⟩
    · exact R_none hg.rel.1 ha hta
    · refine R_mk hg.rel.1 ha hta hty hk hd hki hout ?_
      intro x h0 h1 w hw; simp only
      rw [lookupVal_append c (hg.inv a ha)]; exact hf x h0 h1 w hw

theorem writeAll_sim (dense : Bool) : ∀ (keys : List Int) (s : State) (t : Spec) (v : InVal), Good dense s t →
    (dense = false → keys.all (fun key => inRange key s.size) = true) →
    Good dense (writeAll dense s keys v).1 (specWriteAll t keys v).1 ∧
    Matches (specWriteAll t keys v).2 (writeAll dense s keys v).2 ∧ (writeAll dense s keys v).1.size = s.size := by
  intro keys
  induction keys with
  | nil => intro s t v hg _; exact ⟨hg, trivial, rfl⟩
  | cons key r ih =>
    intro s t v hg hw
    have hidx : dense = false → opInRange s.size (.set key v) = true := by
      intro hd; have := hw hd; simp only [List.all_cons, Bool.and_eq_true] at this; exact this.1
    obtain ⟨hg', hm, hsz⟩ := good_step (.set key v) hg hidx
    simp only [writeAll, specWriteAll]
    cases hs : step dense s (.set key v) with
    | mk s' o =>
      cases hs2 : specStep t (.set key v) with
      | mk t' so =>
        rw [hs, hs2] at hg' hm; rw [hs] at hsz; simp only at hg' hm hsz
        simp only [sizeAfter] at hsz
        cases o with
        | ok =>
          have := matches_ok_left hm; subst this
          simp only
          obtain ⟨g1, g2, g3⟩ := ih s' t' v hg' (by
            intro hd; have := hw hd; simp only [List.all_cons, Bool.and_eq_true] at this; rw [hsz]; exact this.2)
          exact ⟨g1, g2, by rw [g3, hsz]⟩
        | val w => cases so <;> first | exact absurd hm id | exact ⟨hg', hm, hsz⟩
        | arr rows => cases so <;> first | exact absurd hm id | exact ⟨hg', hm, hsz⟩
        | err e => cases so <;> first | exact absurd hm id | exact ⟨hg', hm, hsz⟩

/-- an in-place update through a registered handle is matched by "forget the entry it was read from" -/
theorem R_mutate {s : State} {t : Spec} {hl : Held} {hd : Handle} (c : Nat) (x : Scalar)
    (hinv : Inv s) (hh : HOk s hl) (hhd : hl.hd = some hd) (hR : R s t) :
    R { s with heap := mutate s.heap hd c x } (match hl.orig with | some i => taintAt i t | none => t) := by
  rcases R_cases hR with ⟨ha, hta⟩ | ⟨a, ta, ha, hta, hty, hk, hd', hki, hout, hf⟩
  · have : (match hl.orig with | some i => taintAt i t | none => t) = t := by
      cases hl.orig <;> simp [taintAt, hta]
    rw [this]; exact R_none hR.1 ha hta
  · have hiso := mutate_isolated (hl := hl) c x (hinv a ha) (hh.2 a ha) hhd
    cases ho : hl.orig with
    | none =>
      simp only
      refine R_mk hR.1 ha hta hty hk hd' hki hout ?_
      intro y h0 h1 w hw; simp only
      rw [hiso y h0 (by rw [ho]; simp)]; exact hf y h0 h1 w hw
    | some i =>
      simp only [taintAt, hta]
      by_cases hir : inRange i t.size = true
      · rw [if_pos hir]
        obtain ⟨i0, i1⟩ := inRange_iff.mp hir
        have hsz := hR.1
        refine R_mk hsz ha rfl hty hk hd' hki ?_ ?_
        · intro y hy; simp only
          have : ¬ y = i := by simp only at hy; omega
          rw [if_neg this]; exact hout y hy
        · intro y h0 h1 w hw; simp only at hw ⊢
          by_cases hyi : y = i
          · rw [if_pos hyi] at hw; cases hw
          · rw [if_neg hyi] at hw
            rw [hiso y h0 (by rw [ho]; intro e; injection e with e; exact hyi e.symm)]; exact hf y h0 h1 w hw
      · rw [if_neg hir]
        refine R_mk hR.1 ha hta hty hk hd' hki hout ?_
        intro y h0 h1 w hw; simp only
        have hyi : ¬ y = i := by
          intro e; apply hir; rw [← e]; exact inRange_iff.mpr ⟨h0, by rw [← hR.1]; exact h1⟩
        rw [hiso y h0 (by rw [ho]; intro e; injection e with e; exact hyi e.symm)]; exact hf y h0 h1 w hw

theorem sim_step2 (dense : Bool) (s : State2) (t : Spec2) (op : Op2) (hg : GoodR dense s t)
    (hidx : dense = false → op2InRange s.st.size op = true) :
    GoodR dense (step2 dense s op).1 (specStep2 t op).1 ∧ Matches2 (specStep2 t op).2 (step2 dense s op).2 ∧
    (step2 dense s op).1.st.size = sizeAfter2 s.st.size op := by
  have G : Good dense s.st t.sp := ⟨hg.good.inv, hg.good.mode, hg.rel.1⟩
  have hh := hg.rel.2
  have hgood' := good2_step dense s op hg.good
  cases op with
  | base op =>
    obtain ⟨g1, g2, g3⟩ := good_step op G (fun hd => by simpa [op2InRange] using hidx hd)
    simp only [step2, specStep2] at hgood' ⊢
    cases hs : step dense s.st op with
    | mk st' o =>
      cases hs2 : specStep t.sp op with
      | mk sp' so =>
        rw [hs, hs2] at g1 g2; rw [hs] at g3; simp only at g1 g2 g3 ⊢
        rw [hs] at hgood'; simp only at hgood'
        refine ⟨⟨hgood', g1.rel, ?_⟩, g2, g3⟩
        simp only
        rw [matches_isOk g2]
        by_cases hc : (op.invalidates && o.isOk) = true
        · rw [if_pos hc, if_pos hc, map_forget, hh]
        · rw [if_neg hc, if_neg hc, hh]
  | hold i =>
    obtain ⟨g1, g2, g3⟩ := good_step (.get i) G (fun hd => by simpa [op2InRange, opInRange] using hidx hd)
    simp only [sizeAfter] at g3
    simp only [step2, specStep2, sizeAfter2] at hgood' ⊢
    cases hs2 : specStep t.sp (.get i) with
    | mk sp' so =>
      rw [hs2] at g1 g2; simp only at g1 g2
      cases ha : s.st.attr with
      | none =>
        rw [ha] at hgood'; simp only at hgood' ⊢
        rw [step_get_none ha] at g1 g2 g3; simp only at g1 g2 g3
        cases so <;> first | exact absurd g2 id | skip
        exact ⟨⟨hgood', g1.rel, (by first | exact hh | rfl)⟩, g2, (by first | trivial | rfl)⟩
      | some a =>
        rw [ha] at hgood'; simp only at hgood' ⊢
        cases hget : get s.st a i with
        | error e =>
          rw [hget] at hgood'; simp only at hgood' ⊢
          rw [step_get_err ha hget] at g1 g2 g3; simp only at g1 g2 g3
          cases so <;> first | exact absurd g2 id | skip
          exact ⟨⟨hgood', g1.rel, (by first | exact hh | rfl)⟩, g2, (by first | trivial | rfl)⟩
        | ok r =>
          obtain ⟨st', hd, v⟩ := r
          rw [hget] at hgood'; simp only at hgood' ⊢
          rw [step_get_ok ha hget] at g1 g2 g3; simp only at g1 g2 g3
          cases so <;> first | exact absurd g2 id | skip
          refine ⟨⟨hgood', g1.rel, ?_⟩, g2, g3⟩
          simp only [List.map_append, List.map_cons, List.map_nil, hh, shOf, specK_eq G.rel ha]
          by_cases hk : a.k > 1 <;> simp [hk]
  | updH h c x =>
    simp only [step2, specStep2, sizeAfter2] at hgood' ⊢
    rw [hh, List.getElem?_map]
    cases hhl : s.held[h]? with
    | none => rw [hhl] at hgood'; simp only [Option.map_none] at hgood' ⊢; exact ⟨⟨hgood', hg.rel⟩, (by first | trivial | rfl), (by first | trivial | rfl)⟩
    | some hl =>
      rw [hhl] at hgood'; simp only [Option.map_some] at hgood' ⊢
      have hok : HOk s.st hl := hg.good.hinv hl (List.mem_of_getElem? hhl)
      cases hhd : hl.hd with
      | none =>
        rw [hhd] at hgood'; simp only at hgood'
        simp only [shOf, hhd, Option.isSome_none, Bool.false_eq_true, if_false]
        exact ⟨⟨hgood', hg.rel⟩, trivial, (by first | trivial | rfl)⟩
      | some hd =>
        rw [hhd] at hgood'; simp only at hgood'
        simp only [shOf, hhd, Option.isSome_some, if_true]
        by_cases hc : c < handleLen s.st.heap hd
        · rw [if_pos hc] at hgood'; rw [if_pos hc]
          have hRm := R_mutate c x hg.good.inv hok hhd hg.rel.1
          cases ho : hl.orig with
          | none => rw [ho] at hRm; simp only at hRm ⊢; exact ⟨⟨hgood', hRm, (by first | exact hh | rfl)⟩, trivial, (by first | trivial | rfl)⟩
          | some i0 => rw [ho] at hRm; simp only at hRm ⊢; exact ⟨⟨hgood', hRm, (by first | exact hh | rfl)⟩, trivial, (by first | trivial | rfl)⟩
        · rw [if_neg hc] at hgood'; rw [if_neg hc]
          cases ho : hl.orig with
          | none => simp only; exact ⟨⟨hgood', hg.rel⟩, trivial, (by first | trivial | rfl)⟩
          | some i0 => simp only; exact ⟨⟨hgood', R_taint i0 hg.rel.1, (by first | exact hh | rfl)⟩, trivial, (by first | trivial | rfl)⟩
  | setFromRead i j =>
    have hij : dense = false → inRange i s.st.size = true ∧ inRange j s.st.size = true := by
      intro hd; have := hidx hd; simpa [op2InRange] using this
    obtain ⟨g1, g2, g3⟩ := good_step (.get i) G (fun hd => by simpa [opInRange] using (hij hd).1)
    simp only [sizeAfter] at g3
    simp only [step2, specStep2, sizeAfter2] at hgood' ⊢
    cases hs2 : specStep t.sp (.get i) with
    | mk sp' so =>
      rw [hs2] at g1 g2; simp only at g1 g2
      cases ha : s.st.attr with
      | none =>
        rw [ha] at hgood'; simp only at hgood' ⊢
        rw [step_get_none ha] at g1 g2 g3; simp only at g1 g2 g3
        cases so <;> first | exact absurd g2 id | skip
        exact ⟨⟨hgood', g1.rel, (by first | exact hh | rfl)⟩, g2, (by first | trivial | rfl)⟩
      | some a =>
        rw [ha] at hgood'; simp only at hgood' ⊢
        cases hget : get s.st a i with
        | error e =>
          rw [hget] at hgood'; simp only at hgood' ⊢
          rw [step_get_err ha hget] at g1 g2 g3; simp only at g1 g2 g3
          cases so <;> first | exact absurd g2 id | skip
          exact ⟨⟨hgood', g1.rel, (by first | exact hh | rfl)⟩, g2, (by first | trivial | rfl)⟩
        | ok r =>
          obtain ⟨st', hd, v⟩ := r
          rw [hget] at hgood'; simp only at hgood' ⊢
          rw [step_get_ok ha hget] at g1 g2 g3; simp only at g1 g2 g3
          cases so <;> first | exact absurd g2 id | skip
          rename_i o
          have hjr : dense = false → opInRange st'.size (.set j (toInVal a.k v)) = true := by
            intro hd; rw [g3]; simpa [opInRange] using (hij hd).2
          obtain ⟨k1, k2, k3⟩ := good_step (.set j (toInVal a.k v)) g1 hjr
          simp only [sizeAfter] at k3
          cases o with
          | none =>
            simp only
            cases hst : step dense st' (.set j (toInVal a.k v)) with
            | mk st'' o2 =>
              rw [hst] at hgood' k1 k3; simp only at hgood' k1 k3 ⊢
              exact ⟨⟨hgood', R_taint_set j _ k1.rel, (by first | exact hh | rfl)⟩, trivial, by rw [k3, g3]⟩
          | some w =>
            simp only [Matches] at g2
            have hv : v = w := g2 w rfl
            simp only [specK_eq G.rel ha, ← hv]
            cases hst : step dense st' (.set j (toInVal a.k v)) with
            | mk st'' o2 =>
              cases hst2 : specStep sp' (.set j (toInVal a.k v)) with
              | mk sp'' so2 =>
                rw [hst] at hgood' k1 k2 k3; rw [hst2] at k1 k2; simp only at hgood' k1 k2 k3 ⊢
                exact ⟨⟨hgood', k1.rel, (by first | exact hh | rfl)⟩, k2, by rw [k3, g3]⟩
  | setShared v keys =>
    have hkeys : dense = false → keys.all (fun key => inRange key s.st.size) = true := by
      intro hd; have := hidx hd; simpa [op2InRange] using this
    simp only [step2, specStep2, sizeAfter2] at hgood' ⊢
    rcases R_cases hg.rel.1 with ⟨ha, hta⟩ | ⟨a, ta, ha, hta, _⟩
    · rw [ha] at hgood'; simp only [ha, hta] at hgood' ⊢
      exact ⟨⟨hgood', hg.rel⟩, (by first | trivial | rfl), (by first | trivial | rfl)⟩
    · rw [ha] at hgood'; simp only [ha, hta] at hgood' ⊢
      cases v with
      | sc x0 =>
        simp only at hgood' ⊢
        obtain ⟨w1, w2, w3⟩ := writeAll_sim dense keys s.st t.sp (.sc x0) G hkeys
        refine ⟨⟨hgood', w1.rel, ?_⟩, w2, w3⟩
        simp [hh, shOf]
      | vec l =>
        simp only at hgood' ⊢
        have G0 := good_append (Cell.vec l) G
        have e0 : ({ heap := s.st.heap ++ [Cell.vec l], size := s.st.size, attr := some a } : State)
            = { s.st with heap := s.st.heap ++ [Cell.vec l] } := by rw [← ha]
        obtain ⟨w1, w2, w3⟩ := writeAll_sim dense keys _ t.sp (.vec l) G0 hkeys
        rw [e0]
        refine ⟨⟨by rw [e0] at hgood'; exact hgood', w1.rel, ?_⟩, w2, w3⟩
        simp [hh, shOf]

end Mouette.Attr
