import Mouette.Lemmas.C14NoRepeat
/-!
Vocabulary and list lemmas for the dual mesh (C14, round 6): the ring of face ids around a vertex (what C01's `ring_sorted`
provides for `vertex_to_faces` at an interior vertex of an oriented surface), uniqueness of the side leaving a vertex in a simple
face, every element of a cyclic list has a successor.
-/
namespace Mouette.C14Dual
open Mouette.MeshCheck Mouette.EdgeCount

/-- `ring` = the ids of the faces around `V` in rotational order: no id twice, exactly the faces containing `V`, and cyclically
consecutive faces F → G share an edge {V, w} traversed V → w in F and w → V in G (the order `vertex_to_faces` returns; checked on
the implementation's rings on every run) -/
structure RingAt (fs : List Face) (V : Nat) (ring : List Nat) : Prop where
  nodup : ring.Nodup
  mem : ∀ F, F ∈ ring ↔ F < fs.length ∧ V ∈ fs.getD F []
  step : ∀ p ∈ sides ring, ∃ w, (V, w) ∈ sides (fs.getD p.1 []) ∧ (w, V) ∈ sides (fs.getD p.2 [])

theorem zip_fst_unique {α β} : ∀ (l : List α) (m : List β) (a : α) (b b' : β), l.Nodup → (a, b) ∈ l.zip m → (a, b') ∈ l.zip m → b = b'
  | [], _, _, _, _, _, h, _ => by simp at h
  | _ :: _, [], _, _, _, _, h, _ => by simp at h
  | x :: l, y :: m, a, b, b', hn, h1, h2 => by
    rw [List.nodup_cons] at hn
    simp only [List.zip_cons_cons, List.mem_cons, Prod.mk.injEq] at h1 h2
    rcases h1 with ⟨rfl, rfl⟩ | h1 <;> rcases h2 with ⟨e, rfl⟩ | h2
    · rfl
    · exact absurd (List.of_mem_zip h2).1 hn.1
    · exact absurd (e ▸ (List.of_mem_zip h1).1) hn.1
    · exact zip_fst_unique l m a b b' hn.2 h1 h2

theorem mem_zip_fst {α β} : ∀ (l : List α) (m : List β) (x : α), l.length ≤ m.length → x ∈ l → ∃ y, (x, y) ∈ l.zip m
  | [], _, _, _, h => by simp at h
  | _ :: _, [], _, hl, _ => by simp at hl
  | a :: l, b :: m, x, hl, h => by
    rw [List.mem_cons] at h
    rcases h with rfl | h
    · exact ⟨b, by simp⟩
    · obtain ⟨y, hy⟩ := mem_zip_fst l m x (by simpa using hl) h
      exact ⟨y, by simp [hy]⟩

/-- in a face without repeated vertex exactly one side leaves a given vertex -/
theorem side_out_unique (f : Face) (hf : f.Nodup) (w x x' : Nat) (h1 : (w, x) ∈ sides f) (h2 : (w, x') ∈ sides f) : x = x' := by
  cases f with
  | nil => simp [sides] at h1
  | cons a t => exact zip_fst_unique _ _ w x x' hf h1 h2

theorem side_mem (f : Face) (e : Nat × Nat) (h : e ∈ sides f) : e.1 ∈ f ∧ e.2 ∈ f := by
  cases f with
  | nil => simp [sides] at h
  | cons a t =>
    have := List.of_mem_zip (show (e.1, e.2) ∈ (a :: t).zip ((a :: t).tail ++ [a]) from h)
    refine ⟨this.1, ?_⟩
    have h2 := this.2
    simp only [List.tail_cons, List.mem_append, List.mem_cons, List.mem_nil_iff, or_false] at h2 ⊢
    rcases h2 with h2 | h2
    · exact Or.inr h2
    · exact Or.inl h2

/-- every element of a cyclic list has a successor -/
theorem has_successor (l : List Nat) (x : Nat) (h : x ∈ l) : ∃ y, (x, y) ∈ sides l := by
  cases l with
  | nil => simp at h
  | cons a t => exact mem_zip_fst _ _ x (by simp) h

/-- consistent orientation, by position: a directed side lies in the face at one position only -/
theorem oriented_index (fs : List Face) (hnd : (dirEdges fs).Nodup) (i j : Nat) (hi : i < fs.length) (hj : j < fs.length)
    (e : Nat × Nat) (h1 : e ∈ sides (fs.getD i [])) (h2 : e ∈ sides (fs.getD j [])) : i = j := by
  have hp := faces_pairwise_disjoint_sides fs hnd
  rw [List.pairwise_iff_getElem] at hp
  have g1 : fs.getD i [] = fs[i] := by simp [List.getD, hi]
  have g2 : fs.getD j [] = fs[j] := by simp [List.getD, hj]
  rw [g1] at h1; rw [g2] at h2
  rcases Nat.lt_trichotomy i j with l | e' | l
  · exact absurd h2 (hp i j hi hj l e h1)
  · exact e'
  · exact absurd h1 (hp j i hj hi l e h2)

theorem nodup_zip_left {α β} : ∀ (l : List α) (m : List β), l.Nodup → (l.zip m).Nodup
  | [], _, _ => by simp
  | _ :: _, [], _ => by simp
  | a :: l, b :: m, h => by
    rw [List.nodup_cons] at h
    rw [List.zip_cons_cons, List.nodup_cons]
    exact ⟨fun hm => h.1 (List.of_mem_zip hm).1, nodup_zip_left l m h.2⟩

/-- the directed sides of a cyclic list without repetition are pairwise distinct -/
theorem sides_nodup (l : List Nat) (h : l.Nodup) : (sides l).Nodup := by
  cases l with
  | nil => simp [sides]
  | cons a t => exact nodup_zip_left _ _ h

/-- two primal faces are glued along at most one edge -/
def ShareAtMostOneEdge (fs : List Face) : Prop :=
  ∀ F G e e', e ∈ sides (fs.getD F []) → (e.2, e.1) ∈ sides (fs.getD G []) →
    e' ∈ sides (fs.getD F []) → (e'.2, e'.1) ∈ sides (fs.getD G []) → e = e'

/-- executable check of `ShareAtMostOneEdge` -/
def shareAtMostOneEdgeB (fs : List Face) : Bool :=
  fs.all fun f => fs.all fun g => (sides f).all fun e => (sides f).all fun e' =>
    !((sides g).contains (e.2, e.1) && (sides g).contains (e'.2, e'.1)) || e == e'

theorem getD_mem_or_nil (fs : List Face) (k : Nat) : fs.getD k [] ∈ fs ∨ fs.getD k [] = [] := by
  by_cases h : k < fs.length
  · left; have : fs.getD k [] = fs[k] := by simp [List.getD, h]
    rw [this]; exact List.getElem_mem h
  · right; simp [List.getD, Nat.not_lt.mp h]

theorem shareAtMostOneEdge_of_check (fs : List Face) (h : shareAtMostOneEdgeB fs = true) : ShareAtMostOneEdge fs := by
  intro F G e e' h1 h2 h3 h4
  rcases getD_mem_or_nil fs F with hF | hF
  · rcases getD_mem_or_nil fs G with hG | hG
    · simp only [shareAtMostOneEdgeB, List.all_eq_true] at h
      have := h _ hF _ hG e h1 e' h3
      simp only [Bool.or_eq_true, Bool.not_eq_true', Bool.and_eq_false_iff, beq_iff_eq] at this
      rcases this with (c | c) | c
      · rw [List.contains_iff_mem.mpr h2] at c; exact absurd c (by decide)
      · rw [List.contains_iff_mem.mpr h4] at c; exact absurd c (by decide)
      · exact c
    · rw [hG] at h2; simp [sides] at h2
  · rw [hF] at h1; simp [sides] at h1

end Mouette.C14Dual
