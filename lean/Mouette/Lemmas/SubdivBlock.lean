import Mouette.Lemmas.SubdivCount
/-
C13: vertex-prefix preservation through every operation / every operation sequence, position of the new
vertices of the 1→4 refinement, and the editing-block model (input object vs result).
-/
namespace Mouette.Subdiv

/-- the vertex list only grows at the end -/
def VPrefix (m m' : Raw) : Prop := ∃ extra, m'.verts = m.verts ++ extra

theorem VPrefix.refl (m : Raw) : VPrefix m m := ⟨[], by simp⟩
theorem VPrefix.trans {a b c : Raw} (h1 : VPrefix a b) (h2 : VPrefix b c) : VPrefix a c := by
  obtain ⟨x, hx⟩ := h1; obtain ⟨y, hy⟩ := h2
  exact ⟨x ++ y, by rw [hy, hx, List.append_assoc]⟩

theorem VPrefix.get {m m' : Raw} (h : VPrefix m m') (i : Nat) (hi : i < m.verts.length) : m'.verts[i]? = m.verts[i]? := by
  obtain ⟨x, hx⟩ := h
  rw [hx, List.getElem?_append_left hi]

theorem iterM_prefix (f : Raw → Except Err Raw) (hf : ∀ a a', f a = .ok a' → VPrefix a a') :
    ∀ (n : Nat) (a a' : Raw), iterM f n a = .ok a' → VPrefix a a'
  | 0, a, a', h => by simp only [iterM, pure, Except.pure, Except.ok.injEq] at h; subst h; exact VPrefix.refl _
  | n + 1, a, a', h => by
    rw [iterM_succ] at h
    cases h1 : f a with
    | error e => simp [h1, Except.bind] at h
    | ok a1 =>
      simp only [h1, Except.bind] at h
      exact (hf a a1 h1).trans (iterM_prefix f hf n a1 a' h)

theorem triangulate_prefix (m m' : Raw) (h : triangulate m = .ok m') : VPrefix m m' :=
  (triangulate_counts' m m' h).2.2.2.2

theorem loopOnce_prefix (m m' : Raw) (h : loopOnce m = .ok m') : VPrefix m m' := (loop_counts' m m' h).2.2.2.2

theorem quads3_prefix (m m' : Raw) (h : quads3 m = .ok m') : VPrefix m m' := by
  obtain ⟨_, _, _, _, _, hx⟩ := quads3_counts' m m' h; exact hx

theorem applyOp_prefix (m m' : Raw) (op : Op) (h : applyOp m op = .ok m') : VPrefix m m' := by
  cases op with
  | fan f => obtain ⟨_, _, _, _, _, _, _, _, hv, _⟩ := fan_spec m m' f h; exact ⟨_, hv⟩
  | triFace f => obtain ⟨_, _, _, _, _, _, hx, _⟩ := triFace_counts m m' f h; exact hx
  | tri => exact triangulate_prefix m m' h
  | loop n =>
    simp only [applyOp, loopSubdivision, bind, Except.bind] at h
    cases h1 : triangulate m with
    | error e => simp [h1] at h
    | ok m1 =>
      simp only [h1] at h
      exact (triangulate_prefix m m1 h1).trans (iterM_prefix loopOnce loopOnce_prefix n m1 m' h)
  | quads3 => exact quads3_prefix m m' h
  | sub6 n =>
    simp only [applyOp, sub6] at h
    refine iterM_prefix _ ?_ n m m' h
    intro a a' ha
    simp only [bind, Except.bind] at ha
    cases h1 : quads3 a with
    | error e => simp [h1] at ha
    | ok a1 =>
      simp only [h1] at ha
      exact (quads3_prefix a a1 h1).trans (triangulate_prefix a1 a' ha)
  | cellFan c =>
    simp only [applyOp] at h
    cases hc : m.cells[c]? with
    | none => simp [splitCellAsFan, hc] at h
    | some cell =>
      rcases cell with _ | ⟨x0, _ | ⟨x1, _ | ⟨x2, _ | ⟨x3, _ | ⟨x4, t⟩⟩⟩⟩⟩
      case cons.cons.cons.cons.nil =>
        obtain ⟨_, _, hv, _⟩ := cellFan_spec m m' c x0 x1 x2 x3 hc h; exact ⟨_, hv⟩
      all_goals
        simp only [splitCellAsFan, hc, pure, Except.pure, Except.ok.injEq] at h
        subst h; exact VPrefix.refl _
  | faceSplit f =>
    simp only [applyOp] at h
    cases hf : m.faces[f]? with
    | none => simp [splitTetFromFaceCenter, hf] at h
    | some face =>
      rcases face with _ | ⟨x0, _ | ⟨x1, _ | ⟨x2, _ | ⟨x3, t⟩⟩⟩⟩
      case cons.cons.cons.nil =>
        obtain ⟨_, _, _, _, hv, _⟩ := faceSplit_spec m m' f x0 x1 x2 hf h; exact ⟨_, hv⟩
      all_goals
        simp only [splitTetFromFaceCenter, hf, pure, Except.pure, Except.ok.injEq] at h
        subst h; exact VPrefix.refl _
  | edgeSplit e => obtain ⟨_, _, _, _, _, _, _, hv, _⟩ := splitEdge_spec m m' e h; exact ⟨_, hv⟩

theorem runOps_prefix : ∀ (ops : List Op) (m m' : Raw) (i : Nat), runOps m ops i = (m', none) → VPrefix m m'
  | [], m, m', i, h => by simp only [runOps, Prod.mk.injEq, and_true] at h; subst h; exact VPrefix.refl _
  | op :: ops, m, m', i, h => by
    simp only [runOps] at h
    cases h1 : applyOp m op with
    | error e => simp [h1] at h
    | ok m1 =>
      simp only [h1] at h
      exact (applyOp_prefix m m1 op h1).trans (runOps_prefix ops m1 m' (i + 1) h)

theorem prepare_verts (m : Raw) : (prepare m).verts = m.verts := rfl

/-! ### new vertices of the 1→4 refinement are edge midpoints, and the faces use them -/

theorem keyify_eq {x y a b : Nat} (h : keyify x y = keyify a b) : (x = a ∧ y = b) ∨ (x = b ∧ y = a) := by
  unfold keyify at h
  split_ifs at h <;> simp only [Prod.mk.injEq] at h <;> omega

theorem halfLookup_spec : ∀ (es : List (Nat × Nat)) (c : Nat) (k : Nat × Nat) (r : Nat), halfLookup es c k = some r →
    ∃ i, ∃ (hi : i < es.length), r = c + i ∧ keyify es[i].1 es[i].2 = k
  | [], _, _, _, h => by simp [halfLookup] at h
  | e :: es, c, k, r, h => by
    simp only [halfLookup] at h
    cases h1 : halfLookup es (c + 1) k with
    | some r' =>
      simp only [h1, Option.some.injEq] at h; subst h
      obtain ⟨i, hi, hr, hk⟩ := halfLookup_spec es (c + 1) k r' h1
      exact ⟨i + 1, by simpa using hi, by omega, by simpa using hk⟩
    | none =>
      simp only [h1] at h
      split_ifs at h with hk
      simp only [Option.some.injEq] at h; subst h
      exact ⟨0, by simp, by simp, by simpa using hk⟩

/-- (A) every new vertex of `loop_subdivision`'s pass sits at the midpoint of the edge with the same rank -/
theorem loop_new_vertices (m m' : Raw) (h : loopOnce m = .ok m') (i : Nat) (hi : i < m.edges.length) :
    ∃ p q, m.verts[m.edges[i].1]? = some p ∧ m.verts[m.edges[i].2]? = some q ∧
      m'.verts[m.verts.length + i]? = some (mid p q) := by
  obtain ⟨mids, parts, h1, _, hv, _⟩ := loopOnce_spec m m' h
  obtain ⟨b, hb1, hb2⟩ := mapE_get _ _ _ h1 i hi
  unfold edgeMid at hb1
  cases hp : m.verts[m.edges[i].1]? with
  | none => simp [hp] at hb1
  | some p =>
    cases hq : m.verts[m.edges[i].2]? with
    | none => simp [hp, hq] at hb1
    | some q =>
      simp only [hp, hq, Except.ok.injEq] at hb1
      refine ⟨p, q, rfl, rfl, ?_⟩
      rw [hv, List.getElem?_append_right (by omega)]
      simpa [hb1] using hb2

/-- (B) the index the code looks up for the side (a,b) of a face is the vertex at the midpoint of a and b -/
theorem loop_lookup_is_midpoint (m m' : Raw) (h : loopOnce m = .ok m') (a b mab : Nat)
    (hl : getHalf (m.edges, m.verts.length) a b = .ok mab) :
    ∃ pa pb, m.verts[a]? = some pa ∧ m.verts[b]? = some pb ∧ m'.verts[mab]? = some (mid pa pb) ∧ m.verts.length ≤ mab := by
  unfold getHalf at hl
  cases hh : halfLookup m.edges m.verts.length (keyify a b) with
  | none => simp [hh] at hl
  | some r =>
    simp only [hh, Except.ok.injEq] at hl; subst hl
    obtain ⟨i, hi, hr, hk⟩ := halfLookup_spec _ _ _ _ hh
    obtain ⟨p, q, hp, hq, hm⟩ := loop_new_vertices m m' h i hi
    rcases keyify_eq hk with ⟨e1, e2⟩ | ⟨e1, e2⟩
    · exact ⟨p, q, by rw [← e1]; exact hp, by rw [← e2]; exact hq, by rw [hr]; exact hm, by omega⟩
    · refine ⟨q, p, by rw [← e2]; exact hq, by rw [← e1]; exact hp, ?_, by omega⟩
      rw [hr, hm]
      simp only [mid, Pt.add, Pt.divn, Option.some.injEq, Prod.mk.injEq]
      refine ⟨?_, ?_, ?_⟩ <;> rw [Rat.add_comm]

/-! ### the editing block -/

theorem Block.step_work (b b' : Block) (op : Op) (h : b.step op = .ok b') : applyOp b.work op = .ok b'.work := by
  simp only [Block.step, bind, Except.bind] at h
  cases h1 : applyOp b.work op with
  | error e => simp [h1] at h
  | ok w =>
    simp only [h1] at h
    by_cases hd : b.detached
    · simp only [hd, if_true, pure, Except.pure, Except.ok.injEq] at h; subst h; rfl
    · simp only [hd, Bool.false_eq_true, if_false] at h
      by_cases hr : op.replaces
      · simp only [hr, if_true] at h
        cases h2 : op.inPlacePart b.shared with
        | error e => simp [h2] at h
        | ok s => simp only [h2, pure, Except.pure, Except.ok.injEq] at h; subst h; rfl
      · simp only [hr, Bool.false_eq_true, if_false, pure, Except.pure, Except.ok.injEq] at h; subst h; rfl

/-- the working state of the block is exactly the fold of the operations (what the protocol driver computes) -/
theorem Block.run_work : ∀ (ops : List Op) (b b' : Block) (i : Nat), b.run ops = .ok b' → runOps b.work ops i = (b'.work, none)
  | [], b, b', i, h => by simp only [Block.run, pure, Except.pure, Except.ok.injEq] at h; subst h; rfl
  | op :: ops, b, b', i, h => by
    simp only [Block.run, bind, Except.bind] at h
    cases h1 : b.step op with
    | error e => simp [h1] at h
    | ok b1 =>
      simp only [h1] at h
      have hw := Block.step_work b b1 op h1
      simp only [runOps, hw]
      exact Block.run_work ops b1 b' (i + 1) h

end Mouette.Subdiv
