import Mouette.Lemmas.SubdivBorder2
/-
C13 (round 8): border loops through the in-place cuts (`split_face_as_fan`; the quad cut of `triangulate_face` when the
diagonal is not already a side): the border sides of the result are the border sides of the input, hence the successor
relation - and with it the border loops, their number and their lengths - is literally the same.
-/
namespace Mouette.Subdiv

theorem succ_of_border_eq (m m' : Raw) (hb : ∀ x, IsBorder m' x ↔ IsBorder m x) (x y : Nat × Nat) :
    IsSucc m' x y ↔ IsSucc m x y := by
  unfold IsSucc; rw [hb x, hb y]

theorem walk_of_border_eq (m m' : Raw) (hb : ∀ x, IsBorder m' x ↔ IsBorder m x) (x y : Nat × Nat) :
    Relation.ReflTransGen (IsSucc m') x y ↔ Relation.ReflTransGen (IsSucc m) x y := by
  constructor <;> intro h
  · induction h with
    | refl => exact Relation.ReflTransGen.refl
    | tail _ hbc ih => exact ih.tail ((succ_of_border_eq m m' hb _ _).mp hbc)
  · induction h with
    | refl => exact Relation.ReflTransGen.refl
    | tail _ hbc ih => exact ih.tail ((succ_of_border_eq m m' hb _ _).mpr hbc)

theorem fan_border_eq (m m' : Raw) (fid : Nat) (hwf : WF m) (h : splitFaceAsFan m fid = .ok m') (x : Nat × Nat) :
    IsBorder m' x ↔ IsBorder m x := by
  obtain ⟨f, _, hperm⟩ := fan_dirSides_perm m m' fid h
  constructor
  · rintro ⟨hx, hno⟩; exact (fan_border m m' fid hwf h x hx).mp hno
  · rintro ⟨hx, hno⟩
    have hx' : x ∈ dirSides m' := hperm.mem_iff.mpr (List.mem_append.mpr (Or.inl hx))
    exact ⟨hx', (fan_border m m' fid hwf h x hx').mpr ⟨hx, hno⟩⟩

theorem quad_border_eq (m m' : Raw) (fid a b c d : Nat) (hf : m.faces[fid]? = some [a, b, c, d])
    (h : triangulateFace m fid = .ok m') (h1 : (b, d) ∉ dirSides m) (h2 : (d, b) ∉ dirSides m) (x : Nat × Nat) :
    IsBorder m' x ↔ IsBorder m x := by
  have hperm := quad_dirSides_perm m m' fid a b c d hf h
  constructor
  · rintro ⟨hx, hno⟩; exact (quad_border m m' fid a b c d hf h h1 h2 x hx).mp hno
  · rintro ⟨hx, hno⟩
    have hx' : x ∈ dirSides m' := hperm.mem_iff.mpr (List.mem_append.mpr (Or.inl hx))
    exact ⟨hx', (quad_border m m' fid a b c d hf h h1 h2 x hx').mpr ⟨hx, hno⟩⟩

end Mouette.Subdiv
