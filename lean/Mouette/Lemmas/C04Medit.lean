import Mouette.Lemmas.C04Codecs
/-! C04: the medit reader automaton consumes the blocks written by `export_medit`. -/
namespace Mouette.IO
variable {C : Type}

theorem mapOpt_append {α β : Type} (g : α → Option β) (a b : List α) (a' b' : List β)
    (ha : mapOpt g a = some a') (hb : mapOpt g b = some b') : mapOpt g (a ++ b) = some (a' ++ b') := by
  induction a generalizing a' with
  | nil => simp [mapOpt] at ha; subst ha; simpa using hb
  | cons x t ih =>
    simp only [mapOpt] at ha
    cases hx : g x with
    | none => simp [hx] at ha
    | some y =>
      cases ht : mapOpt g t with
      | none => simp [hx, ht] at ha
      | some ys =>
        simp [hx, ht] at ha
        subst ha
        simp [mapOpt, hx, ih ys ht]

theorem readField_medRec (k : Nat) (f : List Nat) (hk : f.length = k) : readField k (medRec f) = some f := by
  have h1 : mapOpt readInt (f.map idx1 ++ [Tok.int 1]) = some (f.map (fun (n : Nat) => (n : Int) + 1) ++ [1]) := by
    apply mapOpt_append
    · exact mapOpt_map_gen idx1 readInt (fun (n : Nat) => (n : Int) + 1) f (fun x _ => rfl)
    · rfl
  simp only [readField, medRec, h1]
  have h2 : (f.map (fun (n : Nat) => (n : Int) + 1) ++ [1]).take k = f.map (fun (n : Nat) => (n : Int) + 1) := by
    rw [List.take_left' (by simp [hk])]
  rw [h2]
  apply mapOpt_map_of
  intro x _
  have : (1 : Int) ≤ (x : Int) + 1 := by omega
  simp only [this, if_true]
  congr 1
  omega

/-- all the records of one block, pushed in order -/
def pushAll (r : Raw C) (c : Cont) (fs : List (List Nat)) : Option (Raw C) :=
  foldOpt (fun r e => pushElem r c e) r fs

theorem medit_records (cd : Codec C) (rows : List (String × Cont × Nat)) (c : Cont) (k : Nat)
    (fs : List (List Nat)) (hk : ∀ f ∈ fs, f.length = k) (r r' : Raw C)
    (hp : pushAll r c fs = some r') :
    foldOpt (stepMedit cd rows) (afterCount (some (c, k)) fs.length, r) (fs.map medRec) = some (.idle, r') := by
  induction fs generalizing r with
  | nil => simp [pushAll, foldOpt] at hp; subst hp; simp [afterCount, foldOpt]
  | cons f t ih =>
    simp only [pushAll, foldOpt] at hp
    cases hpe : pushElem r c f with
    | none => simp [hpe] at hp
    | some r1 =>
      simp only [hpe] at hp
      have hstep : stepMedit cd rows (afterCount (some (c, k)) (f :: t).length, r) (medRec f)
          = some (afterCount (some (c, k)) t.length, r1) := by
        simp [afterCount, stepMedit, readField_medRec k f (hk f (by simp)), hpe]
      simp only [List.map_cons, foldOpt, hstep]
      exact ih (fun x hx => hk x (by simp [hx])) r1 hp

theorem pushAll_faces (r : Raw C) (fs : List (List Nat)) :
    pushAll r .faces fs = some { r with faces := r.faces ++ fs } := by
  induction fs generalizing r with
  | nil => simp [pushAll, foldOpt]
  | cons f t ih =>
    have hp : pushElem r .faces f = some { r with faces := r.faces ++ [f] } := rfl
    have := ih { r with faces := r.faces ++ [f] }
    simp only [pushAll] at this ⊢
    simp only [foldOpt, hp, this]; simp

theorem pushAll_cells (r : Raw C) (fs : List (List Nat)) :
    pushAll r .cells fs = some { r with cells := r.cells ++ fs } := by
  induction fs generalizing r with
  | nil => simp [pushAll, foldOpt]
  | cons f t ih =>
    have hp : pushElem r .cells f = some { r with cells := r.cells ++ [f] } := rfl
    have := ih { r with cells := r.cells ++ [f] }
    simp only [pushAll] at this ⊢
    simp only [foldOpt, hp, this]; simp

theorem pushAll_edges (r : Raw C) (es : List (Nat × Nat)) :
    pushAll r .edges (es.map (fun e => [e.1, e.2])) = some { r with edges := r.edges ++ es } := by
  induction es generalizing r with
  | nil => simp [pushAll, foldOpt]
  | cons e t ih =>
    have hp : pushElem r .edges [e.1, e.2] = some { r with edges := r.edges ++ [(e.1, e.2)] } := rfl
    have := ih { r with edges := r.edges ++ [(e.1, e.2)] }
    simp only [pushAll] at this ⊢
    simp only [List.map_cons, foldOpt, hp, this]; simp

/-- a whole element block, from the keyword line on -/
theorem medit_block (cd : Codec C) (rows : List (String × Cont × Nat)) (kwd : String) (c : Cont) (k : Nat)
    (hrow : lookupRow rows kwd = some (c, k)) (hE : kwd ≠ "End") (hV : kwd ≠ "Vertices")
    (fs : List (List Nat)) (hk : ∀ f ∈ fs, f.length = k) (r r' : Raw C) (hp : pushAll r c fs = some r') :
    foldOpt (stepMedit cd rows) (.idle, r) (block kwd (fs.map medRec)) = some (.idle, r') := by
  unfold block
  by_cases hnil : fs = []
  · subst hnil; simp [pushAll, foldOpt] at hp; subst hp; simp [foldOpt]
  · have : fs.map medRec ≠ [] := by simpa using hnil
    simp only [this, if_false, foldOpt]
    have h1 : stepMedit cd rows (.idle, r) [.kw kwd] = some (.count (some (c, k)), r) := by
      simp [stepMedit, hE, hV, hrow]
    have h2 : stepMedit cd rows (.count (some (c, k)), r) [idx0 (fs.map medRec).length]
        = some (afterCount (some (c, k)) fs.length, r) := by
      simp [stepMedit]
    simp only [h1, h2]
    exact medit_records cd rows c k fs hk r r' hp

theorem medit_vertices (cd : Codec C) (h : RoundTrips cd) (rows : List (String × Cont × Nat))
    (vs : List (C × C × C)) (r : Raw C) :
    foldOpt (stepMedit cd rows) (afterCount none vs.length, r) (vs.map (medVLine cd))
      = some (.idle, { r with verts := r.verts ++ vs }) := by
  induction vs generalizing r with
  | nil => simp [afterCount, foldOpt]
  | cons v t ih =>
    have hstep : stepMedit cd rows (afterCount none (v :: t).length, r) (medVLine cd v)
        = some (afterCount none t.length, { r with verts := r.verts ++ [v] }) := by
      simp [afterCount, stepMedit, medVLine, coordLine, readNum_num cd h]
    simp only [List.map_cons, foldOpt, hstep]
    rw [ih]; simp

theorem ofArity_length (n : Nat) (l : List (List Nat)) : ∀ f ∈ ofArity n l, f.length = n := by
  intro f hf
  simp only [ofArity, List.mem_filter] at hf
  simpa using hf.2

theorem importMedit_exportMedit (cd : Codec C) (h : RoundTrips cd) (m : Raw C) :
    importMedit cd (exportMedit cd m) = some (restrictMedit m) := by
  unfold importMedit importMeditWith exportMedit
  -- the two header lines are skipped in idle mode
  simp only [foldOpt]
  have s0 : stepMedit cd meditRows (.idle, Raw.empty) [.kw "MeshVersionFormatted", .int 1] = some (.idle, Raw.empty) := by
    simp [stepMedit]
  have s1 : stepMedit cd meditRows (.idle, (Raw.empty : Raw C)) [.kw "Dimension", .int 3] = some (.idle, Raw.empty) := by
    simp [stepMedit]
  simp only [s0, s1]
  -- vertices
  have hv : foldOpt (stepMedit cd meditRows) (.idle, (Raw.empty : Raw C))
      (if m.verts = [] then [] else [.kw "Vertices"] :: [idx0 m.verts.length] :: m.verts.map (medVLine cd))
      = some (.idle, { (Raw.empty : Raw C) with verts := m.verts }) := by
    by_cases hn : m.verts = []
    · simp [hn, foldOpt, Raw.empty]
    · simp only [hn, if_false, foldOpt]
      have a1 : stepMedit cd meditRows (.idle, (Raw.empty : Raw C)) [.kw "Vertices"] = some (.count none, Raw.empty) := by
        simp [stepMedit]
      have a2 : stepMedit cd meditRows (.count none, (Raw.empty : Raw C)) [idx0 m.verts.length]
          = some (afterCount none m.verts.length, Raw.empty) := by
        simp [stepMedit]
      simp only [a1, a2]
      rw [medit_vertices cd h]; simp [Raw.empty]
  rw [foldOpt_append_some _ _ _ _ _ hv]
  -- edges
  have he : foldOpt (stepMedit cd meditRows) (.idle, { (Raw.empty : Raw C) with verts := m.verts })
      (if m.edges = [] then [] else
        [.kw "Edges"] :: [idx0 (medEdges m).length] :: (medEdges m).map (fun e => medRec [e.1, e.2]))
      = some (.idle, { (Raw.empty : Raw C) with verts := m.verts, edges := medEdges m }) := by
    by_cases hn : m.edges = []
    · have : medEdges m = [] := by
        unfold medEdges hardEdges
        cases m.hard with
        | none => exact hn
        | some l => simp only [hn]; split <;> simp
      simp [hn, this, foldOpt, Raw.empty]
    · simp only [hn, if_false, foldOpt]
      have a1 : stepMedit cd meditRows (.idle, { (Raw.empty : Raw C) with verts := m.verts }) [.kw "Edges"]
          = some (.count (some (.edges, 2)), { (Raw.empty : Raw C) with verts := m.verts }) := by
        simp [stepMedit, lookupRow, meditRows]
      have a2 : stepMedit cd meditRows (.count (some (.edges, 2)), { (Raw.empty : Raw C) with verts := m.verts })
            [idx0 (medEdges m).length]
          = some (afterCount (some (.edges, 2)) ((medEdges m).map (fun e => [e.1, e.2])).length,
                  { (Raw.empty : Raw C) with verts := m.verts }) := by
        simp [stepMedit]
      simp only [a1, a2]
      have hmap : (medEdges m).map (fun e => medRec [e.1, e.2])
          = ((medEdges m).map (fun e => [e.1, e.2])).map medRec := by simp
      rw [hmap]
      apply medit_records cd meditRows .edges 2 _ (by intro f hf; simp at hf; obtain ⟨_, _, _, rfl⟩ := hf; rfl)
      rw [pushAll_edges]; simp [Raw.empty]
  rw [foldOpt_append_some _ _ _ _ _ he]
  -- triangles, quads, hexahedra, tetrahedra
  rw [foldOpt_append_some _ _ _ _ _
    (medit_block cd meditRows "Triangles" .faces 3 (by decide) (by decide) (by decide) _ (ofArity_length 3 _) _ _
      (pushAll_faces _ _))]
  rw [foldOpt_append_some _ _ _ _ _
    (medit_block cd meditRows "Quadrilaterals" .faces 4 (by decide) (by decide) (by decide) _ (ofArity_length 4 _) _ _
      (pushAll_faces _ _))]
  rw [foldOpt_append_some _ _ _ _ _
    (medit_block cd meditRows "Hexahedra" .cells 8 (by decide) (by decide) (by decide) _ (ofArity_length 8 _) _ _
      (pushAll_cells _ _))]
  rw [medit_block cd meditRows "Tetrahedra" .cells 4 (by decide) (by decide) (by decide) _ (ofArity_length 4 _) _ _
      (pushAll_cells _ _)]
  simp [restrictMedit, Raw.empty]

end Mouette.IO
