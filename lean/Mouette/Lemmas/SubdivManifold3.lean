import Mouette.Lemmas.SubdivManifold2
/-
C13 (round 4): the quad cut of `triangulate_face` and consistent orientation / border sides.
As a multiset, the directed sides of the result are those of the input plus the two orientations (b,d), (d,b) of the
diagonal.  So WHEN THE DIAGONAL IS NOT ALREADY A SIDE of the surface (regular complexes) orientation and border sides are
preserved; when it is, the result is not a surface (open finding `C13/triangulate/non-regular-complex`).
-/
namespace Mouette.Subdiv

theorem quad_dirSides_perm (m m' : Raw) (fid a b c d : Nat) (hf : m.faces[fid]? = some [a, b, c, d])
    (h : triangulateFace m fid = .ok m') : (dirSides m').Perm (dirSides m ++ [(b, d), (d, b)]) := by
  obtain ⟨_, hfa, _, _⟩ := quad_split_spec m m' fid a b c d hf h
  have hi : fid < m.faces.length := by
    by_contra hcn; rw [List.getElem?_eq_none (by omega)] at hf; cases hf
  have hget : m.faces[fid] = [a, b, c, d] := by
    have := List.getElem?_eq_getElem hi; rw [this] at hf; exact Option.some.inj hf
  set L1 := m.faces.take fid
  set L2 := m.faces.drop (fid + 1)
  have hsplit : m.faces = L1 ++ [a, b, c, d] :: L2 := by
    rw [← hget, ← List.drop_eq_getElem_cons hi, List.take_append_drop]
  have hset : m.faces.set fid [a, b, d] = L1 ++ [a, b, d] :: L2 := by
    rw [List.set_eq_take_append_cons_drop, if_pos hi]
  have e1 : dirSides m' = L1.flatMap cycPairs ++ ([(a, b), (b, d), (d, a)] ++ L2.flatMap cycPairs) ++ [(b, c), (c, d), (d, b)] := by
    simp only [dirSides, hfa, hset, List.flatMap_append, List.flatMap_cons, List.flatMap_nil, List.append_nil]
    rfl
  have e0 : dirSides m = L1.flatMap cycPairs ++ ([(a, b), (b, c), (c, d), (d, a)] ++ L2.flatMap cycPairs) := by
    simp only [dirSides]
    rw [hsplit]
    simp only [List.flatMap_append, List.flatMap_cons]
    rfl
  have pX : ([(a, b), (b, d), (d, a)] ++ [(b, c), (c, d), (d, b)]).Perm ([(a, b), (b, c), (c, d), (d, a)] ++ [(b, d), (d, b)]) := by
    rw [← Multiset.coe_eq_coe]
    simp only [List.cons_append, List.nil_append, ← Multiset.cons_coe, ← Multiset.singleton_add]
    abel
  rw [e1, e0]
  rw [← Multiset.coe_eq_coe] at pX ⊢
  simp only [← Multiset.coe_add] at pX ⊢
  have gen : ∀ (A B C D E F : Multiset (Nat × Nat)), B + D = E + F → A + (B + C) + D = A + (E + C) + F := by
    intro A B C D E F hh
    calc A + (B + C) + D = A + C + (B + D) := by abel
      _ = A + C + (E + F) := by rw [hh]
      _ = A + (E + C) + F := by abel
  exact gen _ _ _ _ _ _ pX

/-- the quad cut preserves "every directed side occurs in at most one face" when the diagonal is not already a side -/
theorem quad_oriented (m m' : Raw) (fid a b c d : Nat) (hf : m.faces[fid]? = some [a, b, c, d])
    (h : triangulateFace m fid = .ok m') (ho : OrientedSides m) (hbd : b ≠ d)
    (h1 : (b, d) ∉ dirSides m) (h2 : (d, b) ∉ dirSides m) : OrientedSides m' := by
  unfold OrientedSides
  rw [(quad_dirSides_perm m m' fid a b c d hf h).nodup_iff, List.nodup_append]
  refine ⟨ho, ?_, ?_⟩
  · simp only [List.nodup_cons, List.mem_singleton, Prod.mk.injEq, not_and, List.not_mem_nil, not_false_eq_true, List.nodup_nil, and_true]
    intro e; exact absurd e hbd
  · intro x hx y hy hxy
    subst hxy
    simp only [List.mem_cons, List.not_mem_nil, or_false] at hy
    rcases hy with rfl | rfl
    · exact h1 hx
    · exact h2 hx

/-- ... and then the border sides of the result are exactly the border sides of the input (the diagonal has both orientations) -/
theorem quad_border (m m' : Raw) (fid a b c d : Nat) (hf : m.faces[fid]? = some [a, b, c, d])
    (h : triangulateFace m fid = .ok m') (h1 : (b, d) ∉ dirSides m) (h2 : (d, b) ∉ dirSides m) (x : Nat × Nat)
    (hx : x ∈ dirSides m') : (x.2, x.1) ∉ dirSides m' ↔ (x ∈ dirSides m ∧ (x.2, x.1) ∉ dirSides m) := by
  have memD : ∀ y, y ∈ dirSides m' ↔ y ∈ dirSides m ∨ y = (b, d) ∨ y = (d, b) := fun y => by
    rw [(quad_dirSides_perm m m' fid a b c d hf h).mem_iff, List.mem_append]
    simp
  rcases (memD x).mp hx with hxm | hxs | hxs
  · constructor
    · intro hno; exact ⟨hxm, fun hc => hno ((memD _).mpr (Or.inl hc))⟩
    · rintro ⟨_, hno⟩ hopp
      rcases (memD _).mp hopp with hc | hc | hc
      · exact hno hc
      · have : x = (d, b) := by
          obtain ⟨x1, x2⟩ := x; simp only [Prod.mk.injEq] at hc; simp [hc.1, hc.2]
        rw [this] at hxm; exact h2 hxm
      · have : x = (b, d) := by
          obtain ⟨x1, x2⟩ := x; simp only [Prod.mk.injEq] at hc; simp [hc.1, hc.2]
        rw [this] at hxm; exact h1 hxm
  · subst hxs
    constructor
    · intro hno; exact absurd ((memD (d, b)).mpr (Or.inr (Or.inr rfl))) hno
    · rintro ⟨hxm, _⟩; exact absurd hxm h1
  · subst hxs
    constructor
    · intro hno; exact absurd ((memD (b, d)).mpr (Or.inr (Or.inl rfl))) hno
    · rintro ⟨hxm, _⟩; exact absurd hxm h2

end Mouette.Subdiv
