import Mouette.Lemmas.EdgeCount
/-!
"No repeated face" from consistent orientation: in a face list whose directed sides are pairwise distinct, two faces at different
positions have no directed side in common — in particular no face is listed twice, and no face is a rotation of another one
(a rotation has the same directed sides).
-/
namespace Mouette.EdgeCount
open Mouette.MeshCheck

theorem sides_ne_nil (f : Face) (h : f ≠ []) : sides f ≠ [] := by
  cases f with
  | nil => exact absurd rfl h
  | cons a r =>
    intro hs
    have : (sides (a :: r)).length = (a :: r).length := by
      simp only [sides, List.length_zip, List.length_append, List.length_tail, List.length_cons, List.length_nil]
      omega
    rw [hs] at this; simp at this

/-- faces at different positions share no directed side -/
theorem faces_pairwise_disjoint_sides (fs : List Face) (hnd : (dirEdges fs).Nodup) :
    fs.Pairwise (fun f g => ∀ e ∈ sides f, e ∉ sides g) := by
  induction fs with
  | nil => exact List.Pairwise.nil
  | cons f t ih =>
    have h : (sides f ++ dirEdges t).Nodup := by simpa [dirEdges] using hnd
    rw [List.nodup_append] at h
    refine List.Pairwise.cons ?_ (ih h.2.1)
    intro g hg e he heg
    exact h.2.2 e he e ((mem_dirEdges t e).mpr ⟨g, hg, heg⟩) rfl

/-- no face is listed twice -/
theorem faces_nodup_of_oriented (fs : List Face) (hne : ∀ f ∈ fs, f ≠ []) (hnd : (dirEdges fs).Nodup) : fs.Nodup := by
  have hp := faces_pairwise_disjoint_sides fs hnd
  induction fs with
  | nil => exact List.nodup_nil
  | cons f t ih =>
    rw [List.pairwise_cons] at hp
    refine List.nodup_cons.mpr ⟨?_, ih (fun g hg => hne g (List.mem_cons_of_mem _ hg)) ?_ hp.2⟩
    · intro hf
      have hs := sides_ne_nil f (hne f List.mem_cons_self)
      obtain ⟨e, he⟩ := List.exists_mem_of_ne_nil _ hs
      exact hp.1 f hf e he he
    · have h : (sides f ++ dirEdges t).Nodup := by simpa [dirEdges] using hnd
      exact (List.nodup_append.mp h).2.1

end Mouette.EdgeCount
