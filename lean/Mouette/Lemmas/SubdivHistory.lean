import Mouette.Lemmas.SubdivBlock
/-
C13 (round 3): HISTORIES. Several editing blocks run one after the other on the same mesh object.  With the repaired
`__exit__` the object handed to the next block is a freshly initialised mesh, so what was cached on the object before
(connectivity, boundary data, flags) cannot influence any later result.
-/
namespace Mouette.Subdiv

/-- the same block state with another cache content of the caller's object -/
def Block.withCache (b : Block) (c : Option (List (List Nat))) : Block := { b with cache := c }

theorem Block.step_withCache (b : Block) (op : Op) (c : Option (List (List Nat))) :
    (b.withCache c).step op = (b.step op).map (fun b' => b'.withCache c) := by
  simp only [Block.step, Block.withCache, bind, Except.bind]
  cases applyOp b.work op with
  | error e => rfl
  | ok w =>
    by_cases hd : b.detached
    · simp [hd, Except.map, pure, Except.pure]
    · by_cases hr : op.replaces
      · simp only [hd, hr, Bool.false_eq_true, if_false, if_true]
        cases op.inPlacePart b.shared <;> rfl
      · simp [hd, hr, Except.map, pure, Except.pure]

theorem Block.run_withCache : ∀ (ops : List Op) (b : Block) (c : Option (List (List Nat))),
    (b.withCache c).run ops = (b.run ops).map (fun b' => b'.withCache c)
  | [], b, c => rfl
  | op :: ops, b, c => by
    simp only [Block.run, bind, Except.bind, Block.step_withCache]
    cases b.step op with
    | error e => rfl
    | ok b1 => simp only [Except.map]; exact Block.run_withCache ops b1 c

/-- several blocks on the same object: every block starts from the object the previous block left (repaired `__exit__`) -/
def runBlocksView (v : View) : List (List Op) → Except Err View
  | [] => .ok v
  | b :: bs => match (Block.enter v).run b with
    | .error e => .error e
    | .ok blk => runBlocksView blk.inputFixed bs

/-- the same history as the protocol driver computes it: fold of the operations, `prepare` after every block -/
def runBlocksRaw (m : Raw) : List (List Op) → Option Raw
  | [] => some m
  | b :: bs => match runOps m b 0 with
    | (m', none) => runBlocksRaw (prepare m') bs
    | (_, some _) => none

theorem result_withCache (b : Block) (c : Option (List (List Nat))) : (b.withCache c).inputFixed = b.inputFixed := rfl

/-- **the n-th block on a used object equals the same block on a fresh one**: whatever had been cached on the caller's
object (and whatever its corner count was), the views after any sequence of blocks are the same -/
theorem blocks_independent_of_cached_state (raw : Raw) (k1 k2 : Nat) (c1 c2 : Option (List (List Nat)))
    (blocks : List (List Op)) (hne : blocks ≠ []) :
    runBlocksView ⟨raw, k1, c1⟩ blocks = runBlocksView ⟨raw, k2, c2⟩ blocks := by
  cases blocks with
  | nil => exact absurd rfl hne
  | cons b bs =>
    simp only [runBlocksView]
    have e : Block.enter ⟨raw, k1, c1⟩ = (Block.enter ⟨raw, k2, c2⟩).withCache c1 := rfl
    rw [e, Block.run_withCache]
    cases (Block.enter ⟨raw, k2, c2⟩).run b with
    | error e => rfl
    | ok blk => simp only [Except.map, result_withCache]

/-- after any non-empty history the object is coherent (corners spell the faces, nothing cached), and its containers are
what the driver's fold computes -/
theorem blocks_history : ∀ (blocks : List (List Op)) (v v' : View), blocks ≠ [] → runBlocksView v blocks = .ok v' →
    v'.coherent = true ∧ v'.cache = none ∧ runBlocksRaw v.raw blocks = some v'.raw
  | [], _, _, hne, _ => absurd rfl hne
  | b :: bs, v, v', _, h => by
    simp only [runBlocksView] at h
    cases h1 : (Block.enter v).run b with
    | error e => simp [h1] at h
    | ok blk =>
      simp only [h1] at h
      have hw := Block.run_work b (Block.enter v) blk 0 h1
      have hw' : runOps v.raw b 0 = (blk.work, none) := hw
      simp only [runBlocksRaw, hw']
      cases bs with
      | nil =>
        simp only [runBlocksView, Except.ok.injEq] at h
        subst h
        exact ⟨by simp [Block.inputFixed, Block.result, View.coherent], rfl, rfl⟩
      | cons b2 bs2 =>
        exact blocks_history (b2 :: bs2) blk.inputFixed v' (by simp) h

end Mouette.Subdiv
