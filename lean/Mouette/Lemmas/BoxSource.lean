import Mouette.Lemmas.AABB
import Mouette.Generated.C12Box
/-
List-level lemmas linking the numpy vocabulary of `Model/BoxSource.lean` (componentwise `zipWith`s) to the recursive
definitions of `Model/AABB.lean`.
-/
namespace Mouette.BoxS
open Mouette.AABB Mouette.AABB.EQ Mouette.AABB.Box

theorem subR_eq_addR_neg (l : EQ) (x : Rat) : l.subR x = l.addR (-x) := by
  cases l <;> simp [EQ.subR, EQ.addR, Rat.sub_eq_add_neg]

theorem vsubPt_eq (a : V) (p : List Rat) : vsubPt a p = List.zipWith (fun l x => l.addR (-x)) a p := by
  unfold vsubPt
  congr 1
  funext l x
  exact subR_eq_addR_neg l x

/-- `np.maximum(np.maximum(mini - pt, pt - maxi), 0.)` is the excess vector of the model -/
theorem distVec_eq : ∀ (l h : V) (q : List Rat), vmax0 (vmax (vsubPt l q) (ptSubV q h)) = distVec l h q
  | [], _, _ => by simp [vmax0, vmax, vsubPt, distVec]
  | _ :: _, [], _ => by simp [vmax0, vmax, vsubPt, ptSubV, distVec]
  | _ :: _, _ :: _, [] => by simp [vmax0, vmax, vsubPt, ptSubV, distVec]
  | a :: l, b :: h, c :: q => by
    have ih := distVec_eq l h q
    simp only [vmax0, vmax, vsubPt, ptSubV, List.zipWith_cons_cons, List.map_cons, distVec, excess] at ih ⊢
    rw [ih]

theorem clampVec_eq : ∀ (l h : V) (q : List Rat), vmax l (vmin h (ofPt q)) = clampVec l h q
  | [], _, _ => by simp [vmax, clampVec]
  | _ :: _, [], _ => by simp [vmax, vmin, clampVec]
  | _ :: _, _ :: _, [] => by simp [vmax, vmin, ofPt, clampVec]
  | a :: l, b :: h, c :: q => by
    have ih := clampVec_eq l h q
    simp only [vmax, vmin, ofPt, List.map_cons, List.zipWith_cons_cons, clampVec] at ih ⊢
    rw [ih]

theorem anyGe_eq : ∀ (l h : V), bany (vle h l) = anyGe l h
  | [], _ => by cases ‹V› <;> simp [bany, vle, anyGe]
  | _ :: _, [] => by simp [bany, vle, anyGe]
  | a :: l, b :: h => by
    have ih := anyGe_eq l h
    simp only [bany, vle, List.zipWith_cons_cons, List.any_cons, id, anyGe] at ih ⊢
    rw [ih]

theorem containsAux_eq : ∀ (l h : V) (q : List Rat), l.length = q.length → h.length = q.length →
    (ball (vle l (ofPt q)) && ball (vlt (ofPt q) h)) = containsAux l h q
  | [], [], [], _, _ => by simp [ball, vle, vlt, ofPt, containsAux]
  | a :: l, b :: h, c :: q, h1, h2 => by
    have ih := containsAux_eq l h q (by simpa using h1) (by simpa using h2)
    simp only [ball, vle, vlt, ofPt, List.map_cons, List.zipWith_cons_cons, List.all_cons, id, containsAux] at ih ⊢
    rw [← ih]
    generalize decide (a ≤ fin c) = x
    generalize decide (fin c < b) = y
    generalize (List.zipWith (fun x y => decide (x ≤ y)) l (List.map fin q)).all id = z
    generalize (List.zipWith (fun x y => decide (x < y)) (List.map fin q) h).all id = w
    cases x <;> cases y <;> cases z <;> cases w <;> rfl
  | [], _ :: _, [], _, h2 => by simp at h2
  | [], [], _ :: _, h1, _ => by simp at h1
  | [], _ :: _, _ :: _, h1, _ => by simp at h1
  | _ :: _, [], [], h1, _ => by simp at h1
  | _ :: _, _ :: _, [], h1, _ => by simp at h1
  | _ :: _, [], _ :: _, _, h2 => by simp at h2

/-- the list comprehension of `do_intersect` over `range(dim)` is the recursive `overlapAll` (four lists of one length) -/
theorem overlapAll_eq : ∀ (al ah bl bh : V), ah.length = al.length → bl.length = al.length → bh.length = al.length →
    ball ((List.range al.length).map (fun i => decide (al.getD i (fin 0) ≤ bh.getD i (fin 0)) && decide (bl.getD i (fin 0) ≤ ah.getD i (fin 0)))) =
      overlapAll al ah bl bh
  | [], [], [], [], _, _, _ => by simp [ball, overlapAll]
  | a :: al, b :: ah, c :: bl, d :: bh, h1, h2, h3 => by
    have ih := overlapAll_eq al ah bl bh (by simpa using h1) (by simpa using h2) (by simpa using h3)
    simp only [List.length_cons, List.range_succ_eq_map, List.map_cons, List.map_map, ball, List.all_cons, id, overlapAll,
      overlap1, List.getD_cons_zero] at ih ⊢
    rw [← ih]
    congr 1
  | [], _ :: _, _, _, h1, _, _ => by simp at h1
  | [], [], _ :: _, _, _, h2, _ => by simp at h2
  | [], [], [], _ :: _, _, _, h3 => by simp at h3
  | _ :: _, [], _, _, h1, _, _ => by simp at h1
  | _ :: _, _ :: _, [], _, _, h2, _ => by simp at h2
  | _ :: _, _ :: _, _ :: _, [], _, _, h3 => by simp at h3

theorem zipWith_replicate_sub (c : List Rat) (n : Nat) (x : Rat) (h : c.length ≤ n) :
    List.zipWith (· - ·) c (List.replicate n x) = c.map (· - x) := by
  induction c generalizing n with
  | nil => simp
  | cons a as ih =>
    cases n with
    | zero => simp at h
    | succ m => simp [List.replicate_succ, ih m (by simpa using h)]

theorem zipWith_replicate_add (c : List Rat) (n : Nat) (x : Rat) (h : c.length ≤ n) :
    List.zipWith (· + ·) c (List.replicate n x) = c.map (· + x) := by
  induction c generalizing n with
  | nil => simp
  | cons a as ih =>
    cases n with
    | zero => simp at h
    | succ m => simp [List.replicate_succ, ih m (by simpa using h)]

end Mouette.BoxS
