import Mouette.Lemmas.CuttingThm
import Mouette.Model.CuttingCount
import Mathlib.Data.List.Perm.Subperm
import Mathlib.Data.Finset.Card
import Mathlib.Data.Finset.Image
/-!
Counting for the Euler characteristic of the cut mesh built by `_build_mesh_with_cuts` (triangle lists):

* `V'` (number of output vertices) = number of union-find classes of corners = `3F − (number of effective unions)`;
* the two sides of every uncut interior edge are the same undirected edge of the output ("twins");
* a generic counting lemma: if the only coincidences between side keys are the twins, the number of distinct
  side keys is `3F − |uncut|`.
-/
namespace Mouette.Cutting
open Mouette Mouette.UF

/-! ### number of classes -/

theorem nComps_pos {s : State} (inv : Inv s) {x : Nat} (hx : x ∈ s.elts) : 0 < s.nComps := by
  rw [nComps_eq_rootIdxs inv]
  exact List.length_pos_of_mem (classOf_mem_rootIdxs inv hx)

/-- one `union` of two present elements lowers the number of classes by one iff it joins two classes -/
theorem nComps_union {s : State} (inv : Inv s) {x y : Nat} (hx : x ∈ s.elts) (hy : y ∈ s.elts) :
    (union s x y).nComps + (if classOf s x = classOf s y then 0 else 1) = s.nComps := by
  obtain ⟨s3, _, pe, hu⟩ := union_unfold inv x y
  have hadd : add (add s x) y = s := by rw [add_of_mem hx, add_of_mem hy]
  rw [hadd] at pe hu
  have hn : s3.nComps = s.nComps := pe.nComps
  have hpos := nComps_pos inv hx
  rw [hu]
  by_cases h : classOf s x = classOf s y
  · rw [if_pos h, if_pos h]; omega
  · rw [if_neg h, if_neg h]
    split <;> (simp only []; omega)

theorem effCount_le (s : State) : ∀ ps : List (Nat × Nat), effCount s ps ≤ ps.length
  | [] => Nat.le_refl _
  | p :: ps => by
    have := effCount_le (union s p.1 p.2) ps
    unfold effCount
    simp only [List.length_cons]
    split <;> omega

theorem nComps_applyUnions (n : Nat) : ∀ (ps : List (Nat × Nat)) (s : State), Inv s → s.elts = List.range n →
    (∀ p, p ∈ ps → p.1 < n ∧ p.2 < n) → (applyUnions s ps).nComps + effCount s ps = s.nComps
  | [], _, _, _, _ => rfl
  | p :: ps, s, inv, he, ok => by
    obtain ⟨h1, h2⟩ := ok p List.mem_cons_self
    have hx : p.1 ∈ s.elts := by rw [he]; simpa using h1
    have hy : p.2 ∈ s.elts := by rw [he]; simpa using h2
    have inv' : Inv (union s p.1 p.2) := (union_spec inv p.1 p.2).1
    have he' : (union s p.1 p.2).elts = List.range n := by rw [union_elts_of_mem inv hx hy, he]
    have ih := nComps_applyUnions n ps (union s p.1 p.2) inv' he' (fun q hq => ok q (List.mem_cons_of_mem _ hq))
    have hu := nComps_union inv hx hy
    show (applyUnions (union s p.1 p.2) ps).nComps + effCount s (p :: ps) = s.nComps
    unfold effCount
    omega

theorem ufRange_nComps : ∀ n : Nat, (ufRange n).nComps = n
  | 0 => rfl
  | n + 1 => by
    obtain ⟨_, he, _⟩ := ufRange_spec (fun _ => ()) n
    have hstep : ufRange (n + 1) = add (ufRange n) n := by
      unfold ufRange; rw [List.range_succ, List.foldl_append]; rfl
    have hn : n ∉ (ufRange n).elts := by rw [he]; simp
    rw [hstep, add_of_not_mem hn]
    simp only []
    rw [ufRange_nComps n]

/-- the number of output vertices is the number of union-find classes of corners -/
theorem Flat.vertex_count {nV : Nat} {F : List Face} {uncut : List (Nat × Nat)} {o : Out}
    {ps : List (Nat × Nat)} {s1 : State} (fl : Flat nV F uncut o ps s1) : o.pos.length = s1.nComps := by
  rw [fl.pos, orderVerts_length, nComps_eq_rootIdxs fl.inv]
  have hlen : (buildImap o.roots3).length = ((buildImap o.roots3).map Prod.fst).length := by simp
  rw [hlen]
  apply Nat.le_antisymm
  · apply (fl.wf.2.subperm ?_).length_le
    intro r hr
    obtain ⟨e, he, rfl⟩ := List.mem_map.mp hr
    have hkey : e.1 ∈ o.roots3.flatten := by
      rcases foldl_imapStep_keys o.roots3.flatten [] e he with h0 | h0
      · simp at h0
      · exact h0
    rw [fl.roots3] at hkey
    obtain ⟨c, hc, hce⟩ := List.mem_map.mp hkey
    rw [← hce]
    exact classOf_mem_rootIdxs fl.inv (mem_range_elts fl.elts (by simpa using hc))
  · apply ((rootIdxs_nodup s1).subperm ?_).length_le
    intro r hr
    have hlt : r < 3 * F.length := by
      have := (mem_rootIdxs.mp hr).1
      rw [fl.elts] at this; simpa using this
    have h1 := classOf_eltAt_root fl.inv hr
    rw [eltAt_range fl.elts hlt] at h1
    have hk := fl.look_some r hlt
    rw [h1] at hk
    exact List.mem_map.mpr ⟨_, lookup_some_mem _ hk, rfl⟩

theorem unionPairs_length (he : List ((Nat × Nat) × (Nat × Nat × Nat))) (CF : List (List Nat)) :
    ∀ (uncut ps : List (Nat × Nat)), unionPairs he CF uncut = some ps → ps.length = 2 * uncut.length
  | [], ps, h => by simp only [unionPairs, Option.some.injEq] at h; subst h; rfl
  | ab :: r, ps, h => by
    unfold unionPairs at h
    split at h
    · rename_i p q l _ hr
      injection h with h
      subst h
      simp only [List.length_cons, unionPairs_length he CF r l hr]
      omega
    · cases h

/-! ### twin sides -/

theorem corner_from_tri : ∀ (F : List Face) (k f i c : Nat), AllTri F →
    corner (cornerFacesFrom k F) f i = some c → c = k + 3 * f + i ∧ i < 3
  | [], _, f, i, c, _, h => by simp [corner, cornerFacesFrom] at h
  | g :: gs, k, 0, i, c, tri, h => by
    have hg : g.length = 3 := tri g List.mem_cons_self
    simp only [corner, cornerFacesFrom, List.getElem?_cons_zero, Option.bind_some] at h
    have hi : i < g.length := by
      by_cases hn : i < g.length
      · exact hn
      · rw [List.getElem?_eq_none (by simp; omega)] at h
        cases h
    rw [List.getElem?_eq_getElem (by simpa using hi)] at h
    simp only [List.getElem_map, List.getElem_range, Option.some.injEq] at h
    omega
  | g :: gs, k, f + 1, i, c, tri, h => by
    have hg : g.length = 3 := tri g List.mem_cons_self
    have h' : corner (cornerFacesFrom (k + g.length) gs) f i = some c := by
      simpa [corner, cornerFacesFrom] using h
    obtain ⟨hc, hi⟩ := corner_from_tri gs (k + g.length) f i c (fun x hx => tri x (List.mem_cons_of_mem _ hx)) h'
    omega

theorem halfEdgesOfFace_next {iF : Nat} {g : Face} {x : (Nat × Nat) × (Nat × Nat × Nat)}
    (h : x ∈ halfEdgesOfFace iF g) : x.2.2.1 < g.length ∧ x.2.2.2 = (x.2.2.1 + 1) % g.length := by
  unfold halfEdgesOfFace at h
  rw [List.mem_map] at h
  obtain ⟨iV, hiV, rfl⟩ := h
  exact ⟨by simpa using hiV, rfl⟩

theorem halfEdgesFrom_next : ∀ (F : List Face) (k : Nat) (x : (Nat × Nat) × (Nat × Nat × Nat)),
    x ∈ halfEdgesFrom k F → ∃ g, g ∈ F ∧ x.2.2.1 < g.length ∧ x.2.2.2 = (x.2.2.1 + 1) % g.length
  | [], _, x, h => by simp [halfEdgesFrom] at h
  | g :: gs, k, x, h => by
    simp only [halfEdgesFrom, List.mem_append] at h
    rcases h with h | h
    · exact ⟨g, List.mem_cons_self, halfEdgesOfFace_next h⟩
    · obtain ⟨g', hg', h2⟩ := halfEdgesFrom_next gs (k + 1) x h
      exact ⟨g', List.mem_cons_of_mem _ hg', h2⟩

theorem directFace_next {F : List Face} (tri : AllTri F) {u v f i j : Nat}
    (h : directFace (halfEdges F) u v = some (f, i, j)) : i < 3 ∧ j = (i + 1) % 3 := by
  unfold directFace at h
  rw [Option.map_eq_some_iff] at h
  obtain ⟨x, hx, hx2⟩ := h
  have hm : x ∈ (halfEdges F).reverse := List.mem_of_find?_eq_some hx
  rw [List.mem_reverse] at hm
  obtain ⟨g, hg, h1, h2⟩ := halfEdgesFrom_next F 0 x hm
  rw [tri g hg] at h1 h2
  rw [hx2] at h1 h2
  exact ⟨h1, h2⟩

/-- the two union pairs of an uncut edge start and end the two sides of that edge -/
theorem gluePairs_sides {F : List Face} (tri : AllTri F) {ab : Nat × Nat} {p q : Nat × Nat}
    (h : gluePairs (halfEdges F) (cornerFaces F) ab = some (p, q)) : nxt p.1 = q.1 ∧ nxt q.2 = p.2 := by
  unfold gluePairs at h
  split at h
  · rename_i f1 iA1 iB1 f2 iB2 iA2 hd1 hd2
    split at h
    · rename_i c1 c2 c3 c4 hc1 hc2 hc3 hc4
      injection h with h
      injection h with hp hq
      subst hp; subst hq
      obtain ⟨a1, b1⟩ := directFace_next tri hd1
      obtain ⟨a2, b2⟩ := directFace_next tri hd2
      obtain ⟨e1, _⟩ := corner_from_tri F 0 f1 iA1 c1 tri hc1
      obtain ⟨e2, _⟩ := corner_from_tri F 0 f2 iA2 c2 tri hc2
      obtain ⟨e3, _⟩ := corner_from_tri F 0 f1 iB1 c3 tri hc3
      obtain ⟨e4, _⟩ := corner_from_tri F 0 f2 iB2 c4 tri hc4
      unfold nxt
      simp only []
      constructor <;> omega
    · cases h
  · cases h

theorem twins_spec {F : List Face} (tri : AllTri F) : ∀ (uncut ps : List (Nat × Nat)),
    unionPairs (halfEdges F) (cornerFaces F) uncut = some ps →
    (twins ps).length = uncut.length ∧
    ∀ t, t ∈ twins ps → ∃ p q, p ∈ ps ∧ q ∈ ps ∧ t = (p.1, q.2) ∧ nxt p.1 = q.1 ∧ nxt q.2 = p.2
  | [], ps, h => by
    simp only [unionPairs, Option.some.injEq] at h
    subst h
    exact ⟨rfl, fun t ht => by simp [twins] at ht⟩
  | ab :: r, ps, h => by
    unfold unionPairs at h
    split at h
    · rename_i p q l hg hr
      injection h with h
      subst h
      obtain ⟨hl, hall⟩ := twins_spec tri r l hr
      refine ⟨by simp [twins, hl], ?_⟩
      intro t ht
      simp only [twins, List.mem_cons] at ht
      rcases ht with ht | ht
      · obtain ⟨s1, s2⟩ := gluePairs_sides tri hg
        exact ⟨p, q, List.mem_cons_self, List.mem_cons_of_mem _ List.mem_cons_self, ht, s1, s2⟩
      · obtain ⟨p', q', hp', hq', rest⟩ := hall t ht
        exact ⟨p', q', List.mem_cons_of_mem _ (List.mem_cons_of_mem _ hp'),
          List.mem_cons_of_mem _ (List.mem_cons_of_mem _ hq'), rest⟩
    · cases h

theorem ukey_swap (a b : Nat) : ukey (a, b) = ukey (b, a) := by
  unfold ukey
  simp only []
  by_cases h1 : a ≤ b <;> by_cases h2 : b ≤ a
  · have : a = b := by omega
    subst this; rfl
  · rw [if_pos h1, if_neg h2]
  · rw [if_neg h1, if_pos h2]
  · omega

/-- number of distinct undirected edges among the `3F` sides of the output faces -/
def edgeCount (o : Out) (nF : Nat) : Nat := ((Finset.range (3 * nF)).image (sideKey o)).card

/-! ### counting sides modulo twins -/

theorem card_image_twins {κ : Type} [DecidableEq κ] (N : Nat) (K : Nat → κ) (tw : List (Nat × Nat))
    (hlt : ∀ p, p ∈ tw → p.1 < N ∧ p.2 < N) (heq : ∀ p, p ∈ tw → K p.1 = K p.2)
    (hR : (tw.map Prod.snd).Nodup) (hdisj : ∀ p, p ∈ tw → p.1 ∉ tw.map Prod.snd)
    (sep : ∀ a b, a < N → b < N → K a = K b → a = b ∨ (a, b) ∈ tw ∨ (b, a) ∈ tw) :
    ((Finset.range N).image K).card + tw.length = N := by
  classical
  let R : Finset Nat := (tw.map Prod.snd).toFinset
  have hRcard : R.card = tw.length := by
    rw [List.toFinset_card_of_nodup hR, List.length_map]
  have hRsub : R ⊆ Finset.range N := by
    intro a ha
    rw [List.mem_toFinset, List.mem_map] at ha
    obtain ⟨p, hp, rfl⟩ := ha
    exact Finset.mem_range.mpr (hlt p hp).2
  have himg : (Finset.range N).image K = (Finset.range N \ R).image K := by
    apply Finset.Subset.antisymm
    · intro k hk
      rw [Finset.mem_image] at hk ⊢
      obtain ⟨a, ha, rfl⟩ := hk
      by_cases haR : a ∈ R
      · rw [List.mem_toFinset, List.mem_map] at haR
        obtain ⟨p, hp, rfl⟩ := haR
        refine ⟨p.1, ?_, heq p hp⟩
        rw [Finset.mem_sdiff, Finset.mem_range, List.mem_toFinset]
        exact ⟨(hlt p hp).1, hdisj p hp⟩
      · exact ⟨a, Finset.mem_sdiff.mpr ⟨ha, haR⟩, rfl⟩
    · exact Finset.image_subset_image Finset.sdiff_subset
  have hinj : Set.InjOn K ↑(Finset.range N \ R) := by
    intro a ha b hb hab
    rw [Finset.mem_coe, Finset.mem_sdiff, Finset.mem_range] at ha hb
    rcases sep a b ha.1 hb.1 hab with h | h | h
    · exact h
    · exact absurd (List.mem_toFinset.mpr (List.mem_map.mpr ⟨(a, b), h, rfl⟩)) hb.2
    · exact absurd (List.mem_toFinset.mpr (List.mem_map.mpr ⟨(b, a), h, rfl⟩)) ha.2
  rw [himg, Finset.card_image_of_injOn hinj, Finset.card_sdiff_of_subset hRsub, Finset.card_range, hRcard]
  have : tw.length ≤ N := by
    rw [← hRcard, ← Finset.card_range N]; exact Finset.card_le_card hRsub
  omega

/-- the Boolean reported by the driver is exactly the three hypotheses of `edge_count_partial` -/
theorem edgeHyp_sound {o : Out} {nF : Nat} {tw : List (Nat × Nat)} (h : edgeHyp o nF tw = true) :
    (tw.map Prod.snd).Nodup ∧ (∀ t, t ∈ tw → t.1 ∉ tw.map Prod.snd) ∧
    (∀ a b, a < 3 * nF → b < 3 * nF → sideKey o a = sideKey o b → a = b ∨ (a, b) ∈ tw ∨ (b, a) ∈ tw) := by
  unfold edgeHyp at h
  simp only [Bool.and_eq_true, decide_eq_true_eq, List.all_eq_true] at h
  obtain ⟨⟨h1, h2⟩, h3⟩ := h
  refine ⟨h1, ?_, ?_⟩
  · intro t ht hmem
    have := h2 t ht
    simp only [Bool.not_eq_true', List.contains_eq_mem, decide_eq_false_iff_not] at this
    exact this hmem
  · intro a b ha hb hk
    have ma : (a, sideKey o a) ∈ (List.range (3 * nF)).map (fun a => (a, sideKey o a)) :=
      List.mem_map.mpr ⟨a, by simpa using ha, rfl⟩
    have mb : (b, sideKey o b) ∈ (List.range (3 * nF)).map (fun a => (a, sideKey o a)) :=
      List.mem_map.mpr ⟨b, by simpa using hb, rfl⟩
    have := h3 _ ma _ mb
    simp only [Bool.or_eq_true, Bool.not_eq_true', beq_eq_false_iff_ne, ne_eq, beq_iff_eq,
      List.contains_eq_mem, decide_eq_true_eq] at this
    rcases this with ((h | h) | h) | h
    · exact absurd hk h
    · exact Or.inl h
    · exact Or.inr (Or.inl h)
    · exact Or.inr (Or.inr h)

end Mouette.Cutting
