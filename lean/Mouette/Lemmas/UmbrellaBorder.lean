import Mouette.Lemmas.BorderMesh
/-! The umbrella condition at every vertex implies the border form used by C15: at a boundary vertex the fan
cannot be closed. -/
namespace Mouette.Border
open Mouette.Surface Mouette.Props.C01

section mesh
variable {faces : Faces} {nv : Nat}

/-- a boundary vertex is an end point of a side whose reverse is not a side -/
theorem bv_has_border_side (hO : Oriented faces) {A : Nat}
    (hA : A ∈ boundaryVertices (build nv faces true)) :
    (∃ w, (∃ f i, IsSide faces f i A w) ∧ ∀ f i, ¬ IsSide faces f i w A) ∨
    (∃ w, (∃ f i, IsSide faces f i w A) ∧ ∀ f i, ¬ IsSide faces f i A w) := by
  obtain ⟨_, e, he, a, b, hab, hAab⟩ := ((vertex_border_iff (build nv faces true)).2.1 A).mp hA
  obtain ⟨a', b', hab', hbd⟩ := ((border_partition (build nv faces true)).2.1 e).mp he
  rw [hab] at hab'
  obtain ⟨rfl, rfl⟩ : a = a' ∧ b = b' := by
    have := Option.some.inj hab'; exact ⟨congrArg Prod.fst this, congrArg Prod.snd this⟩
  rcases border_edge_cases hO hbd with ⟨hs, hn⟩ | ⟨hs, hn⟩ <;> rcases hAab with rfl | rfl
  · exact Or.inl ⟨b, hs, hn⟩
  · exact Or.inr ⟨a, hs, hn⟩
  · exact Or.inr ⟨b, hs, hn⟩
  · exact Or.inl ⟨a, hs, hn⟩

/-- in a closed ring every corner has a `stepF` successor -/
theorem closed_fwd_all (hO : Oriented faces) {A : Nat} {ring : List Nat}
    (hr : RingClosed (build nv faces true) A ring) (t : Nat) (ht : t < ring.length) :
    ∃ c, stepF (build nv faces true) ring[t] = some c := by
  rcases Nat.lt_or_ge (t + 1) ring.length with h1 | h1
  · exact ⟨_, hr.fwd t h1⟩
  · have hc := hr.close (by omega)
    have hmem : ring[0]'(by omega) ∈ cornersAt (build nv faces true) A := hr.perm.mem_iff.mp (List.getElem_mem _)
    obtain ⟨f, i, hf, hi, _, hci⟩ := mem_cornersAt.mp hmem
    rw [hci] at hc
    have := stepF_of_stepB nv true hO hf hi hc
    have ht' : t = ring.length - 1 := by omega
    subst ht'
    exact ⟨_, this⟩

/-- **umbrella ⇒ border umbrella**: if the corners of every vertex form one path or one cycle, then at every
boundary vertex they form a non-empty path -/
theorem borderUmbrella_of_umbrella (hO : Oriented faces)
    (hU : ∀ A, A ∈ boundaryVertices (build nv faces true) →
      ∃ ring, RingOpen (build nv faces true) A ring ∨ RingClosed (build nv faces true) A ring) :
    BorderUmbrella faces nv := by
  intro A hA
  obtain ⟨ring, hr⟩ := hU A hA
  -- a corner at A exists, so the ring is not empty
  have hne : ring ≠ [] := by
    intro hnil
    have hperm : ring.Perm (cornersAt (build nv faces true) A) := by
      rcases hr with h | h
      · exact h.perm
      · exact h.perm
    have hempty : cornersAt (build nv faces true) A = [] := by
      rw [hnil] at hperm; exact hperm.symm.eq_nil
    rcases bv_has_border_side hO hA with ⟨w, ⟨f, i, hs⟩, _⟩ | ⟨w, ⟨f, i, hs⟩, _⟩
    · have : offset faces f + i ∈ cornersAt (build nv faces true) A :=
        mem_cornersAt.mpr ⟨f, i, hs.1, hs.2.1, hs.2.2.1, rfl⟩
      rw [hempty] at this; cases this
    · have hi' : (i + 1) % (fa faces f).length < (fa faces f).length := Nat.mod_lt _ (by have := hs.2.1; omega)
      have : offset faces f + (i + 1) % (fa faces f).length ∈ cornersAt (build nv faces true) A :=
        mem_cornersAt.mpr ⟨f, _, hs.1, hi', hs.2.2.2, rfl⟩
      rw [hempty] at this; cases this
  rcases hr with hr | hr
  · exact ⟨ring, hr, hne⟩
  · exfalso
    rcases bv_has_border_side hO hA with ⟨w, ⟨f, i, hs⟩, hn⟩ | ⟨w, ⟨f, i, hs⟩, hn⟩
    · -- the corner starting the border side A → w has no stepF successor
      obtain ⟨hf, hi, hu, hv⟩ := hs
      have hstep : stepF (build nv faces true) (offset faces f + i) = none := by
        rw [stepF_eq nv true hO hf hi, hv, hu]
        cases hh : halfEdgeToCorner (build nv faces true) w A with
        | none => rfl
        | some c =>
          obtain ⟨g, j, hs', _⟩ := (halfEdgeToCorner_eq_spec nv true hO w A c).mp hh
          exact absurd hs' (hn g j)
      have hmem : offset faces f + i ∈ cornersAt (build nv faces true) A := mem_cornersAt.mpr ⟨f, i, hf, hi, hu, rfl⟩
      obtain ⟨t, ht, hrt⟩ := List.mem_iff_getElem.mp (hr.perm.mem_iff.mpr hmem)
      obtain ⟨c, hc⟩ := closed_fwd_all hO hr t ht
      rw [hrt, hstep] at hc; cases hc
    · -- the corner after the border side w → A has no stepB predecessor
      obtain ⟨hf, hi, hu, hv⟩ := hs
      have hi' : (i + 1) % (fa faces f).length < (fa faces f).length := Nat.mod_lt _ (by omega)
      have hstep : stepB (build nv faces true) (offset faces f + (i + 1) % (fa faces f).length) = none := by
        rw [stepB_eq nv true hO hf hi', succ_pred_mod hi, hv, hu]
        cases hh : halfEdgeToCorner (build nv faces true) A w with
        | none => rfl
        | some c =>
          obtain ⟨g, j, hs', _⟩ := (halfEdgeToCorner_eq_spec nv true hO A w c).mp hh
          exact absurd hs' (hn g j)
      have hmem : offset faces f + (i + 1) % (fa faces f).length ∈ cornersAt (build nv faces true) A :=
        mem_cornersAt.mpr ⟨f, _, hf, hi', hv, rfl⟩
      obtain ⟨t, ht, hrt⟩ := List.mem_iff_getElem.mp (hr.perm.mem_iff.mpr hmem)
      have := closed_back hr t ht
      rw [hrt, hstep] at this; cases this

end mesh

end Mouette.Border
