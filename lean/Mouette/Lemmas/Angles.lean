import Mathlib.Analysis.SpecialFunctions.Trigonometric.Inverse
/-! Thresholds on the cosine ↔ thresholds on the angle (C15), over ℝ with Mathlib's `Real.cos`/`Real.arccos`. -/
namespace Mouette.Angles
open Real

/-- for an angle `θ ∈ [0, π]` and `t ∈ [-1, 1]`: `θ` exceeds `arccos t` iff `cos θ < t` -/
theorem angle_gt_arccos_iff (t θ : ℝ) (ht1 : -1 ≤ t) (ht2 : t ≤ 1) (h0 : 0 ≤ θ) (hπ : θ ≤ π) :
    Real.arccos t < θ ↔ Real.cos θ < t := by
  constructor
  · intro h
    have := Real.cos_lt_cos_of_nonneg_of_le_pi (Real.arccos_nonneg t) hπ h
    rwa [Real.cos_arccos ht1 ht2] at this
  · intro h
    by_contra hc
    have hle : θ ≤ Real.arccos t := not_lt.mp hc
    have := Real.cos_le_cos_of_nonneg_of_le_pi h0 (Real.arccos_le_pi t) hle
    rw [Real.cos_arccos ht1 ht2] at this
    linarith

/-- 60°: `θ > π/3 ↔ cos θ < 1/2` on `[0, π]` -/
theorem angle_gt_sixty_iff (θ : ℝ) (h0 : 0 ≤ θ) (hπ : θ ≤ π) : π / 3 < θ ↔ Real.cos θ < 1 / 2 := by
  constructor
  · intro h
    have := Real.cos_lt_cos_of_nonneg_of_le_pi (by positivity) hπ h
    rwa [Real.cos_pi_div_three] at this
  · intro h
    by_contra hc
    have hle : θ ≤ π / 3 := not_lt.mp hc
    have := Real.cos_le_cos_of_nonneg_of_le_pi h0 (by linarith [Real.pi_pos]) hle
    rw [Real.cos_pi_div_three] at this
    linarith

end Mouette.Angles
