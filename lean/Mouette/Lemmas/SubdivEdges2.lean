import Mouette.Lemmas.SubdivEdges
/-
C13 (round 2): E' = 2E + 3F for `loop_subdivision`'s pass and for `subdivide_triangles_3quads`, under decidable hypotheses
on the input: the edge list is exactly the set of undirected sides of the faces (`EdgesAreSides`), faces have distinct
vertices (`TriNondeg`), two faces share at most one side (`SharesAtMostOne`, needed for the 1→4 pattern only).
-/
namespace Mouette.Subdiv

def allSides (m : Raw) : List (Nat × Nat) := m.faces.flatMap sidesKeyed

/-- the edge list is a duplicate-free list of sorted pairs of vertices and is exactly the set of undirected face sides -/
def EdgesAreSides (m : Raw) : Prop :=
  m.edges.Nodup ∧ (∀ e ∈ m.edges, e.1 < e.2 ∧ e.2 < m.verts.length) ∧
  (∀ e ∈ m.edges, e ∈ allSides m) ∧ (∀ s ∈ allSides m, s ∈ m.edges)

instance (m : Raw) : Decidable (EdgesAreSides m) := by unfold EdgesAreSides; infer_instance

/-- every face has pairwise distinct vertices -/
def TriNondeg (m : Raw) : Prop := ∀ f ∈ m.faces, f.Nodup

instance (m : Raw) : Decidable (TriNondeg m) := by unfold TriNondeg; infer_instance

/-- two different faces (positions) have at most one undirected side in common -/
def ShareAtMostOne (f g : List Nat) : Prop :=
  ∀ s ∈ sidesKeyed f, ∀ t ∈ sidesKeyed f, s ∈ sidesKeyed g → t ∈ sidesKeyed g → s = t

instance (f g : List Nat) : Decidable (ShareAtMostOne f g) := by unfold ShareAtMostOne; infer_instance

def SharesAtMostOne (m : Raw) : Prop := m.faces.Pairwise ShareAtMostOne

instance (m : Raw) : Decidable (SharesAtMostOne m) := by unfold SharesAtMostOne; infer_instance

theorem sidesKeyed_tri (a b c : Nat) : sidesKeyed [a, b, c] = [keyify a b, keyify b c, keyify c a] := rfl

/-! ### the dictionary `half` -/

theorem halfLookup_inj (es : List (Nat × Nat)) (c : Nat) (k k' : Nat × Nat) (r : Nat)
    (h : halfLookup es c k = some r) (h' : halfLookup es c k' = some r) : k = k' := by
  obtain ⟨i, hi, hr, hk⟩ := halfLookup_spec es c k r h
  obtain ⟨i', hi', hr', hk'⟩ := halfLookup_spec es c k' r h'
  have : i = i' := by omega
  subst this
  rw [← hk, ← hk']

theorem halfLookup_complete : ∀ (es : List (Nat × Nat)) (c : Nat) (k : Nat × Nat) (i : Nat) (hi : i < es.length),
    keyify es[i].1 es[i].2 = k → ∃ r, halfLookup es c k = some r
  | [], _, _, i, hi, _ => by simp at hi
  | e :: es, c, k, 0, _, hk => by
    simp only [halfLookup]
    cases h1 : halfLookup es (c + 1) k with
    | some r => exact ⟨r, rfl⟩
    | none => exact ⟨c, by simp at hk; simp [hk]⟩
  | e :: es, c, k, i + 1, hi, hk => by
    obtain ⟨r, hr⟩ := halfLookup_complete es (c + 1) k i (by simpa using hi) (by simpa using hk)
    exact ⟨r, by simp [halfLookup, hr]⟩

theorem getHalf_ok (es : List (Nat × Nat)) (c a b r : Nat) (h : getHalf (es, c) a b = .ok r) :
    halfLookup es c (keyify a b) = some r := by
  unfold getHalf at h
  cases hh : halfLookup es c (keyify a b) with
  | none => simp [hh] at h
  | some r' => simp only [hh, Except.ok.injEq] at h; rw [h]

theorem keyify_sorted {a b : Nat} (h : a < b) : keyify a b = (a, b) := by
  unfold keyify; simp [Nat.le_of_lt h]

theorem keyify_sorted' {a b : Nat} (h : a < b) : keyify b a = (a, b) := by
  unfold keyify; simp [Nat.not_le.mpr h]

/-- what a successful lookup for side (a,b) says, for a sorted and bounded edge list -/
theorem lookup_side (es : List (Nat × Nat)) (base a b mab : Nat) (hes : ∀ e ∈ es, e.1 < e.2 ∧ e.2 < base)
    (h : halfLookup es base (keyify a b) = some mab) :
    ∃ i, ∃ (hi : i < es.length), mab = base + i ∧ keyify a b = es[i] ∧
      ((a = es[i].1 ∧ b = es[i].2) ∨ (a = es[i].2 ∧ b = es[i].1)) ∧
      keyify a mab = (a, mab) ∧ keyify mab b = (b, mab) ∧ a < base ∧ b < base ∧ a ≠ b := by
  obtain ⟨i, hi, hr, hk⟩ := halfLookup_spec es base _ mab h
  have hb := hes es[i] (List.getElem_mem hi)
  have hsort : keyify es[i].1 es[i].2 = es[i] := keyify_sorted hb.1
  have hends := keyify_eq hk
  have ha : a < base ∧ b < base ∧ a ≠ b := by rcases hends with ⟨e1, e2⟩ | ⟨e1, e2⟩ <;> omega
  refine ⟨i, hi, hr, by rw [← hk, hsort], ?_, keyify_sorted (by omega), keyify_sorted' (by omega), ha⟩
  rcases hends with ⟨e1, e2⟩ | ⟨e1, e2⟩
  · exact Or.inl ⟨e1.symm, e2.symm⟩
  · exact Or.inr ⟨e2.symm, e1.symm⟩

/-! ### `mapE` and membership / pairwise relations -/

theorem mapE_mem_of {α β} (g : α → Except Err β) (l : List α) (r : List β) (h : mapE g l = .ok r) (a : α) (ha : a ∈ l) :
    ∃ y ∈ r, g a = .ok y := by
  obtain ⟨i, hi, rfl⟩ := List.getElem_of_mem ha
  obtain ⟨b, hb1, hb2⟩ := mapE_get g l r h i hi
  exact ⟨b, List.mem_of_getElem? hb2, hb1⟩

theorem mapE_mem_back {α β} (g : α → Except Err β) : ∀ (l : List α) (r : List β), mapE g l = .ok r →
    ∀ y ∈ r, ∃ a ∈ l, g a = .ok y
  | [], r, h => by simp [mapE] at h; subst h; simp
  | a :: t, r, h => by
    simp only [mapE] at h
    cases hg : g a with
    | error e => simp [hg] at h
    | ok b =>
      cases ht : mapE g t with
      | error e => simp [hg, ht] at h
      | ok bs =>
        simp [hg, ht] at h; subst h
        intro y hy
        rcases List.mem_cons.mp hy with h1 | h1
        · subst h1; exact ⟨a, by simp, hg⟩
        · obtain ⟨x, hx, hgx⟩ := mapE_mem_back g t bs ht y h1
          exact ⟨x, by simp [hx], hgx⟩

theorem mapE_pairwise {α β} (g : α → Except Err β) (R : α → α → Prop) (R' : β → β → Prop)
    (hR : ∀ a b a' b', g a = .ok a' → g b = .ok b' → R a b → R' a' b') :
    ∀ (l : List α) (r : List β), l.Pairwise R → mapE g l = .ok r → r.Pairwise R'
  | [], r, _, h => by simp [mapE] at h; subst h; exact List.Pairwise.nil
  | a :: t, r, hp, h => by
    simp only [mapE] at h
    cases hg : g a with
    | error e => simp [hg] at h
    | ok b =>
      cases ht : mapE g t with
      | error e => simp [hg, ht] at h
      | ok bs =>
        simp [hg, ht] at h; subst h
        rw [List.pairwise_cons] at hp ⊢
        refine ⟨?_, mapE_pairwise g R R' hR t bs hp.2 ht⟩
        intro y hy
        obtain ⟨x, hx, hgx⟩ := mapE_mem_back g t bs ht y hy
        exact hR a x b y hg hgx (hp.1 x hx)

/-! ### the six half-edges of every part are the two halves of every edge -/

def sixHalves (a b c mab mbc mca : Nat) : List (Nat × Nat) :=
  [keyify a mab, keyify mab b, keyify b mbc, keyify mbc c, keyify c mca, keyify mca a]

/-- description of one part: it comes from a face (a,b,c) whose three lookups succeeded -/
def PartOf {β} (es : List (Nat × Nat)) (base : Nat) (f : List Nat) (p : β × List (Nat × Nat)) : Prop :=
  ∃ a b c mab mbc mca, f = [a, b, c] ∧ halfLookup es base (keyify a b) = some mab ∧
    halfLookup es base (keyify b c) = some mbc ∧ halfLookup es base (keyify c a) = some mca ∧
    p.2.take 6 = sixHalves a b c mab mbc mca

theorem halves_mem_iff {β} (m : Raw) (parts : List (β × List (Nat × Nat))) (hE : EdgesAreSides m)
    (hA : ∀ p ∈ parts, ∃ f ∈ m.faces, PartOf m.edges m.verts.length f p)
    (hB : ∀ f ∈ m.faces, ∃ p ∈ parts, PartOf m.edges m.verts.length f p) :
    ∀ x, x ∈ parts.flatMap (fun p => p.2.take 6) ↔ x ∈ halvesOf m.edges m.verts.length := by
  obtain ⟨hnd, hsb, hsub, _⟩ := hE
  intro x
  rw [mem_halvesOf, List.mem_flatMap]
  constructor
  · rintro ⟨p, hp, hx⟩
    obtain ⟨f, _, a, b, c, mab, mbc, mca, _, h1, h2, h3, h6⟩ := hA p hp
    obtain ⟨i1, hi1, e1, _, d1, k1, k1', _⟩ := lookup_side _ _ _ _ _ hsb h1
    obtain ⟨i2, hi2, e2, _, d2, k2, k2', _⟩ := lookup_side _ _ _ _ _ hsb h2
    obtain ⟨i3, hi3, e3, _, d3, k3, k3', _⟩ := lookup_side _ _ _ _ _ hsb h3
    rw [h6, sixHalves, k1, k1', k2, k2', k3, k3'] at hx
    simp only [List.mem_cons, List.not_mem_nil, or_false] at hx
    rcases hx with rfl | rfl | rfl | rfl | rfl | rfl
    · exact ⟨i1, hi1, e1, by rcases d1 with ⟨d, _⟩ | ⟨d, _⟩ <;> simp [d]⟩
    · exact ⟨i1, hi1, e1, by rcases d1 with ⟨_, d⟩ | ⟨_, d⟩ <;> simp [d]⟩
    · exact ⟨i2, hi2, e2, by rcases d2 with ⟨d, _⟩ | ⟨d, _⟩ <;> simp [d]⟩
    · exact ⟨i2, hi2, e2, by rcases d2 with ⟨_, d⟩ | ⟨_, d⟩ <;> simp [d]⟩
    · exact ⟨i3, hi3, e3, by rcases d3 with ⟨d, _⟩ | ⟨d, _⟩ <;> simp [d]⟩
    · exact ⟨i3, hi3, e3, by rcases d3 with ⟨_, d⟩ | ⟨_, d⟩ <;> simp [d]⟩
  · rintro ⟨i, hi, hx2, hx1⟩
    have hside := hsub m.edges[i] (List.getElem_mem hi)
    obtain ⟨f, hf, hfs⟩ := List.mem_flatMap.mp hside
    obtain ⟨p, hp, a, b, c, mab, mbc, mca, rfl, h1, h2, h3, h6⟩ := hB f hf
    refine ⟨p, hp, ?_⟩
    rw [h6, sixHalves]
    rw [sidesKeyed_tri] at hfs
    simp only [List.mem_cons, List.not_mem_nil, or_false] at hfs
    -- the lookup of a key equal to edge i returns base + i
    have hidx : ∀ a b mab, halfLookup m.edges m.verts.length (keyify a b) = some mab → m.edges[i] = keyify a b →
        mab = m.verts.length + i ∧ (x = (a, mab) ∨ x = (b, mab)) ∧ keyify a mab = (a, mab) ∧ keyify mab b = (b, mab) := by
      intro a b mab hl he
      obtain ⟨j, hj, ej, hkj, dj, kj, kj', _⟩ := lookup_side _ _ _ _ _ hsb hl
      have hij : j = i := by
        have : m.edges[j] = m.edges[i] := by rw [← hkj, he]
        exact (List.Nodup.getElem_inj_iff hnd).mp this
      subst hij
      refine ⟨ej, ?_, kj, kj'⟩
      rcases dj with ⟨d1, d2⟩ | ⟨d1, d2⟩
      · rcases hx1 with h | h
        · left; exact Prod.ext (by simp [h, d1]) (by simp [hx2, ej])
        · right; exact Prod.ext (by simp [h, d2]) (by simp [hx2, ej])
      · rcases hx1 with h | h
        · right; exact Prod.ext (by simp [h, d2]) (by simp [hx2, ej])
        · left; exact Prod.ext (by simp [h, d1]) (by simp [hx2, ej])
    rcases hfs with he | he | he
    · obtain ⟨_, hxx, k, k'⟩ := hidx a b mab h1 he
      rw [k, k']; rcases hxx with h | h <;> simp [h]
    · obtain ⟨_, hxx, k, k'⟩ := hidx b c mbc h2 he
      rw [k, k']; rcases hxx with h | h <;> simp [h]
    · obtain ⟨_, hxx, k, k'⟩ := hidx c a mca h3 he
      rw [k, k']; rcases hxx with h | h <;> simp [h]

end Mouette.Subdiv
