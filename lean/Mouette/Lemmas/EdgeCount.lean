import Mouette.Model.MeshCheck
import Mouette.Lemmas.ListCount
/-!
Edge counting for face lists (core Lean only).

`two_numEdges`: for a face list whose directed sides are pairwise distinct (consistent orientation) and never degenerate,
`2 * numEdges = (number of directed sides) + (number of unmatched sides)`; `numEdges` is the honest definition of
`Mouette.MeshCheck` (distinct undirected pairs), the one the C14 driver prints and the harness compares with an independent
count on the implementation's output. Hence for a closed surface E = (Σ face sizes)/2 and with border
E = (Σ face sizes + #unmatched)/2, which turns the Euler characteristic of the parametric families into arithmetic.
-/
namespace Mouette.EdgeCount
open Mouette.MeshCheck

theorem dedup_cons {α} [BEq α] (a : α) (t : List α) :
    dedup (a :: t) = if (dedup t).contains a then dedup t else a :: dedup t := rfl

theorem mem_dedup {α} [BEq α] [LawfulBEq α] (l : List α) : ∀ x : α, x ∈ dedup l ↔ x ∈ l := by
  induction l with
  | nil => simp [dedup]
  | cons a t ih =>
    intro x
    rw [dedup_cons]
    by_cases h : (dedup t).contains a = true
    · rw [if_pos h]
      have h' : a ∈ t := (ih a).mp (List.contains_iff_mem.mp h)
      rw [ih x, List.mem_cons]
      constructor
      · exact Or.inr
      · rintro (rfl | h2)
        · exact h'
        · exact h2
    · rw [if_neg h, List.mem_cons, List.mem_cons, ih x]

def swap (e : Nat × Nat) : Nat × Nat := (e.2, e.1)

theorem swap_swap (e : Nat × Nat) : swap (swap e) = e := rfl

theorem undirected_eq_iff (x e : Nat × Nat) : undirected x = undirected e ↔ x = e ∨ x = swap e := by
  obtain ⟨a, b⟩ := x; obtain ⟨c, d⟩ := e
  unfold undirected swap
  by_cases h1 : a ≤ b <;> by_cases h2 : c ≤ d <;> simp only [h1, h2, if_true, if_false, Prod.mk.injEq] <;> omega

/-- distinct undirected edges -/
def D (l : List (Nat × Nat)) : Nat := (dedup (l.map undirected)).length
/-- unmatched directed edges -/
def B (l : List (Nat × Nat)) : Nat := (l.filter (fun e => !l.contains (swap e))).length

theorem D_cons (e : Nat × Nat) (t : List (Nat × Nat)) (he : e ∉ t) :
    D (e :: t) = D t + (if swap e ∈ t then 0 else 1) := by
  unfold D
  rw [List.map_cons, dedup_cons]
  have key : (dedup (t.map undirected)).contains (undirected e) = true ↔ swap e ∈ t := by
    rw [List.contains_iff_mem, mem_dedup, List.mem_map]
    constructor
    · rintro ⟨x, hx, hxe⟩
      rcases (undirected_eq_iff x e).mp hxe with rfl | rfl
      · exact absurd hx he
      · exact hx
    · intro h
      exact ⟨swap e, h, (undirected_eq_iff _ _).mpr (Or.inr rfl)⟩
  by_cases h : swap e ∈ t
  · rw [if_pos (key.mpr h), if_pos h]; rfl
  · rw [if_neg (fun c => h (key.mp c)), if_neg h]; rfl

theorem B_cons_matched (e : Nat × Nat) (t : List (Nat × Nat)) (hnd : (e :: t).Nodup) (h : swap e ∈ t) :
    B (e :: t) + 1 = B t := by
  have he : e ∉ t := (List.nodup_cons.mp hnd).1
  have ht : t.Nodup := (List.nodup_cons.mp hnd).2
  unfold B
  have h1 : (!(e :: t).contains (swap e)) = false := by
    simp [h]
  rw [List.filter_cons, if_neg (by rw [h1]; exact Bool.false_ne_true)]
  have h2 : t.filter (fun x => !(e :: t).contains (swap x)) =
      ((t.filter (fun x => !t.contains (swap x))).erase (swap e)) := by
    rw [List.Nodup.erase_eq_filter (List.Pairwise.filter _ ht), List.filter_filter]
    apply List.filter_congr
    intro x hx
    have : (swap x = e) ↔ (x = swap e) := by
      constructor
      · intro c; rw [← c, swap_swap]
      · intro c; rw [c, swap_swap]
    by_cases c : x = swap e
    · simp [c, swap_swap]
    · have c' : ¬ swap x = e := fun d => c (this.mp d)
      simp [c, c']
  have h3 : swap e ∈ t.filter (fun x => !t.contains (swap x)) := by
    rw [List.mem_filter]
    refine ⟨h, ?_⟩
    simp [swap_swap, he]
  rw [h2, List.length_erase_of_mem h3]
  have : 0 < (t.filter (fun x => !t.contains (swap x))).length := List.length_pos_of_mem h3
  omega

theorem B_cons_unmatched (e : Nat × Nat) (t : List (Nat × Nat)) (hl : e.1 ≠ e.2) (h : swap e ∉ t) :
    B (e :: t) = B t + 1 := by
  unfold B
  have h1 : (!(e :: t).contains (swap e)) = true := by
    simp only [Bool.not_eq_true', List.contains_eq_mem, List.mem_cons, decide_eq_false_iff_not, not_or]
    refine ⟨?_, h⟩
    intro c; apply hl; have := congrArg Prod.fst c; exact this.symm
  rw [List.filter_cons, if_pos h1, List.length_cons]
  congr 2
  apply List.filter_congr
  intro x hx
  have : swap x ≠ e := by
    intro c; apply h; rw [← c, swap_swap]; exact hx
  simp [this]


theorem two_D (l : List (Nat × Nat)) (hnd : l.Nodup) (hl : ∀ e ∈ l, e.1 ≠ e.2) : 2 * D l = l.length + B l := by
  induction l with
  | nil => simp [D, B, dedup]
  | cons e t ih =>
    have he : e ∉ t := (List.nodup_cons.mp hnd).1
    have ht : t.Nodup := (List.nodup_cons.mp hnd).2
    have ih' := ih ht (fun x hx => hl x (List.mem_cons_of_mem _ hx))
    rw [D_cons e t he, List.length_cons]
    by_cases h : swap e ∈ t
    · rw [if_pos h]
      have := B_cons_matched e t hnd h
      omega
    · rw [if_neg h, B_cons_unmatched e t (hl e (List.mem_cons_self)) h]
      omega

/-- Euler bookkeeping: for a consistently oriented face list without degenerate sides, twice the number of undirected
edges is the number of directed sides plus the number of unmatched (border) sides -/
theorem two_numEdges (fs : List Face) (hnd : (dirEdges fs).Nodup) (hl : ∀ e ∈ dirEdges fs, e.1 ≠ e.2) :
    2 * numEdges fs = (dirEdges fs).length + numBorder fs := two_D _ hnd hl

theorem numBorder_closed (fs : List Face) (h : ∀ e ∈ dirEdges fs, (e.2, e.1) ∈ dirEdges fs) : numBorder fs = 0 := by
  unfold numBorder
  rw [List.length_eq_zero_iff, List.filter_eq_nil_iff]
  intro e he
  simp [h e he]

/-! ### structural helpers for nested `flatMap`s -/

theorem nodup_flatMap_of {α β} (l : List α) (f : α → List β) (hl : l.Nodup) (h1 : ∀ a ∈ l, (f a).Nodup)
    (h2 : ∀ a ∈ l, ∀ b ∈ l, ∀ x, x ∈ f a → x ∈ f b → a = b) : (l.flatMap f).Nodup := by
  induction l with
  | nil => simp
  | cons a t ih =>
    have ha : a ∉ t := (List.nodup_cons.mp hl).1
    rw [List.flatMap_cons, List.nodup_append]
    refine ⟨h1 a (by simp), ih (List.nodup_cons.mp hl).2 (fun b hb => h1 b (by simp [hb]))
      (fun b hb c hc => h2 b (by simp [hb]) c (by simp [hc])), ?_⟩
    intro x hx y hy hxy
    subst hxy
    obtain ⟨b, hb, hxb⟩ := List.mem_flatMap.mp hy
    have := h2 a (by simp) b (by simp [hb]) x hx hxb
    subst this
    exact ha hb

theorem mem_dirEdges (fs : List Face) (e : Nat × Nat) : e ∈ dirEdges fs ↔ ∃ f ∈ fs, e ∈ sides f := by
  unfold dirEdges; exact List.mem_flatMap

/-- Euler characteristic from the bookkeeping: `2·(V + F − χ) = sides + border` -/
theorem euler_of_counts (nV : Nat) (fs : List Face) (hnd : (dirEdges fs).Nodup) (hl : ∀ e ∈ dirEdges fs, e.1 ≠ e.2)
    (chi : Int) (h : 2 * ((nV : Int) + fs.length - chi) = ((dirEdges fs).length : Int) + numBorder fs) :
    euler nV fs = chi := by
  have := two_numEdges fs hnd hl
  unfold euler
  omega


/-! ### addressed face lists: `fs = A.map face` with `A` a duplicate-free list of addresses -/

theorem dirEdges_map {α} (A : List α) (face : α → Face) :
    dirEdges (A.map face) = A.flatMap (fun a => sides (face a)) := by
  simp [dirEdges, List.flatMap_map]

theorem mem_dirEdges_map {α} (A : List α) (face : α → Face) (e : Nat × Nat) :
    e ∈ dirEdges (A.map face) ↔ ∃ a ∈ A, e ∈ sides (face a) := by
  rw [dirEdges_map, List.mem_flatMap]

/-- consistent orientation of an addressed face list: directed sides pairwise distinct -/
theorem dirEdges_nodup_addressed {α} (A : List α) (face : α → Face) (hA : A.Nodup)
    (hs : ∀ a ∈ A, (sides (face a)).Nodup)
    (hor : ∀ a ∈ A, ∀ b ∈ A, ∀ e, e ∈ sides (face a) → e ∈ sides (face b) → a = b) :
    (dirEdges (A.map face)).Nodup := by
  rw [dirEdges_map]; exact nodup_flatMap_of A _ hA hs hor

theorem noLoops_addressed {α} (A : List α) (face : α → Face) (h : ∀ a ∈ A, ∀ e ∈ sides (face a), e.1 ≠ e.2) :
    ∀ e ∈ dirEdges (A.map face), e.1 ≠ e.2 := by
  intro e he
  obtain ⟨a, ha, he⟩ := (mem_dirEdges_map A face e).mp he
  exact h a ha e he

theorem closed_addressed {α} (A : List α) (face : α → Face)
    (h : ∀ a ∈ A, ∀ e ∈ sides (face a), ∃ b ∈ A, (e.2, e.1) ∈ sides (face b)) :
    ∀ e ∈ dirEdges (A.map face), (e.2, e.1) ∈ dirEdges (A.map face) := by
  intro e he
  obtain ⟨a, ha, he⟩ := (mem_dirEdges_map A face e).mp he
  exact (mem_dirEdges_map A face _).mpr (h a ha e he)

theorem length_flatMap_sum {α β} (l : List α) (f : α → List β) (g : α → Nat) (h : ∀ a ∈ l, (f a).length = g a) :
    (l.flatMap f).length = (l.map g).sum := by
  induction l with
  | nil => simp
  | cons a t ih =>
    simp only [List.flatMap_cons, List.length_append, List.map_cons, List.sum_cons]
    rw [h a (by simp), ih (fun b hb => h b (by simp [hb]))]

theorem dirEdges_length_addressed {α} (A : List α) (face : α → Face) :
    (dirEdges (A.map face)).length = (A.map (fun a => (face a).length)).sum := by
  rw [dirEdges_map]
  apply length_flatMap_sum
  intro a _
  unfold sides
  cases h : face a with
  | nil => rfl
  | cons x t => simp

/-- border sides of an addressed face list, face by face: if face `a` has `β a` sides whose opposite lies in no face,
the list has `Σ β a` unmatched sides -/
theorem numBorder_addressed {α} (A : List α) (face : α → Face) (β : α → Nat)
    (h : ∀ a ∈ A, ((sides (face a)).filter (fun e => !(dirEdges (A.map face)).contains (e.2, e.1))).length = β a) :
    numBorder (A.map face) = (A.map β).sum := by
  unfold numBorder
  generalize (fun e : Nat × Nat => !(dirEdges (A.map face)).contains (e.2, e.1)) = p at h ⊢
  rw [dirEdges_map, List.filter_flatMap]
  exact length_flatMap_sum A _ β h

theorem sum_map_const {α} (l : List α) (c : Nat) : (l.map (fun _ => c)).sum = l.length * c := by
  induction l with
  | nil => simp
  | cons a t ih => simp only [List.map_cons, List.sum_cons, List.length_cons, ih, Nat.succ_mul]; omega

/-! ### address lists -/

def grid2 (m n : Nat) : List (Nat × Nat) := (List.range m).flatMap fun i => (List.range n).flatMap fun j => [(i, j)]

def grid2b (m n : Nat) : List (Nat × Nat × Bool) :=
  (List.range m).flatMap fun i => (List.range n).flatMap fun j => [(i, j, false), (i, j, true)]

theorem mem_grid2 (m n : Nat) (p : Nat × Nat) : p ∈ grid2 m n ↔ p.1 < m ∧ p.2 < n := by
  obtain ⟨i, j⟩ := p
  simp only [grid2, List.mem_flatMap, List.mem_range, List.mem_cons, List.mem_nil_iff, or_false, Prod.mk.injEq]
  constructor
  · rintro ⟨i', hi, j', hj, rfl, rfl⟩; exact ⟨hi, hj⟩
  · rintro ⟨hi, hj⟩; exact ⟨i, hi, j, hj, rfl, rfl⟩

theorem mem_grid2b (m n : Nat) (p : Nat × Nat × Bool) : p ∈ grid2b m n ↔ p.1 < m ∧ p.2.1 < n := by
  obtain ⟨i, j, k⟩ := p
  simp only [grid2b, List.mem_flatMap, List.mem_range, List.mem_cons, Prod.mk.injEq, List.mem_nil_iff, or_false]
  constructor
  · rintro ⟨i', hi, j', hj, ⟨rfl, rfl, _⟩ | ⟨rfl, rfl, _⟩⟩ <;> exact ⟨hi, hj⟩
  · rintro ⟨hi, hj⟩
    refine ⟨i, hi, j, hj, ?_⟩
    cases k <;> simp

theorem nodup_grid2 (m n : Nat) : (grid2 m n).Nodup := by
  apply nodup_flatMap_of _ _ List.nodup_range
  · intro i _
    apply nodup_flatMap_of _ _ List.nodup_range
    · intro j _; simp
    · intro j _ j' _ x h1 h2
      simp only [List.mem_cons, List.mem_nil_iff, or_false] at h1 h2
      subst h1; exact (Prod.mk.inj h2).2
  · intro i _ i' _ x h1 h2
    simp only [List.mem_flatMap, List.mem_range, List.mem_cons, List.mem_nil_iff, or_false] at h1 h2
    obtain ⟨j, _, rfl⟩ := h1
    obtain ⟨j', _, h⟩ := h2
    exact (Prod.mk.inj h).1

theorem nodup_grid2b (m n : Nat) : (grid2b m n).Nodup := by
  apply nodup_flatMap_of _ _ List.nodup_range
  · intro i _
    apply nodup_flatMap_of _ _ List.nodup_range
    · intro j _; simp
    · intro j _ j' _ x h1 h2
      simp only [List.mem_cons, List.mem_nil_iff, or_false] at h1 h2
      rcases h1 with rfl | rfl <;> rcases h2 with h | h <;> exact ((Prod.mk.inj (Prod.mk.inj h).2).1)
  · intro i _ i' _ x h1 h2
    simp only [List.mem_flatMap, List.mem_range, List.mem_cons, List.mem_nil_iff, or_false] at h1 h2
    obtain ⟨j, _, h1⟩ := h1
    obtain ⟨j', _, h2⟩ := h2
    rcases h1 with rfl | rfl <;> rcases h2 with h | h <;> exact (Prod.mk.inj h).1

theorem length_grid2 (m n : Nat) : (grid2 m n).length = m * n := by
  unfold grid2
  rw [Mouette.ListCount.length_flatMap_const _ _ n]
  · simp
  · intro i _; rw [Mouette.ListCount.length_flatMap_const _ _ 1] <;> simp

theorem length_grid2b (m n : Nat) : (grid2b m n).length = 2 * (m * n) := by
  unfold grid2b
  rw [Mouette.ListCount.length_flatMap_const _ _ (n * 2)]
  · simp only [List.length_range]; rw [Nat.mul_comm n 2, Nat.mul_left_comm]
  · intro i _; rw [Mouette.ListCount.length_flatMap_const _ _ 2] <;> simp

theorem map_grid2 {β} (m n : Nat) (f : Nat → Nat → β) :
    (grid2 m n).map (fun p => f p.1 p.2) = (List.range m).flatMap fun i => (List.range n).flatMap fun j => [f i j] := by
  simp [grid2, List.map_flatMap]

theorem map_grid2b {β} (m n : Nat) (f : Nat → Nat → Bool → β) :
    (grid2b m n).map (fun p => f p.1 p.2.1 p.2.2) =
      (List.range m).flatMap fun i => (List.range n).flatMap fun j => [f i j false, f i j true] := by
  simp [grid2b, List.map_flatMap]


/-- Euler characteristic of an addressed, consistently oriented face list from its counts -/
theorem euler_addressed {α} (A : List α) (face : α → Face) (nV : Nat) (hA : A.Nodup)
    (hs : ∀ a ∈ A, (sides (face a)).Nodup)
    (hor : ∀ a ∈ A, ∀ b ∈ A, ∀ e, e ∈ sides (face a) → e ∈ sides (face b) → a = b)
    (hl : ∀ a ∈ A, ∀ e ∈ sides (face a), e.1 ≠ e.2)
    (nb : Nat) (hb : numBorder (A.map face) = nb) (chi : Int)
    (h : 2 * ((nV : Int) + A.length - chi) = (((A.map (fun a => (face a).length)).sum : Nat) : Int) + nb) :
    euler nV (A.map face) = chi := by
  apply euler_of_counts _ _ (dirEdges_nodup_addressed A face hA hs hor) (noLoops_addressed A face hl)
  rw [hb, dirEdges_length_addressed, List.length_map]
  exact h

theorem flatMap_congr_on {α β} (l : List α) (f g : α → List β) (h : ∀ a ∈ l, f a = g a) : l.flatMap f = l.flatMap g := by
  induction l with
  | nil => rfl
  | cons a t ih => rw [List.flatMap_cons, List.flatMap_cons, h a (by simp), ih (fun b hb => h b (by simp [hb]))]

/-! ### border loops -/

/-- the sides of the polygon `g 0, g 1, …, g (n-1)` -/
theorem mem_sides_map_range (n : Nat) (g : Nat → Nat) (e : Nat × Nat) :
    e ∈ sides ((List.range n).map g) ↔ ∃ k, k < n ∧ e = (g k, g ((k + 1) % n)) := by
  cases n with
  | zero => simp [sides]
  | succ m =>
    have hl : (List.range (m + 1)).map g = g 0 :: (List.range' 1 m).map g := by
      rw [List.range_eq_range', List.range'_succ]; simp
    rw [hl]
    unfold sides
    simp only [List.tail_cons]
    rw [← hl]
    rw [List.mem_iff_getElem]
    simp only [List.length_zip, List.length_map, List.length_range, List.length_append, List.length_range',
      List.length_cons, List.length_nil, List.getElem_zip, List.getElem_map, List.getElem_range]
    constructor
    · rintro ⟨k, hk, rfl⟩
      have hk' : k < m + 1 := by omega
      refine ⟨k, hk', ?_⟩
      congr 1
      by_cases c : k < m
      · rw [List.getElem_append_left (by simp; exact c)]
        simp [Nat.mod_eq_of_lt (show k + 1 < m + 1 by omega), Nat.add_comm 1 k]
      · have : k = m := by omega
        subst this
        rw [List.getElem_append_right (by simp)]
        simp
    · rintro ⟨k, hk, rfl⟩
      refine ⟨k, by omega, ?_⟩
      congr 1
      by_cases c : k < m
      · rw [List.getElem_append_left (by simp; exact c)]
        simp [Nat.mod_eq_of_lt (show k + 1 < m + 1 by omega), Nat.add_comm 1 k]
      · have : k = m := by omega
        subst this
        rw [List.getElem_append_right (by simp)]
        simp

/-- the unmatched sides of `fs` are exactly the sides of the polygons `cs`, whose vertex lists are duplicate-free and
pairwise disjoint: `cs.length` border loops -/
def BorderLoops (fs : List Face) (cs : List (List Nat)) : Prop :=
  (∀ c ∈ cs, c.Nodup) ∧ cs.Pairwise (fun c d => ∀ v, v ∈ c → v ∉ d) ∧
  ∀ e, (e ∈ dirEdges fs ∧ (e.2, e.1) ∉ dirEdges fs) ↔ ∃ c ∈ cs, e ∈ sides c

theorem sum_map_const_on {α} (l : List α) (g : α → Nat) (c : Nat) (h : ∀ a ∈ l, g a = c) :
    (l.map g).sum = l.length * c := by
  rw [← sum_map_const l c]; congr 1; exact List.map_congr_left h

/-! ### sums of indicators -/


theorem sum_map_add {α} (l : List α) (f g : α → Nat) :
    (l.map (fun a => f a + g a)).sum = (l.map f).sum + (l.map g).sum := by
  induction l with
  | nil => simp
  | cons a t ih => simp only [List.map_cons, List.sum_cons, ih]; omega

theorem sum_range_indicator (n k : Nat) (hk : k < n) : ((List.range n).map (fun i => if i = k then 1 else 0)).sum = 1 := by
  induction n with
  | zero => omega
  | succ n ih =>
    rw [List.range_succ, List.map_append, List.sum_append]
    by_cases h : k = n
    · subst h
      have : ((List.range k).map (fun i => if i = k then 1 else 0)) = (List.range k).map (fun _ => 0) := by
        apply List.map_congr_left; intro a ha; rw [List.mem_range] at ha; rw [if_neg (by omega)]
      rw [this, sum_map_const]; simp
    · rw [ih (by omega)]; simp; omega


end Mouette.EdgeCount
