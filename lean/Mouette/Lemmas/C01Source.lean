import Mouette.Generated.C01Src
import Mouette.Model.Surface
import Mouette.Lemmas.Surface
/-!
Bridges between the `SurfaceMesh` / `_Connectivity` methods TRANSLATED from `surface.py` / `linear.py`
(`Generated/C01Src.lean`) and the hand-written model `Model/Surface.lean` the C01 theorems are about.
-/
namespace Mouette.Lemmas.C01Source
open Mouette.Surface Mouette.SurfSource Mouette.PySrc

theorem isEdgeOnBorder_bridge (S : Surf) (u v : Nat) :
    Mouette.Generated.C01Src.isEdgeOnBorder S u v = Mouette.Surface.isEdgeOnBorder S u v := by
  unfold Mouette.Generated.C01Src.isEdgeOnBorder Mouette.Surface.isEdgeOnBorder
  cases h1 : edgeId S u v <;> cases h2 : directFace S u v <;> cases h3 : directFace S v u <;> simp_all

theorem ibe_fold (S : Surf) (l : List ((Nat × Nat) × Nat)) (b i : List Nat) :
    (l.map fun p => (p.2, p.1)).foldl (Mouette.Generated.C01Src.computeInteriorBoundaryEdges_for1_step S) (b, i) =
      (b ++ (l.filter fun e => Mouette.Surface.isEdgeOnBorder S e.1.1 e.1.2).map (·.2),
       i ++ (l.filter fun e => !Mouette.Surface.isEdgeOnBorder S e.1.1 e.1.2).map (·.2)) := by
  induction l generalizing b i with
  | nil => simp
  | cons x l ih =>
    obtain ⟨⟨u, v⟩, e⟩ := x
    rw [List.map_cons, List.foldl_cons]
    have hstep : Mouette.Generated.C01Src.computeInteriorBoundaryEdges_for1_step S (b, i) (e, u, v) =
        if Mouette.Surface.isEdgeOnBorder S u v then (b ++ [e], i) else (b, i ++ [e]) := by
      simp only [Mouette.Generated.C01Src.computeInteriorBoundaryEdges_for1_step, isEdgeOnBorder_bridge]
      first | done | (cases Mouette.Surface.isEdgeOnBorder S u v <;> rfl)
    rw [hstep]
    cases h : Mouette.Surface.isEdgeOnBorder S u v
    · simp only [Bool.false_eq_true, if_false]; rw [ih]; first | done | simp [h]
    · simp only [if_true]; rw [ih]; first | done | simp [h]

/-- **bridge** `_compute_interior_boundary_edges`: the two lists it fills are the model's `interiorEdges`, `boundaryEdges` -/
theorem computeInteriorBoundaryEdges_bridge (S : Surf) :
    Mouette.Generated.C01Src.computeInteriorBoundaryEdges S = (interiorEdges S, boundaryEdges S) := by
  unfold Mouette.Generated.C01Src.computeInteriorBoundaryEdges
  simp only [ibe_fold, List.nil_append]
  rfl

theorem meshType_fold (S : Surf) (l : List (List Nat)) (q t : Bool) :
    l.foldl (Mouette.Generated.C01Src.computeMeshType_for1_step S) (q, t) =
      (q && l.all (·.length == 4), t && l.all (·.length == 3)) := by
  induction l generalizing q t with
  | nil => simp
  | cons x l ih =>
    rw [List.foldl_cons]
    have : Mouette.Generated.C01Src.computeMeshType_for1_step S (q, t) x = (q && (x.length == 4), t && (x.length == 3)) := by
      simp only [Mouette.Generated.C01Src.computeMeshType_for1_step]
      rw [show (4 == x.length) = (x.length == 4) from BEq.comm, show (3 == x.length) = (x.length == 3) from BEq.comm]
    rw [this, ih]
    simp [List.all_cons, Bool.and_assoc]

/-- **bridge** `_compute_mesh_type` -/
theorem computeMeshType_bridge (S : Surf) :
    Mouette.Generated.C01Src.computeMeshType S = (isTriangular S, isQuad S) := by
  unfold Mouette.Generated.C01Src.computeMeshType
  simp only [meshType_fold, Bool.true_and]
  rfl

theorem cons_fold {α β} (h : α → β) (l : List α) (d : List β) :
    l.foldl (fun d x => h x :: d) d = (l.map h).reverse ++ d := by
  induction l generalizing d with
  | nil => rfl
  | cons x l ih => rw [List.foldl_cons, ih]; simp

/-- the `_face_id` dict after `_compute_face_ids`: one entry per face, keyed by the sorted vertices, last face first -/
theorem computeFaceIds_eq (S : Surf) :
    Mouette.Generated.C01Src.computeFaceIds S = (S.faces.zipIdx.reverse.map fun p => (sortNat p.1, p.2)) := by
  unfold Mouette.Generated.C01Src.computeFaceIds
  have : Mouette.Generated.C01Src.computeFaceIds_for1_step S = fun (d : FaceDict) (x : Nat × List Nat) => (sortNat x.2, x.1) :: d := by
    funext d x; rfl
  simp only [this]
  rw [cons_fold (fun (x : Nat × List Nat) => (sortNat x.2, x.1))]
  simp [List.map_reverse, Function.comp_def]

/-- **bridge** `face_id` on the cache `_compute_face_ids` fills = the model's `faceId` -/
theorem faceId_bridge (S : Surf) (vs : List Nat) :
    Mouette.Generated.C01Src.faceId S (Mouette.Generated.C01Src.computeFaceIds S) vs = Mouette.Surface.faceId S vs := by
  unfold Mouette.Generated.C01Src.faceId Mouette.Surface.faceId dictGet
  try simp only []
  rw [computeFaceIds_eq, List.find?_map]
  simp [Function.comp_def]

theorem find?_congr' {α} {l : List α} {p q : α → Bool} (h : ∀ x ∈ l, p x = q x) : l.find? p = l.find? q := by
  induction l with
  | nil => rfl
  | cons x l ih =>
    rw [List.find?_cons, List.find?_cons, h x (List.mem_cons_self ..), ih (fun y hy => h y (List.mem_cons_of_mem _ hy))]

theorem computeEdgeId_eq (S : Surf) :
    Mouette.Generated.C01Src.computeEdgeId S = (S.edges.zipIdx.reverse.map fun p => (key2 p.1.1 p.1.2, p.2)) := by
  unfold Mouette.Generated.C01Src.computeEdgeId
  have : Mouette.Generated.C01Src.computeEdgeId_for1_step S =
      fun (d : EdgeDict) (x : Nat × Nat × Nat) => (key2 x.2.1 x.2.2, x.1) :: d := by
    funext d x; rfl
  simp only [this]
  rw [cons_fold (fun (x : Nat × Nat × Nat) => (key2 x.2.1 x.2.2, x.1))]
  simp [List.map_reverse, Function.comp_def]

/-- **bridge** `edge_id` on the cache `_compute_edge_id` fills = the model's `edgeId`, for a mesh whose edge container holds
keyified pairs and whose `_edge_id` model is the container read backwards (both hold for `build`) -/
theorem edgeId_bridge (S : Surf) (hR : S.edgesR = S.edges.zipIdx.reverse) (hk : ∀ e ∈ S.edges, key2 e.1 e.2 = e) (u v : Nat) :
    Mouette.Generated.C01Src.edgeId S (Mouette.Generated.C01Src.computeEdgeId S) u v = Mouette.Surface.edgeId S u v := by
  unfold Mouette.Generated.C01Src.edgeId Mouette.Surface.edgeId dictGet
  try simp only []
  rw [computeEdgeId_eq, List.find?_map, hR]
  have hcongr : ∀ p ∈ S.edges.zipIdx.reverse,
      ((fun (e : (Nat × Nat) × Nat) => e.1 == key2 u v) ∘ fun p => (key2 p.1.1 p.1.2, p.2)) p = (fun e => e.1 == key2 u v) p := by
    intro p hp
    have : p.1 ∈ S.edges := by
      have := List.mem_reverse.mp hp
      exact (List.mem_zipIdx_iff_getElem?.mp (show (p.1, p.2) ∈ S.edges.zipIdx from this)) |> List.mem_of_getElem?
    simp only [Function.comp]
    rw [hk p.1 this]
  rw [find?_congr' hcongr]
  simp [Option.map_map, Function.comp_def]

theorem edgeToFaces_bridge (S : Surf) (u v : Nat) :
    Mouette.Generated.C01Src.edgeToFaces S u v = Mouette.Surface.edgeToFaces S u v := rfl

theorem faceToEdges_bridge (S : Surf) (f : Nat) :
    Mouette.Generated.C01Src.faceToEdges S f = Mouette.Surface.faceToEdges S f := rfl

theorem vertexToEdges_bridge (S : Surf) (v : Nat) :
    Mouette.Generated.C01Src.vertexToEdges S v = Mouette.Surface.vertexToEdges S v := rfl

theorem otherEdgeEnd_bridge (S : Surf) (e v : Nat) :
    Mouette.Generated.C01Src.otherEdgeEnd S e v = Mouette.Surface.otherEdgeEnd S e v := by
  unfold Mouette.Generated.C01Src.otherEdgeEnd Mouette.Surface.otherEdgeEnd
  cases S.edges[e]? with
  | none => rfl
  | some ab =>
    obtain ⟨a, b⟩ := ab
    simp only [Option.map_some]
    by_cases h1 : v = a
    · subst h1; simp
    · by_cases h2 : v = b
      · subst h2; simp [h1]
      · simp [h1, h2]


/-! ### `_compute_interior_boundary_vertices` -/

theorem mem_setAdd (s : List Nat) (x v : Nat) : v ∈ setAdd s x ↔ v ∈ s ∨ v = x := by
  unfold setAdd
  by_cases hx : x ∈ s
  · have hc : s.contains x = true := by simpa using hx
    simp only [hc, if_true]
    constructor
    · exact Or.inl
    · rintro (h' | rfl)
      · exact h'
      · exact hx
  · simp [hx]

theorem nodup_setAdd (s : List Nat) (x : Nat) (h : s.Nodup) : (setAdd s x).Nodup := by
  unfold setAdd
  by_cases hx : x ∈ s
  · have hc : s.contains x = true := by simpa using hx
    simp only [hc, if_true]; exact h
  · have hc : s.contains x = false := by simpa using hx
    simp only [hc, Bool.false_eq_true, if_false]
    rw [List.nodup_append]
    refine ⟨h, by simp, ?_⟩
    intro a ha b hb
    simp only [List.mem_singleton] at hb
    subst hb
    intro hab; subst hab; exact hx ha

theorem flatMap_congr' {α β} {l : List α} {f g : α → List β} (h : ∀ x ∈ l, f x = g x) : l.flatMap f = l.flatMap g := by
  induction l with
  | nil => rfl
  | cons x l ih =>
    rw [List.flatMap_cons, List.flatMap_cons, h x (List.mem_cons_self ..), ih (fun y hy => h y (List.mem_cons_of_mem _ hy))]

/-- end points of a list of edge ids, as the loop reads them (`self.edges[e]`) -/
def endsOf (S : Surf) (l : List Nat) : List Nat := l.flatMap fun e => [(S.edges.getD e (0, 0)).1, (S.edges.getD e (0, 0)).2]

theorem bv_step (S : Surf) (bv : List Nat) (bm : BoolMap) (e : Nat) :
    Mouette.Generated.C01Src.computeInteriorBoundaryVertices_for1_step S (bv, bm) e =
      (setAdd (setAdd bv (S.edges.getD e (0, 0)).1) (S.edges.getD e (0, 0)).2,
       bm ++ [(S.edges.getD e (0, 0)).1] ++ [(S.edges.getD e (0, 0)).2]) := by
  simp [Mouette.Generated.C01Src.computeInteriorBoundaryVertices_for1_step, boolSet]

theorem bv_fold (S : Surf) (l : List Nat) : ∀ (bv : List Nat) (bm : BoolMap),
    (∀ v, v ∈ (l.foldl (Mouette.Generated.C01Src.computeInteriorBoundaryVertices_for1_step S) (bv, bm)).1 ↔ v ∈ bv ∨ v ∈ endsOf S l) ∧
    (bv.Nodup → (l.foldl (Mouette.Generated.C01Src.computeInteriorBoundaryVertices_for1_step S) (bv, bm)).1.Nodup) ∧
    (∀ v, v ∈ (l.foldl (Mouette.Generated.C01Src.computeInteriorBoundaryVertices_for1_step S) (bv, bm)).2 ↔ v ∈ bm ∨ v ∈ endsOf S l) := by
  induction l with
  | nil => intro bv bm; simp [endsOf]
  | cons e l ih =>
    intro bv bm
    rw [List.foldl_cons, bv_step]
    obtain ⟨h1, h2, h3⟩ := ih (setAdd (setAdd bv (S.edges.getD e (0, 0)).1) (S.edges.getD e (0, 0)).2)
      (bm ++ [(S.edges.getD e (0, 0)).1] ++ [(S.edges.getD e (0, 0)).2])
    refine ⟨?_, ?_, ?_⟩
    · intro v; rw [h1, mem_setAdd, mem_setAdd]; simp only [endsOf, List.flatMap_cons, List.mem_append, List.mem_cons, List.not_mem_nil, or_false, or_assoc]
    · intro hnd; exact h2 (nodup_setAdd _ _ (nodup_setAdd _ _ hnd))
    · intro v; rw [h3]; simp only [endsOf, List.flatMap_cons, List.mem_append, List.mem_cons, List.not_mem_nil, or_false, or_assoc]

theorem endsOf_boundary (S : Surf) : endsOf S (boundaryEdges S) = borderEnds S := by
  unfold endsOf borderEnds
  apply flatMap_congr'
  intro e he
  unfold boundaryEdges at he
  obtain ⟨x, hx, _⟩ := (mem_zipIdx_filter _ _ e).mp he
  have : S.edges.getD e (0, 0) = x := by simp [List.getD, hx]
  rw [this, hx]

theorem append_if_fold {α} (p : α → Bool) (l : List α) (init : List α) :
    l.foldl (fun acc x => if p x then acc ++ [x] else acc) init = init ++ l.filter p := by
  induction l generalizing init with
  | nil => simp
  | cons x l ih =>
    rw [List.foldl_cons, ih]
    by_cases h : p x <;> simp [h, List.filter_cons]

/-- **bridge** `_compute_interior_boundary_vertices`: the set it builds has the elements of the model's `boundaryVertices` (each
once), the flag attribute is the membership test, the interior list is the model's `interiorVertices` -/
theorem computeInteriorBoundaryVertices_bridge (S : Surf) (hR : ∀ v ∈ borderEnds S, v < S.nv) :
    (∀ v, v ∈ (Mouette.Generated.C01Src.computeInteriorBoundaryVertices S).1 ↔ v ∈ boundaryVertices S) ∧
    (Mouette.Generated.C01Src.computeInteriorBoundaryVertices S).1.Nodup ∧
    (∀ v, boolGet (Mouette.Generated.C01Src.computeInteriorBoundaryVertices S).2.1 v = isVertexOnBorder S v ∨ ¬ v < S.nv) ∧
    (Mouette.Generated.C01Src.computeInteriorBoundaryVertices S).2.2 = interiorVertices S := by
  obtain ⟨h1, h2, h3⟩ := bv_fold S (boundaryEdges S) [] []
  rw [endsOf_boundary] at h1 h3
  have hbv : ∀ v, v ∈ boundaryVertices S ↔ v ∈ borderEnds S := by
    intro v
    unfold boundaryVertices
    rw [List.mem_filter, List.mem_range, List.contains_iff_mem]
    exact ⟨fun h => h.2, fun h => ⟨hR v h, h⟩⟩
  have hflag : ∀ v, v < S.nv →
      boolGet (List.foldl (Mouette.Generated.C01Src.computeInteriorBoundaryVertices_for1_step S) ([], []) (boundaryEdges S)).2 v =
        isVertexOnBorder S v := by
    intro v hv
    unfold boolGet isVertexOnBorder
    rw [Bool.eq_iff_iff, List.contains_iff_mem, List.contains_iff_mem, h3, hbv]
    simp
  have hstep2 : ∀ bm : BoolMap, Mouette.Generated.C01Src.computeInteriorBoundaryVertices_for2_step S bm =
      fun (acc : List Nat) (x : Nat) => if (!boolGet bm x) then acc ++ [x] else acc := by
    intro bm; funext acc x
    simp only [Mouette.Generated.C01Src.computeInteriorBoundaryVertices_for2_step]
    first | done | (cases (!boolGet bm x) <;> rfl)
  refine ⟨?_, ?_, ?_, ?_⟩
  · intro v
    show v ∈ (List.foldl _ ([], []) (boundaryEdges S)).1 ↔ _
    rw [h1, hbv]; simp
  · exact h2 List.nodup_nil
  · intro v
    by_cases hv : v < S.nv
    · exact Or.inl (hflag v hv)
    · exact Or.inr hv
  · show List.foldl (Mouette.Generated.C01Src.computeInteriorBoundaryVertices_for2_step S _) [] (List.range S.nv) = _
    rw [hstep2, append_if_fold, List.nil_append]
    unfold interiorVertices
    apply List.filter_congr
    intro v hv
    rw [hflag v (List.mem_range.mp hv)]

end Mouette.Lemmas.C01Source
