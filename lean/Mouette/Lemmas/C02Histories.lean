import Mouette.Model.Prepare
/-
Histories on one object (round 3), as model functions (core Lean only):
  * `appendElems`  : elements appended (container API) to a built mesh, then `RawMeshData(mesh)`;
  * `saveLoadView` : what `mouette.mesh.save(mesh, path)` followed by `load(path, raw=True)` hands to `prepare`, for the two
                     formats and the shapes where the format keeps the element order (.obj: no cells; medit .mesh:
                     tetrahedra and triangles only): vertices, the edges the writer exports (all of them for a polyline or
                     when edge completion is off, the `hard_edges` ones otherwise), faces, cells; attributes do not travel.
-/
namespace Mouette.Prepare

/-- `mesh.<container>.append(x)` for the containers the class has, then `RawMeshData(mesh)`; `DataContainer.append`
expands dense attributes -/
def appendElems (b : Built) (v2 : List (List Rat)) (e2 : List (Int × Int)) (f2 c2 : List (List Nat)) : Raw :=
  let x := rewrap b
  { x with
    verts := x.verts ++ v2,
    edges := if 1 ≤ b.dim then x.edges ++ e2 else x.edges,
    eattrs := if 1 ≤ b.dim then x.eattrs.map (expandAttr e2.length) else x.eattrs,
    faces := if 2 ≤ b.dim then x.faces ++ f2 else x.faces,
    cells := if 3 ≤ b.dim then x.cells ++ c2 else x.cells }

/-- keys of the `hard_edges` attribute in dict order (`for e in attribute`) -/
def hardKeys : List Attr → Option (List Nat)
  | [] => none
  | a :: rest =>
    if a.name = hardName then
      match a.st with
      | .sparse d => some (d.map (fun kv => kv.1))
      | .dense v => some (List.range v.length)
    else hardKeys rest

/-- the edges a writer exports: `obj`: all when edge completion is off or the data is a polyline, else the hard ones
(none without the attribute); `mesh`: the hard ones when the attribute exists, else all -/
def exportedEdges (obj : Bool) (cfg : Cfg) (x : Raw) : List (Int × Int) :=
  let hard := fun (ks : List Nat) => ks.map (fun k => x.edges.getD k (0, 0))
  if obj then
    if !cfg.ce || dimensionality x == 1 then x.edges
    else match hardKeys x.eattrs with
      | some ks => hard ks
      | none => []
  else
    match hardKeys x.eattrs with
    | some ks => hard ks
    | none => x.edges

def saveLoadView (obj : Bool) (cfg : Cfg) (b : Built) : Raw :=
  let x := rewrap b
  { verts := x.verts, edges := exportedEdges obj cfg x, faces := x.faces,
    cells := if obj then [] else x.cells }

end Mouette.Prepare
