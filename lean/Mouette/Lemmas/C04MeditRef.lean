import Mouette.Lemmas.C04Medit
/-! C04 (P1, interoperability): the medit reader automaton reads a file laid out by an independent writer. -/
namespace Mouette.IO
variable {C : Type}

theorem readField_refMedRec (k : Nat) (f : List Nat) (hk : f.length = k) : readField k (refMedRec f) = some f := by
  have h1 : mapOpt readInt (f.map idx1 ++ [Tok.int 0]) = some (f.map (fun (n : Nat) => (n : Int) + 1) ++ [0]) := by
    apply mapOpt_append
    · exact mapOpt_map_gen idx1 readInt (fun (n : Nat) => (n : Int) + 1) f (fun x _ => rfl)
    · rfl
  simp only [readField, refMedRec, h1]
  have h2 : (f.map (fun (n : Nat) => (n : Int) + 1) ++ [0]).take k = f.map (fun (n : Nat) => (n : Int) + 1) := by
    rw [List.take_left' (by simp [hk])]
  rw [h2]
  apply mapOpt_map_of
  intro x _
  have : (1 : Int) ≤ (x : Int) + 1 := by omega
  simp only [this, if_true]
  congr 1
  omega

/-- records of one block written with any record encoder the reader decodes -/
theorem medit_records_enc (cd : Codec C) (rows : List (String × Cont × Nat)) (enc : List Nat → Line) (c : Cont) (k : Nat)
    (fs : List (List Nat)) (hk : ∀ f ∈ fs, readField k (enc f) = some f) (r r' : Raw C)
    (hp : pushAll r c fs = some r') :
    foldOpt (stepMedit cd rows) (afterCount (some (c, k)) fs.length, r) (fs.map enc) = some (.idle, r') := by
  induction fs generalizing r with
  | nil => simp [pushAll, foldOpt] at hp; subst hp; simp [afterCount, foldOpt]
  | cons f t ih =>
    simp only [pushAll, foldOpt] at hp
    cases hpe : pushElem r c f with
    | none => simp [hpe] at hp
    | some r1 =>
      simp only [hpe] at hp
      have hstep : stepMedit cd rows (afterCount (some (c, k)) (f :: t).length, r) (enc f)
          = some (afterCount (some (c, k)) t.length, r1) := by
        simp [afterCount, stepMedit, hk f (by simp), hpe]
      simp only [List.map_cons, foldOpt, hstep]
      exact ih (fun x hx => hk x (by simp [hx])) r1 hp

theorem medit_block_enc (cd : Codec C) (rows : List (String × Cont × Nat)) (enc : List Nat → Line) (kwd : String)
    (c : Cont) (k : Nat) (hrow : lookupRow rows kwd = some (c, k)) (hE : kwd ≠ "End") (hV : kwd ≠ "Vertices")
    (fs : List (List Nat)) (hk : ∀ f ∈ fs, readField k (enc f) = some f) (r r' : Raw C)
    (hp : pushAll r c fs = some r') :
    foldOpt (stepMedit cd rows) (.idle, r) (block kwd (fs.map enc)) = some (.idle, r') := by
  unfold block
  by_cases hnil : fs = []
  · subst hnil; simp [pushAll, foldOpt] at hp; subst hp; simp [foldOpt]
  · have : fs.map enc ≠ [] := by simpa using hnil
    simp only [this, if_false, foldOpt]
    have h1 : stepMedit cd rows (.idle, r) [.kw kwd] = some (.count (some (c, k)), r) := by
      simp [stepMedit, hE, hV, hrow]
    have h2 : stepMedit cd rows (.count (some (c, k)), r) [idx0 (fs.map enc).length]
        = some (afterCount (some (c, k)) fs.length, r) := by
      simp [stepMedit]
    simp only [h1, h2]
    exact medit_records_enc cd rows enc c k fs hk r r' hp

theorem medit_vertices_ref (cd : Codec C) (h : RoundTrips cd) (rows : List (String × Cont × Nat))
    (vs : List (C × C × C)) (r : Raw C) :
    foldOpt (stepMedit cd rows) (afterCount none vs.length, r) (vs.map (fun v => coordLine cd v ++ [.int 0]))
      = some (.idle, { r with verts := r.verts ++ vs }) := by
  induction vs generalizing r with
  | nil => simp [afterCount, foldOpt]
  | cons v t ih =>
    have hstep : stepMedit cd rows (afterCount none (v :: t).length, r) (coordLine cd v ++ [.int 0])
        = some (afterCount none t.length, { r with verts := r.verts ++ [v] }) := by
      simp [afterCount, stepMedit, coordLine, readNum_num cd h]
    simp only [List.map_cons, foldOpt, hstep]
    rw [ih]; simp

/-- what mouette's reader makes of the reference writer's file -/
def refMeditContent (m : Raw C) : Raw C :=
  { verts := m.verts, edges := m.edges,
    faces := ofArity 4 m.faces ++ ofArity 3 m.faces, cells := ofArity 4 m.cells ++ ofArity 8 m.cells }

theorem importMedit_refExportMedit (cd : Codec C) (h : RoundTrips cd) (m : Raw C) :
    importMedit cd (refExportMedit cd m) = some (refMeditContent m) := by
  unfold importMedit importMeditWith refExportMedit
  simp only [foldOpt]
  have s0 : stepMedit cd meditRows (.idle, Raw.empty) [.kw "MeshVersionFormatted", .int 2] = some (.idle, Raw.empty) := by
    simp [stepMedit]
  have s1 : stepMedit cd meditRows (.idle, (Raw.empty : Raw C)) [.kw "Dimension", .int 3] = some (.idle, Raw.empty) := by
    simp [stepMedit]
  simp only [s0, s1]
  have hv : foldOpt (stepMedit cd meditRows) (.idle, (Raw.empty : Raw C))
      (if m.verts = [] then [] else
        [.kw "Vertices"] :: [idx0 m.verts.length] :: m.verts.map (fun v => coordLine cd v ++ [.int 0]))
      = some (.idle, { (Raw.empty : Raw C) with verts := m.verts }) := by
    by_cases hn : m.verts = []
    · simp [hn, foldOpt, Raw.empty]
    · simp only [hn, if_false, foldOpt]
      have a1 : stepMedit cd meditRows (.idle, (Raw.empty : Raw C)) [.kw "Vertices"] = some (.count none, Raw.empty) := by
        simp [stepMedit]
      have a2 : stepMedit cd meditRows (.count none, (Raw.empty : Raw C)) [idx0 m.verts.length]
          = some (afterCount none m.verts.length, Raw.empty) := by
        simp [stepMedit]
      simp only [a1, a2]
      rw [medit_vertices_ref cd h]; simp [Raw.empty]
  rw [foldOpt_append_some _ _ _ _ _ hv]
  have rf : ∀ (k : Nat) (l : List (List Nat)), (∀ f ∈ l, f.length = k) → ∀ f ∈ l, readField k (refMedRec f) = some f :=
    fun k l hl f hf => readField_refMedRec k f (hl f hf)
  rw [foldOpt_append_some _ _ _ _ _
    (medit_block_enc cd meditRows refMedRec "Quadrilaterals" .faces 4 (by decide) (by decide) (by decide) _
      (rf 4 _ (ofArity_length 4 _)) _ _ (pushAll_faces _ _))]
  rw [foldOpt_append_some _ _ _ _ _
    (medit_block_enc cd meditRows refMedRec "Triangles" .faces 3 (by decide) (by decide) (by decide) _
      (rf 3 _ (ofArity_length 3 _)) _ _ (pushAll_faces _ _))]
  rw [foldOpt_append_some _ _ _ _ _
    (medit_block_enc cd meditRows refMedRec "Tetrahedra" .cells 4 (by decide) (by decide) (by decide) _
      (rf 4 _ (ofArity_length 4 _)) _ _ (pushAll_cells _ _))]
  rw [foldOpt_append_some _ _ _ _ _
    (medit_block_enc cd meditRows refMedRec "Hexahedra" .cells 8 (by decide) (by decide) (by decide) _
      (rf 8 _ (ofArity_length 8 _)) _ _ (pushAll_cells _ _))]
  rw [foldOpt_append_some _ _ _ _ _
    (medit_block_enc cd meditRows refMedRec "Edges" .edges 2 (by decide) (by decide) (by decide) _
      (rf 2 _ (by intro f hf; simp at hf; obtain ⟨_, _, _, rfl⟩ := hf; rfl)) _ _ (pushAll_edges _ _))]
  simp [foldOpt, stepMedit, refMeditContent, Raw.empty]

end Mouette.IO
