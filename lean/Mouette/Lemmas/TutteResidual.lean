import Mouette.Lemmas.TutteLap
import Mathlib.Algebra.BigOperators.Group.List.Basic
import Mathlib.Algebra.BigOperators.Ring.List
import Mathlib.Data.List.Forall2
/-!
The exact check `residualZero` performed by the driver on every case implies the hypothesis of
`interior_is_weighted_average`: for every free vertex `r`, `(L u)_r = 0`, where `u` takes the border data on the
border vertices and `H · (border data)` on the free vertices.
-/
namespace Mouette.Tutte

theorem foldl_add_eq (l : List Triplet) (a : Rat) :
    l.foldl (fun s t => s + t.2.2) a = a + (l.map (fun t => t.2.2)).sum := by
  induction l generalizing a with
  | nil => simp
  | cons t l ih => simp only [List.foldl_cons, List.map_cons, List.sum_cons, ih]; ring

theorem entry_nil (r c : Nat) : entry [] r c = 0 := rfl

theorem entry_cons (t : Triplet) (T : List Triplet) (r c : Nat) :
    entry (t :: T) r c = (if t.1 = r ∧ t.2.1 = c then t.2.2 else 0) + entry T r c := by
  unfold entry
  rw [foldl_add_eq, foldl_add_eq]
  by_cases h1 : t.1 = r <;> by_cases h2 : t.2.1 = c <;> simp [List.filter_cons, h1, h2]

/-- restricting to the triplets of row `r` first (as the model does) does not change the entry -/
theorem entry_filter_row (T : List Triplet) (r c : Nat) :
    entry (T.filter (fun t => t.1 == r)) r c = entry T r c := by
  induction T with
  | nil => rfl
  | cons t T ih =>
    by_cases h : t.1 = r
    · have : (t :: T).filter (fun t => t.1 == r) = t :: T.filter (fun t => t.1 == r) := by simp [List.filter_cons, h]
      rw [this, entry_cons, entry_cons, ih]
    · have : (t :: T).filter (fun t => t.1 == r) = T.filter (fun t => t.1 == r) := by simp [List.filter_cons, h]
      rw [this, entry_cons, ih]
      simp [h]

/-- `Σ_{c ∈ C} [c = col] · x_c = x_col` for a duplicate-free `C` containing `col` -/
theorem sum_indicator (C : List Nat) (nd : C.Nodup) (col : Nat) (hc : col ∈ C) (val : Rat) (u : Nat → Rat) :
    (C.map (fun c => (if col = c then val else 0) * u c)).sum = val * u col := by
  induction C with
  | nil => simp at hc
  | cons a C ih =>
    rw [List.nodup_cons] at nd
    rw [List.map_cons, List.sum_cons]
    rcases List.mem_cons.mp hc with h | h
    · subst h
      have hz : (C.map (fun c => (if col = c then val else 0) * u c)).sum = 0 := by
        apply List.sum_eq_zero
        intro x hx
        obtain ⟨c, hcC, rfl⟩ := List.mem_map.mp hx
        have : col ≠ c := fun e => nd.1 (e ▸ hcC)
        simp [this]
      rw [hz]; simp
    · have hne : col ≠ a := fun e => nd.1 (e ▸ h)
      rw [ih nd.2 h]; simp [hne]

theorem sum_indicator_none (C : List Nat) (val : Rat) (u : Nat → Rat) :
    (C.map (fun c => (if False ∧ True then val else 0) * u c)).sum = 0 := by
  apply List.sum_eq_zero
  intro x hx
  obtain ⟨c, _, rfl⟩ := List.mem_map.mp hx
  simp

/-- `(L u)_r = Σ_{c ∈ C} L[r][c] · u_c` for every duplicate-free list `C` of columns covering row `r` -/
theorem mulRow_eq_entries (T : List Triplet) (u : Nat → Rat) (r : Nat) (C : List Nat) (nd : C.Nodup)
    (cover : ∀ t, t ∈ T → t.1 = r → t.2.1 ∈ C) :
    mulRow T u r = (C.map (fun c => entry T r c * u c)).sum := by
  induction T with
  | nil =>
    rw [mulRow_nil]
    symm; apply List.sum_eq_zero
    intro x hx
    obtain ⟨c, _, rfl⟩ := List.mem_map.mp hx
    simp [entry_nil]
  | cons t T ih =>
    rw [mulRow_cons, ih (fun t' ht' => cover t' (List.mem_cons_of_mem _ ht'))]
    have hsplit : (C.map (fun c => entry (t :: T) r c * u c)).sum =
        (C.map (fun c => (if t.1 = r ∧ t.2.1 = c then t.2.2 else 0) * u c)).sum +
        (C.map (fun c => entry T r c * u c)).sum := by
      rw [← List.sum_map_add]
      congr 1
      apply List.map_congr_left
      intro c _
      rw [entry_cons]; ring
    rw [hsplit]
    congr 1
    by_cases h : t.1 = r
    · rw [if_pos h]
      have hc := cover t List.mem_cons_self h
      have := sum_indicator C nd t.2.1 hc t.2.2 u
      rw [← this]
      congr 1
      apply List.map_congr_left
      intro c _
      simp [h]
    · rw [if_neg h]
      symm; apply List.sum_eq_zero
      intro x hx
      obtain ⟨c, _, rfl⟩ := List.mem_map.mp hx
      simp [h]

/-- value of a free vertex: `Σ_b H[k][b] · uB[b]` -/
def dotB (nb : Nat) (uB hrow : List Rat) : Rat :=
  ((List.range nb).map (fun b => hrow.getD b 0 * uB.getD b 0)).sum

/-- exchange of the two finite sums -/
theorem sum_zip_dotB (nb : Nat) (uB : List Rat) : ∀ (Z : List (Rat × List Rat)),
    (Z.map (fun z => z.1 * dotB nb uB z.2)).sum =
      ((List.range nb).map (fun b => uB.getD b 0 * (Z.map (fun z => z.1 * z.2.getD b 0)).sum)).sum
  | [] => by
    simp only [List.map_nil, List.sum_nil, mul_zero]
    symm; apply List.sum_eq_zero
    intro x hx
    obtain ⟨_, _, rfl⟩ := List.mem_map.mp hx
    rfl
  | z :: Z => by
    rw [List.map_cons, List.sum_cons, sum_zip_dotB nb uB Z]
    unfold dotB
    rw [← List.sum_map_mul_left, ← List.sum_map_add]
    congr 1
    apply List.map_congr_left
    intro b _
    simp only [List.map_cons, List.sum_cons]
    ring

theorem map_eq_range_getD (l : List Nat) (f : Nat → Rat) :
    l.map f = (List.range l.length).map (fun b => f (l.getD b 0)) := by
  apply List.ext_getElem
  · simp
  · intro i h1 h2
    simp only [List.getElem_map, List.getElem_range]
    rw [List.getD_eq_getElem?_getD, List.getElem?_eq_getElem (by simpa using h1)]
    rfl

/-- The driver's exact check implies that every free row of the system is satisfied. -/
theorem mulRow_zero_of_residualZero (T : List Triplet) (free bnd : List Nat) (H : List (List Rat))
    (uB : List Rat) (u : Nat → Rat)
    (hres : residualZero T free bnd H = true)
    (nd : (free ++ bnd).Nodup)
    (hI : List.Forall₂ (fun c hrow => u c = dotB bnd.length uB hrow) free H)
    (hB : ∀ b, b < bnd.length → u (bnd.getD b 0) = uB.getD b 0)
    (r : Nat) (hr : r ∈ free) (cover : ∀ t, t ∈ T → t.1 = r → t.2.1 ∈ free ++ bnd) :
    mulRow T u r = 0 := by
  rw [mulRow_eq_entries T u r (free ++ bnd) nd cover, List.map_append, List.sum_append]
  -- the check, for this row
  unfold residualZero at hres
  rw [List.all_eq_true] at hres
  have hrow := hres r hr
  simp only [] at hrow
  rw [List.all_eq_true] at hrow
  -- free part: replace u c by dotB
  have hfree : (free.map (fun c => entry T r c * u c)).sum =
      ((free.zip H).map (fun z => entry T r z.1 * dotB bnd.length uB z.2)).sum := by
    clear hres hrow nd cover hr
    induction hI with
    | nil => rfl
    | cons hab _ ih =>
      simp only [List.map_cons, List.sum_cons, List.zip_cons_cons, ih, hab]
  have hzip : ((free.zip H).map (fun z => entry T r z.1 * dotB bnd.length uB z.2)).sum =
      (((free.zip H).map (fun z => (entry T r z.1, z.2))).map (fun z => z.1 * dotB bnd.length uB z.2)).sum := by
    rw [List.map_map]; rfl
  rw [hfree, hzip, sum_zip_dotB, map_eq_range_getD bnd, ← List.sum_map_add]
  apply List.sum_eq_zero
  intro x hx
  obtain ⟨b, hb, rfl⟩ := List.mem_map.mp hx
  have hb' : b < bnd.length := by simpa using hb
  have hcheck := hrow b hb
  rw [beq_iff_eq] at hcheck
  simp only [entry_filter_row] at hcheck
  rw [hB b hb', List.map_map]
  have : ((free.zip H).map ((fun z : Rat × List Rat => z.1 * z.2.getD b 0) ∘ fun z => (entry T r z.1, z.2))).sum
      = ((free.zip H).map (fun x => entry T r x.1 * x.2.getD b 0)).sum := rfl
  rw [this]
  have hc2 : ((free.zip H).map (fun x => entry T r x.1 * x.2.getD b 0)).sum = - entry T r (bnd.getD b 0) := by
    have : ((free.zip H).map (fun x : Nat × List Rat => match x with | (c, hrow) => entry T r c * hrow.getD b 0)).sum
        = ((free.zip H).map (fun x => entry T r x.1 * x.2.getD b 0)).sum := rfl
    rw [this] at hcheck
    linarith
  rw [hc2]; ring

end Mouette.Tutte

namespace Mouette.Tutte

theorem mem_edgeTriplets {i j : Nat} {v : Rat} {t : Triplet} (h : t ∈ edgeTriplets i j v) :
    (t.1 = i ∨ t.1 = j) ∧ (t.2.1 = i ∨ t.2.1 = j) := by
  unfold edgeTriplets at h
  simp only [List.mem_cons, List.mem_nil_iff, or_false] at h
  rcases h with rfl | rfl | rfl | rfl <;> simp

/-- rows and columns of the Laplacian triplets of a triangle list are vertices of one face -/
theorem mem_lapTripletsFrom (cot : Option (List Rat)) : ∀ (F : List (List Nat)) (iT : Nat) (t : Triplet),
    (∀ f, f ∈ F → f.length = 3) → t ∈ lapTripletsFrom cot iT F → ∃ f, f ∈ F ∧ t.1 ∈ f ∧ t.2.1 ∈ f
  | [], _, _, _, h => by simp [lapTripletsFrom] at h
  | f :: fs, iT, t, tri, h => by
    unfold lapTripletsFrom at h
    simp only [] at h
    rw [List.mem_append] at h
    rcases h with h | h
    · have hf : f.length = 3 := tri f List.mem_cons_self
      have m0 : f.getD 0 0 ∈ f := by
        rw [List.getD_eq_getElem?_getD, List.getElem?_eq_getElem (by omega)]; exact List.getElem_mem _
      have m1 : f.getD 1 0 ∈ f := by
        rw [List.getD_eq_getElem?_getD, List.getElem?_eq_getElem (by omega)]; exact List.getElem_mem _
      have m2 : f.getD 2 0 ∈ f := by
        rw [List.getD_eq_getElem?_getD, List.getElem?_eq_getElem (by omega)]; exact List.getElem_mem _
      refine ⟨f, List.mem_cons_self, ?_⟩
      unfold faceTriplets at h
      rw [List.mem_append, List.mem_append] at h
      rcases h with (h | h) | h
      · obtain ⟨a, b⟩ := mem_edgeTriplets h
        exact ⟨by rcases a with a | a <;> rw [a] <;> assumption, by rcases b with b | b <;> rw [b] <;> assumption⟩
      · obtain ⟨a, b⟩ := mem_edgeTriplets h
        exact ⟨by rcases a with a | a <;> rw [a] <;> assumption, by rcases b with b | b <;> rw [b] <;> assumption⟩
      · obtain ⟨a, b⟩ := mem_edgeTriplets h
        exact ⟨by rcases a with a | a <;> rw [a] <;> assumption, by rcases b with b | b <;> rw [b] <;> assumption⟩
    · obtain ⟨g, hg, r⟩ := mem_lapTripletsFrom cot fs (iT + 1) t (fun x hx => tri x (List.mem_cons_of_mem _ hx)) h
      exact ⟨g, List.mem_cons_of_mem _ hg, r⟩

end Mouette.Tutte
