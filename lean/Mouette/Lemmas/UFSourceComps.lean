import Mouette.Lemmas.UFSource
/-!
Helper lemmas for the translated `components()` (core Lean only): the local dict `root_ids = dict((r, i) for i, r in
enumerate(roots))`, the buckets `[[] for _ in roots]`, and the loop `components[root_ids[find(e)]].append(e)` as a pure fold.
-/
namespace Mouette.UFS
open Mouette.UF

/-! ### `dict(pairs)` -/

theorem foldl_dset_lookup_of_not_mem : ∀ (ps : List (Nat × Nat)) (d : Dict) (r : Nat), (∀ p, p ∈ ps → p.1 ≠ r) →
    (ps.foldl (fun d p => dset d p.1 p.2) d).lookup r = d.lookup r := by
  intro ps
  induction ps with
  | nil => intro d r _; rfl
  | cons p ps ih =>
    intro d r h
    rw [List.foldl_cons, ih _ r (fun q hq => h q (List.mem_cons_of_mem _ hq))]
    have : p.1 ≠ r := h p (List.mem_cons_self ..)
    have hb : (r == p.1) = false := by simp; exact fun e => this e.symm
    simp [dset, List.lookup_cons, hb]

theorem foldl_dset_lookup : ∀ (ps : List (Nat × Nat)) (d : Dict) (r v : Nat), (ps.map Prod.fst).Nodup → (r, v) ∈ ps →
    (ps.foldl (fun d p => dset d p.1 p.2) d).lookup r = some v := by
  intro ps
  induction ps with
  | nil => intro d r v _ h; cases h
  | cons p ps ih =>
    intro d r v hn hm
    rw [List.map_cons, List.nodup_cons] at hn
    rw [List.foldl_cons]
    rcases List.mem_cons.mp hm with e | hm'
    · subst e
      rw [foldl_dset_lookup_of_not_mem ps _ r]
      · simp [dset]
      · intro q hq e
        exact hn.1 (List.mem_map.mpr ⟨q, hq, e⟩)
    · exact ih _ r v hn.2 hm'

theorem enumerateFrom_keys : ∀ (l : List Nat) (k : Nat),
    ((enumerateFrom k l).map (fun (p : Nat × Nat) => (p.2, p.1))).map Prod.fst = l := by
  intro l
  induction l with
  | nil => intro k; rfl
  | cons a l ih => intro k; simp only [enumerateFrom, List.map_cons, ih (k + 1)]

theorem mem_enumerateFrom : ∀ (l : List Nat) (k r : Nat), r ∈ l →
    (r, k + l.idxOf r) ∈ (enumerateFrom k l).map (fun (p : Nat × Nat) => (p.2, p.1)) := by
  intro l
  induction l with
  | nil => intro k r h; cases h
  | cons a l ih =>
    intro k r h
    by_cases e : a = r
    · subst e
      simp [enumerateFrom]
    · have hr : r ∈ l := by
        rcases List.mem_cons.mp h with h | h
        · exact absurd h.symm e
        · exact h
      have hi : (a :: l).idxOf r = l.idxOf r + 1 := by
        rw [List.idxOf_cons]
        have : (a == r) = false := by simp [e]
        rw [this]; rfl
      rw [hi, enumerateFrom, List.map_cons]
      apply List.mem_cons_of_mem
      have := ih (k + 1) r hr
      rwa [show k + 1 + l.idxOf r = k + (l.idxOf r + 1) by omega] at this

/-- `root_ids[r]` is the position of `r` in `roots` (a duplicate-free list) -/
theorem rootIds_lookup {rs : List Nat} (hn : rs.Nodup) {r : Nat} (hr : r ∈ rs) :
    dlookup (dictOf ((enumerate rs).map (fun (p : Nat × Nat) => (p.2, p.1)))) r = some (rs.idxOf r) := by
  unfold dlookup dictOf enumerate
  apply foldl_dset_lookup
  · rw [enumerateFrom_keys]; exact hn
  · have := mem_enumerateFrom rs 0 r hr
    rwa [Nat.zero_add] at this

/-! ### buckets -/

theorem bucketAppend_map : ∀ (rs : List Nat), rs.Nodup → ∀ (B : Nat → List Nat) (r : Nat), r ∈ rs → ∀ (e : Nat),
    bucketAppend (rs.map B) (rs.idxOf r) e = some (rs.map (fun r' => if r' = r then B r' ++ [e] else B r')) := by
  intro rs
  induction rs with
  | nil => intro _ B r h; cases h
  | cons a rs ih =>
    intro hn B r hr e
    rw [List.nodup_cons] at hn
    by_cases ea : a = r
    · subst ea
      have hi : (a :: rs).idxOf a = 0 := List.idxOf_cons_self
      rw [hi, List.map_cons, bucketAppend, List.map_cons, if_pos rfl]
      congr 2
      apply List.map_congr_left
      intro r' hr'
      have : r' ≠ a := fun e' => hn.1 (e' ▸ hr')
      rw [if_neg this]
    · have hr' : r ∈ rs := by
        rcases List.mem_cons.mp hr with h | h
        · exact absurd h.symm ea
        · exact h
      have hi : (a :: rs).idxOf r = rs.idxOf r + 1 := by
        rw [List.idxOf_cons]
        have : (a == r) = false := by simp [ea]
        rw [this]; rfl
      rw [hi, List.map_cons, bucketAppend, ih hn.2 B r hr' e, List.map_cons, if_neg ea]
      rfl

/-- the loop body of `components()` without the state: bucket of the class of `e` gets `e` -/
def bucketStep (ids : Dict) (cls : Nat → Nat) (acc : Option (List (List Nat))) (e : Nat) : Option (List (List Nat)) :=
  match acc with
  | none => none
  | some bs =>
    match dlookup ids (cls e) with
    | none => none
    | some i => bucketAppend bs i e

theorem bucketFold_none (ids : Dict) (cls : Nat → Nat) : ∀ (l : List Nat), l.foldl (bucketStep ids cls) none = none := by
  intro l
  induction l with
  | nil => rfl
  | cons e l ih => rw [List.foldl_cons]; exact ih

/-- closed form of the loop: the bucket of root `r` receives, in order, the elements whose class is `r`; nothing raises -/
theorem bucketFold_spec {rs : List Nat} (hn : rs.Nodup) {ids : Dict}
    (hids : ∀ r, r ∈ rs → dlookup ids r = some (rs.idxOf r)) (cls : Nat → Nat) :
    ∀ (l : List Nat) (B : Nat → List Nat), (∀ e, e ∈ l → cls e ∈ rs) →
      l.foldl (bucketStep ids cls) (some (rs.map B))
        = some (rs.map (fun r => B r ++ l.filter (fun e => decide (cls e = r)))) := by
  intro l
  induction l with
  | nil => intro B _; simp
  | cons e l ih =>
    intro B h
    have he := h e (List.mem_cons_self ..)
    rw [List.foldl_cons]
    have : bucketStep ids cls (some (rs.map B)) e
        = some (rs.map (fun r' => if r' = cls e then B r' ++ [e] else B r')) := by
      simp only [bucketStep, hids _ he]
      exact bucketAppend_map rs hn B (cls e) he e
    rw [this, ih _ (fun z hz => h z (List.mem_cons_of_mem _ hz))]
    congr 1
    apply List.map_congr_left
    intro r _
    by_cases hr : cls e = r
    · subst hr
      simp
    · have hr' : ¬ r = cls e := fun e' => hr e'.symm
      simp [hr, hr']

end Mouette.UFS
