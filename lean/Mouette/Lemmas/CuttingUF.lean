import Mouette.Model.Cutting
import Mouette.Lemmas.UnionFind
/-!
Union-find facts used by the C16 theorems (core Lean only), on top of `Lemmas/UnionFind.lean` (C20):
* `Resp s lab` — the root of every element carries the same label as the element; preserved by `add`, by
  `union x y` when `lab x = lab y`, and by `find`;
* `findAll`/`findFaces` return `classOf` of every argument and only permute `par` (`PEquiv`);
* elements joined by a `union` stay in one class.
-/
namespace Mouette.Cutting
open Mouette Mouette.UF

/-- the root of every element carries the label of the element -/
def Resp {α : Type} (s : State) (lab : Nat → α) : Prop :=
  ∀ x, x ∈ s.elts → lab (eltAt s (classOf s x)) = lab x

theorem resp_init {α : Type} (lab : Nat → α) : Resp init lab := by
  intro x hx; simp [init] at hx

theorem eltAt_add_old {s : State} (x : Nat) {i : Nat} (hi : i < s.elts.length) :
    eltAt (add s x) i = eltAt s i := by
  by_cases h : x ∈ s.elts
  · rw [add_of_mem h]
  · rw [add_of_not_mem h]
    unfold eltAt
    simp only []
    rw [List.getD_eq_getElem?_getD, List.getD_eq_getElem?_getD, List.getElem?_append_left hi]

theorem eltAt_add_new {s : State} {x : Nat} (h : x ∉ s.elts) :
    eltAt (add s x) s.elts.length = x := by
  rw [add_of_not_mem h]
  unfold eltAt
  simp only []
  rw [List.getD_eq_getElem?_getD]
  simp

theorem resp_add {α : Type} {s : State} {lab : Nat → α} (inv : Inv s) (r : Resp s lab) (x : Nat) :
    Resp (add s x) lab := by
  by_cases h : x ∈ s.elts
  · rw [add_of_mem h]; exact r
  · intro z hz
    rw [mem_add_elts] at hz
    by_cases hzs : z ∈ s.elts
    · rw [classOf_add_old inv x hzs, eltAt_add_old x (classOf_lt inv hzs)]
      exact r z hzs
    · have hzx : z = x := by
        rcases hz with hz | hz
        · exact absurd hz hzs
        · exact hz
      subst hzx
      rw [classOf_add_new inv h, eltAt_add_new h]

theorem eltAt_congr {s s' : State} (h : s'.elts = s.elts) (i : Nat) : eltAt s' i = eltAt s i := by
  unfold eltAt; rw [h]

theorem classOf_union {s : State} (inv : Inv s) (x y : Nat) :
    ∃ a b,
      ((a = classOf (add (add s x) y) x ∧ b = classOf (add (add s x) y) y) ∨
       (a = classOf (add (add s x) y) y ∧ b = classOf (add (add s x) y) x)) ∧
      ∀ z, z ∈ (add (add s x) y).elts →
        classOf (union s x y) z
          = if classOf (add (add s x) y) z = a then b else classOf (add (add s x) y) z := by
  obtain ⟨_, he, a, b, hab, hr⟩ := union_spec inv x y
  refine ⟨a, b, hab, ?_⟩
  intro z hz
  unfold classOf
  rw [he]
  exact hr _ (idxOf_lt hz)

theorem resp_union {α : Type} {s : State} {lab : Nat → α} (inv : Inv s) (r : Resp s lab) {x y : Nat}
    (hxy : lab x = lab y) : Resp (union s x y) lab := by
  have inv1 : Inv (add (add s x) y) := inv_add (inv_add inv x) y
  have r1 : Resp (add (add s x) y) lab := resp_add (inv_add inv x) (resp_add inv r x) y
  have hx1 : x ∈ (add (add s x) y).elts := by
    rw [mem_add_elts, mem_add_elts]; exact Or.inl (Or.inr rfl)
  have hy1 : y ∈ (add (add s x) y).elts := by
    rw [mem_add_elts]; exact Or.inr rfl
  obtain ⟨_, he, _⟩ := union_spec inv x y
  obtain ⟨a, b, hab, hc⟩ := classOf_union inv x y
  intro z hz
  rw [he] at hz
  rw [hc z hz, eltAt_congr he]
  by_cases hza : classOf (add (add s x) y) z = a
  · rw [if_pos hza]
    have hz1 := r1 z hz
    rw [hza] at hz1
    rcases hab with ⟨ha, hb⟩ | ⟨ha, hb⟩
    · have e1 := r1 x hx1; have e2 := r1 y hy1
      rw [← ha] at e1; rw [← hb] at e2
      rw [e2, ← hxy, ← e1, hz1]
    · have e1 := r1 x hx1; have e2 := r1 y hy1
      rw [← hb] at e1; rw [← ha] at e2
      rw [e1, hxy, ← e2, hz1]
  · rw [if_neg hza]; exact r1 z hz

/-- elements of one class stay in one class after a union -/
theorem same_union {s : State} (inv : Inv s) (x y : Nat) {u v : Nat}
    (hu : u ∈ (add (add s x) y).elts) (hv : v ∈ (add (add s x) y).elts)
    (h : classOf (add (add s x) y) u = classOf (add (add s x) y) v) :
    classOf (union s x y) u = classOf (union s x y) v := by
  obtain ⟨a, b, _, hc⟩ := classOf_union inv x y
  rw [hc u hu, hc v hv, h]

/-- the two arguments of a union are in one class afterwards -/
theorem union_joins {s : State} (inv : Inv s) (x y : Nat) :
    classOf (union s x y) x = classOf (union s x y) y := by
  have hx1 : x ∈ (add (add s x) y).elts := by
    rw [mem_add_elts, mem_add_elts]; exact Or.inl (Or.inr rfl)
  have hy1 : y ∈ (add (add s x) y).elts := by
    rw [mem_add_elts]; exact Or.inr rfl
  obtain ⟨a, b, hab, hc⟩ := classOf_union inv x y
  rw [hc x hx1, hc y hy1]
  rcases hab with ⟨ha, hb⟩ | ⟨ha, hb⟩
  · rw [← ha, ← hb, if_pos rfl]
    by_cases h : b = a
    · rw [if_pos h]
    · rw [if_neg h]
  · rw [← ha, ← hb, if_pos rfl]
    by_cases h : b = a
    · rw [if_pos h, h]
    · rw [if_neg h]

theorem union_elts_of_mem {s : State} (inv : Inv s) {x y : Nat} (hx : x ∈ s.elts) (hy : y ∈ s.elts) :
    (union s x y).elts = s.elts := by
  obtain ⟨_, he, _⟩ := union_spec inv x y
  rw [he, add_of_mem hx, add_of_mem hy]

/-! ### `find` on lists -/

theorem find_classOf {s : State} (inv : Inv s) {x : Nat} (hx : x ∈ s.elts) :
    ∃ s', find s x = some (s', classOf s x) ∧ Inv s' ∧ PEquiv s s' := by
  obtain ⟨s', r, hf, inv', pe, hr, _⟩ := find_spec inv hx
  have : rootOf s (s.elts.idxOf x) = r := (rootOf_eq_iff inv (idxOf_lt hx) r).mpr hr
  refine ⟨s', ?_, inv', pe⟩
  unfold classOf; rw [this]; exact hf

theorem findAll_spec : ∀ (l : List Nat) {s : State}, Inv s → (∀ x, x ∈ l → x ∈ s.elts) →
    ∃ s', findAll s l = some (s', l.map (classOf s)) ∧ Inv s' ∧ PEquiv s s'
  | [], s, inv, _ => ⟨s, rfl, inv, PEquiv.refl s⟩
  | x :: xs, s, inv, hl => by
    have hx : x ∈ s.elts := hl x (List.mem_cons_self)
    obtain ⟨s1, hf, inv1, pe1⟩ := find_classOf inv hx
    have hl1 : ∀ z, z ∈ xs → z ∈ s1.elts := by
      intro z hz; rw [pe1.elts]; exact hl z (List.mem_cons_of_mem _ hz)
    obtain ⟨s2, hf2, inv2, pe2⟩ := findAll_spec xs inv1 hl1
    refine ⟨s2, ?_, inv2, pe1.trans pe2⟩
    have hmap : xs.map (classOf s1) = xs.map (classOf s) := by
      apply List.map_congr_left
      intro z hz
      exact PEquiv.classOf pe1 inv inv1 (hl z (List.mem_cons_of_mem _ hz))
    simp only [findAll, hf, hf2, List.map_cons, hmap]

theorem findFaces_spec : ∀ (ls : List (List Nat)) {s : State}, Inv s →
    (∀ l, l ∈ ls → ∀ x, x ∈ l → x ∈ s.elts) →
    ∃ s', findFaces s ls = some (s', ls.map (List.map (classOf s))) ∧ Inv s' ∧ PEquiv s s'
  | [], s, inv, _ => ⟨s, rfl, inv, PEquiv.refl s⟩
  | l :: r, s, inv, hl => by
    obtain ⟨s1, hf, inv1, pe1⟩ := findAll_spec l inv (hl l List.mem_cons_self)
    have hl1 : ∀ l', l' ∈ r → ∀ x, x ∈ l' → x ∈ s1.elts := by
      intro l' hl' x hx; rw [pe1.elts]; exact hl l' (List.mem_cons_of_mem _ hl') x hx
    obtain ⟨s2, hf2, inv2, pe2⟩ := findFaces_spec r inv1 hl1
    refine ⟨s2, ?_, inv2, pe1.trans pe2⟩
    have hmap : r.map (List.map (classOf s1)) = r.map (List.map (classOf s)) := by
      apply List.map_congr_left
      intro l' hl'
      apply List.map_congr_left
      intro z hz
      exact PEquiv.classOf pe1 inv inv1 (hl l' (List.mem_cons_of_mem _ hl') z hz)
    simp only [findFaces, hf, hf2, List.map_cons, hmap]

/-! ### `UnionFind(range(n))` and the sequence of unions -/

theorem ufRange_spec {α : Type} (lab : Nat → α) : ∀ n : Nat,
    Inv (ufRange n) ∧ (ufRange n).elts = List.range n ∧ Resp (ufRange n) lab := by
  intro n
  induction n with
  | zero => exact ⟨inv_init, rfl, resp_init lab⟩
  | succ n ih =>
    obtain ⟨inv, he, r⟩ := ih
    have hstep : ufRange (n + 1) = add (ufRange n) n := by
      unfold ufRange; rw [List.range_succ, List.foldl_append]; rfl
    rw [hstep]
    refine ⟨inv_add inv n, ?_, resp_add inv r n⟩
    have hn : n ∉ (ufRange n).elts := by rw [he]; simp
    rw [add_of_not_mem hn]; simp only []; rw [he, List.range_succ]

/-- all pairs join elements already present and of equal label -/
def PairsOK {α : Type} (n : Nat) (lab : Nat → α) (ps : List (Nat × Nat)) : Prop :=
  ∀ p, p ∈ ps → p.1 < n ∧ p.2 < n ∧ lab p.1 = lab p.2

theorem applyUnions_spec {α : Type} (lab : Nat → α) (n : Nat) : ∀ (ps : List (Nat × Nat)) (s : State),
    Inv s → s.elts = List.range n → Resp s lab → PairsOK n lab ps →
    Inv (applyUnions s ps) ∧ (applyUnions s ps).elts = List.range n ∧ Resp (applyUnions s ps) lab
  | [], s, inv, he, r, _ => ⟨inv, he, r⟩
  | p :: ps, s, inv, he, r, ok => by
    obtain ⟨h1, h2, h3⟩ := ok p List.mem_cons_self
    have hx : p.1 ∈ s.elts := by rw [he]; simpa using h1
    have hy : p.2 ∈ s.elts := by rw [he]; simpa using h2
    have inv' : Inv (union s p.1 p.2) := (union_spec inv p.1 p.2).1
    have he' : (union s p.1 p.2).elts = List.range n := by rw [union_elts_of_mem inv hx hy, he]
    have r' := resp_union inv r h3
    exact applyUnions_spec lab n ps _ inv' he' r' (fun q hq => ok q (List.mem_cons_of_mem _ hq))

/-- completeness: the two members of every pair end up in one class -/
theorem applyUnions_joins (n : Nat) : ∀ (ps : List (Nat × Nat)) (s : State),
    Inv s → s.elts = List.range n → (∀ p, p ∈ ps → p.1 < n ∧ p.2 < n) →
    (∀ p, p ∈ ps → classOf (applyUnions s ps) p.1 = classOf (applyUnions s ps) p.2) ∧
    (∀ u v, u < n → v < n → classOf s u = classOf s v →
        classOf (applyUnions s ps) u = classOf (applyUnions s ps) v)
  | [], s, _, _, _ => ⟨fun p hp => by simp at hp, fun _ _ _ _ h => h⟩
  | p :: ps, s, inv, he, ok => by
    obtain ⟨h1, h2⟩ := ok p List.mem_cons_self
    have hx : p.1 ∈ s.elts := by rw [he]; simpa using h1
    have hy : p.2 ∈ s.elts := by rw [he]; simpa using h2
    have inv' : Inv (union s p.1 p.2) := (union_spec inv p.1 p.2).1
    have he' : (union s p.1 p.2).elts = List.range n := by rw [union_elts_of_mem inv hx hy, he]
    have hadd : add (add s p.1) p.2 = s := by rw [add_of_mem hx, add_of_mem hy]
    obtain ⟨ih1, ih2⟩ := applyUnions_joins n ps (union s p.1 p.2) inv' he'
      (fun q hq => ok q (List.mem_cons_of_mem _ hq))
    have keep : ∀ u v, u < n → v < n → classOf s u = classOf s v →
        classOf (union s p.1 p.2) u = classOf (union s p.1 p.2) v := by
      intro u v hu hv h
      have hu' : u ∈ (add (add s p.1) p.2).elts := by rw [hadd, he]; simpa using hu
      have hv' : v ∈ (add (add s p.1) p.2).elts := by rw [hadd, he]; simpa using hv
      apply same_union inv p.1 p.2 hu' hv'
      rw [hadd]; exact h
    refine ⟨?_, ?_⟩
    · intro q hq
      rcases List.mem_cons.mp hq with hq | hq
      · subst hq
        exact ih2 _ _ h1 h2 (union_joins inv _ _)
      · exact ih1 q hq
    · intro u v hu hv h
      exact ih2 u v hu hv (keep u v hu hv h)

end Mouette.Cutting
