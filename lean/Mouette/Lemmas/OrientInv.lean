import Mouette.Lemmas.OrientBasic
import Mouette.Lemmas.TreesInv
/-
Loop invariant of `Trees.orient` (BFS orientation of the selected forest from the root, without `seen` flags:
`children[v] = [x for x in neighbours[v] if x != prev]`). On a forest no vertex is ever queued twice — this is
where acyclicity is used (`new_child_fresh`, through the exchange bound `indep_le_of_span`).
-/
namespace Mouette.Trees
open Mouette.UF
open Mouette.Dijkstra (upd upd_same upd_ne nodup_length_le)

/-- the stored copy of an entry: itself if stored, else its mirror image -/
noncomputable def gT (tes : List (Nat × Nat)) (q : Nat × Nat) : Nat × Nat :=
  open Classical in if q ∈ tes then q else (q.2, q.1)

theorem gT_cases (tes : List (Nat × Nat)) (q : Nat × Nat) : gT tes q = q ∨ gT tes q = (q.2, q.1) := by
  unfold gT; split <;> simp

theorem gT_mem {tes : List (Nat × Nat)} {q : Nat × Nat} (h : adjT tes q.2 q.1) : gT tes q ∈ tes := by
  unfold gT
  split
  · assumption
  · rename_i hn
    rcases h with h | h
    · exact h
    · exact absurd h hn

theorem gT_eq {tes : List (Nat × Nat)} {a b : Nat × Nat} (h : gT tes a = gT tes b) : a = b ∨ a = (b.2, b.1) := by
  rcases gT_cases tes a with ha | ha <;> rcases gT_cases tes b with hb | hb <;> rw [ha, hb] at h
  · exact Or.inl h
  · exact Or.inr h
  · right
    have h1 : a.2 = b.1 := congrArg Prod.fst h
    have h2 : a.1 = b.2 := congrArg Prod.snd h
    ext <;> simp [h1, h2]
  · left
    have h1 : a.2 = b.2 := congrArg Prod.fst h
    have h2 : a.1 = b.1 := congrArg Prod.snd h
    ext <;> simp [h1, h2]

theorem attach_map_gT_nodup {tes : List (Nat × Nat)} {root : Nat} : ∀ (Ar : List (Nat × Nat)), Attach root Ar →
    (Ar.map (gT tes)).Nodup
  | [], _ => by simp
  | q :: Ar, h => by
    rw [List.map_cons, List.nodup_cons]
    refine ⟨?_, attach_map_gT_nodup Ar h.1⟩
    intro hm
    obtain ⟨q', hq', he⟩ := List.mem_map.mp hm
    have hend := attach_endpoints Ar h.1 q' hq'
    rcases gT_eq he with h1 | h1
    · rw [h1] at hend; exact h.2.2 hend.1
    · rw [h1] at hend; exact h.2.2 hend.2

/-- KEY (acyclicity): while `v` (queued with parent `prev`) is processed, every tree neighbour of `v` other than
`prev` is a vertex that has not been met yet. -/
theorem new_child_fresh {n : Nat} {tes : List (Nat × Nat)} {root : Nat} (hr : InRange n tes) (hi : Indep tes)
    {Ar : List (Nat × Nat)} (hatt : Attach root Ar) (hadj : ∀ q ∈ Ar, adjT tes q.2 q.1) {v prev x : Nat}
    (hv : (v, prev) ∈ Ar) (hnotpar : ∀ q ∈ Ar, q.2 ≠ v) (hx : adjT tes v x) (hne : x ≠ prev) :
    x ∉ VV root Ar := by
  intro hx'
  have hvV : v ∈ VV root Ar := (attach_endpoints Ar hatt _ hv).1
  -- `gT (x,v) :: Ar.map gT` is a duplicate-free sub-collection of the forest …
  have hnew : gT tes (x, v) ∉ Ar.map (gT tes) := by
    intro hm
    obtain ⟨q, hq, he⟩ := List.mem_map.mp hm
    rcases gT_eq he with h1 | h1
    · exact hnotpar q hq (by rw [h1])
    · have h2 : q.1 = v := congrArg Prod.fst h1
      have h3 : q.2 = x := congrArg Prod.snd h1
      have := attach_unique hatt hq hv h2
      rw [this] at h3
      exact hne h3.symm
  have hnd : (gT tes (x, v) :: Ar.map (gT tes)).Nodup := List.nodup_cons.mpr ⟨hnew, attach_map_gT_nodup Ar hatt⟩
  have hsub : ∀ p ∈ gT tes (x, v) :: Ar.map (gT tes), p ∈ tes := by
    intro p hp
    rcases List.mem_cons.mp hp with rfl | hp
    · exact gT_mem hx
    · obtain ⟨q, hq, rfl⟩ := List.mem_map.mp hp
      exact gT_mem (hadj q hq)
  have hB : Indep (gT tes (x, v) :: Ar.map (gT tes)) := indep_of_nodup_subset hr hi hnd hsub
  -- … that lies in the span of the `|Ar|` attachment entries: one edge too many
  have hrB : InRange n (gT tes (x, v) :: Ar.map (gT tes)) := fun p hp => hr p (hsub p hp)
  have hrA : InRange n Ar := by
    intro q hq
    rcases hadj q hq with h | h
    · have := hr _ h; exact ⟨this.2, this.1⟩
    · exact hr _ h
  have hconn := attach_conn Ar hatt
  have hspan : ∀ p ∈ gT tes (x, v) :: Ar.map (gT tes), CR Ar p.1 p.2 := by
    intro p hp
    rcases List.mem_cons.mp hp with rfl | hp
    · have hxv : CR Ar x v := (hconn x hx').symm.trans (hconn v hvV)
      rcases gT_cases tes (x, v) with h | h <;> rw [h]
      · exact hxv
      · exact hxv.symm
    · obtain ⟨q, hq, rfl⟩ := List.mem_map.mp hp
      have hq' : CR Ar q.1 q.2 := EqvClosure.rel hq
      rcases gT_cases tes q with h | h <;> rw [h]
      · exact hq'
      · exact hq'.symm
  have := indep_le_of_span hrB hrA hB hspan
  simp at this

/-- queueing the children of `v` keeps the attachment structure -/
theorem attach_new {root v : Nat} : ∀ (cs : List Nat) (Ar : List (Nat × Nat)), Attach root Ar → v ∈ VV root Ar →
    cs.Nodup → (∀ x ∈ cs, x ∉ VV root Ar) → Attach root ((cs.map (fun c => (c, v))).reverse ++ Ar)
  | [], Ar, h, _, _, _ => by simpa using h
  | x :: cs, Ar, h, hv, hn, hfresh => by
    have hx : x ∉ VV root Ar := hfresh x (by simp)
    have h1 : Attach root ((x, v) :: Ar) := ⟨h, hv, hx⟩
    have hn' := List.nodup_cons.mp hn
    have := attach_new cs ((x, v) :: Ar) h1 (VV_mono hv) hn'.2 (by
      intro y hy hm
      unfold VV at hm
      simp only [List.map_cons, List.mem_cons] at hm
      rcases hm with hm | hm | hm
      · exact hfresh y (List.mem_cons_of_mem _ hy) (by unfold VV; simp [hm])
      · exact hn'.1 (hm ▸ hy)
      · exact hfresh y (List.mem_cons_of_mem _ hy) (by unfold VV; simp [hm]))
    simpa using this

/-- invariant of the orientation loop; `Pr` = processed entries `(vertex, parent)`, most recent first -/
structure OI (tes : List (Nat × Nat)) (root : Nat) (s : OState) (Pr : List (Nat × Nat)) : Prop where
  att : Attach root (s.queue.reverse ++ Pr)
  par_proc : ∀ q ∈ s.queue.reverse ++ Pr, q.2 = root ∨ q.2 ∈ Pr.map Prod.fst
  adj : ∀ q ∈ s.queue.reverse ++ Pr, adjT tes q.2 q.1
  closed : ∀ u, (u = root ∨ u ∈ Pr.map Prod.fst) → ∀ x, adjT tes u x →
    (x, u) ∈ s.queue.reverse ++ Pr ∨ (u, x) ∈ s.queue.reverse ++ Pr
  par_some : ∀ q ∈ Pr, s.parent q.1 = some q.2
  par_none : ∀ c, c ∉ Pr.map Prod.fst → s.parent c = none
  ch_root : s.children root = treeNbrs tes root
  ch_proc : ∀ q ∈ Pr, s.children q.1 = (treeNbrs tes q.1).filter (· != q.2)
  ch_none : ∀ c, c ≠ root → c ∉ Pr.map Prod.fst → s.children c = []

/-- the state built by `mst` before the loop -/
def oinit (tes : List (Nat × Nat)) (root : Nat) : OState :=
  { parent := fun _ => none, children := upd (fun _ => []) root (treeNbrs tes root),
    queue := (treeNbrs tes root).map (fun c => (c, root)) }

theorem oi_init {tes : List (Nat × Nat)} {root : Nat} (hi : Indep tes) : OI tes root (oinit tes root) [] := by
  have hatt : Attach root (((treeNbrs tes root).map (fun c => (c, root))).reverse ++ []) := by
    apply attach_new _ [] trivial (by simp [VV]) (treeNbrs_nodup tes root hi)
    intro x hx hm
    simp [VV] at hm
    subst hm
    have := mem_treeNbrs.mp hx
    rcases this with h | h <;> exact indep_no_loop hi h
  have hmem : ∀ q, q ∈ (oinit tes root).queue.reverse ++ [] ↔ q.2 = root ∧ q.1 ∈ treeNbrs tes root := by
    intro q
    simp only [oinit, List.append_nil, List.mem_reverse, List.mem_map]
    constructor
    · rintro ⟨c, hc, rfl⟩; exact ⟨rfl, hc⟩
    · rintro ⟨h1, h2⟩; exact ⟨q.1, h2, by ext <;> simp [h1]⟩
  refine { att := hatt, par_proc := ?_, adj := ?_, closed := ?_, par_some := by simp, par_none := fun _ _ => rfl,
           ch_root := by simp [oinit], ch_proc := by simp, ch_none := ?_ }
  · intro q hq; exact Or.inl ((hmem q).mp hq).1
  · intro q hq
    obtain ⟨h1, h2⟩ := (hmem q).mp hq
    rw [h1]; exact mem_treeNbrs.mp h2
  · intro u hu x hx
    rcases hu with rfl | hu
    · exact Or.inl ((hmem (x, u)).mpr ⟨rfl, mem_treeNbrs.mpr hx⟩)
    · simp at hu
  · intro c hc _
    simp [oinit, upd_ne _ _ hc]

theorem oi_step {n : Nat} {tes : List (Nat × Nat)} {root : Nat} (hr : InRange n tes) (hi : Indep tes)
    {s : OState} {Pr : List (Nat × Nat)} (I : OI tes root s Pr) {v prev : Nat} {q' : List (Nat × Nat)}
    (hq : s.queue = (v, prev) :: q') :
    OI tes root
      { parent := upd s.parent v (some prev),
        children := upd s.children v ((treeNbrs tes v).filter (· != prev)),
        queue := q' ++ ((treeNbrs tes v).filter (· != prev)).map (fun c => (c, v)) }
      ((v, prev) :: Pr) := by
  -- the attachment list before the step
  have hAr : s.queue.reverse ++ Pr = q'.reverse ++ (v, prev) :: Pr := by rw [hq]; simp
  have hatt := I.att
  rw [hAr] at hatt
  have hnd := attach_nodup _ hatt
  have hvmem : (v, prev) ∈ q'.reverse ++ (v, prev) :: Pr := by simp
  -- `v` is neither the root nor processed
  have hv_fresh : v ≠ root ∧ v ∉ Pr.map Prod.fst := by
    unfold VV at hnd
    simp only [List.map_append, List.map_cons, List.map_reverse, List.nodup_cons, List.nodup_append,
      List.mem_append, List.mem_cons, List.mem_reverse, not_or] at hnd
    refine ⟨fun h => hnd.1.2.1 h.symm, ?_⟩
    exact hnd.2.2.1.1
  have hnotpar : ∀ q ∈ q'.reverse ++ (v, prev) :: Pr, q.2 ≠ v := by
    intro q hq' he
    rcases I.par_proc q (by rw [hAr]; exact hq') with h | h
    · exact hv_fresh.1 (he ▸ h)
    · exact hv_fresh.2 (he ▸ h)
  have hadj : ∀ q ∈ q'.reverse ++ (v, prev) :: Pr, adjT tes q.2 q.1 := fun q hq' => I.adj q (by rw [hAr]; exact hq')
  -- new children
  have hcs_nodup : ((treeNbrs tes v).filter (· != prev)).Nodup := (treeNbrs_nodup tes v hi).filter _
  have hcs : ∀ x ∈ (treeNbrs tes v).filter (· != prev), adjT tes v x ∧ x ≠ prev := by
    intro x hx
    obtain ⟨h1, h2⟩ := List.mem_filter.mp hx
    exact ⟨mem_treeNbrs.mp h1, by simpa using h2⟩
  have hfresh : ∀ x ∈ (treeNbrs tes v).filter (· != prev), x ∉ VV root (q'.reverse ++ (v, prev) :: Pr) :=
    fun x hx => new_child_fresh hr hi hatt hadj hvmem hnotpar (hcs x hx).1 (hcs x hx).2
  have hvV : v ∈ VV root (q'.reverse ++ (v, prev) :: Pr) := (attach_endpoints _ hatt _ hvmem).1
  have hatt' := attach_new _ _ hatt hvV hcs_nodup hfresh
  -- the attachment list after the step
  have hAr' : (q' ++ ((treeNbrs tes v).filter (· != prev)).map (fun c => (c, v))).reverse ++ (v, prev) :: Pr =
      (((treeNbrs tes v).filter (· != prev)).map (fun c => (c, v))).reverse ++ (q'.reverse ++ (v, prev) :: Pr) := by
    simp
  have hmem' : ∀ q, q ∈ (q' ++ ((treeNbrs tes v).filter (· != prev)).map (fun c => (c, v))).reverse ++ (v, prev) :: Pr ↔
      (q.2 = v ∧ q.1 ∈ (treeNbrs tes v).filter (· != prev)) ∨ q ∈ s.queue.reverse ++ Pr := by
    intro q
    rw [hAr', hAr, List.mem_append, List.mem_reverse, List.mem_map]
    constructor
    · rintro (⟨c, hc, rfl⟩ | h)
      · exact Or.inl ⟨rfl, hc⟩
      · exact Or.inr h
    · rintro (⟨h1, h2⟩ | h)
      · exact Or.inl ⟨q.1, h2, by ext <;> simp [h1]⟩
      · exact Or.inr h
  refine { att := ?_, par_proc := ?_, adj := ?_, closed := ?_, par_some := ?_, par_none := ?_, ch_root := ?_,
           ch_proc := ?_, ch_none := ?_ }
  · show Attach root ((q' ++ _).reverse ++ (v, prev) :: Pr)
    rw [hAr']; exact hatt'
  · intro q hq'
    rcases (hmem' q).mp hq' with ⟨h1, _⟩ | h
    · right; simp [h1]
    · rcases I.par_proc q h with h | h
      · exact Or.inl h
      · right; simp [h]
  · intro q hq'
    rcases (hmem' q).mp hq' with ⟨h1, h2⟩ | h
    · rw [h1]; exact (hcs _ h2).1
    · exact I.adj q h
  · intro u hu x hx
    by_cases huv : u = v
    · subst huv
      by_cases hxp : x = prev
      · subst hxp
        right
        exact (hmem' _).mpr (Or.inr (by rw [hAr]; exact hvmem))
      · left
        refine (hmem' _).mpr (Or.inl ⟨rfl, ?_⟩)
        exact List.mem_filter.mpr ⟨mem_treeNbrs.mpr hx, by simpa using hxp⟩
    · have hu' : u = root ∨ u ∈ Pr.map Prod.fst := by
        rcases hu with h | h
        · exact Or.inl h
        · simp only [List.map_cons, List.mem_cons] at h
          rcases h with h | h
          · exact absurd h huv
          · exact Or.inr h
      rcases I.closed u hu' x hx with h | h
      · exact Or.inl ((hmem' _).mpr (Or.inr h))
      · exact Or.inr ((hmem' _).mpr (Or.inr h))
  · intro q hq'
    rcases List.mem_cons.mp hq' with rfl | hq'
    · simp
    · have : q.1 ≠ v := by
        intro h
        exact hv_fresh.2 (h ▸ List.mem_map_of_mem (f := Prod.fst) hq')
      simp only
      rw [upd_ne _ _ this]
      exact I.par_some q hq'
  · intro c hc
    simp only [List.map_cons, List.mem_cons, not_or] at hc
    simp only
    rw [upd_ne _ _ hc.1]
    exact I.par_none c hc.2
  · simp only
    rw [upd_ne _ _ (Ne.symm hv_fresh.1)]
    exact I.ch_root
  · intro q hq'
    rcases List.mem_cons.mp hq' with rfl | hq'
    · simp
    · have : q.1 ≠ v := by
        intro h
        exact hv_fresh.2 (h ▸ List.mem_map_of_mem (f := Prod.fst) hq')
      simp only
      rw [upd_ne _ _ this]
      exact I.ch_proc q hq'
  · intro c hcr hc
    simp only [List.map_cons, List.mem_cons, not_or] at hc
    simp only
    rw [upd_ne _ _ hc.1]
    exact I.ch_none c hcr hc.2

/-- the loop terminates within the fuel and keeps the invariant -/
theorem oi_orient {n : Nat} {tes : List (Nat × Nat)} {root : Nat} (hr : InRange n tes) (hi : Indep tes) (hroot : root < n) :
    ∀ (f : Nat) (s : OState) (Pr : List (Nat × Nat)), OI tes root s Pr → n ≤ Pr.length + f →
      ∃ Pr', (orient tes f s).queue = [] ∧ OI tes root (orient tes f s) Pr'
  | 0, s, Pr, I, h => by
    exfalso
    have hnd := attach_nodup _ I.att
    have hlt : ∀ x ∈ VV root (s.queue.reverse ++ Pr), x < n := by
      intro x hx
      unfold VV at hx
      rcases List.mem_cons.mp hx with rfl | hx
      · exact hroot
      · obtain ⟨q, hq, rfl⟩ := List.mem_map.mp hx
        rcases I.adj q hq with h | h
        · exact (hr _ h).2
        · exact (hr _ h).1
    have := nodup_length_le hnd hlt
    simp [VV] at this
    omega
  | f+1, s, Pr, I, h => by
    unfold orient
    cases hq : s.queue with
    | nil => exact ⟨Pr, by simp [hq], by simpa [hq] using I⟩
    | cons e q' =>
      obtain ⟨v, prev⟩ := e
      simp only
      exact oi_orient hr hi hroot f _ ((v, prev) :: Pr) (oi_step hr hi I hq) (by simp; omega)

/-- every processed vertex hangs below the root -/
theorem attach_depth {root : Nat} {parent : Nat → Option Nat} : ∀ (Pr : List (Nat × Nat)), Attach root Pr →
    (∀ q ∈ Pr, parent q.1 = some q.2) → ∀ x ∈ VV root Pr, ∃ d, TreeDepth parent root x d
  | [], _, _, x, hx => by
    simp [VV] at hx; subst hx; exact ⟨0, TreeDepth.root⟩
  | q :: Pr, h, hp, x, hx => by
    have ih := attach_depth Pr h.1 (fun q' hq' => hp q' (List.mem_cons_of_mem _ hq'))
    unfold VV at hx
    simp only [List.map_cons, List.mem_cons] at hx
    rcases hx with hx | hx | hx
    · subst hx; exact ⟨0, TreeDepth.root⟩
    · subst hx
      obtain ⟨d, hd⟩ := ih q.2 h.2.1
      exact ⟨d + 1, TreeDepth.child (hp q (by simp)) hd⟩
    · exact ih x (by unfold VV; simp [hx])

end Mouette.Trees
