import Mouette.Model.Prepare
/-
Lemmas on `completeBy` (completion of a store through a key set), used for faces-from-cells and
edges-from-faces alike. Core Lean only.
-/
namespace Mouette.Prepare

variable {α κ : Type} [BEq κ] [LawfulBEq κ] [DecidableEq κ] (key : α → κ)

omit [BEq κ] [LawfulBEq κ] in
theorem completeBy_prefix (acc cands : List α) :
    ∃ added, completeBy key acc cands = acc ++ added ∧ ∀ x ∈ added, x ∈ cands := by
  induction cands generalizing acc with
  | nil => exact ⟨[], by simp [completeBy], by simp⟩
  | cons c cs ih =>
    unfold completeBy
    split
    · obtain ⟨ad, h, hm⟩ := ih acc
      exact ⟨ad, h, fun x hx => by simp [hm x hx]⟩
    · obtain ⟨ad, h, hm⟩ := ih (acc ++ [c])
      refine ⟨c :: ad, by rw [h]; simp, ?_⟩
      intro x hx
      rcases List.mem_cons.mp hx with rfl | hx
      · simp
      · simp [hm x hx]

/-- the counting law of completion: every key keeps its multiplicity in the store, and a key that was
absent and occurs among the candidates is stored exactly once -/
theorem completeBy_count (acc cands : List α) (k : κ) :
    ((completeBy key acc cands).map key).count k
      = (acc.map key).count k + (if k ∉ acc.map key ∧ k ∈ cands.map key then 1 else 0) := by
  induction cands generalizing acc with
  | nil => simp [completeBy]
  | cons c cs ih =>
    unfold completeBy
    split
    · rename_i hc
      rw [ih acc]
      by_cases hk : k = key c
      · subst hk; simp [hc]
      · have : (k ∈ (c :: cs).map key) ↔ (k ∈ cs.map key) := by simp [hk]
        simp only [this]
    · rename_i hc
      rw [ih (acc ++ [c])]
      by_cases hk : k = key c
      · subst hk
        have h0 : (acc.map key).count (key c) = 0 := List.count_eq_zero.mpr hc
        simp [h0, hc]
      · have hk' : ¬ key c = k := fun h => hk h.symm
        have h1 : ((acc ++ [c]).map key).count k = (acc.map key).count k := by
          simp [hk']
        have h2 : (k ∉ (acc ++ [c]).map key) ↔ (k ∉ acc.map key) := by simp [hk]
        have h3 : (k ∈ (c :: cs).map key) ↔ (k ∈ cs.map key) := by simp [hk]
        rw [h1]; simp only [h2, h3]

theorem completeBy_complete (acc cands : List α) (c : α) (hc : c ∈ cands) :
    key c ∈ (completeBy key acc cands).map key := by
  have h := completeBy_count key acc cands (key c)
  have hm : key c ∈ cands.map key := List.mem_map.mpr ⟨c, hc, rfl⟩
  by_cases ha : key c ∈ acc.map key
  · obtain ⟨ad, e, _⟩ := completeBy_prefix key acc cands
    rw [e]; simp only [List.map_append, List.mem_append]; exact Or.inl ha
  · have : 0 < ((completeBy key acc cands).map key).count (key c) := by
      rw [h]; simp [ha, hm]
    exact List.count_pos_iff.mp this

omit [BEq κ] [LawfulBEq κ] in
/-- nothing is added when every candidate key is already stored -/
theorem completeBy_noop (acc cands : List α) (h : ∀ c ∈ cands, key c ∈ acc.map key) :
    completeBy key acc cands = acc := by
  induction cands with
  | nil => rfl
  | cons c cs ih =>
    unfold completeBy
    rw [if_pos (h c (by simp))]
    exact ih (fun x hx => h x (by simp [hx]))

omit [BEq κ] [LawfulBEq κ] in
/-- every stored element is an old one or a candidate -/
theorem completeBy_mem (acc cands : List α) (x : α) (hx : x ∈ completeBy key acc cands) :
    x ∈ acc ∨ x ∈ cands := by
  induction cands generalizing acc with
  | nil => exact Or.inl hx
  | cons c cs ih =>
    unfold completeBy at hx
    split at hx
    · rcases ih acc hx with h | h
      · exact Or.inl h
      · exact Or.inr (by simp [h])
    · rcases ih (acc ++ [c]) hx with h | h
      · rcases List.mem_append.mp h with h | h
        · exact Or.inl h
        · exact Or.inr (by simp at h; simp [h])
      · exact Or.inr (by simp [h])

end Mouette.Prepare
