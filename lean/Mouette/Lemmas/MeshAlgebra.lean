import Mouette.Model.MeshHeap
import Mathlib.Tactic.Ring
import Mathlib.Tactic.FieldSimp
import Mathlib.Tactic.LinearCombination
/-
Algebraic laws of the coordinate maps of C06 over `Rat` (every finite binary64 value is a rational).
-/
namespace Mouette.MeshHeap

/-- `RᵀR = I`, stated on the columns of `R` (= rows of `Rᵀ`) -/
def Ortho (r : M3) : Prop :=
  r.transpose.r1.dot r.transpose.r1 = 1 ∧ r.transpose.r2.dot r.transpose.r2 = 1 ∧ r.transpose.r3.dot r.transpose.r3 = 1 ∧
  r.transpose.r1.dot r.transpose.r2 = 0 ∧ r.transpose.r1.dot r.transpose.r3 = 0 ∧ r.transpose.r2.dot r.transpose.r3 = 0

instance (r : M3) : Decidable (Ortho r) := by unfold Ortho; infer_instance

theorem translate_inv (t p : V3) : (p.add t).add t.neg = p := by
  cases p; cases t
  simp only [V3.add, V3.neg, V3.mk.injEq]
  refine ⟨by ring, by ring, by ring⟩

theorem scale_inv (k : Rat) (hk : k ≠ 0) (o p : V3) : scaleMap (1 / k) o (scaleMap k o p) = p := by
  cases p; cases o
  simp only [scaleMap, V3.add, V3.sub, V3.smul, V3.mk.injEq]
  refine ⟨by field_simp; ring, by field_simp; ring, by field_simp; ring⟩

theorem scaleXyz_inv (fx fy fz : Rat) (hx : fx ≠ 0) (hy : fy ≠ 0) (hz : fz ≠ 0) (o p : V3) :
    scaleXyzMap (1 / fx) (1 / fy) (1 / fz) o (scaleXyzMap fx fy fz o p) = p := by
  cases p; cases o
  simp only [scaleXyzMap, V3.add, V3.mk.injEq]
  refine ⟨by field_simp; ring, by field_simp; ring, by field_simp; ring⟩

theorem rotate_inv (r : M3) (h : Ortho r) (o p : V3) : rotateMap r.transpose o (rotateMap r o p) = p := by
  obtain ⟨⟨a11, a12, a13⟩, ⟨a21, a22, a23⟩, ⟨a31, a32, a33⟩⟩ := r
  obtain ⟨px, py, pz⟩ := p
  obtain ⟨ox, oy, oz⟩ := o
  simp only [Ortho, M3.transpose, V3.dot] at h
  obtain ⟨h11, h22, h33, h12, h13, h23⟩ := h
  simp only [rotateMap, M3.apply, M3.transpose, V3.add, V3.sub, V3.dot, V3.mk.injEq]
  refine ⟨?_, ?_, ?_⟩
  · linear_combination (px - ox) * h11 + (py - oy) * h12 + (pz - oz) * h13
  · linear_combination (px - ox) * h12 + (py - oy) * h22 + (pz - oz) * h23
  · linear_combination (px - ox) * h13 + (py - oy) * h23 + (pz - oz) * h33

/-- a rotation (orthogonal matrix) preserves squared distances -/
theorem rotate_isometry (r : M3) (h : Ortho r) (o p q : V3) :
    ((rotateMap r o p).sub (rotateMap r o q)).dot ((rotateMap r o p).sub (rotateMap r o q)) = (p.sub q).dot (p.sub q) := by
  obtain ⟨⟨a11, a12, a13⟩, ⟨a21, a22, a23⟩, ⟨a31, a32, a33⟩⟩ := r
  obtain ⟨px, py, pz⟩ := p
  obtain ⟨qx, qy, qz⟩ := q
  obtain ⟨ox, oy, oz⟩ := o
  simp only [Ortho, M3.transpose, V3.dot] at h
  obtain ⟨h11, h22, h33, h12, h13, h23⟩ := h
  simp only [rotateMap, M3.apply, V3.add, V3.sub, V3.dot]
  linear_combination (px - qx) ^ 2 * h11 + (py - qy) ^ 2 * h22 + (pz - qz) ^ 2 * h33
    + 2 * (px - qx) * (py - qy) * h12 + 2 * (px - qx) * (pz - qz) * h13 + 2 * (py - qy) * (pz - qz) * h23

theorem map_map_id {f g : V3 → V3} (h : ∀ p, g (f p) = p) (cs : List V3) : (cs.map f).map g = cs := by
  rw [List.map_map]
  conv => rhs; rw [← List.map_id cs]
  apply List.map_congr_left
  intro p _; exact h p

end Mouette.MeshHeap
