import Mouette.Model.Tutte
/-!
List facts for the Tutte model (core Lean only): reads after `set`, after a `loopSet`, and the storage loops.
-/
namespace Mouette.Tutte

theorem getD_set {α : Type} (A : List α) (j i : Nat) (x d : α) :
    (A.set j x).getD i d = if j = i ∧ j < A.length then x else A.getD i d := by
  rw [List.getD_eq_getElem?_getD, List.getD_eq_getElem?_getD, List.getElem?_set]
  by_cases h : j = i
  · subst h
    by_cases hl : j < A.length
    · simp [hl]
    · simp [hl]
  · simp [h]

theorem length_loopSet (A : List Rat) (a len : Nat) (g : Nat → Rat) : (loopSet A a len g).length = A.length := by
  unfold loopSet
  induction len with
  | zero => rfl
  | succ m ih => rw [List.range_succ, List.foldl_append]; simp [ih]

theorem getD_loopSet (A : List Rat) (a len : Nat) (g : Nat → Rat) (i : Nat) (d : Rat) :
    (loopSet A a len g).getD i d =
      if a ≤ i ∧ i < a + len ∧ i < A.length then g (i - a) else A.getD i d := by
  induction len with
  | zero =>
    have : ¬ (a ≤ i ∧ i < a + 0 ∧ i < A.length) := by omega
    rw [if_neg this]; rfl
  | succ m ih =>
    have hstep : loopSet A a (m + 1) g = (loopSet A a m g).set (a + m) (g m) := by
      unfold loopSet; rw [List.range_succ, List.foldl_append]; rfl
    rw [hstep, getD_set, length_loopSet, ih]
    by_cases h1 : a + m = i ∧ a + m < A.length
    · rw [if_pos h1]
      have : a ≤ i ∧ i < a + (m + 1) ∧ i < A.length := by omega
      rw [if_pos this]
      have : i - a = m := by omega
      rw [this]
    · rw [if_neg h1]
      by_cases h2 : a ≤ i ∧ i < a + m ∧ i < A.length
      · rw [if_pos h2]
        have : a ≤ i ∧ i < a + (m + 1) ∧ i < A.length := by omega
        rw [if_pos this]
      · rw [if_neg h2]
        have : ¬ (a ≤ i ∧ i < a + (m + 1) ∧ i < A.length) := by omega
        rw [if_neg this]

/-! ### storage -/

theorem length_foldl_set {α : Type} (ws : List (Nat × α)) (A : List α) :
    (ws.foldl (fun A w => A.set w.1 w.2) A).length = A.length := by
  induction ws generalizing A with
  | nil => rfl
  | cons w r ih => simp [List.foldl_cons, ih]

/-- the inner loop `for c in vertex_to_corners(v): uvs[c] = x` -/
def cornerWrite (cv : List Nat) (A : List Src) (w : Nat × Src) : List Src :=
  (List.range cv.length).foldl (fun A c => if cv.getD c 0 = w.1 then A.set c w.2 else A) A

theorem cornerWrite_aux (cv : List Nat) (w : Nat × Src) (m : Nat) (A : List Src) (c : Nat) :
    ((List.range m).foldl (fun A c => if cv.getD c 0 = w.1 then A.set c w.2 else A) A).length = A.length ∧
    ((List.range m).foldl (fun A c => if cv.getD c 0 = w.1 then A.set c w.2 else A) A).getD c Src.zero =
      if c < m ∧ c < A.length ∧ cv.getD c 0 = w.1 then w.2 else A.getD c Src.zero := by
  induction m with
  | zero =>
    refine ⟨rfl, ?_⟩
    have : ¬ (c < 0 ∧ c < A.length ∧ cv.getD c 0 = w.1) := by omega
    rw [if_neg this]; rfl
  | succ k ih =>
    rw [List.range_succ, List.foldl_append]
    simp only [List.foldl_cons, List.foldl_nil]
    obtain ⟨hl, hg⟩ := ih
    by_cases hk : cv.getD k 0 = w.1
    · rw [if_pos hk]
      refine ⟨by rw [List.length_set, hl], ?_⟩
      rw [getD_set, hl, hg]
      by_cases h1 : k = c ∧ k < A.length
      · rw [if_pos h1]
        have : c < k + 1 ∧ c < A.length ∧ cv.getD c 0 = w.1 := ⟨by omega, by omega, by rw [← h1.1]; exact hk⟩
        rw [if_pos this]
      · rw [if_neg h1]
        by_cases h2 : c < k ∧ c < A.length ∧ cv.getD c 0 = w.1
        · rw [if_pos h2]
          have : c < k + 1 ∧ c < A.length ∧ cv.getD c 0 = w.1 := ⟨by omega, h2.2.1, h2.2.2⟩
          rw [if_pos this]
        · rw [if_neg h2]
          have : ¬ (c < k + 1 ∧ c < A.length ∧ cv.getD c 0 = w.1) := by
            intro h3
            by_cases hck : c = k
            · exact h1 ⟨hck.symm, by omega⟩
            · exact h2 ⟨by omega, h3.2.1, h3.2.2⟩
          rw [if_neg this]
    · rw [if_neg hk]
      refine ⟨hl, ?_⟩
      rw [hg]
      by_cases h2 : c < k ∧ c < A.length ∧ cv.getD c 0 = w.1
      · rw [if_pos h2]
        have : c < k + 1 ∧ c < A.length ∧ cv.getD c 0 = w.1 := ⟨by omega, h2.2.1, h2.2.2⟩
        rw [if_pos this]
      · rw [if_neg h2]
        have : ¬ (c < k + 1 ∧ c < A.length ∧ cv.getD c 0 = w.1) := by
          intro h3
          by_cases hck : c = k
          · rw [hck] at h3; exact hk h3.2.2
          · exact h2 ⟨by omega, h3.2.1, h3.2.2⟩
        rw [if_neg this]

theorem cornerWrite_spec (cv : List Nat) (A : List Src) (w : Nat × Src) (hA : A.length = cv.length) (c : Nat)
    (hc : c < cv.length) :
    (cornerWrite cv A w).length = cv.length ∧
    (cornerWrite cv A w).getD c Src.zero = if cv.getD c 0 = w.1 then w.2 else A.getD c Src.zero := by
  obtain ⟨h1, h2⟩ := cornerWrite_aux cv w cv.length A c
  refine ⟨by unfold cornerWrite; rw [h1, hA], ?_⟩
  unfold cornerWrite
  rw [h2]
  by_cases h : cv.getD c 0 = w.1
  · rw [if_pos h, if_pos ⟨hc, by omega, h⟩]
  · rw [if_neg h, if_neg (fun h3 => h h3.2.2)]

/-- per-corner and per-vertex storage agree, for any sequence of writes -/
theorem storage_agree_aux (cv : List Nat) (nV : Nat) (c : Nat) (hc : c < cv.length) (hv : cv.getD c 0 < nV) :
    ∀ (ws : List (Nat × Src)) (A B : List Src), A.length = cv.length → B.length = nV →
      A.getD c Src.zero = B.getD (cv.getD c 0) Src.zero →
      (ws.foldl (cornerWrite cv) A).getD c Src.zero =
        (ws.foldl (fun B w => B.set w.1 w.2) B).getD (cv.getD c 0) Src.zero
  | [], _, _, _, _, h => h
  | w :: ws, A, B, hA, hB, h => by
    simp only [List.foldl_cons]
    obtain ⟨hl, hg⟩ := cornerWrite_spec cv A w hA c hc
    apply storage_agree_aux cv nV c hc hv ws _ _ hl (by rw [List.length_set, hB])
    rw [hg, getD_set]
    by_cases hw : cv.getD c 0 = w.1
    · rw [if_pos hw, if_pos ⟨hw.symm, by rw [hB, ← hw]; exact hv⟩]
    · rw [if_neg hw, if_neg (fun h3 => hw h3.1.symm)]
      exact h

end Mouette.Tutte
