import Mouette.Lemmas.OrientInv
/-
The orientation loop of `EdgeMinimalSpanningTree.compute` over ARBITRARY neighbour lists: `nb u` is any enumeration without
repetition of the tree neighbours of `u` (what iterating a Python `set` gives, in whatever order). The invariant and its
proofs are those of Lemmas/OrientInv.lean with `treeNbrs tes` replaced by `nb` and the two facts used about it
(`mem_treeNbrs`, `treeNbrs_nodup`) replaced by the hypotheses `hnb`, `hnd`.
-/
namespace Mouette.Trees
open Mouette.UF
open Mouette.Dijkstra (upd upd_same upd_ne nodup_length_le)

/-- `Trees.orient` with the neighbour lists as a parameter -/
def orientG (nb : Nat → List Nat) : Nat → OState → OState
  | 0, s => s
  | f+1, s =>
    match s.queue with
    | [] => s
    | (v, prev) :: q' =>
      let cs := (nb v).filter (· != prev)
      orientG nb f { parent := upd s.parent v (some prev), children := upd s.children v cs,
                     queue := q' ++ cs.map (fun c => (c, v)) }

theorem orient_eq_orientG (tes : List (Nat × Nat)) : ∀ f s, orient tes f s = orientG (treeNbrs tes) f s := by
  intro f
  induction f with
  | zero => intro s; rfl
  | succ f ih =>
    intro s
    unfold orient orientG
    cases s.queue with
    | nil => rfl
    | cons e q' => obtain ⟨v, prev⟩ := e; exact ih _

/-- invariant of the orientation loop; `Pr` = processed entries `(vertex, parent)`, most recent first -/
structure OIG (nb : Nat → List Nat) (tes : List (Nat × Nat)) (root : Nat) (s : OState) (Pr : List (Nat × Nat)) : Prop where
  att : Attach root (s.queue.reverse ++ Pr)
  par_proc : ∀ q ∈ s.queue.reverse ++ Pr, q.2 = root ∨ q.2 ∈ Pr.map Prod.fst
  adj : ∀ q ∈ s.queue.reverse ++ Pr, adjT tes q.2 q.1
  closed : ∀ u, (u = root ∨ u ∈ Pr.map Prod.fst) → ∀ x, adjT tes u x →
    (x, u) ∈ s.queue.reverse ++ Pr ∨ (u, x) ∈ s.queue.reverse ++ Pr
  par_some : ∀ q ∈ Pr, s.parent q.1 = some q.2
  par_none : ∀ c, c ∉ Pr.map Prod.fst → s.parent c = none
  ch_root : s.children root = nb root
  ch_proc : ∀ q ∈ Pr, s.children q.1 = (nb q.1).filter (· != q.2)
  ch_none : ∀ c, c ≠ root → c ∉ Pr.map Prod.fst → s.children c = []

/-- the state built by `mst` before the loop -/
def oinitG (nb : Nat → List Nat) (root : Nat) : OState :=
  { parent := fun _ => none, children := upd (fun _ => []) root (nb root),
    queue := (nb root).map (fun c => (c, root)) }

theorem oiG_init {nb : Nat → List Nat} {tes : List (Nat × Nat)} {root : Nat} (hnb : ∀ u x, x ∈ nb u ↔ adjT tes u x) (hnbd : ∀ u, (nb u).Nodup) (hi : Indep tes) : OIG nb tes root (oinitG nb root) [] := by
  have hatt : Attach root (((nb root).map (fun c => (c, root))).reverse ++ []) := by
    apply attach_new _ [] trivial (by simp [VV]) (hnbd root)
    intro x hx hm
    simp [VV] at hm
    subst hm
    have := (hnb _ _).mp hx
    rcases this with h | h <;> exact indep_no_loop hi h
  have hmem : ∀ q, q ∈ (oinitG nb root).queue.reverse ++ [] ↔ q.2 = root ∧ q.1 ∈ nb root := by
    intro q
    simp only [oinitG, List.append_nil, List.mem_reverse, List.mem_map]
    constructor
    · rintro ⟨c, hc, rfl⟩; exact ⟨rfl, hc⟩
    · rintro ⟨h1, h2⟩; exact ⟨q.1, h2, by ext <;> simp [h1]⟩
  refine { att := hatt, par_proc := ?_, adj := ?_, closed := ?_, par_some := by simp, par_none := fun _ _ => rfl,
           ch_root := by simp [oinitG], ch_proc := by simp, ch_none := ?_ }
  · intro q hq; exact Or.inl ((hmem q).mp hq).1
  · intro q hq
    obtain ⟨h1, h2⟩ := (hmem q).mp hq
    rw [h1]; exact (hnb _ _).mp h2
  · intro u hu x hx
    rcases hu with rfl | hu
    · exact Or.inl ((hmem (x, u)).mpr ⟨rfl, (hnb _ _).mpr hx⟩)
    · simp at hu
  · intro c hc _
    simp [oinitG, upd_ne _ _ hc]

theorem oiG_step {nb : Nat → List Nat} {n : Nat} {tes : List (Nat × Nat)} {root : Nat} (hnb : ∀ u x, x ∈ nb u ↔ adjT tes u x) (hnbd : ∀ u, (nb u).Nodup) (hr : InRange n tes) (hi : Indep tes)
    {s : OState} {Pr : List (Nat × Nat)} (I : OIG nb tes root s Pr) {v prev : Nat} {q' : List (Nat × Nat)}
    (hq : s.queue = (v, prev) :: q') :
    OIG nb tes root
      { parent := upd s.parent v (some prev),
        children := upd s.children v ((nb v).filter (· != prev)),
        queue := q' ++ ((nb v).filter (· != prev)).map (fun c => (c, v)) }
      ((v, prev) :: Pr) := by
  -- the attachment list before the step
  have hAr : s.queue.reverse ++ Pr = q'.reverse ++ (v, prev) :: Pr := by rw [hq]; simp
  have hatt := I.att
  rw [hAr] at hatt
  have hnd := attach_nodup _ hatt
  have hvmem : (v, prev) ∈ q'.reverse ++ (v, prev) :: Pr := by simp
  -- `v` is neither the root nor processed
  have hv_fresh : v ≠ root ∧ v ∉ Pr.map Prod.fst := by
    unfold VV at hnd
    simp only [List.map_append, List.map_cons, List.map_reverse, List.nodup_cons, List.nodup_append,
      List.mem_append, List.mem_cons, List.mem_reverse, not_or] at hnd
    refine ⟨fun h => hnd.1.2.1 h.symm, ?_⟩
    exact hnd.2.2.1.1
  have hnotpar : ∀ q ∈ q'.reverse ++ (v, prev) :: Pr, q.2 ≠ v := by
    intro q hq' he
    rcases I.par_proc q (by rw [hAr]; exact hq') with h | h
    · exact hv_fresh.1 (he ▸ h)
    · exact hv_fresh.2 (he ▸ h)
  have hadj : ∀ q ∈ q'.reverse ++ (v, prev) :: Pr, adjT tes q.2 q.1 := fun q hq' => I.adj q (by rw [hAr]; exact hq')
  -- new children
  have hcs_nodup : ((nb v).filter (· != prev)).Nodup := (hnbd v).filter _
  have hcs : ∀ x ∈ (nb v).filter (· != prev), adjT tes v x ∧ x ≠ prev := by
    intro x hx
    obtain ⟨h1, h2⟩ := List.mem_filter.mp hx
    exact ⟨(hnb _ _).mp h1, by simpa using h2⟩
  have hfresh : ∀ x ∈ (nb v).filter (· != prev), x ∉ VV root (q'.reverse ++ (v, prev) :: Pr) :=
    fun x hx => new_child_fresh hr hi hatt hadj hvmem hnotpar (hcs x hx).1 (hcs x hx).2
  have hvV : v ∈ VV root (q'.reverse ++ (v, prev) :: Pr) := (attach_endpoints _ hatt _ hvmem).1
  have hatt' := attach_new _ _ hatt hvV hcs_nodup hfresh
  -- the attachment list after the step
  have hAr' : (q' ++ ((nb v).filter (· != prev)).map (fun c => (c, v))).reverse ++ (v, prev) :: Pr =
      (((nb v).filter (· != prev)).map (fun c => (c, v))).reverse ++ (q'.reverse ++ (v, prev) :: Pr) := by
    simp
  have hmem' : ∀ q, q ∈ (q' ++ ((nb v).filter (· != prev)).map (fun c => (c, v))).reverse ++ (v, prev) :: Pr ↔
      (q.2 = v ∧ q.1 ∈ (nb v).filter (· != prev)) ∨ q ∈ s.queue.reverse ++ Pr := by
    intro q
    rw [hAr', hAr, List.mem_append, List.mem_reverse, List.mem_map]
    constructor
    · rintro (⟨c, hc, rfl⟩ | h)
      · exact Or.inl ⟨rfl, hc⟩
      · exact Or.inr h
    · rintro (⟨h1, h2⟩ | h)
      · exact Or.inl ⟨q.1, h2, by ext <;> simp [h1]⟩
      · exact Or.inr h
  refine { att := ?_, par_proc := ?_, adj := ?_, closed := ?_, par_some := ?_, par_none := ?_, ch_root := ?_,
           ch_proc := ?_, ch_none := ?_ }
  · show Attach root ((q' ++ _).reverse ++ (v, prev) :: Pr)
    rw [hAr']; exact hatt'
  · intro q hq'
    rcases (hmem' q).mp hq' with ⟨h1, _⟩ | h
    · right; simp [h1]
    · rcases I.par_proc q h with h | h
      · exact Or.inl h
      · right; simp [h]
  · intro q hq'
    rcases (hmem' q).mp hq' with ⟨h1, h2⟩ | h
    · rw [h1]; exact (hcs _ h2).1
    · exact I.adj q h
  · intro u hu x hx
    by_cases huv : u = v
    · subst huv
      by_cases hxp : x = prev
      · subst hxp
        right
        exact (hmem' _).mpr (Or.inr (by rw [hAr]; exact hvmem))
      · left
        refine (hmem' _).mpr (Or.inl ⟨rfl, ?_⟩)
        exact List.mem_filter.mpr ⟨(hnb _ _).mpr hx, by simpa using hxp⟩
    · have hu' : u = root ∨ u ∈ Pr.map Prod.fst := by
        rcases hu with h | h
        · exact Or.inl h
        · simp only [List.map_cons, List.mem_cons] at h
          rcases h with h | h
          · exact absurd h huv
          · exact Or.inr h
      rcases I.closed u hu' x hx with h | h
      · exact Or.inl ((hmem' _).mpr (Or.inr h))
      · exact Or.inr ((hmem' _).mpr (Or.inr h))
  · intro q hq'
    rcases List.mem_cons.mp hq' with rfl | hq'
    · simp
    · have : q.1 ≠ v := by
        intro h
        exact hv_fresh.2 (h ▸ List.mem_map_of_mem (f := Prod.fst) hq')
      simp only
      rw [upd_ne _ _ this]
      exact I.par_some q hq'
  · intro c hc
    simp only [List.map_cons, List.mem_cons, not_or] at hc
    simp only
    rw [upd_ne _ _ hc.1]
    exact I.par_none c hc.2
  · simp only
    rw [upd_ne _ _ (Ne.symm hv_fresh.1)]
    exact I.ch_root
  · intro q hq'
    rcases List.mem_cons.mp hq' with rfl | hq'
    · simp
    · have : q.1 ≠ v := by
        intro h
        exact hv_fresh.2 (h ▸ List.mem_map_of_mem (f := Prod.fst) hq')
      simp only
      rw [upd_ne _ _ this]
      exact I.ch_proc q hq'
  · intro c hcr hc
    simp only [List.map_cons, List.mem_cons, not_or] at hc
    simp only
    rw [upd_ne _ _ hc.1]
    exact I.ch_none c hcr hc.2

/-- the loop terminates within the fuel and keeps the invariant -/
theorem oiG_orient {nb : Nat → List Nat} {n : Nat} {tes : List (Nat × Nat)} {root : Nat} (hnb : ∀ u x, x ∈ nb u ↔ adjT tes u x) (hnbd : ∀ u, (nb u).Nodup) (hr : InRange n tes) (hi : Indep tes) (hroot : root < n) :
    ∀ (f : Nat) (s : OState) (Pr : List (Nat × Nat)), OIG nb tes root s Pr → n ≤ Pr.length + f →
      ∃ Pr', (orientG nb f s).queue = [] ∧ OIG nb tes root (orientG nb f s) Pr'
  | 0, s, Pr, I, h => by
    exfalso
    have hnd := attach_nodup _ I.att
    have hlt : ∀ x ∈ VV root (s.queue.reverse ++ Pr), x < n := by
      intro x hx
      unfold VV at hx
      rcases List.mem_cons.mp hx with rfl | hx
      · exact hroot
      · obtain ⟨q, hq, rfl⟩ := List.mem_map.mp hx
        rcases I.adj q hq with h | h
        · exact (hr _ h).2
        · exact (hr _ h).1
    have := nodup_length_le hnd hlt
    simp [VV] at this
    omega
  | f+1, s, Pr, I, h => by
    unfold orientG
    cases hq : s.queue with
    | nil => exact ⟨Pr, by simp [hq], by simpa [hq] using I⟩
    | cons e q' =>
      obtain ⟨v, prev⟩ := e
      simp only
      exact oiG_orient hnb hnbd hr hi hroot f _ ((v, prev) :: Pr) (oiG_step hnb hnbd hr hi I hq) (by simp; omega)

end Mouette.Trees
