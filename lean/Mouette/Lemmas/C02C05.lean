import Mouette.Generated.C05Src
import Mouette.Generated.C02Bodies
import Mouette.Lemmas.C02Bodies
/-
What C02's model sees of a C05 container (`absCont`) and the stability of that view under heap growth; used by
Props/C02C05.lean (cross-check of the two translations of data_container.py). Core Lean only.
-/
set_option linter.unusedSimpArgs false
set_option linter.unusedVariables false
namespace Mouette.C02C05
open Mouette.Attr Mouette.AttrSrc Mouette.Generated

def sInt : Scalar → Int
  | .i v => v
  | .b v => if v then 1 else 0
  | _ => 0

def headInt : Val → Int
  | x :: _ => sInt x
  | [] => 0

def dfltInt (a : Self) : Int :=
  match C05Src.defaultValue a with
  | .scalar x => sInt x
  | .vector l => headInt l

/-- what C02's model sees of one C05 attribute object -/
def absAttr (h : Heap) (n : String) (a : Self) : Mouette.Prepare.Attr :=
  { name := n, dflt := dfltInt a,
    st := match a.cls with
      | .sparse => .sparse (a.data.asDict.map (fun p => (p.1.toNat, headInt (cellVec h p.2))))
      | .dense => .dense ((cellMat h a.data.asRef).map headInt) }

/-- what C02's model sees of a C05 container -/
def absCont (h : Heap) (c : Cont) : List Nat × List Mouette.Prepare.Attr :=
  (c.data, c.attr.map (fun p => absAttr h p.1 p.2))

/-- every reference held by the attribute points into the heap; one scalar per element -/
def WFAttr (h : Heap) (a : Self) : Prop :=
  a.elemsize = 1 ∧ (a.cls = .dense → a.data.asRef < h.length) ∧ (a.cls = .sparse → ∀ p ∈ a.data.asDict, p.2 < h.length)

theorem cellVec_ext (h t : Heap) (r : Nat) (hr : r < h.length) : cellVec (h ++ t) r = cellVec h r := by
  unfold cellVec; rw [List.getElem?_append_left hr]

theorem cellMat_ext (h t : Heap) (r : Nat) (hr : r < h.length) : cellMat (h ++ t) r = cellMat h r := by
  unfold cellMat; rw [List.getElem?_append_left hr]

/-- the view of a well-formed attribute does not change when objects are allocated -/
theorem absAttr_ext (h t : Heap) (n : String) (a : Self) (hw : WFAttr h a) : absAttr (h ++ t) n a = absAttr h n a := by
  unfold absAttr
  cases hc : a.cls with
  | sparse =>
    simp only
    congr 2
    apply List.map_congr_left
    intro p hp
    rw [cellVec_ext h t p.2 (hw.2.2 hc p hp)]
  | dense =>
    simp only
    rw [cellMat_ext h t _ (hw.2.1 hc)]

theorem WFAttr_ext (h t : Heap) (a : Self) (hw : WFAttr h a) : WFAttr (h ++ t) a := by
  refine ⟨hw.1, fun hc => ?_, fun hc p hp => ?_⟩
  · have := hw.2.1 hc; simp; omega
  · have := hw.2.2 hc p hp; simp; omega

end Mouette.C02C05
