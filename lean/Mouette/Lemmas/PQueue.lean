import Mouette.Model.PQueue
/-!
Helper definitions and lemmas for the priority-queue model (core Lean only).

The theorems about pops are stated for the relation `PopOk`, i.e. for *every* tie-breaking choice
of a minimal pending pair; the model's `pop` (first minimal pair) is one instance (`pop_ok`).
-/
namespace Mouette.PQ

/-! ### `Prio.le` is a total preorder -/

theorem Prio.le_refl (a : Prio) : Prio.le a a = true := by
  cases a <;> simp [Prio.le]

theorem Prio.le_total (a b : Prio) : Prio.le a b = true ∨ Prio.le b a = true := by
  cases a <;> cases b <;> simp [Prio.le, Rat.le_total]

theorem Prio.le_trans {a b c : Prio} (h1 : Prio.le a b = true) (h2 : Prio.le b c = true) :
    Prio.le a c = true := by
  cases a <;> cases b <;> cases c <;> simp [Prio.le] at h1 h2 ⊢
  exact Rat.le_trans h1 h2

/-! ### specification of one pop -/

/-- `e` is pending in `q`, has minimum priority among the pending pairs, and `q'` is `q` with one
occurrence of `e` removed (up to order). -/
def PopOk (q : Queue) (e : Nat × Prio) (q' : Queue) : Prop :=
  e ∈ q ∧ (∀ e', e' ∈ q → Prio.le e.2 e'.2 = true) ∧ List.Perm q' (q.erase e)

theorem isMin_iff (q : Queue) (e : Nat × Prio) :
    isMin q e = true ↔ ∀ e', e' ∈ q → Prio.le e.2 e'.2 = true := by
  simp [isMin, List.all_eq_true]

/-- a non-empty queue has a pending pair of minimum priority -/
theorem exists_min : ∀ q : Queue, q ≠ [] → ∃ e, e ∈ q ∧ ∀ e', e' ∈ q → Prio.le e.2 e'.2 = true := by
  intro q
  induction q with
  | nil => intro h; exact absurd rfl h
  | cons a q ih =>
    intro _
    by_cases hq : q = []
    · subst hq
      refine ⟨a, List.mem_cons_self .., ?_⟩
      intro e' he'
      simp at he'
      subst he'
      exact Prio.le_refl _
    · obtain ⟨m, hm, hmin⟩ := ih hq
      rcases Prio.le_total a.2 m.2 with h | h
      · refine ⟨a, List.mem_cons_self .., ?_⟩
        intro e' he'
        rcases List.mem_cons.mp he' with rfl | he'
        · exact Prio.le_refl _
        · exact Prio.le_trans h (hmin e' he')
      · refine ⟨m, List.mem_cons_of_mem _ hm, ?_⟩
        intro e' he'
        rcases List.mem_cons.mp he' with rfl | he'
        · exact h
        · exact hmin e' he'

theorem pop_ok {q q' : Queue} {e : Nat × Prio} (h : pop q = some (e, q')) : PopOk q e q' := by
  unfold pop at h
  split at h
  · cases h
  · rename_i e0 hf
    injection h with h
    injection h with h1 h2
    subst h1 h2
    unfold firstMin at hf
    exact ⟨List.mem_of_find?_eq_some hf, (isMin_iff q e0).mp (List.find?_some hf), List.Perm.refl _⟩

theorem pop_none_iff (q : Queue) : pop q = none ↔ q = [] := by
  constructor
  · intro h
    apply Classical.byContradiction
    intro hq
    obtain ⟨m, hm, hmin⟩ := exists_min q hq
    unfold pop at h
    split at h
    · rename_i hf
      unfold firstMin at hf
      rw [List.find?_eq_none] at hf
      exact hf m hm ((isMin_iff q m).mpr hmin)
    · cases h
  · rintro rfl; rfl

theorem empty_correct (q : Queue) : empty q = true ↔ q = [] := by
  unfold empty; exact List.isEmpty_iff

theorem empty_iff_pop_none (q : Queue) : empty q = true ↔ pop q = none := by
  rw [empty_correct, pop_none_iff]

theorem PopOk.length {q q' : Queue} {e : Nat × Prio} (h : PopOk q e q') :
    q'.length + 1 = q.length := by
  have h1 := h.2.2.length_eq
  have h2 := (List.perm_cons_erase h.1).length_eq
  simp at h2
  omega

theorem PopOk.perm_cons {q q' : Queue} {e : Nat × Prio} (h : PopOk q e q') : (e :: q').Perm q :=
  (List.Perm.cons e h.2.2).trans (List.perm_cons_erase h.1).symm

theorem PopOk.mem_of_mem {q q' : Queue} {e b : Nat × Prio} (h : PopOk q e q') (hb : b ∈ q') : b ∈ q :=
  List.mem_of_mem_erase ((h.2.2.mem_iff).mp hb)

/-! ### draining a queue -/

/-- `out` is the sequence of pairs handed out by successive valid pops until the queue is empty
(no pushes in between). -/
inductive Drains : Queue → List (Nat × Prio) → Prop
  | nil : Drains [] []
  | cons {q q' : Queue} {e : Nat × Prio} {out : List (Nat × Prio)} :
      PopOk q e q' → Drains q' out → Drains q (e :: out)

theorem Drains.perm {q : Queue} {out : List (Nat × Prio)} (h : Drains q out) : out.Perm q := by
  induction h with
  | nil => exact List.Perm.refl _
  | cons hp _ ih => exact (List.Perm.cons _ ih).trans hp.perm_cons

theorem Drains.sorted {q : Queue} {out : List (Nat × Prio)} (h : Drains q out) :
    out.Pairwise (fun a b => Prio.le a.2 b.2 = true) := by
  induction h with
  | nil => exact List.Pairwise.nil
  | @cons q q' e out hp hd ih =>
    refine List.Pairwise.cons ?_ ih
    intro b hb
    exact hp.2.1 b (hp.mem_of_mem ((hd.perm.mem_iff).mp hb))

/-- The model's own `pop` drains every queue (so `Drains` is inhabited for every queue). -/
theorem drains_exists : ∀ (n : Nat) (q : Queue), q.length = n → ∃ out, Drains q out := by
  intro n
  induction n with
  | zero =>
    intro q hq
    have : q = [] := List.eq_nil_of_length_eq_zero hq
    subst this
    exact ⟨[], Drains.nil⟩
  | succ n ih =>
    intro q hq
    cases hp : pop q with
    | none =>
      have := (pop_none_iff q).mp hp
      subst this
      cases hq
    | some r =>
      obtain ⟨e, q'⟩ := r
      have ok := pop_ok hp
      obtain ⟨out, ho⟩ := ih q' (by have := ok.length; omega)
      exact ⟨e :: out, Drains.cons ok ho⟩

/-! ### mixed histories of pushes and pops -/

/-- observable events: a push, or a pop together with the pair it handed out -/
inductive Ev where
  | push (x : Nat) (w : Prio)
  | pop (e : Nat × Prio)

def pushed : List Ev → List (Nat × Prio)
  | [] => []
  | .push x w :: evs => (x, w) :: pushed evs
  | .pop _ :: evs => pushed evs

def popped : List Ev → List (Nat × Prio)
  | [] => []
  | .push _ _ :: evs => popped evs
  | .pop e :: evs => e :: popped evs

/-- `Trace q evs q'`: starting from pending `q`, the events `evs` (every pop being a valid pop for
some tie-breaking) lead to pending `q'`. -/
inductive Trace : Queue → List Ev → Queue → Prop
  | nil (q : Queue) : Trace q [] q
  | push {q q' : Queue} {x : Nat} {w : Prio} {evs : List Ev} :
      Trace (push q x w) evs q' → Trace q (.push x w :: evs) q'
  | pop {q q1 q' : Queue} {e : Nat × Prio} {evs : List Ev} :
      PopOk q e q1 → Trace q1 evs q' → Trace q (.pop e :: evs) q'

theorem Trace.perm {q q' : Queue} {evs : List Ev} (h : Trace q evs q') :
    (popped evs ++ q').Perm (q ++ pushed evs) := by
  induction h with
  | nil q => simp [popped, pushed]
  | @push q q' x w evs _ ih =>
    simp only [popped, pushed]
    have : q ++ (x, w) :: pushed evs = PQ.push q x w ++ pushed evs := by simp [PQ.push]
    rw [this]; exact ih
  | @pop q q1 q' e evs hp _ ih =>
    simp only [popped, pushed, List.cons_append]
    exact (List.Perm.cons e ih).trans
      (List.Perm.append_right (pushed evs) hp.perm_cons)

end Mouette.PQ
