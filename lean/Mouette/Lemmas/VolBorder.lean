import Mouette.Lemmas.VolSpec
import Mouette.Lemmas.VolOrient
import Mouette.Lemmas.VolConforming
/-!
Border / interior classification, boundary surface and index maps of the volume model.
-/
namespace Mouette.Vol
open Mesh

variable (k : Conn)

/-! ### generic: partition of `range n` by a Boolean flag -/

theorem filter_partition (n : Nat) (p : Nat → Bool) :
    ((List.range n).filter p ++ (List.range n).filter (fun x => !p x)).Perm (List.range n)
    ∧ (∀ x, ¬ (x ∈ (List.range n).filter p ∧ x ∈ (List.range n).filter (fun x => !p x)))
    ∧ ((List.range n).filter p).Nodup ∧ ((List.range n).filter (fun x => !p x)).Nodup := by
  refine ⟨List.filter_append_perm p _, ?_, List.Nodup.filter _ List.nodup_range, List.Nodup.filter _ List.nodup_range⟩
  intro x ⟨h1, h2⟩
  rw [List.mem_filter] at h1 h2
  simp [h1.2] at h2

/-! ### faces -/

theorem mem_boundaryFaces {f : Nat} :
    f ∈ k.boundaryFaces ↔ f < k.m.nF ∧ (k.faceToCells f).length < 2 := by
  unfold Conn.boundaryFaces Conn.isFaceOnBorder
  simp [List.mem_filter]

theorem mem_interiorFaces {f : Nat} :
    f ∈ k.interiorFaces ↔ f < k.m.nF ∧ 2 ≤ (k.faceToCells f).length := by
  unfold Conn.interiorFaces Conn.isFaceOnBorder
  simp [List.mem_filter]

theorem face_partition_lemma :
    (k.boundaryFaces ++ k.interiorFaces).Perm (List.range k.m.nF)
    ∧ (∀ f, ¬ (f ∈ k.boundaryFaces ∧ f ∈ k.interiorFaces))
    ∧ k.boundaryFaces.Nodup ∧ k.interiorFaces.Nodup :=
  filter_partition k.m.nF k.isFaceOnBorder

/-! ### vertices -/

theorem mem_borderVertexFlags {v : Nat} :
    v ∈ k.borderVertexFlags ↔ ∃ f ∈ k.boundaryFaces, v ∈ k.m.face f := by
  unfold Conn.borderVertexFlags; simp [List.mem_flatMap]

theorem isVertexOnBorder_iff {v : Nat} :
    k.isVertexOnBorder v = true ↔ ∃ f ∈ k.boundaryFaces, v ∈ k.m.face f := by
  unfold Conn.isVertexOnBorder; rw [List.contains_iff_mem]; exact mem_borderVertexFlags k

theorem mem_boundaryVertices {v : Nat} :
    v ∈ k.boundaryVertices ↔ v < k.m.nV ∧ ∃ f ∈ k.boundaryFaces, v ∈ k.m.face f := by
  unfold Conn.boundaryVertices
  simp only [List.mem_filter, List.mem_range, List.contains_iff_mem]
  rw [mem_borderVertexFlags]

theorem mem_interiorVertices {v : Nat} :
    v ∈ k.interiorVertices ↔ v < k.m.nV ∧ ¬ ∃ f ∈ k.boundaryFaces, v ∈ k.m.face f := by
  unfold Conn.interiorVertices
  rw [← mem_borderVertexFlags]
  simp [List.mem_filter]

theorem vertex_partition_lemma :
    (k.boundaryVertices ++ k.interiorVertices).Perm (List.range k.m.nV)
    ∧ (∀ v, ¬ (v ∈ k.boundaryVertices ∧ v ∈ k.interiorVertices))
    ∧ k.boundaryVertices.Nodup ∧ k.interiorVertices.Nodup :=
  filter_partition k.m.nV (fun v => k.borderVertexFlags.contains v)

/-! ### edges -/

theorem mem_borderEdgeFlags {e : Nat} :
    e ∈ k.borderEdgeFlags ↔ ∃ f ∈ k.boundaryFaces, e ∈ k.m.faceToEdges f := by
  unfold Conn.borderEdgeFlags; simp [List.mem_flatMap]

theorem isEdgeOnBorder_iff {e : Nat} :
    k.isEdgeOnBorder e = true ↔ ∃ f ∈ k.boundaryFaces, e ∈ k.m.faceToEdges f := by
  unfold Conn.isEdgeOnBorder; rw [List.contains_iff_mem]; exact mem_borderEdgeFlags k

theorem mem_boundaryEdges {e : Nat} :
    e ∈ k.boundaryEdges ↔ e < k.m.nE ∧ ∃ f ∈ k.boundaryFaces, e ∈ k.m.faceToEdges f := by
  unfold Conn.boundaryEdges
  simp only [List.mem_filter, List.mem_range, List.contains_iff_mem]
  rw [mem_borderEdgeFlags]

theorem edge_partition_lemma :
    (k.boundaryEdges ++ k.interiorEdges).Perm (List.range k.m.nE)
    ∧ (∀ e, ¬ (e ∈ k.boundaryEdges ∧ e ∈ k.interiorEdges))
    ∧ k.boundaryEdges.Nodup ∧ k.interiorEdges.Nodup :=
  filter_partition k.m.nE (fun e => k.borderEdgeFlags.contains e)

/-- the sides of a stored face, as the code enumerates them -/
theorem mem_faceToEdges {m : Mesh} {f e : Nat} :
    e ∈ m.faceToEdges f ↔ ∃ i < (m.face f).length,
      m.edgeIdD ((m.face f).getD i 0) ((m.face f).getD ((i + 1) % (m.face f).length) 0) = e := by
  unfold Mesh.faceToEdges
  simp only [List.mem_map, List.mem_range]

/-! ### boundary surface -/

theorem boundaryVertexList_nodup : k.boundaryVertexList.Nodup := eraseDups_nodup _

theorem mem_boundaryVertexList {v : Nat} :
    v ∈ k.boundaryVertexList ↔ ∃ f ∈ k.boundaryFaces, v ∈ k.m.face f := by
  unfold Conn.boundaryVertexList; rw [List.mem_eraseDups]; exact mem_borderVertexFlags k

theorem orientedFace_perm {f : Nat} {F : List Nat} (h : k.orientedFace f = some F) : F.Perm (k.m.face f) := by
  unfold Conn.orientedFace at h
  split at h
  · rename_i c rest a b c' hc hf
    rw [hf]
    split at h
    · split at h
      · cases h; exact List.Perm.refl _
      · cases h; exact List.Perm.cons _ (List.Perm.swap _ _ _)
    · cases h
  · cases h

/-- the orientation rule gives an outward face for either sign of the cell, as soon as the four
points are not coplanar -/
theorem orientedFace_outward {f c0 : Nat} {rest : List Nat} {a b c d : Nat}
    (hc : k.faceToCells f = c0 :: rest) (hf : k.m.face f = [a, b, c])
    (hd : Conn.fourth (k.m.cell c0) [a, b, c] = some d)
    (hnd : det3 ((k.m.pt a).sub (k.m.pt d)) ((k.m.pt b).sub (k.m.pt d)) ((k.m.pt c).sub (k.m.pt d)) ≠ 0) :
    ∃ x y z, k.orientedFace f = some [x, y, z] ∧ [x, y, z].Perm [a, b, c]
      ∧ 0 < outwardValue (k.m.pt x) (k.m.pt y) (k.m.pt z) (k.m.pt d) := by
  have hr := rule_outward (k.m.pt a) (k.m.pt b) (k.m.pt c) (k.m.pt d) hnd
  unfold Conn.orientedFace
  rw [hc, hf]
  simp only [hd]
  unfold Conn.keepOrientation
  by_cases hpos : 0 < det3 ((k.m.pt a).sub (k.m.pt d)) ((k.m.pt b).sub (k.m.pt d)) ((k.m.pt c).sub (k.m.pt d))
  · simp only [hpos, decide_true, if_true] at hr ⊢
    exact ⟨a, b, c, rfl, List.Perm.refl _, hr⟩
  · simp only [hpos, decide_false, if_false] at hr ⊢
    exact ⟨a, c, b, by simp, List.Perm.cons _ (List.Perm.swap _ _ _), hr⟩

theorem boundarySurface_length : k.boundarySurface.length = k.boundaryFaces.length := by
  unfold Conn.boundarySurface; simp

theorem boundarySurface_getElem? (i : Nat) :
    k.boundarySurface[i]? = (k.boundaryFaces[i]?).map k.orientedFace := by
  unfold Conn.boundarySurface; simp

end Mouette.Vol

namespace Mouette.Vol
open Mesh

/-- a 4-vertex cell without repetition has a vertex outside any 3-vertex face -/
theorem fourth_isSome {C F : List Nat} (hC : C.length = 4) (hn : C.Nodup) (hF : F.length = 3) :
    (Conn.fourth C F).isSome := by
  unfold Conn.fourth
  cases h : (C.filter fun x => !F.contains x) with
  | cons x xs => simp
  | nil =>
    exfalso
    have hsub : C ⊆ F := by
      intro x hx
      have : x ∉ C.filter fun x => !F.contains x := by rw [h]; simp
      rw [List.mem_filter] at this
      simp only [hx, true_and, Bool.not_eq_true', List.contains_eq_mem, decide_eq_false_iff_not, not_not] at this
      exact this
    have := List.Nodup.length_le_of_subset hn hsub
    omega

/-- under `Conforming`, the orientation step never raises on a border face: the boundary surface has
one oriented triangle per border face, a permutation of that face -/
theorem orientedFace_total {m : Mesh} (h : Conforming m) {f : Nat} (hf : f < m.nF) :
    ∃ F, m.conn.orientedFace f = some F ∧ F.Perm (m.face f) := by
  have hne := faceToCells_ne_nil h hf
  obtain ⟨c0, rest, hc⟩ : ∃ c0 rest, m.conn.faceToCells f = c0 :: rest := by
    cases hl : m.conn.faceToCells f with
    | nil => exact absurd hl hne
    | cons a as => exact ⟨a, as, rfl⟩
  have hc0 : c0 ∈ m.conn.faceToCells f := by rw [hc]; simp
  have hc0lt : c0 < m.nC := (mem_faceToCells.1 hc0).2.1
  obtain ⟨a, b, c, hF⟩ : ∃ a b c, m.face f = [a, b, c] := by
    have h3 := h.face3 f hf
    match hm : m.face f, h3 with
    | [a, b, c], _ => exact ⟨a, b, c, rfl⟩
  have hd := fourth_isSome (F := [a, b, c]) (h.cell4 c0 hc0lt) (h.cellNodup c0 hc0lt) rfl
  obtain ⟨d, hd⟩ := Option.isSome_iff_exists.1 hd
  have hm : m.conn.m = m := rfl
  have : ∃ F, m.conn.orientedFace f = some F := by
    unfold Conn.orientedFace
    rw [hc, hm, hF]
    simp only [hd]
    split <;> exact ⟨_, rfl⟩
  obtain ⟨F, hFo⟩ := this
  exact ⟨F, hFo, by simpa [hm] using orientedFace_perm m.conn hFo⟩

end Mouette.Vol
