import Mouette.Lemmas.C02Steps
import Mouette.Lemmas.C02Prepare
/-
The model `Mouette.Prepare` is the interpretation of the normal-form skeletons of `Lemmas/C02Steps`
(hand side of the structure bridges; the Generated side is compared in Props/C02). Core Lean only.
-/
set_option linter.unusedSimpArgs false
namespace Mouette.Prepare

/-- `prepare` runs: guard first, then the eleven steps in this order, completion steps under their switches -/
theorem prepare_eq_runProgram (cfg : Cfg) (r : Raw) :
    prepare cfg r = runProgram cfg expectedPrepareProgram r := by
  unfold prepare runProgram expectedPrepareProgram stages completed
  by_cases hp : r.prepared = true
  · simp [hp]
  · have hp' : r.prepared = false := by simpa using hp
    simp only [hp', Bool.and_false, Bool.false_eq_true, if_false]
    cases hcf : cfg.cf <;> cases hce : cfg.ce <;>
      simp only [runSteps, guardHolds, runStep, hcf, hce, Bool.false_eq_true, if_false, if_true] <;>
      (split <;> rename_i heq <;> simp [heq])

theorem completeEdges_eq_with (r : Raw) :
    completeEdges r = completeEdgesWith .ifAbsent hardName true true r := by
  unfold completeEdges completeEdgesWith
  by_cases h : r.faces.isEmpty = true
  · simp [h]
  · have h' : r.faces.isEmpty = false := by simpa using h
    simp only [h', Bool.and_false, Bool.false_eq_true, if_false, if_true]
    rfl

theorem cornerLists_expected (rows : List (List Nat)) :
    cornerLists [.vertex, .owner] [.elem, .adj] rows = (rows.flatten, owners rows) := by
  simp [cornerLists, routed, List.find?]

theorem dimensionality_eq_dimBy (r : Raw) :
    dimensionality r = dimBy [("cells", 3), ("faces", 2), ("edges", 1)] 0 r := by
  unfold dimensionality
  simp only [dimBy, containerNonEmpty]
  simp

theorem instantiate_eq_with (cfg : Cfg) (r : Raw) (dim : Option Nat) :
    instantiate cfg r dim = instantiateWith cfg [.prepare, .defaultDim (-1), .combineMax, .dispatch] r dim := by
  unfold instantiate instantiateWith
  simp only [runInst]
  cases hp : prepare cfg r with
  | error e => rfl
  | ok p =>
    simp only [runInst]
    cases dim with
    | none =>
      simp only [optNatToInt, Option.getD_none]
      have : (max (-1 : Int) (dimensionality p : Nat)).toNat = max 0 (dimensionality p) := by omega
      rw [this]
    | some n =>
      simp only [optNatToInt, Option.getD_some, Int.ofNat_eq_natCast]
      have : (max (n : Int) (dimensionality p : Nat)).toNat = max n (dimensionality p) := by omega
      rw [this]

theorem rewrap_visible (b : Built) :
    (rewrap b).edges = (if visible expectedMeshInitTable b.dim "edges" then b.raw.edges else []) ∧
    (rewrap b).eattrs = (if visible expectedMeshInitTable b.dim "edges" then b.raw.eattrs else []) ∧
    (rewrap b).faces = (if visible expectedMeshInitTable b.dim "faces" then b.raw.faces else []) ∧
    (rewrap b).fcElem = (if visible expectedMeshInitTable b.dim "face_corners" then b.raw.fcElem else []) ∧
    (rewrap b).fcAdj = (if visible expectedMeshInitTable b.dim "face_corners" then b.raw.fcAdj else []) ∧
    (rewrap b).cells = (if visible expectedMeshInitTable b.dim "cells" then b.raw.cells else []) ∧
    (rewrap b).ccElem = (if visible expectedMeshInitTable b.dim "cell_corners" then b.raw.ccElem else []) ∧
    (rewrap b).ccAdj = (if visible expectedMeshInitTable b.dim "cell_corners" then b.raw.ccAdj else []) ∧
    (rewrap b).cfElem = (if visible expectedMeshInitTable b.dim "cell_faces" then b.raw.cfElem else []) ∧
    (rewrap b).cfAdj = (if visible expectedMeshInitTable b.dim "cell_faces" then b.raw.cfAdj else []) := by
  have e1 : visible expectedMeshInitTable b.dim "edges" = decide (1 ≤ b.dim) := by
    simp [visible, expectedMeshInitTable]; omega
  have e2 : visible expectedMeshInitTable b.dim "faces" = decide (2 ≤ b.dim) := by
    simp [visible, expectedMeshInitTable]; omega
  have e3 : visible expectedMeshInitTable b.dim "face_corners" = decide (2 ≤ b.dim) := by
    simp [visible, expectedMeshInitTable]; omega
  have e4 : visible expectedMeshInitTable b.dim "cells" = decide (3 ≤ b.dim) := by
    simp [visible, expectedMeshInitTable]; omega
  have e5 : visible expectedMeshInitTable b.dim "cell_corners" = decide (3 ≤ b.dim) := by
    simp [visible, expectedMeshInitTable]; omega
  have e6 : visible expectedMeshInitTable b.dim "cell_faces" = decide (3 ≤ b.dim) := by
    simp [visible, expectedMeshInitTable]; omega
  simp only [e1, e2, e3, e4, e5, e6, rewrap, decide_eq_true_eq, and_self]

end Mouette.Prepare
