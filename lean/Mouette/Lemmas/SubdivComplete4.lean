import Mathlib.Data.List.Perm.Subperm
import Mouette.Lemmas.SubdivComplete3
import Mouette.Lemmas.SubdivVolume2
/-
C13 (round 2): infrastructure for the completion counts of `split_tet_from_face_center`: triangles inside a cell are
faces of the cell, pairs of vertices of a cell are edges, set-level description of the cells written by the split.
-/
namespace Mouette.Subdiv

theorem perm_of_subset {l₁ l₂ : List Nat} (h1 : l₁.Nodup) (hs : l₁ ⊆ l₂) (hl : l₂.length ≤ l₁.length) : l₁.Perm l₂ :=
  (List.subperm_of_subset h1 hs).perm_of_length_le hl

theorem too_many {l₁ l₂ : List Nat} (h1 : l₁.Nodup) (hs : l₁ ⊆ l₂) (hl : l₂.length < l₁.length) : False := by
  have := (List.subperm_of_subset h1 hs).length_le; omega

theorem nodup4 {x0 x1 x2 x3 : Nat} (h : [x0, x1, x2, x3].Nodup) :
    x0 ≠ x1 ∧ x0 ≠ x2 ∧ x0 ≠ x3 ∧ x1 ≠ x2 ∧ x1 ≠ x3 ∧ x2 ≠ x3 := by
  simp only [List.nodup_cons, List.mem_cons, List.not_mem_nil, or_false, not_or, List.nodup_nil, and_true,
    not_false_eq_true] at h
  obtain ⟨⟨a, b, c⟩, ⟨d, e⟩, f⟩ := h
  exact ⟨a, b, c, d, e, f⟩

/-- three different vertices of a tetrahedral cell form (up to order) one of its four faces -/
theorem face_of_cell (x0 x1 x2 x3 : Nat) (f3 : List Nat) (hc : [x0, x1, x2, x3].Nodup) (h3 : f3.Nodup)
    (hl : f3.length = 3) (hsub : f3 ⊆ [x0, x1, x2, x3]) :
    ∃ g ∈ tetFaces [x0, x1, x2, x3], keyifyL g = keyifyL f3 := by
  have drop : ∀ (w y0 y1 y2 : Nat), w ∉ f3 → (∀ v, v ∈ [x0, x1, x2, x3] → v = w ∨ v ∈ [y0, y1, y2]) →
      keyifyL [y0, y1, y2] = keyifyL f3 := by
    intro w y0 y1 y2 hw hcov
    refine (keyifyL_congr (perm_of_subset h3 ?_ (by simp [hl]))).symm
    intro v hv
    rcases hcov v (hsub hv) with rfl | h
    · exact absurd hv hw
    · exact h
  by_cases h0 : x0 ∈ f3
  · by_cases h1 : x1 ∈ f3
    · by_cases h2 : x2 ∈ f3
      · by_cases h3' : x3 ∈ f3
        · exfalso
          refine too_many (l₂ := f3) hc ?_ (by simp [hl])
          intro v hv
          simp only [List.mem_cons, List.not_mem_nil, or_false] at hv
          rcases hv with rfl | rfl | rfl | rfl <;> assumption
        · exact ⟨[x0, x1, x2], by simp [tetFaces], drop x3 x0 x1 x2 h3' (by intro v hv; simp at hv ⊢; tauto)⟩
      · exact ⟨[x3, x1, x0], by simp [tetFaces], drop x2 x3 x1 x0 h2 (by intro v hv; simp at hv ⊢; tauto)⟩
    · exact ⟨[x0, x2, x3], by simp [tetFaces], drop x1 x0 x2 x3 h1 (by intro v hv; simp at hv ⊢; tauto)⟩
  · exact ⟨[x1, x3, x2], by simp [tetFaces], drop x0 x1 x3 x2 h0 (by intro v hv; simp at hv ⊢; tauto)⟩

/-- two different vertices of a cell span an edge of the edge list -/
theorem cell_pair_edge (m : Raw) (hF : FacesAreCellFaces m) (hE : EdgesCoverSides m) (x0 x1 x2 x3 : Nat)
    (hcell : [x0, x1, x2, x3] ∈ m.cells) (hc : [x0, x1, x2, x3].Nodup) :
    ∀ x y, x ∈ [x0, x1, x2, x3] → y ∈ [x0, x1, x2, x3] → x ≠ y → keyify x y ∈ m.edges := by
  obtain ⟨_, _, hcov⟩ := hE
  have hfaceSides : ∀ face ∈ tetFaces [x0, x1, x2, x3], ∀ s ∈ sidesKeyed face, s ∈ m.edges := by
    intro face hface s hs
    obtain ⟨p, q, r, rfl, _, _, _, hd⟩ := tetFaces_mem x0 x1 x2 x3 face hface
    obtain ⟨d1, d2, d3⟩ := hd hc
    obtain ⟨f', hf', e⟩ := List.mem_map.mp (hF.2 _ hcell _ hface)
    exact hcov s (List.mem_flatMap.mpr ⟨f', hf', (sides_of_same_key f' p q r d1 d2 d3 e s).mpr hs⟩)
  have s0 := hfaceSides [x1, x3, x2] (by simp [tetFaces])
  have s1 := hfaceSides [x0, x2, x3] (by simp [tetFaces])
  have s3 := hfaceSides [x0, x1, x2] (by simp [tetFaces])
  simp only [sidesKeyed_tri, List.mem_cons, List.not_mem_nil, or_false, forall_eq_or_imp, forall_eq] at s0 s1 s3
  intro x y hx hy hne
  simp only [List.mem_cons, List.not_mem_nil, or_false] at hx hy
  rcases hx with rfl | rfl | rfl | rfl <;> rcases hy with rfl | rfl | rfl | rfl <;>
    first
    | exact absurd rfl hne
    | exact s3.1
    | exact s3.2.1
    | exact s3.2.2
    | exact s1.2.1
    | exact s1.2.2
    | exact s0.1
    | (rw [keyify_comm]; first | exact s3.1 | exact s3.2.1 | exact s3.2.2 | exact s1.2.1 | exact s1.2.2 | exact s0.1)

theorem completeFold_keeps {β κ} [BEq κ] (key : β → κ) : ∀ (L : List β) (start : List κ × List β),
    ∀ f ∈ start.2, f ∈ (completeFold key start L).2
  | [], start, f, hf => by simpa [completeFold] using hf
  | g :: t, start, f, hf => by
    simp only [completeFold, List.foldl_cons]
    by_cases he : start.1.elem (key g) = true
    · simp only [he, if_true]; exact completeFold_keeps key t start f hf
    · have he' : start.1.elem (key g) = false := by simpa using he
      simp only [he', Bool.false_eq_true, if_false]
      exact completeFold_keeps key t _ f (List.mem_append_left _ hf)

/-- membership in a list with one entry replaced, for duplicate-free lists -/
theorem mem_set_nodup (l : List Nat) (i : Nat) (hi : i < l.length) (x : Nat) (hn : l.Nodup) (v : Nat) :
    v ∈ l.set i x ↔ v = x ∨ (v ∈ l ∧ v ≠ l[i]) := by
  constructor
  · intro hv
    obtain ⟨j, hj, rfl⟩ := List.getElem_of_mem hv
    rw [List.getElem_set]
    by_cases hij : i = j
    · simp [hij]
    · simp only [hij, if_false]
      right
      have hj' : j < l.length := by simpa using hj
      exact ⟨List.getElem_mem hj', fun e => hij ((List.Nodup.getElem_inj_iff hn).mp e).symm⟩
  · rintro (rfl | ⟨hv, hne⟩)
    · exact mem_set_self' l i _ hi
    · obtain ⟨j, hj, rfl⟩ := List.getElem_of_mem hv
      have hij : i ≠ j := fun e => hne (by subst e; rfl)
      have : (l.set i x)[j]'(by simpa using hj) = l[j] := by rw [List.getElem_set]; simp [hij]
      rw [← this]; exact List.getElem_mem _

end Mouette.Subdiv
