import Mouette.Lemmas.UnionFind
/-!
Union by size: the `_siz` field of every ROOT is the cardinality of its class, after every history (core Lean only).
(`Inv` of Lemmas/UnionFind.lean deliberately says nothing about `_siz`: sizes only pick the link direction. This file
adds the missing invariant.)
-/
namespace Mouette.UF

/-- number of stored elements (positions in `_elts`) whose class root is `r` -/
def card (s : State) (r : Nat) : Nat := (List.range s.elts.length).countP (fun i => rootOf s i == r)

/-- the size field of every root is the cardinality of its class -/
def SizeInv (s : State) : Prop :=
  ∀ r, r < s.elts.length → parent s.par r = r → s.siz.getD r 0 = card s r

theorem sizeInv_init : SizeInv init := fun r h => absurd h (by simp [init])

theorem sizeInv_pequiv {s s' : State} (inv : Inv s) (inv' : Inv s') (pe : PEquiv s s') (h : SizeInv s) :
    SizeInv s' := by
  intro r hr hroot
  rw [pe.elts] at hr
  have hroot' : parent s.par r = r := (pe.par.root_iff r).mp hroot
  rw [pe.siz, h r hr hroot']
  unfold card
  rw [pe.elts]
  apply List.countP_congr
  intro i hi
  rw [pe.rootOf inv inv' (List.mem_range.mp hi)]

theorem sizeInv_add {s : State} (inv : Inv s) (h : SizeInv s) (x : Nat) : SizeInv (add s x) := by
  by_cases hx : x ∈ s.elts
  · rw [add_of_mem hx]; exact h
  · have he : (add s x).elts.length = s.elts.length + 1 := by rw [add_of_not_mem hx]; simp
    have hp : (add s x).par = s.par ++ [s.par.length] := by
      rw [add_of_not_mem hx, inv.nextEq, inv.parLen]
    have hsz : (add s x).siz = s.siz ++ [1] := by rw [add_of_not_mem hx]
    intro r hr hroot
    rw [he] at hr
    rw [hp, parent_append_self] at hroot
    unfold card
    rw [he, List.range_succ, List.countP_append, hsz]
    have hnew : rootOf (add s x) s.elts.length = s.elts.length := rootOf_add_new inv hx
    by_cases hrn : r < s.elts.length
    · have h1 : (s.siz ++ [1]).getD r 0 = s.siz.getD r 0 := by
        rw [List.getD_eq_getElem?_getD, List.getD_eq_getElem?_getD,
          List.getElem?_append_left (by rw [inv.sizLen]; exact hrn)]
      have h2 : (List.range s.elts.length).countP (fun i => rootOf (add s x) i == r) = card s r := by
        unfold card
        apply List.countP_congr
        intro i hi
        rw [rootOf_add_old inv x (List.mem_range.mp hi)]
      have h3 : (rootOf (add s x) s.elts.length == r) = false := by
        rw [hnew]; simp; omega
      rw [h1, h2, h r hrn hroot]
      simp [h3]
    · have hr' : r = s.elts.length := by omega
      subst hr'
      have h1 : (s.siz ++ [1]).getD s.elts.length 0 = 1 := by
        rw [List.getD_eq_getElem?_getD, ← inv.sizLen]; simp
      have h2 : (List.range s.elts.length).countP (fun i => rootOf (add s x) i == s.elts.length) = 0 := by
        rw [List.countP_eq_zero]
        intro i hi
        have hi' := List.mem_range.mp hi
        rw [rootOf_add_old inv x hi']
        have := rootOf_lt inv hi'
        simp; omega
      rw [h1, h2]
      simp [hnew]

theorem countP_merge (f : Nat → Nat) {a b : Nat} (hab : a ≠ b) : ∀ l : List Nat,
    l.countP (fun i => (if f i = a then b else f i) == b)
      = l.countP (fun i => f i == b) + l.countP (fun i => f i == a) := by
  intro l
  induction l with
  | nil => rfl
  | cons i l ih =>
    rw [List.countP_cons, List.countP_cons, List.countP_cons, ih]
    by_cases h1 : f i = a
    · have : ¬ f i = b := fun e => hab (h1.symm.trans e)
      simp [h1, hab]; omega
    · by_cases h2 : f i = b
      · have hba : ¬ b = a := fun e => hab e.symm
        simp [h2, hba]; omega
      · simp [h1, h2]

theorem sizeInv_link {s : State} (inv : Inv s) (h : SizeInv s) {a b : Nat} (ha : parent s.par a = a)
    (hb : parent s.par b = b) (hab : a ≠ b) (hal : a < s.elts.length) (hbl : b < s.elts.length) :
    SizeInv { s with par := s.par.set a b, siz := s.siz.set b (s.siz.getD b 0 + s.siz.getD a 0),
                     nComps := s.nComps - 1 } := by
  intro r hr hroot
  have hr' : r < s.elts.length := hr
  have hroot' : parent (s.par.set a b) r = r := hroot
  have hra : r ≠ a := by
    intro e
    subst e
    rw [parent_set, if_pos ⟨rfl, by rw [inv.parLen]; exact hal⟩] at hroot'
    exact hab hroot'.symm
  rw [parent_set, if_neg (fun hh => hra hh.1)] at hroot'
  have hc : ∀ r', card ({ s with par := s.par.set a b, siz := s.siz.set b (s.siz.getD b 0 + s.siz.getD a 0), nComps := s.nComps - 1 } : State) r'
      = (List.range s.elts.length).countP (fun i => (if rootOf s i = a then b else rootOf s i) == r') := by
    intro r'
    unfold card
    apply List.countP_congr
    intro i hi
    rw [rootOf_link inv ha hb hab hal hbl _ (by simp) (List.mem_range.mp hi)]
  rw [hc]
  show (s.siz.set b (s.siz.getD b 0 + s.siz.getD a 0)).getD r 0 = _
  by_cases hrb : r = b
  · subst hrb
    rw [countP_merge _ hab, List.getD_eq_getElem?_getD, List.getElem?_set_self (by rw [inv.sizLen]; exact hbl)]
    simp only [Option.getD_some]
    rw [h r hbl hb, h a hal ha]
    rfl
  · rw [List.getD_eq_getElem?_getD, List.getElem?_set_ne (fun e => hrb e.symm), ← List.getD_eq_getElem?_getD,
      h r hr' hroot']
    unfold card
    apply List.countP_congr
    intro i _
    by_cases h1 : rootOf s i = a
    · have : ¬ a = r := fun e => hra e.symm
      simp [h1, this]
      exact fun e => hrb e.symm
    · simp [h1]

theorem sizeInv_step {s : State} (inv : Inv s) (h : SizeInv s) (op : Op) : SizeInv (step s op) := by
  cases hq : op.isQuery with
  | true =>
    obtain ⟨i', pe⟩ := step_query inv hq
    exact sizeInv_pequiv inv i' pe h
  | false =>
    cases op with
    | add x => exact sizeInv_add inv h x
    | union x y =>
      have inv1 : Inv (add (add s x) y) := inv_add (inv_add inv x) y
      have h1 : SizeInv (add (add s x) y) := sizeInv_add (inv_add inv x) (sizeInv_add inv h x) y
      have hx1 : x ∈ (add (add s x) y).elts := by
        rw [mem_add_elts, mem_add_elts]; exact Or.inl (Or.inr rfl)
      have hy1 : y ∈ (add (add s x) y).elts := by
        rw [mem_add_elts]; exact Or.inr rfl
      obtain ⟨s3, inv3, pe, hu⟩ := union_unfold inv x y
      have h3 : SizeInv s3 := sizeInv_pequiv inv1 inv3 pe h1
      have hcx : classOf (add (add s x) y) x < s3.elts.length := by rw [pe.elts]; exact classOf_lt inv1 hx1
      have hcy : classOf (add (add s x) y) y < s3.elts.length := by rw [pe.elts]; exact classOf_lt inv1 hy1
      have hrx : parent s3.par (classOf (add (add s x) y) x) = classOf (add (add s x) y) x :=
        (pe.par.root_iff _).mpr (rootOf_isRoot inv1 (idxOf_lt hx1))
      have hry : parent s3.par (classOf (add (add s x) y) y) = classOf (add (add s x) y) y :=
        (pe.par.root_iff _).mpr (rootOf_isRoot inv1 (idxOf_lt hy1))
      show SizeInv (union s x y)
      rw [hu]
      split
      · exact h3
      · rename_i hne
        split
        · exact sizeInv_link inv3 h3 hrx hry hne hcx hcy
        · exact sizeInv_link inv3 h3 hry hrx (fun e => hne e.symm) hcy hcx
    | find x => cases hq
    | connected x y => cases hq
    | component x => cases hq

theorem sizeInv_run (ops : List Op) : SizeInv (run ops) := by
  have aux : ∀ (ops : List Op) (s : State), Inv s → SizeInv s → SizeInv (ops.foldl step s) := by
    intro ops
    induction ops with
    | nil => intro s _ h; exact h
    | cons op ops ih => intro s i h; exact ih _ (inv_step i op) (sizeInv_step i h op)
  exact aux ops init inv_init sizeInv_init

end Mouette.UF
