import Mouette.Lemmas.VolClosed
import Mouette.Lemmas.VolEdgeMap
/-!
Closedness stated on the extracted boundary surface, and "exactly two" under edge-manifoldness of the surface.
-/
namespace Mouette.Vol
open Mesh

variable {m : Mesh}

/-- the triangles of the extracted boundary surface, in volume vertex ids -/
def Conn.surfaceFaces (k : Conn) : List (List Nat) := k.boundarySurface.filterMap id

/-- number of triangles of the boundary surface having both `u` and `v` as vertices -/
def Conn.surfaceEdgeDegree (k : Conn) (u v : Nat) : Nat := (k.surfaceFaces.filter fun F => hasEdge F u v).length

/-- decidable edge-manifoldness of the boundary surface: no edge of the surface lies in more than two triangles -/
def Conn.boundaryEdgeManifold (k : Conn) : Bool :=
  k.boundarySurfaceEdges.all fun E => decide (k.surfaceEdgeDegree (E.getD 0 0) (E.getD 1 0) ≤ 2)

theorem surfaceFaces_eq (k : Conn) : k.surfaceFaces = k.boundaryFaces.filterMap k.orientedFace := by
  unfold Conn.surfaceFaces Conn.boundarySurface
  rw [List.filterMap_map]; rfl

theorem degree_filterMap (h : Conforming m) (u v : Nat) (L : List Nat) (hL : ∀ f ∈ L, f < m.nF) :
    ((L.filterMap m.conn.orientedFace).filter fun F => hasEdge F u v).length
      = (L.filter fun f => hasEdge (m.face f) u v).length := by
  induction L with
  | nil => rfl
  | cons f t ih =>
    obtain ⟨F, hF, hp⟩ := orientedFace_total h (hL f (by simp))
    have iht := ih (fun g hg => hL g (by simp [hg]))
    rw [List.filterMap_cons_some hF, List.filter_cons, List.filter_cons, hasEdge_perm hp u v]
    by_cases hP : hasEdge (m.face f) u v <;> simp [hP, iht]

theorem surfaceEdgeDegree_eq (h : Conforming m) (u v : Nat) :
    m.conn.surfaceEdgeDegree u v = (m.conn.boundaryFaces.filter fun f => hasEdge (m.face f) u v).length := by
  unfold Conn.surfaceEdgeDegree
  rw [surfaceFaces_eq]
  exact degree_filterMap h u v _ (fun f hf => ((mem_boundaryFaces _).1 hf).1)

/-- **the extracted boundary surface is closed**: any two distinct vertices are joined by an even number of its
triangles (so every undirected edge of the surface lies in an even number of boundary faces) -/
theorem surface_closed (h : Conforming m) {u v : Nat} (huv : u ≠ v) : m.conn.surfaceEdgeDegree u v % 2 = 0 := by
  rw [surfaceEdgeDegree_eq h]; exact border_faces_with_edge_even h huv

theorem face_nodup (h : Conforming m) {f : Nat} (hf : f < m.nF) : (m.face f).Nodup := by
  obtain ⟨c, hc, i, _, hk⟩ := h.faceInCell f hf
  have hp : (m.face f).Perm (subFace (m.cell c) i) := key_eq_iff_perm.1 hk.symm
  rw [hp.nodup_iff, subFace_eq_eraseIdx]
  exact (h.cellNodup c hc).sublist (List.eraseIdx_sublist _ _)

theorem mem_surfaceFaces {k : Conn} {F : List Nat} : F ∈ k.surfaceFaces ↔ ∃ f ∈ k.boundaryFaces, k.orientedFace f = some F := by
  rw [surfaceFaces_eq, List.mem_filterMap]

theorem key_pair (u v : Nat) : key [u, v] = if v ≤ u then [v, u] else [u, v] := by
  simp only [key, ins]
  by_cases h : u ≤ v
  · by_cases h' : v ≤ u
    · have : u = v := by omega
      subst this; simp
    · simp [h, h']
  · have : v ≤ u := by omega
    simp [h, this]

/-- **exactly two** under edge-manifoldness of the boundary surface: every side of every triangle of the surface is
shared by exactly two triangles of the surface -/
theorem surface_closed_exactly_two (h : Conforming m) (hman : m.conn.boundaryEdgeManifold = true)
    {F : List Nat} (hF : F ∈ m.conn.surfaceFaces) {i : Nat} (hi : i < F.length) :
    m.conn.surfaceEdgeDegree (F.getD i 0) (F.getD ((i + 1) % F.length) 0) = 2 := by
  obtain ⟨f, hfb, hfo⟩ := mem_surfaceFaces.1 hF
  have hflt : f < m.nF := ((mem_boundaryFaces _).1 hfb).1
  have hperm : F.Perm (m.face f) := orientedFace_perm m.conn hfo
  have hnd : F.Nodup := hperm.nodup_iff.2 (face_nodup h hflt)
  have hlen : F.length = 3 := by rw [hperm.length_eq]; exact h.face3 f hflt
  have hj : (i + 1) % F.length < F.length := Nat.mod_lt _ (by omega)
  -- the two end points
  have hu : F.getD i 0 = F[i] := by simp [List.getD_eq_getElem?_getD, hi]
  have hv : F.getD ((i + 1) % F.length) 0 = F[(i + 1) % F.length] := by simp [List.getD_eq_getElem?_getD, hj]
  have hne : F.getD i 0 ≠ F.getD ((i + 1) % F.length) 0 := by
    rw [hu, hv]
    intro heq
    have := (List.Nodup.getElem_inj_iff hnd).1 heq
    rw [hlen] at this; omega
  -- at least one: F itself
  have hge : 1 ≤ m.conn.surfaceEdgeDegree (F.getD i 0) (F.getD ((i + 1) % F.length) 0) := by
    unfold Conn.surfaceEdgeDegree
    apply List.length_pos_of_mem (a := F)
    rw [List.mem_filter]
    refine ⟨hF, ?_⟩
    unfold hasEdge
    rw [hu, hv]
    simp
  -- at most two: the edge is an edge of the surface
  have hle : m.conn.surfaceEdgeDegree (F.getD i 0) (F.getD ((i + 1) % F.length) 0) ≤ 2 := by
    unfold Conn.boundaryEdgeManifold at hman
    rw [List.all_eq_true] at hman
    have hE : key [F.getD i 0, F.getD ((i + 1) % F.length) 0] ∈ m.conn.boundarySurfaceEdges := by
      unfold Conn.boundarySurfaceEdges
      rw [mem_surfaceEdges]
      exact ⟨F, hF, i, hi, rfl⟩
    have := hman _ hE
    rw [key_pair] at this
    split at this
    · simp only [List.getD_cons_zero, List.getD_cons_succ, decide_eq_true_eq] at this
      unfold Conn.surfaceEdgeDegree at this ⊢
      rw [List.filter_congr (fun G _ => hasEdge_comm G _ _)]
      exact this
    · simpa using this
  have hev := surface_closed h hne
  omega

end Mouette.Vol
