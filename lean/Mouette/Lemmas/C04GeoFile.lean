import Mouette.Lemmas.C04GeoAttrs
/-! C04 (round 3): the token file ↔ chunk list step of geogram_ascii.
`parseFile` (one datum per line → header detection → `Chunk.__init__`) inverts the printer `chunkLines` on every
well-formed chunk list; the chunk list written by `exportChunks` is well formed.  Together with
`importChunks_exportChunks_attrs` this gives the FILE-level round trip `importGeo (exportGeo g) = expectedGA g`. -/
namespace Mouette.IO.Geo
open Mouette.IO
variable {C : Type}

def okStr (s : String) : Bool := s != "[HEAD]" && s != "[ATTS]" && s != "[ATTR]"

/-- nothing inside the chunk can be mistaken for a chunk header -/
def wfChunk : Chunk → Bool
  | .head => true
  | .atts c _ => okStr c
  | .attr c nm ty _ data => okStr c && okStr nm && okStr ty && data.all (fun t => !isHeader t)

/-- the tokens of a chunk, one per line -/
def chunkToks : Chunk → List Tok
  | .head => [.kw "[HEAD]", .kw "\"GEOGRAM\"", .kw "\"1.0\""]
  | .atts c n => [.kw "[ATTS]", .kw c, idx0 n]
  | .attr c nm ty dim data => [.kw "[ATTR]", .kw c, .kw nm, .kw ty, sizeTok ty, idx0 dim] ++ data

theorem chunkLines_eq (ch : Chunk) : chunkLines ch = (chunkToks ch).map (fun t => [t]) := by
  cases ch <;> simp [chunkLines, chunkToks]

theorem flatToks_single (ts : List Tok) : flatToks (ts.map (fun t => [t])) = some ts := by
  induction ts with
  | nil => rfl
  | cons t r ih => simp [flatToks, ih]

theorem flatToks_export (cs : List Chunk) :
    flatToks ((cs.map chunkLines).flatten) = some (cs.flatMap chunkToks) := by
  have : (cs.map chunkLines).flatten = (cs.flatMap chunkToks).map (fun t => [t]) := by
    induction cs with
    | nil => rfl
    | cons c r ih => simp [chunkLines_eq, ih, List.flatMap_cons]
  rw [this, flatToks_single]

theorem isHeader_kw (s : String) (h : okStr s = true) : isHeader (.kw s) = false := by
  simp only [okStr, Bool.and_eq_true, bne_iff_ne, ne_eq] at h
  obtain ⟨⟨h1, h2⟩, h3⟩ := h
  simp [isHeader, h1, h2, h3]

@[simp] theorem isHeader_idx0 (n : Nat) : isHeader (idx0 n) = false := rfl

theorem isHeader_sizeTok (ty : String) : isHeader (sizeTok ty) = false := by
  unfold sizeTok; split <;> (try split) <;> rfl

theorem splitAux_body (body rest : List Tok) (hb : body.all (fun t => !isHeader t) = true) :
    splitAux (body ++ rest) = (body ++ (splitAux rest).1, (splitAux rest).2) := by
  induction body with
  | nil => rfl
  | cons t r ih =>
    simp only [List.all_cons, Bool.and_eq_true, Bool.not_eq_true'] at hb
    simp only [List.cons_append, splitAux, hb.1, ih hb.2]
    simp

/-- a well-formed chunk is `header :: body` with a header-free body -/
theorem chunkToks_shape (ch : Chunk) (h : wfChunk ch = true) :
    ∃ hd body, chunkToks ch = hd :: body ∧ isHeader hd = true ∧ body.all (fun t => !isHeader t) = true := by
  cases ch with
  | head => exact ⟨_, _, rfl, rfl, by decide⟩
  | atts c n =>
    refine ⟨_, _, rfl, rfl, ?_⟩
    simp only [wfChunk] at h
    simp [isHeader_kw c h]
  | attr c nm ty dim data =>
    refine ⟨.kw "[ATTR]", [.kw c, .kw nm, .kw ty, sizeTok ty, idx0 dim] ++ data, rfl, rfl, ?_⟩
    simp only [wfChunk, Bool.and_eq_true] at h
    obtain ⟨⟨⟨h1, h2⟩, h3⟩, h4⟩ := h
    simp [List.all_append, isHeader_kw c h1, isHeader_kw nm h2, isHeader_kw ty h3, isHeader_sizeTok ty]
    simpa using h4

theorem splitAux_chunks (cs : List Chunk) (h : cs.all wfChunk = true) :
    splitAux (cs.flatMap chunkToks) = ([], cs.map chunkToks) := by
  induction cs with
  | nil => rfl
  | cons c r ih =>
    simp only [List.all_cons, Bool.and_eq_true] at h
    obtain ⟨hd, body, e, hh, hb⟩ := chunkToks_shape c h.1
    have ihr := ih h.2
    simp only [List.flatMap_cons, List.map_cons, e, List.cons_append, splitAux, hh, if_true]
    rw [splitAux_body body _ hb, ihr]
    simp

theorem chunkOf_chunkToks (ch : Chunk) : chunkOf (chunkToks ch) = some ch := by
  cases ch with
  | head => simp [chunkOf, chunkToks]
  | atts c n => simp [chunkOf, chunkToks]
  | attr c nm ty dim data =>
    have hs : ∃ i, sizeTok ty = .int i := by
      unfold sizeTok; split
      · exact ⟨_, rfl⟩
      · split <;> exact ⟨_, rfl⟩
    obtain ⟨i, hi⟩ := hs
    simp [chunkOf, chunkToks, hi, readInt]

/-- `parseFile` inverts the printer on well-formed chunk lists -/
theorem parseFile_print (cs : List Chunk) (h : cs.all wfChunk = true) :
    parseFile ((cs.map chunkLines).flatten) = some cs := by
  unfold parseFile
  rw [flatToks_export]
  simp only [splitChunks, splitAux_chunks cs h]
  exact mapOpt_map chunkToks chunkOf chunkOf_chunkToks cs

/-! ### the exported chunk list is well formed -/

/-- a user attribute whose name and value tokens cannot be mistaken for a chunk header -/
def fileSafe (a : GAttr) : Bool := okStr a.name && a.vals.all (fun t => !isHeader t)

theorem wf_user (attrs : List GAttr) (k : Cont) (h : attrs.all fileSafe = true) :
    (userChunks attrs k).all wfChunk = true := by
  rw [userChunks_eq]
  simp only [List.all_map, List.all_eq_true]
  intro a ha
  have hs := List.all_eq_true.mp h a ((List.mem_filter.mp ha).1)
  simp only [fileSafe, Bool.and_eq_true] at hs
  have hc : okStr a.cont.name = true := by cases a.cont <;> decide
  have ht : okStr (match a.typ with | .bool => "\"bool\"" | .int => "\"int\"" | .float => "\"double\"") = true := by
    cases a.typ <;> decide
  show (okStr _ && okStr _ && okStr _ && _) = true
  simp only [Bool.and_eq_true]
  exact ⟨⟨⟨hc, hs.1⟩, ht⟩, hs.2⟩

theorem all_idx0 (l : List Nat) : (l.map idx0).all (fun t => !isHeader t) = true := by
  simp [List.all_map, idx0, isHeader]

theorem all_pts (cd : Codec C) (vs : List (C × C × C)) : (flatPts cd vs).all (fun t => !isHeader t) = true := by
  simp [flatPts, List.all_flatten, List.all_map, coordLine, num, isHeader]

theorem all_edges (es : List (Nat × Nat)) :
    ((es.map (fun e => [idx0 e.1, idx0 e.2])).flatten).all (fun t => !isHeader t) = true := by
  simp [List.all_flatten, List.all_map, idx0, isHeader]

set_option maxHeartbeats 4000000 in
theorem wf_export (cd : Codec C) (g : GMesh C) (h : g.attrs.all fileSafe = true) :
    (exportChunks cd g).all wfChunk = true := by
  have u := fun k => wf_user g.attrs k h
  by_cases he : g.raw.edges = [] <;> by_cases hf : g.raw.faces = [] <;> by_cases hc : g.raw.cells = [] <;>
    by_cases ht : (g.raw.faces.all (fun f => f.length == 3)) = true <;>
    by_cases hq : (g.raw.cells.all (fun c => c.length == 4)) = true <;>
    simp [exportChunks, List.all_append, List.all_cons, wfChunk, okStr, Cont.name, facetPtrName, cellPtrName, he, hf, hc, ht, hq,
      u, all_idx0, all_pts, all_edges, isHeader_idx0, -List.map_flatten]

/-- FILE level: tokens written by the exporter → parsed into chunks → imported -/
theorem importGeo_exportGeo (cd : Codec C) (h : RoundTrips cd) (g : GMesh C)
    (hg : ∀ a ∈ g.attrs, GoodAttr cd a) (hs : g.attrs.all fileSafe = true) :
    importGeo cd (exportGeo cd g) = some (expectedGA g) := by
  unfold importGeo exportGeo
  rw [parseFile_print _ (wf_export cd g hs)]
  exact importChunks_exportChunks_attrs cd h g hg

end Mouette.IO.Geo
