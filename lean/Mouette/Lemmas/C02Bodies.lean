import Mouette.Generated.C02Bodies
import Mouette.Lemmas.C02Prepare
import Mouette.Lemmas.C02Steps
import Mouette.Lemmas.C02StepsLemmas
import Mouette.Model.IO
/-
Fold lemmas behind the bridges `Generated.C02B.f = Prepare.f` (Props/C02Source.lean): what the loops of the translated
bodies compute, by induction over the iterated container. The lemmas about the Generated step functions are stated
through hand-written step functions (`faceStep`, `edgeStep`, …) so that a harmless respelling of the source only has
to re-prove the one-line `…_step` equalities. Core Lean only.
-/
set_option linter.unusedSimpArgs false
set_option linter.unusedVariables false
namespace Mouette.C02Src
open Mouette.Prepare Mouette.PrepSrc

/-! ### generic -/

theorem foldl_flatMap' {α β σ : Type} (f : σ → β → σ) (g : α → List β) (step : σ → α → σ)
    (h : ∀ a x, step a x = (g x).foldl f a) (l : List α) (a : σ) :
    l.foldl step a = (l.flatMap g).foldl f a := by
  induction l generalizing a with
  | nil => rfl
  | cons x xs ih => rw [List.foldl_cons, List.flatMap_cons, List.foldl_append, h, ih]

theorem foldl_congr' {α σ : Type} (f g : σ → α → σ) (h : ∀ a x, f a x = g a x) (l : List α) (a : σ) :
    l.foldl f a = l.foldl g a := by
  induction l generalizing a with
  | nil => rfl
  | cons x xs ih => rw [List.foldl_cons, List.foldl_cons, h, ih]

/-- a loop that never changes the first component of its state -/
theorem foldl_fst_const {σ τ α : Type} (step : σ × τ → α → σ × τ) (g : τ → α → τ) (s : σ)
    (h : ∀ t x, step (s, t) x = (s, g t x)) (l : List α) (t : τ) : l.foldl step (s, t) = (s, l.foldl g t) := by
  induction l generalizing t with
  | nil => rfl
  | cons x xs ih => rw [List.foldl_cons, List.foldl_cons, h, ih]

/-! ### faces from cells -/

/-- one iteration of `for face in faces_C` -/
def faceStep (x : Raw × List (List Nat)) (c : List Nat) : Raw × List (List Nat) :=
  if keyF c ∈ x.2 then x else (facesAppend x.1 c, keyF c :: x.2)

theorem faceStep_fold (cands : List (List Nat)) (s : Raw) (st : List (List Nat))
    (h : ∀ k, k ∈ st ↔ k ∈ s.faces.map keyF) :
    (cands.foldl faceStep (s, st)).1 = { s with faces := completeBy keyF s.faces cands } := by
  induction cands generalizing s st with
  | nil => rfl
  | cons c cs ih =>
    rw [List.foldl_cons]
    by_cases hc : keyF c ∈ s.faces.map keyF
    · have h1 : faceStep (s, st) c = (s, st) := by
        unfold faceStep; rw [if_pos ((h _).mpr hc)]
      rw [h1, ih s st h]
      simp only [completeBy, if_pos hc]
    · have h1 : faceStep (s, st) c = (facesAppend s c, keyF c :: st) := by
        unfold faceStep; rw [if_neg (fun hh => hc ((h _).mp hh))]
      rw [h1, ih (facesAppend s c) (keyF c :: st)]
      · simp only [completeBy, if_neg hc]; rfl
      · intro k
        simp only [facesAppend, List.map_append, List.mem_append, List.mem_cons, List.map_cons, List.map_nil,
          List.not_mem_nil, or_false, h k]
        constructor
        · rintro (h1 | h1)
          · exact Or.inr h1
          · exact Or.inl h1
        · rintro (h1 | h1)
          · exact Or.inr h1
          · exact Or.inl h1

/-! ### edges from faces -/

/-- the record after `l` was appended to the edge container through `DataContainer.append` -/
def appendEdges (s : Raw) (l : List (Int × Int)) : Raw :=
  { s with edges := s.edges ++ l, eattrs := s.eattrs.map (expandAttr l.length) }

theorem expandAttr_succ (k : Nat) (a : Attr) : expandAttr 1 (expandAttr k a) = expandAttr (k + 1) a := by
  obtain ⟨name, dflt, st⟩ := a
  cases st with
  | sparse d => rfl
  | dense v =>
    simp [expandAttr, List.replicate_succ', List.append_assoc]

theorem appendEdges_nil (s : Raw) : appendEdges s [] = s := by
  have : s.eattrs.map (expandAttr 0) = s.eattrs := by
    rw [List.map_congr_left (g := id)]
    · simp
    · intro a _
      obtain ⟨name, dflt, st⟩ := a
      cases st <;> simp [expandAttr]
  unfold appendEdges
  simp only [List.append_nil, List.length_nil, this]

theorem edgesAppend_appendEdges (s : Raw) (l : List (Int × Int)) (e : Int × Int) :
    edgesAppend (appendEdges s l) e = appendEdges s (l ++ [e]) := by
  unfold edgesAppend appendEdges
  simp only [List.append_assoc, List.map_map, List.length_append, List.length_cons, List.length_nil]
  congr 1
  apply List.map_congr_left
  intro a _
  exact expandAttr_succ l.length a

/-- one iteration of `for i in range(nf)`: the side `e` (already a key) is skipped when it is not an edge, stored when
its key is new -/
def edgeStep (n : Nat) (x : Raw × List (Int × Int)) (e : Int × Int) : Raw × List (Int × Int) :=
  if validE n e then (if e ∈ x.2 then x else (edgesAppend x.1 e, e :: x.2)) else x

theorem edgeStep_fold (n : Nat) (cands : List (Int × Int)) (hk : ∀ c ∈ cands, keyE c = c)
    (s : Raw) (l : List (Int × Int)) (st : List (Int × Int))
    (h : ∀ k, k ∈ st ↔ k ∈ (s.edges ++ l).map keyE) :
    ∃ l', (cands.foldl (edgeStep n) (appendEdges s l, st)).1 = appendEdges s l' ∧
      s.edges ++ l' = completeBy keyE (s.edges ++ l) (cands.filter (validE n)) := by
  induction cands generalizing l st with
  | nil => exact ⟨l, rfl, rfl⟩
  | cons c cs ih =>
    have hkc : keyE c = c := hk c (by simp)
    have hk' : ∀ c ∈ cs, keyE c = c := fun x hx => hk x (by simp [hx])
    rw [List.foldl_cons]
    by_cases hv : validE n c = true
    · rw [List.filter_cons_of_pos hv]
      by_cases hc : c ∈ (s.edges ++ l).map keyE
      · have h1 : edgeStep n (appendEdges s l, st) c = (appendEdges s l, st) := by
          unfold edgeStep; rw [if_pos hv, if_pos ((h _).mpr hc)]
        rw [h1]
        obtain ⟨l', e1, e2⟩ := ih hk' l st h
        refine ⟨l', e1, ?_⟩
        rw [e2]; simp only [completeBy, hkc, if_pos hc]
      · have h1 : edgeStep n (appendEdges s l, st) c = (appendEdges s (l ++ [c]), c :: st) := by
          unfold edgeStep
          rw [if_pos hv, if_neg (fun hh => hc ((h _).mp hh)), edgesAppend_appendEdges]
        rw [h1]
        obtain ⟨l', e1, e2⟩ := ih hk' (l ++ [c]) (c :: st) (by
          intro k
          have := h k
          simp only [List.map_append, List.mem_append] at this
          simp only [List.map_append, List.mem_append, List.mem_cons, List.map_cons, List.map_nil,
            List.not_mem_nil, or_false, hkc, this]
          grind)
        refine ⟨l', e1, ?_⟩
        rw [e2]; simp only [completeBy, hkc, if_neg hc, List.append_assoc]
    · have hv' : validE n c = false := by simpa using hv
      rw [List.filter_cons_of_neg (by simp [hv'])]
      have h1 : edgeStep n (appendEdges s l, st) c = (appendEdges s l, st) := by
        unfold edgeStep; rw [if_neg hv]
      rw [h1]
      exact ih hk' l st h

theorem sideAt_key (f : List Nat) (i : Nat) : keyE (sideAt f i) = sideAt f i := by
  unfold sideAt; exact keyE_idem _

theorem faceSides_keys (faces : List (List Nat)) : ∀ c ∈ faces.flatMap faceSides, keyE c = c := by
  intro c hc
  obtain ⟨f, _, hf⟩ := List.mem_flatMap.mp hc
  obtain ⟨i, _, rfl⟩ := List.mem_map.mp hf
  exact sideAt_key f i

/-- the skip test of the completion loop, as a statement about any spelling `t` of it -/
theorem skip_spec (n : Nat) (e : Int × Int) (h : e.1 ≤ e.2) :
    (decide (e.1 = e.2) || !(decide ((0 : Int) ≤ e.1) && decide (e.2 < (n : Int)))) = !validE n e := by
  rw [Bool.eq_iff_iff]
  simp only [validE, Bool.or_eq_true, Bool.and_eq_true, Bool.not_eq_true', decide_eq_true_eq, bne_iff_ne, ne_eq,
    Bool.and_eq_false_iff, decide_eq_false_iff_not, bne_eq_false_iff_eq]
  omega

theorem sideAt_le (f : List Nat) (i : Nat) : (sideAt f i).1 ≤ (sideAt f i).2 := by
  unfold sideAt keyE; simp only; omega

/-! ### the hard_edges flags -/

def flagsUpTo (name : String) (m : Nat) : Attr :=
  { name := name, dflt := 0, st := .sparse ((List.range m).map (fun i => (i, (1 : Int)))) }

theorem filter_flags (m : Nat) :
    ((List.range m).map (fun i => (i, (1 : Int)))).filter (fun p => p.1 != m) = (List.range m).map (fun i => (i, (1 : Int))) := by
  rw [List.filter_eq_self]
  intro p hp
  obtain ⟨i, hi, rfl⟩ := List.mem_map.mp hp
  have : i < m := List.mem_range.mp hi
  simp only [bne_iff_ne, ne_eq]; omega

theorem attrSetOne_other (name : String) (k : Nat) (v : Int) (as : List Attr) (h : hasAttr as name = false) :
    as.map (attrSetOne name k v) = as := by
  rw [List.map_congr_left (g := id)]
  · simp
  · intro a ha
    unfold hasAttr at h
    have := List.any_eq_false.mp h a ha
    unfold attrSetOne
    simp only [id]
    rw [if_neg this]

theorem flag_fold (name : String) (s : Raw) (step : Raw → Nat → Raw)
    (hstep : ∀ x i, step x i = attrSet x name i 1) (h : hasAttr s.eattrs name = false) (m : Nat) :
    (List.range m).foldl step (createFlagAttr s name) = { s with eattrs := s.eattrs ++ [flagsUpTo name m] } := by
  induction m with
  | zero => rfl
  | succ m ih =>
    rw [List.range_succ, List.foldl_append, ih, List.foldl_cons, List.foldl_nil, hstep]
    unfold attrSet
    simp only [List.map_append, List.map_cons, List.map_nil, attrSetOne_other name m 1 s.eattrs h]
    have : attrSetOne name m 1 (flagsUpTo name m) = flagsUpTo name (m + 1) := by
      unfold attrSetOne flagsUpTo sparseSet
      simp only [beq_self_eq_true, if_true, filter_flags, List.range_succ, List.map_append, List.map_cons, List.map_nil]
    rw [this]

/-! ### vertices -/

theorem foldl_range_set {α : Type} (f : α → α) (d : α) (step : List α → Nat → List α)
    (hstep : ∀ l i, step l i = l.set i (f (l.getD i d))) (l : List α) (n : Nat) (hn : n ≤ l.length) :
    (List.range n).foldl step l = (l.take n).map f ++ l.drop n := by
  induction n with
  | zero => simp
  | succ n ih =>
    have hlt : n < l.length := by omega
    rw [List.range_succ, List.foldl_append, ih (by omega), List.foldl_cons, List.foldl_nil, hstep]
    have hlen : ((l.take n).map f).length = n := by simp; omega
    have hget : ((l.take n).map f ++ l.drop n).getD n d = l[n] := by
      rw [List.getD_eq_getElem?_getD, List.getElem?_append_right (by omega), hlen]
      simp [List.getElem?_drop, List.getElem?_eq_getElem hlt]
    rw [hget, List.set_append_right _ _ (by omega), hlen, Nat.sub_self]
    rw [List.drop_eq_getElem_cons hlt, List.set_cons_zero, List.take_succ_eq_append_getElem hlt]
    have hlt' : n < (l.map f).length := by simpa using hlt
    simp only [List.map_append, List.map_cons, List.map_nil, List.append_assoc, List.cons_append, List.nil_append]

theorem set_getD_self {α : Type} (l : List α) (i : Nat) (d : α) : l.set i (l.getD i d) = l := by
  induction l generalizing i with
  | nil => rfl
  | cons x xs ih =>
    cases i with
    | zero => rfl
    | succ i => simp only [List.set_cons_succ, List.getD_cons_succ, ih]

/-- a loop `for i in range(n)` that only rewrites one list-valued field of the state, as a loop over that list -/
theorem foldl_range_field {σ α : Type} (get : σ → List α) (put : σ → List α → σ)
    (hput : ∀ s l l', put (put s l) l' = put s l') (hget : ∀ s l, get (put s l) = l) (hid : ∀ s, put s (get s) = s)
    (step : σ → Nat → σ) (g : List α → Nat → List α) (hstep : ∀ s i, step s i = put s (g (get s) i)) (n : Nat) (s : σ) :
    (List.range n).foldl step s = put s ((List.range n).foldl g (get s)) := by
  induction n with
  | zero => simp [hid]
  | succ n ih =>
    rw [List.range_succ, List.foldl_append, List.foldl_append, ih, List.foldl_cons, List.foldl_nil, List.foldl_cons,
      List.foldl_nil, hstep, hput, hget]

/-! ### corner records -/

theorem owners_enum_fold (step : Raw → Nat × List Nat → Raw)
    (put : Raw → List Nat → List Nat → Raw) (el ad : Raw → List Nat)
    (hel : ∀ s a b, el (put s a b) = a) (had : ∀ s a b, ad (put s a b) = b) (hput : ∀ s a b a' b', put (put s a b) a' b' = put s a' b')
    (hstep : ∀ s a b i row, step (put s a b) (i, row) = put s (a ++ row) (b ++ List.replicate row.length i))
    (rows : List (List Nat)) (i : Nat) (s : Raw) (a b : List Nat) :
    (enumFrom i rows).foldl step (put s a b) = put s (a ++ rows.flatten) (b ++ ownersFrom rows i) := by
  induction rows generalizing i a b with
  | nil => simp [enumFrom, ownersFrom]
  | cons row rows ih =>
    simp only [enumFrom, List.foldl_cons, hstep, ih, List.flatten_cons, ownersFrom, List.append_assoc]

/-! ### cell-face records -/

/-- the dict `face_id` after the first loop: one binding per stored face, the most recent first -/
def faceDictOf (i : Nat) (rows : List (List Nat)) (d : FaceDict) : FaceDict :=
  ((enumFrom i rows).map (fun p => (keyF p.2, p.1))).reverse ++ d

theorem faceDict_fold (step : Raw × FaceDict → Nat × List Nat → Raw × FaceDict)
    (hstep : ∀ s d i row, step (s, d) (i, row) = (s, dictSet d (keyF row) i))
    (rows : List (List Nat)) (i : Nat) (s : Raw) (d : FaceDict) :
    (enumFrom i rows).foldl step (s, d) = (s, faceDictOf i rows d) := by
  induction rows generalizing i d with
  | nil => simp [enumFrom, faceDictOf]
  | cons row rows ih =>
    simp only [enumFrom, List.foldl_cons, hstep, ih, faceDictOf, List.map_cons, List.reverse_cons, dictSet,
      List.append_assoc, List.cons_append, List.nil_append]

/-- `face_id.get(key)` is the LAST stored face with that key (`face_id[key] = iF` overwrites) -/
theorem faceDict_get (k : List Nat) (rows : List (List Nat)) (i : Nat) (d : FaceDict) :
    dictGet (faceDictOf i rows d) k = (match lastIdx k (rows.map keyF) i with | some j => some j | none => dictGet d k) := by
  induction rows generalizing i d with
  | nil => simp [faceDictOf, enumFrom, lastIdx]
  | cons row rows ih =>
    have e : faceDictOf i (row :: rows) d = faceDictOf (i + 1) rows ((keyF row, i) :: d) := by
      simp [faceDictOf, enumFrom]
    rw [e, ih]
    simp only [List.map_cons, lastIdx]
    cases lastIdx k (rows.map keyF) (i + 1) with
    | some j => rfl
    | none =>
      simp only [dictGet, List.lookup]
      by_cases hk : keyF row = k
      · subst hk; simp
      · have : (k == keyF row) = false := by
          simp only [beq_eq_false_iff_ne, ne_eq]; exact fun h => hk h.symm
        simp [this, hk]

/-- one cell: the records of its faces, in table order, faces that are not stored skipped -/
theorem cellFaces_inner (d : FaceDict) (keys : List (List Nat)) (hd : ∀ k, dictGet d k = lastIdx k keys 0)
    (ic : Nat) (step : Raw → List Nat → Raw)
    (hstep : ∀ s f, step s f = match dictGet d (keyF f) with
      | none => s
      | some j => { s with cfElem := s.cfElem ++ [j], cfAdj := s.cfAdj ++ [ic] })
    (fs : List (List Nat)) (s : Raw) :
    fs.foldl step s = { s with cfElem := s.cfElem ++ idsOf keys fs,
                               cfAdj := s.cfAdj ++ List.replicate (idsOf keys fs).length ic } := by
  induction fs generalizing s with
  | nil => simp [idsOf]
  | cons f fs ih =>
    rw [List.foldl_cons, hstep, hd]
    unfold idsOf at ih ⊢
    cases h : lastIdx (keyF f) keys 0 with
    | none => simp only [List.filterMap_cons, h]; exact ih s
    | some j =>
      simp only [List.filterMap_cons, h, ih, List.append_assoc, List.cons_append, List.nil_append,
        List.length_cons, List.replicate_succ]

theorem cellFaces_outer (keys : List (List Nat)) (step : Raw → Nat × List Nat → Raw)
    (hstep : ∀ s i c fs, cellFacesG c = some fs → step s (i, c) =
      { s with cfElem := s.cfElem ++ idsOf keys fs, cfAdj := s.cfAdj ++ List.replicate (idsOf keys fs).length i })
    (cells : List (List Nat)) (idss : List (List Nat)) (h : cellFaceIds keys cells = .ok idss) (i : Nat) (s : Raw) :
    (enumFrom i cells).foldl step s = { s with cfElem := s.cfElem ++ idss.flatten, cfAdj := s.cfAdj ++ ownersFrom idss i } := by
  induction cells generalizing idss i s with
  | nil =>
    simp only [cellFaceIds] at h
    cases h
    simp [enumFrom, ownersFrom]
  | cons c cs ih =>
    unfold cellFaceIds at h
    cases hg : cellFacesG c with
    | none => simp [hg] at h
    | some fs =>
      simp only [hg] at h
      cases hr : cellFaceIds keys cs with
      | error e => simp [hr] at h
      | ok l =>
        simp only [hr] at h
        cases h
        simp only [enumFrom, List.foldl_cons, hstep _ _ _ _ hg, ih l hr, List.flatten_cons, ownersFrom,
          List.append_assoc]

/-! ### the rebuild of the edge container (`_prepare_edges`) -/

/-- attribute names are unique (they are the keys of the dict `_attr`) -/
def UniqueNames (as : List Attr) : Prop := (as.map (·.name)).Nodup

theorem findAttr_of_mem (as : List Attr) (h : UniqueNames as) (a : Attr) (ha : a ∈ as) : findAttr as a.name = some a := by
  induction as with
  | nil => cases ha
  | cons b bs ih =>
    unfold UniqueNames at h
    simp only [List.map_cons, List.nodup_cons] at h
    unfold findAttr
    simp only [List.find?_cons]
    rcases List.mem_cons.mp ha with rfl | ha'
    · simp
    · have hne : (b.name == a.name) = false := by
        simp only [beq_eq_false_iff_ne, ne_eq]
        intro e
        exact h.1 (e ▸ List.mem_map.mpr ⟨a, ha', rfl⟩)
      rw [hne]
      exact ih h.2 ha'

/-- the attribute `create_attribute` makes on the EMPTY new container from an old attribute -/
def emptyLike (a : Attr) : Attr :=
  { name := a.name, dflt := a.dflt, st := match a.st with | .dense _ => .dense [] | .sparse _ => .sparse [] }

/-- one iteration of `for attr_name in self.edges.attributes`: the TRANSLATED `create_attribute` on the new container -/
def createStep (as : List Attr) (c : ECont) (k : String) : ECont :=
  Generated.C02B.dcCreateAttribute c k (attrIsDense as k) (some (attrDflt as k)) none

theorem attrDictSet_fresh (l : List Attr) (n : String) (a : Attr) (h : hasAttr l n = false) : attrDictSet l n a = l ++ [a] := by
  unfold attrDictSet; rw [h]; rfl

theorem hasAttr_map_emptyLike (l : List Attr) (n : String) : hasAttr (l.map emptyLike) n = hasAttr l n := by
  unfold hasAttr; simp [List.any_map, Function.comp_def, emptyLike]

theorem hasAttr_false_of_not_mem (l : List Attr) (n : String) (h : n ∉ l.map (·.name)) : hasAttr l n = false := by
  unfold hasAttr
  rw [List.any_eq_false]
  intro a ha hh
  exact h (List.mem_map.mpr ⟨a, ha, by simpa using hh⟩)

theorem createStep_mem (as : List Attr) (h : UniqueNames as) (a : Attr) (ha : a ∈ as) (l : List Attr)
    (hl : hasAttr l a.name = false) : createStep as ([], l) a.name = ([], l ++ [emptyLike a]) := by
  unfold createStep Generated.C02B.dcCreateAttribute attrIsDense attrDflt emptyLike
  rw [findAttr_of_mem as h a ha]
  cases hst : a.st <;> simp [hst, attrDictSet_fresh _ _ _ hl]

theorem create_fold (as : List Attr) (h : UniqueNames as) (pre suf : List Attr) (hsplit : as = pre ++ suf) :
    (suf.map (·.name)).foldl (createStep as) ([], pre.map emptyLike) = ([], as.map emptyLike) := by
  induction suf generalizing pre with
  | nil => simp [hsplit]
  | cons a rest ih =>
    simp only [List.map_cons, List.foldl_cons]
    have ha : a ∈ as := by rw [hsplit]; simp
    have hfresh : hasAttr (pre.map emptyLike) a.name = false := by
      rw [hasAttr_map_emptyLike]
      apply hasAttr_false_of_not_mem
      unfold UniqueNames at h
      rw [hsplit, List.map_append, List.map_cons] at h
      have := (List.nodup_append.mp h).2.2
      intro hm
      exact this _ hm _ (by simp) rfl
    rw [createStep_mem as h a ha _ hfresh]
    have := ih (pre ++ [a]) (by rw [hsplit]; simp)
    simpa using this

/-- one pass `for name in new_attrs` after edge `i` was kept as the `n`-th edge -/
def copyStep (as : List Attr) (n i : Nat) (c : ECont) (k : String) : ECont :=
  if attrIsDense as k || attrHas as k i then econtAttrSet c k n (attrRead as k i) else c

def copyOne (as : List Attr) (n i : Nat) (k : String) (b : Attr) : Attr :=
  if attrIsDense as k || attrHas as k i then attrSetOne k n (attrRead as k i) b else b

theorem copyStep_eq (as : List Attr) (n i : Nat) (c : ECont) (k : String) :
    copyStep as n i c k = (c.1, c.2.map (copyOne as n i k)) := by
  unfold copyStep copyOne econtAttrSet
  split
  · rfl
  · simp

theorem copy_fold_map (as : List Attr) (n i : Nat) (ks : List String) (c : ECont) :
    ks.foldl (copyStep as n i) c = (c.1, c.2.map (fun b => ks.foldl (fun b k => copyOne as n i k b) b)) := by
  induction ks generalizing c with
  | nil => simp
  | cons k ks ih =>
    rw [List.foldl_cons, copyStep_eq, ih]
    simp [List.map_map, Function.comp_def]

theorem attrSetOne_name (k : String) (n : Nat) (v : Int) (b : Attr) : (attrSetOne k n v b).name = b.name := by
  unfold attrSetOne
  split
  · cases b.st <;> rfl
  · rfl

theorem copyOne_name (as : List Attr) (n i : Nat) (k : String) (b : Attr) : (copyOne as n i k b).name = b.name := by
  unfold copyOne; split
  · exact attrSetOne_name _ _ _ _
  · rfl

theorem copyOne_other (as : List Attr) (n i : Nat) (k : String) (b : Attr) (h : (b.name == k) = false) :
    copyOne as n i k b = b := by
  unfold copyOne attrSetOne
  split
  · rw [if_neg (by simp [h])]
  · rfl

/-- over a duplicate-free list of names, an attribute is touched exactly by the pass of its own name -/
theorem copy_pointwise (as : List Attr) (n i : Nat) (ks : List String) (hk : ks.Nodup) (b : Attr) :
    ks.foldl (fun b k => copyOne as n i k b) b = if b.name ∈ ks then copyOne as n i b.name b else b := by
  induction ks generalizing b with
  | nil => simp
  | cons k ks ih =>
    simp only [List.nodup_cons] at hk
    rw [List.foldl_cons, ih hk.2, copyOne_name]
    by_cases e : b.name = k
    · subst e
      simp [hk.1]
    · have hne : (b.name == k) = false := by simpa using e
      rw [copyOne_other as n i k b hne]
      simp [e]

/-- what the pass writes into the attribute made from `a`: the value edge `i` reads, at slot `n` -/
def copied (n i : Nat) (a : Attr) (b : Attr) : Attr :=
  if (match a.st with | .dense _ => true | .sparse _ => false) || a.hasKey i then attrSetOne a.name n (a.read i) b else b

theorem copy_names_fold (as : List Attr) (h : UniqueNames as) (n i : Nat) (g : Attr → Attr) (hg : ∀ a, (g a).name = a.name)
    (es : List (Int × Int)) :
    (as.map (·.name)).foldl (copyStep as n i) (es, as.map g) = (es, as.map (fun a => copied n i a (g a))) := by
  rw [copy_fold_map]
  simp only [List.map_map]
  congr 1
  apply List.map_congr_left
  intro a ha
  simp only [Function.comp]
  rw [copy_pointwise as n i _ h, hg a, if_pos (List.mem_map.mpr ⟨a, ha, rfl⟩)]
  unfold copyOne copied attrIsDense attrHas attrRead
  rw [findAttr_of_mem as h a ha]
  rfl

theorem reindexSparse_append (d : List (Nat × Int)) (surv : List Nat) (i k0 : Nat) :
    reindexSparse d (surv ++ [i]) k0 = reindexSparse d surv k0 ++
      (match lookup d i with | some v => [(k0 + surv.length, v)] | none => []) := by
  induction surv generalizing k0 with
  | nil => simp only [List.nil_append, reindexSparse, List.length_nil, Nat.add_zero]; cases lookup d i <;> rfl
  | cons j rest ih =>
    simp only [List.cons_append, reindexSparse, List.length_cons, ih (k0 + 1)]
    have e : k0 + 1 + rest.length = k0 + (rest.length + 1) := by omega
    cases lookup d j <;> simp [e]

theorem reindexSparse_keys (d : List (Nat × Int)) (surv : List Nat) (k0 : Nat) :
    ∀ p ∈ reindexSparse d surv k0, p.1 < k0 + surv.length := by
  induction surv generalizing k0 with
  | nil => simp [reindexSparse]
  | cons j rest ih =>
    intro p hp
    simp only [reindexSparse] at hp
    cases hl : lookup d j with
    | none =>
      rw [hl] at hp
      have := ih (k0 + 1) p hp
      simp only [List.length_cons]; omega
    | some v =>
      rw [hl] at hp
      rcases List.mem_cons.mp hp with rfl | hp'
      · simp only [List.length_cons]; omega
      · have := ih (k0 + 1) p hp'
        simp only [List.length_cons]; omega

/-- the step of the re-indexing: keeping edge `i` as the next edge extends every attribute by what edge `i` read -/
theorem copied_reindex (surv : List Nat) (i : Nat) (a : Attr) :
    copied surv.length i a (expandAttr 1 (reindexAttr surv a)) = reindexAttr (surv ++ [i]) a := by
  obtain ⟨name, dflt, st⟩ := a
  cases st with
  | dense vals =>
    simp only [copied, Bool.true_or, if_true, reindexAttr, expandAttr, attrSetOne, beq_self_eq_true, Attr.read,
      List.map_append, List.map_cons, List.map_nil]
    congr 2
    rw [List.set_append_right _ _ (by simp)]
    simp
  | sparse d =>
    simp only [copied, Bool.false_or, reindexAttr, expandAttr, Attr.hasKey, Attr.read, reindexSparse_append, Nat.zero_add]
    cases hl : lookup d i with
    | none => simp
    | some v =>
      simp only [Option.isSome_some, if_true, attrSetOne, beq_self_eq_true, sparseSet, Option.getD_some]
      congr 2
      rw [List.filter_eq_self.mpr]
      intro p hp
      have := reindexSparse_keys d surv 0 p hp
      simp only [bne_iff_ne, ne_eq]; omega

/-- one iteration of `for ie in self.id_edges` of the rebuild -/
def rebuildStep (N : Nat) (as : List Attr) (E : List (Int × Int)) (x : ECont × Nat) (i : Nat) : ECont × Nat :=
  if validE N (E.getD i (0, 0)) then
    ((as.map (·.name)).foldl (copyStep as x.2 i) (x.1.1 ++ [keyE (E.getD i (0, 0))], x.1.2.map (expandAttr 1)), x.2 + 1)
  else x

theorem rebuild_fold (N : Nat) (as : List Attr) (h : UniqueNames as) (E : List (Int × Int)) (m : Nat) (hm : m ≤ E.length) :
    (List.range m).foldl (rebuildStep N as E) (([], as.map emptyLike), 0) =
      ((((E.take m).filter (validE N)).map keyE, as.map (reindexAttr (survIdx N (E.take m) 0))),
        (survIdx N (E.take m) 0).length) := by
  induction m with
  | zero =>
    simp only [List.range_zero, List.foldl_nil, List.take_zero, List.filter_nil, List.map_nil, survIdx, List.length_nil]
    congr 2
    apply List.map_congr_left
    intro a _
    obtain ⟨name, dflt, st⟩ := a
    cases st <;> simp [emptyLike, reindexAttr, reindexSparse]
  | succ m ih =>
    have hlt : m < E.length := by omega
    rw [List.range_succ, List.foldl_append, ih (by omega), List.foldl_cons, List.foldl_nil]
    have hget : E.getD m (0, 0) = E[m] := by
      rw [List.getD_eq_getElem?_getD, List.getElem?_eq_getElem hlt]; rfl
    have htake : E.take (m + 1) = E.take m ++ [E[m]] := List.take_succ_eq_append_getElem hlt
    have hlen : (E.take m).length = m := by simp; omega
    have hsurv : survIdx N (E.take (m + 1)) 0 = survIdx N (E.take m) 0 ++ (if validE N E[m] then [m] else []) := by
      rw [htake, survIdx_append]
      simp only [survIdx, Nat.zero_add, hlen]
      first | done | (split <;> rfl)
    have hfilt : (E.take (m + 1)).filter (validE N) = (E.take m).filter (validE N) ++ (if validE N E[m] then [E[m]] else []) := by
      rw [htake, List.filter_append]
      by_cases hv : validE N E[m] = true <;> simp [hv]
    unfold rebuildStep
    rw [hget]
    by_cases hv : validE N E[m] = true
    · rw [if_pos hv]
      simp only []
      have := copy_names_fold as h (survIdx N (E.take m) 0).length m
        (fun a => expandAttr 1 (reindexAttr (survIdx N (E.take m) 0) a))
        (fun a => by rw [expandAttr_name, reindexAttr_name])
        (List.map keyE (List.filter (validE N) (List.take m E)) ++ [keyE E[m]])
      rw [List.map_map]
      simp only [Function.comp_def] at this ⊢
      rw [this, hsurv, hfilt, if_pos hv, if_pos hv]
      simp only [List.map_append, List.map_cons, List.map_nil, List.length_append, List.length_cons, List.length_nil]
      congr 2
      apply List.map_congr_left
      intro a _
      exact copied_reindex _ m a
    · rw [if_neg hv, hsurv, hfilt, if_neg hv, if_neg hv]
      simp

/-- non-vacuity input for the rebuild: a reversed edge, a self-loop, a reversed edge, an out-of-range edge; a dense and a
sparse attribute -/
def demoEdges : Raw :=
  { verts := [[0], [0], [0]]
    edges := [(1, 0), (2, 2), (2, 1), (0, 7)]
    eattrs := [⟨"w", 0, .dense [10, 11, 12, 13]⟩, ⟨"s", 5, .sparse [(2, 7), (3, 9)]⟩] }

/-! ### prepare() run on the translated bodies -/

/-- one step of `prepare()`, executed by the TRANSLATED body of that step (`Generated.C02B`); `_prepare_faces` / `_prepare_cells` only change the Python type of rows, `_compute_dimensionality` refreshes a cache.
Vertex rows are lifted to float rows for `_prepare_vertices` (its coordinates do not depend on the dtype kind). -/
def runStepSrc : Step → Raw → Raw
  | .completeFaces, r => Generated.C02B.completeFaces r
  | .completeEdges, r => Generated.C02B.completeEdges r
  | .prepareVertices, r =>
    { r with verts := (Generated.C02B.prepareVertices ⟨r.verts.map (fun xs => ⟨'f', xs⟩)⟩).verts.map (·.xs) }
  | .prepareEdges, r => Generated.C02B.prepareEdges r
  | .prepareFaces, r => r
  | .genFaceCorners, r => Generated.C02B.genFaceCorners r
  | .prepareCells, r => r
  | .genCellCorners, r => Generated.C02B.genCellCorners r
  | .genCellFaces, r => Generated.C02B.genCellFaces r
  | .computeDim, r => r
  | .setPrepared, r => { r with prepared := true }

def runStepsSrc (cfg : Cfg) : List (Guard × Step) → Raw → Raw
  | [], r => r
  | (g, s) :: rest, r => if guardHolds cfg g then runStepsSrc cfg rest (runStepSrc s r) else runStepsSrc cfg rest r

/-- `prepare()` as the source spells it: the translated step program run on the translated bodies -/
def prepareSrc (cfg : Cfg) (p : PrepareProgram) (r : Raw) : Raw :=
  if p.guardFirst && r.prepared then r else runStepsSrc cfg p.steps r

theorem runSteps_src (cfg : Cfg) (Inv : Raw → Prop)
    (hstep : ∀ s r r', Inv r → runStep s r = .ok r' → runStepSrc s r = r' ∧ Inv r')
    (steps : List (Guard × Step)) (r p : Raw) (hr : Inv r) (h : runSteps cfg steps r = .ok p) :
    runStepsSrc cfg steps r = p := by
  induction steps generalizing r with
  | nil => simp only [runSteps] at h; cases h; rfl
  | cons gs rest ih =>
    obtain ⟨g, s⟩ := gs
    simp only [runSteps, runStepsSrc] at h ⊢
    by_cases hg : guardHolds cfg g = true
    · rw [if_pos hg] at h ⊢
      cases hs : runStep s r with
      | error e => simp [hs] at h
      | ok r' =>
        simp only [hs] at h
        obtain ⟨e1, e2⟩ := hstep s r r' hr hs
        rw [e1]
        exact ih r' e2 h
    · rw [if_neg hg] at h ⊢
      exact ih r hr h

/-! ### attribute names stay unique through the model's steps -/

theorem uniqueNames_map (as : List Attr) (f : Attr → Attr) (hf : ∀ a, (f a).name = a.name) (h : UniqueNames as) :
    UniqueNames (as.map f) := by
  unfold UniqueNames at h ⊢
  rw [List.map_map]
  have : ((fun x => x.name) ∘ f) = (fun x => x.name) := by funext a; exact hf a
  rw [this]; exact h

theorem uniqueNames_completeEdges (r : Raw) (h : UniqueNames r.eattrs) : UniqueNames (completeEdges r).eattrs := by
  unfold completeEdges
  split
  · exact h
  · simp only
    apply uniqueNames_map _ _ (fun a => expandAttr_name _ a)
    split
    · exact h
    · rename_i hh
      unfold UniqueNames at h ⊢
      rw [List.map_append, List.nodup_append]
      refine ⟨h, by simp, ?_⟩
      intro x hx y hy
      simp only [List.map_cons, List.map_nil, List.mem_singleton] at hy
      subst hy
      intro e
      subst e
      apply hh
      obtain ⟨a, ha, e⟩ := List.mem_map.mp hx
      unfold hasAttr
      exact List.any_eq_true.mpr ⟨a, ha, by simp [e, hardAttr]⟩

theorem uniqueNames_prepareEdges (r : Raw) (h : UniqueNames r.eattrs) : UniqueNames (prepareEdges r).eattrs := by
  unfold prepareEdges
  split
  · exact uniqueNames_map _ _ (fun a => reindexAttr_name _ a) h
  · exact h

theorem uniqueNames_step (s : Step) (r r' : Raw) (h : UniqueNames r.eattrs) (hs : runStep s r = .ok r') :
    UniqueNames r'.eattrs := by
  cases s <;> simp only [runStep] at hs
  case completeFaces => cases hs; unfold completeFaces; split <;> exact h
  case completeEdges => cases hs; exact uniqueNames_completeEdges r h
  case prepareVertices => cases hs; exact h
  case prepareEdges => cases hs; exact uniqueNames_prepareEdges r h
  case prepareFaces => cases hs; exact h
  case genFaceCorners => cases hs; unfold genFaceCorners; split <;> exact h
  case prepareCells => cases hs; exact h
  case genCellCorners => cases hs; unfold genCellCorners; split <;> (try split) <;> exact h
  case genCellFaces =>
    unfold genCellFaces at hs
    split at hs
    · cases hs; exact h
    · cases hs
  case computeDim => cases hs; exact h
  case setPrepared => cases hs; exact h

/-! ### `from_arrays` after the vertex stage -/

theorem bind_ok {α β : Type} (x : α) (k : α → Except String β) : Except.bind (.ok x) k = k x := rfl
theorem bind_error {α β : Type} (e : String) (k : α → Except String β) : Except.bind (.error e) k = .error e := rfl
theorem bind_ite' {α β : Type} (c : Prop) [Decidable c] (e : String) (y : Except String α) (k : α → Except String β) :
    Except.bind (if c then .error e else y) k = if c then .error e else Except.bind y k := by
  split <;> rfl

/-- the end of `from_arrays`: raw data returned, or handed to `_instanciate_raw_mesh_data` -/
def finishArrays (cfg : Cfg) (raw : Bool) (m : Raw) : Except String (Raw ⊕ Built) :=
  if raw then .ok (.inl m) else Except.bind (instantiate cfg m none) fun b => .ok (.inr b)

/-- `from_arrays` once the vertex array `V'` has its 3 columns (normal form): the three element arrays, absent = empty, each
checked against `n = len(V')`, then stored, then `finishArrays` -/
def fromArraysTail (cfg : Cfg) (V' : List (List Rat)) (E : Option (List (Int × Int))) (F C : Option (List (List Nat)))
    (raw : Bool) : Except String (Raw ⊕ Built) :=
  if anyEdgeGE (E.getD []) V'.length then .error "err:Other(Exception)"
  else if anyRowGE (F.getD []) V'.length then .error "err:Other(Exception)"
  else if anyRowGE (C.getD []) V'.length then .error "err:Other(Exception)"
  else finishArrays cfg raw { verts := V', edges := E.getD [], faces := F.getD [], cells := C.getD [] }

/-! ### the file route: what a reader hands over, as input of `prepare` -/

/-- the `RawMeshData` a file reader returns (the record type of C04's reader models and of its TRANSLATED readers
`Generated.C04R.importXyz`, `Generated.C04R.parseTet`) as raw input of the construction: 3 coordinates per vertex, index
rows as read, a `hard_edges` attribute when the reader created one, nothing prepared -/
def ofIO (m : Mouette.IO.Raw Rat) : Raw :=
  { verts := m.verts.map (fun p => [p.1, p.2.1, p.2.2]),
    edges := m.edges.map (fun e => ((e.1 : Int), (e.2 : Int))),
    eattrs := (match m.hard with
      | none => []
      | some ks => [{ name := hardName, dflt := 0, st := .sparse (ks.map (fun k => (k, (1 : Int)))) }]),
    faces := m.faces, cells := m.cells }

theorem ofIO_uniqueNames (m : Mouette.IO.Raw Rat) : UniqueNames (ofIO m).eattrs := by
  unfold UniqueNames ofIO
  cases m.hard <;> simp

end Mouette.C02Src
