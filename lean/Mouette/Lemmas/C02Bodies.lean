import Mouette.Generated.C02Bodies
import Mouette.Lemmas.C02Prepare
import Mouette.Lemmas.C02Steps
/-
Fold lemmas behind the bridges `Generated.C02B.f = Prepare.f` (Props/C02Source.lean): what the loops of the translated
bodies compute, by induction over the iterated container. The lemmas about the Generated step functions are stated
through hand-written step functions (`faceStep`, `edgeStep`, …) so that a harmless respelling of the source only has
to re-prove the one-line `…_step` equalities. Core Lean only.
-/
set_option linter.unusedSimpArgs false
set_option linter.unusedVariables false
namespace Mouette.C02Src
open Mouette.Prepare Mouette.PrepSrc

/-! ### generic -/

theorem foldl_flatMap' {α β σ : Type} (f : σ → β → σ) (g : α → List β) (step : σ → α → σ)
    (h : ∀ a x, step a x = (g x).foldl f a) (l : List α) (a : σ) :
    l.foldl step a = (l.flatMap g).foldl f a := by
  induction l generalizing a with
  | nil => rfl
  | cons x xs ih => rw [List.foldl_cons, List.flatMap_cons, List.foldl_append, h, ih]

theorem foldl_congr' {α σ : Type} (f g : σ → α → σ) (h : ∀ a x, f a x = g a x) (l : List α) (a : σ) :
    l.foldl f a = l.foldl g a := by
  induction l generalizing a with
  | nil => rfl
  | cons x xs ih => rw [List.foldl_cons, List.foldl_cons, h, ih]

/-! ### faces from cells -/

/-- one iteration of `for face in faces_C` -/
def faceStep (x : Raw × List (List Nat)) (c : List Nat) : Raw × List (List Nat) :=
  if keyF c ∈ x.2 then x else (facesAppend x.1 c, keyF c :: x.2)

theorem faceStep_fold (cands : List (List Nat)) (s : Raw) (st : List (List Nat))
    (h : ∀ k, k ∈ st ↔ k ∈ s.faces.map keyF) :
    (cands.foldl faceStep (s, st)).1 = { s with faces := completeBy keyF s.faces cands } := by
  induction cands generalizing s st with
  | nil => rfl
  | cons c cs ih =>
    rw [List.foldl_cons]
    by_cases hc : keyF c ∈ s.faces.map keyF
    · have h1 : faceStep (s, st) c = (s, st) := by
        unfold faceStep; rw [if_pos ((h _).mpr hc)]
      rw [h1, ih s st h]
      simp only [completeBy, if_pos hc]
    · have h1 : faceStep (s, st) c = (facesAppend s c, keyF c :: st) := by
        unfold faceStep; rw [if_neg (fun hh => hc ((h _).mp hh))]
      rw [h1, ih (facesAppend s c) (keyF c :: st)]
      · simp only [completeBy, if_neg hc]; rfl
      · intro k
        simp only [facesAppend, List.map_append, List.mem_append, List.mem_cons, List.map_cons, List.map_nil,
          List.not_mem_nil, or_false, h k]
        constructor
        · rintro (h1 | h1)
          · exact Or.inr h1
          · exact Or.inl h1
        · rintro (h1 | h1)
          · exact Or.inr h1
          · exact Or.inl h1

/-! ### edges from faces -/

/-- the record after `l` was appended to the edge container through `DataContainer.append` -/
def appendEdges (s : Raw) (l : List (Int × Int)) : Raw :=
  { s with edges := s.edges ++ l, eattrs := s.eattrs.map (expandAttr l.length) }

theorem expandAttr_succ (k : Nat) (a : Attr) : expandAttr 1 (expandAttr k a) = expandAttr (k + 1) a := by
  obtain ⟨name, dflt, st⟩ := a
  cases st with
  | sparse d => rfl
  | dense v =>
    simp [expandAttr, List.replicate_succ', List.append_assoc]

theorem appendEdges_nil (s : Raw) : appendEdges s [] = s := by
  have : s.eattrs.map (expandAttr 0) = s.eattrs := by
    rw [List.map_congr_left (g := id)]
    · simp
    · intro a _
      obtain ⟨name, dflt, st⟩ := a
      cases st <;> simp [expandAttr]
  unfold appendEdges
  simp only [List.append_nil, List.length_nil, this]

theorem edgesAppend_appendEdges (s : Raw) (l : List (Int × Int)) (e : Int × Int) :
    edgesAppend (appendEdges s l) e = appendEdges s (l ++ [e]) := by
  unfold edgesAppend appendEdges
  simp only [List.append_assoc, List.map_map, List.length_append, List.length_cons, List.length_nil]
  congr 1
  apply List.map_congr_left
  intro a _
  exact expandAttr_succ l.length a

/-- one iteration of `for i in range(nf)`: the side `e` (already a key) is skipped when it is not an edge, stored when
its key is new -/
def edgeStep (n : Nat) (x : Raw × List (Int × Int)) (e : Int × Int) : Raw × List (Int × Int) :=
  if validE n e then (if e ∈ x.2 then x else (edgesAppend x.1 e, e :: x.2)) else x

theorem edgeStep_fold (n : Nat) (cands : List (Int × Int)) (hk : ∀ c ∈ cands, keyE c = c)
    (s : Raw) (l : List (Int × Int)) (st : List (Int × Int))
    (h : ∀ k, k ∈ st ↔ k ∈ (s.edges ++ l).map keyE) :
    ∃ l', (cands.foldl (edgeStep n) (appendEdges s l, st)).1 = appendEdges s l' ∧
      s.edges ++ l' = completeBy keyE (s.edges ++ l) (cands.filter (validE n)) := by
  induction cands generalizing l st with
  | nil => exact ⟨l, rfl, rfl⟩
  | cons c cs ih =>
    have hkc : keyE c = c := hk c (by simp)
    have hk' : ∀ c ∈ cs, keyE c = c := fun x hx => hk x (by simp [hx])
    rw [List.foldl_cons]
    by_cases hv : validE n c = true
    · rw [List.filter_cons_of_pos hv]
      by_cases hc : c ∈ (s.edges ++ l).map keyE
      · have h1 : edgeStep n (appendEdges s l, st) c = (appendEdges s l, st) := by
          unfold edgeStep; rw [if_pos hv, if_pos ((h _).mpr hc)]
        rw [h1]
        obtain ⟨l', e1, e2⟩ := ih hk' l st h
        refine ⟨l', e1, ?_⟩
        rw [e2]; simp only [completeBy, hkc, if_pos hc]
      · have h1 : edgeStep n (appendEdges s l, st) c = (appendEdges s (l ++ [c]), c :: st) := by
          unfold edgeStep
          rw [if_pos hv, if_neg (fun hh => hc ((h _).mp hh)), edgesAppend_appendEdges]
        rw [h1]
        obtain ⟨l', e1, e2⟩ := ih hk' (l ++ [c]) (c :: st) (by
          intro k
          have := h k
          simp only [List.map_append, List.mem_append] at this
          simp only [List.map_append, List.mem_append, List.mem_cons, List.map_cons, List.map_nil,
            List.not_mem_nil, or_false, hkc, this]
          grind)
        refine ⟨l', e1, ?_⟩
        rw [e2]; simp only [completeBy, hkc, if_neg hc, List.append_assoc]
    · have hv' : validE n c = false := by simpa using hv
      rw [List.filter_cons_of_neg (by simp [hv'])]
      have h1 : edgeStep n (appendEdges s l, st) c = (appendEdges s l, st) := by
        unfold edgeStep; rw [if_neg hv]
      rw [h1]
      exact ih hk' l st h

theorem sideAt_key (f : List Nat) (i : Nat) : keyE (sideAt f i) = sideAt f i := by
  unfold sideAt; exact keyE_idem _

theorem faceSides_keys (faces : List (List Nat)) : ∀ c ∈ faces.flatMap faceSides, keyE c = c := by
  intro c hc
  obtain ⟨f, _, hf⟩ := List.mem_flatMap.mp hc
  obtain ⟨i, _, rfl⟩ := List.mem_map.mp hf
  exact sideAt_key f i

/-- the skip test of the completion loop, as a statement about any spelling `t` of it -/
theorem skip_spec (n : Nat) (e : Int × Int) (h : e.1 ≤ e.2) :
    (decide (e.1 = e.2) || !(decide ((0 : Int) ≤ e.1) && decide (e.2 < (n : Int)))) = !validE n e := by
  rw [Bool.eq_iff_iff]
  simp only [validE, Bool.or_eq_true, Bool.and_eq_true, Bool.not_eq_true', decide_eq_true_eq, bne_iff_ne, ne_eq,
    Bool.and_eq_false_iff, decide_eq_false_iff_not, bne_eq_false_iff_eq]
  omega

theorem sideAt_le (f : List Nat) (i : Nat) : (sideAt f i).1 ≤ (sideAt f i).2 := by
  unfold sideAt keyE; simp only; omega

/-! ### the hard_edges flags -/

def flagsUpTo (name : String) (m : Nat) : Attr :=
  { name := name, dflt := 0, st := .sparse ((List.range m).map (fun i => (i, (1 : Int)))) }

theorem filter_flags (m : Nat) :
    ((List.range m).map (fun i => (i, (1 : Int)))).filter (fun p => p.1 != m) = (List.range m).map (fun i => (i, (1 : Int))) := by
  rw [List.filter_eq_self]
  intro p hp
  obtain ⟨i, hi, rfl⟩ := List.mem_map.mp hp
  have : i < m := List.mem_range.mp hi
  simp only [bne_iff_ne, ne_eq]; omega

theorem attrSetOne_other (name : String) (k : Nat) (v : Int) (as : List Attr) (h : hasAttr as name = false) :
    as.map (attrSetOne name k v) = as := by
  rw [List.map_congr_left (g := id)]
  · simp
  · intro a ha
    unfold hasAttr at h
    have := List.any_eq_false.mp h a ha
    unfold attrSetOne
    simp only [id]
    rw [if_neg this]

theorem flag_fold (name : String) (s : Raw) (step : Raw → Nat → Raw)
    (hstep : ∀ x i, step x i = attrSet x name i 1) (h : hasAttr s.eattrs name = false) (m : Nat) :
    (List.range m).foldl step (createFlagAttr s name) = { s with eattrs := s.eattrs ++ [flagsUpTo name m] } := by
  induction m with
  | zero => rfl
  | succ m ih =>
    rw [List.range_succ, List.foldl_append, ih, List.foldl_cons, List.foldl_nil, hstep]
    unfold attrSet
    simp only [List.map_append, List.map_cons, List.map_nil, attrSetOne_other name m 1 s.eattrs h]
    have : attrSetOne name m 1 (flagsUpTo name m) = flagsUpTo name (m + 1) := by
      unfold attrSetOne flagsUpTo sparseSet
      simp only [beq_self_eq_true, if_true, filter_flags, List.range_succ, List.map_append, List.map_cons, List.map_nil]
    rw [this]

/-! ### vertices -/

theorem foldl_range_set {α : Type} (f : α → α) (d : α) (step : List α → Nat → List α)
    (hstep : ∀ l i, step l i = l.set i (f (l.getD i d))) (l : List α) (n : Nat) (hn : n ≤ l.length) :
    (List.range n).foldl step l = (l.take n).map f ++ l.drop n := by
  induction n with
  | zero => simp
  | succ n ih =>
    have hlt : n < l.length := by omega
    rw [List.range_succ, List.foldl_append, ih (by omega), List.foldl_cons, List.foldl_nil, hstep]
    have hlen : ((l.take n).map f).length = n := by simp; omega
    have hget : ((l.take n).map f ++ l.drop n).getD n d = l[n] := by
      rw [List.getD_eq_getElem?_getD, List.getElem?_append_right (by omega), hlen]
      simp [List.getElem?_drop, List.getElem?_eq_getElem hlt]
    rw [hget, List.set_append_right _ _ (by omega), hlen, Nat.sub_self]
    rw [List.drop_eq_getElem_cons hlt, List.set_cons_zero, List.take_succ_eq_append_getElem hlt]
    have hlt' : n < (l.map f).length := by simpa using hlt
    simp only [List.map_append, List.map_cons, List.map_nil, List.append_assoc, List.cons_append, List.nil_append]

/-! ### corner records -/

theorem owners_enum_fold (step : Raw → Nat × List Nat → Raw)
    (put : Raw → List Nat → List Nat → Raw) (el ad : Raw → List Nat)
    (hel : ∀ s a b, el (put s a b) = a) (had : ∀ s a b, ad (put s a b) = b) (hput : ∀ s a b a' b', put (put s a b) a' b' = put s a' b')
    (hstep : ∀ s a b i row, step (put s a b) (i, row) = put s (a ++ row) (b ++ List.replicate row.length i))
    (rows : List (List Nat)) (i : Nat) (s : Raw) (a b : List Nat) :
    (enumFrom i rows).foldl step (put s a b) = put s (a ++ rows.flatten) (b ++ ownersFrom rows i) := by
  induction rows generalizing i a b with
  | nil => simp [enumFrom, ownersFrom]
  | cons row rows ih =>
    simp only [enumFrom, List.foldl_cons, hstep, ih, List.flatten_cons, ownersFrom, List.append_assoc]

/-! ### cell-face records -/

/-- the dict `face_id` after the first loop: one binding per stored face, the most recent first -/
def faceDictOf (i : Nat) (rows : List (List Nat)) (d : FaceDict) : FaceDict :=
  ((enumFrom i rows).map (fun p => (keyF p.2, p.1))).reverse ++ d

theorem faceDict_fold (step : Raw × FaceDict → Nat × List Nat → Raw × FaceDict)
    (hstep : ∀ s d i row, step (s, d) (i, row) = (s, dictSet d (keyF row) i))
    (rows : List (List Nat)) (i : Nat) (s : Raw) (d : FaceDict) :
    (enumFrom i rows).foldl step (s, d) = (s, faceDictOf i rows d) := by
  induction rows generalizing i d with
  | nil => simp [enumFrom, faceDictOf]
  | cons row rows ih =>
    simp only [enumFrom, List.foldl_cons, hstep, ih, faceDictOf, List.map_cons, List.reverse_cons, dictSet,
      List.append_assoc, List.cons_append, List.nil_append]

/-- `face_id.get(key)` is the LAST stored face with that key (`face_id[key] = iF` overwrites) -/
theorem faceDict_get (k : List Nat) (rows : List (List Nat)) (i : Nat) (d : FaceDict) :
    dictGet (faceDictOf i rows d) k = (match lastIdx k (rows.map keyF) i with | some j => some j | none => dictGet d k) := by
  induction rows generalizing i d with
  | nil => simp [faceDictOf, enumFrom, lastIdx]
  | cons row rows ih =>
    have e : faceDictOf i (row :: rows) d = faceDictOf (i + 1) rows ((keyF row, i) :: d) := by
      simp [faceDictOf, enumFrom]
    rw [e, ih]
    simp only [List.map_cons, lastIdx]
    cases lastIdx k (rows.map keyF) (i + 1) with
    | some j => rfl
    | none =>
      simp only [dictGet, List.lookup]
      by_cases hk : keyF row = k
      · subst hk; simp
      · have : (k == keyF row) = false := by
          simp only [beq_eq_false_iff_ne, ne_eq]; exact fun h => hk h.symm
        simp [this, hk]

/-- one cell: the records of its faces, in table order, faces that are not stored skipped -/
theorem cellFaces_inner (d : FaceDict) (keys : List (List Nat)) (hd : ∀ k, dictGet d k = lastIdx k keys 0)
    (ic : Nat) (step : Raw → List Nat → Raw)
    (hstep : ∀ s f, step s f = match dictGet d (keyF f) with
      | none => s
      | some j => { s with cfElem := s.cfElem ++ [j], cfAdj := s.cfAdj ++ [ic] })
    (fs : List (List Nat)) (s : Raw) :
    fs.foldl step s = { s with cfElem := s.cfElem ++ idsOf keys fs,
                               cfAdj := s.cfAdj ++ List.replicate (idsOf keys fs).length ic } := by
  induction fs generalizing s with
  | nil => simp [idsOf]
  | cons f fs ih =>
    rw [List.foldl_cons, hstep, hd]
    unfold idsOf at ih ⊢
    cases h : lastIdx (keyF f) keys 0 with
    | none => simp only [List.filterMap_cons, h]; exact ih s
    | some j =>
      simp only [List.filterMap_cons, h, ih, List.append_assoc, List.cons_append, List.nil_append,
        List.length_cons, List.replicate_succ]

theorem cellFaces_outer (keys : List (List Nat)) (step : Raw → Nat × List Nat → Raw)
    (hstep : ∀ s i c fs, cellFacesG c = some fs → step s (i, c) =
      { s with cfElem := s.cfElem ++ idsOf keys fs, cfAdj := s.cfAdj ++ List.replicate (idsOf keys fs).length i })
    (cells : List (List Nat)) (idss : List (List Nat)) (h : cellFaceIds keys cells = .ok idss) (i : Nat) (s : Raw) :
    (enumFrom i cells).foldl step s = { s with cfElem := s.cfElem ++ idss.flatten, cfAdj := s.cfAdj ++ ownersFrom idss i } := by
  induction cells generalizing idss i s with
  | nil =>
    simp only [cellFaceIds] at h
    cases h
    simp [enumFrom, ownersFrom]
  | cons c cs ih =>
    unfold cellFaceIds at h
    cases hg : cellFacesG c with
    | none => simp [hg] at h
    | some fs =>
      simp only [hg] at h
      cases hr : cellFaceIds keys cs with
      | error e => simp [hr] at h
      | ok l =>
        simp only [hr] at h
        cases h
        simp only [enumFrom, List.foldl_cons, hstep _ _ _ _ hg, ih l hr, List.flatten_cons, ownersFrom,
          List.append_assoc]

/-! ### prepare() run on the translated bodies -/

/-- one step of `prepare()`, executed by the TRANSLATED body of that step (`Generated.C02B`); `_prepare_edges` is the hand
model, `_prepare_faces` / `_prepare_cells` only change the Python type of rows, `_compute_dimensionality` refreshes a cache.
Vertex rows are lifted to float rows for `_prepare_vertices` (its coordinates do not depend on the dtype kind). -/
def runStepSrc : Step → Raw → Raw
  | .completeFaces, r => Generated.C02B.completeFaces r
  | .completeEdges, r => Generated.C02B.completeEdges r
  | .prepareVertices, r =>
    { r with verts := (Generated.C02B.prepareVertices ⟨r.verts.map (fun xs => ⟨'f', xs⟩)⟩).verts.map (·.xs) }
  | .prepareEdges, r => prepareEdges r
  | .prepareFaces, r => r
  | .genFaceCorners, r => Generated.C02B.genFaceCorners r
  | .prepareCells, r => r
  | .genCellCorners, r => Generated.C02B.genCellCorners r
  | .genCellFaces, r => Generated.C02B.genCellFaces r
  | .computeDim, r => r
  | .setPrepared, r => { r with prepared := true }

def runStepsSrc (cfg : Cfg) : List (Guard × Step) → Raw → Raw
  | [], r => r
  | (g, s) :: rest, r => if guardHolds cfg g then runStepsSrc cfg rest (runStepSrc s r) else runStepsSrc cfg rest r

/-- `prepare()` as the source spells it: the translated step program run on the translated bodies -/
def prepareSrc (cfg : Cfg) (p : PrepareProgram) (r : Raw) : Raw :=
  if p.guardFirst && r.prepared then r else runStepsSrc cfg p.steps r

theorem runSteps_src (cfg : Cfg) (hstep : ∀ s r r', runStep s r = .ok r' → runStepSrc s r = r')
    (steps : List (Guard × Step)) (r p : Raw) (h : runSteps cfg steps r = .ok p) : runStepsSrc cfg steps r = p := by
  induction steps generalizing r with
  | nil => simp only [runSteps] at h; cases h; rfl
  | cons gs rest ih =>
    obtain ⟨g, s⟩ := gs
    simp only [runSteps, runStepsSrc] at h ⊢
    by_cases hg : guardHolds cfg g = true
    · rw [if_pos hg] at h ⊢
      cases hs : runStep s r with
      | error e => simp [hs] at h
      | ok r' =>
        simp only [hs] at h
        rw [hstep s r r' hs]
        exact ih r' h
    · rw [if_neg hg] at h ⊢
      exact ih r h

end Mouette.C02Src
