import Mouette.Generated.C15RunSrc
import Mouette.Lemmas.C01Source
/-!
What `FeatureEdgeDetector.run` as TRANSLATED from `features.py` (`Generated/C15RunSrc.lean`) leaves in the detector's containers,
in terms of the keys `flags` of the edge attribute after the three passes.
-/
namespace Mouette.Lemmas.C15RunSource
open Mouette.Features Mouette.PySrc Mouette.FeatSource Mouette.SurfSource
open Mouette.Generated.C15Src Mouette.Lemmas.C01Source

/-- the keys of the edge attribute `feature` after the three passes, started from an EMPTY attribute -/
def flagsOf (env : FeatEnv) (ob : Bool) : BoolMap :=
  addBorderToFeatures env ob (addSharpAnglesToFeatures env ob (addHardEdgesToFeatures env ob []))

/-- **resets**: what the attributes `feature` held before and the detector's earlier containers do not matter -/
theorem run_history_free (env : FeatEnv) (v2e : Nat → List Nat) (ob : Bool) (fv0 fe0 : Option BoolMap) (fc : Bool) (ce : CornerEnv) (tp : Rat) (od : Nat) (c0 cm : IntMap) :
    run env v2e ob fv0 fe0 fc ce tp od c0 cm = run env v2e ob none none fc ce tp od c0 cm := by
  cases fv0 <;> cases fe0 <;> rfl

theorem setAdd_fold_mem (l init : List Nat) (v : Nat) : v ∈ l.foldl setAdd init ↔ v ∈ init ∨ v ∈ l := by
  induction l generalizing init with
  | nil => simp
  | cons x l ih => rw [List.foldl_cons, ih, mem_setAdd]; simp only [List.mem_cons, or_assoc]
theorem setAdd_fold_nodup (l init : List Nat) (h : init.Nodup) : (l.foldl setAdd init).Nodup := by
  induction l generalizing init with
  | nil => exact h
  | cons x l ih => rw [List.foldl_cons]; exact ih _ (nodup_setAdd _ _ h)

theorem mem_boolKeys (m : BoolMap) (v : Nat) : v ∈ boolKeys m ↔ v ∈ m := by
  unfold boolKeys; rw [setAdd_fold_mem]; simp
theorem nodup_boolKeys (m : BoolMap) : (boolKeys m).Nodup := setAdd_fold_nodup _ _ List.nodup_nil

/-! ### loop 1: `feature_edges`, `feature_vertices` -/
theorem loop1 (env : FeatEnv) (v2e : Nat → List Nat) (ob : Bool) (a b : Option BoolMap) (fc : Bool) (ce : CornerEnv) (tp : Rat) (od : Nat) (c0 cm : IntMap) (l : List Nat) :
    ∀ fe fv : List Nat,
      (∀ e, e ∈ (l.foldl (run_for1_step env v2e ob a b fc ce tp od c0 cm) (fe, fv)).1 ↔ e ∈ fe ∨ e ∈ l) ∧
      (fe.Nodup → (l.foldl (run_for1_step env v2e ob a b fc ce tp od c0 cm) (fe, fv)).1.Nodup) ∧
      (∀ v, v ∈ (l.foldl (run_for1_step env v2e ob a b fc ce tp od c0 cm) (fe, fv)).2 ↔
        v ∈ fv ∨ ∃ e ∈ l, v = (env.edge e).1 ∨ v = (env.edge e).2) ∧
      (fv.Nodup → (l.foldl (run_for1_step env v2e ob a b fc ce tp od c0 cm) (fe, fv)).2.Nodup) := by
  induction l with
  | nil => intro fe fv; simp
  | cons x l ih =>
    intro fe fv
    rw [List.foldl_cons]
    have hstep : run_for1_step env v2e ob a b fc ce tp od c0 cm (fe, fv) x =
        (setAdd fe x, setAdd (setAdd fv (env.edge x).1) (env.edge x).2) := rfl
    rw [hstep]
    obtain ⟨h1, h2, h3, h4⟩ := ih (setAdd fe x) (setAdd (setAdd fv (env.edge x).1) (env.edge x).2)
    refine ⟨?_, ?_, ?_, ?_⟩
    · intro e; rw [h1, mem_setAdd]; simp only [List.mem_cons, or_assoc]
    · intro h; exact h2 (nodup_setAdd _ _ h)
    · intro v; rw [h3, mem_setAdd, mem_setAdd]
      constructor
      · rintro (((h | h) | h) | ⟨e, he, h⟩)
        · exact Or.inl h
        · exact Or.inr ⟨x, List.mem_cons_self .., Or.inl h⟩
        · exact Or.inr ⟨x, List.mem_cons_self .., Or.inr h⟩
        · exact Or.inr ⟨e, List.mem_cons_of_mem _ he, h⟩
      · rintro (h | ⟨e, he, h⟩)
        · exact Or.inl (Or.inl (Or.inl h))
        · rcases List.mem_cons.mp he with rfl | he'
          · rcases h with h | h
            · exact Or.inl (Or.inl (Or.inr h))
            · exact Or.inl (Or.inr h)
          · exact Or.inr ⟨e, he', h⟩
    · intro h; exact h4 (nodup_setAdd _ _ (nodup_setAdd _ _ h))

/-! ### loops 2 and 3: `local_feat_edges` -/
theorem loop3 (env : FeatEnv) (v2e : Nat → List Nat) (ob : Bool) (a b : Option BoolMap) (fc : Bool) (ce : CornerEnv) (tp : Rat) (od : Nat) (c0 cm : IntMap) (flags : BoolMap) (v : Nat)
    (l : List (Nat × Nat)) : ∀ (acc : List Nat) (d : LocDict),
      (l.map fun p => (p.2, p.1)).foldl (run_for3_step env v2e ob a b fc ce tp od c0 cm flags v) ((v, acc) :: d) =
        (v, acc ++ (l.filter fun x => flags.contains x.1).map (·.2)) :: d := by
  induction l with
  | nil => intro acc d; simp
  | cons x l ih =>
    intro acc d
    rw [List.map_cons, List.foldl_cons]
    by_cases hm : x.1 ∈ flags
    · have hc : flags.contains x.1 = true := by simpa using hm
      have hstep : run_for3_step env v2e ob a b fc ce tp od c0 cm flags v ((v, acc) :: d) (x.2, x.1) = (v, acc ++ [x.2]) :: d := by
        simp [run_for3_step, boolGet, hm, locAppend]
      rw [hstep, ih]; simp [List.filter_cons, hm]
    · have hc : flags.contains x.1 = false := by simpa using hm
      have hstep : run_for3_step env v2e ob a b fc ce tp od c0 cm flags v ((v, acc) :: d) (x.2, x.1) = (v, acc) :: d := by
        simp [run_for3_step, boolGet, hm]
      rw [hstep, ih]; simp [List.filter_cons, hm]

theorem loop2 (env : FeatEnv) (v2e : Nat → List Nat) (ob : Bool) (a b : Option BoolMap) (fc : Bool) (ce : CornerEnv) (tp : Rat) (od : Nat) (c0 cm : IntMap) (flags : BoolMap) (l : List Nat) :
    ∀ d : LocDict, ∀ v, locGet (l.foldl (run_for2_step env v2e ob a b fc ce tp od c0 cm flags) d) v =
      if v ∈ l then some (localFeat flags (v2e v)) else locGet d v := by
  induction l with
  | nil => intro d v; simp
  | cons x l ih =>
    intro d v
    rw [List.foldl_cons, ih]
    have hstep : run_for2_step env v2e ob a b fc ce tp od c0 cm flags d x = (x, localFeat flags (v2e x)) :: d := by
      simp only [run_for2_step]
      rw [loop3]
      simp [localFeat]
    rw [hstep]
    by_cases hv : v ∈ l
    · simp [hv]
    · simp only [hv, if_false, List.mem_cons, or_false]
      by_cases hx : v = x
      · subst hx; simp [locGet]
      · have : (x == v) = false := by simpa using fun h => hx h.symm
        simp [locGet, List.find?_cons, this, hx]

/-! ### the run -/
theorem run_fe_fv (env : FeatEnv) (v2e : Nat → List Nat) (ob : Bool) (a b : Option BoolMap) (fc : Bool) (ce : CornerEnv) (tp : Rat) (od : Nat) (c0 cm : IntMap) :
    (∀ e, e ∈ (run env v2e ob a b fc ce tp od c0 cm).2.1 ↔ e ∈ flagsOf env ob) ∧ (run env v2e ob a b fc ce tp od c0 cm).2.1.Nodup ∧
    (∀ v, v ∈ (run env v2e ob a b fc ce tp od c0 cm).1 ↔ ∃ e ∈ flagsOf env ob, v = (env.edge e).1 ∨ v = (env.edge e).2) ∧
    (run env v2e ob a b fc ce tp od c0 cm).1.Nodup := by
  rw [run_history_free]
  obtain ⟨h1, h2, h3, h4⟩ := loop1 env v2e ob none none fc ce tp od c0 cm (boolKeys (flagsOf env ob)) [] []
  refine ⟨?_, h2 List.nodup_nil, ?_, h4 List.nodup_nil⟩
  · intro e
    show e ∈ (List.foldl (run_for1_step env v2e ob none none fc ce tp od c0 cm) ([], []) (boolKeys (flagsOf env ob))).1 ↔ _
    rw [h1, mem_boolKeys]; simp
  · intro v
    show v ∈ (List.foldl (run_for1_step env v2e ob none none fc ce tp od c0 cm) ([], []) (boolKeys (flagsOf env ob))).2 ↔ _
    rw [h3]; simp only [List.not_mem_nil, false_or, mem_boolKeys]

/-- `feature_degrees` is the fold of `+= 1` on both end points over `feature_edges` -/
theorem run_deg (env : FeatEnv) (v2e : Nat → List Nat) (ob : Bool) (a b : Option BoolMap) (fc : Bool) (ce : CornerEnv) (tp : Rat) (od : Nat) (c0 cm : IntMap) :
    (run env v2e ob a b fc ce tp od c0 cm).2.2.1 =
      (run env v2e ob a b fc ce tp od c0 cm).2.1.foldl (fun d e => bump (bump d (env.edge e).1) (env.edge e).2) [] := by
  rw [run_history_free]; rfl

/-- `local_feat_edges[v]` for a feature vertex: the positions, in `vertex_to_edges(v)`, of the flagged edges -/
theorem run_loc (env : FeatEnv) (v2e : Nat → List Nat) (ob : Bool) (a b : Option BoolMap) (fc : Bool) (ce : CornerEnv) (tp : Rat) (od : Nat) (c0 cm : IntMap) (v : Nat) :
    locGet (run env v2e ob a b fc ce tp od c0 cm).2.2.2.1 v =
      if v ∈ (run env v2e ob a b fc ce tp od c0 cm).1 then some (localFeat (flagsOf env ob) (v2e v)) else none := by
  rw [run_history_free]
  show locGet (List.foldl (run_for2_step env v2e ob none none fc ce tp od c0 cm (flagsOf env ob)) [] _) v = _
  rw [loop2]; rfl

/-- the vertex attribute `feature` ends up flagging exactly the feature vertices -/
theorem run_featV (env : FeatEnv) (v2e : Nat → List Nat) (ob : Bool) (a b : Option BoolMap) (fc : Bool) (ce : CornerEnv) (tp : Rat) (od : Nat) (c0 cm : IntMap) (v : Nat) :
    v ∈ (run env v2e ob a b fc ce tp od c0 cm).2.2.2.2.1 ↔ v ∈ (run env v2e ob a b fc ce tp od c0 cm).1 := by
  rw [run_history_free]
  have : ∀ (l : List Nat) (m : BoolMap), l.foldl (run_for5_step env v2e ob none none fc ce tp od c0 cm) m = m ++ l := by
    intro l
    induction l with
    | nil => intro m; simp
    | cons x l ih => intro m; rw [List.foldl_cons, ih]; simp [run_for5_step, boolSet]
  show v ∈ List.foldl (run_for5_step env v2e ob none none fc ce tp od c0 cm) [] _ ↔ _
  rw [this, List.nil_append]
  exact Iff.rfl

theorem run_featE (env : FeatEnv) (v2e : Nat → List Nat) (ob : Bool) (a b : Option BoolMap) (fc : Bool) (ce : CornerEnv) (tp : Rat) (od : Nat) (c0 cm : IntMap) :
    (run env v2e ob a b fc ce tp od c0 cm).2.2.2.2.2.1 = flagsOf env ob := by
  rw [run_history_free]; rfl

/-- `self.corners` at the end: what the translated `_flag_corners` computes on the feature vertices (from the mesh attribute
`corners` as it was) when `flag_corners` is set, the detector's previous value otherwise -/
theorem run_corners (env : FeatEnv) (v2e : Nat → List Nat) (ob : Bool) (a b : Option BoolMap) (fc : Bool) (ce : CornerEnv) (tp : Rat) (od : Nat) (c0 cm : IntMap) :
    (run env v2e ob a b fc ce tp od c0 cm).2.2.2.2.2.2 =
      if fc then flagCorners ce tp od (run env v2e ob a b fc ce tp od c0 cm).1 cm else c0 := by
  rw [run_history_free]
  cases fc <;> rfl

end Mouette.Lemmas.C15RunSource
