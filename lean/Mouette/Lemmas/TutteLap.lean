import Mouette.Model.Tutte
import Mathlib.Tactic.Ring
import Mathlib.Tactic.Linarith
import Mathlib.Tactic.FieldSimp
import Mathlib.Tactic.SplitIfs
/-!
Algebra of the Laplacian triplets (zero row sums; a solution of a row is the weighted average of its neighbours)
and of the exact orientation predicate `orient2d`.
-/
namespace Mouette.Tutte

/-! ### rows of a triplet list -/

theorem rowSum_nil (r : Nat) : rowSum [] r = 0 := rfl

theorem rowSum_cons (t : Triplet) (T : List Triplet) (r : Nat) :
    rowSum (t :: T) r = (if t.1 = r then t.2.2 else 0) + rowSum T r := by
  unfold rowSum
  by_cases h : t.1 = r
  · simp [List.filter_cons, h]
  · simp [List.filter_cons, h]

theorem rowSum_append (A B : List Triplet) (r : Nat) : rowSum (A ++ B) r = rowSum A r + rowSum B r := by
  induction A with
  | nil => simp [rowSum_nil]
  | cons t A ih => rw [List.cons_append, rowSum_cons, rowSum_cons, ih]; ring

theorem mulRow_nil (u : Nat → Rat) (r : Nat) : mulRow [] u r = 0 := rfl

theorem mulRow_cons (t : Triplet) (T : List Triplet) (u : Nat → Rat) (r : Nat) :
    mulRow (t :: T) u r = (if t.1 = r then t.2.2 * u t.2.1 else 0) + mulRow T u r := by
  unfold mulRow
  by_cases h : t.1 = r
  · simp [List.filter_cons, h]
  · simp [List.filter_cons, h]

/-- `Σ_{t in row r} val_t · (u col_t − u r)` -/
def nbrSum (T : List Triplet) (u : Nat → Rat) (r : Nat) : Rat :=
  ((T.filter (fun t => t.1 == r)).map (fun t => t.2.2 * (u t.2.1 - u r))).sum

theorem nbrSum_cons (t : Triplet) (T : List Triplet) (u : Nat → Rat) (r : Nat) :
    nbrSum (t :: T) u r = (if t.1 = r then t.2.2 * (u t.2.1 - u r) else 0) + nbrSum T u r := by
  unfold nbrSum
  by_cases h : t.1 = r
  · simp [List.filter_cons, h]
  · simp [List.filter_cons, h]

/-- for ANY triplet list: `(L u)_r = Σ val (u_col − u_r) + u_r · (row sum)` -/
theorem mulRow_eq (T : List Triplet) (u : Nat → Rat) (r : Nat) :
    mulRow T u r = nbrSum T u r + u r * rowSum T r := by
  induction T with
  | nil => simp [mulRow_nil, nbrSum, rowSum_nil]
  | cons t T ih =>
    rw [mulRow_cons, nbrSum_cons, rowSum_cons, ih]
    by_cases h : t.1 = r
    · simp only [h, if_true]; ring
    · simp only [h, if_false]; ring

/-- total weight `Σ_j w_rj` of the neighbours of `r` (`w = −` off-diagonal coefficient) -/
def wSum (T : List Triplet) (r : Nat) : Rat :=
  ((T.filter (fun t => t.1 == r && t.2.1 != r)).map (fun t => - t.2.2)).sum

/-- `Σ_j w_rj u_j` -/
def wDot (T : List Triplet) (u : Nat → Rat) (r : Nat) : Rat :=
  ((T.filter (fun t => t.1 == r && t.2.1 != r)).map (fun t => - t.2.2 * u t.2.1)).sum

theorem wSum_cons (t : Triplet) (T : List Triplet) (r : Nat) :
    wSum (t :: T) r = (if t.1 = r ∧ t.2.1 ≠ r then - t.2.2 else 0) + wSum T r := by
  unfold wSum
  by_cases h : t.1 = r <;> by_cases h2 : t.2.1 = r <;> simp [List.filter_cons, h, h2]

theorem wDot_cons (t : Triplet) (T : List Triplet) (u : Nat → Rat) (r : Nat) :
    wDot (t :: T) u r = (if t.1 = r ∧ t.2.1 ≠ r then - t.2.2 * u t.2.1 else 0) + wDot T u r := by
  unfold wDot
  by_cases h : t.1 = r <;> by_cases h2 : t.2.1 = r <;> simp [List.filter_cons, h, h2]

theorem nbrSum_eq (T : List Triplet) (u : Nat → Rat) (r : Nat) :
    nbrSum T u r = wSum T r * u r - wDot T u r := by
  induction T with
  | nil => simp [nbrSum, wSum, wDot]
  | cons t T ih =>
    rw [nbrSum_cons, wSum_cons, wDot_cons, ih]
    by_cases h : t.1 = r <;> by_cases h2 : t.2.1 = r
    · simp only [h, h2, if_true, ne_eq, not_true_eq_false, and_false, if_false]; ring
    · simp only [h, h2, if_true, ne_eq, not_false_eq_true, and_self]; ring
    · simp only [h, if_false, false_and]; ring
    · simp only [h, if_false, false_and]; ring

/-! ### the Laplacian has zero row sums -/

theorem rowSum_edgeTriplets (i j : Nat) (v : Rat) (r : Nat) : rowSum (edgeTriplets i j v) r = 0 := by
  unfold edgeTriplets
  simp only [rowSum_cons, rowSum_nil]
  by_cases hi : i = r <;> by_cases hj : j = r <;> simp [hi, hj]

theorem rowSum_faceTriplets (p q s : Nat) (a b c : Rat) (r : Nat) : rowSum (faceTriplets p q s a b c) r = 0 := by
  unfold faceTriplets
  rw [rowSum_append, rowSum_append, rowSum_edgeTriplets, rowSum_edgeTriplets, rowSum_edgeTriplets]; ring

theorem rowSum_lapTripletsFrom (cot : Option (List Rat)) (r : Nat) : ∀ (F : List (List Nat)) (iT : Nat),
    rowSum (lapTripletsFrom cot iT F) r = 0
  | [], _ => rfl
  | f :: fs, iT => by
    unfold lapTripletsFrom
    simp only []
    rw [rowSum_append, rowSum_faceTriplets, rowSum_lapTripletsFrom cot r fs (iT + 1)]; ring

/-! ### orient2d -/

theorem orient2d_swap (a b c : Rat × Rat) : orient2d a c b = - orient2d a b c := by
  unfold orient2d; ring

theorem orient2d_cycle (a b c : Rat × Rat) : orient2d b c a = orient2d a b c := by
  unfold orient2d; ring

theorem orient2d_translate (a b c t : Rat × Rat) :
    orient2d (a.1 + t.1, a.2 + t.2) (b.1 + t.1, b.2 + t.2) (c.1 + t.1, c.2 + t.2) = orient2d a b c := by
  unfold orient2d; ring

/-- image under the affine map `x ↦ M x + t`: the orientation is multiplied by `det M` -/
theorem orient2d_affine (m11 m12 m21 m22 : Rat) (t a b c : Rat × Rat) :
    orient2d (m11 * a.1 + m12 * a.2 + t.1, m21 * a.1 + m22 * a.2 + t.2)
             (m11 * b.1 + m12 * b.2 + t.1, m21 * b.1 + m22 * b.2 + t.2)
             (m11 * c.1 + m12 * c.2 + t.1, m21 * c.1 + m22 * c.2 + t.2)
      = (m11 * m22 - m12 * m21) * orient2d a b c := by
  unfold orient2d; ring

/-- barycentric coordinates: for `p = la·a + lb·b + lc·c` with `la + lb + lc = 1` the three sub-triangles have
orientation `la, lb, lc` times that of `abc` -/
theorem orient2d_barycentric (a b c : Rat × Rat) (la lb lc : Rat) (h : la + lb + lc = 1) :
    let p : Rat × Rat := (la * a.1 + lb * b.1 + lc * c.1, la * a.2 + lb * b.2 + lc * c.2)
    orient2d p b c = la * orient2d a b c ∧ orient2d a p c = lb * orient2d a b c ∧
      orient2d a b p = lc * orient2d a b c := by
  have hc : lc = 1 - la - lb := by linarith
  subst hc
  unfold orient2d
  refine ⟨by ring, by ring, by ring⟩

/-- zero orientation = collinear -/
theorem orient2d_eq_zero_iff (a b c : Rat × Rat) (hab : a.1 ≠ b.1 ∨ a.2 ≠ b.2) :
    orient2d a b c = 0 ↔ ∃ t : Rat, c.1 = a.1 + t * (b.1 - a.1) ∧ c.2 = a.2 + t * (b.2 - a.2) := by
  unfold orient2d
  constructor
  · intro h
    rcases hab with h1 | h2
    · have hne : b.1 - a.1 ≠ 0 := sub_ne_zero.mpr (Ne.symm h1)
      refine ⟨(c.1 - a.1) / (b.1 - a.1), by field_simp; ring, ?_⟩
      field_simp
      linarith
    · have hne : b.2 - a.2 ≠ 0 := sub_ne_zero.mpr (Ne.symm h2)
      refine ⟨(c.2 - a.2) / (b.2 - a.2), ?_, by field_simp; ring⟩
      field_simp
      linarith
  · rintro ⟨t, h1, h2⟩
    rw [h1, h2]; ring

end Mouette.Tutte
