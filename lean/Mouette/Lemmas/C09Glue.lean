import Mouette.Model.Dijkstra
import Mouette.Model.PathMesh
/-
Helper lemmas for the bridges of Props/C09Source.lean (generic list facts and the two back-tracking invariants).
-/
namespace Mouette.Dijkstra

/-- a loop that appends one element to each of two lists per iteration -/
theorem foldl_append2 {α β γ : Type} (f : γ → α) (g : γ → β) (L : List γ) (a : List α) (b : List β) :
    L.foldl (fun acc i => (acc.1 ++ [f i], acc.2 ++ [g i])) (a, b) = (a ++ L.map f, b ++ L.map g) := by
  induction L generalizing a b with
  | nil => simp
  | cons x L ih => simp [ih]

theorem map_getD_range'_cons (a : Nat) (t : List Nat) :
    (List.range' 1 t.length).map (fun i => (a :: t).getD i 0) = t := by
  apply List.ext_getElem
  · simp
  · intro i h1 h2
    simp [List.getElem_range']
    have : 1 + i = i + 1 := by omega
    rw [this]
    simp [List.getElem?_eq_getElem h2]

theorem map_edges_range' (k m : Nat) :
    (List.range' 1 m).map (fun i => (k + i - 1, k + i)) = (List.range m).map (fun i => (k + i, k + i + 1)) := by
  apply List.ext_getElem
  · simp
  · intro i h1 h2
    simp [List.getElem_range']
    omega

def Res.mapOk (g : List Nat → List Nat) : Res → Res
  | .ok l => .ok (g l)
  | r => r

/-- generic iteration of a step function with fuel (the `while` loop around a translated body) -/
def iterG (stp : State → Option State) : Nat → State → State
  | 0, s => s
  | f+1, s => match stp s with
    | none => s
    | some s' => iterG stp f s'

theorem iterG_step (pop : Pop) (adj : Adj) : ∀ f s, iterG (step pop adj) f s = iter pop adj f s := by
  intro f
  induction f with
  | zero => intro s; rfl
  | succ f ih =>
    intro s
    unfold iterG iter
    cases step pop adj s with
    | none => rfl
    | some s' => exact ih s'

end Mouette.Dijkstra
