import Mouette.Lemmas.CutSourceBridge
/-!
Bridges for the other fragments translated from `cutting.py` (`Generated/C16Cut.lean`): the `run` methods (stage
sequence), and the three loops of `_build_mesh_with_cuts` (corner numbering, unions across uncut interior edges, `imap`
numbering). Core Lean only.
-/
namespace Mouette.CutSrc
open Mouette Mouette.Cutting Mouette.Generated

/-! ### `run`, `_run_no_features`, `_run_with_features` -/

theorem runNoFeatures_refines {α : Type} {E : List (Nat × Nat)} (sp : Simple E) (nV : Nat) (sing : List Nat)
    (t : α) (d : α → List Nat) :
    Rel E (C16.runNoFeatures nV E.length E sing t d) (prune nV E (cutEdges0 E.length (d t)) sing) :=
  pruneEdgeTree_refines sp nV sing (cutEdges0_nodup _ _) (buildCutEdgesTree_rel sp (d t))

theorem runWithFeatures_refines {α : Type} {E : List (Nat × Nat)} (sp : Simple E) (nV : Nat) (sing : List Nat)
    (t : α) (d : α → List Nat) :
    Rel E (C16.runWithFeatures nV E.length E sing t d) (prune nV E (cutEdges0 E.length (d t)) sing) :=
  pruneEdgeTree_refines sp nV sing (cutEdges0_nodup _ _) (buildCutEdgesTree_rel sp (d t))

/-- which stage functions each variant calls (the stages that are parameters of the translation are named here) -/
theorem run_stages :
    C16.runNoFeaturesStages = ["_build_singularity_spanning_tree_no_features", "_build_dual_tree_no_features",
      "_build_cut_edges_tree", "_prune_edge_tree"] ∧
    C16.runWithFeaturesStages = ["_build_singularity_spanning_tree_with_features", "_build_dual_tree_with_features",
      "_build_cut_edges_tree", "_prune_edge_tree"] := ⟨rfl, rfl⟩

theorem run_refines {α β : Type} {E : List (Nat × Nat)} (sp : Simple E) (hf : Bool) (nV : Nat) (sing : List Nat)
    (tF : α) (dF : α → List Nat) (tN : β) (dN : β → List Nat) :
    Rel E (C16.run hf nV E.length E sing tF dF tN dN)
      (prune nV E (cutEdges0 E.length (if hf then dF tF else dN tN)) sing) := by
  unfold C16.run
  cases hf
  · exact runNoFeatures_refines sp nV sing tN dN
  · exact runWithFeatures_refines sp nV sing tF dF

/-! ### corner numbering -/

theorem foldl_cornerInner (k : Nat) : ∀ (l : List Nat) (j : Nat) (s : CornerSt), s.kF = k →
    ((l.zipIdx j).foldl C16.cornerInner s).faces = s.faces ∧
    ((l.zipIdx j).foldl C16.cornerInner s).verts = s.verts ++ l ∧
    ((l.zipIdx j).foldl C16.cornerInner s).dup = s.dup ++ l.zipIdx (k + j) ∧
    ((l.zipIdx j).foldl C16.cornerInner s).kF = k
  | [], _, s, hk => by simp [hk]
  | v :: l, j, s, hk => by
    rw [List.zipIdx_cons, List.foldl_cons]
    obtain ⟨a, b, c, d⟩ := foldl_cornerInner k l (j + 1) (C16.cornerInner s (v, j)) (by simp [C16.cornerInner, hk])
    refine ⟨?_, ?_, ?_, d⟩
    · rw [a]; rfl
    · rw [b]; simp [C16.cornerInner]
    · rw [c, List.zipIdx_cons]; simp [C16.cornerInner, hk, Nat.add_assoc]

theorem cornerStep_spec (s : CornerSt) (f : List Nat) :
    (C16.cornerStep s f).faces = s.faces ++ [(List.range f.length).map (s.kF + ·)] ∧
    (C16.cornerStep s f).verts = s.verts ++ f ∧
    (C16.cornerStep s f).dup = s.dup ++ f.zipIdx s.kF ∧
    (C16.cornerStep s f).kF = s.kF + f.length := by
  obtain ⟨a, b, c, d⟩ := foldl_cornerInner s.kF f 0
    { s with faces := s.faces ++ [(List.range f.length).map (fun x3 => s.kF + x3)] } rfl
  unfold C16.cornerStep
  simp only []
  refine ⟨?_, ?_, ?_, ?_⟩
  · rw [a]
  · rw [b]
  · rw [c]; simp
  · rw [d]

theorem foldl_cornerStep : ∀ (F : List Face) (s : CornerSt),
    (F.foldl C16.cornerStep s).faces = s.faces ++ cornerFacesFrom s.kF F ∧
    (F.foldl C16.cornerStep s).verts = s.verts ++ F.flatten ∧
    (F.foldl C16.cornerStep s).dup = s.dup ++ F.flatten.zipIdx s.kF ∧
    (F.foldl C16.cornerStep s).kF = s.kF + F.flatten.length
  | [], s => by simp [cornerFacesFrom]
  | f :: F, s => by
    rw [List.foldl_cons]
    obtain ⟨a, b, c, d⟩ := foldl_cornerStep F (C16.cornerStep s f)
    obtain ⟨a1, b1, c1, d1⟩ := cornerStep_spec s f
    refine ⟨?_, ?_, ?_, ?_⟩
    · rw [a, a1, d1]; simp [cornerFacesFrom]
    · rw [b, b1]; simp
    · rw [c, c1, d1, List.flatten_cons, List.zipIdx_append]; simp
    · rw [d, d1]; simp [Nat.add_assoc]

/-- the corner numbering as written in the source produces the model's corner faces, corner vertices and
`duplicate_vertices` (as the list of pairs (input vertex, corner)) -/
theorem cornerLoop_bridge (F : List Face) :
    (C16.cornerLoop F).faces = cornerFaces F ∧ (C16.cornerLoop F).verts = cornerVerts F ∧
    (C16.cornerLoop F).dup = (cornerVerts F).zipIdx ∧ (C16.cornerLoop F).kF = (cornerVerts F).length := by
  obtain ⟨a, b, c, d⟩ := foldl_cornerStep F { faces := [], verts := [], dup := [], kF := 0 }
  unfold C16.cornerLoop cornerFaces cornerVerts
  exact ⟨by simpa using a, by simpa using b, by simpa using c, by simpa using d⟩

/-! ### the union loop -/

theorem foldl_unionStep_none (F : List Face) (E : List (Nat × Nat)) (cut : List Nat) (CF : List (List Nat)) :
    ∀ l : List Nat, l.foldl (C16.unionStep F E cut CF) none = none
  | [] => rfl
  | _ :: l => by rw [List.foldl_cons]; exact foldl_unionStep_none F E cut CF l

theorem uncutPairs_cons (E : List (Nat × Nat)) (e : Nat) (r cut : List Nat) :
    uncutPairs E (e :: r) cut =
      if !(cut.contains e) then E.getD e (0, 0) :: uncutPairs E r cut else uncutPairs E r cut := by
  unfold uncutPairs
  by_cases h : e ∈ cut
  · simp [List.filter_cons, h]
  · simp [List.filter_cons, h]

/-- one iteration: the guard `e not in cut_edges`, the two `direct_face` lookups in the order `(a,b)`, `(b,a)` and the two
unions `A–A`, `B–B` are the model's `gluePairs` followed by two `union`s -/
theorem unionStep_eq (F : List Face) (E : List (Nat × Nat)) (cut : List Nat) (CF : List (List Nat)) (s0 : UF.State)
    (e : Nat) :
    C16.unionStep F E cut CF (some s0) e =
      if !(cut.contains e) then
        (gluePairs (halfEdges F) CF (E.getD e (0, 0))).map
          (fun pq => UF.union (UF.union s0 pq.1.1 pq.1.2) pq.2.1 pq.2.2)
      else some s0 := by
  unfold C16.unionStep gluePairs directFaceOf faceAt edgeEnds
  simp only []
  by_cases hc : cut.contains e = true
  · have hc' : e ∈ cut := by simpa using hc
    simp [hc']
  · simp only [hc, Bool.not_false, if_true, Bool.false_eq_true, not_false_eq_true]
    split <;> rename_i h1 h2
    · simp only [h1, h2]
      split <;> simp_all
    · split
      · rename_i h3 h4
        exfalso
        exact h2 _ _ _ _ _ _ h3 h4
      · rfl

theorem unionLoop_bridge (F : List Face) (E : List (Nat × Nat)) (cut : List Nat) :
    ∀ (interior : List Nat) (s0 : UF.State),
      C16.unionLoop F E cut (cornerFaces F) interior s0 =
        (unionPairs (halfEdges F) (cornerFaces F) (uncutPairs E interior cut)).map (applyUnions s0)
  | [], s0 => by simp [C16.unionLoop, uncutPairs, unionPairs, applyUnions]
  | e :: r, s0 => by
    have ih := unionLoop_bridge F E cut r
    unfold C16.unionLoop at ih ⊢
    rw [List.foldl_cons, unionStep_eq, uncutPairs_cons]
    by_cases hc : cut.contains e = true
    · simp only [hc, Bool.not_true, Bool.false_eq_true, if_false]
      exact ih s0
    · simp only [hc, Bool.not_false, if_true]
      cases hg : gluePairs (halfEdges F) (cornerFaces F) (E.getD e (0, 0)) with
      | none =>
        simp only [Option.map_none, unionPairs, hg]
        exact foldl_unionStep_none F E cut _ r
      | some pq =>
        obtain ⟨p, q⟩ := pq
        simp only [Option.map_some, unionPairs, hg]
        rw [ih]
        cases unionPairs (halfEdges F) (cornerFaces F) (uncutPairs E r cut) with
        | none => rfl
        | some l => simp [applyUnions]

/-! ### the `imap` numbering loop -/

theorem imapInner_spec (s : ImapSt) (v : Nat) (h : s.i = s.imap.length) :
    (C16.imapInner s v).imap = imapStep s.imap v ∧ (C16.imapInner s v).i = (C16.imapInner s v).imap.length := by
  unfold C16.imapInner imapStep dhas dput
  by_cases hv : (s.imap.lookup v).isSome = true
  · simp [hv, h]
  · simp [hv, h]

theorem foldl_imapInner : ∀ (l : List Nat) (s : ImapSt), s.i = s.imap.length →
    (l.foldl C16.imapInner s).imap = l.foldl imapStep s.imap ∧
    (l.foldl C16.imapInner s).i = (l.foldl C16.imapInner s).imap.length
  | [], _, h => ⟨rfl, h⟩
  | v :: l, s, h => by
    rw [List.foldl_cons, List.foldl_cons]
    obtain ⟨a, b⟩ := imapInner_spec s v h
    obtain ⟨c, d⟩ := foldl_imapInner l _ b
    exact ⟨by rw [c, a], d⟩

theorem foldl_foldl_imapInner : ∀ (L : List (List Nat)) (s : ImapSt), s.i = s.imap.length →
    (L.foldl (fun s f => f.foldl C16.imapInner s) s).imap = L.flatten.foldl imapStep s.imap ∧
    (L.foldl (fun s f => f.foldl C16.imapInner s) s).i = (L.foldl (fun s f => f.foldl C16.imapInner s) s).imap.length
  | [], _, h => ⟨rfl, h⟩
  | f :: L, s, h => by
    rw [List.foldl_cons, List.flatten_cons, List.foldl_append]
    obtain ⟨a, b⟩ := foldl_imapInner f s h
    obtain ⟨c, d⟩ := foldl_foldl_imapInner L _ b
    exact ⟨by rw [c, a], d⟩

/-- the numbering loop as written in the source builds the model's `imap`, and its counter `i` is `len(imap)` -/
theorem imapLoop_bridge (faces : List (List Nat)) :
    (C16.imapLoop faces).imap = buildImap faces ∧ (C16.imapLoop faces).i = (buildImap faces).length := by
  obtain ⟨a, b⟩ := foldl_foldl_imapInner faces { imap := [], i := 0 } rfl
  unfold C16.imapLoop buildImap
  exact ⟨a, by rw [b, a]⟩

end Mouette.CutSrc
