import Mathlib.Tactic.Linarith
import Mathlib.Data.List.Basic
import Mathlib.Data.List.Perm.Subperm
import Mouette.Model.Dijkstra
/-
Helper lemmas for C09: contract of the abstract `pop`, paths with weights, point updates, counting.
-/
namespace Mouette.Dijkstra
open Mouette.PQ

/-- Contract of `heapq.heappop` used by the proofs: it returns *some* pending item of minimum priority and
leaves the other pending items (as a multiset). Every tie-breaking satisfies it. -/
structure PopOK (pop : Pop) : Prop where
  none_iff : ∀ q, pop q = none ↔ q = []
  perm : ∀ q e q', pop q = some (e, q') → (e :: q').Perm q
  min : ∀ q e q', pop q = some (e, q') → ∀ e' ∈ q, Prio.le e.2 e'.2 = true

def NonNeg (adj : Adj) : Prop := ∀ u, ∀ e ∈ adj u, (0 : Rat) ≤ e.2
/-- every neighbour is a vertex id `< n` (the dicts of the code are initialised over these ids) -/
def WF (adj : Adj) (n : Nat) : Prop := ∀ u, ∀ e ∈ adj u, e.1 < n

/-- `PathW adj a t l W`: `l` is a vertex list from `a` to `t`, consecutive vertices adjacent, total weight `W`
(for some choice of parallel adjacencies). -/
inductive PathW (adj : Adj) : Nat → Nat → List Nat → Rat → Prop
  | single (a : Nat) : PathW adj a a [a] 0
  | cons {a b t : Nat} {l : List Nat} {w W : Rat} :
      (b, w) ∈ adj a → PathW adj b t l W → PathW adj a t (a :: l) (w + W)

theorem PathW.head {adj a t l W} (h : PathW adj a t l W) : l.head? = some a := by
  cases h <;> rfl

theorem PathW.ne_nil {adj a t l W} (h : PathW adj a t l W) : l ≠ [] := by
  cases h <;> simp

theorem PathW.last {adj a t l W} (h : PathW adj a t l W) : l.getLast? = some t := by
  induction h with
  | single a => rfl
  | @cons a b t l w W _ hp ih =>
    cases l with
    | nil => exact absurd rfl hp.ne_nil
    | cons x xs => simpa [List.getLast?_cons_cons] using ih

theorem PathW.snoc {adj a t l W} (h : PathW adj a t l W) {x : Nat} {w : Rat} (hx : (x, w) ∈ adj t) :
    PathW adj a x (l ++ [x]) (W + w) := by
  induction h with
  | single a =>
    have := PathW.cons hx (PathW.single (adj := adj) x)
    simpa using this
  | @cons a b t l w' W hab _ ih =>
    have := PathW.cons hab (ih hx)
    have e : w' + (W + w) = w' + W + w := (add_assoc _ _ _).symm
    rw [e] at this
    simpa using this

theorem PathW.weight_nonneg {adj a t l W} (hnn : NonNeg adj) (h : PathW adj a t l W) : 0 ≤ W := by
  induction h with
  | single a => exact le_refl _
  | @cons a b t l w W hab _ ih =>
    have := hnn a _ hab
    simp at this
    linarith

theorem PathW.mem_lt {adj a t l W n} (hwf : WF adj n) (ha : a < n) (h : PathW adj a t l W) : ∀ x ∈ l, x < n := by
  induction h with
  | single a => intro x hx; simp at hx; omega
  | @cons a b t l w W hab _ ih =>
    intro x hx
    have hb : b < n := hwf a _ hab
    rcases List.mem_cons.mp hx with h | h
    · omega
    · exact ih hb x h

/-- monotonicity in the adjacency -/
theorem PathW.mono {adj adj' : Adj} {a t l W} (h : PathW adj a t l W)
    (hsub : ∀ u ∈ l, ∀ e ∈ adj u, e ∈ adj' u) : PathW adj' a t l W := by
  induction h with
  | single a => exact PathW.single a
  | @cons a b t l w W hab hp ih =>
    refine PathW.cons (hsub a (by simp) _ hab) (ih ?_)
    intro u hu e he
    exact hsub u (List.mem_cons_of_mem _ hu) e he

@[simp] theorem upd_same {α} (f : Nat → α) (i : Nat) (a : α) : upd f i a i = a := by simp [upd]
theorem upd_ne {α} (f : Nat → α) {i j : Nat} (a : α) (h : j ≠ i) : upd f i a j = f j := by simp [upd, h]

theorem gt_true_iff (x : Option Rat) (d : Rat) : gt x (some d) = true ↔ (x = none ∨ ∃ a, x = some a ∧ d < a) := by
  cases x with
  | none => simp [gt]
  | some a => simp [gt]

theorem gt_false_iff (x : Option Rat) (d : Rat) : gt x (some d) = false ↔ ∃ a, x = some a ∧ a ≤ d := by
  cases x with
  | none => simp [gt]
  | some a => simp [gt]

theorem prio_le_fin (a b : Rat) : Prio.le (.fin a) (.fin b) = true ↔ a ≤ b := by simp [Prio.le]

/-- pigeonhole: a duplicate-free list of ids `< n` has at most `n` elements -/
theorem nodup_length_le {l : List Nat} {n : Nat} (hd : l.Nodup) (hs : ∀ x ∈ l, x < n) : l.length ≤ n := by
  have h : l ⊆ List.range n := fun x hx => List.mem_range.mpr (hs x hx)
  have := (List.Nodup.subperm hd h).length_le
  simpa using this

/-! ### the executable `PQ.pop` satisfies the contract -/

theorem prio_le_total (a b : Prio) : Prio.le a b = true ∨ Prio.le b a = true := by
  cases a <;> cases b <;> simp [Prio.le]
  exact le_total _ _

theorem prio_le_trans {a b c : Prio} (h1 : Prio.le a b = true) (h2 : Prio.le b c = true) : Prio.le a c = true := by
  cases a <;> cases b <;> cases c <;> simp_all [Prio.le]
  exact le_trans h1 h2

theorem exists_min (q : Queue) (hq : q ≠ []) : ∃ e ∈ q, ∀ e' ∈ q, Prio.le e.2 e'.2 = true := by
  induction q with
  | nil => exact absurd rfl hq
  | cons x xs ih =>
    cases xs with
    | nil =>
      refine ⟨x, by simp, ?_⟩
      intro e' he'
      simp at he'
      subst he'
      rcases prio_le_total e'.2 e'.2 with h | h <;> exact h
    | cons y ys =>
      obtain ⟨m, hm, hmin⟩ := ih (by simp)
      rcases prio_le_total x.2 m.2 with h | h
      · refine ⟨x, by simp, ?_⟩
        intro e' he'
        rcases List.mem_cons.mp he' with h' | h'
        · subst h'; rcases prio_le_total e'.2 e'.2 with h'' | h'' <;> exact h''
        · exact prio_le_trans h (hmin e' h')
      · refine ⟨m, List.mem_cons_of_mem _ hm, ?_⟩
        intro e' he'
        rcases List.mem_cons.mp he' with h' | h'
        · subst h'; exact h
        · exact hmin e' h'

theorem popOK_firstMin : PopOK PQ.pop := by
  refine ⟨?_, ?_, ?_⟩
  · intro q
    constructor
    · intro h
      by_contra hq
      obtain ⟨m, hm, hmin⟩ := exists_min q hq
      have : firstMin q = none := by
        unfold PQ.pop at h
        cases hf : firstMin q with
        | none => rfl
        | some e => rw [hf] at h; simp at h
      unfold firstMin at this
      rw [List.find?_eq_none] at this
      have := this m hm
      apply this
      simp only [isMin, List.all_eq_true]
      exact hmin
    · intro h; subst h; rfl
  · intro q e q' h
    unfold PQ.pop at h
    cases hf : firstMin q with
    | none => rw [hf] at h; simp at h
    | some e0 =>
      rw [hf] at h
      simp at h
      obtain ⟨rfl, rfl⟩ := h
      unfold firstMin at hf
      have hm := List.mem_of_find?_eq_some hf
      exact (List.perm_cons_erase hm).symm
  · intro q e q' h
    unfold PQ.pop at h
    cases hf : firstMin q with
    | none => rw [hf] at h; simp at h
    | some e0 =>
      rw [hf] at h
      simp at h
      obtain ⟨rfl, rfl⟩ := h
      unfold firstMin at hf
      have hp := List.find?_some hf
      simp only [isMin, List.all_eq_true] at hp
      exact hp

end Mouette.Dijkstra
