import Mouette.Model.Operators
import Mouette.Lemmas.MassEdges
import Mathlib.Data.List.Nodup
import Mathlib.Tactic.Linarith
/-
C08: the manifold edge/face incidence predicate `EdgeFaceIncidence` (every face is met three times by the edge walk) DERIVED from the
natural hypotheses on an oriented triangulated manifold and its edge list:
  * every face is a triangle with three distinct vertices,
  * no directed side belongs to two faces (oriented manifold: `allSides` has no duplicates),
  * the edge list contains every undirected side exactly once (in one of its two orientations).
-/
namespace Mouette.Ops
open Mouette.Geom

def swapP (e : Nat × Nat) : Nat × Nat := (e.2, e.1)

/-- triangles with distinct vertices, and no directed side in two faces -/
def OrientedTriangulation (faces : List Face) : Prop :=
  (∀ f ∈ faces, ∃ a b c, f = [a, b, c] ∧ a ≠ b ∧ b ≠ c ∧ c ≠ a) ∧ (allSides faces).Nodup

/-- the edge list holds every undirected side of the faces exactly once -/
def EdgesAreSides (faces : List Face) (es : List (Nat × Nat)) : Prop :=
  ∀ s ∈ allSides faces, es.count s + es.count (swapP s) = 1

theorem sides_tri (a b c : Nat) : sides [a, b, c] = [(a, b), (b, c), (c, a)] := by
  simp [sides, List.range, List.range.loop]

theorem sideIndex_some_mem (f : Face) (x y i : Nat) (h : sideIndex f x y = some i) : (x, y) ∈ sides f := by
  unfold sideIndex at h
  have hp := List.find?_some h
  have hm := List.mem_of_find?_eq_some h
  simp only [Bool.and_eq_true, beq_iff_eq] at hp
  unfold sides
  simp only [List.mem_map]
  exact ⟨i, hm, by rw [hp.1, hp.2]⟩

theorem sideIndex_none_not_mem (f : Face) (x y : Nat) (h : sideIndex f x y = none) : (x, y) ∉ sides f := by
  unfold sideIndex at h
  rw [List.find?_eq_none] at h
  unfold sides
  simp only [List.mem_map, not_exists, not_and]
  intro i hi heq
  have := h i hi
  simp only [Bool.and_eq_true, beq_iff_eq, not_and] at this
  have h1 : f.getD i 0 = x := (Prod.mk.inj heq).1
  have h2 : f.getD ((i + 1) % f.length) 0 = y := (Prod.mk.inj heq).2
  exact this h1 h2

theorem dfa_none (fs : List Face) (t0 x y : Nat) (h : directFaceAux fs t0 x y = none) : ∀ f ∈ fs, (x, y) ∉ sides f := by
  induction fs generalizing t0 with
  | nil => intro f hf; simp at hf
  | cons g gs ih =>
    unfold directFaceAux at h
    cases hs : sideIndex g x y with
    | some i => rw [hs] at h; simp at h
    | none =>
      rw [hs] at h
      intro f hf
      rcases List.mem_cons.mp hf with rfl | hf'
      · exact sideIndex_none_not_mem _ x y hs
      · exact ih (t0 + 1) h f hf'

theorem dfa_some (fs : List Face) (t0 x y : Nat) (r : Nat × Nat × Nat) (h : directFaceAux fs t0 x y = some r) :
    ∃ k, k < fs.length ∧ r.1 = t0 + k ∧ (x, y) ∈ sides (fs.getD k []) := by
  induction fs generalizing t0 with
  | nil => simp [directFaceAux] at h
  | cons g gs ih =>
    unfold directFaceAux at h
    cases hs : sideIndex g x y with
    | some i =>
      rw [hs] at h
      simp only [Option.some.injEq] at h
      subst h
      exact ⟨0, by simp, by simp, by simpa using sideIndex_some_mem g x y i hs⟩
    | none =>
      rw [hs] at h
      obtain ⟨k, hk, hr, hm⟩ := ih (t0 + 1) h
      exact ⟨k + 1, by simp [hk], by omega, by simpa using hm⟩

theorem side_unique (faces : List Face) (hn : (allSides faces).Nodup) (s : Nat × Nat) (k t : Nat)
    (hk : k < faces.length) (ht : t < faces.length)
    (h1 : s ∈ sides (faces.getD k [])) (h2 : s ∈ sides (faces.getD t [])) : k = t := by
  unfold allSides at hn
  rw [List.nodup_flatten] at hn
  have hp := hn.2
  rw [List.pairwise_iff_getElem] at hp
  have e1 : faces.getD k [] = faces[k] := by simp [List.getD, hk]
  have e2 : faces.getD t [] = faces[t] := by simp [List.getD, ht]
  rw [e1] at h1; rw [e2] at h2
  by_contra hne
  rcases Nat.lt_or_gt_of_ne hne with hlt | hgt
  · have := hp k t (by simpa using hk) (by simpa using ht) hlt
    simp only [List.getElem_map] at this
    exact this h1 h2
  · have := hp t k (by simpa using ht) (by simpa using hk) hgt
    simp only [List.getElem_map] at this
    exact this h2 h1

/-- under the oriented-manifold hypothesis `direct_face(x,y)` is THE face having the directed side `(x,y)` -/
theorem directFace_eq_iff (faces : List Face) (hn : (allSides faces).Nodup) (x y t : Nat) (ht : t < faces.length) :
    (directFace faces x y).map (·.1) = some t ↔ (x, y) ∈ sides (faces.getD t []) := by
  unfold directFace
  constructor
  · intro h
    cases hd : directFaceAux faces 0 x y with
    | none => rw [hd] at h; simp at h
    | some r =>
      rw [hd] at h
      simp only [Option.map_some, Option.some.injEq] at h
      obtain ⟨k, hk, hr, hm⟩ := dfa_some faces 0 x y r hd
      have : k = t := by omega
      subst this; exact hm
  · intro h
    cases hd : directFaceAux faces 0 x y with
    | none =>
      have := dfa_none faces 0 x y hd (faces.getD t []) (by simp [List.getD, ht])
      exact absurd h this
    | some r =>
      obtain ⟨k, hk, hr, hm⟩ := dfa_some faces 0 x y r hd
      have := side_unique faces hn (x, y) k t hk ht hm h
      simp only [Option.map_some, Option.some.injEq]; omega

theorem count_toList (o : Option Nat) (t : Nat) : o.toList.count t = if o = some t then 1 else 0 := by
  cases o with
  | none => simp
  | some a => by_cases h : a = t <;> simp [h]

theorem count_edgeFaceList (faces : List Face) (hn : (allSides faces).Nodup) (e : Nat × Nat) (t : Nat) (ht : t < faces.length) :
    (edgeFaceList faces e).count t
      = (if e ∈ sides (faces.getD t []) then 1 else 0) + (if swapP e ∈ sides (faces.getD t []) then 1 else 0) := by
  unfold edgeFaceList edgeFaces
  simp only [List.count_append, count_toList]
  have a := directFace_eq_iff faces hn e.1 e.2 t ht
  have b := directFace_eq_iff faces hn e.2 e.1 t ht
  simp only [Prod.mk.eta] at a
  unfold swapP
  by_cases h1 : e ∈ sides (faces.getD t []) <;> by_cases h2 : (e.2, e.1) ∈ sides (faces.getD t []) <;>
    simp [h1, h2, a, b]

theorem sum_map_add' {α} (L : List α) (f g : α → Nat) :
    (L.map (fun a => f a + g a)).sum = (L.map f).sum + (L.map g).sum := by
  induction L with
  | nil => rfl
  | cons a L ih => simp only [List.map_cons, List.sum_cons, ih]; omega

theorem sum_ind_eq_count (es : List (Nat × Nat)) (a : Nat × Nat) :
    (es.map (fun e => if e = a then 1 else 0)).sum = es.count a := by
  induction es with
  | nil => rfl
  | cons e es ih =>
    simp only [List.map_cons, List.sum_cons, ih, List.count_cons]
    by_cases h : e = a <;> simp [h] <;> omega

theorem sum_mem_eq_sum_count (S es : List (Nat × Nat)) (hS : S.Nodup) :
    (es.map (fun e => if e ∈ S then 1 else 0)).sum = (S.map (fun s => es.count s)).sum := by
  induction S with
  | nil => simp
  | cons a S ih =>
    have hn := List.nodup_cons.mp hS
    have e1 : es.map (fun e => if e ∈ a :: S then 1 else 0)
        = es.map (fun e => (if e = a then 1 else 0) + (if e ∈ S then 1 else 0)) := by
      apply List.map_congr_left
      intro e _
      by_cases h1 : e = a
      · subst h1; simp [hn.1]
      · simp [h1]
    rw [e1, sum_map_add', sum_ind_eq_count, ih hn.2]
    simp

theorem count_map_swap (es : List (Nat × Nat)) (s : Nat × Nat) : (es.map swapP).count s = es.count (swapP s) := by
  induction es with
  | nil => rfl
  | cons e es ih =>
    simp only [List.map_cons, List.count_cons, ih]
    have : (swapP e == s) = (e == swapP s) := by
      unfold swapP
      rcases e with ⟨e1, e2⟩; rcases s with ⟨s1, s2⟩
      simp only [beq_iff_eq, Prod.mk.injEq, Bool.beq_eq_decide_eq]
      by_cases h1 : e2 = s1 <;> by_cases h2 : e1 = s2 <;> simp [h1, h2]
    rw [this]

theorem sum_swap_mem_eq_sum_count (S es : List (Nat × Nat)) (hS : S.Nodup) :
    (es.map (fun e => if swapP e ∈ S then 1 else 0)).sum = (S.map (fun s => es.count (swapP s))).sum := by
  have := sum_mem_eq_sum_count S (es.map swapP) hS
  simp only [List.map_map, Function.comp_def, count_map_swap] at this
  exact this

theorem sides_sub_allSides (faces : List Face) (t : Nat) (ht : t < faces.length) :
    ∀ s ∈ sides (faces.getD t []), s ∈ allSides faces := by
  intro s hs
  unfold allSides
  simp only [List.mem_flatten, List.mem_map]
  exact ⟨sides (faces.getD t []), ⟨faces.getD t [], by simp [List.getD, ht], rfl⟩, hs⟩

/-- **derivation of the incidence predicate**: on an oriented triangulated manifold whose edge list holds every undirected side once,
every face is met exactly three times by the edge walk -/
theorem edgeFaceIncidence_of_manifold (faces : List Face) (es : List (Nat × Nat))
    (hm : OrientedTriangulation faces) (he : EdgesAreSides faces es) : EdgeFaceIncidence faces es := by
  intro t ht
  obtain ⟨htri, hn⟩ := hm
  have hmem : faces.getD t [] ∈ faces := by simp [List.getD, ht]
  obtain ⟨a, b, c, hf, _, _, _⟩ := htri _ hmem
  have hSn : (sides (faces.getD t [])).Nodup := by
    have h := hn
    unfold allSides at h
    rw [List.nodup_flatten] at h
    exact h.1 _ (List.mem_map.mpr ⟨_, hmem, rfl⟩)
  unfold edgeFaceIncidences
  rw [List.count_flatMap]
  have e1 : es.map (fun e => (edgeFaceList faces e).count t)
      = es.map (fun e => (if e ∈ sides (faces.getD t []) then 1 else 0) + (if swapP e ∈ sides (faces.getD t []) then 1 else 0)) := by
    apply List.map_congr_left
    intro e _
    exact count_edgeFaceList faces hn e t ht
  simp only [Function.comp_def]
  rw [e1, sum_map_add', sum_mem_eq_sum_count _ es hSn, sum_swap_mem_eq_sum_count _ es hSn, ← sum_map_add']
  have e2 : (sides (faces.getD t [])).map (fun s => es.count s + es.count (swapP s))
      = (sides (faces.getD t [])).map (fun _ => 1) := by
    apply List.map_congr_left
    intro s hs
    exact he s (sides_sub_allSides faces t ht s hs)
  rw [e2, hf, sides_tri]
  rfl

/-- **massEdges_total from the natural hypotheses** -/
theorem massEdges_total_of_manifold (ar : Nat → Rat) (faces : List Face) (es : List (Nat × Nat))
    (hm : OrientedTriangulation faces) (he : EdgesAreSides faces es) :
    total (massEdges ar faces es) = sumAr ar faces.length :=
  massEdges_total' ar faces es (edgeFaceIncidence_of_manifold faces es hm he)

end Mouette.Ops
