import Mouette.Lemmas.VolSpec
/-!
The hypothesis `Conforming` of the C03 theorems, and its derivation from the Boolean flag
`Mesh.conforming` that the protocol driver evaluates on every generated mesh (`wf 1 …`).
-/
namespace Mouette.Vol
open Mesh

/-- tetrahedral cells with 4 distinct in-range vertices; the face container holds every vertex triple
of every cell exactly once (and nothing else); every triangle lies in at most two cells -/
structure Conforming (m : Mesh) : Prop where
  cell4 : ∀ c < m.nC, (m.cell c).length = 4
  cellNodup : ∀ c < m.nC, (m.cell c).Nodup
  cellRange : ∀ c < m.nC, ∀ v ∈ m.cell c, v < m.nV
  faceKeys : (m.faces.map key).Nodup
  face3 : ∀ f < m.nF, (m.face f).length = 3
  faceInCell : ∀ f < m.nF, ∃ c < m.nC, ∃ i < 4, key (subFace (m.cell c) i) = key (m.face f)
  faceFound : ∀ c < m.nC, ∀ i < 4, (m.faceId (subFace (m.cell c) i)).isSome
  atMostTwo : ∀ f < m.nF, (m.conn.faceToCells f).length ≤ 2

variable {m : Mesh}

theorem cell_mem {c : Nat} (hc : c < m.nC) : m.cell c ∈ m.cells := by
  rw [cell_eq_getElem hc]; exact List.getElem_mem _

theorem face_mem {f : Nat} (hf : f < m.nF) : m.face f ∈ m.faces := by
  rw [face_eq_getElem hf]; exact List.getElem_mem _

theorem exists_cell_of_mem {C : List Nat} (hC : C ∈ m.cells) : ∃ c < m.nC, m.cell c = C := by
  obtain ⟨c, hc, rfl⟩ := List.mem_iff_getElem.1 hC
  exact ⟨c, hc, cell_eq_getElem hc⟩

theorem conforming_of_flag (h : m.conforming = true) : Conforming m := by
  unfold Mesh.conforming at h
  simp only [Bool.and_eq_true] at h
  obtain ⟨⟨⟨hc, hf⟩, ht⟩, _⟩ := h
  unfold Mesh.cellsOk at hc
  rw [List.all_eq_true] at hc
  unfold Mesh.facesComplete at hf
  simp only [Bool.and_eq_true, decide_eq_true_eq] at hf
  obtain ⟨⟨hk, hfa⟩, hfo⟩ := hf
  rw [List.all_eq_true] at hfa hfo
  unfold Mesh.atMostTwo at ht
  simp only at ht
  rw [List.all_eq_true] at ht
  refine ⟨?_, ?_, ?_, hk, ?_, ?_, ?_, ?_⟩
  · intro c hcl
    have := hc _ (cell_mem hcl)
    simp only [Bool.and_eq_true, beq_iff_eq] at this
    exact this.1.1
  · intro c hcl
    have := hc _ (cell_mem hcl)
    simp only [Bool.and_eq_true, decide_eq_true_eq] at this
    exact this.1.2
  · intro c hcl v hv
    have := hc _ (cell_mem hcl)
    simp only [Bool.and_eq_true, List.all_eq_true, decide_eq_true_eq] at this
    exact this.2 v hv
  · intro f hfl
    have := hfa _ (face_mem hfl)
    simp only [Bool.and_eq_true, beq_iff_eq] at this
    exact this.1
  · intro f hfl
    have := hfa _ (face_mem hfl)
    simp only [Bool.and_eq_true, List.any_eq_true, List.mem_range, beq_iff_eq] at this
    obtain ⟨C, hC, i, hi, hki⟩ := this.2
    obtain ⟨c, hcl, rfl⟩ := exists_cell_of_mem hC
    exact ⟨c, hcl, i, hi, hki⟩
  · intro c hcl i hi
    have := hfo _ (cell_mem hcl)
    rw [List.all_eq_true] at this
    exact this i (List.mem_range.2 hi)
  · intro f hfl
    have := ht f (List.mem_range.2 hfl)
    simpa using this

/-- under `Conforming` every stored face lies in at least one cell -/
theorem faceToCells_ne_nil (h : Conforming m) {f : Nat} (hf : f < m.nF) : m.conn.faceToCells f ≠ [] := by
  obtain ⟨c, hc, i, hi, hk⟩ := h.faceInCell f hf
  have : c ∈ m.conn.faceToCells f := by
    rw [faceToCells_spec h.faceKeys hf]
    refine ⟨hc, i, hi, ?_⟩
    rw [← subFace_eq_eraseIdx]
    exact key_eq_iff_perm.1 hk.symm
  intro hnil; rw [hnil] at this; cases this

end Mouette.Vol
