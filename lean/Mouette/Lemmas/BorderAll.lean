import Mouette.Lemmas.BorderMesh
/-! C15: `extract_border_cycle_all` returns every `w0`-orbit of boundary vertices exactly once. -/
namespace Mouette.Border
open Mouette.Surface

/-- one iteration of the loop of `extract_border_cycle_all` -/
def stepAll (S : Surf) (bv : List Nat) (acc : List Nat × List (List Nat × List (Option Nat))) (v : Nat) :
    List Nat × List (List Nat × List (Option Nat)) :=
  if acc.1.contains v then acc
  else match extractBorderCycle S bv v with
    | none => acc
    | some c => (acc.1 ++ c.1, acc.2 ++ [c])

theorem cyclesAll_eq (S : Surf) (bv : List Nat) : cyclesAll S bv = (bv.foldl (stepAll S bv) ([], [])).2 := by
  unfold cyclesAll
  rfl

section
variable {S : Surf} {bv : List Nat} {w0 : Nat → Nat}

/-- invariant of the loop: the visited list is the concatenation of the cycles found so far, it is a
duplicate-free union of full orbits (closed under the inverse of `w0`), made of boundary vertices, and
every cycle is what `extract_border_cycle` returns from one of its vertices -/
structure AllInv (S : Surf) (bv : List Nat) (w0 : Nat → Nat)
    (acc : List Nat × List (List Nat × List (Option Nat))) : Prop where
  flat : acc.1 = acc.2.flatMap (·.1)
  back : ∀ y ∈ bv, w0 y ∈ acc.1 → y ∈ acc.1
  nodup : acc.1.Nodup
  sub : ∀ x ∈ acc.1, x ∈ bv
  cyc : ∀ c ∈ acc.2, ∃ u ∈ bv, extractBorderCycle S bv u = some c

theorem stepAll_inv (h : WalkHyp S bv w0) (hnv : bv.length ≤ S.nv) {acc} (hI : AllInv S bv w0 acc) {v : Nat}
    (hv : v ∈ bv) :
    AllInv S bv w0 (stepAll S bv acc v) ∧ (∀ x ∈ acc.1, x ∈ (stepAll S bv acc v).1) ∧ v ∈ (stepAll S bv acc v).1 := by
  unfold stepAll
  by_cases hc : acc.1.contains v = true
  · rw [if_pos hc]
    exact ⟨hI, fun x hx => hx, List.contains_iff_mem.mp hc⟩
  · rw [if_neg hc]
    have hvn : v ∉ acc.1 := fun hm => hc (List.contains_iff_mem.mpr hm)
    obtain ⟨d, hd, hret, hmin⟩ := orbit_returns h hv
    have hcyc := extractBorderCycle_eq h hv d (by omega) hret hmin
    rw [hcyc]
    simp only
    have horb : ∀ x, x ∈ (List.range (d + 1)).map (fun t => iter w0 t v) ↔ x ∈ orbit w0 d v := fun x => Iff.rfl
    refine ⟨{ flat := ?_, back := ?_, nodup := ?_, sub := ?_, cyc := ?_ }, ?_, ?_⟩
    · rw [List.flatMap_append, ← hI.flat]; simp
    · intro y hy hw
      rcases List.mem_append.mp hw with h1 | h1
      · exact List.mem_append.mpr (Or.inl (hI.back y hy h1))
      · exact List.mem_append.mpr (Or.inr (orbit_back_closed h hv hret hy h1))
    · rw [List.nodup_append]
      refine ⟨hI.nodup, orbit_nodup h hv d hmin, ?_⟩
      intro a ha b hb hab
      subst hab
      obtain ⟨t, _, rfl⟩ := List.mem_map.mp hb
      exact iter_not_mem_of_back_closed h hI.back hv hvn t ha
    · intro x hx
      rcases List.mem_append.mp hx with h1 | h1
      · exact hI.sub x h1
      · obtain ⟨t, _, rfl⟩ := List.mem_map.mp h1
        exact iter_mem h hv t
    · intro c hc'
      rcases List.mem_append.mp hc' with h1 | h1
      · exact hI.cyc c h1
      · rw [List.mem_singleton] at h1
        exact ⟨v, hv, by rw [h1]; exact hcyc⟩
    · intro x hx; exact List.mem_append.mpr (Or.inl hx)
    · refine List.mem_append.mpr (Or.inr ?_)
      exact List.mem_map.mpr ⟨0, by simp, rfl⟩

theorem foldl_stepAll_inv (h : WalkHyp S bv w0) (hnv : bv.length ≤ S.nv) :
    ∀ (l : List Nat) acc, (∀ v ∈ l, v ∈ bv) → AllInv S bv w0 acc →
      AllInv S bv w0 (l.foldl (stepAll S bv) acc) ∧
      (∀ x ∈ acc.1, x ∈ (l.foldl (stepAll S bv) acc).1) ∧ (∀ v ∈ l, v ∈ (l.foldl (stepAll S bv) acc).1) := by
  intro l
  induction l with
  | nil => intro acc _ hI; exact ⟨hI, fun x hx => hx, fun v hv => absurd hv List.not_mem_nil⟩
  | cons a rest ih =>
    intro acc hl hI
    rw [List.foldl_cons]
    obtain ⟨h1, h2, h3⟩ := stepAll_inv h hnv hI (hl a List.mem_cons_self)
    obtain ⟨g1, g2, g3⟩ := ih _ (fun v hv => hl v (List.mem_cons_of_mem _ hv)) h1
    refine ⟨g1, fun x hx => g2 x (h2 x hx), ?_⟩
    intro v hv
    rcases List.mem_cons.mp hv with rfl | hv'
    · exact g2 _ h3
    · exact g3 v hv'

/-- **all cycles**: the vertex lists of the cycles, concatenated, are a permutation of the boundary
vertices (every boundary vertex lies on exactly one returned cycle, no cycle is returned twice), and every
cycle is `extract_border_cycle` of one of its vertices -/
theorem cyclesAll_correct (h : WalkHyp S bv w0) (hnv : bv.length ≤ S.nv) (hnd : bv.Nodup) :
    ((cyclesAll S bv).flatMap (·.1)).Perm bv ∧
    ∀ c ∈ cyclesAll S bv, ∃ u ∈ bv, extractBorderCycle S bv u = some c := by
  have h0 : AllInv S bv w0 ([], []) :=
    { flat := rfl, back := fun _ _ hw => absurd hw List.not_mem_nil, nodup := List.nodup_nil,
      sub := fun _ hx => absurd hx List.not_mem_nil, cyc := fun _ hc => absurd hc List.not_mem_nil }
  obtain ⟨hI, _, hcov⟩ := foldl_stepAll_inv h hnv bv ([], []) (fun v hv => hv) h0
  rw [cyclesAll_eq]
  refine ⟨?_, hI.cyc⟩
  rw [← hI.flat]
  exact (List.subperm_of_subset hI.nodup hI.sub).antisymm (List.subperm_of_subset hnd hcov)

end

end Mouette.Border
