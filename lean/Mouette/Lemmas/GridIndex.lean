/-!
Indexing of row-major nested `flatMap`s (core Lean only): the element emitted at loop indices `(i, j)` sits at position
`i * n + j` — "vertex k of the grid is the point (k / n, k % n)".
-/
namespace Mouette.GridIndex

theorem length_row {α} (n : Nat) (g : Nat → α) : ((List.range n).flatMap fun j => [g j]).length = n := by
  induction n with
  | zero => simp
  | succ n ih => rw [List.range_succ, List.flatMap_append, List.length_append, ih]; simp

theorem getElem?_flatMap_const {α} (m c : Nat) (f : Nat → List α) (hlen : ∀ i, (f i).length = c) (i k : Nat)
    (hi : i < m) (hk : k < c) : ((List.range m).flatMap f)[i * c + k]? = (f i)[k]? := by
  induction m generalizing i with
  | zero => omega
  | succ m ih =>
    have hL : ∀ n, ((List.range n).flatMap f).length = n * c := by
      intro n
      induction n with
      | zero => simp
      | succ n ihn => rw [List.range_succ, List.flatMap_append, List.length_append, ihn]; simp [hlen, Nat.succ_mul]
    rw [List.range_succ, List.flatMap_append]
    by_cases h : i < m
    · have hlt : i * c + k < ((List.range m).flatMap f).length := by
        rw [hL]
        have := Nat.mul_le_mul_right c (show i + 1 ≤ m by omega)
        rw [Nat.succ_mul] at this; omega
      rw [List.getElem?_append_left hlt]
      exact ih i h
    · have : i = m := by omega
      subst this
      rw [List.getElem?_append_right (by rw [hL]; omega), hL]
      simp

/-- row-major grid of single emissions -/
theorem getElem?_grid {α} (m n : Nat) (P : Nat → Nat → α) (i j : Nat) (hi : i < m) (hj : j < n) :
    ((List.range m).flatMap fun i => (List.range n).flatMap fun j => [P i j])[i * n + j]? = some (P i j) := by
  rw [getElem?_flatMap_const m n _ (by intro i; exact length_row n _) i j hi hj]
  have := getElem?_flatMap_const n 1 (fun j => [P i j]) (by intro j; rfl) j 0 hj (by omega)
  simp only [Nat.mul_one, Nat.add_zero] at this
  rw [this]; rfl

theorem length_grid {α} (m n : Nat) (P : Nat → Nat → α) :
    ((List.range m).flatMap fun i => (List.range n).flatMap fun j => [P i j]).length = m * n := by
  induction m with
  | zero => simp
  | succ m ih =>
    rw [List.range_succ, List.flatMap_append, List.length_append, ih]
    simp only [List.flatMap_cons, List.flatMap_nil, List.append_nil, length_row, Nat.succ_mul]

theorem getElem?_row {α} (n : Nat) (g : Nat → α) (i : Nat) (hi : i < n) :
    ((List.range n).flatMap fun j => [g j])[i]? = some (g i) := by
  have := getElem?_flatMap_const n 1 (fun j => [g j]) (by intro j; rfl) i 0 hi (by omega)
  simp only [Nat.mul_one, Nat.add_zero] at this
  rw [this]; rfl


end Mouette.GridIndex
