import Mathlib.Tactic.Abel
import Mathlib.Algebra.Group.Prod
import Mathlib.Algebra.BigOperators.Group.List.Basic
import Mouette.Lemmas.SubdivGeom
import Mouette.Lemmas.SubdivBlock
/-
C13: the total vector area of the mesh is preserved by the operations of the model, for all meshes
(induction over the face list / over the loop of `triangulate`).
-/
namespace Mouette.Subdiv

/-- position of vertex `i` (total: default 0 outside the list; well-formed meshes never use the default) -/
def vpos (vs : List Pt) (i : Nat) : Pt := (vs[i]?).getD Pt.zero

/-- twice the vector area of face `f` over the vertex list `vs` -/
def faceArea2 (vs : List Pt) (f : List Nat) : Pt := vecArea2 (f.map (vpos vs))

/-- twice the total vector area of the mesh -/
def totalArea2 (m : Raw) : Pt := ((m.faces.map (faceArea2 m.verts))).sum

/-- every face index is a vertex -/
def WF (m : Raw) : Prop := ∀ f ∈ m.faces, ∀ v ∈ f, v < m.verts.length

theorem Pt.add_eq (a b : Pt) : Pt.add a b = a + b := rfl

theorem sumPts_eq (l : List Pt) : sumPts l = l.sum := by
  induction l with
  | nil => rfl
  | cons a t ih => simp only [sumPts, List.foldr_cons, List.sum_cons] at *; rw [ih]; rfl

theorem sum_set {α} (g : α → Pt) : ∀ (l : List α) (i : Nat) (hi : i < l.length) (x : α),
    ((l.set i x).map g).sum + g l[i] = (l.map g).sum + g x
  | a :: t, 0, _, x => by simp; abel
  | a :: t, i + 1, hi, x => by
    have := sum_set g t i (by simpa using hi) x
    simp only [List.set_cons_succ, List.map_cons, List.sum_cons, List.getElem_cons_succ]
    rw [add_assoc, this]; abel

theorem vpos_append_left (vs ex : List Pt) (i : Nat) (hi : i < vs.length) : vpos (vs ++ ex) i = vpos vs i := by
  simp only [vpos, List.getElem?_append_left hi]

theorem faceArea2_append (vs ex : List Pt) (f : List Nat) (hf : ∀ v ∈ f, v < vs.length) :
    faceArea2 (vs ++ ex) f = faceArea2 vs f := by
  unfold faceArea2
  congr 1
  exact List.map_congr_left (fun v hv => vpos_append_left vs ex v (hf v hv))

theorem cycGo_map {α β} (g : α → β) (first : α) : ∀ l : List α,
    cycGo (g first) (l.map g) = (cycGo first l).map (fun ab => (g ab.1, g ab.2))
  | [] => rfl
  | [_] => rfl
  | x :: y :: t => by
    have := cycGo_map g first (y :: t)
    simp only [List.map_cons] at this ⊢
    simp only [cycGo, List.map_cons, this]

theorem cycPairs_map {α β} (g : α → β) (l : List α) :
    cycPairs (l.map g) = (cycPairs l).map (fun ab => (g ab.1, g ab.2)) := by
  cases l with
  | nil => rfl
  | cons a t => simpa [cycPairs] using cycGo_map g a (a :: t)

theorem cycGo_mem {α} (first : α) : ∀ (l : List α) (ab : α × α), ab ∈ cycGo first l →
    (ab.1 ∈ l) ∧ (ab.2 ∈ l ∨ ab.2 = first)
  | [], ab, h => by simp [cycGo] at h
  | [x], ab, h => by simp [cycGo] at h; subst h; simp
  | x :: y :: t, ab, h => by
    simp only [cycGo, List.mem_cons] at h
    rcases h with h | h
    · subst h; simp
    · have := cycGo_mem first (y :: t) ab h
      rcases this with ⟨h1, h2⟩
      refine ⟨by simp [List.mem_cons] at h1 ⊢; tauto, ?_⟩
      rcases h2 with h2 | h2
      · left; simp [List.mem_cons] at h2 ⊢; tauto
      · right; exact h2

theorem cycPairs_mem {α} (l : List α) (ab : α × α) (h : ab ∈ cycPairs l) : ab.1 ∈ l ∧ ab.2 ∈ l := by
  cases l with
  | nil => simp [cycPairs] at h
  | cons a t =>
    have := cycGo_mem a (a :: t) ab h
    refine ⟨this.1, ?_⟩
    rcases this.2 with h2 | h2
    · exact h2
    · rw [h2]; simp

/-! ### quad cut -/

theorem quad_split_area (m m' : Raw) (fid a b c d : Nat) (hf : m.faces[fid]? = some [a, b, c, d])
    (h : triangulateFace m fid = .ok m') : totalArea2 m' = totalArea2 m := by
  obtain ⟨hv, hfa, _, _⟩ := quad_split_spec m m' fid a b c d hf h
  have hi : fid < m.faces.length := by
    by_contra hc
    rw [List.getElem?_eq_none (by omega)] at hf; cases hf
  have hget : m.faces[fid] = [a, b, c, d] := by
    have := List.getElem?_eq_getElem hi; rw [this] at hf; exact Option.some.inj hf
  unfold totalArea2
  rw [hfa, hv, List.map_append, List.sum_append]
  have hs := sum_set (faceArea2 m.verts) m.faces fid hi [a, b, d]
  rw [hget] at hs
  have hq : faceArea2 m.verts [a, b, d] + faceArea2 m.verts [b, c, d] = faceArea2 m.verts [a, b, c, d] := by
    simp only [faceArea2, List.map_cons, List.map_nil]
    exact area_quad_split _ _ _ _
  simp only [List.map_cons, List.map_nil, List.sum_cons, List.sum_nil, add_zero]
  apply add_right_cancel (b := faceArea2 m.verts [a, b, c, d])
  rw [add_right_comm, hs, ← hq]; abel

/-! ### fan -/

theorem fan_area (m m' : Raw) (fid : Nat) (hwf : WF m) (h : splitFaceAsFan m fid = .ok m') :
    totalArea2 m' = totalArea2 m ∧ WF m' := by
  obtain ⟨f, ps, a, b, rest, hf, _, hc, hv, hfa, _, _⟩ := fan_spec m m' fid h
  have hi : fid < m.faces.length := by
    by_contra hcn
    rw [List.getElem?_eq_none (by omega)] at hf; cases hf
  have hget : m.faces[fid] = f := by
    have := List.getElem?_eq_getElem hi; rw [this] at hf; exact Option.some.inj hf
  have hfmem : f ∈ m.faces := hget ▸ List.getElem_mem hi
  have hfwf : ∀ v ∈ f, v < m.verts.length := hwf f hfmem
  have hpairs : ∀ ab ∈ cycPairs f, ab.1 < m.verts.length ∧ ab.2 < m.verts.length := fun ab hab =>
    ⟨hfwf _ (cycPairs_mem f ab hab).1, hfwf _ (cycPairs_mem f ab hab).2⟩
  set P := bary ps with hP
  set iV := m.verts.length with hiV
  -- area of a fan triangle over the new vertex list
  have htri : ∀ ab ∈ cycPairs f, faceArea2 (m.verts ++ [P]) [ab.1, ab.2, iV] =
      triArea2 P (vpos m.verts ab.1, vpos m.verts ab.2) := by
    intro ab hab
    obtain ⟨h1, h2⟩ := hpairs ab hab
    simp only [faceArea2, triArea2, List.map_cons, List.map_nil]
    rw [vpos_append_left _ _ _ h1, vpos_append_left _ _ _ h2]
    have : vpos (m.verts ++ [P]) iV = P := by simp [vpos, hiV]
    rw [this]
  have hsumfan : ((cycPairs f).map (fun ab => faceArea2 (m.verts ++ [P]) [ab.1, ab.2, iV])).sum = faceArea2 m.verts f := by
    have e1 : (cycPairs f).map (fun ab => faceArea2 (m.verts ++ [P]) [ab.1, ab.2, iV]) =
        (cycPairs f).map (fun ab => triArea2 P (vpos m.verts ab.1, vpos m.verts ab.2)) :=
      List.map_congr_left htri
    rw [e1]
    have := area_fan P (f.map (vpos m.verts))
    rw [cycPairs_map, List.map_map, sumPts_eq] at this
    simpa [faceArea2, Function.comp_def] using this
  have hold : ∀ g ∈ m.faces, faceArea2 (m.verts ++ [P]) g = faceArea2 m.verts g := fun g hg =>
    faceArea2_append _ _ _ (hwf g hg)
  constructor
  · unfold totalArea2
    rw [hfa, hv, List.map_append, List.sum_append, List.map_map]
    have hs := sum_set (faceArea2 (m.verts ++ [P])) m.faces fid hi [a, b, iV]
    rw [hget, hold f hfmem, List.map_congr_left hold] at hs
    rw [hc] at hsumfan
    simp only [List.map_cons, List.sum_cons] at hsumfan
    apply add_right_cancel (b := faceArea2 m.verts f)
    have : (List.map (faceArea2 (m.verts ++ [P]) ∘ fun ab => [ab.1, ab.2, iV]) rest).sum =
        (List.map (fun ab => faceArea2 (m.verts ++ [P]) [ab.1, ab.2, iV]) rest).sum := rfl
    rw [this, add_right_comm, hs, ← hsumfan]; abel
  · intro g hg v hv'
    rw [hv]; simp only [List.length_append, List.length_cons, List.length_nil]
    rw [hfa] at hg
    rcases List.mem_append.mp hg with h1 | h1
    · rcases List.mem_or_eq_of_mem_set h1 with h2 | h2
      · have := hwf g h2 v hv'; omega
      · subst h2
        have hab := hpairs (a, b) (by rw [hc]; simp)
        simp only [List.mem_cons, List.not_mem_nil, or_false] at hv'
        rcases hv' with e | e | e <;> subst e <;> omega
    · obtain ⟨ab, hab, rfl⟩ := List.mem_map.mp h1
      have := hpairs ab (by rw [hc]; simp [hab])
      simp only [List.mem_cons, List.not_mem_nil, or_false] at hv'
      rcases hv' with e | e | e <;> subst e <;> omega

/-! ### triangulate_face, triangulate -/

theorem quad_split_wf (m m' : Raw) (fid a b c d : Nat) (hwf : WF m) (hf : m.faces[fid]? = some [a, b, c, d])
    (h : triangulateFace m fid = .ok m') : WF m' := by
  obtain ⟨hv, hfa, _, _⟩ := quad_split_spec m m' fid a b c d hf h
  have hmem : [a, b, c, d] ∈ m.faces := List.mem_of_getElem? hf
  have hq := hwf _ hmem
  intro g hg v hv'
  rw [hv]
  rw [hfa] at hg
  rcases List.mem_append.mp hg with h1 | h1
  · rcases List.mem_or_eq_of_mem_set h1 with h2 | h2
    · exact hwf g h2 v hv'
    · subst h2
      simp only [List.mem_cons, List.not_mem_nil, or_false] at hv'
      rcases hv' with e | e | e <;> subst e <;> exact hq _ (by simp)
  · simp only [List.mem_cons, List.not_mem_nil, or_false] at h1
    subst h1
    simp only [List.mem_cons, List.not_mem_nil, or_false] at hv'
    rcases hv' with e | e | e <;> subst e <;> exact hq _ (by simp)

theorem triFace_area (m m' : Raw) (fid : Nat) (hwf : WF m) (h : triangulateFace m fid = .ok m') :
    totalArea2 m' = totalArea2 m ∧ WF m' := by
  cases hf : m.faces[fid]? with
  | none => simp [triangulateFace, hf] at h
  | some f =>
    rcases f with _ | ⟨a, _ | ⟨b, _ | ⟨c, _ | ⟨d, _ | ⟨e, t⟩⟩⟩⟩⟩
    case cons.cons.cons.cons.nil =>
      exact ⟨quad_split_area m m' fid a b c d hf h, quad_split_wf m m' fid a b c d hwf hf h⟩
    case cons.cons.cons.cons.cons =>
      simp only [triangulateFace, hf] at h
      have hnot : ¬ ((a :: b :: c :: d :: e :: t).length < 4) := by simp
      simp only [hnot, if_false] at h
      exact fan_area m m' fid hwf h
    all_goals
      simp [triangulateFace, hf, pure, Except.pure] at h
      subst h; exact ⟨rfl, hwf⟩

theorem triFrom_area : ∀ (ids : List Nat) (m m' : Raw), WF m → triangulateFrom m ids = .ok m' →
    totalArea2 m' = totalArea2 m ∧ WF m'
  | [], m, m', hwf, h => by
    simp only [triangulateFrom, pure, Except.pure, Except.ok.injEq] at h; subst h; exact ⟨rfl, hwf⟩
  | i :: rest, m, m', hwf, h => by
    simp only [triangulateFrom] at h
    cases hfi : m.faces[i]? with
    | none => simp [hfi] at h
    | some face =>
      simp only [hfi] at h
      by_cases h3 : face.length ≠ 3
      · simp only [h3, if_true, bind, Except.bind, ne_eq, not_false_eq_true] at h
        cases h1 : triangulateFace m i with
        | error e => simp [h1] at h
        | ok m1 =>
          simp only [h1] at h
          obtain ⟨ha1, hw1⟩ := triFace_area m m1 i hwf h1
          obtain ⟨ha2, hw2⟩ := triFrom_area rest m1 m' hw1 h
          exact ⟨ha2.trans ha1, hw2⟩
      · have h3' : face.length = 3 := by simpa using h3
        simp only [h3', ne_eq, not_true_eq_false, if_false] at h
        exact triFrom_area rest m m' hwf h

theorem triangulate_area (m m' : Raw) (hwf : WF m) (h : triangulate m = .ok m') :
    totalArea2 m' = totalArea2 m ∧ WF m' := triFrom_area _ m m' hwf h

/-! ### loop_subdivision pass -/

theorem mapE_sum {α β} (F : α → Except Err β) (Φ : β → Pt) (Ψ : α → Pt) :
    ∀ (l : List α) (r : List β), (∀ a ∈ l, ∀ b, F a = .ok b → Φ b = Ψ a) → mapE F l = .ok r →
      (r.map Φ).sum = (l.map Ψ).sum
  | [], r, _, h => by simp [mapE] at h; subst h; rfl
  | a :: t, r, hP, h => by
    simp only [mapE] at h
    cases hg : F a with
    | error e => simp [hg] at h
    | ok b =>
      cases ht : mapE F t with
      | error e => simp [hg, ht] at h
      | ok bs =>
        simp [hg, ht] at h; subst h
        have h1 := hP a (by simp) b hg
        have h2 := mapE_sum F Φ Ψ t bs (fun x hx y hy => hP x (by simp [hx]) y hy) ht
        simp [h1, h2]

theorem sum_flatMap {α} (g : α → List Pt) : ∀ l : List α, (l.flatMap g).sum = (l.map (fun a => (g a).sum)).sum
  | [] => rfl
  | a :: t => by simp [List.flatMap_cons, List.sum_append, sum_flatMap g t]

theorem loopOnce_area (m m' : Raw) (hwf : WF m) (h : loopOnce m = .ok m') : totalArea2 m' = totalArea2 m := by
  obtain ⟨mids, parts, _, h2, hv, hf, _, _⟩ := loopOnce_spec m m' h
  unfold totalArea2
  rw [hf, List.map_flatMap, sum_flatMap]
  have := mapE_sum (loopFace (m.edges, m.verts.length))
    (fun p : List (List Nat) × List (Nat × Nat) => (p.1.map (faceArea2 m'.verts)).sum)
    (faceArea2 m.verts) m.faces parts ?_ h2
  · simpa using this
  · intro f hfm p hp
    obtain ⟨fs, es⟩ := p
    obtain ⟨a, b, c, mab, mbc, mca, hfe, hab, hbc, hca, hfs, _⟩ := loopFace_spec _ _ _ _ hp
    subst hfe; subst hfs
    have hwa := hwf _ hfm a (by simp)
    have hwb := hwf _ hfm b (by simp)
    have hwc := hwf _ hfm c (by simp)
    obtain ⟨pa, pb, hpa, hpb, hmab, _⟩ := loop_lookup_is_midpoint m m' h a b mab hab
    obtain ⟨pb', pc, hpb', hpc, hmbc, _⟩ := loop_lookup_is_midpoint m m' h b c mbc hbc
    obtain ⟨pc', pa', hpc', hpa', hmca, _⟩ := loop_lookup_is_midpoint m m' h c a mca hca
    rw [hpb] at hpb'; cases hpb'
    rw [hpc] at hpc'; cases hpc'
    rw [hpa] at hpa'; cases hpa'
    have va : vpos m'.verts a = pa := by simp [vpos, hv, List.getElem?_append_left hwa, hpa]
    have vb : vpos m'.verts b = pb := by simp [vpos, hv, List.getElem?_append_left hwb, hpb]
    have vc : vpos m'.verts c = pc := by simp [vpos, hv, List.getElem?_append_left hwc, hpc]
    have vab : vpos m'.verts mab = mid pa pb := by simp [vpos, hmab]
    have vbc : vpos m'.verts mbc = mid pb pc := by simp [vpos, hmbc]
    have vca : vpos m'.verts mca = mid pc pa := by simp [vpos, hmca]
    have oa : vpos m.verts a = pa := by simp [vpos, hpa]
    have ob : vpos m.verts b = pb := by simp [vpos, hpb]
    have oc : vpos m.verts c = pc := by simp [vpos, hpc]
    have key := area_loop_sum pa pb pc
    simp only [loopTris, List.map_cons, List.map_nil, sumPts_eq] at key
    simp only [faceArea2, List.map_cons, List.map_nil, va, vb, vc, vab, vbc, vca, oa, ob, oc]
    exact key

end Mouette.Subdiv
