import Mathlib.Data.List.Sort
import Mouette.Lemmas.SubdivEdges
/-
C13 (round 2): how many faces / edges `prepare()`'s completion adds (`_complete_faces_from_cells`,
`_complete_edges_from_faces`): generic counting lemmas for the two folds.
-/
namespace Mouette.Subdiv

theorem insertSorted_eq (x : Nat) (l : List Nat) : insertSorted x l = List.orderedInsert (· ≤ ·) x l := by
  induction l with
  | nil => rfl
  | cons y t ih => simp only [insertSorted, List.orderedInsert, ih]

theorem keyifyL_eq_insertionSort (l : List Nat) : keyifyL l = List.insertionSort (· ≤ ·) l := by
  induction l with
  | nil => rfl
  | cons a t ih =>
    have : keyifyL (a :: t) = insertSorted a (keyifyL t) := rfl
    rw [this, ih, insertSorted_eq, List.insertionSort_cons]

theorem keyifyL_perm (l : List Nat) : (keyifyL l).Perm l := by
  rw [keyifyL_eq_insertionSort]; exact List.perm_insertionSort _ l

theorem mem_keyifyL (l : List Nat) (x : Nat) : x ∈ keyifyL l ↔ x ∈ l := (keyifyL_perm l).mem_iff

theorem keyifyL_congr {l₁ l₂ : List Nat} (h : l₁.Perm l₂) : keyifyL l₁ = keyifyL l₂ := by
  rw [keyifyL_eq_insertionSort, keyifyL_eq_insertionSort]
  exact List.Perm.eq_of_pairwise' (List.pairwise_insertionSort _ _) (List.pairwise_insertionSort _ _)
    ((List.perm_insertionSort _ l₁).trans (h.trans (List.perm_insertionSort _ l₂).symm))

/-- two duplicate-free index lists have the same key iff they have the same members -/
theorem keyifyL_eq_iff {l₁ l₂ : List Nat} (h1 : l₁.Nodup) (h2 : l₂.Nodup) :
    keyifyL l₁ = keyifyL l₂ ↔ ∀ x, x ∈ l₁ ↔ x ∈ l₂ := by
  constructor
  · intro h x
    rw [← mem_keyifyL l₁, h, mem_keyifyL]
  · intro h
    exact keyifyL_congr ((List.perm_ext_iff_of_nodup h1 h2).mpr h)

/-! ### the completion fold -/

/-- `set`-guarded appends: the fold of `_complete_faces_from_cells` -/
def completeFold {β κ} [BEq κ] (key : β → κ) (start : List κ × List β) (L : List β) : List κ × List β :=
  L.foldl (fun acc f => if acc.1.elem (key f) then acc else (acc.1 ++ [key f], acc.2 ++ [f])) start

theorem completeFold_spec {β κ} [BEq κ] (key : β → κ) : ∀ (L : List β) (start : List κ × List β),
    (completeFold key start L).1 = (L.map key).foldl (fun acc k => if acc.elem k then acc else acc ++ [k]) start.1 ∧
    (completeFold key start L).2.length + start.1.length = start.2.length + (completeFold key start L).1.length
  | [], start => by simp [completeFold]
  | f :: t, start => by
    simp only [completeFold, List.foldl_cons, List.map_cons]
    by_cases he : start.1.elem (key f) = true
    · simp only [he, if_true]
      exact completeFold_spec key t start
    · have he' : start.1.elem (key f) = false := by simpa using he
      simp only [he', Bool.false_eq_true, if_false]
      obtain ⟨h1, h2⟩ := completeFold_spec key t (start.1 ++ [key f], start.2 ++ [f])
      refine ⟨h1, ?_⟩
      simp only [completeFold, List.length_append, List.length_cons, List.length_nil] at h2 ⊢
      omega

/-- number of items after the completion: the initial ones plus one per new key, `N` being any duplicate-free
enumeration of the new keys -/
theorem completeFold_count {β κ} [BEq κ] [LawfulBEq κ] [DecidableEq κ] (key : β → κ) (keys0 : List κ) (items0 L : List β)
    (N : List κ) (hk : keys0.Nodup) (hN : N.Nodup) (hdis : ∀ k ∈ N, k ∉ keys0)
    (hmem : ∀ k, (k ∈ keys0 ∨ k ∈ L.map key) ↔ (k ∈ keys0 ∨ k ∈ N)) :
    (completeFold key (keys0, items0) L).2.length = items0.length + N.length := by
  obtain ⟨h1, h2⟩ := completeFold_spec key L (keys0, items0)
  obtain ⟨hnd, hm⟩ := dedup_foldl_spec (L.map key) keys0 hk
  simp only at h1 h2
  rw [← h1] at hnd hm
  have hL : (keys0 ++ N).Nodup := by
    rw [List.nodup_append]
    exact ⟨hk, hN, fun a ha b hb e => hdis b hb (e ▸ ha)⟩
  have hlen : (completeFold key (keys0, items0) L).1.length = (keys0 ++ N).length :=
    length_eq_of_nodup_of_mem_iff _ _ hnd hL (fun k => by rw [hm k, hmem k, List.mem_append])
  rw [List.length_append] at hlen
  omega

theorem completeFaces_eq (m : Raw) :
    (completeFaces m).faces = (completeFold keyifyL (m.faces.map keyifyL, m.faces) (m.cells.flatMap tetFaces)).2 := rfl

theorem completeFaces_other (m : Raw) : (completeFaces m).verts = m.verts ∧ (completeFaces m).edges = m.edges ∧
    (completeFaces m).cells = m.cells := ⟨rfl, rfl, rfl⟩

/-- number of edges after `_complete_edges_from_faces`, `N` any duplicate-free enumeration of the missing sides -/
theorem completeEdges_count (m : Raw) (N : List (Nat × Nat)) (hs : ∀ e ∈ m.edges, e.1 ≤ e.2) (hk : m.edges.Nodup) (hN : N.Nodup)
    (hdis : ∀ k ∈ N, k ∉ m.edges)
    (hmem : ∀ k, (k ∈ m.edges ∨ k ∈ m.faces.flatMap sidesKeyed) ↔ (k ∈ m.edges ∨ k ∈ N)) :
    (completeEdges m).edges.length = m.edges.length + N.length := by
  have he0 : m.edges.map (fun e => keyify e.1 e.2) = m.edges := by
    conv_rhs => rw [← List.map_id m.edges]
    apply List.map_congr_left
    intro e he
    have := hs e he
    simp [keyify, this]
  simp only [completeEdges, he0]
  obtain ⟨hnd, hm⟩ := dedup_foldl_spec (m.faces.flatMap sidesKeyed) m.edges hk
  have hL : (m.edges ++ N).Nodup := by
    rw [List.nodup_append]
    exact ⟨hk, hN, fun a ha b hb e => hdis b hb (e ▸ ha)⟩
  rw [length_eq_of_nodup_of_mem_iff _ _ hnd hL (fun k => by rw [hm k, hmem k, List.mem_append]), List.length_append]

end Mouette.Subdiv
