import Mouette.Generated.C04Attr
/-
C04 (round 7) — `geogram_ascii.py: import_attribute` read from the source (`Generated/C04Attr.lean`): whatever the default value of the
attribute, the sparse attribute it fills reads back, densely, exactly the rows of the chunk.  (The blind seeded changes C04-g / C04-i
replaced the test `val[0] != attr.default_value` by a tolerant / truthiness test: values close to, or falsy but different from, the
default were dropped.)
-/
set_option linter.unusedSimpArgs false
set_option linter.unusedVariables false
set_option linter.unusedSectionVars false
namespace Mouette.IOS
open Mouette.Generated
variable {V : Type} [DecidableEq V]


/-- the row `i` of a chunk with `n` values per element -/
def rowOf (n : Nat) (data : List V) (i : Nat) : List V := (data.drop (n * i)).take n

theorem build_val (n : Nat) (data : List V) (d : V) (base : Nat) :
    List.foldl (fun (val : List V) (j : Nat) => val ++ [data.getD (base + j) d]) [] (List.range n)
      = (List.range n).map (fun j => data.getD (base + j) d) := by
  induction n with
  | zero => rfl
  | succ k ih => rw [List.range_succ, List.foldl_append, ih]; simp

theorem map_getD_eq (n : Nat) (data : List V) (d : V) (base : Nat) (h : base + n ≤ data.length) :
    (List.range n).map (fun j => data.getD (base + j) d) = (data.drop base).take n := by
  apply List.ext_getElem
  · simp; omega
  · intro j h1 h2
    simp at h1
    simp [List.getD_eq_getElem?_getD, List.getElem?_eq_getElem (show base + j < data.length by omega)]

/-- one iteration of the loop of `import_attribute` -/
def impStep (n : Nat) (data : List V) (attr : SAttr V) (i : Nat) : SAttr V :=
  let val : List V := List.foldl (fun (val : List V) (j : Nat) => val ++ [data.getD (n * i + j) attr.dflt]) [] (List.range n)
  if (n == 1) && (val.getD 0 attr.dflt != attr.dflt) then attr.set i [val.getD 0 attr.dflt]
  else if decide (1 < n) then attr.set i val
  else attr

theorem importAttribute_eq (n : Nat) (data : List V) (attr : SAttr V) :
    C04A.importAttribute n data attr = List.foldl (impStep n data) attr (List.range (data.length / n)) := rfl

theorem lookup_ne {β : Type} (i k : Nat) (r : β) (rows : List (Nat × β)) (h : i ≠ k) :
    List.lookup i ((k, r) :: rows) = List.lookup i rows := by
  have : (i == k) = false := by simp [h]
  simp [List.lookup, this]

theorem lookup_self {β : Type} (k : Nat) (r : β) (rows : List (Nat × β)) : List.lookup k ((k, r) :: rows) = some r := by
  simp [List.lookup]

theorem impStep_spec (n : Nat) (hn : 0 < n) (data : List V) (a : SAttr V) (k : Nat) (hk : n * k + n ≤ data.length)
    (hfresh : a.rows.lookup k = none) :
    (impStep n data a k).dflt = a.dflt ∧ (impStep n data a k).get n k = rowOf n data k ∧
    (∀ i, i ≠ k → (impStep n data a k).rows.lookup i = a.rows.lookup i) := by
  have hval : List.foldl (fun (val : List V) (j : Nat) => val ++ [data.getD (n * k + j) a.dflt]) [] (List.range n) = rowOf n data k := by
    rw [build_val, map_getD_eq n data a.dflt (n * k) hk]; rfl
  have hlen : (rowOf n data k).length = n := by simp [rowOf]; omega
  unfold impStep
  simp only [hval]
  by_cases h1 : n = 1
  · subst h1
    obtain ⟨x, hx⟩ : ∃ x, rowOf 1 data k = [x] := by
      match hr : rowOf 1 data k, hlen with
      | [x], _ => exact ⟨x, rfl⟩
    rw [hx]
    simp only [beq_self_eq_true, Bool.true_and, List.getD_cons_zero]
    by_cases h2 : x = a.dflt
    · have : (x != a.dflt) = false := by simp [h2]
      simp only [this, Bool.false_eq_true, if_false, Nat.lt_irrefl, decide_false]
      refine ⟨by simp, ?_, by simp⟩
      simp [SAttr.get, hfresh, h2]
    · have : (x != a.dflt) = true := by simp [h2]
      simp only [this, if_true]
      refine ⟨rfl, ?_, ?_⟩
      · simp [SAttr.get, SAttr.set, lookup_self]
      · intro i hi; simp [SAttr.set, lookup_ne i k _ _ hi]
  · have hgt : 1 < n := by omega
    have hne : (n == 1) = false := by simp [h1]
    simp only [hne, Bool.false_and, Bool.false_eq_true, if_false, hgt, decide_true, if_true]
    refine ⟨rfl, ?_, ?_⟩
    · simp [SAttr.get, SAttr.set, lookup_self]
    · intro i hi; simp [SAttr.set, lookup_ne i k _ _ hi]

/-- after the first `m` iterations: rows `< m` read back as the chunk's rows, nothing is stored at or after `m` -/
theorem impFold_spec (n : Nat) (hn : 0 < n) (data : List V) (d : V) : ∀ m, m ≤ data.length / n →
    (List.foldl (impStep n data) ({ dflt := d } : SAttr V) (List.range m)).dflt = d ∧
    (∀ i < m, (List.foldl (impStep n data) ({ dflt := d } : SAttr V) (List.range m)).get n i = rowOf n data i) ∧
    (∀ i, m ≤ i → (List.foldl (impStep n data) ({ dflt := d } : SAttr V) (List.range m)).rows.lookup i = none)
  | 0, _ => ⟨rfl, fun i h => absurd h (Nat.not_lt_zero i), fun i _ => rfl⟩
  | m + 1, hm => by
    obtain ⟨h1, h2, h3⟩ := impFold_spec n hn data d m (by omega)
    rw [List.range_succ, List.foldl_append]
    simp only [List.foldl_cons, List.foldl_nil]
    have hk : n * m + n ≤ data.length := by
      have : (m + 1) * n ≤ data.length := Nat.le_trans (Nat.mul_le_mul_right n hm) (Nat.div_mul_le_self _ _)
      rw [Nat.mul_comm n m]; rw [Nat.add_mul] at this; omega
    obtain ⟨s1, s2, s3⟩ := impStep_spec n hn data _ m hk (h3 m (Nat.le_refl m))
    refine ⟨by rw [s1, h1], ?_, ?_⟩
    · intro i hi
      by_cases him : i = m
      · subst him; exact s2
      · have : i < m := by omega
        have hl := s3 i him
        have := h2 i this
        simp only [SAttr.get] at this ⊢
        rw [hl, s1]; exact this
    · intro i hi
      have him : i ≠ m := by omega
      rw [s3 i him]; exact h3 i (by omega)


theorem rows_concat (n : Nat) (data : List V) : ∀ m, n * m ≤ data.length →
    (List.range m).flatMap (rowOf n data) = data.take (n * m)
  | 0, _ => by simp
  | m + 1, h => by
    have ih := rows_concat n data m (by rw [Nat.mul_succ] at h; omega)
    rw [List.range_succ, List.flatMap_append, ih]
    simp only [List.flatMap_cons, List.flatMap_nil, List.append_nil, rowOf, Nat.mul_succ]
    rw [List.take_add]

theorem flatMap_congr_mem {α β : Type} (l : List α) (f g : α → List β) (h : ∀ x ∈ l, f x = g x) : l.flatMap f = l.flatMap g := by
  induction l with
  | nil => rfl
  | cons a t ih =>
    rw [List.flatMap_cons, List.flatMap_cons, h a (by simp), ih (fun x hx => h x (by simp [hx]))]

end Mouette.IOS
