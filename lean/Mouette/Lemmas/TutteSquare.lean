import Mouette.Lemmas.TutteLists
import Mathlib.Tactic.Ring
import Mathlib.Tactic.Linarith
import Mathlib.Tactic.FieldSimp
import Mathlib.Tactic.Positivity
import Mathlib.Tactic.NormNum
import Mathlib.Tactic.SplitIfs
/-!
The square branch of `_initialize_boundary`: the sequential array writes of the model equal a closed form, whose
points lie on the boundary of the unit square, in cyclic order, pairwise distinct (for every `n ≥ 4`).
-/
namespace Mouette.Tutte

/-- closed form of the position of border vertex `i` (of `n`) -/
def sqClosed (n i : Nat) : Rat × Rat :=
  if i < n / 4 then (ramp n i, 0)
  else if i < n / 2 then (1, ramp n (i - n / 4))
  else if i < (3 * n) / 4 then (rampDown n (i - n / 2), 1)
  else (0, rampDown n (i - (3 * n) / 4))

theorem getD_replicate_zero (n i : Nat) : (List.replicate n (0 : Rat)).getD i 0 = 0 := by
  rw [List.getD_eq_getElem?_getD, List.getElem?_replicate]
  split <;> rfl

theorem ramp_zero (n : Nat) : ramp n 0 = 0 := by simp [ramp]
theorem rampDown_zero (n : Nat) : rampDown n 0 = 1 := by simp [rampDown]

theorem ramp_eq_zero {n k : Nat} (h : k = 0) : 0 = ramp n k := by subst h; exact (ramp_zero n).symm
theorem rampDown_eq_one {n k : Nat} (h : k = 0) : 1 = rampDown n k := by subst h; exact (rampDown_zero n).symm

theorem squareU_length (n : Nat) : (squareU n).length = n := by
  simp [squareU, sideLoop, length_loopSet]

theorem squareV_length (n : Nat) : (squareV n).length = n := by
  simp [squareV, sideLoop, length_loopSet]

theorem squareU_getD (n i : Nat) (hn : 4 ≤ n) (hi : i < n) : (squareU n).getD i 0 = (sqClosed n i).1 := by
  simp only [squareU, sideLoop, sideRange, sideStart, sqCorners, getD_loopSet, length_loopSet, getD_set,
    List.length_set, List.length_replicate, List.getD_cons_succ, List.getD_cons_zero, getD_replicate_zero, sqClosed]
  split_ifs <;> first
    | omega
    | rfl
    | exact congrArg (ramp n) (by omega)
    | exact congrArg (rampDown n) (by omega)
    | exact ramp_eq_zero (by omega)
    | exact rampDown_eq_one (by omega)

theorem squareV_getD (n i : Nat) (hn : 4 ≤ n) (hi : i < n) : (squareV n).getD i 0 = (sqClosed n i).2 := by
  simp only [squareV, sideLoop, sideRange, sideStart, sqCorners, getD_loopSet, length_loopSet, getD_set,
    List.length_set, List.length_replicate, List.getD_cons_succ, List.getD_cons_zero, getD_replicate_zero, sqClosed]
  split_ifs <;> first
    | omega
    | rfl
    | exact congrArg (ramp n) (by omega)
    | exact congrArg (rampDown n) (by omega)
    | exact ramp_eq_zero (by omega)
    | exact rampDown_eq_one (by omega)

/-! ### the closed form lies on the square, in cyclic order -/

/-- on the boundary of the unit square -/
def OnSquare (p : Rat × Rat) : Prop :=
  (0 ≤ p.1 ∧ p.1 ≤ 1 ∧ 0 ≤ p.2 ∧ p.2 ≤ 1) ∧ (p.1 = 0 ∨ p.1 = 1 ∨ p.2 = 0 ∨ p.2 = 1)

/-- perimeter coordinate in `[0,4)` of a boundary point, counter-clockwise from `(0,0)` -/
def perim (p : Rat × Rat) : Rat :=
  if p.2 = 0 ∧ p.1 < 1 then p.1
  else if p.1 = 1 ∧ p.2 < 1 then 1 + p.2
  else if p.2 = 1 ∧ 0 < p.1 then 3 - p.1
  else 4 - p.2

/-- `n ·` (perimeter coordinate of border vertex `i`), as a natural number -/
def pN (n i : Nat) : Nat :=
  if i < n / 4 then 4 * i
  else if i < n / 2 then n + 4 * (i - n / 4)
  else if i < (3 * n) / 4 then 2 * n + 4 * (i - n / 2)
  else 3 * n + 4 * (i - (3 * n) / 4)

theorem ramp_nonneg (n k : Nat) : 0 ≤ ramp n k := by unfold ramp; positivity

theorem ramp_lt_one {n k : Nat} (h : 4 * k < n) : ramp n k < 1 := by
  unfold ramp
  have hn : (0 : Rat) < n := by exact_mod_cast (by omega : 0 < n)
  rw [div_lt_one hn]
  exact_mod_cast h

theorem rampDown_eq (n k : Nat) : rampDown n k = 1 - ramp n k := rfl

theorem pN_strictMono {n i j : Nat} (hn : 4 ≤ n) (hij : i < j) (hj : j < n) : pN n i < pN n j := by
  unfold pN
  split_ifs <;> omega

theorem perim_sqClosed {n i : Nat} (hn : 4 ≤ n) (hi : i < n) : perim (sqClosed n i) = (pN n i : Rat) / n := by
  have hn0 : (n : Rat) ≠ 0 := by exact_mod_cast (by omega : n ≠ 0)
  unfold sqClosed pN
  split_ifs with h1 h2 h3
  · have hb := ramp_lt_one (n := n) (k := i) (by omega)
    unfold perim
    simp only [true_and, hb, if_true]
    unfold ramp; push_cast; ring
  · have hb := ramp_lt_one (n := n) (k := i - n / 4) (by omega)
    unfold perim
    have : ¬ ((1 : Rat) < 1) := by norm_num
    simp only [this, and_false, if_false, true_and, hb, if_true]
    unfold ramp; push_cast; field_simp
  · have hb := ramp_lt_one (n := n) (k := i - n / 2) (by omega)
    have hpos : 0 < rampDown n (i - n / 2) := by rw [rampDown_eq]; linarith
    unfold perim
    have h10 : ¬ ((1 : Rat) = 0) := by norm_num
    have h11 : ¬ ((1 : Rat) < 1) := by norm_num
    simp only [h10, h11, false_and, and_false, if_false, true_and, hpos, if_true]
    rw [rampDown_eq]; unfold ramp; push_cast; field_simp; ring
  · have hb := ramp_lt_one (n := n) (k := i - 3 * n / 4) (by omega)
    have hne : ¬ (rampDown n (i - 3 * n / 4) = 0) := by rw [rampDown_eq]; intro h; linarith
    unfold perim
    have h01 : ¬ ((0 : Rat) = 1) := by norm_num
    have h00 : ¬ ((0 : Rat) < 0) := by norm_num
    simp only [hne, h01, h00, false_and, and_false, if_false]
    rw [rampDown_eq]; unfold ramp; push_cast; field_simp; ring

theorem onSquare_sqClosed {n i : Nat} (hn : 4 ≤ n) (hi : i < n) : OnSquare (sqClosed n i) := by
  unfold sqClosed OnSquare
  split_ifs with h1 h2 h3
  · have hb := ramp_lt_one (n := n) (k := i) (by omega)
    have h0 := ramp_nonneg n i
    simp only []
    exact ⟨⟨h0, le_of_lt hb, le_refl _, by norm_num⟩, by simp⟩
  · have hb := ramp_lt_one (n := n) (k := i - n / 4) (by omega)
    have h0 := ramp_nonneg n (i - n / 4)
    simp only []
    exact ⟨⟨by norm_num, le_refl _, h0, le_of_lt hb⟩, by simp⟩
  · have hb := ramp_lt_one (n := n) (k := i - n / 2) (by omega)
    have h0 := ramp_nonneg n (i - n / 2)
    simp only [rampDown_eq]
    exact ⟨⟨by linarith, by linarith, by norm_num, le_refl _⟩, by simp⟩
  · have hb := ramp_lt_one (n := n) (k := i - 3 * n / 4) (by omega)
    have h0 := ramp_nonneg n (i - 3 * n / 4)
    simp only [rampDown_eq]
    exact ⟨⟨le_refl _, by norm_num, by linarith, by linarith⟩, by simp⟩

theorem perim_strictMono {n i j : Nat} (hn : 4 ≤ n) (hij : i < j) (hj : j < n) :
    perim (sqClosed n i) < perim (sqClosed n j) := by
  rw [perim_sqClosed hn (by omega), perim_sqClosed hn hj]
  have hn0 : (0 : Rat) < n := by exact_mod_cast (by omega : 0 < n)
  apply div_lt_div_of_pos_right _ hn0
  exact_mod_cast pN_strictMono hn hij hj

theorem sqClosed_injective {n i j : Nat} (hn : 4 ≤ n) (hi : i < n) (hj : j < n)
    (h : sqClosed n i = sqClosed n j) : i = j := by
  rcases Nat.lt_trichotomy i j with hlt | heq | hgt
  · have := perim_strictMono hn hlt hj
    rw [h] at this; exact absurd this (lt_irrefl _)
  · exact heq
  · have := perim_strictMono hn hgt hi
    rw [h] at this; exact absurd this (lt_irrefl _)

theorem squareBoundary_getD (n i : Nat) (hn : 4 ≤ n) (hi : i < n) :
    (squareBoundary n)[i]? = some (sqClosed n i) := by
  unfold squareBoundary
  rw [List.getElem?_zip_eq_some]
  have hu := squareU_getD n i hn hi
  have hv := squareV_getD n i hn hi
  rw [List.getD_eq_getElem?_getD, List.getElem?_eq_getElem (by rw [squareU_length]; exact hi)] at hu
  rw [List.getD_eq_getElem?_getD, List.getElem?_eq_getElem (by rw [squareV_length]; exact hi)] at hv
  simp only [Option.getD_some] at hu hv
  rw [List.getElem?_eq_getElem (by rw [squareU_length]; exact hi),
    List.getElem?_eq_getElem (by rw [squareV_length]; exact hi), hu, hv]
  exact ⟨rfl, rfl⟩

end Mouette.Tutte
