import Mouette.Lemmas.VolKey
import Mouette.Lemmas.VolBuckets
/-!
Connectivity answers of the volume model versus direct inspection of the cell list.
-/
namespace Mouette.Vol
open Mesh

variable {m : Mesh}

theorem subFace_eq_eraseIdx (C : List Nat) (i : Nat) : subFace C i = C.eraseIdx i := by
  unfold subFace; rw [List.eraseIdx_eq_take_drop_succ]

theorem face_eq_getElem {f : Nat} (hf : f < m.nF) : m.face f = m.faces[f]'hf := by
  unfold Mesh.face; rw [List.getD_eq_getElem?_getD, List.getElem?_eq_getElem (show f < m.faces.length from hf)]; rfl

theorem cell_eq_getElem {c : Nat} (hc : c < m.nC) : m.cell c = m.cells[c]'hc := by
  unfold Mesh.cell; rw [List.getD_eq_getElem?_getD, List.getElem?_eq_getElem (show c < m.cells.length from hc)]; rfl

/-! ### face ids -/

theorem faceId_lt {vs : List Nat} {f : Nat} (h : m.faceId vs = some f) : f < m.nF := idOf_lt h

theorem faceIdD_eq_iff {vs : List Nat} {f : Nat} (hf : f < m.nF) : m.faceIdD vs = f ↔ m.faceId vs = some f := by
  unfold Mesh.faceIdD
  cases h : m.faceId vs with
  | none => simp; omega
  | some g => simp

/-- with distinct face keys: `face_id(vs) = f` iff the stored face `f` is a permutation of `vs` -/
theorem faceId_eq_some_iff (hK : (m.faces.map key).Nodup) {vs : List Nat} {f : Nat} :
    m.faceId vs = some f ↔ f < m.nF ∧ (m.face f).Perm vs := by
  unfold Mesh.faceId
  rw [idOf_eq_some_iff_of_nodup hK]
  constructor
  · rintro ⟨hf, hk⟩
    exact ⟨hf, by rw [face_eq_getElem hf]; exact key_eq_iff_perm.1 hk⟩
  · rintro ⟨hf, hp⟩
    exact ⟨hf, by rw [face_eq_getElem hf] at hp; exact key_eq_iff_perm.2 hp⟩

/-! ### `_compute_cell_adj` : cell → faces, face → cells -/

theorem mem_cellToFace {f c : Nat} : f ∈ m.cellToFace c ↔ ∃ i < 4, m.faceIdD (subFace (m.cell c) i) = f := by
  unfold Mesh.cellToFace
  simp only [List.mem_map, List.mem_range]

theorem mem_cellAdjPairs {f c : Nat} : (f, c) ∈ m.cellAdjPairs ↔ c < m.nC ∧ f ∈ m.cellToFace c := by
  unfold Mesh.cellAdjPairs
  simp only [List.mem_flatMap, List.mem_range, List.mem_map, Prod.mk.injEq]
  constructor
  · rintro ⟨c', hc', g, hg, rfl, rfl⟩; exact ⟨hc', hg⟩
  · rintro ⟨hc, hf⟩; exact ⟨c, hc, f, hf, rfl, rfl⟩

theorem mem_faceToCells {f c : Nat} :
    c ∈ m.conn.faceToCells f ↔ f < m.nF ∧ c < m.nC ∧ f ∈ m.cellToFace c := by
  unfold Conn.faceToCells Mesh.conn
  simp only [mem_buckets_getD, mem_cellAdjPairs]

/-- **face → cells**: `c ∈ face_to_cells(f)` iff the stored face `f` is one of the four vertex triples
of cell `c` (the cell minus one vertex), i.e. what inspecting the cell list yields. -/
theorem faceToCells_spec (hK : (m.faces.map key).Nodup) {f c : Nat} (hf : f < m.nF) :
    c ∈ m.conn.faceToCells f ↔ c < m.nC ∧ ∃ i < 4, (m.face f).Perm ((m.cell c).eraseIdx i) := by
  rw [mem_faceToCells, mem_cellToFace]
  constructor
  · rintro ⟨_, hc, i, hi, h⟩
    rw [faceIdD_eq_iff hf, faceId_eq_some_iff hK, subFace_eq_eraseIdx] at h
    exact ⟨hc, i, hi, h.2⟩
  · rintro ⟨hc, i, hi, h⟩
    refine ⟨hf, hc, i, hi, ?_⟩
    rw [faceIdD_eq_iff hf, faceId_eq_some_iff hK, subFace_eq_eraseIdx]
    exact ⟨hf, h⟩

/-- **cell → faces**: the i-th face of a cell is a stored face whose vertices are the cell minus its
i-th vertex. -/
theorem cellToFace_spec (hK : (m.faces.map key).Nodup)
    (hFound : ∀ c < m.nC, ∀ i < 4, (m.faceId (subFace (m.cell c) i)).isSome)
    {c i : Nat} (hc : c < m.nC) (hi : i < 4) :
    ∃ f, f < m.nF ∧ (m.cellToFace c)[i]? = some f ∧ (m.face f).Perm ((m.cell c).eraseIdx i) := by
  obtain ⟨f, hf⟩ := Option.isSome_iff_exists.1 (hFound c hc i hi)
  have hlt := faceId_lt hf
  refine ⟨f, hlt, ?_, ?_⟩
  · unfold Mesh.cellToFace
    rw [List.getElem?_map, List.getElem?_range hi]
    simp only [Option.map_some]
    congr 1
    exact (faceIdD_eq_iff hlt).2 hf
  · have := (faceId_eq_some_iff hK).1 hf
    rw [subFace_eq_eraseIdx] at this
    exact this.2

theorem cellToFace_length (c : Nat) : (m.cellToFace c).length = 4 := by
  unfold Mesh.cellToFace; simp

/-! ### `_compute_adjacent_cell` : cell → cell -/

/-- for a 4-vertex cell the i-th face of the literal table has the same key as `C[:i]+C[i+1:]` -/
theorem key_tableFace (v0 v1 v2 v3 : Nat) :
    ∀ i < 4, key (tableFace [v0, v1, v2, v3] (tetTable.getD i [])) = key (subFace [v0, v1, v2, v3] i) := by
  intro i hi
  apply key_eq_iff_perm.2
  have : i = 0 ∨ i = 1 ∨ i = 2 ∨ i = 3 := by omega
  rcases this with rfl | rfl | rfl | rfl
  · -- [v1,v3,v2] ~ [v1,v2,v3]
    exact List.Perm.cons _ (List.Perm.swap _ _ _)
  · exact List.Perm.refl _
  · -- [v3,v1,v0] ~ [v0,v1,v3]
    show List.Perm [v3, v1, v0] [v0, v1, v3]
    exact (List.Perm.swap v1 v3 [v0]).trans ((List.Perm.cons v1 (List.Perm.swap v0 v3 [])).trans (List.Perm.swap v0 v1 [v3]))
  · exact List.Perm.refl _

/-- `(f0,f1,f2,f3)` of `_compute_adjacent_cell` are the entries of `cell_to_face` -/
theorem adjFaces_eq_cellToFace {c : Nat} (h4 : (m.cell c).length = 4) : m.adjFaces c = m.cellToFace c := by
  obtain ⟨v0, v1, v2, v3, hC⟩ : ∃ v0 v1 v2 v3, m.cell c = [v0, v1, v2, v3] := by
    match hm : m.cell c, h4 with
    | [a, b, c', d], _ => exact ⟨a, b, c', d, rfl⟩
  unfold Mesh.adjFaces Mesh.cellToFace Mesh.faceIdD Mesh.faceId
  rw [hC]
  have h := key_tableFace v0 v1 v2 v3
  have h0 := h 0 (by omega); have h1 := h 1 (by omega); have h2 := h 2 (by omega); have h3 := h 3 (by omega)
  simp only [tetTable, List.getD_cons_zero, List.getD_cons_succ] at h0 h1 h2 h3
  simp only [tetTable, List.map_cons, List.map_nil, List.range, List.range.loop, h0, h1, h2, h3]

theorem getLast?_filter_ne {l : List Nat} {c c' : Nat} (hl : l.length ≤ 2) (hc : c ∈ l) :
    (l.filter (· != c)).getLast? = some c' ↔ c' ∈ l ∧ c' ≠ c := by
  match l, hl with
  | [], _ => simp at hc
  | [a], _ =>
    have : c = a := by simpa using hc
    subst this
    simp
  | [a, b], _ =>
    by_cases ha : a = c <;> by_cases hb : b = c
    · subst ha; subst hb; simp
    · subst ha
      have hb' : (b != a) = true := by simpa using hb
      simp only [List.filter_cons, bne_self_eq_false, hb', List.filter_nil]
      simp
      constructor
      · intro h; subst h; exact ⟨Or.inr rfl, hb⟩
      · rintro ⟨h | h, hne⟩
        · exact absurd h hne
        · exact h.symm
    · subst hb
      have ha' : (a != b) = true := by simpa using ha
      simp only [List.filter_cons, bne_self_eq_false, ha', List.filter_nil]
      simp
      constructor
      · intro h; subst h; exact ⟨Or.inl rfl, ha⟩
      · rintro ⟨h | h, hne⟩
        · exact h.symm
        · exact absurd h hne
    · simp at hc; rcases hc with h | h
      · exact absurd h.symm ha
      · exact absurd h.symm hb

/-- **cell → cells**: `c' ∈ cell_to_cell(c)` iff `c' ≠ c` and the two cells lie on a common stored face. -/
theorem cellToCell_spec (h4 : ∀ c < m.nC, (m.cell c).length = 4)
    (hTwo : ∀ f < m.nF, (m.conn.faceToCells f).length ≤ 2) {c c' : Nat} (hc : c < m.nC) :
    c' ∈ m.conn.cellToCell c ↔ c' ≠ c ∧ ∃ f, c ∈ m.conn.faceToCells f ∧ c' ∈ m.conn.faceToCells f := by
  unfold Conn.cellToCell
  have hm : m.conn.m = m := rfl
  rw [hm, adjFaces_eq_cellToFace (h4 c hc)]
  simp only [List.mem_filterMap]
  constructor
  · rintro ⟨f, hf, ha⟩
    have hfl : f < m.nF ∨ ¬ f < m.nF := Nat.lt_or_ge f m.nF |>.imp id (fun h => by omega)
    rcases hfl with hfl | hfl
    · have hcf : c ∈ m.conn.faceToCells f := mem_faceToCells.2 ⟨hfl, hc, hf⟩
      unfold Conn.adjCell at ha
      have := (getLast?_filter_ne (hTwo f hfl) hcf).1 ha
      exact ⟨this.2, f, hcf, this.1⟩
    · -- out-of-range face id: no incident cell
      unfold Conn.adjCell at ha
      have hnil : m.conn.faceToCells f = [] := by
        cases hl : m.conn.faceToCells f with
        | nil => rfl
        | cons x xs =>
          have : x ∈ m.conn.faceToCells f := by rw [hl]; simp
          exact absurd (mem_faceToCells.1 this).1 hfl
      rw [hnil] at ha; simp at ha
  · rintro ⟨hne, f, hcf, hcf'⟩
    obtain ⟨hfl, _, hf⟩ := mem_faceToCells.1 hcf
    refine ⟨f, hf, ?_⟩
    unfold Conn.adjCell
    exact (getLast?_filter_ne (hTwo f hfl) hcf).2 ⟨hcf', hne⟩

/-! ### vertex → cells -/

theorem mem_v2cPairs {v c : Nat} : (v, c) ∈ m.v2cPairs ↔ c < m.nC ∧ v ∈ m.cell c := by
  unfold Mesh.v2cPairs
  simp only [List.mem_flatMap, List.mem_range, List.mem_map, Prod.mk.injEq]
  constructor
  · rintro ⟨c', hc', w, hw, rfl, rfl⟩; exact ⟨hc', hw⟩
  · rintro ⟨hc, hv⟩; exact ⟨c, hc, v, hv, rfl, rfl⟩

/-- **vertex → cells**: `c ∈ vertex_to_cell(v)` iff `v` is a vertex of cell `c`; no repetition. -/
theorem vertexToCell_spec {v c : Nat} (hv : v < m.nV) :
    (c ∈ m.vertexToCell v ↔ c < m.nC ∧ v ∈ m.cell c) ∧ (m.vertexToCell v).Nodup := by
  unfold Mesh.vertexToCell
  refine ⟨?_, eraseDups_nodup _⟩
  rw [List.mem_eraseDups, mem_buckets_getD, mem_v2cPairs]
  simp [hv]

end Mouette.Vol
