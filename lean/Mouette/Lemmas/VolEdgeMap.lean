import Mouette.Lemmas.VolEdge
/-!
The edge index maps volume ↔ boundary surface (`m2b_edge`, `b2m_edge`) are mutually inverse.
-/
namespace Mouette.Vol
open Mesh

theorem key_key (l : List Nat) : key (key l) = key l := key_eq_iff_perm.2 (key_perm l)

theorem key_pair_comm (u v : Nat) : key [u, v] = key [v, u] := key_eq_iff_perm.2 (List.Perm.swap _ _ _)

theorem edge_eq_getElem {m : Mesh} {e : Nat} (he : e < m.nE) : m.edge e = m.edges[e]'he := by
  unfold Mesh.edge; rw [List.getD_eq_getElem?_getD, List.getElem?_eq_getElem (show e < m.edges.length from he)]; rfl

theorem edgeIdD_eq {m : Mesh} {u v e : Nat} (he : e < m.nE) (h : m.edgeIdD u v = e) : key (m.edge e) = key [u, v] := by
  unfold Mesh.edgeIdD at h
  cases hid : m.edgeId u v with
  | none => rw [hid] at h; simp at h; omega
  | some g =>
    rw [hid] at h; simp at h; subst h
    unfold Mesh.edgeId at hid
    obtain ⟨hg, hk⟩ := idOf_some hid
    rw [edge_eq_getElem he]; exact hk

/-- the keys of the sides of a triangle, as `surfaceEdges` enumerates them -/
theorem mem_surfaceEdges {faces : List (List Nat)} {E : List Nat} :
    E ∈ Conn.surfaceEdges faces ↔ ∃ F ∈ faces, ∃ i < F.length, key [F.getD i 0, F.getD ((i + 1) % F.length) 0] = E := by
  unfold Conn.surfaceEdges
  rw [List.mem_eraseDups]
  simp only [List.mem_flatMap, List.mem_map, List.mem_range]

/-- a side of the triangle `[a,b,c]` is a side of `[a,b,c]` and of `[a,c,b]` (as an unordered pair) -/
theorem side_of_oriented {a b c : Nat} {F : List Nat} (hF : F = [a, b, c] ∨ F = [a, c, b]) {i : Nat} (hi : i < 3) :
    ∃ j < F.length, key [F.getD j 0, F.getD ((j + 1) % F.length) 0]
      = key [[a, b, c].getD i 0, [a, b, c].getD ((i + 1) % 3) 0] := by
  have : i = 0 ∨ i = 1 ∨ i = 2 := by omega
  rcases hF with rfl | rfl <;> rcases this with rfl | rfl | rfl
  · exact ⟨0, by simp, rfl⟩
  · exact ⟨1, by simp, rfl⟩
  · exact ⟨2, by simp, rfl⟩
  · exact ⟨2, by simp, by simpa using key_pair_comm b a⟩
  · exact ⟨1, by simp, by simpa using key_pair_comm c b⟩
  · exact ⟨0, by simp, by simpa using key_pair_comm a c⟩

theorem orientedFace_shape (k : Conn) {f : Nat} {F : List Nat} (h : k.orientedFace f = some F) :
    ∃ a b c, k.m.face f = [a, b, c] ∧ (F = [a, b, c] ∨ F = [a, c, b]) := by
  unfold Conn.orientedFace at h
  split at h
  · rename_i c0 rest a b c hc hf
    split at h
    · split at h
      · cases h; exact ⟨a, b, c, hf, Or.inl rfl⟩
      · cases h; exact ⟨a, b, c, hf, Or.inr rfl⟩
    · cases h
  · cases h

variable {m : Mesh}

/-- every border edge of the volume is an edge of the boundary surface -/
theorem m2bEdge_isSome (h : Conforming m) {e : Nat} (he : e ∈ m.conn.boundaryEdges) :
    ∃ be, idOf m.conn.boundarySurfaceEdges (key (m.edge e)) = some be := by
  obtain ⟨helt, f, hf, hef⟩ := (mem_boundaryEdges _).1 he
  have hflt : f < m.nF := ((mem_boundaryFaces _).1 hf).1
  obtain ⟨F, hF, _⟩ := orientedFace_total h hflt
  obtain ⟨a, b, c, hface, hshape⟩ := orientedFace_shape _ hF
  have hm : m.conn.m = m := rfl
  rw [hm] at hface helt hef
  obtain ⟨i, hi, hie⟩ := mem_faceToEdges.1 hef
  rw [hface] at hi hie
  have hkey := edgeIdD_eq helt hie
  obtain ⟨j, hj, hjk⟩ := side_of_oriented hshape (i := i) (by simpa using hi)
  have hmem : key (m.edge e) ∈ m.conn.boundarySurfaceEdges := by
    unfold Conn.boundarySurfaceEdges
    rw [mem_surfaceEdges]
    refine ⟨F, ?_, j, hj, ?_⟩
    · rw [List.mem_filterMap]
      exact ⟨some F, by unfold Conn.boundarySurface; exact List.mem_map.2 ⟨f, hf, hF⟩, rfl⟩
    · rw [hjk, hkey]; simp
  have := idOf_isSome_of_mem hmem (key_key _)
  exact Option.isSome_iff_exists.1 this

/-- two border edges with the same image are the same edge (edge keys are pairwise distinct) -/
theorem m2bEdge_inj (hEK : (m.edges.map key).Nodup) {e e' be : Nat} (he : e < m.nE) (he' : e' < m.nE)
    (h1 : idOf m.conn.boundarySurfaceEdges (key (m.edge e)) = some be)
    (h2 : idOf m.conn.boundarySurfaceEdges (key (m.edge e')) = some be) : e = e' := by
  obtain ⟨hb, hk1⟩ := idOf_some h1
  obtain ⟨_, hk2⟩ := idOf_some h2
  have hk : key (m.edge e) = key (m.edge e') := hk1.symm.trans hk2
  rw [edge_eq_getElem he, edge_eq_getElem he'] at hk
  have h' : (m.edges.map key)[e]'(by simpa using (show e < m.edges.length from he)) = (m.edges.map key)[e']'(by simpa using (show e' < m.edges.length from he')) := by
    rw [List.getElem_map, List.getElem_map]; exact hk
  exact (List.Nodup.getElem_inj_iff hEK).1 h'

/-- **edge maps**: `b2m_edge[m2b_edge[e]] = e` for every border edge, and `m2b_edge` is defined on all of them -/
theorem edgeMapRoundTrip_all (h : Conforming m) (hEK : (m.edges.map key).Nodup) :
    ∀ b ∈ m.conn.edgeMapRoundTrip, b = true := by
  intro b hb
  unfold Conn.edgeMapRoundTrip at hb
  simp only [List.mem_map] at hb
  obtain ⟨p, hp, rfl⟩ := hb
  unfold Conn.m2bEdgeTable at hp
  simp only [List.mem_map] at hp
  obtain ⟨e, he, rfl⟩ := hp
  obtain ⟨be, hbe⟩ := m2bEdge_isSome h he
  have hm : m.conn.m = m := rfl
  simp only [hm, hbe, Option.bind_some, beq_iff_eq]
  unfold Conn.b2mEdgeOf
  -- the entries of the table whose value is `some be`
  have hne : ((Conn.m2bEdgeTable m.conn).filter fun p => p.2 == some be) ≠ [] := by
    intro hnil
    have : (e, some be) ∈ (Conn.m2bEdgeTable m.conn).filter fun p => p.2 == some be := by
      rw [List.mem_filter]
      refine ⟨?_, by simp⟩
      unfold Conn.m2bEdgeTable
      simp only [List.mem_map]
      exact ⟨e, he, by simp [hm, hbe]⟩
    rw [hnil] at this; cases this
  obtain ⟨q, hq⟩ := Option.isSome_iff_exists.1 (List.getLast?_isSome.2 hne)
  have hqm := List.mem_of_getLast? hq
  rw [List.mem_filter] at hqm
  obtain ⟨hqt, hq2⟩ := hqm
  unfold Conn.m2bEdgeTable at hqt
  simp only [List.mem_map] at hqt
  obtain ⟨e', he', rfl⟩ := hqt
  simp only [hm, beq_iff_eq] at hq2
  have heq : e = e' := m2bEdge_inj hEK ((mem_boundaryEdges _).1 he).1 ((mem_boundaryEdges _).1 he').1 hbe hq2
  rw [hq]
  simp [heq]

end Mouette.Vol

namespace Mouette.Vol
theorem edgeKeys_of_flag {m : Mesh} (h : m.conforming = true) : (m.edges.map key).Nodup := by
  unfold Mesh.conforming at h
  simp only [Bool.and_eq_true] at h
  obtain ⟨_, he⟩ := h
  unfold Mesh.edgesComplete at he
  simp only [Bool.and_eq_true, decide_eq_true_eq] at he
  exact he.1.1
end Mouette.Vol
