import Mouette.Model.Prepare
/-
Vocabulary and interpreters for the STRUCTURE fragments the translator extracts from the source
(Generated/C02Structure.lean): the step program of `prepare()`, the hard_edges guard, the argument order of the
corner appends, the dimensionality chain, the program of `_instanciate_raw_mesh_data`, the thresholds of
`Mesh.__init__`. The bridge theorems of Props/C02 state that the hand-written model `Mouette.Prepare` is the
interpretation of exactly what the source says. Core Lean only.
-/
namespace Mouette.Prepare

/-! ### prepare() as a list of guarded steps -/

inductive Step where
  | completeFaces | completeEdges | prepareVertices | prepareEdges | prepareFaces | genFaceCorners
  | prepareCells | genCellCorners | genCellFaces | computeDim | setPrepared
  deriving DecidableEq, Repr

inductive Guard where
  | always | ifCF | ifCE
  deriving DecidableEq, Repr

structure PrepareProgram where
  guardFirst : Bool
  steps : List (Guard × Step)
  deriving DecidableEq, Repr

def guardHolds (cfg : Cfg) : Guard → Bool
  | .always => true
  | .ifCF => cfg.cf
  | .ifCE => cfg.ce

/-- one step on the model state. `prepareFaces` / `prepareCells` only change the Python type of index rows
(numpy row → list), not their values (`Lemmas/C02Rows`); `computeDim` refreshes a cache of a function of the
containers (`dimensionality`). -/
def runStep : Step → Raw → Except String Raw
  | .completeFaces, r => .ok (completeFaces r)
  | .completeEdges, r => .ok (completeEdges r)
  | .prepareVertices, r => .ok (prepareVertices r)
  | .prepareEdges, r => .ok (prepareEdges r)
  | .prepareFaces, r => .ok r
  | .genFaceCorners, r => .ok (genFaceCorners r)
  | .prepareCells, r => .ok r
  | .genCellCorners, r => .ok (genCellCorners r)
  | .genCellFaces, r => genCellFaces r
  | .computeDim, r => .ok r
  | .setPrepared, r => .ok { r with prepared := true }

def runSteps (cfg : Cfg) : List (Guard × Step) → Raw → Except String Raw
  | [], r => .ok r
  | (g, s) :: rest, r =>
    if guardHolds cfg g then
      match runStep s r with
      | .ok r' => runSteps cfg rest r'
      | .error e => .error e
    else runSteps cfg rest r

def runProgram (cfg : Cfg) (p : PrepareProgram) (r : Raw) : Except String Raw :=
  if p.guardFirst && r.prepared then .ok r else runSteps cfg p.steps r

/-- the normal form the model `prepare` was written from -/
def expectedPrepareProgram : PrepareProgram :=
  { guardFirst := true,
    steps := [(.ifCF, .completeFaces), (.ifCE, .completeEdges), (.always, .prepareVertices), (.always, .prepareEdges),
              (.always, .prepareFaces), (.always, .genFaceCorners), (.always, .prepareCells), (.always, .genCellCorners),
              (.always, .genCellFaces), (.always, .computeDim), (.always, .setPrepared)] }

/-! ### the hard_edges block of _complete_edges_from_faces -/

inductive HardGuard where
  | ifAbsent      -- `if not self.edges.has_attribute(name):`
  | always        -- unguarded (`create_attribute` overrides an existing attribute)
  deriving DecidableEq, Repr

def flagAttr (name : String) (n : Nat) : Attr :=
  { name := name, dflt := 0, st := .sparse ((List.range n).map (fun i => (i, 1))) }

/-- `_complete_edges_from_faces` parametrised by what the translator reads: the guard, the attribute name, whether the
flags are set before the completion loop (then they range over the edges present before completion), whether the
function returns first on an empty face list -/
def completeEdgesWith (g : HardGuard) (name : String) (flagsBefore emptyFirst : Bool) (r : Raw) : Raw :=
  if emptyFirst && r.faces.isEmpty then r
  else
    { r with
      edges := completeBy keyE r.edges (validSides r.verts.length r.faces),
      eattrs :=
        (match g with
          | .ifAbsent =>
            if hasAttr r.eattrs name then r.eattrs
            else r.eattrs ++ [flagAttr name (if flagsBefore then r.edges.length
                                else (completeBy keyE r.edges (validSides r.verts.length r.faces)).length)]
          | .always =>
            r.eattrs.filter (fun (a : Attr) => a.name != name) ++
              [flagAttr name (if flagsBefore then r.edges.length
                                else (completeBy keyE r.edges (validSides r.verts.length r.faces)).length)]).map
        (expandAttr ((completeBy keyE r.edges (validSides r.verts.length r.faces)).length - r.edges.length)) }

/-! ### corner appends -/

inductive CornerArg where
  | vertex | owner
  deriving DecidableEq, Repr

inductive Slot where
  | elem | adj
  deriving DecidableEq, Repr

inductive CellFaceArg where
  | faceId | cellIndex
  deriving DecidableEq, Repr

/-- which call argument ends up in slot `s`: parameter `k` of `CornerDataContainer.append` is appended to `slots[k]`,
and receives the `k`-th call argument -/
def routed (args : List CornerArg) (slots : List Slot) (s : Slot) : Option CornerArg :=
  match (slots.zip args).find? (fun p => p.1 == s) with
  | some p => some p.2
  | none => none

/-- the two lists filled by `for i, row in enumerate(rows): for v in row: container.append(<args>)` -/
def cornerLists (args : List CornerArg) (slots : List Slot) (rows : List (List Nat)) : List Nat × List Nat :=
  let pickList : Option CornerArg → List Nat := fun o =>
    match o with
    | some .vertex => rows.flatten
    | some .owner => owners rows
    | none => []
  (pickList (routed args slots .elem), pickList (routed args slots .adj))

/-! ### dimensionality chain -/

def containerNonEmpty (r : Raw) (name : String) : Bool :=
  if name = "cells" then !r.cells.isEmpty
  else if name = "faces" then !r.faces.isEmpty
  else if name = "edges" then !r.edges.isEmpty
  else if name = "vertices" then !r.verts.isEmpty
  else false

def dimBy (chain : List (String × Nat)) (dflt : Nat) (r : Raw) : Nat :=
  match chain with
  | [] => dflt
  | (c, v) :: rest => if containerNonEmpty r c then v else dimBy rest dflt r

/-! ### _instanciate_raw_mesh_data -/

inductive InstStep where
  | prepare
  | defaultDim (d : Int)
  | combineMax
  | combineMin
  | setToDimensionality
  | dispatch
  deriving DecidableEq, Repr

/-- state: the data (prepared or not yet), the local variable `dim` (None or an int) -/
def runInst (cfg : Cfg) : List InstStep → Raw → Option Int → Except String (Raw × Option Int)
  | [], r, d => .ok (r, d)
  | .prepare :: rest, r, d =>
    match prepare cfg r with
    | .ok p => runInst cfg rest p d
    | .error e => .error e
  | .defaultDim d0 :: rest, r, d => runInst cfg rest r (some (d.getD d0))
  | .combineMax :: rest, r, d =>
    match d with
    | some x => runInst cfg rest r (some (max x (dimensionality r : Nat)))
    | none => .error "err:Type"
  | .combineMin :: rest, r, d =>
    match d with
    | some x => runInst cfg rest r (some (min x (dimensionality r : Nat)))
    | none => .error "err:Type"
  | .setToDimensionality :: rest, r, _ => runInst cfg rest r (some (dimensionality r : Nat))
  | .dispatch :: _, r, d => .ok (r, d)

def optNatToInt : Option Nat → Option Int
  | none => none
  | some n => some (Int.ofNat n)

def instantiateWith (cfg : Cfg) (prog : List InstStep) (r : Raw) (dim : Option Nat) : Except String Built :=
  match runInst cfg prog r (optNatToInt dim) with
  | .ok (p, some d) => .ok ⟨d.toNat, p⟩
  | .ok (_, none) => .error "err:Type"
  | .error e => .error e

def expectedClassTable : List (Int × String) :=
  [(0, "PointCloud"), (1, "PolyLine"), (2, "SurfaceMesh"), (3, "VolumeMesh")]

/-! ### Mesh.__init__ -/

/-- is container `name` shared with the mesh object of class index `dim` -/
def visible (table : List (Nat × List String)) (dim : Nat) (name : String) : Bool :=
  table.any (fun row => decide (dim > row.1) && row.2.contains name)

def expectedMeshInitTable : List (Nat × List String) :=
  [(0, ["edges"]), (1, ["faces", "face_corners"]), (2, ["cells", "cell_corners", "cell_faces"])]

end Mouette.Prepare
