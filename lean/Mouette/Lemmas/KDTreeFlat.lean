import Mouette.Lemmas.KDTree
import Mouette.Model.KDTreeFlat
/-
Refinement lemmas: the flat BFS construction / stack traversal of `Model/KDTreeFlat.lean` versus the recursive
model of `Model/KDTree.lean`.
-/
namespace Mouette.KD
open Mouette.AABB Mouette.AABB.EQ

variable {P : Nat → Pt} {dim leafSize : Nat} {piv : Nat → List Rat → Rat}

/-! ### one unfolding of the recursive construction -/

theorem build_leaf {f path axis : Nat} {idx : List Nat} {box : Box} (h : idx.length ≤ leafSize) :
    build P dim leafSize piv (f + 1) path axis idx box = some (.leaf idx box) := by
  simp only [build, buildWith, if_pos h]

theorem build_split {f path axis : Nat} {idx : List Nat} {box : Box} (h : ¬ idx.length ≤ leafSize) :
    build P dim leafSize piv (f + 1) path axis idx box =
      (match build P dim leafSize piv f (2 * path) ((axis + 1) % dim)
                (splitIdx P axis (piv path (idx.map (fun i => coord (P i) axis))) idx).2.1
                (boxLess box axis (splitIdx P axis (piv path (idx.map (fun i => coord (P i) axis))) idx).1),
             build P dim leafSize piv f (2 * path + 1) ((axis + 1) % dim)
                (splitIdx P axis (piv path (idx.map (fun i => coord (P i) axis))) idx).2.2
                (boxMore box axis (splitIdx P axis (piv path (idx.map (fun i => coord (P i) axis))) idx).1) with
       | some l, some r => some (.node axis (splitIdx P axis (piv path (idx.map (fun i => coord (P i) axis))) idx).1 box l r)
       | _, _ => none) := by
  simp only [build, buildWith, if_neg h]
  rfl

/-- the recursive construction does not depend on the amount of fuel once there is enough of it -/
theorem build_fuel_irrel (hleaf : 1 ≤ leafSize) : ∀ (f1 f2 path axis : Nat) (idx : List Nat) (box : Box),
    idx.length < f1 → idx.length < f2 →
    build P dim leafSize piv f1 path axis idx box = build P dim leafSize piv f2 path axis idx box
  | 0, _, _, _, _, _, h, _ => by omega
  | _ + 1, 0, _, _, _, _, _, h => by omega
  | a + 1, b + 1, path, axis, idx, box, h1, h2 => by
    by_cases hs : idx.length ≤ leafSize
    · rw [build_leaf hs, build_leaf hs]
    · have ok := splitIdx_ok P axis (piv path (idx.map (fun i => coord (P i) axis))) idx (by omega)
      rw [build_split hs, build_split hs]
      rw [build_fuel_irrel hleaf a b _ _ _ _ (by have := ok.lt_left; omega) (by have := ok.lt_left; omega)]
      rw [build_fuel_irrel hleaf a b _ _ _ _ (by have := ok.lt_right; omega) (by have := ok.lt_right; omega)]

/-! ### tree-level refinement of the BFS construction -/

/-- queue invariant of `__init__`: the pending leaves carry the ids following those already appended to `self.nodes`,
and `self._nid` is the next unused id -/
structure QInv (queue : List Pending) (nid : Nat) (nodes : List FNode) : Prop where
  ids : queue.map (·.id) = List.range' nodes.length queue.length
  nid : nid = nodes.length + queue.length

theorem QInv.head {it : Pending} {rest : List Pending} {nid : Nat} {nodes : List FNode}
    (h : QInv (it :: rest) nid nodes) : it.id = nodes.length := by
  have := h.ids
  simp only [List.map_cons, List.length_cons, List.range'_succ, List.cons.injEq] at this
  exact this.1

theorem QInv.pop {it : Pending} {rest : List Pending} {nid : Nat} {nodes : List FNode} (x : FNode)
    (h : QInv (it :: rest) nid nodes) : QInv rest nid (nodes ++ [x]) := by
  have := h.ids
  simp only [List.map_cons, List.length_cons, List.range'_succ, List.cons.injEq] at this
  refine ⟨by simpa using this.2, ?_⟩
  have := h.nid
  simp only [List.length_cons, List.length_append, List.length_nil] at this ⊢
  omega

theorem QInv.split {it : Pending} {rest : List Pending} {nid : Nat} {nodes : List FNode} (x : FNode) (l m : Pending)
    (hl : l.id = nid) (hm : m.id = nid + 1) (h : QInv (it :: rest) nid nodes) :
    QInv (rest ++ [l, m]) (nid + 2) (nodes ++ [x]) := by
  have hi := h.ids
  have hn := h.nid
  simp only [List.map_cons, List.length_cons, List.range'_succ, List.cons.injEq] at hi hn
  refine ⟨?_, ?_⟩
  · simp only [List.map_append, List.map_cons, List.map_nil, List.length_append, List.length_cons, List.length_nil, hi.2, hl, hm]
    rw [show rest.length + (0 + 1 + 1) = rest.length + 2 from rfl, ← List.range'_append_1]
    congr 1
    simp only [List.range'_succ, List.range'_zero, hn]
    simp only [List.cons.injEq, and_true]
    omega
  · simp only [List.length_append, List.length_cons, List.length_nil]
    omega

theorem prefix_get {nodes out : List FNode} {x : FNode} (h : nodes ++ [x] <+: out) : out[nodes.length]? = some x := by
  obtain ⟨t, rfl⟩ := h
  simp

/-- **Tree-level refinement.** Whatever `buildBFS` returns, reading the flat list back from the id of any pending leaf
gives exactly the tree the recursive construction builds for that leaf (same fuel on both sides, any sufficient fuel). -/
theorem buildBFS_refines (hleaf : 1 ≤ leafSize) : ∀ (fuel : Nat) (queue : List Pending) (nid : Nat) (nodes out : List FNode),
    QInv queue nid nodes → buildBFS P dim leafSize piv fuel queue nid nodes = some out →
    nodes <+: out ∧ ∀ it ∈ queue, ∀ f, it.idx.length < f →
      toTree out f it.id = build P dim leafSize piv f it.path it.axis it.idx it.box
  | fuel, [], nid, nodes, out, _, h => by
    cases fuel <;> simp only [buildBFS, Option.some.injEq] at h <;> subst h <;> exact ⟨List.prefix_refl _, by simp⟩
  | 0, it :: rest, nid, nodes, out, _, h => by simp [buildBFS] at h
  | fuel + 1, it :: rest, nid, nodes, out, hq, h => by
    have hid := hq.head
    simp only [buildBFS] at h
    split at h
    · rename_i hs
      have ih := buildBFS_refines hleaf fuel rest nid _ out (hq.pop it.toLeaf) h
      have hget := prefix_get ih.1
      refine ⟨(List.prefix_append _ _).trans ih.1, ?_⟩
      intro it' hit' f hf
      rcases List.mem_cons.mp hit' with rfl | hit'
      · cases f with
        | zero => omega
        | succ f' =>
          rw [build_leaf hs]
          simp only [toTree, hid, hget, Pending.toLeaf]
      · exact ih.2 it' hit' f hf
    · rename_i hs
      have ok := splitIdx_ok P it.axis (piv it.path (it.idx.map (fun i => coord (P i) it.axis))) it.idx (by omega)
      have ih := buildBFS_refines hleaf fuel _ (nid + 2) _ out
        (hq.split (it.toNode P piv nid) (it.less P dim piv nid) (it.more P dim piv nid) rfl rfl) h
      have hget := prefix_get ih.1
      refine ⟨(List.prefix_append _ _).trans ih.1, ?_⟩
      intro it' hit' f hf
      rcases List.mem_cons.mp hit' with rfl | hit'
      · cases f with
        | zero => omega
        | succ f' =>
          have hl := ih.2 (it'.less P dim piv nid) (by simp) f' (by
            simp only [Pending.less]; have := ok.lt_left; omega)
          have hm := ih.2 (it'.more P dim piv nid) (by simp) f' (by
            simp only [Pending.more]; have := ok.lt_right; omega)
          simp only [Pending.less, Pending.more] at hl hm
          rw [build_split hs]
          simp only [toTree, hid, hget, Pending.toNode, hl, hm]
          rfl
      · exact ih.2 it' (by simp [hit']) f hf

/-- positions are ids -/
def IdsOk (nodes : List FNode) : Prop := ∀ (i : Nat) (nd : FNode), nodes[i]? = some nd → nd.id = i

theorem idsOk_snoc {nodes : List FNode} {x : FNode} (h : IdsOk nodes) (hx : x.id = nodes.length) : IdsOk (nodes ++ [x]) := by
  intro i nd hg
  by_cases hi : i < nodes.length
  · rw [List.getElem?_append_left hi] at hg; exact h i nd hg
  · rw [List.getElem?_append_right (by omega)] at hg
    by_cases he : i - nodes.length = 0
    · rw [he] at hg; simp at hg; subst hg; omega
    · have : ([x] : List FNode)[i - nodes.length]? = none := by
        apply List.getElem?_eq_none; simp; omega
      rw [this] at hg; cases hg

/-- `self.nodes[i].id == i` for every node of the returned list -/
theorem buildBFS_ids : ∀ (fuel : Nat) (queue : List Pending) (nid : Nat) (nodes out : List FNode),
    QInv queue nid nodes → IdsOk nodes → buildBFS P dim leafSize piv fuel queue nid nodes = some out → IdsOk out
  | fuel, [], nid, nodes, out, _, hi, h => by
    cases fuel <;> simp only [buildBFS, Option.some.injEq] at h <;> subst h <;> exact hi
  | 0, it :: rest, nid, nodes, out, _, _, h => by simp [buildBFS] at h
  | fuel + 1, it :: rest, nid, nodes, out, hq, hi, h => by
    simp only [buildBFS] at h
    split at h
    · exact buildBFS_ids fuel rest nid _ out (hq.pop it.toLeaf) (idsOk_snoc hi (by simpa [Pending.toLeaf, FNode.id] using hq.head)) h
    · exact buildBFS_ids fuel _ (nid + 2) _ out
        (hq.split (it.toNode P piv nid) (it.less P dim piv nid) (it.more P dim piv nid) rfl rfl)
        (idsOk_snoc hi (by simpa [Pending.toNode, FNode.id] using hq.head)) h

/-! ### termination of the BFS loop -/

/-- number of loop iterations a pending leaf can still cause: the size of its subtree is at most `2·len − 1` -/
def Pending.cost (it : Pending) : Nat := if it.idx.length = 0 then 1 else 2 * it.idx.length - 1

def qcost (q : List Pending) : Nat := (q.map Pending.cost).sum

theorem cost_pos (it : Pending) : 1 ≤ it.cost := by
  unfold Pending.cost; split <;> omega

theorem buildBFS_terminates (hleaf : 1 ≤ leafSize) : ∀ (fuel : Nat) (queue : List Pending) (nid : Nat) (nodes : List FNode),
    qcost queue ≤ fuel → (buildBFS P dim leafSize piv fuel queue nid nodes).isSome = true
  | fuel, [], _, _, _ => by cases fuel <;> simp [buildBFS]
  | 0, it :: rest, _, _, h => by
    have := cost_pos it
    simp only [qcost, List.map_cons, List.sum_cons] at h
    omega
  | fuel + 1, it :: rest, nid, nodes, h => by
    simp only [qcost, List.map_cons, List.sum_cons] at h
    simp only [buildBFS]
    split
    · have := cost_pos it
      exact buildBFS_terminates hleaf fuel rest nid _ (by simp only [qcost]; omega)
    · rename_i hs
      have ok := splitIdx_ok P it.axis (piv it.path (it.idx.map (fun i => coord (P i) it.axis))) it.idx (by omega)
      apply buildBFS_terminates hleaf fuel
      have hlen := ok.perm.length_eq
      have h1 := ok.lt_left
      have h2 := ok.lt_right
      simp only [List.length_append] at hlen
      simp only [qcost, List.map_append, List.map_cons, List.map_nil, List.sum_append, List.sum_cons, List.sum_nil,
        Pending.cost, Pending.less, Pending.more] at h ⊢
      split at h <;> split <;> split <;> omega

/-! ### leaves -/

theorem leavesF_append (a b : List FNode) : leavesF (a ++ b) = leavesF a ++ leavesF b := by
  induction a with
  | nil => simp [leavesF]
  | cons x xs ih => cases x <;> simp [leavesF, ih]

/-- leaves the recursive construction produces for a pending leaf (canonical fuel) -/
def specLeaves (P : Nat → Pt) (dim leafSize : Nat) (piv : Nat → List Rat → Rat) (it : Pending) : List (List Nat × Box) :=
  match build P dim leafSize piv (it.idx.length + 1) it.path it.axis it.idx it.box with
  | some t => t.leaves
  | none => []


theorem build_isSome (hleaf : 1 ≤ leafSize) (f path axis : Nat) (idx : List Nat) (box : Box) (h : idx.length < f) :
    ∃ t, build P dim leafSize piv f path axis idx box = some t := by
  -- restated locally (the Props theorem `build_terminates` is downstream of this file)
  induction f generalizing path axis idx box with
  | zero => omega
  | succ f ih =>
    by_cases hs : idx.length ≤ leafSize
    · exact ⟨_, build_leaf hs⟩
    · have ok := splitIdx_ok P axis (piv path (idx.map (fun i => coord (P i) axis))) idx (by omega)
      obtain ⟨l, hl⟩ := ih (2 * path) ((axis + 1) % dim) (splitIdx P axis (piv path (idx.map (fun i => coord (P i) axis))) idx).2.1 (boxLess box axis (splitIdx P axis (piv path (idx.map (fun i => coord (P i) axis))) idx).1)
        (by have := ok.lt_left; omega)
      obtain ⟨r, hr⟩ := ih (2 * path + 1) ((axis + 1) % dim) (splitIdx P axis (piv path (idx.map (fun i => coord (P i) axis))) idx).2.2 (boxMore box axis (splitIdx P axis (piv path (idx.map (fun i => coord (P i) axis))) idx).1)
        (by have := ok.lt_right; omega)
      rw [build_split hs, hl, hr]
      exact ⟨_, rfl⟩

theorem specLeaves_leaf {it : Pending} (h : it.idx.length ≤ leafSize) :
    specLeaves P dim leafSize piv it = [(it.idx, it.box)] := by
  simp only [specLeaves, build_leaf h, Tree.leaves]

theorem specLeaves_split (hleaf : 1 ≤ leafSize) {it : Pending} (h : ¬ it.idx.length ≤ leafSize) (nid : Nat) :
    specLeaves P dim leafSize piv it =
      specLeaves P dim leafSize piv (it.less P dim piv nid) ++ specLeaves P dim leafSize piv (it.more P dim piv nid) := by
  have ok := splitIdx_ok P it.axis (piv it.path (it.idx.map (fun i => coord (P i) it.axis))) it.idx (by omega)
  have h1 := ok.lt_left
  have h2 := ok.lt_right
  obtain ⟨l, hl⟩ := build_isSome (P := P) (dim := dim) (piv := piv) hleaf it.idx.length (2 * it.path) ((it.axis + 1) % dim) _
    (boxLess it.box it.axis (splitIdx P it.axis (piv it.path (it.idx.map (fun i => coord (P i) it.axis))) it.idx).1) h1
  obtain ⟨r, hr⟩ := build_isSome (P := P) (dim := dim) (piv := piv) hleaf it.idx.length (2 * it.path + 1) ((it.axis + 1) % dim) _
    (boxMore it.box it.axis (splitIdx P it.axis (piv it.path (it.idx.map (fun i => coord (P i) it.axis))) it.idx).1) h2
  have el := build_fuel_irrel (P := P) (dim := dim) (piv := piv) hleaf it.idx.length
    ((splitIdx P it.axis (piv it.path (it.idx.map (fun i => coord (P i) it.axis))) it.idx).2.1.length + 1)
    (2 * it.path) ((it.axis + 1) % dim) _
    (boxLess it.box it.axis (splitIdx P it.axis (piv it.path (it.idx.map (fun i => coord (P i) it.axis))) it.idx).1) h1 (by omega)
  have er := build_fuel_irrel (P := P) (dim := dim) (piv := piv) hleaf it.idx.length
    ((splitIdx P it.axis (piv it.path (it.idx.map (fun i => coord (P i) it.axis))) it.idx).2.2.length + 1)
    (2 * it.path + 1) ((it.axis + 1) % dim) _
    (boxMore it.box it.axis (splitIdx P it.axis (piv it.path (it.idx.map (fun i => coord (P i) it.axis))) it.idx).1) h2 (by omega)
  simp only [specLeaves, Pending.less, Pending.more, build_split h, ← el, ← er, hl, hr, Tree.leaves]

/-- **Leaves of the flat list.** The leaves `buildBFS` appends are, as a multiset, the leaves already present plus the
leaves the recursive construction produces for every pending leaf. -/
theorem buildBFS_leaves (hleaf : 1 ≤ leafSize) : ∀ (fuel : Nat) (queue : List Pending) (nid : Nat) (nodes out : List FNode),
    buildBFS P dim leafSize piv fuel queue nid nodes = some out →
    (leavesF out).Perm (leavesF nodes ++ queue.flatMap (specLeaves P dim leafSize piv))
  | fuel, [], nid, nodes, out, h => by
    cases fuel <;> simp only [buildBFS, Option.some.injEq] at h <;> subst h <;> simp
  | 0, it :: rest, nid, nodes, out, h => by simp [buildBFS] at h
  | fuel + 1, it :: rest, nid, nodes, out, h => by
    simp only [buildBFS] at h
    split at h
    · rename_i hs
      have ih := buildBFS_leaves hleaf fuel rest nid _ out h
      rw [leavesF_append] at ih
      simp only [Pending.toLeaf, leavesF, List.flatMap_cons, specLeaves_leaf hs] at ih ⊢
      simpa [List.append_assoc] using ih
    · rename_i hs
      have ih := buildBFS_leaves hleaf fuel _ (nid + 2) _ out h
      rw [leavesF_append] at ih
      simp only [Pending.toNode, leavesF, List.append_nil, List.flatMap_append, List.flatMap_cons, List.flatMap_nil] at ih
      simp only [List.flatMap_cons, specLeaves_split hleaf hs nid]
      refine ih.trans ?_
      apply List.Perm.append_left
      exact List.perm_append_comm

/-! ### the stack traversal of `query` -/

def Tree.size : Tree → Nat
  | .leaf _ _ => 1
  | .node _ _ _ l r => 1 + l.size + r.size

theorem toTree_root {nodes : List FNode} : ∀ {f id : Nat} {t : Tree}, toTree nodes f id = some t →
    ∃ nd, nodes[id]? = some nd ∧ nd.box = t.box
  | 0, _, _, h => by simp [toTree] at h
  | f + 1, id, t, h => by
    simp only [toTree] at h
    split at h
    · rename_i a b c idx box hg
      simp only [Option.some.injEq] at h; subst h
      exact ⟨_, hg, rfl⟩
    · rename_i a ax c sv l r box hg
      split at h
      · simp only [Option.some.injEq] at h; subst h
        exact ⟨_, hg, rfl⟩
      · cases h
    · cases h

variable {q : Pt} {k : Nat}

theorem queryFlat_mono {nodes : List FNode} : ∀ (F m : Nat) (stack : List Nat) (st res : List Cand),
    queryFlat P q k nodes F stack st = some res → queryFlat P q k nodes (F + m) stack st = some res
  | F, m, [], st, res, h => by
    cases F <;> cases hm : (_ + m) <;> simp_all [queryFlat]
  | 0, m, _ :: _, st, res, h => by simp [queryFlat] at h
  | F + 1, m, id :: stack, st, res, h => by
    rw [show F + 1 + m = (F + m) + 1 by omega]
    cases hg : nodes[id]? with
    | none => simp [queryFlat, hg] at h
    | some nd =>
      cases nd with
      | leaf a b c idx box =>
        simp only [queryFlat, hg] at h ⊢
        exact queryFlat_mono F m _ _ _ h
      | node a ax c sv l r box =>
        cases hl : nodes[l]? with
        | none => simp [queryFlat, hg, hl] at h
        | some nl =>
          cases hr : nodes[r]? with
          | none => simp [queryFlat, hg, hl, hr] at h
          | some nr =>
            simp only [queryFlat, hg, hl, hr] at h ⊢
            exact queryFlat_mono F m _ _ _ h

theorem visit_leaf (idx : List Nat) (b : Box) (st : List Cand) :
    visit P q k (.leaf idx b) st = visitLeaf P q k idx st := by simp [visit, visitWith]

theorem visit_node (ax : Nat) (sv : Rat) (b : Box) (l r : Tree) (st : List Cand) :
    visit P q k (.node ax sv b l r) st =
      if l.box.dist2 q ≤ r.box.dist2 q then
        (if l.box.dist2 q < furthest k st then visit P q k l (if r.box.dist2 q < furthest k st then visit P q k r st else st)
         else (if r.box.dist2 q < furthest k st then visit P q k r st else st))
      else
        (if r.box.dist2 q < furthest k st then visit P q k r (if l.box.dist2 q < furthest k st then visit P q k l st else st)
         else (if l.box.dist2 q < furthest k st then visit P q k l st else st)) := by
  simp only [visit, visitWith]

theorem pushOrder_reverse (fz dl dr : EQ) (l r : Nat) :
    (pushOrder fz dl dr l r).reverse =
      if dl ≤ dr then (if dr < fz then [r] else []) ++ (if dl < fz then [l] else [])
      else (if dl < fz then [l] else []) ++ (if dr < fz then [r] else []) := by
  unfold pushOrder
  split <;> split <;> split <;> simp

/-- **Stack refinement.** If node `id` of the flat list reads back as the tree `t`, then popping `id` from the stack
amounts to the recursive traversal of `t`: whenever the rest of the stack completes from the state `visit t st` within
`F` iterations, the whole completes from `st` within `F + size t` iterations with the same answer. -/
theorem queryFlat_visit {nodes : List FNode} : ∀ (ft id : Nat) (t : Tree), toTree nodes ft id = some t →
    ∀ (F : Nat) (stack : List Nat) (st res : List Cand),
      queryFlat P q k nodes F stack (visit P q k t st) = some res →
      queryFlat P q k nodes (F + t.size) (id :: stack) st = some res
  | 0, _, _, h => by simp [toTree] at h
  | ft + 1, id, t, h => by
    intro F stack st res hres
    simp only [toTree] at h
    split at h
    · rename_i a b c idx box hg
      simp only [Option.some.injEq] at h; subst h
      rw [visit_leaf] at hres
      simp only [Tree.size, queryFlat, hg]
      exact hres
    · rename_i a ax c sv l r box hg
      split at h
      · rename_i tl tr hl hr
        simp only [Option.some.injEq] at h; subst h
        obtain ⟨nl, hnl, hbl⟩ := toTree_root hl
        obtain ⟨nr, hnr, hbr⟩ := toTree_root hr
        have IHl := queryFlat_visit ft l tl hl
        have IHr := queryFlat_visit ft r tr hr
        rw [visit_node] at hres
        rw [show F + (Tree.node ax sv box tl tr).size = (F + tl.size + tr.size) + 1 by simp only [Tree.size]; omega]
        simp only [queryFlat, hg, hnl, hnr, hbl, hbr, pushOrder_reverse]
        -- optional push of one child: visited (induction hypothesis) or skipped (fuel monotonicity)
        have optL : ∀ (c : Prop) [Decidable c] (F' : Nat) (stk : List Nat) (s : List Cand),
            queryFlat P q k nodes F' stk (if c then visit P q k tl s else s) = some res →
            queryFlat P q k nodes (F' + tl.size) ((if c then [l] else []) ++ stk) s = some res := by
          intro c _ F' stk s hh
          by_cases hc : c
          · simp only [hc, if_true, List.singleton_append] at hh ⊢; exact IHl F' stk s res hh
          · simp only [hc, if_false, List.nil_append] at hh ⊢; exact queryFlat_mono F' _ stk s res hh
        have optR : ∀ (c : Prop) [Decidable c] (F' : Nat) (stk : List Nat) (s : List Cand),
            queryFlat P q k nodes F' stk (if c then visit P q k tr s else s) = some res →
            queryFlat P q k nodes (F' + tr.size) ((if c then [r] else []) ++ stk) s = some res := by
          intro c _ F' stk s hh
          by_cases hc : c
          · simp only [hc, if_true, List.singleton_append] at hh ⊢; exact IHr F' stk s res hh
          · simp only [hc, if_false, List.nil_append] at hh ⊢; exact queryFlat_mono F' _ stk s res hh
        by_cases hle : tl.box.dist2 q ≤ tr.box.dist2 q
        · simp only [hle, if_true] at hres ⊢
          rw [List.append_assoc]
          apply optR
          apply optL
          -- `if cl then visit tl st1 else st1` is what the recursive model computes
          split at hres <;> simp_all
        · simp only [hle, if_false] at hres ⊢
          rw [List.append_assoc, show F + tl.size + tr.size = F + tr.size + tl.size by omega]
          apply optL
          apply optR
          split at hres <;> simp_all
      · cases h
    · cases h


/-! ### the FIFO traversal of `query_radius` -/

variable {r2 : Rat}

/-- node `id` of the flat list reads back as the tree `t` (for some depth bound) -/
def Reads (nodes : List FNode) (id : Nat) (t : Tree) : Prop := ∃ f, toTree nodes f id = some t

theorem toTree_inv {nodes : List FNode} {f id : Nat} {t : Tree} (h : toTree nodes f id = some t) :
    (∃ a b c idx box, nodes[id]? = some (.leaf a b c idx box) ∧ t = .leaf idx box) ∨
    (∃ a ax c sv l r box tl tr, nodes[id]? = some (.node a ax c sv l r box) ∧ Reads nodes l tl ∧ Reads nodes r tr ∧
      t = .node ax sv box tl tr) := by
  cases f with
  | zero => simp [toTree] at h
  | succ f =>
    simp only [toTree] at h
    split at h
    · rename_i a b c idx box hg
      simp only [Option.some.injEq] at h
      exact Or.inl ⟨a, b, c, idx, box, hg, h.symm⟩
    · rename_i a ax c sv l r box hg
      split at h
      · rename_i tl tr hl hr
        simp only [Option.some.injEq] at h
        exact Or.inr ⟨a, ax, c, sv, l, r, box, tl, tr, hg, ⟨f, hl⟩, ⟨f, hr⟩, h.symm⟩
      · cases h
    · cases h

theorem radiusFlat_mono {nodes : List FNode} : ∀ (F m : Nat) (queue acc res : List Nat),
    radiusFlat P q r2 nodes F queue acc = some res → radiusFlat P q r2 nodes (F + m) queue acc = some res
  | F, m, [], acc, res, h => by
    cases F <;> cases hm : (_ + m) <;> simp_all [radiusFlat]
  | 0, m, _ :: _, acc, res, h => by simp [radiusFlat] at h
  | F + 1, m, id :: queue, acc, res, h => by
    rw [show F + 1 + m = (F + m) + 1 by omega]
    cases hg : nodes[id]? with
    | none => simp [radiusFlat, hg] at h
    | some nd =>
      simp only [radiusFlat, hg] at h ⊢
      split
      · rename_i hp; rw [if_pos hp] at h; exact radiusFlat_mono F m _ _ _ h
      · rename_i hp; rw [if_neg hp] at h
        cases nd with
        | leaf a b c idx box => exact radiusFlat_mono F m _ _ _ h
        | node a ax c sv l r box => exact radiusFlat_mono F m _ _ _ h

def forestSize (ts : List Tree) : Nat := (ts.map Tree.size).sum

theorem size_pos (t : Tree) : 0 < t.size := by cases t <;> simp [Tree.size]

theorem forall₂_append' {α β} {R : α → β → Prop} : ∀ {a : List α} {b : List β} {c : List α} {d : List β},
    List.Forall₂ R a b → List.Forall₂ R c d → List.Forall₂ R (a ++ c) (b ++ d)
  | [], [], _, _, _, h2 => by simpa using h2
  | x :: xs, y :: ys, _, _, h1, h2 => by
    have h1' := List.forall₂_cons.mp h1
    exact List.Forall₂.cons h1'.1 (forall₂_append' h1'.2 h2)

/-- **FIFO refinement.** If the queued ids read back as the trees `ts`, the FIFO traversal terminates and its answer is,
up to order, what was accumulated so far followed by the recursive radius answers of `ts`. -/
theorem radiusFlat_forest {nodes : List FNode} : ∀ (m : Nat) (ids : List Nat) (ts : List Tree),
    forestSize ts ≤ m → List.Forall₂ (Reads nodes) ids ts → ∀ acc : List Nat,
    ∃ F res, radiusFlat P q r2 nodes F ids acc = some res ∧ res.Perm (acc ++ ts.flatMap (radius P q r2))
  | _, [], ts, _, hf, acc => by
    cases hf
    exact ⟨0, acc, by simp [radiusFlat], by simp⟩
  | 0, id :: ids, ts, hm, hf, acc => by
    cases hf with
    | cons h1 h2 =>
      rename_i t ts'
      have := size_pos t
      simp only [forestSize, List.map_cons, List.sum_cons] at hm
      omega
  | m + 1, id :: ids, ts, hm, hf, acc => by
    cases hf with
    | cons h1 h2 =>
      rename_i t ts'
      simp only [forestSize, List.map_cons, List.sum_cons] at hm
      obtain ⟨f, hread⟩ := h1
      obtain ⟨nd, hnd, hbox⟩ := toTree_root hread
      have hpos := size_pos t
      by_cases hp : fin r2 < t.box.dist2 q
      · -- pruned: the recursive answer of `t` is empty
        have hr : radius P q r2 t = [] := by cases t <;> simp_all [radius, Tree.box]
        obtain ⟨F, res, hF, hperm⟩ := radiusFlat_forest m ids ts' (by simp only [forestSize]; omega) h2 acc
        refine ⟨F + 1, res, ?_, ?_⟩
        · simp only [radiusFlat, hnd, hbox, if_pos hp]; exact hF
        · simpa [hr] using hperm
      · rcases toTree_inv hread with ⟨a, b, c, idx, box, hg, rfl⟩ | ⟨a, ax, c, sv, l, r, box, tl, tr, hg, hl, hr, rfl⟩
        · -- leaf
          rw [hg] at hnd; simp only [Option.some.injEq] at hnd; subst hnd
          obtain ⟨F, res, hF, hperm⟩ := radiusFlat_forest m ids ts' (by simp only [forestSize]; omega) h2
            (acc ++ idx.filter (fun i => decide (sqDist (P i) q ≤ r2)))
          simp only [Tree.box] at hp
          have hrad : radius P q r2 (Tree.leaf idx box) = idx.filter (fun i => decide (sqDist (P i) q ≤ r2)) := by
            simp only [radius]; rw [if_neg hp]
          refine ⟨F + 1, res, ?_, ?_⟩
          · simp only [radiusFlat, hg]
            split
            · rename_i hh; exact absurd hh hp
            · exact hF
          · simp only [List.flatMap_cons, hrad]
            simpa [List.append_assoc] using hperm
        · -- node: the children are appended to the queue
          rw [hg] at hnd; simp only [Option.some.injEq] at hnd; subst hnd
          have hsz : forestSize (ts' ++ [tl, tr]) ≤ m := by
            simp only [forestSize, List.map_append, List.sum_append, List.map_cons, List.map_nil, List.sum_cons, List.sum_nil,
              Tree.size] at hm ⊢
            omega
          have hf2 : List.Forall₂ (Reads nodes) (ids ++ [l, r]) (ts' ++ [tl, tr]) :=
            forall₂_append' h2 (List.Forall₂.cons hl (List.Forall₂.cons hr List.Forall₂.nil))
          obtain ⟨F, res, hF, hperm⟩ := radiusFlat_forest m (ids ++ [l, r]) (ts' ++ [tl, tr]) hsz hf2 acc
          simp only [Tree.box] at hp
          have hrad : radius P q r2 (Tree.node ax sv box tl tr) = radius P q r2 tl ++ radius P q r2 tr := by
            simp only [radius]; rw [if_neg hp]
          refine ⟨F + 1, res, ?_, ?_⟩
          · simp only [radiusFlat, hg]
            split
            · rename_i hh; exact absurd hh hp
            · exact hF
          · refine hperm.trans ?_
            simp only [List.flatMap_append, List.flatMap_cons, List.flatMap_nil, List.append_nil, hrad]
            apply List.Perm.append_left
            exact List.perm_append_comm

end Mouette.KD
