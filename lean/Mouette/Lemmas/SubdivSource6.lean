import Mouette.Lemmas.SubdivSource5
import Mouette.Lemmas.SubdivComponents4
/-
C13 (round 5): connected components through `split_double_boundary_edges_triangles`.
-/
namespace Mouette.SubdivSrc
open Mouette.Subdiv

theorem conn_congr (a b : Raw) (h : a.faces = b.faces) (x y : Nat) : Conn a x y ↔ Conn b x y := by
  have : Adj a = Adj b := by
    funext u v; simp only [Adj, dirSides, h]
  simp only [Conn, this]

theorem foldE_fan_components : ∀ (pb : List Nat) (m m1 : Raw), WF m → foldE Subdiv.splitFaceAsFan m pb = .ok m1 → CompPres m m1 := by
  intro pb
  induction pb with
  | nil => intro m m1 _ h; simp [foldE] at h; subst h; exact CompPres.refl m
  | cons f fs ih =>
    intro m m1 hwf h
    simp only [foldE] at h
    cases hf : Subdiv.splitFaceAsFan m f with
    | error e => simp [hf] at h
    | ok m2 =>
      simp only [hf] at h
      have hwf2 : WF m2 := (applyOp_area m m2 (.fan f) rfl hwf hf).2
      obtain ⟨_, _, _, _, _, _, _, _, hv, _⟩ := fan_spec m m2 f hf
      exact (show CompPres m m2 from ⟨by rw [hv]; simp, (fan_components m m2 f hwf hf).1⟩).trans (ih m2 m1 hwf2 h)

theorem sdb_components (m m' : Raw) (hwf : WF m) (hc : m.cells = []) (h : Subdiv.splitDoubleBoundary m = .ok m') :
    CompPres m m' := by
  unfold Subdiv.splitDoubleBoundary at h
  cases hd : degrees m with
  | error e => simp [hd] at h
  | ok deg =>
    simp only [hd] at h
    cases hs : mapE (scanFace deg) m.faces with
    | error e => simp [hs] at h
    | ok flags =>
      simp only [hs] at h
      by_cases hpb : pbOf 0 flags = []
      · simp only [hpb, if_true, Except.ok.injEq] at h; subst h; exact CompPres.refl m
      · simp only [hpb, if_false] at h
        cases hf : foldE Subdiv.splitFaceAsFan m (pbOf 0 flags) with
        | error e => simp [hf] at h
        | ok m1 =>
          simp only [hf, Except.ok.injEq] at h
          subst h
          obtain ⟨_, hcells⟩ := foldE_fan_runOps _ m m1 0 hf
          have hfaces : (prepare m1).faces = m1.faces := prepare_faces_of_no_cells m1 (by rw [hcells, hc])
          obtain ⟨h1, h2⟩ := foldE_fan_components _ m m1 hwf hf
          exact ⟨by rw [prepare_verts]; exact h1, fun x y hx hy => (conn_congr _ _ hfaces x y).trans (h2 x y hx hy)⟩

end Mouette.SubdivSrc
