import Mouette.Lemmas.SubdivManifold3
import Mouette.Lemmas.SubdivComponents
/-
C13 (round 4): connected components through the quad cut of `triangulate_face`: the only new adjacency is the diagonal
b - d, whose ends were already connected through the quad (b - c - d), so the components are the same - on EVERY mesh,
regular complex or not.
-/
namespace Mouette.Subdiv

theorem quad_adj (m m' : Raw) (fid a b c d : Nat) (hf : m.faces[fid]? = some [a, b, c, d])
    (h : triangulateFace m fid = .ok m') (x y : Nat) :
    Adj m' x y ↔ Adj m x y ∨ (x = b ∧ y = d) ∨ (x = d ∧ y = b) := by
  have memD : ∀ z, z ∈ dirSides m' ↔ z ∈ dirSides m ∨ z = (b, d) ∨ z = (d, b) := fun z => by
    rw [(quad_dirSides_perm m m' fid a b c d hf h).mem_iff, List.mem_append]
    simp
  unfold Adj
  rw [memD, memD]
  simp only [Prod.mk.injEq]
  constructor
  · rintro ((h1 | h1 | h1) | (h1 | h1 | h1))
    · exact Or.inl (Or.inl h1)
    · exact Or.inr (Or.inl h1)
    · exact Or.inr (Or.inr h1)
    · exact Or.inl (Or.inr h1)
    · exact Or.inr (Or.inr ⟨h1.2, h1.1⟩)
    · exact Or.inr (Or.inl ⟨h1.2, h1.1⟩)
  · rintro ((h1 | h1) | h1 | h1)
    · exact Or.inl (Or.inl h1)
    · exact Or.inr (Or.inl h1)
    · exact Or.inl (Or.inr (Or.inl h1))
    · exact Or.inl (Or.inr (Or.inr h1))

theorem quad_diag_conn (m : Raw) (fid a b c d : Nat) (hf : m.faces[fid]? = some [a, b, c, d]) : Conn m b d := by
  have hm : [a, b, c, d] ∈ m.faces := List.mem_of_getElem? hf
  have h1 : (b, c) ∈ dirSides m := List.mem_flatMap.mpr ⟨_, hm, by simp [cycPairs, cycGo]⟩
  have h2 : (c, d) ∈ dirSides m := List.mem_flatMap.mpr ⟨_, hm, by simp [cycPairs, cycGo]⟩
  exact (Relation.ReflTransGen.single (show Adj m b c from Or.inl h1)).tail (show Adj m c d from Or.inl h2)

theorem quad_components (m m' : Raw) (fid a b c d : Nat) (hf : m.faces[fid]? = some [a, b, c, d])
    (h : triangulateFace m fid = .ok m') (x y : Nat) : Conn m' x y ↔ Conn m x y := by
  constructor
  · intro hc
    induction hc with
    | refl => exact Relation.ReflTransGen.refl
    | @tail u v _ huv ih =>
      rcases (quad_adj m m' fid a b c d hf h u v).mp huv with h1 | ⟨rfl, rfl⟩ | ⟨rfl, rfl⟩
      · exact ih.tail h1
      · exact ih.trans (quad_diag_conn m fid a _ c _ hf)
      · exact ih.trans (quad_diag_conn m fid a _ c _ hf).symm
  · intro hc
    induction hc with
    | refl => exact Relation.ReflTransGen.refl
    | @tail u v _ huv ih => exact ih.tail ((quad_adj m m' fid a b c d hf h u v).mpr (Or.inl huv))

end Mouette.Subdiv
