import Mouette.Model.FrameFieldV
import Mouette.Lemmas.C18Lemmas
/-
Lemmas for the vertex-based frame field model (`Model/FrameFieldV.lean`).
-/
namespace Mouette.Lemmas.C18V
open Mouette.FF Mouette.FFV Mouette.Lemmas.C18

/-! ### normalisation of the feature vertices -/
theorem featThreshold_nonneg : (0 : Rat) ≤ featThreshold := by
  unfold featThreshold; norm_num

def stepNF (rs : List Rat) (v : List Cpx) (A : Nat) : List Cpx :=
  if featThreshold < rs.getD A 0 then v.set A (cdivR (v.getD A czero) (rs.getD A 0)) else v

theorem normalizeFeature_eq (var : List Cpx) (featV : List Nat) (rs : List Rat) :
    normalizeFeature var featV rs = featV.foldl (stepNF rs) var := rfl

theorem stepNF_length (rs : List Rat) (v : List Cpx) (A : Nat) : (stepNF rs v A).length = v.length := by
  unfold stepNF; split <;> simp

theorem stepNF_ne (rs : List Rat) (v : List Cpx) (A i : Nat) (h : A ≠ i) : (stepNF rs v A).getD i czero = v.getD i czero := by
  unfold stepNF
  split
  · exact getD_set_ne v i A _ czero h
  · rfl

theorem foldl_stepNF_notin (rs : List Rat) : ∀ (featV : List Nat) (v : List Cpx) (i : Nat), i ∉ featV →
    (featV.foldl (stepNF rs) v).getD i czero = v.getD i czero
  | [], _, _, _ => rfl
  | A :: rest, v, i, h => by
    simp only [List.foldl]
    rw [foldl_stepNF_notin rs rest (stepNF rs v A) i (fun hm => h (by simp [hm]))]
    exact stepNF_ne rs v A i (fun e => h (by simp [e]))

theorem getD_set_self {α} (l : List α) (i : Nat) (x d : α) (h : i < l.length) : (l.set i x).getD i d = x := by
  simp [List.getD_eq_getElem?_getD, List.getElem?_set_self h]

theorem foldl_stepNF_unit (rs : List Rat) : ∀ (featV : List Nat) (v : List Cpx) (A : Nat), A ∈ featV → featV.Nodup →
    A < v.length → featThreshold < rs.getD A 0 → rs.getD A 0 * rs.getD A 0 = normSq (v.getD A czero) →
    normSq ((featV.foldl (stepNF rs) v).getD A czero) = 1
  | [], _, _, h, _, _, _, _ => by simp at h
  | B :: rest, v, A, hmem, hnd, hlt, hthr, hsq => by
    simp only [List.foldl]
    have hnd' := List.nodup_cons.mp hnd
    by_cases hBA : B = A
    · subst hBA
      rw [foldl_stepNF_notin rs rest _ B hnd'.1]
      unfold stepNF
      rw [if_pos hthr, getD_set_self _ _ _ _ hlt]
      have hr : rs.getD B 0 ≠ 0 := by
        have := featThreshold_nonneg
        intro h0; rw [h0] at hthr; linarith
      exact normSq_cdivR _ _ hr hsq
    · have hA : A ∈ rest := by
        rcases List.mem_cons.mp hmem with h | h
        · exact absurd h.symm hBA
        · exact h
      apply foldl_stepNF_unit rs rest (stepNF rs v B) A hA hnd'.2
      · rw [stepNF_length]; exact hlt
      · exact hthr
      · rw [stepNF_ne rs v B A hBA]; exact hsq

/-! ### flags of the feature vertices -/
theorem foldl_set_true_mono : ∀ (fv : List Nat) (fl : List Bool) (i : Nat), fl.getD i false = true →
    (fv.foldl (fun fl v => fl.set v true) fl).getD i false = true
  | [], _, _, h => h
  | v :: vs, fl, i, h => foldl_set_true_mono vs (fl.set v true) i (getD_set_true fl i v h)

theorem foldl_set_true_sets : ∀ (fv : List Nat) (fl : List Bool) (t : Nat), t < fl.length → t ∈ fv →
    (fv.foldl (fun fl v => fl.set v true) fl).getD t false = true
  | [], _, _, _, h => by simp at h
  | v :: vs, fl, t, ht, h => by
    simp only [List.foldl]
    rcases List.mem_cons.mp h with rfl | h'
    · exact foldl_set_true_mono vs _ t (getD_set_self_true fl t ht)
    · exact foldl_set_true_sets vs (fl.set v true) t (by simp; exact ht) h'

/-! ### matching: the vertex candidates are the face candidates with `aB + 1/2` -/
theorem candidatesV_eq (n : Nat) (e : VEdge) : candidatesV n e = candidates n e.thA e.aA e.thB (e.aB + 1/2) := by
  unfold candidatesV candidates
  apply List.map_congr_left
  intro k _
  have : e.thB / (n : Rat) - e.aB - 1/2 = e.thB / (n : Rat) - (e.aB + 1/2) := by ring
  rw [this]

theorem edgeRotV_eq (n : Nat) (e : VEdge) : edgeRotV n e = edgeRot n e.thA e.aA e.thB (e.aB + 1/2) := by
  unfold edgeRotV edgeRot; rw [candidatesV_eq]

/-- the directed quantisation statement for a half-edge `(u,v)` carrying rotation `ρ` -/
def Q (n : Nat) (θ : Nat → Rat) (t : Nat → Nat → Rat) (u v : Nat) (ρ : Rat) : Prop :=
  ∃ j : Int, (n : Rat) * ρ = (θ v - θ u) - (n : Rat) * curvTerm (t v u) (t u v) + (j : Rat)

def Consistent (θ : Nat → Rat) (t : Nat → Nat → Rat) (e : VEdge) : Prop :=
  e.thA = θ e.a ∧ e.thB = θ e.b ∧ e.aA = t e.a e.b ∧ e.aB = t e.b e.a

theorem Q_forward (n : Nat) (hn : 0 < n) (θ : Nat → Rat) (t : Nat → Nat → Rat) (e : VEdge) (hc : Consistent θ t e) :
    Q n θ t e.a e.b (edgeRotV n e) := by
  obtain ⟨j, hj⟩ := edgeRot_quantised n hn e.thA e.aA e.thB (e.aB + 1/2)
  obtain ⟨h1, h2, h3, h4⟩ := hc
  refine ⟨j - (n : Int), ?_⟩
  rw [edgeRotV_eq, hj, h1, h2, h3, h4]
  unfold curvTerm
  push_cast; ring

theorem Q_backward (n : Nat) (hn : 0 < n) (θ : Nat → Rat) (t : Nat → Nat → Rat) (e : VEdge) (hc : Consistent θ t e) :
    Q n θ t e.b e.a (-(edgeRotV n e)) := by
  obtain ⟨j, hj⟩ := edgeRot_quantised n hn e.thA e.aA e.thB (e.aB + 1/2)
  obtain ⟨h1, h2, h3, h4⟩ := hc
  refine ⟨-j, ?_⟩
  have : (n : Rat) * -(edgeRotV n e) = -((n : Rat) * edgeRotV n e) := by ring
  rw [this, edgeRotV_eq, hj, h1, h2, h3, h4]
  unfold curvTerm
  push_cast; ring

theorem wrapPhase_int (x : Rat) : ∃ m : Int, wrapPhase x = x - (m : Rat) := ⟨ceilR (x - 1/2), rfl⟩

theorem face_quantised (n : Nat) (θ : Nat → Rat) (t : Nat → Nat → Rat) (f : Face) (ρ1 ρ2 ρ3 : Rat)
    (h1 : Q n θ t f.A f.B ρ1) (h2 : Q n θ t f.B f.C ρ2) (h3 : Q n θ t f.C f.A ρ3) :
    ∃ K : Int, (n : Rat) * (ρ1 + ρ2 + ρ3 + curvature t f) = (K : Rat) := by
  obtain ⟨j1, e1⟩ := h1
  obtain ⟨j2, e2⟩ := h2
  obtain ⟨j3, e3⟩ := h3
  obtain ⟨m, hm⟩ := wrapPhase_int (curvSum t f)
  refine ⟨j1 + j2 + j3 - (n : Int) * m, ?_⟩
  unfold curvature
  rw [hm]
  have : (n : Rat) * (ρ1 + ρ2 + ρ3 + (curvSum t f - (m : Rat)))
      = (n : Rat) * ρ1 + (n : Rat) * ρ2 + (n : Rat) * ρ3 + (n : Rat) * curvSum t f - (n : Rat) * (m : Rat) := by ring
  rw [this, e1, e2, e3]
  unfold curvSum
  push_cast; ring

/-! ### directed lookup in a list with one matching edge -/
def Matches (e : RE) (u v : Nat) : Prop := (e.a = u ∧ e.b = v) ∨ (e.b = u ∧ e.a = v)

theorem dirContrib_nomatch (e : RE) (u v : Nat) (h : ¬ Matches e u v) : dirContrib e u v = 0 := by
  unfold dirContrib
  rw [if_neg (fun h' => h (Or.inl h')), if_neg (fun h' => h (Or.inr h'))]

theorem rotD_nomatch : ∀ (es : List RE) (u v : Nat), (∀ x ∈ es, ¬ Matches x u v) → rotD es u v = 0
  | [], _, _, _ => rfl
  | e :: es, u, v, h => by
    unfold rotD
    simp only [List.foldr]
    have := rotD_nomatch es u v (fun x hx => h x (by simp [hx]))
    unfold rotD at this
    rw [this, dirContrib_nomatch e u v (h e (by simp))]; ring

theorem rotD_append (l1 l2 : List RE) (u v : Nat) : rotD (l1 ++ l2) u v = rotD l1 u v + rotD l2 u v := by
  induction l1 with
  | nil => unfold rotD; simp
  | cons e l ih =>
    unfold rotD at *
    simp only [List.cons_append, List.foldr]
    rw [ih]; ring

theorem rotD_unique (l1 l2 : List RE) (e : RE) (u v : Nat)
    (h1 : ∀ x ∈ l1, ¬ Matches x u v) (h2 : ∀ x ∈ l2, ¬ Matches x u v) :
    rotD (l1 ++ e :: l2) u v = dirContrib e u v := by
  rw [rotD_append, rotD_nomatch l1 u v h1]
  unfold rotD
  simp only [List.foldr]
  have := rotD_nomatch l2 u v h2
  unfold rotD at this
  rw [this]; ring

theorem Q_of_unique (n : Nat) (hn : 0 < n) (θ : Nat → Rat) (t : Nat → Nat → Rat) (l1 l2 : List VEdge) (e : VEdge) (u v : Nat)
    (hc : Consistent θ t e) (hne : e.a ≠ e.b) (hm : Matches (e.toRE n) u v)
    (h1 : ∀ x ∈ l1, ¬ Matches (x.toRE n) u v) (h2 : ∀ x ∈ l2, ¬ Matches (x.toRE n) u v) :
    Q n θ t u v (rotD ((l1 ++ e :: l2).map (VEdge.toRE n)) u v) := by
  have hmap : (l1 ++ e :: l2).map (VEdge.toRE n) = l1.map (VEdge.toRE n) ++ e.toRE n :: l2.map (VEdge.toRE n) := by simp
  rw [hmap, rotD_unique]
  · unfold dirContrib
    rcases hm with ⟨ha, hb⟩ | ⟨hb, ha⟩
    · simp only [VEdge.toRE] at ha hb
      rw [if_pos (by simp only [VEdge.toRE]; exact ⟨ha, hb⟩)]
      subst ha; subst hb
      exact Q_forward n hn θ t e hc
    · simp only [VEdge.toRE] at ha hb
      have hneg : ¬ ((e.toRE n).a = u ∧ (e.toRE n).b = v) := by
        simp only [VEdge.toRE]
        intro ⟨h3, h4⟩
        apply hne; rw [h3, ← hb]
      rw [if_neg hneg, if_pos (by simp only [VEdge.toRE]; exact ⟨hb, ha⟩)]
      subst ha; subst hb
      exact Q_backward n hn θ t e hc
  · intro x hx
    simp only [List.mem_map] at hx
    obtain ⟨y, hy, rfl⟩ := hx
    exact h1 y hy
  · intro x hx
    simp only [List.mem_map] at hx
    obtain ⟨y, hy, rfl⟩ := hx
    exact h2 y hy

/-! ### telescoping of the face holonomies -/
theorem sumF_add (g h : Face → Rat) (fs : List Face) : sumF (fun f => g f + h f) fs = sumF g fs + sumF h fs := by
  induction fs with
  | nil => simp [sumF]
  | cons f fs ih => unfold sumF at *; simp only [List.foldr]; rw [ih]; ring

theorem sumF_mul (c : Rat) (g : Face → Rat) (fs : List Face) : sumF (fun f => c * g f) fs = c * sumF g fs := by
  induction fs with
  | nil => simp [sumF]
  | cons f fs ih => unfold sumF at *; simp only [List.foldr]; rw [ih]; ring

theorem sumF_congr (g h : Face → Rat) (fs : List Face) (e : ∀ f, g f = h f) : sumF g fs = sumF h fs := by
  have : g = h := funext e
  rw [this]

theorem sumF_zero (fs : List Face) : sumF (fun _ => (0 : Rat)) fs = 0 := by
  induction fs with
  | nil => rfl
  | cons f fs ih => unfold sumF at *; simp only [List.foldr]; rw [ih]; ring

theorem dirContrib_ind (e : RE) (hne : e.a ≠ e.b) (u v : Nat) :
    dirContrib e u v = e.r * (ind (u = e.a ∧ v = e.b) - ind (u = e.b ∧ v = e.a)) := by
  unfold dirContrib ind
  by_cases h1 : e.a = u ∧ e.b = v
  · have h2 : ¬ (u = e.b ∧ v = e.a) := by
      intro ⟨h3, h4⟩; apply hne; rw [h1.1, h3]
    rw [if_pos h1, if_pos ⟨h1.1.symm, h1.2.symm⟩, if_neg h2]; ring
  · by_cases h2 : e.b = u ∧ e.a = v
    · rw [if_neg h1, if_pos h2, if_neg (fun h => h1 ⟨h.1.symm, h.2.symm⟩), if_pos ⟨h2.1.symm, h2.2.symm⟩]; ring
    · rw [if_neg h1, if_neg h2, if_neg (fun h => h1 ⟨h.1.symm, h.2.symm⟩), if_neg (fun h => h2 ⟨h.1.symm, h.2.symm⟩)]; ring

theorem holonomy_cons (e : RE) (es : List RE) (f : Face) :
    holonomy (e :: es) f = (dirContrib e f.A f.B + dirContrib e f.B f.C + dirContrib e f.C f.A) + holonomy es f := by
  unfold holonomy rotD; simp only [List.foldr]; ring

theorem edge_faces_sum (e : RE) (hne : e.a ≠ e.b) (fs : List Face) :
    sumF (fun f => dirContrib e f.A f.B + dirContrib e f.B f.C + dirContrib e f.C f.A) fs
      = e.r * (cnt fs e.a e.b - cnt fs e.b e.a) := by
  unfold cnt
  have : ∀ f : Face, dirContrib e f.A f.B + dirContrib e f.B f.C + dirContrib e f.C f.A
      = e.r * ((ind (f.A = e.a ∧ f.B = e.b) + ind (f.B = e.a ∧ f.C = e.b) + ind (f.C = e.a ∧ f.A = e.b))
               - (ind (f.A = e.b ∧ f.B = e.a) + ind (f.B = e.b ∧ f.C = e.a) + ind (f.C = e.b ∧ f.A = e.a))) := by
    intro f
    rw [dirContrib_ind e hne, dirContrib_ind e hne, dirContrib_ind e hne]; ring
  rw [sumF_congr _ _ fs this, sumF_mul]
  congr 1
  induction fs with
  | nil => simp [sumF]
  | cons f fs ih => unfold sumF at *; simp only [List.foldr]; rw [ih]; ring

theorem holonomy_total : ∀ (es : List RE) (fs : List Face), (∀ e ∈ es, e.a ≠ e.b) →
    sumF (holonomy es) fs = borderTerm es fs
  | [], fs, _ => by
    unfold borderTerm
    simp only [List.foldr]
    rw [sumF_congr (holonomy []) (fun _ => 0) fs (fun f => by simp [holonomy, rotD])]
    exact sumF_zero fs
  | e :: es, fs, h => by
    have ih := holonomy_total es fs (fun x hx => h x (by simp [hx]))
    rw [sumF_congr _ _ fs (holonomy_cons e es), sumF_add, ih, edge_faces_sum e (h e (by simp)) fs]
    unfold borderTerm; simp only [List.foldr]

theorem borderTerm_zero : ∀ (es : List RE) (fs : List Face), (∀ e ∈ es, cnt fs e.a e.b = cnt fs e.b e.a) → borderTerm es fs = 0
  | [], _, _ => rfl
  | e :: es, fs, h => by
    have ih := borderTerm_zero es fs (fun x hx => h x (by simp [hx]))
    unfold borderTerm at *
    simp only [List.foldr]
    rw [ih, h e (by simp)]; ring

/-! ### the cancellation guard keeps accepted sums away from zero -/
def GuardInv (var : List Cpx) : Prop :=
  ∀ i, var.getD i czero = czero ∨ Generated.C18.vertexGuardSq < normSq (var.getD i czero)

theorem guardInv_replicate (n : Nat) : GuardInv (List.replicate n czero) := by
  intro i
  left
  by_cases h : i < n
  · simp [List.getD_eq_getElem?_getD, List.getElem?_replicate, h]
  · simp [List.getD_eq_getElem?_getD, List.getElem?_replicate, h]

theorem guardInv_set (var : List Cpx) (j : Nat) (x : Cpx) (h : GuardInv var) (hx : Generated.C18.vertexGuardSq < normSq x) :
    GuardInv (var.set j x) := by
  intro i
  by_cases hij : j = i
  · subst hij
    by_cases hlt : j < var.length
    · right; rw [getD_set_self var j x czero hlt]; exact hx
    · have : var.set j x = var := List.set_eq_of_length_le (by omega)
      rw [this]; exact h j
  · rw [getD_set_ne var i j x czero hij]; exact h i

theorem guardInv_foldl (order : Nat) : ∀ (contribs : List (Nat × Cpx)) (var : List Cpx), GuardInv var →
    GuardInv (contribs.foldl (fun var w =>
      let s := cadd (var.getD w.1 czero) (cpow w.2 order)
      if true && !(decide (Generated.C18.vertexGuardSq < normSq s)) then var else var.set w.1 s) var)
  | [], _, h => h
  | w :: ws, var, h => by
    simp only [List.foldl]
    apply guardInv_foldl order ws
    by_cases hs : Generated.C18.vertexGuardSq < normSq (cadd (var.getD w.1 czero) (cpow w.2 order))
    · simp only [hs, decide_true, Bool.not_true, Bool.and_false, Bool.false_eq_true, if_false]
      exact guardInv_set var w.1 _ h hs
    · simp only [hs, decide_false, Bool.not_false, Bool.and_true, if_true]
      exact h

end Mouette.Lemmas.C18V
