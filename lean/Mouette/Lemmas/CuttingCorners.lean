import Mouette.Model.Cutting
/-!
Corner bookkeeping of `_build_mesh_with_cuts` (core Lean only): corner ids are the positions in `F.flatten`,
half edges found by `direct_face` really are sides of the face they name, the pairs handed to `union` join
corners of one original vertex.
-/
namespace Mouette.Cutting

theorem cornerFacesFrom_shape : ∀ (F : List Face) (k : Nat),
    (cornerFacesFrom k F).map List.length = F.map List.length
  | [], _ => rfl
  | f :: fs, k => by simp [cornerFacesFrom, cornerFacesFrom_shape fs]

theorem cornerFaces_shape (F : List Face) : (cornerFaces F).map List.length = F.map List.length :=
  cornerFacesFrom_shape F 0

theorem cornerFacesFrom_flatten : ∀ (F : List Face) (k : Nat),
    (cornerFacesFrom k F).flatten = (List.range F.flatten.length).map (k + ·)
  | [], _ => rfl
  | f :: fs, k => by
    simp only [cornerFacesFrom, List.flatten_cons, cornerFacesFrom_flatten fs, List.length_append]
    rw [List.range_add, List.map_append, List.map_map]
    congr 1
    apply List.map_congr_left
    intro a _
    simp [Nat.add_assoc]

theorem cornerFaces_flatten (F : List Face) :
    (cornerFaces F).flatten = List.range F.flatten.length := by
  unfold cornerFaces
  rw [cornerFacesFrom_flatten]
  conv => rhs; rw [← List.map_id (List.range _)]
  apply List.map_congr_left
  intro a _; simp

/-- entry `i` of face `f`, if it exists -/
def faceEntry (F : List Face) (f i : Nat) : Option Nat := (F[f]?).bind (·[i]?)

theorem corner_from_spec : ∀ (F : List Face) (k f i c : Nat),
    corner (cornerFacesFrom k F) f i = some c →
    ∃ c', c = k + c' ∧ c' < F.flatten.length ∧ F.flatten[c']? = faceEntry F f i
  | [], _, f, i, c, h => by simp [corner, cornerFacesFrom] at h
  | g :: gs, k, 0, i, c, h => by
    simp only [corner, cornerFacesFrom, List.getElem?_cons_zero, Option.bind_some] at h
    have hi : i < g.length := by
      by_cases hn : i < g.length
      · exact hn
      · rw [List.getElem?_eq_none (by simp; omega)] at h
        cases h
    rw [List.getElem?_eq_getElem (by simpa using hi)] at h
    simp only [List.getElem_map, List.getElem_range, Option.some.injEq] at h
    refine ⟨i, h.symm, by rw [List.flatten_cons, List.length_append]; omega, ?_⟩
    simp only [faceEntry, List.getElem?_cons_zero, Option.bind_some, List.flatten_cons]
    rw [List.getElem?_append_left hi]
  | g :: gs, k, f + 1, i, c, h => by
    have h' : corner (cornerFacesFrom (k + g.length) gs) f i = some c := by
      simpa [corner, cornerFacesFrom] using h
    obtain ⟨c', hc, hlt, he⟩ := corner_from_spec gs (k + g.length) f i c h'
    refine ⟨g.length + c', by omega, by rw [List.flatten_cons, List.length_append]; omega, ?_⟩
    simp only [faceEntry, List.getElem?_cons_succ, List.flatten_cons]
    rw [List.getElem?_append_right (by omega)]
    simpa [faceEntry] using he

theorem corner_spec {F : List Face} {f i c : Nat} (h : corner (cornerFaces F) f i = some c) :
    c < F.flatten.length ∧ F.flatten[c]? = faceEntry F f i := by
  obtain ⟨c', hc, hlt, he⟩ := corner_from_spec F 0 f i c h
  have : c = c' := by omega
  subst this
  exact ⟨hlt, he⟩

theorem halfEdgesOfFace_spec {iF : Nat} {g : Face} {x : (Nat × Nat) × (Nat × Nat × Nat)}
    (h : x ∈ halfEdgesOfFace iF g) :
    x.2.1 = iF ∧ g[x.2.2.1]? = some x.1.1 ∧ g[x.2.2.2]? = some x.1.2 := by
  unfold halfEdgesOfFace at h
  rw [List.mem_map] at h
  obtain ⟨iV, hiV, rfl⟩ := h
  have hlt : iV < g.length := by simpa using hiV
  have hpos : 0 < g.length := by omega
  have hlt2 : (iV + 1) % g.length < g.length := Nat.mod_lt _ hpos
  refine ⟨rfl, ?_, ?_⟩
  · simp only []
    rw [List.getD_eq_getElem?_getD, List.getElem?_eq_getElem hlt]; rfl
  · simp only []
    rw [List.getD_eq_getElem?_getD, List.getElem?_eq_getElem hlt2]; rfl

theorem halfEdgesFrom_spec : ∀ (F : List Face) (k : Nat) (x : (Nat × Nat) × (Nat × Nat × Nat)),
    x ∈ halfEdgesFrom k F →
    ∃ f, x.2.1 = k + f ∧ faceEntry F f x.2.2.1 = some x.1.1 ∧ faceEntry F f x.2.2.2 = some x.1.2
  | [], _, x, h => by simp [halfEdgesFrom] at h
  | g :: gs, k, x, h => by
    simp only [halfEdgesFrom, List.mem_append] at h
    rcases h with h | h
    · obtain ⟨h1, h2, h3⟩ := halfEdgesOfFace_spec h
      exact ⟨0, by omega, by simpa [faceEntry] using h2, by simpa [faceEntry] using h3⟩
    · obtain ⟨f, h1, h2, h3⟩ := halfEdgesFrom_spec gs (k + 1) x h
      exact ⟨f + 1, by omega, by simpa [faceEntry] using h2, by simpa [faceEntry] using h3⟩

theorem directFace_spec {F : List Face} {u v f i j : Nat}
    (h : directFace (halfEdges F) u v = some (f, i, j)) :
    faceEntry F f i = some u ∧ faceEntry F f j = some v := by
  unfold directFace at h
  rw [Option.map_eq_some_iff] at h
  obtain ⟨x, hx, hx2⟩ := h
  have hm : x ∈ (halfEdges F).reverse := List.mem_of_find?_eq_some hx
  have hp := List.find?_some hx
  rw [List.mem_reverse] at hm
  obtain ⟨f', h1, h2, h3⟩ := halfEdgesFrom_spec F 0 x hm
  have hk : x.1 = (u, v) := by simpa using hp
  have hf : x.2.1 = f := by rw [hx2]
  have hi : x.2.2.1 = i := by rw [hx2]
  have hj : x.2.2.2 = j := by rw [hx2]
  have hff : f' = f := by omega
  subst hff
  rw [hi] at h2; rw [hj] at h3
  rw [hk] at h2 h3
  exact ⟨h2, h3⟩

/-- label of a corner: the original vertex it was copied from -/
def vertOf (F : List Face) (c : Nat) : Nat := (cornerVerts F).getD c 0

theorem vertOf_corner {F : List Face} {f i c v : Nat} (h : corner (cornerFaces F) f i = some c)
    (hv : faceEntry F f i = some v) : c < (cornerVerts F).length ∧ vertOf F c = v := by
  obtain ⟨hlt, he⟩ := corner_spec h
  refine ⟨hlt, ?_⟩
  unfold vertOf cornerVerts
  rw [List.getD_eq_getElem?_getD, he, hv]; rfl

theorem gluePairs_spec {F : List Face} {ab : Nat × Nat} {p q : Nat × Nat}
    (h : gluePairs (halfEdges F) (cornerFaces F) ab = some (p, q)) :
    (p.1 < (cornerVerts F).length ∧ p.2 < (cornerVerts F).length ∧ vertOf F p.1 = vertOf F p.2) ∧
    (q.1 < (cornerVerts F).length ∧ q.2 < (cornerVerts F).length ∧ vertOf F q.1 = vertOf F q.2) := by
  unfold gluePairs at h
  split at h
  · rename_i f1 iA1 iB1 f2 iB2 iA2 hd1 hd2
    split at h
    · rename_i c1 c2 c3 c4 hc1 hc2 hc3 hc4
      injection h with h
      injection h with hp hq
      subst hp; subst hq
      obtain ⟨e1, e2⟩ := directFace_spec hd1
      obtain ⟨e3, e4⟩ := directFace_spec hd2
      obtain ⟨l1, v1⟩ := vertOf_corner hc1 e1
      obtain ⟨l2, v2⟩ := vertOf_corner hc2 e4
      obtain ⟨l3, v3⟩ := vertOf_corner hc3 e2
      obtain ⟨l4, v4⟩ := vertOf_corner hc4 e3
      exact ⟨⟨l1, l2, by rw [v1, v2]⟩, ⟨l3, l4, by rw [v3, v4]⟩⟩
    · cases h
  · cases h

theorem unionPairs_spec {F : List Face} : ∀ (uncut ps : List (Nat × Nat)),
    unionPairs (halfEdges F) (cornerFaces F) uncut = some ps →
    ∀ p, p ∈ ps → p.1 < (cornerVerts F).length ∧ p.2 < (cornerVerts F).length ∧ vertOf F p.1 = vertOf F p.2
  | [], ps, h => by
    simp only [unionPairs, Option.some.injEq] at h
    subst h; intro p hp; simp at hp
  | ab :: r, ps, h => by
    unfold unionPairs at h
    split at h
    · rename_i p q l hg hr
      injection h with h
      subst h
      obtain ⟨hp, hq⟩ := gluePairs_spec hg
      intro x hx
      rcases List.mem_cons.mp hx with hx | hx
      · subst hx; exact hp
      · rcases List.mem_cons.mp hx with hx | hx
        · subst hx; exact hq
        · exact unionPairs_spec r l hr x hx
    · cases h

end Mouette.Cutting
