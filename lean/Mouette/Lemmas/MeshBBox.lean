import Mouette.Lemmas.MeshAlgebra
import Mathlib.Tactic.Linarith
/-
Bounding boxes under positive affine maps (for `normalize` / `fit_into_unit_cube`), over `Rat`.
-/
namespace Mouette.MeshHeap

theorem affine_min (a b k c : Rat) (hk : 0 < k) : min (k * (a - c)) (k * (b - c)) = k * (min a b - c) := by
  rcases le_total a b with h | h
  · rw [min_eq_left h, min_eq_left]; nlinarith
  · rw [min_eq_right h, min_eq_right]; nlinarith

theorem affine_max (a b k c : Rat) (hk : 0 < k) : max (k * (a - c)) (k * (b - c)) = k * (max a b - c) := by
  rcases le_total a b with h | h
  · rw [max_eq_right h, max_eq_right]; nlinarith
  · rw [max_eq_left h, max_eq_left]; nlinarith

theorem foldl_min_affine (k c : Rat) (hk : 0 < k) (t : List Rat) (a : Rat) :
    (t.map (fun x => k * (x - c))).foldl min (k * (a - c)) = k * (t.foldl min a - c) := by
  induction t generalizing a with
  | nil => rfl
  | cons b t ih => simp only [List.map_cons, List.foldl_cons]; rw [affine_min a b k c hk, ih]

theorem foldl_max_affine (k c : Rat) (hk : 0 < k) (t : List Rat) (a : Rat) :
    (t.map (fun x => k * (x - c))).foldl max (k * (a - c)) = k * (t.foldl max a - c) := by
  induction t generalizing a with
  | nil => rfl
  | cons b t ih => simp only [List.map_cons, List.foldl_cons]; rw [affine_max a b k c hk, ih]

theorem minL_affine (k c : Rat) (hk : 0 < k) (l : List Rat) (hl : l ≠ []) :
    minL (l.map (fun x => k * (x - c))) = k * (minL l - c) := by
  cases l with
  | nil => exact absurd rfl hl
  | cons a t => simp only [List.map_cons, minL]; exact foldl_min_affine k c hk t a

theorem maxL_affine (k c : Rat) (hk : 0 < k) (l : List Rat) (hl : l ≠ []) :
    maxL (l.map (fun x => k * (x - c))) = k * (maxL l - c) := by
  cases l with
  | nil => exact absurd rfl hl
  | cons a t => simp only [List.map_cons, maxL]; exact foldl_max_affine k c hk t a

/-- the componentwise positive affine map `p ↦ k (p − c)` -/
def affine (k : Rat) (c : V3) (p : V3) : V3 := ⟨k * (p.x - c.x), k * (p.y - c.y), k * (p.z - c.z)⟩

theorem bbMin_affine (k : Rat) (c : V3) (hk : 0 < k) (cs : List V3) (hcs : cs ≠ []) :
    bbMin (cs.map (affine k c)) = affine k c (bbMin cs) := by
  have hx : cs.map (·.x) ≠ [] := by simpa using hcs
  have hy : cs.map (·.y) ≠ [] := by simpa using hcs
  have hz : cs.map (·.z) ≠ [] := by simpa using hcs
  simp only [bbMin, affine, List.map_map, V3.mk.injEq]
  refine ⟨?_, ?_, ?_⟩
  · rw [← minL_affine k c.x hk _ hx, List.map_map]; rfl
  · rw [← minL_affine k c.y hk _ hy, List.map_map]; rfl
  · rw [← minL_affine k c.z hk _ hz, List.map_map]; rfl

theorem bbMax_affine (k : Rat) (c : V3) (hk : 0 < k) (cs : List V3) (hcs : cs ≠ []) :
    bbMax (cs.map (affine k c)) = affine k c (bbMax cs) := by
  have hx : cs.map (·.x) ≠ [] := by simpa using hcs
  have hy : cs.map (·.y) ≠ [] := by simpa using hcs
  have hz : cs.map (·.z) ≠ [] := by simpa using hcs
  simp only [bbMax, affine, List.map_map, V3.mk.injEq]
  refine ⟨?_, ?_, ?_⟩
  · rw [← maxL_affine k c.x hk _ hx, List.map_map]; rfl
  · rw [← maxL_affine k c.y hk _ hy, List.map_map]; rfl
  · rw [← maxL_affine k c.z hk _ hz, List.map_map]; rfl

theorem maxSpan_affine (k : Rat) (c : V3) (hk : 0 < k) (cs : List V3) (hcs : cs ≠ []) :
    maxSpan (cs.map (affine k c)) = k * maxSpan cs := by
  simp only [maxSpan, span, bbMin_affine k c hk cs hcs, bbMax_affine k c hk cs hcs, affine, V3.sub]
  have e : ∀ a b d : Rat, k * (a - d) - k * (b - d) = k * ((a - b) - 0) := by intro a b d; ring
  rw [e, e, e, affine_max _ _ k 0 hk, affine_max _ _ k 0 hk]; ring

/-- what `normalize(center_at_zero=True)` does to the coordinates: translate by −centre, scale by 2/maxSpan about 0 -/
theorem normalize_centered_map (cs : List V3) :
    (cs.map (fun p => p.add (center cs).neg)).map (scaleMap (2 * (1 / maxSpan cs)) V3.zero)
      = cs.map (affine (2 * (1 / maxSpan cs)) (center cs)) := by
  rw [List.map_map]; apply List.map_congr_left; intro p _
  simp only [Function.comp, scaleMap, affine, V3.add, V3.sub, V3.smul, V3.neg, V3.zero, V3.mk.injEq]
  refine ⟨by ring, by ring, by ring⟩

theorem normalize_anchored_map (cs : List V3) :
    (cs.map (fun p => p.add (bbMin cs).neg)).map (scaleMap (1 / maxSpan cs) V3.zero)
      = cs.map (affine (1 / maxSpan cs) (bbMin cs)) := by
  rw [List.map_map]; apply List.map_congr_left; intro p _
  simp only [Function.comp, scaleMap, affine, V3.add, V3.sub, V3.smul, V3.neg, V3.zero, V3.mk.injEq]
  refine ⟨by ring, by ring, by ring⟩

/-- centred normalisation: the box of the result is centred at the origin and its largest extent is 2 -/
theorem bbox_normalize_centered (cs : List V3) (hcs : cs ≠ []) (hs : 0 < maxSpan cs) :
    center (cs.map (affine (2 * (1 / maxSpan cs)) (center cs))) = V3.zero ∧
    maxSpan (cs.map (affine (2 * (1 / maxSpan cs)) (center cs))) = 2 := by
  have hk : 0 < 2 * (1 / maxSpan cs) := by have := one_div_pos.mpr hs; linarith
  constructor
  · simp only [center, bbMin_affine _ _ hk cs hcs, bbMax_affine _ _ hk cs hcs, affine, V3.smul, V3.add, V3.zero, V3.mk.injEq]
    refine ⟨by ring, by ring, by ring⟩
  · rw [maxSpan_affine _ _ hk cs hcs]; field_simp

/-- anchored normalisation (`fit_into_unit_cube`): the box of the result starts at the origin and its largest extent is 1 -/
theorem bbox_normalize_anchored (cs : List V3) (hcs : cs ≠ []) (hs : 0 < maxSpan cs) :
    bbMin (cs.map (affine (1 / maxSpan cs) (bbMin cs))) = V3.zero ∧
    maxSpan (cs.map (affine (1 / maxSpan cs) (bbMin cs))) = 1 := by
  have hk : 0 < 1 / maxSpan cs := one_div_pos.mpr hs
  constructor
  · simp only [bbMin_affine _ _ hk cs hcs, affine, V3.zero, V3.mk.injEq]
    refine ⟨by ring, by ring, by ring⟩
  · rw [maxSpan_affine _ _ hk cs hcs]; field_simp

end Mouette.MeshHeap
