import Mouette.Model.MeshCopy
import Mouette.Lemmas.MeshHeap
import Mouette.Lemmas.MeshAlgebra
/-
Lemmas for C06 round 2: copy switches (attributes, connectivity handler), mixed-kind merges, rotations about an origin,
anisotropic scalings.
-/
namespace Mouette.MeshHeap
set_option linter.unusedSimpArgs false
set_option linter.unusedVariables false

/-! ### algebra -/

theorem rotate_about_origin (r : M3) (o p : V3) : rotateMap r o p = (rotateMap r V3.zero (p.sub o)).add o := by
  obtain ⟨⟨a11, a12, a13⟩, ⟨a21, a22, a23⟩, ⟨a31, a32, a33⟩⟩ := r
  cases p; cases o
  simp only [rotateMap, M3.apply, V3.add, V3.sub, V3.dot, V3.zero, V3.mk.injEq]
  refine ⟨by ring, by ring, by ring⟩

theorem rotate_fixes_origin (r : M3) (o : V3) : rotateMap r o o = o := by
  obtain ⟨⟨a11, a12, a13⟩, ⟨a21, a22, a23⟩, ⟨a31, a32, a33⟩⟩ := r
  cases o
  simp only [rotateMap, M3.apply, V3.add, V3.sub, V3.dot, V3.mk.injEq]
  refine ⟨by ring, by ring, by ring⟩

theorem scaleXyz_fixes_origin (fx fy fz : Rat) (o : V3) : scaleXyzMap fx fy fz o o = o := by
  cases o
  simp only [scaleXyzMap, V3.add, V3.mk.injEq]
  refine ⟨by ring, by ring, by ring⟩

theorem scale_fixes_origin (k : Rat) (o : V3) : scaleMap k o o = o := by
  cases o
  simp only [scaleMap, V3.add, V3.sub, V3.smul, V3.mk.injEq]
  refine ⟨by ring, by ring, by ring⟩

/-! ### merging a point cloud first -/

theorem shiftedFrom_skip (sel : Mesh → List (List Nat)) (pc : Mesh) (rest : List Mesh) (off : Nat) (h : sel pc = []) :
    shiftedFrom sel off (pc :: rest) = shiftedFrom sel (off + pc.verts.length) rest := by
  simp [shiftedFrom, shift, h]

/-! ### heap growth of the base operations -/

theorem heap_mono_mapRebind (f : V3 → V3) (s : State) (i : Nat) : s.heap.length ≤ (mapRebind f s i).heap.length := by
  simp only [mapRebind]
  cases s.meshes[i]? with
  | none => exact Nat.le_refl _
  | some m => simp [alloc]

theorem meshes_len_mapRebind (f : V3 → V3) (s : State) (i : Nat) : (mapRebind f s i).meshes.length = s.meshes.length := by
  simp only [mapRebind]
  cases s.meshes[i]? with
  | none => rfl
  | some m => simp [alloc]

theorem heap_len_mapInPlace (f : V3 → V3) (s : State) (i : Nat) : (mapInPlace f s i).heap.length = s.heap.length ∧
    (mapInPlace f s i).meshes = s.meshes := by
  simp only [mapInPlace]
  cases s.meshes[i]? with
  | none => exact ⟨rfl, rfl⟩
  | some m => exact ⟨foldl_set_length _ _ _, rfl⟩

/-- every base operation keeps or extends the heap, and adds at most one mesh (at the end) -/
theorem step_mono (s : State) (op : Op) :
    s.heap.length ≤ (step s op).heap.length ∧
    ((step s op).meshes.length = s.meshes.length ∨ (step s op).meshes.length = s.meshes.length + 1) := by
  cases op with
  | new vs e f c => simp [step, newMesh, alloc]
  | copy i =>
    simp only [step, copyMesh]
    cases s.meshes[i]? with
    | none => exact ⟨Nat.le_refl _, Or.inl rfl⟩
    | some m => simp [newMesh, alloc]
  | merge ids =>
    simp only [step, mergeMeshes]
    cases lookupAll s.meshes ids with
    | none => exact ⟨Nat.le_refl _, Or.inl rfl⟩
    | some ms => simp [newMesh, alloc]
  | translate i t => exact ⟨heap_mono_mapRebind _ s i, Or.inl (meshes_len_mapRebind _ s i)⟩
  | scale i k o => exact ⟨heap_mono_mapRebind _ s i, Or.inl (meshes_len_mapRebind _ s i)⟩
  | scaleXyz i fx fy fz o => exact ⟨heap_mono_mapRebind _ s i, Or.inl (meshes_len_mapRebind _ s i)⟩
  | rotate i r o => exact ⟨heap_mono_mapRebind _ s i, Or.inl (meshes_len_mapRebind _ s i)⟩
  | flatten i d => exact ⟨heap_mono_mapRebind _ s i, Or.inl (meshes_len_mapRebind _ s i)⟩
  | normalize i c =>
    simp only [step, normalize]
    cases s.meshes[i]? with
    | none => exact ⟨Nat.le_refl _, Or.inl rfl⟩
    | some m =>
      simp only
      split
      · exact ⟨Nat.le_trans (heap_mono_mapRebind _ s i) (heap_mono_mapRebind _ _ i),
               Or.inl (by simp only [scale, translate]; rw [meshes_len_mapRebind, meshes_len_mapRebind])⟩
      · exact ⟨Nat.le_trans (heap_mono_mapRebind _ s i) (heap_mono_mapRebind _ _ i),
               Or.inl (by simp only [scale, translate]; rw [meshes_len_mapRebind, meshes_len_mapRebind])⟩
  | toOrigin i =>
    simp only [step, translateToOrigin]
    cases s.meshes[i]? with
    | none => exact ⟨Nat.le_refl _, Or.inl rfl⟩
    | some m => exact ⟨heap_mono_mapRebind _ s i, Or.inl (meshes_len_mapRebind _ s i)⟩
  | edit i v c x =>
    simp only [step, editVertex]
    cases s.meshes[i]? with
    | none => exact ⟨Nat.le_refl _, Or.inl rfl⟩
    | some m =>
      simp only
      cases m.verts[v]? with
      | none => exact ⟨Nat.le_refl _, Or.inl rfl⟩
      | some r => simp

/-! ### connectivity handlers -/

/-- every mesh owns one connectivity handler object, whose back-reference points at that mesh -/
def ConnOwn (s : StateX) : Prop :=
  s.extras.length = s.st.meshes.length ∧ ∀ (i : Nat) (e : MeshX), s.extras[i]? = some e → s.conns[e.conn]? = some ({ master := i } : Conn)

theorem connOwn_pushPlain {s : StateX} {st' : State} (h : ConnOwn s) (hl : st'.meshes.length = s.st.meshes.length + 1) :
    ConnOwn (pushPlain s st') := by
  refine ⟨by simp [pushPlain, h.1, hl], ?_⟩
  intro i e he
  simp only [pushPlain] at he ⊢
  by_cases hi : i < s.extras.length
  · rw [List.getElem?_append_left hi] at he
    have := h.2 i e he
    have hlt : e.conn < s.conns.length := by
      rw [List.getElem?_eq_some_iff] at this; exact this.1
    rw [List.getElem?_append_left hlt]; exact this
  · have hge : s.extras.length ≤ i := by omega
    rw [List.getElem?_append_right hge] at he
    have hz : i - s.extras.length = 0 := by
      rcases Nat.eq_zero_or_pos (i - s.extras.length) with h0 | h0
      · exact h0
      · rw [List.getElem?_eq_none (by simp; omega)] at he; cases he
    rw [hz] at he; simp only [List.getElem?_cons_zero, Option.some.injEq] at he
    rw [← he]; simp only
    rw [List.getElem?_append_right (Nat.le_refl _)]; simp
    rw [← h.1]; omega

theorem connOwn_heap {s : StateX} (h : ConnOwn s) (hp : Heap) : ConnOwn { s with st := { s.st with heap := hp } } := ⟨h.1, h.2⟩

theorem copyMesh_len {s : State} {i : Nat} {m : Mesh} (hm : s.meshes[i]? = some m) :
    (copyMesh s i).meshes.length = s.meshes.length + 1 := by
  simp [copyMesh, hm, newMesh, alloc]

theorem connOwn_stepX (s : StateX) (op : OpX) (h : ConnOwn s) : ConnOwn (stepX s op) := by
  cases op with
  | base op =>
    simp only [stepX]
    obtain ⟨_, hl⟩ := step_mono s.st op
    by_cases hlt : s.st.meshes.length < (step s.st op).meshes.length
    · rw [if_pos hlt]; exact connOwn_pushPlain h (by omega)
    · rw [if_neg hlt]; exact ⟨by simp only; rw [h.1]; omega, h.2⟩
  | copyX i attrs conn =>
    simp only [stepX, copyX]
    cases hm : s.st.meshes[i]? with
    | none => exact h
    | some m =>
      cases he : s.extras[i]? with
      | none => exact h
      | some e =>
        simp only
        cases hat : e.attr with
        | none => simp only; exact connOwn_pushPlain h (copyMesh_len hm)
        | some refs =>
          cases attrs with
          | false => simp only; exact connOwn_pushPlain h (copyMesh_len hm)
          | true =>
            simp only [alloc]
            have := connOwn_pushPlain (st' := copyMesh s.st i) h (copyMesh_len hm)
            refine ⟨by simpa [pushPlain] using this.1, ?_⟩
            intro j ej hj
            have hx := this.2 j
            simp only [pushPlain] at hx
            by_cases hjl : j < s.extras.length
            · rw [List.getElem?_append_left hjl] at hj hx; exact hx ej hj
            · have hge : s.extras.length ≤ j := by omega
              rw [List.getElem?_append_right hge] at hj hx
              have hz : j - s.extras.length = 0 := by
                rcases Nat.eq_zero_or_pos (j - s.extras.length) with h0 | h0
                · exact h0
                · rw [List.getElem?_eq_none (by simp; omega)] at hj; cases hj
              rw [hz] at hj hx; simp only [List.getElem?_cons_zero, Option.some.injEq] at hj hx
              rw [← hj]; exact hx { attr := none, conn := s.conns.length } rfl
  | createAttr i =>
    simp only [stepX]
    cases hm : s.st.meshes[i]? with
    | none => exact h
    | some m =>
      cases he : s.extras[i]? with
      | none => exact h
      | some e =>
        simp only [alloc]
        refine ⟨by simp [h.1], ?_⟩
        intro j ej hj
        simp only at hj ⊢
        by_cases hji : i = j
        · have hi : i < s.extras.length := by rw [List.getElem?_eq_some_iff] at he; exact he.1
          rw [← hji, List.getElem?_set_self hi] at hj
          simp only [Option.some.injEq] at hj; rw [← hj]; simp only
          rw [← hji]; exact h.2 i e he
        · rw [List.getElem?_set_ne hji] at hj; exact h.2 j ej hj
  | setAttr i v val =>
    simp only [stepX]
    cases s.extras[i]? with
    | none => exact h
    | some e =>
      simp only
      cases e.attr with
      | none => exact h
      | some refs =>
        simp only
        cases refs[v]? with
        | none => exact h
        | some r => exact ⟨h.1, h.2⟩
  | editAttr i v c x =>
    simp only [stepX]
    cases s.extras[i]? with
    | none => exact h
    | some e =>
      simp only
      cases e.attr with
      | none => exact h
      | some refs =>
        simp only
        cases refs[v]? with
        | none => exact h
        | some r => exact ⟨h.1, h.2⟩

theorem connOwn_run (ops : List OpX) : ∀ s, ConnOwn s → ConnOwn (runX s ops) := by
  induction ops with
  | nil => intro s h; exact h
  | cons op ops ih => intro s h; exact ih _ (connOwn_stepX s op h)

/-! ### fresh cells are isolated from old references -/

theorem deref_set_ne (h : Heap) (r r0 : Nat) (v : V3) (hne : r ≠ r0) : deref (h.set r v) r0 = deref h r0 := by
  unfold deref; simp [List.getD_eq_getElem?_getD, List.getElem?_set_ne hne]

theorem map_deref_set_far (h : Heap) (r : Nat) (v : V3) (refs : List Nat) (hfar : ∀ r0 ∈ refs, r0 ≠ r) :
    refs.map (deref (h.set r v)) = refs.map (deref h) := by
  apply List.map_congr_left
  intro r0 hr0; exact deref_set_ne h r r0 v (fun e => hfar r0 hr0 e.symm)

theorem map_deref_append (h vs : Heap) (refs : List Nat) (hlt : ∀ r ∈ refs, r < h.length) :
    refs.map (deref (h ++ vs)) = refs.map (deref h) := by
  apply List.map_congr_left
  intro r hr; exact deref_append h vs (hlt r hr)

/-- attribute references point into the heap -/
def AttrWF (s : StateX) : Prop :=
  ∀ e ∈ s.extras, ∀ refs, e.attr = some refs → ∀ r ∈ refs, r < s.st.heap.length

theorem attrRows_append (h vs : Heap) (e : MeshX) (hlt : ∀ refs, e.attr = some refs → ∀ r ∈ refs, r < h.length) :
    attrRows (h ++ vs) e = attrRows h e := by
  unfold attrRows
  cases ha : e.attr with
  | none => rfl
  | some refs => simp only [Option.map_some]; rw [map_deref_append h vs refs (hlt refs ha)]

theorem attrRows_set_far (h : Heap) (r : Nat) (v : V3) (e : MeshX) (hfar : ∀ refs, e.attr = some refs → ∀ r0 ∈ refs, r0 ≠ r) :
    attrRows (h.set r v) e = attrRows h e := by
  unfold attrRows
  cases ha : e.attr with
  | none => rfl
  | some refs => simp only [Option.map_some]; rw [map_deref_set_far h r v refs (hfar refs ha)]

theorem coords_set_far (h : Heap) (r : Nat) (v : V3) (m : Mesh) (hfar : ∀ r0 ∈ m.verts, r0 ≠ r) :
    coords (h.set r v) m = coords h m := map_deref_set_far h r v m.verts hfar

end Mouette.MeshHeap
