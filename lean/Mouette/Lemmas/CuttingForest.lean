import Mouette.Lemmas.CuttingDualTree
/-!
"Forest edges are effective in any order", by counting: if a list of `n − 1` pairs over `range n` is such that, once ALL of
them have been united, every element is in the class of a root element — which holds as soon as every element other than
the root has a pair that links it to an element EARLIER in some order — then every one of the unions joined two distinct
classes (`effCount = length`). No cycle argument is needed: `n − (number of effective unions) = number of classes = 1`.
-/
namespace Mouette.Cutting
open Mouette Mouette.UF

theorem idxOf_range_lt : ∀ (n x : Nat), x < n → (List.range n).idxOf x = x := by
  intro n
  induction n with
  | zero => intro x h; omega
  | succ n ih =>
    intro x h
    rw [List.range_succ]
    by_cases hx : x < n
    · rw [List.idxOf_append_of_mem (List.mem_range.mpr hx)]; exact ih x hx
    · have : x = n := by omega
      subst this
      rw [List.idxOf_append_of_notMem (by simp)]
      simp

theorem applyUnions_inv (n : Nat) : ∀ (ps : List (Nat × Nat)) (s : State), Inv s → s.elts = List.range n →
    (∀ p, p ∈ ps → p.1 < n ∧ p.2 < n) → Inv (applyUnions s ps) ∧ (applyUnions s ps).elts = List.range n
  | [], _, inv, he, _ => ⟨inv, he⟩
  | p :: ps, s, inv, he, ok => by
    obtain ⟨h1, h2⟩ := ok p List.mem_cons_self
    have hx : p.1 ∈ s.elts := by rw [he]; simpa using h1
    have hy : p.2 ∈ s.elts := by rw [he]; simpa using h2
    have inv' : Inv (union s p.1 p.2) := (union_spec inv p.1 p.2).1
    have he' : (union s p.1 p.2).elts = List.range n := by rw [union_elts_of_mem inv hx hy, he]
    exact applyUnions_inv n ps (union s p.1 p.2) inv' he' (fun q hq => ok q (List.mem_cons_of_mem _ hq))

/-- one class: if every element has the class of element `r`, the union-find has exactly one component -/
theorem nComps_one_of_all_same {s : State} {n r : Nat} (inv : Inv s) (he : s.elts = List.range n) (hr : r < n)
    (h : ∀ x, x < n → classOf s x = classOf s r) : s.nComps = 1 := by
  have hlen : s.elts.length = n := by rw [he]; simp
  have hidx : ∀ x, x < n → s.elts.idxOf x = x := by
    intro x hx; rw [he]; exact idxOf_range_lt n x hx
  have hcl : ∀ x, x < n → classOf s x = rootOf s x := by
    intro x hx; unfold classOf; rw [hidx x hx]
  set c := rootOf s r with hc
  have hcn : c < n := by rw [← hlen]; exact rootOf_lt inv (by rw [hlen]; exact hr)
  have hcroot : parent s.par c = c := rootOf_isRoot inv (by rw [hlen]; exact hr)
  rw [inv.nCompsEq, numRoots_eq_countP, inv.parLen, hlen]
  have hcongr : (List.range n).countP (fun i => decide (parent s.par i = i)) =
      (List.range n).countP (fun i => decide (i = c)) := by
    apply countP_range_congr
    intro i hi
    by_cases hroot : parent s.par i = i
    · have h1 : rootOf s i = i := rootOf_of_root inv (by rw [hlen]; exact hi) hroot
      have h2 : rootOf s i = c := by rw [← hcl i hi, h i hi, hcl r hr]
      have hic : i = c := by rw [← h1, h2]
      rw [decide_eq_true hroot, decide_eq_true hic]
    · have hic : i ≠ c := by intro e; rw [e] at hroot; exact hroot hcroot
      rw [decide_eq_false hroot, decide_eq_false hic]
  rw [hcongr]
  have : (List.range n).countP (fun i => decide (i = c)) = (List.range n).count c := by
    rw [List.count]
    apply List.countP_congr
    intro i _
    by_cases hic : i = c
    · subst hic; simp
    · have : ¬ (i == c) = true := by simpa using hic
      simp [hic]
  rw [this]
  exact List.count_eq_one_of_mem List.nodup_range (List.mem_range.mpr hcn)

/-- along an order in which every element other than the root is linked (same class) to an EARLIER element, everything is
in the class of the root -/
theorem all_same_of_linked_earlier {s : State} (order : List Nat) (root : Nat)
    (link : ∀ f, f ∈ order → f ≠ root → ∃ g, g ∈ order ∧ order.idxOf g < order.idxOf f ∧ classOf s g = classOf s f) :
    ∀ k f, f ∈ order → order.idxOf f = k → classOf s f = classOf s root ∨ f = root := by
  intro k
  induction k using Nat.strong_induction_on with
  | _ k ih =>
    intro f hf hk
    by_cases hfr : f = root
    · exact Or.inr hfr
    · obtain ⟨g, hg, hlt, hcl⟩ := link f hf hfr
      rcases ih (order.idxOf g) (by rw [← hk]; exact hlt) g hg rfl with h | h
      · exact Or.inl (by rw [← hcl, h])
      · exact Or.inl (by rw [← hcl, h])

/-- FOREST EDGES ARE EFFECTIVE IN ANY ORDER: `n − 1` pairs over `range n`; an order containing every element, in which every
element other than `root` is an end of some pair whose other end comes earlier: all unions are effective. -/
theorem effective_of_spanning_tree (n : Nat) (fp : List (Nat × Nat)) (hb : ∀ p, p ∈ fp → p.1 < n ∧ p.2 < n)
    (hsize : fp.length + 1 = n) (order : List Nat) (root : Nat) (hroot : root < n)
    (hall : ∀ f, f < n → f ∈ order)
    (tree : ∀ f, f ∈ order → f ≠ root → ∃ g, g ∈ order ∧ order.idxOf g < order.idxOf f ∧ ((g, f) ∈ fp ∨ (f, g) ∈ fp)) :
    effCount (ufRange n) fp = fp.length := by
  obtain ⟨inv0, he0, _⟩ := ufRange_spec (fun _ => ()) n
  obtain ⟨invF, heF⟩ := applyUnions_inv n fp _ inv0 he0 hb
  have hj := (applyUnions_joins n fp _ inv0 he0 hb).1
  apply all_effective_of_one_class n fp hb hsize
  apply nComps_one_of_all_same invF heF hroot
  intro x hx
  have link : ∀ f, f ∈ order → f ≠ root → ∃ g, g ∈ order ∧ order.idxOf g < order.idxOf f ∧
      classOf (applyUnions (ufRange n) fp) g = classOf (applyUnions (ufRange n) fp) f := by
    intro f hf hne
    obtain ⟨g, hg, hlt, hp⟩ := tree f hf hne
    refine ⟨g, hg, hlt, ?_⟩
    rcases hp with hp | hp
    · exact hj (g, f) hp
    · exact (hj (f, g) hp).symm
  rcases all_same_of_linked_earlier order root link _ x (hall x hx) rfl with h | h
  · exact h
  · rw [h]

/-! ### the dual edges of the union pairs are the two faces `direct_face` returns -/

/-- the two faces of the uncut pair `ab`: those of the half edges `(a,b)` and `(b,a)` -/
def FacesOf (F : List Face) (ab : Nat × Nat) (fp : Nat × Nat) : Prop :=
  ∃ i1 j1 i2 j2, directFace (halfEdges F) ab.1 ab.2 = some (fp.1, i1, j1) ∧
    directFace (halfEdges F) ab.2 ab.1 = some (fp.2, i2, j2)

theorem gluePairs_faces {F : List Face} (tri : AllTri F) {ab : Nat × Nat} {p q : Nat × Nat}
    (h : gluePairs (halfEdges F) (cornerFaces F) ab = some (p, q)) : FacesOf F ab (p.1 / 3, p.2 / 3) := by
  unfold gluePairs at h
  split at h
  · rename_i f1 iA1 iB1 f2 iB2 iA2 hd1 hd2
    split at h
    · rename_i c1 c2 c3 c4 hc1 hc2 hc3 hc4
      injection h with h
      injection h with hp hq
      subst hp; subst hq
      obtain ⟨e1, k1⟩ := corner_from_tri F 0 f1 iA1 c1 tri hc1
      obtain ⟨e2, k2⟩ := corner_from_tri F 0 f2 iA2 c2 tri hc2
      have h1 : c1 / 3 = f1 := by omega
      have h2 : c2 / 3 = f2 := by omega
      exact ⟨iA1, iB1, iB2, iA2, by simp only [h1]; exact hd1, by simp only [h2]; exact hd2⟩
    · cases h
  · cases h

theorem unionPairs_edges_faces {F : List Face} (tri : AllTri F) : ∀ (uncut ps : List (Nat × Nat)),
    unionPairs (halfEdges F) (cornerFaces F) uncut = some ps → (∀ ab, ab ∈ uncut → ab.1 ≠ ab.2) →
    ∃ es, ps = pairsOfEdges es ∧ es.length = uncut.length ∧
      (∀ e, e ∈ es → EdgeOK (3 * F.length) F.length (vertOf F) e) ∧
      List.Forall₂ (FacesOf F) uncut (facePairs es)
  | [], ps, h, _ => by
    simp only [unionPairs, Option.some.injEq] at h
    subst h
    exact ⟨[], rfl, rfl, fun e he => by simp at he, List.Forall₂.nil⟩
  | ab :: r, ps, h, hne => by
    unfold unionPairs at h
    split at h
    · rename_i p q l hg hr
      injection h with h
      subst h
      obtain ⟨es, e1, e2, e3, e4⟩ := unionPairs_edges_faces tri r l hr (fun x hx => hne x (List.mem_cons_of_mem _ hx))
      refine ⟨(p, q) :: es, by rw [e1]; rfl, by simp [e2], ?_, ?_⟩
      · intro e he
        rcases List.mem_cons.mp he with he | he
        · subst he; exact gluePairs_edgeOK tri hg (hne ab List.mem_cons_self)
        · exact e3 e he
      · exact List.Forall₂.cons (gluePairs_faces tri hg) e4
    · cases h

theorem forall₂_mem_left {α β : Type} {R : α → β → Prop} : ∀ {l1 : List α} {l2 : List β}, List.Forall₂ R l1 l2 →
    ∀ a, a ∈ l1 → ∃ b, b ∈ l2 ∧ R a b
  | _, _, .nil, a, ha => by simp at ha
  | _, _, .cons hab t, a, ha => by
    rcases List.mem_cons.mp ha with rfl | ha
    · exact ⟨_, List.mem_cons_self, hab⟩
    · obtain ⟨b, hb, hr⟩ := forall₂_mem_left t a ha
      exact ⟨b, List.mem_cons_of_mem _ hb, hr⟩

/-- the corner unions of `_build_mesh_with_cuts` are all effective as soon as the dual edges `(F1, F2)` of the uncut pairs,
in the order of the code, are all effective in a union-find over the faces — with the dual edges identified -/
theorem corner_unions_effective_of_face_unions {F : List Face} {uncut : List (Nat × Nat)} (tri : AllTri F)
    (ps : List (Nat × Nat)) (hps : unionPairs (halfEdges F) (cornerFaces F) uncut = some ps)
    (hne : ∀ ab, ab ∈ uncut → ab.1 ≠ ab.2) :
    ∃ fp : List (Nat × Nat), fp.length = uncut.length ∧ (∀ p, p ∈ fp → p.1 < F.length ∧ p.2 < F.length) ∧
      List.Forall₂ (FacesOf F) uncut fp ∧
      (effCount (ufRange F.length) fp = fp.length → effCount (ufRange (3 * F.length)) ps = ps.length) := by
  obtain ⟨es, e1, e2, e3, e4⟩ := unionPairs_edges_faces tri uncut ps hps hne
  refine ⟨facePairs es, by rw [facePairs_length, e2], ?_, e4, ?_⟩
  · intro p hp
    clear e1 e2 e4
    induction es with
    | nil => simp [facePairs] at hp
    | cons e l ih =>
      simp only [facePairs, List.mem_cons] at hp
      rcases hp with hp | hp
      · subst hp; exact ⟨(e3 e List.mem_cons_self).g1, (e3 e List.mem_cons_self).g2⟩
      · exact ih (fun x hx => e3 x (List.mem_cons_of_mem _ hx)) hp
  · intro hdual
    rw [facePairs_length] at hdual
    obtain ⟨inv0, he0, r0⟩ := ufRange_spec (vertOf F) (3 * F.length)
    obtain ⟨invt, het, _⟩ := ufRange_spec (fun _ => ()) F.length
    have := effective_of_dual_forest (vertOf F) (3 * F.length) F.length (Nat.le_refl _) es _ _ e3 inv0 he0 r0 invt het
      (faceCompat_init _ _) hdual
    have hl := unionPairs_length _ _ uncut ps hps
    rw [e1] at hl ⊢
    rw [this, hl, e2]

end Mouette.Cutting
