import Mouette.Generated.C15Border
import Mouette.Model.Border
/-!
Bridges between the border functions TRANSLATED from `mouette/processing/border.py` (`Generated/C15Border.lean`) and the
hand-written model `Model/Border.lean` the C15 theorems are about.
-/
namespace Mouette.Lemmas.C15Source
open Mouette.Surface Mouette.Border Mouette.PySrc
open Mouette.Generated.C15Src

/-! ### `extract_border_cycle` -/

theorem for2_step_true (S : Surf) (x : Nat × Nat) (v : Nat) :
    extractBorderCycle_for2_step S (true, x) v = (true, x) := by
  simp [extractBorderCycle_for2_step]

theorem for2_fold_true (S : Surf) (l : List Nat) (x : Nat × Nat) :
    l.foldl (extractBorderCycle_for2_step S) (true, x) = (true, x) := by
  induction l with
  | nil => rfl
  | cons v l ih => rw [List.foldl_cons, for2_step_true, ih]

theorem for2_step_false (S : Surf) (a b v : Nat) :
    extractBorderCycle_for2_step S (false, a, b) v =
      if (isVertexOnBorder S v && (a != v)) then (true, b, v) else (false, a, b) := by
  simp [extractBorderCycle_for2_step]

/-- the `for … break` loop of the walk is the model's `nextBorder` (first neighbour that qualifies) -/
theorem for2_fold (S : Surf) (l : List Nat) (a b : Nat) :
    (l.foldl (extractBorderCycle_for2_step S) (false, a, b)).2 =
      match l.find? (fun v => (boundaryVertices S).contains v && v != a) with
      | some v => (b, v)
      | none => (a, b) := by
  induction l with
  | nil => rfl
  | cons v l ih =>
    rw [List.foldl_cons, for2_step_false, List.find?_cons]
    have hc : (isVertexOnBorder S v && (a != v)) = ((boundaryVertices S).contains v && v != a) := by
      rw [bne_comm]; rfl
    rw [hc]
    cases h : ((boundaryVertices S).contains v && v != a)
    · simp only [Bool.false_eq_true, if_false]; exact ih
    · simp only [if_true]; rw [for2_fold_true]

theorem for2_nextBorder (S : Surf) (a b : Nat) :
    ((vertexToVertices S b).foldl (extractBorderCycle_for2_step S) (false, a, b)).2 =
      nextBorder S (boundaryVertices S) a b := by
  rw [for2_fold]; unfold nextBorder; rfl

/-- the translated `while` loop, run with the fuel that is left of `MAX_VISITED`, is the model's `walk` -/
theorem while_walk (S : Surf) (start : Nat) : ∀ (fuel : Nat) (vb : List Nat) (eb : List (Option Nat)) (a b k : Nat),
    k + fuel = S.nv →
    ((extractBorderCycle_while1_loop S start S.nv fuel (vb, eb, a, b, k)).1,
      (extractBorderCycle_while1_loop S start S.nv fuel (vb, eb, a, b, k)).2.1 ++
        [edgeId S (extractBorderCycle_while1_loop S start S.nv fuel (vb, eb, a, b, k)).2.2.1
          (extractBorderCycle_while1_loop S start S.nv fuel (vb, eb, a, b, k)).2.2.2.1]) =
      walk S (boundaryVertices S) start fuel a b vb eb := by
  intro fuel
  induction fuel with
  | zero => intro vb eb a b k _; rfl
  | succ fuel ih =>
    intro vb eb a b k hk
    have hlt : k < S.nv := by omega
    unfold extractBorderCycle_while1_loop walk
    have hcond : extractBorderCycle_while1_cond S start S.nv (vb, eb, a, b, k) = (start != b) := by
      simp [extractBorderCycle_while1_cond, hlt]
    rw [hcond]
    by_cases hb : b = start
    · subst hb; simp
    · have h1 : (start != b) = true := by simp; exact fun h => hb h.symm
      have h2 : (b == start) = false := by simp [hb]
      rw [h1, h2]
      simp only [if_true, Bool.false_eq_true, if_false]
      have hbody : extractBorderCycle_while1_body S start S.nv (vb, eb, a, b, k) =
          (vb ++ [b], eb ++ [edgeId S a b], (nextBorder S (boundaryVertices S) a b).1,
            (nextBorder S (boundaryVertices S) a b).2, k + 1) := by
        simp only [extractBorderCycle_while1_body]
        rw [← for2_nextBorder]
      rw [hbody]
      exact ih _ _ _ _ _ (by omega)

/-- **bridge**: `extract_border_cycle` as translated from the source is the model's `extractBorderCycle` -/
theorem extractBorderCycle_bridge (S : Surf) (start : Nat) :
    Mouette.Generated.C15Src.extractBorderCycle S (some start) =
      Mouette.Border.extractBorderCycle S (boundaryVertices S) start := by
  unfold Mouette.Generated.C15Src.extractBorderCycle Mouette.Border.extractBorderCycle
  by_cases hmem : (boundaryVertices S).contains start = true
  · have hne : (0 == (boundaryVertices S).length) = false := by
      cases hbv : boundaryVertices S with
      | nil => rw [hbv] at hmem; simp at hmem
      | cons x l => simp
    have hiv : isVertexOnBorder S start = true := hmem
    rw [hne]
    simp only [Bool.false_eq_true, if_false, hiv, hmem, Bool.not_true]
    cases hv : vertexToVertices S start with
    | nil => simp
    | cons p2 rest =>
      simp only [List.head?_cons]
      have := while_walk S start S.nv [start] [] start p2 0 (by omega)
      rw [← this]
  · have hmem' : (boundaryVertices S).contains start = false := by simpa using hmem
    have hiv : isVertexOnBorder S start = false := hmem'
    simp only [hiv, hmem', Bool.not_false, if_true]
    split <;> rfl


/-- with no explicit starting point the first boundary vertex is taken -/
theorem extractBorderCycle_default (S : Surf) :
    Mouette.Generated.C15Src.extractBorderCycle S none =
      Mouette.Generated.C15Src.extractBorderCycle S (some ((boundaryVertices S).headD 0)) := rfl

/-- **termination**: run with the fuel `len(mesh.vertices)` the translated `while` loop stops because its OWN condition
(`point2 != starting_point and nvisited < MAX_VISITED`) has become false, not because the fuel ran out -/
theorem while_exits (S : Surf) (start : Nat) : ∀ (fuel : Nat) (vb : List Nat) (eb : List (Option Nat)) (a b k : Nat),
    k + fuel = S.nv →
    extractBorderCycle_while1_cond S start S.nv (extractBorderCycle_while1_loop S start S.nv fuel (vb, eb, a, b, k)) = false := by
  intro fuel
  induction fuel with
  | zero =>
    intro vb eb a b k hk
    have : ¬ k < S.nv := by omega
    simp [extractBorderCycle_while1_loop, extractBorderCycle_while1_cond, this]
  | succ fuel ih =>
    intro vb eb a b k hk
    unfold extractBorderCycle_while1_loop
    cases hc : extractBorderCycle_while1_cond S start S.nv (vb, eb, a, b, k)
    · simp [hc]
    · simp only [if_true]
      have hbody : extractBorderCycle_while1_body S start S.nv (vb, eb, a, b, k) =
          (vb ++ [b], eb ++ [edgeId S a b], (nextBorder S (boundaryVertices S) a b).1,
            (nextBorder S (boundaryVertices S) a b).2, k + 1) := by
        simp only [extractBorderCycle_while1_body]
        rw [← for2_nextBorder]
      rw [hbody]
      exact ih _ _ _ _ _ (by omega)

/-! ### `extract_border_cycle_all` -/

theorem all_for2_fold (S : Surf) (l : List Nat) (vis : BoolMap) :
    l.foldl (extractBorderCycleAll_for2_step S) vis = vis ++ l := by
  induction l generalizing vis with
  | nil => simp
  | cons x l ih =>
    rw [List.foldl_cons, ih]
    simp [extractBorderCycleAll_for2_step, boolSet]

/-- one step of the model's fold -/
def allStep (S : Surf) (bv : List Nat) (acc : List Nat × List (List Nat × List (Option Nat))) (v : Nat) :
    List Nat × List (List Nat × List (Option Nat)) :=
  if acc.1.contains v then acc
  else match Mouette.Border.extractBorderCycle S bv v with
    | none => acc
    | some c => (acc.1 ++ c.1, acc.2 ++ [c])

theorem cyclesAll_eq (S : Surf) (bv : List Nat) : cyclesAll S bv = (bv.foldl (allStep S bv) ([], [])).2 := rfl

theorem all_fold (S : Surf) (l : List Nat)
    (hok : ∀ v ∈ l, (Mouette.Border.extractBorderCycle S (boundaryVertices S) v).isSome = true) :
    ∀ (acc : List Nat × List (List Nat × List (Option Nat))),
      l.foldlM (extractBorderCycleAll_for1_step S) (acc.1, acc.2.map (·.1)) =
        some ((l.foldl (allStep S (boundaryVertices S)) acc).1, ((l.foldl (allStep S (boundaryVertices S)) acc).2.map (·.1))) := by
  induction l with
  | nil => intro acc; rfl
  | cons v l ih =>
    intro acc
    rw [List.foldlM_cons, List.foldl_cons]
    have hv := hok v (List.mem_cons_self ..)
    obtain ⟨c, hc⟩ := Option.isSome_iff_exists.mp hv
    have hstep : extractBorderCycleAll_for1_step S (acc.1, acc.2.map (·.1)) v =
        some ((allStep S (boundaryVertices S) acc v).1, ((allStep S (boundaryVertices S) acc v).2.map (·.1))) := by
      unfold extractBorderCycleAll_for1_step allStep
      simp only [boolGet]
      by_cases hm : v ∈ acc.1
      · have hvis : acc.1.contains v = true := by simpa using hm
        simp only [hvis, Bool.not_true, Bool.false_eq_true, if_false, if_true]
      · have hvis : acc.1.contains v = false := by simpa using hm
        simp only [hvis, Bool.not_false, if_true, Bool.false_eq_true, if_false]
        rw [extractBorderCycle_bridge, hc]
        simp [all_for2_fold]
    rw [hstep]
    simp only [Option.bind_eq_bind, Option.bind_some]
    exact ih (fun w hw => hok w (List.mem_cons_of_mem _ hw)) _

/-- **bridge**: when every extraction succeeds (which `border_cycle_correct` proves under its hypotheses),
`extract_border_cycle_all` as translated returns the vertex lists of the model's `cyclesAll`, in the same order -/
theorem extractBorderCycleAll_bridge (S : Surf)
    (hok : ∀ v ∈ boundaryVertices S, (Mouette.Border.extractBorderCycle S (boundaryVertices S) v).isSome = true) :
    extractBorderCycleAll S = some ((cyclesAll S (boundaryVertices S)).map (·.1)) := by
  unfold extractBorderCycleAll
  have := all_fold S (boundaryVertices S) hok ([], [])
  simp only [List.map_nil] at this
  show (match List.foldlM (extractBorderCycleAll_for1_step S) ([], []) (boundaryVertices S) with
    | none => none
    | some (_, v2) => some v2) = _
  rw [this, cyclesAll_eq]


/-! ### `extract_boundary_of_surface` -/

theorem mapM_eq_filterMap {α β} (f : α → Option β) (l : List α) (h : ∀ x ∈ l, (f x).isSome = true) :
    l.mapM f = some (l.filterMap f) := by
  induction l with
  | nil => rfl
  | cons x l ih =>
    obtain ⟨y, hy⟩ := Option.isSome_iff_exists.mp (h x (List.mem_cons_self ..))
    rw [List.mapM_cons, hy, ih (fun z hz => h z (List.mem_cons_of_mem _ hz))]
    simp [List.filterMap_cons, hy]

theorem mapM_eq_filterMap' {α β} (f g : α → Option β) (l : List α) (h : ∀ x ∈ l, (f x).isSome = true)
    (hg : ∀ x, g x = f x) : l.mapM g = some (l.filterMap f) := by
  have : g = f := funext hg
  subst this; exact mapM_eq_filterMap _ l h

theorem mapM_bind_filterMap {α β γ} (f : α → Option β) (g : β → Option γ) (l : List α)
    (h : ∀ x ∈ l, (f x).isSome = true) :
    l.mapM (fun x => (f x).bind g) = (l.filterMap f).mapM g := by
  induction l with
  | nil => rfl
  | cons x l ih =>
    obtain ⟨y, hy⟩ := Option.isSome_iff_exists.mp (h x (List.mem_cons_self ..))
    rw [List.mapM_cons, hy, ih (fun z hz => h z (List.mem_cons_of_mem _ hz))]
    simp [List.filterMap_cons, hy, List.mapM_cons]

theorem bnd_for2_fold (S : Surf) (k : Nat) (l : List Nat) (vis : BoolMap) (m : NatDict) (n : Nat) (verts : List Nat) :
    l.foldl (extractBoundaryOfSurface_for2_step S k) (verts, vis, m, n) =
      (verts ++ l, vis ++ l, (l.zipIdx n).reverse ++ m, n + l.length) := by
  induction l generalizing vis m n verts with
  | nil => simp
  | cons x l ih =>
    rw [List.foldl_cons]
    have : extractBoundaryOfSurface_for2_step S k (verts, vis, m, n) x = (verts ++ [x], vis ++ [x], (x, n) :: m, n + 1) := by
      simp [extractBoundaryOfSurface_for2_step, boolSet]
    rw [this, ih]
    simp [List.zipIdx_cons, Nat.add_comm, Nat.add_left_comm]

/-- the translated loop state as a function of the model's accumulator `(visited, cycles)` -/
def bndState (S : Surf) (acc : List Nat × List (List Nat × List (Option Nat))) :
    List (Nat × Nat) × List Nat × BoolMap × NatDict × Nat × Nat :=
  ((acc.2.flatMap (·.2)).filterMap (edgeAt S), acc.1, acc.1, acc.1.zipIdx.reverse, acc.2.length, acc.1.length)

/-- what the bridge needs from the mesh: from every boundary vertex the walk succeeds and its edge ids exist
(`border_cycle_correct` proves both under its hypotheses) -/
def CyclesOk (S : Surf) : Prop :=
  ∀ v ∈ boundaryVertices S, ∃ c, Mouette.Border.extractBorderCycle S (boundaryVertices S) v = some c ∧
    ∀ oe ∈ c.2, (edgeAt S oe).isSome = true

theorem bnd_fold (S : Surf) (l : List Nat)
    (hok : ∀ v ∈ l, ∃ c, Mouette.Border.extractBorderCycle S (boundaryVertices S) v = some c ∧
      ∀ oe ∈ c.2, (edgeAt S oe).isSome = true) :
    ∀ (acc : List Nat × List (List Nat × List (Option Nat))),
      l.foldlM (extractBoundaryOfSurface_for1_step S) (bndState S acc) =
        some (bndState S (l.foldl (allStep S (boundaryVertices S)) acc)) := by
  induction l with
  | nil => intro acc; rfl
  | cons v l ih =>
    intro acc
    rw [List.foldlM_cons, List.foldl_cons]
    obtain ⟨c, hc, hce⟩ := hok v (List.mem_cons_self ..)
    have hstep : extractBoundaryOfSurface_for1_step S (bndState S acc) v =
        some (bndState S (allStep S (boundaryVertices S) acc v)) := by
      unfold extractBoundaryOfSurface_for1_step allStep bndState
      simp only [boolGet]
      by_cases hm : v ∈ acc.1
      · have hvis : acc.1.contains v = true := by simpa using hm
        simp only [hvis, Bool.not_true, Bool.false_eq_true, if_false, if_true]
      · have hvis : acc.1.contains v = false := by simpa using hm
        simp only [hvis, Bool.not_false, if_true, Bool.false_eq_true, if_false]
        rw [extractBorderCycle_bridge, hc]
        simp only [bnd_for2_fold]
        rw [mapM_eq_filterMap' (edgeAt S) _ c.2 hce]
        · simp [List.zipIdx_append, List.flatMap_append]
        · intro o; cases edgeAt S o <;> rfl
    rw [hstep]
    simp only [Option.bind_eq_bind, Option.bind_some]
    exact ih (fun w hw => hok w (List.mem_cons_of_mem _ hw)) _

theorem allStep_visited (S : Surf) (bv : List Nat) (l : List Nat) :
    ∀ (acc : List Nat × List (List Nat × List (Option Nat))), acc.1 = acc.2.flatMap (·.1) →
      (l.foldl (allStep S bv) acc).1 = (l.foldl (allStep S bv) acc).2.flatMap (·.1) := by
  induction l with
  | nil => intro acc h; exact h
  | cons v l ih =>
    intro acc h
    rw [List.foldl_cons]
    apply ih
    unfold allStep
    split
    · exact h
    · split
      · exact h
      · simp [h, List.flatMap_append]

theorem allStep_mem (S : Surf) (bv : List Nat) (l : List Nat) :
    ∀ (acc : List Nat × List (List Nat × List (Option Nat))), ∀ c ∈ (l.foldl (allStep S bv) acc).2,
      c ∈ acc.2 ∨ ∃ v ∈ l, Mouette.Border.extractBorderCycle S bv v = some c := by
  induction l with
  | nil => intro acc c hc; exact Or.inl hc
  | cons v l ih =>
    intro acc c hc
    rw [List.foldl_cons] at hc
    rcases ih _ c hc with h | ⟨w, hw, hwc⟩
    · unfold allStep at h
      split at h
      · exact Or.inl h
      · split at h
        · exact Or.inl h
        · rename_i c' hc'
          simp only [List.mem_append, List.mem_singleton] at h
          rcases h with h | h
          · exact Or.inl h
          · exact Or.inr ⟨v, List.mem_cons_self .., h ▸ hc'⟩
    · exact Or.inr ⟨w, List.mem_cons_of_mem _ hw, hwc⟩

theorem bnd_final (S : Surf) (G : Nat × Nat → Option (Nat × Nat)) (h : Option Nat → Option (Nat × Nat))
    (es : List (Option Nat)) (m : NatDict) (vs : List Nat) (n : Nat)
    (hall : ∀ oe ∈ es, (edgeAt S oe).isSome = true) (hh : ∀ oe, h oe = (edgeAt S oe).bind G) :
    (match (es.filterMap (edgeAt S)).mapM G with
      | none => none
      | some v => some (v, m, vs)) =
      Option.map (fun r => (r.1, r.2.1, vs)) (Option.map (fun pe => (pe, m, n)) (es.mapM h)) := by
  rw [show h = fun oe => (edgeAt S oe).bind G from funext hh, mapM_bind_filterMap _ _ _ hall]
  cases (es.filterMap (edgeAt S)).mapM G <;> rfl

/-- **bridge**: `extract_boundary_of_surface` as translated from the source returns the model's polyline edges and index
map, and its vertex list is the concatenation of the cycles (so one polyline vertex per visited vertex) -/
theorem extractBoundaryOfSurface_bridge (S : Surf) (hok : CyclesOk S) :
    extractBoundaryOfSurface S =
      (extractBoundary S (boundaryVertices S)).map
        (fun r => (r.1, r.2.1, (cyclesAll S (boundaryVertices S)).flatMap (·.1))) := by
  have hfold := bnd_fold S (boundaryVertices S) hok ([], [])
  have hvis := allStep_visited S (boundaryVertices S) (boundaryVertices S) ([], []) rfl
  unfold extractBoundaryOfSurface
  show (match List.foldlM (extractBoundaryOfSurface_for1_step S) (bndState S ([], [])) (boundaryVertices S) with
    | none => none
    | some (v0_edges, v0_vertices, _, v3, _, _) =>
      match v0_edges.mapM (fun ((v11, v12) : Nat × Nat) =>
          (match lookupMap v3 v11 with
            | none => none
            | some t4 => (match lookupMap v3 v12 with | none => none | some t5 => some (key2 t4 t5)))) with
      | none => none
      | some v0_edges => some (v0_edges, v3, v0_vertices)) = _
  rw [hfold]
  unfold extractBoundary
  simp only [bndState]
  rw [← cyclesAll_eq] at hvis ⊢
  rw [hvis]
  -- every edge id collected exists
  have hall : ∀ oe ∈ (cyclesAll S (boundaryVertices S)).flatMap (·.2), (edgeAt S oe).isSome = true := by
    intro oe hoe
    obtain ⟨c, hc, hoc⟩ := List.mem_flatMap.mp hoe
    rw [cyclesAll_eq] at hc
    rcases allStep_mem S _ _ _ c hc with h | ⟨v, hv, hvc⟩
    · simp at h
    · obtain ⟨c', hc', hce⟩ := hok v hv
      rw [hvc] at hc'
      cases hc'
      exact hce oe hoc
  refine bnd_final S _ _ _ _ _ _ hall ?_
  intro oe
  cases oe with
  | none => rfl
  | some e =>
    simp only [edgeAt, indexMap, Option.bind_eq_bind, Option.bind_some, Option.pure_def]
    cases he : S.edges[e]? with
    | none => rfl
    | some ab =>
      simp only [Option.bind_some]
      cases hA : lookupMap (List.flatMap (fun x => x.fst) (cyclesAll S (boundaryVertices S))).zipIdx.reverse ab.1 with
      | none => rfl
      | some a =>
        cases hB : lookupMap (List.flatMap (fun x => x.fst) (cyclesAll S (boundaryVertices S))).zipIdx.reverse ab.2 <;> rfl

end Mouette.Lemmas.C15Source
