import Mouette.Lemmas.SubdivEdges2
/-
C13 (round 2): E' = 2E + 3F for one pass of `loop_subdivision` and for `subdivide_triangles_3quads`; raw edge count of 1→6.
-/
namespace Mouette.Subdiv

theorem keyify_fst_ge {base p q : Nat} (hp : base ≤ p) (hq : base ≤ q) : base ≤ (keyify p q).1 := by
  unfold keyify; split_ifs <;> simpa

theorem tri_keys_ne {a b c : Nat} (hab : a ≠ b) (hbc : b ≠ c) (hca : c ≠ a) :
    keyify a b ≠ keyify b c ∧ keyify b c ≠ keyify c a ∧ keyify c a ≠ keyify a b := by
  refine ⟨fun h => ?_, fun h => ?_, fun h => ?_⟩ <;> rcases keyify_eq h with ⟨e1, e2⟩ | ⟨e1, e2⟩ <;> omega

theorem nodup_tri_keys {x y z : Nat} (hxy : x ≠ y) (hyz : y ≠ z) (hzx : z ≠ x) :
    [keyify x y, keyify y z, keyify z x].Nodup := by
  obtain ⟨h1, h2, h3⟩ := tri_keys_ne hxy hyz hzx
  simp only [List.nodup_cons, List.mem_cons, List.not_mem_nil, or_false, not_or, not_false_eq_true,
    List.nodup_nil, and_true]
  exact ⟨⟨h1, fun h => h3 h.symm⟩, h2⟩

theorem nodup3 {a b c : Nat} (h : [a, b, c].Nodup) : a ≠ b ∧ b ≠ c ∧ c ≠ a := by
  simp only [List.nodup_cons, List.mem_cons, List.not_mem_nil, or_false, not_or, List.nodup_nil, and_true,
    not_false_eq_true] at h
  exact ⟨h.1.1, h.2, fun e => h.1.2 e.symm⟩

/-- the three inner edges of the 1→4 pattern of two faces sharing at most one side are different -/
theorem inner_disjoint (es : List (Nat × Nat)) (base a b c a' b' c' mab mbc mca nab nbc nca : Nat)
    (hn : [a, b, c].Nodup) (hs : ShareAtMostOne [a, b, c] [a', b', c'])
    (h1 : halfLookup es base (keyify a b) = some mab) (h2 : halfLookup es base (keyify b c) = some mbc)
    (h3 : halfLookup es base (keyify c a) = some mca)
    (g1 : halfLookup es base (keyify a' b') = some nab) (g2 : halfLookup es base (keyify b' c') = some nbc)
    (g3 : halfLookup es base (keyify c' a') = some nca) :
    ∀ x ∈ [keyify mab mbc, keyify mbc mca, keyify mca mab], x ∉ [keyify nab nbc, keyify nbc nca, keyify nca nab] := by
  obtain ⟨hab, hbc, hca⟩ := nodup3 hn
  obtain ⟨n1, n2, n3⟩ := tri_keys_ne hab hbc hca
  -- two sides s ≠ t of the first face whose midpoints span an inner edge that also is an inner edge of the second face
  have key : ∀ (s t s' t' : Nat × Nat) (ms mt ns nt : Nat), s ∈ sidesKeyed [a, b, c] → t ∈ sidesKeyed [a, b, c] →
      s' ∈ sidesKeyed [a', b', c'] → t' ∈ sidesKeyed [a', b', c'] →
      halfLookup es base s = some ms → halfLookup es base t = some mt →
      halfLookup es base s' = some ns → halfLookup es base t' = some nt →
      keyify ms mt = keyify ns nt → s = t := by
    intro s t s' t' ms mt ns nt hs1 ht1 hs2 ht2 l1 l2 l3 l4 hk
    rcases keyify_eq hk with ⟨e1, e2⟩ | ⟨e1, e2⟩
    · have := halfLookup_inj es base s s' ms l1 (e1 ▸ l3)
      have := halfLookup_inj es base t t' mt l2 (e2 ▸ l4)
      subst_vars
      exact hs _ hs1 _ ht1 hs2 ht2
    · have := halfLookup_inj es base s t' ms l1 (e1 ▸ l4)
      have := halfLookup_inj es base t s' mt l2 (e2 ▸ l3)
      subst_vars
      exact hs _ hs1 _ ht1 ht2 hs2
  have mA : keyify a b ∈ sidesKeyed [a, b, c] := by simp [sidesKeyed_tri]
  have mB : keyify b c ∈ sidesKeyed [a, b, c] := by simp [sidesKeyed_tri]
  have mC : keyify c a ∈ sidesKeyed [a, b, c] := by simp [sidesKeyed_tri]
  have mA' : keyify a' b' ∈ sidesKeyed [a', b', c'] := by simp [sidesKeyed_tri]
  have mB' : keyify b' c' ∈ sidesKeyed [a', b', c'] := by simp [sidesKeyed_tri]
  have mC' : keyify c' a' ∈ sidesKeyed [a', b', c'] := by simp [sidesKeyed_tri]
  intro x hx hy
  simp only [List.mem_cons, List.not_mem_nil, or_false] at hx hy
  rcases hx with rfl | rfl | rfl <;> rcases hy with hy | hy | hy
  · exact n1 (key _ _ _ _ _ _ _ _ mA mB mA' mB' h1 h2 g1 g2 hy)
  · exact n1 (key _ _ _ _ _ _ _ _ mA mB mB' mC' h1 h2 g2 g3 hy)
  · exact n1 (key _ _ _ _ _ _ _ _ mA mB mC' mA' h1 h2 g3 g1 hy)
  · exact n2 (key _ _ _ _ _ _ _ _ mB mC mA' mB' h2 h3 g1 g2 hy)
  · exact n2 (key _ _ _ _ _ _ _ _ mB mC mB' mC' h2 h3 g2 g3 hy)
  · exact n2 (key _ _ _ _ _ _ _ _ mB mC mC' mA' h2 h3 g3 g1 hy)
  · exact n3 (key _ _ _ _ _ _ _ _ mC mA mA' mB' h3 h1 g1 g2 hy)
  · exact n3 (key _ _ _ _ _ _ _ _ mC mA mB' mC' h3 h1 g2 g3 hy)
  · exact n3 (key _ _ _ _ _ _ _ _ mC mA mC' mA' h3 h1 g3 g1 hy)

theorem lookups_distinct (es : List (Nat × Nat)) (base a b c mab mbc mca : Nat) (hn : [a, b, c].Nodup)
    (h1 : halfLookup es base (keyify a b) = some mab) (h2 : halfLookup es base (keyify b c) = some mbc)
    (h3 : halfLookup es base (keyify c a) = some mca) : mab ≠ mbc ∧ mbc ≠ mca ∧ mca ≠ mab := by
  obtain ⟨hab, hbc, hca⟩ := nodup3 hn
  obtain ⟨n1, n2, n3⟩ := tri_keys_ne hab hbc hca
  exact ⟨fun e => n1 (halfLookup_inj es base _ _ mab h1 (e ▸ h2)),
         fun e => n2 (halfLookup_inj es base _ _ mbc h2 (e ▸ h3)),
         fun e => n3 (halfLookup_inj es base _ _ mca h3 (e ▸ h1))⟩

theorem lookup_ge (es : List (Nat × Nat)) (base : Nat) (k : Nat × Nat) (r : Nat) (h : halfLookup es base k = some r) :
    base ≤ r ∧ r < base + es.length := by
  obtain ⟨i, hi, hr, _⟩ := halfLookup_spec es base k r h; omega

/-- **number of distinct edges after one pass of `loop_subdivision`** -/
theorem loop_edge_count (m m' : Raw) (h : loopOnce m = .ok m') (hE : EdgesAreSides m) (hN : TriNondeg m)
    (hS : SharesAtMostOne m) : m'.edges.length = 2 * m.edges.length + 3 * m.faces.length := by
  obtain ⟨mids, parts, _, h2, _, _, he, _⟩ := loopOnce_spec m m' h
  have hl := mapE_length _ _ _ h2
  -- every part, described
  have hdesc : ∀ f p, loopFace (m.edges, m.verts.length) f = .ok p →
      ∃ a b c mab mbc mca, f = [a, b, c] ∧ halfLookup m.edges m.verts.length (keyify a b) = some mab ∧
        halfLookup m.edges m.verts.length (keyify b c) = some mbc ∧ halfLookup m.edges m.verts.length (keyify c a) = some mca ∧
        p.2.take 6 = sixHalves a b c mab mbc mca ∧ p.2.drop 6 = [keyify mab mbc, keyify mbc mca, keyify mca mab] := by
    intro f p hp
    obtain ⟨fs, es⟩ := p
    obtain ⟨a, b, c, mab, mbc, mca, hf, g1, g2, g3, _, hes⟩ := loopFace_spec _ _ _ _ hp
    subst hes
    exact ⟨a, b, c, mab, mbc, mca, hf, getHalf_ok _ _ _ _ _ g1, getHalf_ok _ _ _ _ _ g2, getHalf_ok _ _ _ _ _ g3, rfl, rfl⟩
  rw [he, ← hl]
  apply count_refined_edges m.edges m.verts.length parts
  · intro e hee; have := hE.2.1 e hee; omega
  · apply halves_mem_iff m parts hE
    · intro p hp
      obtain ⟨f, hf, hfp⟩ := mapE_mem_back _ _ _ h2 p hp
      obtain ⟨a, b, c, mab, mbc, mca, e, l1, l2, l3, t6, _⟩ := hdesc f p hfp
      exact ⟨f, hf, a, b, c, mab, mbc, mca, e, l1, l2, l3, t6⟩
    · intro f hf
      obtain ⟨p, hp, hfp⟩ := mapE_mem_of _ _ _ h2 f hf
      obtain ⟨a, b, c, mab, mbc, mca, e, l1, l2, l3, t6, _⟩ := hdesc f p hfp
      exact ⟨p, hp, a, b, c, mab, mbc, mca, e, l1, l2, l3, t6⟩
  · intro p hp
    obtain ⟨f, hf, hfp⟩ := mapE_mem_back _ _ _ h2 p hp
    obtain ⟨a, b, c, mab, mbc, mca, e, l1, l2, l3, _, d6⟩ := hdesc f p hfp
    subst e
    obtain ⟨d1, d2, d3⟩ := lookups_distinct _ _ _ _ _ _ _ _ (hN _ hf) l1 l2 l3
    rw [d6]
    refine ⟨rfl, nodup_tri_keys d1 d2 d3, ?_⟩
    intro x hx
    have b1 := (lookup_ge _ _ _ _ l1).1
    have b2 := (lookup_ge _ _ _ _ l2).1
    have b3 := (lookup_ge _ _ _ _ l3).1
    simp only [List.mem_cons, List.not_mem_nil, or_false] at hx
    rcases hx with rfl | rfl | rfl <;> exact keyify_fst_ge (by assumption) (by assumption)
  · refine mapE_pairwise (loopFace (m.edges, m.verts.length))
      (fun f g => f ∈ m.faces ∧ ShareAtMostOne f g) _ ?_ m.faces parts ?_ h2
    · intro f g p q hp hq ⟨hfm, hfg⟩
      obtain ⟨a, b, c, mab, mbc, mca, e, l1, l2, l3, _, d6⟩ := hdesc f p hp
      obtain ⟨a', b', c', nab, nbc, nca, e', k1, k2, k3, _, d6'⟩ := hdesc g q hq
      subst e; subst e'
      rw [d6, d6']
      exact inner_disjoint m.edges m.verts.length a b c a' b' c' mab mbc mca nab nbc nca (hN _ hfm) hfg l1 l2 l3 k1 k2 k3
    · have : m.faces.Pairwise (fun f g => f ∈ m.faces ∧ ShareAtMostOne f g) := by
        have hS' : m.faces.Pairwise ShareAtMostOne := hS
        exact (List.Pairwise.and_mem.mp hS').imp (fun ⟨ha, _, hr⟩ => ⟨ha, hr⟩)
      exact this

end Mouette.Subdiv
