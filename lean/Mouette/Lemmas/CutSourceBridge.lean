import Mouette.Generated.C16Cut
import Mouette.Lemmas.CuttingPruneFix
/-!
Refinement of the TRANSLATED `_build_cut_edges_tree` / `_prune_edge_tree` (`Generated/C16Cut.lean`: explicit dict
`cut_adj`, `remove`/`add`/`= set()` on it, `edge_id`) to the hand model `Model/Cutting.lean` (which derives the
adjacency from the cut list). Core Lean only.
-/
namespace Mouette.CutSrc
open Mouette Mouette.Cutting Mouette.Generated

/-- the edge table is a simple graph: no loop, no two ids for one pair of ends -/
def Simple (E : List (Nat × Nat)) : Prop :=
  (∀ (e a b : Nat), E[e]? = some (a, b) → a ≠ b) ∧
  (∀ (e e' a b : Nat), E[e]? = some (a, b) → (E[e']? = some (a, b) ∨ E[e']? = some (b, a)) → e = e')

theorem other_some {E : List (Nat × Nat)} {e A B : Nat} (h : other E e A = some B) :
    E[e]? = some (A, B) ∨ E[e]? = some (B, A) := by
  unfold other at h
  cases hE : E[e]? with
  | none => rw [hE] at h; cases h
  | some ab =>
    obtain ⟨a, b⟩ := ab
    rw [hE] at h
    simp only [] at h
    by_cases h1 : a = A
    · rw [if_pos h1] at h; injection h with h; subst h1; subst h; exact Or.inl rfl
    · rw [if_neg h1] at h
      by_cases h2 : b = A
      · rw [if_pos h2] at h; injection h with h; subst h2; subst h; exact Or.inr rfl
      · rw [if_neg h2] at h; cases h

theorem other_of_fst {E : List (Nat × Nat)} {e A B : Nat} (h : E[e]? = some (A, B)) : other E e A = some B := by
  unfold other; rw [h]; simp

theorem other_of_snd {E : List (Nat × Nat)} {e A B : Nat} (h : E[e]? = some (A, B)) (hne : A ≠ B) :
    other E e B = some A := by
  unfold other; rw [h]; simp [hne]

theorem other_ne {E : List (Nat × Nat)} (sp : Simple E) {e A B : Nat} (h : other E e A = some B) : B ≠ A := by
  rcases other_some h with h1 | h1
  · exact (sp.1 e A B h1).symm
  · exact sp.1 e B A h1

theorem other_symm {E : List (Nat × Nat)} (sp : Simple E) {e A B : Nat} (h : other E e A = some B) :
    other E e B = some A := by
  rcases other_some h with h1 | h1
  · exact other_of_snd h1 (sp.1 e A B h1)
  · exact other_of_fst h1

theorem other_inj {E : List (Nat × Nat)} (sp : Simple E) {e e' A B : Nat} (h : other E e A = some B)
    (h' : other E e' A = some B) : e = e' := by
  rcases other_some h with h1 | h1 <;> rcases other_some h' with h2 | h2
  · exact sp.2 e e' A B h1 (Or.inl h2)
  · exact sp.2 e e' A B h1 (Or.inr h2)
  · exact sp.2 e e' B A h1 (Or.inr h2)
  · exact sp.2 e e' B A h1 (Or.inl h2)

theorem other_none_of_ne {E : List (Nat × Nat)} {e A B v : Nat} (h : other E e A = some B) (h1 : v ≠ A)
    (h2 : v ≠ B) : other E e v = none := by
  cases hv : other E e v with
  | none => rfl
  | some w =>
    have : (other E e v).isSome = true := by rw [hv]; rfl
    rcases incident_ends h this with h3 | h3
    · exact absurd h3 h1
    · exact absurd h3 h2

/-- `connectivity.edge_id(A,B)` is the edge the model iterates over -/
theorem edgeId_spec {E : List (Nat × Nat)} (sp : Simple E) {e A B : Nat} (h : other E e A = some B) :
    edgeId E A B = e := by
  have he : e < E.length := by
    rcases other_some h with h1 | h1
    · exact (List.getElem?_eq_some_iff.mp h1).1
    · exact (List.getElem?_eq_some_iff.mp h1).1
  unfold edgeId
  cases hf : (List.range E.length).find? (fun e => other E e A == some B) with
  | none =>
    have := List.find?_eq_none.mp hf e (List.mem_range.mpr he)
    simp [h] at this
  | some e' =>
    have hp := List.find?_some hf
    have : other E e' A = some B := by simpa using hp
    simp only [Option.getD_some]
    exact other_inj sp this h

/-! ### the adjacency derived by the model, edge by edge -/

theorem adj_nil (E : List (Nat × Nat)) (v : Nat) : adj E [] v = [] := rfl

theorem adj_cons (E : List (Nat × Nat)) (x : Nat) (c : List Nat) (v : Nat) :
    adj E (x :: c) v = (match other E x v with | some w => w :: adj E c v | none => adj E c v) := by
  unfold adj incident
  cases h : other E x v with
  | none => simp [List.filter_cons, h]
  | some w => simp [List.filter_cons, h]

theorem adj_append (E : List (Nat × Nat)) (c d : List Nat) (v : Nat) : adj E (c ++ d) v = adj E c v ++ adj E d v := by
  unfold adj incident
  rw [List.filter_append, List.filterMap_append]

theorem adj_length (E : List (Nat × Nat)) (c : List Nat) (v : Nat) : (adj E c v).length = degree E c v := by
  induction c with
  | nil => rfl
  | cons x c ih =>
    rw [adj_cons]
    unfold degree incident at ih ⊢
    cases h : other E x v with
    | none => simp [List.filter_cons, h]; exact ih
    | some w => simp [List.filter_cons, h]; exact ih

theorem mem_adj {E : List (Nat × Nat)} {c : List Nat} {v w : Nat} :
    w ∈ adj E c v ↔ ∃ e, e ∈ c ∧ other E e v = some w := by
  induction c with
  | nil => simp [adj_nil]
  | cons x c ih =>
    rw [adj_cons]
    cases h : other E x v with
    | none =>
      simp only [ih, List.mem_cons]
      constructor
      · rintro ⟨e, he, ho⟩; exact ⟨e, Or.inr he, ho⟩
      · rintro ⟨e, he | he, ho⟩
        · subst he; rw [h] at ho; cases ho
        · exact ⟨e, he, ho⟩
    | some u =>
      simp only [List.mem_cons, ih]
      constructor
      · rintro (hw | ⟨e, he, ho⟩)
        · subst hw; exact ⟨x, Or.inl rfl, h⟩
        · exact ⟨e, Or.inr he, ho⟩
      · rintro ⟨e, he | he, ho⟩
        · subst he; rw [h] at ho; injection ho with ho; exact Or.inl ho.symm
        · exact Or.inr ⟨e, he, ho⟩

/-- removing the edge `e = {A,B}` removes `A` from the neighbours of `B` -/
theorem adj_erase_end {E : List (Nat × Nat)} (sp : Simple E) {e A B : Nat} (h : other E e B = some A) :
    ∀ c : List Nat, adj E (c.erase e) B = (adj E c B).erase A
  | [] => rfl
  | x :: c => by
    by_cases hx : x = e
    · subst hx
      rw [List.erase_cons_head, adj_cons, h]
      simp
    · rw [List.erase_cons_tail (by simpa using hx), adj_cons, adj_cons]
      cases hxo : other E x B with
      | none => exact adj_erase_end sp h c
      | some w =>
        have hw : w ≠ A := by
          intro hwa; subst hwa
          exact hx (other_inj sp hxo h)
        simp only []
        rw [List.erase_cons_tail (by simpa using hw), adj_erase_end sp h c]

/-- … and leaves the neighbours of every vertex that is not an end of `e` unchanged -/
theorem adj_erase_other {E : List (Nat × Nat)} {e v : Nat} (h : other E e v = none) :
    ∀ c : List Nat, adj E (c.erase e) v = adj E c v
  | [] => rfl
  | x :: c => by
    by_cases hx : x = e
    · subst hx
      rw [List.erase_cons_head, adj_cons, h]
    · rw [List.erase_cons_tail (by simpa using hx), adj_cons, adj_cons, adj_erase_other h c]

/-! ### `_build_cut_edges_tree` -/

theorem buildAdjStep_spec {E : List (Nat × Nat)} (sp : Simple E) {pre : List Nat} {e : Nat} (he : e < E.length)
    (hnew : e ∉ pre) (m : AdjMap) (hm : ∀ v, m v = adj E pre v) :
    ∀ v, C16.buildAdjStep E m e v = adj E (pre ++ [e]) v := by
  intro v
  obtain ⟨⟨a, b⟩, hab⟩ : ∃ ab, E[e]? = some ab := ⟨E[e], List.getElem?_eq_getElem he⟩
  have hne : a ≠ b := sp.1 e a b hab
  have hends : edgeEnds E e = (a, b) := by
    unfold edgeEnds; rw [List.getD_eq_getElem?_getD, hab]; rfl
  have hoa : other E e a = some b := other_of_fst hab
  have hob : other E e b = some a := other_of_snd hab hne
  have hnb : b ∉ m a := by
    rw [hm a, mem_adj]
    rintro ⟨e', he', ho⟩
    exact hnew (other_inj sp ho hoa ▸ he')
  have hna : a ∉ m b := by
    rw [hm b, mem_adj]
    rintro ⟨e', he', ho⟩
    exact hnew (other_inj sp ho hob ▸ he')
  rw [adj_append, adj_cons, adj_nil]
  unfold C16.buildAdjStep
  rw [hends]
  simp only [sadd]
  by_cases hva : v = a
  · subst hva
    have hvb : v ≠ b := hne
    rw [hoa]
    have hnb' : b ∉ adj E pre v := by rw [← hm v]; exact hnb
    simp [hvb, hnb', hm v]
  · by_cases hvb : v = b
    · subst hvb
      rw [hob]
      have hna' : a ∉ adj E pre v := by rw [← hm v]; exact hna
      simp [hva, hna', hm v]
    · rw [other_none_of_ne hoa hva hvb]
      simp [hva, hvb, hm v]

theorem foldl_buildAdjStep {E : List (Nat × Nat)} (sp : Simple E) :
    ∀ (cut pre : List Nat) (m : AdjMap), (pre ++ cut).Nodup → (∀ e, e ∈ cut → e < E.length) →
      (∀ v, m v = adj E pre v) → ∀ v, cut.foldl (C16.buildAdjStep E) m v = adj E (pre ++ cut) v
  | [], pre, m, _, _, hm => by simpa using hm
  | e :: cut, pre, m, nd, hv, hm => by
    rw [List.foldl_cons]
    have hnew : e ∉ pre := by
      intro he
      have := (List.nodup_append.mp nd).2.2 e he e List.mem_cons_self
      exact this rfl
    have := foldl_buildAdjStep sp cut (pre ++ [e]) (C16.buildAdjStep E m e)
      (by simpa [List.append_assoc] using nd) (fun x hx => hv x (List.mem_cons_of_mem _ hx))
      (buildAdjStep_spec sp (hv e List.mem_cons_self) hnew m hm)
    simpa [List.append_assoc] using this

/-- relation between the translated state and the model's `(cut, queue)` -/
structure Rel (E : List (Nat × Nat)) (s : St) (m : List Nat × List Nat) : Prop where
  cut : s.cut = m.1
  queue : s.queue = m.2
  adj : ∀ v, s.adj v = adj E m.1 v

/-- the same, except at the vertex `A` being popped (its set is iterated, then reset) -/
structure RelBut (E : List (Nat × Nat)) (A : Nat) (s : St) (m : List Nat × List Nat) : Prop where
  cut : s.cut = m.1
  queue : s.queue = m.2
  adj : ∀ v, v ≠ A → s.adj v = adj E m.1 v

theorem buildCutEdgesTree_rel {E : List (Nat × Nat)} (sp : Simple E) (evisited : List Nat) :
    Rel E (C16.buildCutEdgesTree E.length E evisited) (cutEdges0 E.length evisited, []) := by
  refine ⟨rfl, rfl, ?_⟩
  intro v
  show (cutEdges0 E.length evisited).foldl (C16.buildAdjStep E) emptyAdj v = _
  have := foldl_buildAdjStep sp (cutEdges0 E.length evisited) [] emptyAdj
    (by simpa using cutEdges0_nodup E.length evisited)
    (fun e he => by
      have := List.mem_filter.mp (show e ∈ (List.range E.length).filter _ from he)
      exact List.mem_range.mp this.1)
    (fun v => rfl) v
  simpa using this

/-! ### `_prune_edge_tree` -/

theorem foldl_pruneInitStep (E : List (Nat × Nat)) (sing : List Nat) (s : St) :
    ∀ (L : List Nat) (q : List Nat), s.queue = q →
      let r := L.foldl (C16.pruneInitStep E sing) s
      r.cut = s.cut ∧ r.adj = s.adj ∧
        r.queue = q ++ L.filter (fun i => (s.adj i).length == 1 && !sing.contains i) := by
  intro L
  induction L generalizing s with
  | nil => intro q hq; simp [hq]
  | cons i L ih =>
    intro q hq
    simp only [List.foldl_cons]
    by_cases hc : ((s.adj i).length == 1 && !sing.contains i) = true
    · have h1 : C16.pruneInitStep E sing s i = { s with queue := s.queue ++ [i] } := by
        unfold C16.pruneInitStep; simp only []; rw [if_pos hc]
      rw [h1]
      obtain ⟨a, b, c⟩ := ih { s with queue := s.queue ++ [i] } (q ++ [i]) (by simp [hq])
      refine ⟨a, b, ?_⟩
      rw [c, List.filter_cons, if_pos hc]; simp
    · have h1 : C16.pruneInitStep E sing s i = s := by
        unfold C16.pruneInitStep; simp only []; rw [if_neg hc]
      rw [h1]
      obtain ⟨a, b, c⟩ := ih s q hq
      refine ⟨a, b, ?_⟩
      rw [c, List.filter_cons, if_neg hc]

theorem pruneInner_refines {E : List (Nat × Nat)} (sp : Simple E) (sing : List Nat) {A B e : Nat} {s : St}
    {m : List Nat × List Nat} (r : RelBut E A s m) (h : other E e A = some B) :
    RelBut E A (C16.pruneInner E sing A s B) (removeEdge E sing A m e) := by
  have hBA : B ≠ A := other_ne sp h
  have hid : edgeId E A B = e := edgeId_spec sp h
  have hB : other E e B = some A := other_symm sp h
  have hadjB : (sremove s.adj B A) B = adj E (m.1.erase e) B := by
    simp only [sremove, if_true]
    rw [r.adj B hBA, adj_erase_end sp hB]
  have hadj : ∀ v, v ≠ A → (sremove s.adj B A) v = adj E (m.1.erase e) v := by
    intro v hv
    by_cases hvB : v = B
    · subst hvB; exact hadjB
    · simp only [sremove, if_neg hvB]
      rw [r.adj v hv, adj_erase_other (other_none_of_ne h hv hvB)]
  have hdeg : ((sremove s.adj B A) B).length = degree E (m.1.erase e) B := by rw [hadjB, adj_length]
  unfold C16.pruneInner removeEdge
  simp only [h, hid, r.cut, hdeg]
  split
  · exact ⟨rfl, by simp [r.queue], hadj⟩
  · exact ⟨rfl, r.queue, hadj⟩

theorem foldl_pruneInner_refines {E : List (Nat × Nat)} (sp : Simple E) (sing : List Nat) {A : Nat} :
    ∀ (L : List Nat) (s : St) (m : List Nat × List Nat), (∀ e, e ∈ L → (other E e A).isSome = true) → RelBut E A s m →
      RelBut E A ((L.filterMap (fun e => other E e A)).foldl (C16.pruneInner E sing A) s)
        (L.foldl (removeEdge E sing A) m)
  | [], _, _, _, r => r
  | e :: L, s, m, hL, r => by
    cases h : other E e A with
    | none =>
      have := hL e List.mem_cons_self
      rw [h] at this; cases this
    | some B =>
      rw [List.filterMap_cons, h, List.foldl_cons, List.foldl_cons]
      exact foldl_pruneInner_refines sp sing L _ _ (fun x hx => hL x (List.mem_cons_of_mem _ hx))
        (pruneInner_refines sp sing r h)

/-- one iteration of the `while` loop -/
theorem pruneBody_refines {E : List (Nat × Nat)} (sp : Simple E) (sing : List Nat) {s : St} {c q : List Nat} {A : Nat}
    (nd : c.Nodup) (r : Rel E s (c, A :: q)) :
    Rel E (C16.pruneBody E sing s) (pruneStep E sing (c, A :: q)) := by
  have hq : s.queue = A :: q := r.queue
  have r1 : RelBut E A { s with queue := s.queue.tail } (c, q) :=
    ⟨r.cut, by simp [hq], fun v _ => r.adj v⟩
  have hfold := foldl_pruneInner_refines sp sing (incident E c A) _ _ (fun e he => (mem_incident.mp he).2) r1
  have hA : s.adj A = (incident E c A).filterMap (fun e => other E e A) := r.adj A
  unfold C16.pruneBody pruneStep
  simp only [hq, List.headD_cons, List.tail_cons]
  have hq' : ({ s with queue := s.queue.tail } : St) = { s with queue := q } := by rw [hq]; rfl
  rw [hq'] at hfold
  show Rel E { ((({ s with queue := q } : St).adj A).foldl (C16.pruneInner E sing A) { s with queue := q }) with
      adj := sclear (((({ s with queue := q } : St).adj A).foldl (C16.pruneInner E sing A) { s with queue := q })).adj A } _
  have hA' : ({ s with queue := q } : St).adj A = (incident E c A).filterMap (fun e => other E e A) := hA
  rw [hA']
  refine ⟨hfold.cut, hfold.queue, ?_⟩
  intro v
  by_cases hv : v = A
  · subst hv
    simp only [sclear, if_true]
    -- every cut edge at the popped vertex is gone
    symm
    rw [List.eq_nil_iff_forall_not_mem]
    intro w hw
    obtain ⟨x, hx1, hx2⟩ := mem_adj.mp hw
    have hxc : x ∈ c := foldl_removeEdge_sub _ _ hx1
    have hinc : x ∈ incident E c v := mem_incident.mpr ⟨hxc, by rw [hx2]; rfl⟩
    exact foldl_removeEdge_erases (incident E c v) (c, q) nd x hinc hx1
  · simp only [sclear, if_neg hv]
    exact hfold.adj v hv

theorem pruneWhile_refines {E : List (Nat × Nat)} (sp : Simple E) (sing : List Nat) :
    ∀ (fuel : Nat) (s : St) (m : List Nat × List Nat), m.1.Nodup → Rel E s m →
      Rel E (C16.pruneWhile E sing fuel s) (pruneLoop E sing fuel m)
  | 0, _, _, _, r => r
  | fuel + 1, s, (c, []), _, r => by
    have hq : s.queue = [] := r.queue
    have : C16.pruneCond s = false := by unfold C16.pruneCond; simp [hq]
    simp only [C16.pruneWhile, this, pruneLoop]
    exact r
  | fuel + 1, s, (c, A :: q), nd, r => by
    have hq : s.queue = A :: q := r.queue
    have : C16.pruneCond s = true := by unfold C16.pruneCond; simp [hq]
    simp only [C16.pruneWhile, this, pruneLoop, if_true]
    exact pruneWhile_refines sp sing fuel _ _
      (pruneStep_measure (E := E) (sing := sing) (A := A) (q := q) nd).1 (pruneBody_refines sp sing nd r)

/-- `_prune_edge_tree` as written in the source refines the hand model -/
theorem pruneEdgeTree_refines {E : List (Nat × Nat)} (sp : Simple E) (nV : Nat) (sing : List Nat) {s : St} {cut : List Nat}
    (nd : cut.Nodup) (r : Rel E s (cut, [])) :
    Rel E (C16.pruneEdgeTree nV E sing s) (prune nV E cut sing) := by
  unfold C16.pruneEdgeTree prune
  simp only []
  obtain ⟨h1, h2, h3⟩ := foldl_pruneInitStep E sing { s with queue := [] } (idRange nV) [] rfl
  simp only [] at h1 h2 h3
  have hcut : ((idRange nV).foldl (C16.pruneInitStep E sing) { s with queue := [] }).cut = cut := by rw [h1]; exact r.cut
  rw [hcut]
  apply pruneWhile_refines sp sing _ _ _ nd
  refine ⟨hcut, ?_, ?_⟩
  · rw [h3]
    unfold pruneInit idRange
    simp only [List.nil_append]
    apply List.filter_congr
    intro i _
    show ((s.adj i).length == 1 && !sing.contains i) = _
    rw [r.adj i, adj_length]
  · intro v; rw [h2]; exact r.adj v

end Mouette.CutSrc
