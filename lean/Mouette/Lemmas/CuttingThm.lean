import Mouette.Lemmas.CuttingBuild
/-!
Consequences of `build_char` in "flat" form: corner `c` (position in `F.flatten`) of the input becomes the
output vertex `newOf o c = o.faces.flatten[c]`. Core Lean only.
-/
namespace Mouette.Cutting
open Mouette Mouette.UF

/-- output vertex of corner `c` -/
def newOf (o : Out) (c : Nat) : Nat := o.faces.flatten.getD c 0

theorem flatten_map_map {α β : Type} (f : α → β) (L : List (List α)) :
    (L.map (List.map f)).flatten = L.flatten.map f := by
  induction L with
  | nil => rfl
  | cons a r ih => rw [List.map_cons, List.flatten_cons, List.flatten_cons, List.map_append, ih]

theorem getD_map_range {f : Nat → Nat} {n c : Nat} (hc : c < n) : ((List.range n).map f).getD c 0 = f c := by
  rw [List.getD_eq_getElem?_getD, List.getElem?_map, List.getElem?_range hc]; rfl

theorem eltAt_range {s : State} {n i : Nat} (he : s.elts = List.range n) (hi : i < n) : eltAt s i = i := by
  unfold eltAt
  rw [he, List.getD_eq_getElem?_getD, List.getElem?_range hi]; rfl

theorem mem_range_elts {s : State} {n i : Nat} (he : s.elts = List.range n) (hi : i < n) : i ∈ s.elts := by
  rw [he]; simpa using hi

/-- everything the theorems need about a successful build of a triangle list -/
structure Flat (nV : Nat) (F : List Face) (uncut : List (Nat × Nat)) (o : Out)
    (ps : List (Nat × Nat)) (s1 : State) : Prop where
  hps : unionPairs (halfEdges F) (cornerFaces F) uncut = some ps
  hs1 : s1 = applyUnions (ufRange (3 * F.length)) ps
  inv : Inv s1
  elts : s1.elts = List.range (3 * F.length)
  len : F.flatten.length = 3 * F.length
  wf : WFMap (buildImap o.roots3)
  newOf_eq : ∀ c, c < 3 * F.length → newOf o c = look (buildImap o.roots3) (classOf s1 c)
  look_some : ∀ c, c < 3 * F.length →
      (buildImap o.roots3).lookup (classOf s1 c) = some (look (buildImap o.roots3) (classOf s1 c))
  roots3 : o.roots3.flatten = (List.range (3 * F.length)).map (classOf s1)
  pos : o.pos = orderVerts (buildImap o.roots3) (cornerVerts F)
  cs7 : o.cs7 = (List.range nV).flatMap (cornersOf (cornerVerts F))
  roots7 : o.roots7 = o.cs7.map (classOf s1)
  ref : o.ref = o.cs7.map (fun c => (look (buildImap o.roots3) (classOf s1 c), vertOf F c))

theorem build_flat {nV : Nat} {F : List Face} {uncut : List (Nat × Nat)} {o : Out} (tri : AllTri F)
    (h : build nV F uncut = .ok o) : ∃ ps s1, Flat nV F uncut o ps s1 := by
  obtain ⟨ps, s1, hps, hs1, inv, he, hr3, hfaces, hl2, hpos, hcs, hr7, href, _⟩ := (build_char tri h).ex
  have hn : F.flatten.length = 3 * F.length := flatten_length_tri F tri
  have hr3f : o.roots3.flatten = (List.range (3 * F.length)).map (classOf s1) := by
    rw [hr3, flatten_map_map, cornerFaces_flatten, hn]
  refine ⟨ps, s1, hps, hs1, inv, he, hn, (buildImap_spec o.roots3).1, ?_, ?_, hr3f, hpos, hcs, hr7, href⟩
  · intro c hc
    unfold newOf
    rw [hfaces, flatten_map_map, hr3f, List.map_map]
    exact getD_map_range hc
  · intro c hc
    apply hl2
    rw [hr3f]
    exact List.mem_map.mpr ⟨c, by simpa using hc, rfl⟩

/-- the root of a corner carries the label of the corner, for every labelling constant on the union pairs -/
theorem Flat.root_label {α : Type} {nV : Nat} {F : List Face} {uncut : List (Nat × Nat)} {o : Out}
    {ps : List (Nat × Nat)} {s1 : State} (fl : Flat nV F uncut o ps s1) {lab : Nat → α}
    (ok : PairsOK (3 * F.length) lab ps) {c : Nat} (hc : c < 3 * F.length) :
    lab (classOf s1 c) = lab c := by
  obtain ⟨inv0, he0, r0⟩ := ufRange_spec lab (3 * F.length)
  obtain ⟨_, _, r1⟩ := applyUnions_spec lab (3 * F.length) ps _ inv0 he0 r0 ok
  rw [← fl.hs1] at r1
  have hm := mem_range_elts fl.elts hc
  have := r1 c hm
  have hlt : classOf s1 c < 3 * F.length := by
    have := classOf_lt fl.inv hm
    rw [fl.elts] at this; simpa using this
  rw [eltAt_range fl.elts hlt] at this
  exact this

theorem Flat.pairs_vert {nV : Nat} {F : List Face} {uncut : List (Nat × Nat)} {o : Out}
    {ps : List (Nat × Nat)} {s1 : State} (fl : Flat nV F uncut o ps s1) :
    PairsOK (3 * F.length) (vertOf F) ps := by
  intro p hp
  have := unionPairs_spec uncut ps fl.hps p hp
  have hl : (cornerVerts F).length = 3 * F.length := fl.len
  rw [hl] at this; exact this

/-- two corners with the same output vertex have the same union-find root -/
theorem Flat.newOf_inj {nV : Nat} {F : List Face} {uncut : List (Nat × Nat)} {o : Out}
    {ps : List (Nat × Nat)} {s1 : State} (fl : Flat nV F uncut o ps s1) {c c' : Nat}
    (hc : c < 3 * F.length) (hc' : c' < 3 * F.length) (h : newOf o c = newOf o c') :
    classOf s1 c = classOf s1 c' := by
  rw [fl.newOf_eq c hc, fl.newOf_eq c' hc'] at h
  have h1 := fl.look_some c hc
  have h2 := fl.look_some c' hc'
  rw [h] at h1
  exact wfmap_inj fl.wf h1 h2

theorem all_zip_map {p : Nat × Nat → Bool} {f : Nat → Nat} : ∀ l : List Nat,
    (l.zip (l.map f)).all p = l.all (fun c => p (c, f c))
  | [] => rfl
  | a :: r => by simp [all_zip_map r]

/-- keys of `buildImap` come from the list it was built from -/
theorem foldl_imapStep_keys : ∀ (rs : List Nat) (m : List (Nat × Nat)) (e : Nat × Nat),
    e ∈ rs.foldl imapStep m → e ∈ m ∨ e.1 ∈ rs
  | [], _, _, h => Or.inl h
  | v :: rs, m, e, h => by
    rcases foldl_imapStep_keys rs (imapStep m v) e h with h1 | h1
    · unfold imapStep at h1
      split at h1
      · exact Or.inl h1
      · rcases List.mem_append.mp h1 with h2 | h2
        · exact Or.inl h2
        · simp at h2; subst h2; exact Or.inr List.mem_cons_self
    · exact Or.inr (List.mem_cons_of_mem _ h1)

end Mouette.Cutting
