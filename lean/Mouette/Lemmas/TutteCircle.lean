import Mouette.Model.Tutte
import Mathlib.Analysis.SpecialFunctions.Trigonometric.Angle
import Mathlib.Tactic.Ring
import Mathlib.Tactic.Linarith
import Mathlib.Tactic.FieldSimp
import Mathlib.Tactic.LinearCombination
/-!
Circle mode of `_initialize_boundary` over ℝ: the positions `(cos 2πi/n, sin 2πi/n)` (`cmath.rect(1, 2*pi*i/n)`)
are pairwise distinct, in strictly convex position, and follow the border order counter-clockwise.
`Real.cos`, `Real.sin` are Mathlib's (noncomputable) functions: this is a specification-level statement about the
exact values; the floating-point `cmath.rect` is not modelled.
-/
namespace Mouette.Tutte
open Real

/-- angle of border vertex `i` of `n` -/
noncomputable def circleAngle (n i : Nat) : ℝ := 2 * π * (i : ℝ) / (n : ℝ)

/-- exact position of border vertex `i` of `n` in circle mode -/
noncomputable def circlePos (n i : Nat) : ℝ × ℝ := (cos (circleAngle n i), sin (circleAngle n i))

/-- the model's `circleTurns` are these angles as fractions of a turn -/
theorem circleTurns_getElem (n i : Nat) (hi : i < n) :
    (circleTurns n)[i]? = some ((i : Rat) / (n : Rat)) := by
  unfold circleTurns
  rw [List.getElem?_map, List.getElem?_range hi]; rfl

theorem circleAngle_eq_turn (n i : Nat) :
    circleAngle n i = 2 * π * (((i : Rat) / (n : Rat) : Rat) : ℝ) := by
  unfold circleAngle
  push_cast
  ring

/-- difference of two angles is a multiple of `2π` only for equal indices -/
theorem index_eq_of_angle_diff {n i j : Nat} (hi : i < n) (hj : j < n) {k : ℤ}
    (h : circleAngle n i - circleAngle n j = 2 * π * k) : i = j := by
  have hn : (n : ℝ) ≠ 0 := by
    have : 0 < n := by omega
    exact_mod_cast (Nat.pos_iff_ne_zero.mp this)
  have hpi : (π : ℝ) ≠ 0 := Real.pi_ne_zero
  unfold circleAngle at h
  have h2 : (i : ℝ) - (j : ℝ) = (k : ℝ) * (n : ℝ) := by
    field_simp at h
    linarith
  have h3 : (i : ℤ) - (j : ℤ) = k * (n : ℤ) := by exact_mod_cast h2
  have hk : k = 0 := by
    by_contra hk0
    rcases lt_or_gt_of_ne hk0 with hneg | hpos
    · have : k ≤ -1 := by omega
      have : k * (n : ℤ) ≤ -1 * (n : ℤ) := Int.mul_le_mul_of_nonneg_right this (by omega)
      omega
    · have : 1 ≤ k := by omega
      have : 1 * (n : ℤ) ≤ k * (n : ℤ) := Int.mul_le_mul_of_nonneg_right this (by omega)
      omega
  rw [hk] at h3
  omega

/-- circle positions are pairwise distinct -/
theorem circlePos_injective {n i j : Nat} (hi : i < n) (hj : j < n) (h : circlePos n i = circlePos n j) : i = j := by
  unfold circlePos at h
  have hc : cos (circleAngle n i) = cos (circleAngle n j) := congrArg Prod.fst h
  have hs : sin (circleAngle n i) = sin (circleAngle n j) := congrArg Prod.snd h
  have ha := Real.Angle.cos_sin_inj hc hs
  rw [Real.Angle.angle_eq_iff_two_pi_dvd_sub] at ha
  obtain ⟨k, hk⟩ := ha
  exact index_eq_of_angle_diff hi hj hk

theorem circlePos_on_circle (n i : Nat) : (circlePos n i).1 ^ 2 + (circlePos n i).2 ^ 2 = 1 := by
  unfold circlePos
  simp only []
  have := Real.sin_sq_add_cos_sq (circleAngle n i)
  linarith

/-- strictly convex position: every position is the UNIQUE maximiser over all positions of the linear functional
`x ↦ ⟨x, p_i⟩` (value 1 at `p_i`, `< 1` at every other `p_j`), hence an exposed vertex of the convex hull -/
theorem circlePos_exposed {n i j : Nat} (hi : i < n) (hj : j < n) (hij : i ≠ j) :
    (circlePos n j).1 * (circlePos n i).1 + (circlePos n j).2 * (circlePos n i).2 < 1 := by
  unfold circlePos
  simp only []
  rw [← Real.cos_sub]
  apply lt_of_le_of_ne (Real.cos_le_one _)
  intro h1
  rw [Real.cos_eq_one_iff] at h1
  obtain ⟨k, hk⟩ := h1
  exact hij (index_eq_of_angle_diff hj hi (k := k) (by rw [← hk]; ring)).symm

/-- … therefore no position is a convex combination of two other positions (in particular no three are collinear
with one in the middle) -/
theorem circlePos_not_between {n i j k : Nat} (hi : i < n) (hj : j < n) (hk : k < n) (hij : i ≠ j) (hik : i ≠ k)
    (t : ℝ) (ht0 : 0 ≤ t) (ht1 : t ≤ 1) :
    ((1 - t) * (circlePos n j).1 + t * (circlePos n k).1, (1 - t) * (circlePos n j).2 + t * (circlePos n k).2)
      ≠ circlePos n i := by
  intro h
  have e1 := circlePos_exposed hi hj hij
  have e2 := circlePos_exposed hi hk hik
  have on := circlePos_on_circle n i
  have hx : (1 - t) * (circlePos n j).1 + t * (circlePos n k).1 = (circlePos n i).1 := congrArg Prod.fst h
  have hy : (1 - t) * (circlePos n j).2 + t * (circlePos n k).2 = (circlePos n i).2 := congrArg Prod.snd h
  have hdot : (1 - t) * ((circlePos n j).1 * (circlePos n i).1 + (circlePos n j).2 * (circlePos n i).2)
      + t * ((circlePos n k).1 * (circlePos n i).1 + (circlePos n k).2 * (circlePos n i).2) = 1 := by
    have : (circlePos n i).1 * (circlePos n i).1 + (circlePos n i).2 * (circlePos n i).2 = 1 := by nlinarith
    rw [← hx, ← hy] at this
    nlinarith
  have h1 : 0 ≤ (1 - t) * (1 - ((circlePos n j).1 * (circlePos n i).1 + (circlePos n j).2 * (circlePos n i).2)) :=
    mul_nonneg (by linarith) (by linarith)
  have h2 : 0 ≤ t * (1 - ((circlePos n k).1 * (circlePos n i).1 + (circlePos n k).2 * (circlePos n i).2)) :=
    mul_nonneg ht0 (by linarith)
  have h3 : (1 - t) * (1 - ((circlePos n j).1 * (circlePos n i).1 + (circlePos n j).2 * (circlePos n i).2)) = 0 := by
    nlinarith
  have h4 : t * (1 - ((circlePos n k).1 * (circlePos n i).1 + (circlePos n k).2 * (circlePos n i).2)) = 0 := by
    nlinarith
  rcases mul_eq_zero.mp h3 with ha | ha
  · rcases mul_eq_zero.mp h4 with hb | hb
    · linarith
    · linarith
  · linarith

/-! ### counter-clockwise order -/

theorem sin_sum_identity (u v : ℝ) :
    sin (2 * u) + sin (2 * v) - sin (2 * u + 2 * v) = 4 * sin u * sin v * sin (u + v) := by
  rw [Real.sin_add (2 * u) (2 * v), Real.sin_two_mul, Real.sin_two_mul, Real.cos_two_mul, Real.cos_two_mul,
    Real.sin_add u v]
  have hu := Real.sin_sq_add_cos_sq u
  have hv := Real.sin_sq_add_cos_sq v
  linear_combination (-4 * sin u * cos u) * hv + (-4 * sin v * cos v) * hu

/-- orientation of three positions = `sin(b−a) + sin(c−b) − sin(c−a)` -/
theorem orient_circle (a b c : ℝ) :
    (cos b - cos a) * (sin c - sin a) - (cos c - cos a) * (sin b - sin a)
      = sin (b - a) + sin (c - b) - sin (c - a) := by
  rw [Real.sin_sub, Real.sin_sub, Real.sin_sub]; ring

/-- three positions taken in border order `i < j < k` are strictly counter-clockwise (positive orientation):
the border polygon is strictly convex and traversed once in the order of the border cycle -/
theorem circlePos_ccw {n i j k : Nat} (hij : i < j) (hjk : j < k) (hk : k < n) :
    0 < ((circlePos n j).1 - (circlePos n i).1) * ((circlePos n k).2 - (circlePos n i).2)
      - ((circlePos n k).1 - (circlePos n i).1) * ((circlePos n j).2 - (circlePos n i).2) := by
  unfold circlePos
  simp only []
  rw [orient_circle]
  have hn : (0 : ℝ) < n := by exact_mod_cast (by omega : 0 < n)
  have hpi := Real.pi_pos
  -- half differences
  set u := (circleAngle n j - circleAngle n i) / 2 with hu
  set v := (circleAngle n k - circleAngle n j) / 2 with hv
  have e1 : circleAngle n j - circleAngle n i = 2 * u := by rw [hu]; ring
  have e2 : circleAngle n k - circleAngle n j = 2 * v := by rw [hv]; ring
  have e3 : circleAngle n k - circleAngle n i = 2 * u + 2 * v := by rw [hu, hv]; ring
  rw [e1, e2, e3, sin_sum_identity]
  have hu_eq : u = π * ((j : ℝ) - (i : ℝ)) / n := by rw [hu]; unfold circleAngle; field_simp
  have hv_eq : v = π * ((k : ℝ) - (j : ℝ)) / n := by rw [hv]; unfold circleAngle; field_simp
  have hij' : (0 : ℝ) < (j : ℝ) - (i : ℝ) := by
    have : (i : ℝ) < (j : ℝ) := by exact_mod_cast hij
    linarith
  have hjk' : (0 : ℝ) < (k : ℝ) - (j : ℝ) := by
    have : (j : ℝ) < (k : ℝ) := by exact_mod_cast hjk
    linarith
  have hkn : (k : ℝ) < (n : ℝ) := by exact_mod_cast hk
  have hi0 : (0 : ℝ) ≤ (i : ℝ) := Nat.cast_nonneg i
  have hu0 : 0 < u := by rw [hu_eq]; positivity
  have hv0 : 0 < v := by rw [hv_eq]; positivity
  have huv : u + v < π := by
    rw [hu_eq, hv_eq, ← add_div, div_lt_iff₀ hn]
    nlinarith
  have s1 : 0 < sin u := Real.sin_pos_of_pos_of_lt_pi hu0 (by linarith)
  have s2 : 0 < sin v := Real.sin_pos_of_pos_of_lt_pi hv0 (by linarith)
  have s3 : 0 < sin (u + v) := Real.sin_pos_of_pos_of_lt_pi (by linarith) huv
  positivity

end Mouette.Tutte
