import Mouette.Model.Surface
import Mouette.Model.SurfaceSpec
/-! Specification ("direct inspection of the face list") and helper lemmas for `Model/Surface.lean`. -/
namespace Mouette.Surface

/-! ### offsets -/

@[simp] theorem offset_zero (faces : Faces) : offset faces 0 = 0 := by simp [offset]

@[simp] theorem offset_cons_succ (F : List Nat) (rest : Faces) (k : Nat) :
    offset (F :: rest) (k+1) = F.length + offset rest k := by
  simp [offset]

theorem offset_succ (faces : Faces) (f : Nat) (h : f < faces.length) :
    offset faces (f+1) = offset faces f + (fa faces f).length := by
  induction faces generalizing f with
  | nil => simp at h
  | cons F rest ih =>
    cases f with
    | zero => simp [fa]
    | succ k =>
      have hk : k < rest.length := by simpa using h
      rw [offset_cons_succ, offset_cons_succ, ih k hk]
      simp [fa, Nat.add_assoc]

theorem offset_mono (faces : Faces) {f g : Nat} (h : f ≤ g) (hg : g ≤ faces.length) :
    offset faces f ≤ offset faces g := by
  induction g with
  | zero => have : f = 0 := by omega
            subst this; exact Nat.le_refl _
  | succ k ih =>
    rcases Nat.lt_or_ge f (k+1) with hlt | hge
    · have := ih (by omega) (by omega)
      rw [offset_succ faces k (by omega)]; omega
    · have : f = k+1 := by omega
      subst this; exact Nat.le_refl _

/-- a corner id determines its face and its position in the face -/
theorem corner_inj (faces : Faces) {f g i j : Nat} (hf : f < faces.length) (hg : g < faces.length)
    (hi : i < (fa faces f).length) (hj : j < (fa faces g).length)
    (h : offset faces f + i = offset faces g + j) : f = g ∧ i = j := by
  rcases Nat.lt_trichotomy f g with hlt | heq | hgt
  · have h1 := offset_mono faces (f := f+1) (g := g) (by omega) (by omega)
    rw [offset_succ faces f hf] at h1; omega
  · subst heq; exact ⟨rfl, by omega⟩
  · have h1 := offset_mono faces (f := g+1) (g := f) (by omega) (by omega)
    rw [offset_succ faces g hg] at h1; omega

/-! ### membership in the half-edge insertion list -/

theorem mem_sidesOfFace {off : Nat} {F : List Nat} {f : Nat} {s : Side} :
    s ∈ sidesOfFace off F f ↔ ∃ i, i < F.length ∧ s = mkSide off F f i := by
  unfold sidesOfFace
  simp only [List.mem_map, List.mem_range]
  constructor
  · rintro ⟨i, hi, rfl⟩; exact ⟨i, hi, rfl⟩
  · rintro ⟨i, hi, rfl⟩; exact ⟨i, hi, rfl⟩

theorem mem_sidesFrom {off f0 : Nat} {faces : Faces} {s : Side} :
    s ∈ sidesFrom off f0 faces ↔
      ∃ k i, k < faces.length ∧ i < (fa faces k).length ∧
        s = mkSide (off + offset faces k) (fa faces k) (f0 + k) i := by
  induction faces generalizing off f0 with
  | nil => simp [sidesFrom]
  | cons F rest ih =>
    simp only [sidesFrom, List.mem_append, mem_sidesOfFace, ih]
    constructor
    · rintro (⟨i, hi, rfl⟩ | ⟨k, i, hk, hi, rfl⟩)
      · exact ⟨0, i, by simp, by simpa [fa] using hi, by simp [fa]⟩
      · refine ⟨k+1, i, by simpa using hk, by simpa [fa] using hi, ?_⟩
        simp [fa, Nat.add_assoc, Nat.add_comm 1 k]
    · rintro ⟨k, i, hk, hi, rfl⟩
      cases k with
      | zero => left; exact ⟨i, by simpa [fa] using hi, by simp [fa]⟩
      | succ k =>
        right
        refine ⟨k, i, by simpa using hk, by simpa [fa] using hi, ?_⟩
        simp [fa, Nat.add_assoc, Nat.add_comm 1 k]

/-- the entries written into `_half_edges` are exactly one per (face, position) -/
theorem mem_sides {faces : Faces} {s : Side} :
    s ∈ sides faces ↔ ∃ f i, f < faces.length ∧ i < (fa faces f).length ∧
      s = mkSide (offset faces f) (fa faces f) f i := by
  unfold sides
  rw [mem_sidesFrom]
  simp


/-! ### dictionary lookups -/

theorem pairwise_unique {α} {l : List α} {R : α → α → Prop} (hsymm : ∀ a b, R a b → R b a)
    (h : l.Pairwise fun a b => ¬ R a b) {s t : α} (hs : s ∈ l) (ht : t ∈ l) (hr : R s t) : s = t := by
  obtain ⟨a, ha, rfl⟩ := List.mem_iff_getElem.mp hs
  obtain ⟨b, hb, rfl⟩ := List.mem_iff_getElem.mp ht
  rw [List.pairwise_iff_getElem] at h
  rcases Nat.lt_trichotomy a b with hlt | heq | hgt
  · exact absurd hr (h a b ha hb hlt)
  · subst heq; rfl
  · exact absurd (hsymm _ _ hr) (h b a hb ha hgt)

/-- under `Oriented` the key `(u,v)` identifies its entry -/
theorem side_unique {faces : Faces} (hO : Oriented faces) {s t : Side}
    (hs : s ∈ sides faces) (ht : t ∈ sides faces) (hu : s.u = t.u) (hv : s.v = t.v) : s = t :=
  pairwise_unique (R := fun a b : Side => a.u = b.u ∧ a.v = b.v)
    (fun _ _ h => ⟨h.1.symm, h.2.symm⟩) hO hs ht ⟨hu, hv⟩

/-- `_half_edges.get((u,v))` -/
theorem lookupHE_eq_some {faces : Faces} (hO : Oriented faces) {u v : Nat} {s : Side} :
    lookupHE (sides faces).reverse u v = some s ↔ s ∈ sides faces ∧ s.u = u ∧ s.v = v := by
  unfold lookupHE
  constructor
  · intro h
    have hp := List.find?_some h
    have hm := List.mem_of_find?_eq_some h
    simp only [Bool.and_eq_true, beq_iff_eq] at hp
    exact ⟨List.mem_reverse.mp hm, hp.1, hp.2⟩
  · rintro ⟨hm, hu, hv⟩
    have hsome : ((sides faces).reverse.find? fun s => s.u == u && s.v == v).isSome := by
      rw [List.find?_isSome]
      exact ⟨s, List.mem_reverse.mpr hm, by simp [hu, hv]⟩
    obtain ⟨t, ht⟩ := Option.isSome_iff_exists.mp hsome
    have hp := List.find?_some ht
    have hm' := List.mem_reverse.mp (List.mem_of_find?_eq_some ht)
    simp only [Bool.and_eq_true, beq_iff_eq] at hp
    have : t = s := side_unique hO hm' hm (by rw [hp.1, hu]) (by rw [hp.2, hv])
    rw [ht, this]

theorem lookupHE_eq_none {faces : Faces} {u v : Nat} :
    lookupHE (sides faces).reverse u v = none ↔ ∀ s ∈ sides faces, ¬ (s.u = u ∧ s.v = v) := by
  unfold lookupHE
  rw [List.find?_eq_none]
  constructor
  · intro h s hs; have := h s (List.mem_reverse.mpr hs); simpa using this
  · intro h s hs; have := h s (List.mem_reverse.mp hs); simpa using this

/-- `_Cn2he.get(c)`: a corner id identifies its entry (no hypothesis needed) -/
theorem cn2he_eq_some {faces : Faces} {f i : Nat} (hf : f < faces.length) (hi : i < (fa faces f).length) :
    cn2he (sides faces).reverse (offset faces f + i) = some (mkSide (offset faces f) (fa faces f) f i) := by
  unfold cn2he
  have hsome : ((sides faces).reverse.find? fun s => s.c == offset faces f + i).isSome := by
    rw [List.find?_isSome]
    exact ⟨_, List.mem_reverse.mpr (mem_sides.mpr ⟨f, i, hf, hi, rfl⟩), by simp [mkSide]⟩
  obtain ⟨t, ht⟩ := Option.isSome_iff_exists.mp hsome
  have hp := List.find?_some ht
  have hm' := List.mem_reverse.mp (List.mem_of_find?_eq_some ht)
  obtain ⟨g, j, hg, hj, rfl⟩ := mem_sides.mp hm'
  simp only [mkSide, beq_iff_eq] at hp
  obtain ⟨rfl, rfl⟩ := corner_inj faces hg hf hj hi hp
  exact ht

theorem isSide_mkSide {faces : Faces} {f i : Nat} (hf : f < faces.length) (hi : i < (fa faces f).length) :
    IsSide faces f i (mkSide (offset faces f) (fa faces f) f i).u (mkSide (offset faces f) (fa faces f) f i).v :=
  ⟨hf, hi, rfl, rfl⟩


theorem filterMap_congr' {α β} {f g : α → Option β} {l : List α} (h : ∀ x ∈ l, f x = g x) :
    l.filterMap f = l.filterMap g := by
  induction l with
  | nil => rfl
  | cons a rest ih =>
    rw [List.filterMap_cons, List.filterMap_cons, h a List.mem_cons_self,
      ih (fun x hx => h x (List.mem_cons_of_mem _ hx))]

theorem getD_eq_getElem {l : List Nat} {i : Nat} (h : i < l.length) : l.getD i 0 = l[i] := by
  rw [List.getD_eq_getElem?_getD, List.getElem?_eq_getElem h]; rfl

/-! ### the `face_corners` container -/

theorem faceCornersFrom_getElem? {f0 : Nat} {faces : Faces} {k i : Nat} (hk : k < faces.length)
    (hi : i < (fa faces k).length) :
    (faceCornersFrom f0 faces)[offset faces k + i]? = some ((fa faces k).getD i 0, f0 + k) := by
  induction faces generalizing f0 k with
  | nil => simp at hk
  | cons F rest ih =>
    cases k with
    | zero =>
      have hi' : i < F.length := by simpa [fa] using hi
      simp only [faceCornersFrom, offset_zero, Nat.zero_add, Nat.add_zero]
      rw [List.getElem?_append_left (by simpa using hi')]
      simp [fa, hi']
    | succ k =>
      have hk' : k < rest.length := by simpa using hk
      have hi' : i < (fa rest k).length := by simpa [fa] using hi
      simp only [faceCornersFrom, offset_cons_succ]
      rw [List.getElem?_append_right (by simp; omega)]
      have : F.length + offset rest k + i - (List.map (fun v => (v, f0)) F).length = offset rest k + i := by
        simp; omega
      rw [this, ih hk' hi']
      simp [fa, Nat.add_assoc, Nat.add_comm 1 k]

theorem faceCornersFrom_findIdx? {f0 : Nat} {faces : Faces} {k : Nat} (hk : k < faces.length)
    (hpos : 0 < (fa faces k).length) :
    (faceCornersFrom f0 faces).findIdx? (fun e => e.2 == f0 + k) = some (offset faces k) := by
  induction faces generalizing f0 k with
  | nil => simp at hk
  | cons F rest ih =>
    cases k with
    | zero =>
      cases F with
      | nil => simp [fa] at hpos
      | cons a F' => simp [faceCornersFrom, List.findIdx?_cons]
    | succ k =>
      have hk' : k < rest.length := by simpa using hk
      have hpos' : 0 < (fa rest k).length := by simpa [fa] using hpos
      simp only [faceCornersFrom, offset_cons_succ]
      rw [List.findIdx?_append]
      have hnone : List.findIdx? (fun e : Nat × Nat => e.2 == f0 + (k + 1)) (List.map (fun v => (v, f0)) F) = none := by
        rw [List.findIdx?_eq_none_iff]
        intro x hx
        obtain ⟨v, _, rfl⟩ := List.mem_map.mp hx
        simp
      rw [hnone]
      have h2 := ih (f0 := f0 + 1) hk' hpos'
      have heq : (fun e : Nat × Nat => e.2 == f0 + (k + 1)) = (fun e : Nat × Nat => e.2 == f0 + 1 + k) := by
        funext e; congr 1; omega
      rw [heq, h2]
      simp; omega


/-- converse of `faceCornersFrom_getElem?`: every entry of the container is corner `(k,i)` of some face -/
theorem faceCornersFrom_getElem?_inv {f0 : Nat} {faces : Faces} {c v g : Nat}
    (h : (faceCornersFrom f0 faces)[c]? = some (v, g)) :
    ∃ k i, k < faces.length ∧ i < (fa faces k).length ∧ c = offset faces k + i ∧
      (fa faces k).getD i 0 = v ∧ g = f0 + k := by
  induction faces generalizing f0 c with
  | nil => simp [faceCornersFrom] at h
  | cons F rest ih =>
    simp only [faceCornersFrom] at h
    rcases Nat.lt_or_ge c F.length with hc | hc
    · rw [List.getElem?_append_left (by simpa using hc)] at h
      rw [List.getElem?_map] at h
      have hF : F[c]? = some F[c] := List.getElem?_eq_getElem hc
      rw [hF] at h
      simp only [Option.map_some, Option.some.injEq, Prod.mk.injEq] at h
      refine ⟨0, c, by simp, by simpa [fa] using hc, by simp, ?_, by omega⟩
      simp [fa, hc, h.1]
    · rw [List.getElem?_append_right (by simpa using hc)] at h
      simp only [List.length_map] at h
      obtain ⟨k, i, hk, hi, hci, hv, hg⟩ := ih h
      refine ⟨k+1, i, by simpa using hk, by simpa [fa] using hi, ?_, by simpa [fa] using hv, by omega⟩
      rw [offset_cons_succ]; omega

/-! ### edge completion (`_complete_edges_from_faces`) -/

def addKey (acc : List (Nat × Nat)) (e : Nat × Nat) : List (Nat × Nat) :=
  if acc.contains e then acc else acc ++ [e]

theorem edgesOfKeys_eq (keys : List (Nat × Nat)) : edgesOfKeys keys = keys.foldl addKey [] := rfl

theorem foldl_addKey_mem (keys acc : List (Nat × Nat)) (x : Nat × Nat) :
    x ∈ keys.foldl addKey acc ↔ x ∈ acc ∨ x ∈ keys := by
  induction keys generalizing acc with
  | nil => simp
  | cons k rest ih =>
    rw [List.foldl_cons, ih]
    unfold addKey
    by_cases h : acc.contains k = true
    · rw [if_pos h]
      have hk : k ∈ acc := List.contains_iff_mem.mp h
      constructor
      · rintro (h1 | h1)
        · exact Or.inl h1
        · exact Or.inr (List.mem_cons_of_mem _ h1)
      · rintro (h1 | h1)
        · exact Or.inl h1
        · rcases List.mem_cons.mp h1 with rfl | h2
          · exact Or.inl hk
          · exact Or.inr h2
    · rw [if_neg h]
      simp only [List.mem_append, List.mem_cons, List.not_mem_nil, or_false]
      constructor
      · rintro ((h1 | h1) | h1)
        · exact Or.inl h1
        · exact Or.inr (Or.inl h1)
        · exact Or.inr (Or.inr h1)
      · rintro (h1 | h1 | h1)
        · exact Or.inl (Or.inl h1)
        · exact Or.inl (Or.inr h1)
        · exact Or.inr h1

theorem foldl_addKey_nodup (keys acc : List (Nat × Nat)) (hacc : acc.Nodup) :
    (keys.foldl addKey acc).Nodup := by
  induction keys generalizing acc with
  | nil => simpa using hacc
  | cons k rest ih =>
    rw [List.foldl_cons]
    apply ih
    unfold addKey
    by_cases h : acc.contains k = true
    · rw [if_pos h]; exact hacc
    · rw [if_neg h]
      have hk : k ∉ acc := fun hm => h (List.contains_iff_mem.mpr hm)
      rw [List.nodup_append]
      refine ⟨hacc, by simp, ?_⟩
      intro a ha b hb
      rw [List.mem_singleton] at hb
      subst hb
      intro hab; subst hab; exact hk ha

theorem mem_edgesOf {faces : Faces} {e : Nat × Nat} :
    e ∈ edgesOf faces ↔ ∃ f i u v, IsSide faces f i u v ∧ e = key2 u v := by
  unfold edgesOf
  rw [edgesOfKeys_eq, foldl_addKey_mem]
  simp only [List.not_mem_nil, false_or, List.mem_map]
  constructor
  · rintro ⟨s, hs, rfl⟩
    obtain ⟨f, i, hf, hi, rfl⟩ := mem_sides.mp hs
    exact ⟨f, i, _, _, ⟨hf, hi, rfl, rfl⟩, rfl⟩
  · rintro ⟨f, i, u, v, ⟨hf, hi, hu, hv⟩, rfl⟩
    exact ⟨_, mem_sides.mpr ⟨f, i, hf, hi, rfl⟩, by rw [← hu, ← hv]; rfl⟩

theorem nodup_edgesOf (faces : Faces) : (edgesOf faces).Nodup := by
  unfold edgesOf
  rw [edgesOfKeys_eq]
  exact foldl_addKey_nodup _ [] List.nodup_nil

/-- `_edge_id.get(key)` on a duplicate-free container -/
theorem find_zipIdx_reverse {l : List (Nat × Nat)} (hnd : l.Nodup) (k : Nat × Nat) (e : Nat) :
    ((l.zipIdx.reverse.find? fun x => x.1 == k).map (·.2)) = some e ↔ l[e]? = some k := by
  rw [Option.map_eq_some_iff]
  constructor
  · rintro ⟨x, hx, rfl⟩
    have hp := List.find?_some hx
    have hm := List.mem_reverse.mp (List.mem_of_find?_eq_some hx)
    rw [List.mem_zipIdx_iff_getElem?] at hm
    simp only [beq_iff_eq] at hp
    rw [hm, hp]
  · intro h
    have hsome : (l.zipIdx.reverse.find? fun x => x.1 == k).isSome := by
      rw [List.find?_isSome]
      exact ⟨(k, e), List.mem_reverse.mpr (List.mem_zipIdx_iff_getElem?.mpr h), by simp⟩
    obtain ⟨x, hx⟩ := Option.isSome_iff_exists.mp hsome
    have hp := List.find?_some hx
    have hm := List.mem_reverse.mp (List.mem_of_find?_eq_some hx)
    rw [List.mem_zipIdx_iff_getElem?] at hm
    simp only [beq_iff_eq] at hp
    refine ⟨x, hx, ?_⟩
    have hlt : x.2 < l.length := by
      rcases Nat.lt_or_ge x.2 l.length with h1 | h1
      · exact h1
      · rw [List.getElem?_eq_none h1] at hm; cases hm
    exact (List.getElem?_inj hlt hnd).mp (by rw [hm, h, hp])

/-! ### border / interior lists -/

theorem zipIdx_filter_partition {α} (l : List α) (p : α × Nat → Bool) :
    (((l.zipIdx.filter p).map (·.2)) ++ ((l.zipIdx.filter fun x => !p x).map (·.2))).Perm (List.range l.length) := by
  rw [← List.map_append]
  have h := (List.filter_append_perm p l.zipIdx).map (·.2)
  have h2 : List.map (·.2) l.zipIdx = List.range l.length := by
    rw [List.zipIdx_map_snd, List.range_eq_range']
  rw [h2] at h
  exact h

theorem mem_zipIdx_filter {α} (l : List α) (p : α × Nat → Bool) (e : Nat) :
    e ∈ (l.zipIdx.filter p).map (·.2) ↔ ∃ x, l[e]? = some x ∧ p (x, e) = true := by
  simp only [List.mem_map, List.mem_filter]
  constructor
  · rintro ⟨⟨x, e'⟩, ⟨hm, hp⟩, rfl⟩
    exact ⟨x, List.mem_zipIdx_iff_getElem?.mp hm, hp⟩
  · rintro ⟨x, hx, hp⟩
    exact ⟨(x, e), ⟨List.mem_zipIdx_iff_getElem?.mpr hx, hp⟩, rfl⟩

end Mouette.Surface
