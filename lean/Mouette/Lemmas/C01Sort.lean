import Mouette.Generated.C01Sort
import Mouette.Model.Surface
/-!
Bridges for the two walk loops of `_sort_vertex_neighborhoods` as TRANSLATED from `surface.py` (`Generated/C01Sort.lean`):
run over ANY iteration list `l` (its length is the fuel), the `for … break` loops fill `sort_index` exactly like the model's
`walkBack` / `walkFwd` (`Model/Surface.lean`) with fuel `l.length`.
-/
namespace Mouette.Lemmas.C01Sort
open Mouette.Surface Mouette.SurfSource Mouette.Generated.C01Sort

/-- the model's rank list as entries of the `sort_index` dict -/
def dm (acc : List (Nat × Int)) : IdxDict := acc.map fun e => ((some e.1 : Option Nat), e.2)

theorem for2_true (S : Surf) (a b : V2Cn) (l : List Nat) (x : IdxDict × Int × Bool × Option Nat) :
    l.foldl (sortVertexNeighborhoods_for2_step S a b) (true, x) = (true, x) := by
  induction l with
  | nil => rfl
  | cons y l ih => rw [List.foldl_cons]; simp only [sortVertexNeighborhoods_for2_step, if_true]; exact ih

/-- **backward walk**: the translated loop = `walkBack` with fuel `l.length` (ranks written, border flag) -/
theorem for2_walkBack (S : Surf) (a b : V2Cn) (init : IdxDict) (l : List Nat) : ∀ (c : Nat) (ind : Int) (acc : List (Nat × Int)),
    ∃ ind' cn', l.foldl (sortVertexNeighborhoods_for2_step S a b) (false, dm acc ++ init, ind, false, some c) =
      ((walkBack S l.length c ind acc).2, dm (walkBack S l.length c ind acc).1 ++ init, ind', (walkBack S l.length c ind acc).2, cn') := by
  induction l with
  | nil => intro c ind acc; exact ⟨ind, some c, rfl⟩
  | cons y l ih =>
    intro c ind acc
    rw [List.foldl_cons]
    simp only [List.length_cons, walkBack]
    cases hstep : (previousCorner S c).bind (oppositeCorner S) with
    | none =>
      have h1 : sortVertexNeighborhoods_for2_step S a b (false, dm acc ++ init, ind, false, some c) y =
          (true, dm ((c, ind) :: acc) ++ init, ind - 1, true, none) := by
        simp [sortVertexNeighborhoods_for2_step, hstep, dm]
      rw [h1, for2_true]
      exact ⟨ind - 1, none, rfl⟩
    | some c' =>
      have h1 : sortVertexNeighborhoods_for2_step S a b (false, dm acc ++ init, ind, false, some c) y =
          (false, dm ((c, ind) :: acc) ++ init, ind - 1, false, some c') := by
        simp [sortVertexNeighborhoods_for2_step, hstep, dm]
      rw [h1]
      exact ih c' (ind - 1) ((c, ind) :: acc)

theorem for3_true (S : Surf) (a b : V2Cn) (l : List Nat) (x : IdxDict × Int × Option Nat) :
    l.foldl (sortVertexNeighborhoods_for3_step S a b) (true, x) = (true, x) := by
  induction l with
  | nil => rfl
  | cons y l ih => rw [List.foldl_cons]; simp only [sortVertexNeighborhoods_for3_step, if_true]; exact ih

/-- once the current corner is `None` the forward loop only writes under the key `None` and stops -/
theorem for3_none (S : Surf) (a b : V2Cn) (l : List Nat) (d : IdxDict) (ind : Int) :
    ∃ ex : IdxDict, (∀ e ∈ ex, e.1 = none) ∧ ∃ brk ind' cn',
      l.foldl (sortVertexNeighborhoods_for3_step S a b) (false, d, ind, none) = (brk, ex ++ d, ind', cn') := by
  cases l with
  | nil => exact ⟨[], by simp, false, ind, none, rfl⟩
  | cons y l =>
    rw [List.foldl_cons]
    have h1 : sortVertexNeighborhoods_for3_step S a b (false, d, ind, none) y = (true, (none, ind) :: d, ind + 1, none) := by
      simp [sortVertexNeighborhoods_for3_step]
    rw [h1, for3_true]
    exact ⟨[(none, ind)], by simp, true, ind + 1, none, rfl⟩

/-- **forward walk**: the translated loop = `walkFwd` with fuel `l.length`, up to entries under the key `None` (written only in
the case, impossible on a mesh, where `next_corner` of an opposite corner is `None`) -/
theorem for3_walkFwd (S : Surf) (a b : V2Cn) (init : IdxDict) (l : List Nat) : ∀ (c : Nat) (ind : Int) (acc : List (Nat × Int)),
    ∃ ex : IdxDict, (∀ e ∈ ex, e.1 = none) ∧ ∃ brk ind' cn',
      l.foldl (sortVertexNeighborhoods_for3_step S a b) (false, dm acc ++ init, ind, some c) =
        (brk, ex ++ (dm (walkFwd S l.length c ind acc) ++ init), ind', cn') := by
  induction l with
  | nil => intro c ind acc; exact ⟨[], by simp, false, ind, some c, rfl⟩
  | cons y l ih =>
    intro c ind acc
    rw [List.foldl_cons]
    simp only [List.length_cons, walkFwd]
    cases hopp : oppositeCorner S c with
    | none =>
      have h1 : sortVertexNeighborhoods_for3_step S a b (false, dm acc ++ init, ind, some c) y =
          (true, dm ((c, ind) :: acc) ++ init, ind + 1, none) := by
        simp [sortVertexNeighborhoods_for3_step, hopp, dm]
      rw [h1, for3_true]
      exact ⟨[], by simp, true, ind + 1, none, rfl⟩
    | some o =>
      cases hn : nextCorner S o with
      | none =>
        have h1 : sortVertexNeighborhoods_for3_step S a b (false, dm acc ++ init, ind, some c) y =
            (false, dm ((c, ind) :: acc) ++ init, ind + 1, none) := by
          simp [sortVertexNeighborhoods_for3_step, hopp, hn, dm]
        rw [h1]
        simp only [hn]
        exact for3_none S a b l _ _
      | some c' =>
        have h1 : sortVertexNeighborhoods_for3_step S a b (false, dm acc ++ init, ind, some c) y =
            (false, dm ((c, ind) :: acc) ++ init, ind + 1, some c') := by
          simp [sortVertexNeighborhoods_for3_step, hopp, hn, dm]
        rw [h1]
        simp only [hn]
        exact ih c' (ind + 1) ((c, ind) :: acc)

/-- reading a corner's rank: entries under the key `None` are invisible, and the initial zeros are the default -/
theorem idxGet_dm (ex : IdxDict) (hex : ∀ e ∈ ex, e.1 = none) (acc : List (Nat × Int)) (cs : List Nat) (c : Nat) :
    idxGet (ex ++ (dm acc ++ cs.map fun c => ((some c : Option Nat), (0 : Int)))) (some c) = keyOf acc c := by
  unfold idxGet idxFind keyOf
  have h1 : (ex ++ (dm acc ++ cs.map fun c => ((some c : Option Nat), (0 : Int)))).find? (fun e => e.1 == some c) =
      (dm acc ++ cs.map fun c => ((some c : Option Nat), (0 : Int))).find? (fun e => e.1 == some c) := by
    rw [List.find?_append]
    have : ex.find? (fun e => e.1 == some c) = none := by
      rw [List.find?_eq_none]; intro e he; rw [hex e he]; simp
    rw [this]; rfl
  rw [h1, List.find?_append]
  unfold dm
  rw [List.find?_map]
  have hcomp : ((fun (e : Option Nat × Int) => e.1 == some c) ∘ fun (e : Nat × Int) => ((some e.1 : Option Nat), e.2)) =
      fun e => e.1 == c := by
    funext e; simp [Function.comp]
  rw [hcomp]
  cases hf : acc.find? (fun e => e.1 == c) with
  | some e => simp
  | none =>
    simp only [Option.map_none, Option.none_or, Option.getD_none]
    cases hz : (cs.map fun c => ((some c : Option Nat), (0 : Int))).find? (fun e => e.1 == some c) with
    | none => rfl
    | some e =>
      have := List.mem_of_find?_eq_some hz
      obtain ⟨c', _, rfl⟩ := List.mem_map.mp this
      rfl

end Mouette.Lemmas.C01Sort
