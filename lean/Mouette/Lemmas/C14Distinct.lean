import Mouette.Lemmas.EdgeCount
/-!
"No repeated face" in the sorted-vertex-set sense (the `facesDistinct` flag of `Mouette.MeshCheck`): no two faces at different
positions of the list have the same SET of vertices — so no face is a reversed copy (or any other re-ordering) of another one.
For an addressed face list `A.map face` this follows from: the vertex set determines the address.
-/
namespace Mouette.EdgeCount
open Mouette.MeshCheck

def SameSet (f g : Face) : Prop := (∀ v ∈ f, v ∈ g) ∧ (∀ v ∈ g, v ∈ f)

def FacesDistinct (fs : List Face) : Prop := fs.Pairwise (fun f g => ¬ SameSet f g)

theorem sameSet_eq_true (f g : Face) : sameSet f g = true ↔ SameSet f g := by
  simp [sameSet, SameSet, List.all_eq_true]

/-- the executable flag the driver prints is this property -/
theorem facesDistinct_eq_true (fs : List Face) : facesDistinct fs = true ↔ FacesDistinct fs := by
  induction fs with
  | nil => simp [facesDistinct, FacesDistinct]
  | cons f t ih =>
    unfold FacesDistinct at ih ⊢
    simp only [facesDistinct, Bool.and_eq_true, List.all_eq_true, Bool.not_eq_true', List.pairwise_cons, ih]
    constructor
    · rintro ⟨h1, h2⟩
      refine ⟨fun g hg hs => ?_, h2⟩
      have := h1 g hg
      rw [(sameSet_eq_true f g).mpr hs] at this; exact absurd this (by decide)
    · rintro ⟨h1, h2⟩
      refine ⟨fun g hg => ?_, h2⟩
      cases hb : sameSet f g with
      | false => rfl
      | true => exact absurd ((sameSet_eq_true f g).mp hb) (h1 g hg)

theorem facesDistinct_addressed {α} (A : List α) (face : α → Face) (hA : A.Nodup)
    (h : ∀ a ∈ A, ∀ b ∈ A, SameSet (face a) (face b) → a = b) : FacesDistinct (A.map face) := by
  unfold FacesDistinct
  rw [List.pairwise_map]
  induction A with
  | nil => exact List.Pairwise.nil
  | cons a t ih =>
    rw [List.nodup_cons] at hA
    refine List.Pairwise.cons ?_ (ih hA.2 (fun x hx y hy => h x (List.mem_cons_of_mem _ hx) y (List.mem_cons_of_mem _ hy)))
    intro b hb hs
    have := h a List.mem_cons_self b (List.mem_cons_of_mem _ hb) hs
    exact hA.1 (this ▸ hb)

/-- images of the two vertex sets under any vertex code coincide too -/
theorem SameSet.map_mem {β} {f g : Face} (h : SameSet f g) (d : Nat → β) :
    (∀ p ∈ f.map d, p ∈ g.map d) ∧ (∀ p ∈ g.map d, p ∈ f.map d) := by
  constructor <;> intro p hp <;> obtain ⟨v, hv, rfl⟩ := List.mem_map.mp hp
  · exact List.mem_map.mpr ⟨v, h.1 v hv, rfl⟩
  · exact List.mem_map.mpr ⟨v, h.2 v hv, rfl⟩

/-- (row, column) of a row-major vertex id -/
def rc (n v : Nat) : Nat × Nat := (v / n, v % n)

theorem rc_mk (n r c : Nat) (h : c < n) : rc n (r * n + c) = (r, c) := by
  unfold rc
  have h1 : (r * n + c) / n = r := by
    rw [Nat.mul_comm, Nat.mul_add_div (by omega), Nat.div_eq_of_lt h]; rfl
  have h2 : (r * n + c) % n = c := by
    rw [Nat.mul_comm, Nat.mul_add_mod, Nat.mod_eq_of_lt h]
  rw [h1, h2]

end Mouette.EdgeCount
