import Mouette.Lemmas.VolRing
/-!
Rotational order of `edge_to_face`: the face keys of `_sort_edge_neighborhoods`.
Two shapes occur: an open fan (the two walks cross disjoint sets of faces) and a closed ring (the forward walk
comes back to the start cell; its last face is the first face of the backward walk and its key is overwritten).
-/
namespace Mouette.Vol

theorem enumFrom1_append (a b : List Nat) (s : Int) :
    ∀ p ∈ Conn.enumFrom1 a s, p ∈ Conn.enumFrom1 (a ++ b) s := by
  intro p hp
  unfold Conn.enumFrom1 at hp ⊢
  rw [List.zipIdx_append, List.map_append]
  exact List.mem_append_left _ hp

/-- open fan: the faces crossed by the two walks are pairwise distinct; sorted order = backward walk reversed,
then forward walk -/
theorem sortByKey_faces_open (l fs1 fs2 : List Nat) (hperm : l.Perm (fs2.reverse ++ fs1)) (hnd : (fs1 ++ fs2).Nodup) :
    Conn.sortByKey l (Conn.enumFrom1 fs1 1 ++ Conn.enumFrom1 fs2 (-1)) = fs2.reverse ++ fs1 := by
  let LK : List (Nat × Int) := (Conn.enumFrom1 fs2 (-1)).reverse ++ Conn.enumFrom1 fs1 1
  have hfst : LK.map (·.1) = fs2.reverse ++ fs1 := by
    simp only [LK, List.map_append, List.map_reverse, map_fst_enumFrom1]
  rw [← hfst]
  apply sortByKey_eq_of_pairs
  · rw [hfst]; exact hperm
  · intro p hp
    rcases p with ⟨x, v⟩
    apply lookup_of_mem_nodup
    · rw [List.map_reverse, List.nodup_reverse]
      simp only [List.map_append, map_fst_enumFrom1]
      exact hnd
    · rw [List.mem_reverse]
      simp only [LK, List.mem_append, List.mem_reverse] at hp
      simp only [List.mem_append]
      exact hp.symm
  · simp only [LK, List.map_append, List.map_reverse]
    rw [List.pairwise_append]
    refine ⟨?_, enumFrom1_pos_pairwise fs1, ?_⟩
    · rw [List.pairwise_reverse]; exact enumFrom1_neg_pairwise fs2
    · intro a ha b hb
      rw [List.mem_reverse] at ha
      have := enumFrom1_neg_mem ha
      have := enumFrom1_pos_mem hb
      omega

/-- closed ring: the forward walk crosses `fs ++ [g]`, the backward walk only `g` (the cell behind it is the start
cell's predecessor, already seen); `g`'s key is overwritten by `-1`, so `g` comes first -/
theorem sortByKey_faces_ring (l fs : List Nat) (g : Nat) (hperm : l.Perm (g :: fs)) (hnd : (g :: fs).Nodup) :
    Conn.sortByKey l (Conn.enumFrom1 (fs ++ [g]) 1 ++ Conn.enumFrom1 [g] (-1)) = g :: fs := by
  let LK : List (Nat × Int) := (g, -1) :: Conn.enumFrom1 fs 1
  have hfst : LK.map (·.1) = g :: fs := by simp only [LK, List.map_cons, map_fst_enumFrom1]
  rw [← hfst]
  have hg : Conn.enumFrom1 [g] (-1) = [(g, -1)] := by simp [Conn.enumFrom1]
  have hgfs : g ∉ fs := (List.nodup_cons.1 hnd).1
  apply sortByKey_eq_of_pairs
  · rw [hfst]; exact hperm
  · intro p hp
    rcases p with ⟨x, v⟩
    rw [hg, List.reverse_append, List.reverse_cons, List.reverse_nil, List.nil_append, List.singleton_append]
    rcases List.mem_cons.1 hp with h | h
    · cases h; simp [List.lookup]
    · have hx : x ∈ fs := by
        have : x ∈ (Conn.enumFrom1 fs 1).map (·.1) := List.mem_map.2 ⟨(x, v), h, rfl⟩
        rwa [map_fst_enumFrom1] at this
      have hxg : (x == g) = false := by
        simp only [beq_eq_false_iff_ne, ne_eq]; intro he; exact hgfs (he ▸ hx)
      rw [List.lookup_cons, hxg]
      apply lookup_of_mem_nodup
      · rw [List.map_reverse, List.nodup_reverse, map_fst_enumFrom1]
        rw [List.nodup_append]
        refine ⟨(List.nodup_cons.1 hnd).2, by simp, ?_⟩
        intro a ha b hb hab
        simp only [List.mem_singleton] at hb
        subst hab; subst hb; exact hgfs ha
      · rw [List.mem_reverse]; exact enumFrom1_append fs [g] 1 _ h
  · simp only [LK, List.map_cons]
    rw [List.pairwise_cons]
    exact ⟨fun b hb => by have := enumFrom1_pos_mem hb; omega, enumFrom1_pos_pairwise fs⟩

end Mouette.Vol

namespace Mouette.Vol

/-- what `_sort_edge_neighborhoods` computes for edge `e`, once the two walks are known -/
theorem sortEdge_eq (k : Conn) {e A B c0 p1 p2 : Nat} {rest cs1 fs1 cs2 fs2 : List Nat}
    (hedge : k.m.edge e = [A, B]) (hraw : k.e2cRaw e = c0 :: rest)
    (hpiv : (k.m.cell c0).filter (fun x => x != A && x != B) = [p1, p2])
    (hw1 : k.walk A B (k.m.nC + 1) c0 p1 [c0] = some (cs1, fs1))
    (hw2 : k.walk A B (k.m.nC + 1) c0 p2 (cs1.reverse ++ [c0]) = some (cs2, fs2)) :
    k.sortEdge e = some
      (Conn.sortByKey (k.e2cRaw e) ((c0, (0 : Int)) :: Conn.enumFrom1 cs1 1 ++ Conn.enumFrom1 cs2 (-1)),
       Conn.sortByKey (k.e2f.getD e []) (Conn.enumFrom1 fs1 1 ++ Conn.enumFrom1 fs2 (-1))) := by
  unfold Conn.sortEdge
  rw [hedge]
  simp only [hraw, hpiv, hw1, hw2]

/-- **rotational order of `edge_to_face`, open fan** (border edge): the faces crossed by the two walks are pairwise
distinct and are all the faces around `e`; sorted answer = backward walk reversed ++ forward walk -/
theorem sortEdge_faces_open (k : Conn) {e A B c0 p1 p2 : Nat} {rest cs1 fs1 cs2 fs2 : List Nat}
    (hedge : k.m.edge e = [A, B]) (hraw : k.e2cRaw e = c0 :: rest)
    (hpiv : (k.m.cell c0).filter (fun x => x != A && x != B) = [p1, p2])
    (hw1 : k.walk A B (k.m.nC + 1) c0 p1 [c0] = some (cs1, fs1))
    (hw2 : k.walk A B (k.m.nC + 1) c0 p2 (cs1.reverse ++ [c0]) = some (cs2, fs2))
    (hcover : (k.e2f.getD e []).Perm (fs2.reverse ++ fs1)) (hnd : (fs1 ++ fs2).Nodup) :
    ∃ cs, k.sortEdge e = some (cs, fs2.reverse ++ fs1) := by
  rw [sortEdge_eq k hedge hraw hpiv hw1 hw2, sortByKey_faces_open _ fs1 fs2 hcover hnd]
  exact ⟨_, rfl⟩

/-- **rotational order of `edge_to_face`, closed ring** (interior edge): the forward walk crosses `fs ++ [g]` and comes
back to the start cell, the backward walk stops at once on `g`; sorted answer = `g :: fs` (a rotation of the ring) -/
theorem sortEdge_faces_ring (k : Conn) {e A B c0 p1 p2 g : Nat} {rest cs1 fs cs2 : List Nat}
    (hedge : k.m.edge e = [A, B]) (hraw : k.e2cRaw e = c0 :: rest)
    (hpiv : (k.m.cell c0).filter (fun x => x != A && x != B) = [p1, p2])
    (hw1 : k.walk A B (k.m.nC + 1) c0 p1 [c0] = some (cs1, fs ++ [g]))
    (hw2 : k.walk A B (k.m.nC + 1) c0 p2 (cs1.reverse ++ [c0]) = some (cs2, [g]))
    (hcover : (k.e2f.getD e []).Perm (g :: fs)) (hnd : (g :: fs).Nodup) :
    ∃ cs, k.sortEdge e = some (cs, g :: fs) := by
  rw [sortEdge_eq k hedge hraw hpiv hw1 hw2, sortByKey_faces_ring _ fs g hcover hnd]
  exact ⟨_, rfl⟩

end Mouette.Vol
