import Mouette.Lemmas.RingMesh
/-! Soundness of the decidable ring checkers of `Model/RingSpec.lean`, rotation of a closed ring. -/
namespace Mouette.Surface

theorem chainB_sound {S : Surf} {ring : List Nat} (h : chainB S ring = true) :
    (∀ j (hj : j + 1 < ring.length), stepB S ring[j+1] = some ring[j]) ∧
    (∀ j (hj : j + 1 < ring.length), stepF S ring[j] = some ring[j+1]) := by
  unfold chainB at h
  rw [List.all_eq_true] at h
  constructor
  · intro j hj
    have := h j (List.mem_range.mpr (by omega))
    rw [Bool.and_eq_true, beq_iff_eq, beq_iff_eq] at this
    rw [← getD_eq_getElem (by omega : j + 1 < ring.length), ← getD_eq_getElem (by omega : j < ring.length)]
    exact this.1
  · intro j hj
    have := h j (List.mem_range.mpr (by omega))
    rw [Bool.and_eq_true, beq_iff_eq, beq_iff_eq] at this
    rw [← getD_eq_getElem (by omega : j + 1 < ring.length), ← getD_eq_getElem (by omega : j < ring.length)]
    exact this.2

theorem ringOpenB_sound {S : Surf} {v : Nat} {ring : List Nat} (h : ringOpenB S v ring = true) :
    RingOpen S v ring := by
  unfold ringOpenB at h
  simp only [Bool.and_eq_true, decide_eq_true_eq, Bool.or_eq_true, beq_iff_eq] at h
  obtain ⟨⟨⟨hp, hn⟩, hc⟩, he⟩ := h
  obtain ⟨hb, hf⟩ := chainB_sound hc
  refine { perm := hp, nodup := hn, back := hb, fwd := hf, first := ?_, last := ?_ }
  · intro h0
    rcases he with he | he
    · rw [List.isEmpty_iff] at he; subst he; simp at h0
    · rw [← getD_eq_getElem h0]; exact he.1
  · intro h0
    rcases he with he | he
    · rw [List.isEmpty_iff] at he; subst he; simp at h0
    · rw [← getD_eq_getElem (by omega : ring.length - 1 < ring.length)]; exact he.2

theorem ringClosedB_sound {S : Surf} {v : Nat} {ring : List Nat} (h : ringClosedB S v ring = true) :
    RingClosed S v ring := by
  unfold ringClosedB at h
  simp only [Bool.and_eq_true, decide_eq_true_eq, Bool.or_eq_true, beq_iff_eq] at h
  obtain ⟨⟨⟨hp, hn⟩, hc⟩, he⟩ := h
  obtain ⟨hb, hf⟩ := chainB_sound hc
  refine { perm := hp, nodup := hn, back := hb, fwd := hf, close := ?_ }
  intro h0
  rcases he with he | he
  · rw [List.isEmpty_iff] at he; subst he; simp at h0
  · rw [← getD_eq_getElem h0, ← getD_eq_getElem (by omega : ring.length - 1 < ring.length)]; exact he

theorem umbrellaB_sound {S : Surf} {v : Nat} (h : umbrellaB S v = true) :
    ∃ ring, RingOpen S v ring ∨ RingClosed S v ring := by
  unfold umbrellaB at h
  rw [Bool.or_eq_true] at h
  rcases h with h | h
  · exact ⟨_, Or.inl (ringOpenB_sound h)⟩
  · exact ⟨_, Or.inr (ringClosedB_sound h)⟩

theorem modRot {n j r : Nat} (hn : 0 < n) : (((j + 1) % n + r) % n + n - 1) % n = (j + r) % n := by
  rw [Nat.mod_add_mod]
  have h1 : (j + 1 + r) % n + n - 1 = (j + 1 + r) % n + (n - 1) := by omega
  rw [h1, Nat.mod_add_mod]
  have h2 : j + 1 + r + (n - 1) = j + r + n := by omega
  rw [h2, Nat.add_mod_right]

/-- a rotation of a closed ring is cyclically chained: going one position down (cyclically) is `stepB` -/
theorem closed_rotate_chain {S : Surf} {v : Nat} {ring : List Nat} (hr : RingClosed S v ring) (r : Nat)
    (j : Nat) (hj : j < ring.length) :
    stepB S ((ring.rotate r)[(j + 1) % ring.length]'(by rw [List.length_rotate]; exact Nat.mod_lt _ (by omega))) =
      some ((ring.rotate r)[j]'(by rw [List.length_rotate]; exact hj)) := by
  rw [List.getElem_rotate, List.getElem_rotate, closed_back hr _ (Nat.mod_lt _ (by omega))]
  congr 2
  exact modRot (by omega)

end Mouette.Surface
