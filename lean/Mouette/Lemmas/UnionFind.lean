import Mouette.Model.UnionFind
/-!
Helper lemmas for the union-find model (core Lean only).
-/
namespace Mouette.UF

/-! ### `parent` -/

theorem parent_lt {par : List Nat} {i : Nat} (h : i < par.length) : parent par i = par[i] := by
  simp [parent, List.getD_eq_getElem?_getD, h]

theorem parent_ge {par : List Nat} {i : Nat} (h : par.length ≤ i) : parent par i = i := by
  simp [parent, List.getD_eq_getElem?_getD, h]

theorem lt_of_parent_ne {par : List Nat} {i : Nat} (h : parent par i ≠ i) : i < par.length := by
  apply Classical.byContradiction
  intro hn
  exact h (parent_ge (by omega))

theorem parent_set (par : List Nat) (p v i : Nat) :
    parent (par.set p v) i = if i = p ∧ p < par.length then v else parent par i := by
  unfold parent
  rw [List.getD_eq_getElem?_getD, List.getD_eq_getElem?_getD, List.getElem?_set]
  by_cases h : p = i
  · subst h
    by_cases h2 : p < par.length
    · simp [h2]
    · simp [h2]
  · have : ¬ (i = p ∧ p < par.length) := fun hh => h hh.1.symm
    simp [h, this]

theorem parent_append_self (par : List Nat) (i : Nat) :
    parent (par ++ [par.length]) i = parent par i := by
  unfold parent
  rw [List.getD_eq_getElem?_getD, List.getD_eq_getElem?_getD]
  by_cases h : i < par.length
  · rw [List.getElem?_append_left h]
  · by_cases h2 : i = par.length
    · subst h2; simp
    · have : par.length + 1 ≤ i := by omega
      rw [List.getElem?_eq_none (by simp; omega), List.getElem?_eq_none (by omega)]


/-! ### `Reach par i r`: following parents from `i` ends at the root `r` -/

inductive Reach (par : List Nat) : Nat → Nat → Prop
  | root {r : Nat} : parent par r = r → Reach par r r
  | step {i r : Nat} : parent par i ≠ i → Reach par (parent par i) r → Reach par i r

theorem Reach.isRoot {par : List Nat} {i r : Nat} (h : Reach par i r) : parent par r = r := by
  induction h with
  | root h => exact h
  | step _ _ ih => exact ih

theorem Reach.functional {par : List Nat} {i r r' : Nat} (h : Reach par i r) (h' : Reach par i r') :
    r = r' := by
  induction h with
  | root h =>
    cases h' with
    | root _ => rfl
    | step hne _ => exact absurd h hne
  | step hne _ ih =>
    cases h' with
    | root h => exact absurd h hne
    | step _ h2 => exact ih h2

theorem Reach.of_root {par : List Nat} {i r : Nat} (hi : parent par i = i) (h : Reach par i r) :
    r = i := by
  cases h with
  | root _ => rfl
  | step hne _ => exact absurd hi hne

theorem Reach.congr {par par' : List Nat} (hp : ∀ i, parent par' i = parent par i) {i r : Nat}
    (h : Reach par i r) : Reach par' i r := by
  induction h with
  | root h => exact Reach.root (by rw [hp]; exact h)
  | step hne _ ih =>
    refine Reach.step (by rw [hp]; exact hne) ?_
    rw [hp]; exact ih

theorem reach_root_iff {par : List Nat} {r : Nat} : Reach par r r ↔ parent par r = r :=
  ⟨fun h => h.isRoot, fun h => Reach.root h⟩

/-! ### number of roots -/

/-- number of self-parent indices `< par.length` -/
def numRoots (par : List Nat) : Nat :=
  ((List.range par.length).filter (fun i => decide (parent par i = i))).length

theorem numRoots_eq_countP (par : List Nat) :
    numRoots par = (List.range par.length).countP (fun i => decide (parent par i = i)) := by
  rw [numRoots, List.countP_eq_length_filter]

theorem numRoots_le (par : List Nat) : numRoots par ≤ par.length := by
  have := List.length_filter_le (fun i => decide (parent par i = i)) (List.range par.length)
  simpa [numRoots] using this

theorem countP_range_congr {p q : Nat → Bool} : ∀ n : Nat, (∀ i, i < n → p i = q i) →
    (List.range n).countP p = (List.range n).countP q := by
  intro n h
  apply List.countP_congr
  intro i hi
  rw [h i (List.mem_range.mp hi)]

theorem countP_range_flip {p q : Nat → Bool} (a : Nat) : ∀ n : Nat, a < n → p a = true → q a = false →
    (∀ i, i < n → i ≠ a → q i = p i) →
    (List.range n).countP q + 1 = (List.range n).countP p := by
  intro n
  induction n with
  | zero => intro h; omega
  | succ n ih =>
    intro han hpa hqa hrest
    rw [List.range_succ, List.countP_append, List.countP_append]
    by_cases h : a = n
    · subst h
      have : (List.range a).countP q = (List.range a).countP p :=
        countP_range_congr a (fun i hi => hrest i (by omega) (by omega))
      simp [hpa, hqa, this]
    · have h1 := ih (by omega) hpa hqa (fun i hi hne => hrest i (by omega) hne)
      have h2 : q n = p n := hrest n (by omega) (fun hh => h hh.symm)
      simp only [List.countP_cons, List.countP_nil, h2]
      omega


/-! ### well-formed parent arrays -/

/-- in range, acyclic (strictly increasing rank along non-root parents), and the rank bound that
makes fuel `par.length` sufficient. -/
structure WF (par : List Nat) (rk : Nat → Nat) : Prop where
  inRange : ∀ i, i < par.length → parent par i < par.length
  rkInc : ∀ i, i < par.length → parent par i ≠ i → rk i < rk (parent par i)
  rkBound : ∀ i, i < par.length → rk i + numRoots par ≤ par.length

theorem WF.reach_aux {par : List Nat} {rk : Nat → Nat} (w : WF par rk) : ∀ k i, i < par.length →
    par.length ≤ k + rk i + numRoots par → ∃ r, r < par.length ∧ Reach par i r := by
  intro k
  induction k with
  | zero =>
    intro i hi hk
    by_cases hr : parent par i = i
    · exact ⟨i, hi, Reach.root hr⟩
    · have h1 := w.rkInc i hi hr
      have h2 := w.rkBound _ (w.inRange i hi)
      omega
  | succ k ih =>
    intro i hi hk
    by_cases hr : parent par i = i
    · exact ⟨i, hi, Reach.root hr⟩
    · have h1 := w.rkInc i hi hr
      obtain ⟨r, hr1, hr2⟩ := ih (parent par i) (w.inRange i hi) (by omega)
      exact ⟨r, hr1, Reach.step hr hr2⟩

theorem WF.reach_exists {par : List Nat} {rk : Nat → Nat} (w : WF par rk) {i : Nat}
    (hi : i < par.length) : ∃ r, r < par.length ∧ Reach par i r :=
  w.reach_aux par.length i hi (by omega)

theorem Reach.lt {par : List Nat} {rk : Nat → Nat} (w : WF par rk) {i r : Nat}
    (hi : i < par.length) (h : Reach par i r) : r < par.length := by
  obtain ⟨r', h1, h2⟩ := w.reach_exists hi
  rw [h.functional h2]; exact h1

/-- `par'` has the same length and the same root-reaching relation as `par`. -/
structure Equiv (par par' : List Nat) : Prop where
  len : par'.length = par.length
  reach : ∀ i r, Reach par' i r ↔ Reach par i r

theorem Equiv.refl (par : List Nat) : Equiv par par := ⟨rfl, fun _ _ => Iff.rfl⟩

theorem Equiv.trans {a b c : List Nat} (h1 : Equiv a b) (h2 : Equiv b c) : Equiv a c :=
  ⟨h2.len.trans h1.len, fun i r => (h2.reach i r).trans (h1.reach i r)⟩

theorem Equiv.symm {a b : List Nat} (h : Equiv a b) : Equiv b a :=
  ⟨h.len.symm, fun i r => (h.reach i r).symm⟩

theorem Equiv.root_iff {par par' : List Nat} (h : Equiv par par') (i : Nat) :
    parent par' i = i ↔ parent par i = i := by
  rw [← reach_root_iff, ← reach_root_iff]; exact h.reach i i

theorem Equiv.numRoots {par par' : List Nat} (h : Equiv par par') : numRoots par' = numRoots par := by
  rw [numRoots_eq_countP, numRoots_eq_countP, h.len]
  apply countP_range_congr
  intro i _
  have := h.root_iff i
  by_cases h1 : parent par i = i <;> simp [h1, this]

theorem Equiv.of_forward {par par' : List Nat} {rk : Nat → Nat} (w : WF par rk)
    (hl : par'.length = par.length) (hf : ∀ i r, Reach par i r → Reach par' i r) :
    Equiv par par' := by
  refine ⟨hl, fun i r => ⟨fun h => ?_, hf i r⟩⟩
  by_cases hi : i < par.length
  · obtain ⟨r0, _, h0⟩ := w.reach_exists hi
    have := (hf i r0 h0).functional h
    rw [← this]; exact h0
  · have h1 : parent par' i = i := parent_ge (by omega)
    have h2 : parent par i = i := parent_ge (by omega)
    rw [h.of_root h1]; exact Reach.root h2

/-! ### one step of path halving -/

theorem halve_forward {par : List Nat} {rk : Nat → Nat} (w : WF par rk) {p : Nat}
    (hp : parent par p ≠ p) {i r : Nat} (h : Reach par i r) :
    Reach (par.set p (parent par (parent par p))) i r := by
  have hpl : p < par.length := lt_of_parent_ne hp
  induction h with
  | root h =>
    rename_i r
    have hne : r ≠ p := fun e => hp (e ▸ h)
    refine Reach.root ?_
    rw [parent_set, if_neg (fun hh => hne hh.1)]; exact h
  | step hne hr ih =>
    rename_i i r
    by_cases hip : i = p
    · subst hip
      have hq : parent par i ≠ i := hne
      have hset : parent (par.set i (parent par (parent par i))) i = parent par (parent par i) := by
        rw [parent_set, if_pos ⟨rfl, hpl⟩]
      have hqset : parent (par.set i (parent par (parent par i))) (parent par i)
          = parent par (parent par i) := by
        rw [parent_set, if_neg (fun hh => hq hh.1)]
      have hgp : parent par (parent par i) ≠ i := by
        intro e
        have h1 := w.rkInc i hpl hne
        by_cases hqr : parent par (parent par i) = parent par i
        · exact hne (hqr ▸ e)
        · have h2 := w.rkInc _ (w.inRange i hpl) hqr
          rw [e] at h2; omega
      generalize par.set i (parent par (parent par i)) = par' at *
      refine Reach.step (by rw [hset]; exact hgp) ?_
      rw [hset]
      by_cases hqr : parent par (parent par i) = parent par i
      · rw [hqr]; exact ih
      · cases ih with
        | root hroot => rw [hqset] at hroot; exact absurd hroot hqr
        | step _ hr' => rw [hqset] at hr'; exact hr'
    · have hset : parent (par.set p (parent par (parent par p))) i = parent par i := by
        rw [parent_set, if_neg (fun hh => hip hh.1)]
      refine Reach.step (by rw [hset]; exact hne) ?_
      rw [hset]; exact ih

theorem halve_equiv {par : List Nat} {rk : Nat → Nat} (w : WF par rk) {p : Nat}
    (hp : parent par p ≠ p) : Equiv par (par.set p (parent par (parent par p))) :=
  Equiv.of_forward w (List.length_set ..) (fun _ _ h => halve_forward w hp h)

theorem halve_wf {par : List Nat} {rk : Nat → Nat} (w : WF par rk) {p : Nat}
    (hp : parent par p ≠ p) : WF (par.set p (parent par (parent par p))) rk := by
  have hpl : p < par.length := lt_of_parent_ne hp
  have he := halve_equiv w hp
  have hlen : (par.set p (parent par (parent par p))).length = par.length := List.length_set ..
  refine ⟨?_, ?_, ?_⟩
  · intro i hi
    rw [hlen] at hi ⊢
    rw [parent_set]
    split
    · exact w.inRange _ (w.inRange p hpl)
    · exact w.inRange i hi
  · intro i hi
    rw [hlen] at hi
    rw [parent_set]
    split
    · rename_i hh
      obtain ⟨rfl, _⟩ := hh
      intro _
      have h1 := w.rkInc i hpl hp
      by_cases hqr : parent par (parent par i) = parent par i
      · rw [hqr]; exact h1
      · have h2 := w.rkInc _ (w.inRange i hpl) hqr
        omega
    · exact w.rkInc i hi
  · intro i hi
    rw [hlen] at hi ⊢
    rw [he.numRoots]
    exact w.rkBound i hi


/-! ### the `find` loop -/

theorem findLoop_zero (par : List Nat) (p : Nat) : findLoop par 0 p = (par, p) := rfl

theorem findLoop_succ_root {par : List Nat} {p : Nat} (fuel : Nat) (h : parent par p = p) :
    findLoop par (fuel + 1) p = (par, p) := by
  simp [findLoop, h]

theorem findLoop_succ_step {par : List Nat} {p : Nat} (fuel : Nat) (h : parent par p ≠ p) :
    findLoop par (fuel + 1) p
      = findLoop (par.set p (parent par (parent par p))) fuel (parent par p) := by
  simp [findLoop, h]

theorem findLoop_spec {rk : Nat → Nat} : ∀ (fuel : Nat) (par : List Nat) (p : Nat), WF par rk →
    p < par.length → par.length ≤ fuel + rk p + numRoots par →
    WF (findLoop par fuel p).1 rk ∧ Equiv par (findLoop par fuel p).1 ∧
      Reach par p (findLoop par fuel p).2 := by
  intro fuel
  induction fuel with
  | zero =>
    intro par p w hp hb
    rw [findLoop_zero]
    refine ⟨w, Equiv.refl _, Reach.root ?_⟩
    apply Classical.byContradiction
    intro hr
    have h1 := w.rkInc p hp hr
    have h2 := w.rkBound _ (w.inRange p hp)
    omega
  | succ fuel ih =>
    intro par p w hp hb
    by_cases hr : parent par p = p
    · rw [findLoop_succ_root fuel hr]
      exact ⟨w, Equiv.refl _, Reach.root hr⟩
    · rw [findLoop_succ_step fuel hr]
      have he := halve_equiv w hr
      have hw := halve_wf w hr
      have h1 := w.rkInc p hp hr
      have hq := w.inRange p hp
      obtain ⟨a, b, c⟩ := ih _ (parent par p) hw (by rw [he.len]; exact hq)
        (by rw [he.len, he.numRoots]; omega)
      refine ⟨a, he.trans b, Reach.step hr ?_⟩
      exact (he.reach _ _).mp c


/-! ### states -/

/-- Representation invariant of the union-find state. -/
structure Inv (s : State) : Prop where
  parLen : s.par.length = s.elts.length
  sizLen : s.siz.length = s.elts.length
  nextEq : s.next = s.elts.length
  nEltsEq : s.nElts = s.elts.length
  nodup : s.elts.Nodup
  wf : ∃ rk, WF s.par rk
  nCompsEq : s.nComps = numRoots s.par

/-- `s'` differs from `s` only by a root-preserving rearrangement of `par`. -/
structure PEquiv (s s' : State) : Prop where
  elts : s'.elts = s.elts
  siz : s'.siz = s.siz
  next : s'.next = s.next
  nElts : s'.nElts = s.nElts
  nComps : s'.nComps = s.nComps
  par : Equiv s.par s'.par

theorem PEquiv.refl (s : State) : PEquiv s s := ⟨rfl, rfl, rfl, rfl, rfl, Equiv.refl _⟩

theorem PEquiv.trans {a b c : State} (h1 : PEquiv a b) (h2 : PEquiv b c) : PEquiv a c :=
  ⟨h2.elts.trans h1.elts, h2.siz.trans h1.siz, h2.next.trans h1.next, h2.nElts.trans h1.nElts,
    h2.nComps.trans h1.nComps, h1.par.trans h2.par⟩

theorem mem_iff (s : State) (x : Nat) : s.mem x = true ↔ x ∈ s.elts := by
  simp [State.mem]

theorem find_of_mem {s : State} {x : Nat} (h : x ∈ s.elts) :
    find s x = some ({ s with par := (findLoop s.par s.par.length (s.elts.idxOf x)).1 },
      (findLoop s.par s.par.length (s.elts.idxOf x)).2) := by
  have := (mem_iff s x).mpr h
  simp [find, this]

theorem find_of_not_mem {s : State} {x : Nat} (h : x ∉ s.elts) : find s x = none := by
  have : s.mem x = false := by
    cases hm : s.mem x
    · rfl
    · exact absurd ((mem_iff s x).mp hm) h
  simp [find, this]

theorem find_eq_none_iff (s : State) (x : Nat) : find s x = none ↔ x ∉ s.elts := by
  constructor
  · intro h hx
    rw [find_of_mem hx] at h
    cases h
  · exact find_of_not_mem

theorem idxOf_lt {s : State} {x : Nat} (h : x ∈ s.elts) : s.elts.idxOf x < s.elts.length :=
  List.idxOf_lt_length_iff.mpr h

theorem find_spec {s : State} (inv : Inv s) {x : Nat} (hx : x ∈ s.elts) :
    ∃ s' r, find s x = some (s', r) ∧ Inv s' ∧ PEquiv s s' ∧
      Reach s.par (s.elts.idxOf x) r ∧ r < s.elts.length := by
  obtain ⟨rk, w⟩ := inv.wf
  have hi : s.elts.idxOf x < s.par.length := by rw [inv.parLen]; exact idxOf_lt hx
  obtain ⟨a, b, c⟩ := findLoop_spec (rk := rk) s.par.length s.par _ w hi (by omega)
  refine ⟨_, _, find_of_mem hx, ?_, ?_, c, ?_⟩
  · exact ⟨by simp only []; rw [b.len]; exact inv.parLen, inv.sizLen, inv.nextEq, inv.nEltsEq, inv.nodup,
      ⟨rk, a⟩, by simp only []; rw [b.numRoots]; exact inv.nCompsEq⟩
  · exact ⟨rfl, rfl, rfl, rfl, rfl, b⟩
  · rw [← inv.parLen]; exact c.lt w hi

/-- `rootOf` is the root reached from `i`. -/
theorem rootOf_reach {s : State} (inv : Inv s) {i : Nat} (hi : i < s.elts.length) :
    Reach s.par i (rootOf s i) := by
  obtain ⟨rk, w⟩ := inv.wf
  exact (findLoop_spec (rk := rk) s.par.length s.par i w (by rw [inv.parLen]; exact hi) (by omega)).2.2

theorem rootOf_eq_iff {s : State} (inv : Inv s) {i : Nat} (hi : i < s.elts.length) (r : Nat) :
    rootOf s i = r ↔ Reach s.par i r :=
  ⟨fun h => h ▸ rootOf_reach inv hi, fun h => (rootOf_reach inv hi).functional h⟩

theorem rootOf_lt {s : State} (inv : Inv s) {i : Nat} (hi : i < s.elts.length) :
    rootOf s i < s.elts.length := by
  obtain ⟨rk, w⟩ := inv.wf
  rw [← inv.parLen]
  exact (rootOf_reach inv hi).lt w (by rw [inv.parLen]; exact hi)

theorem rootOf_isRoot {s : State} (inv : Inv s) {i : Nat} (hi : i < s.elts.length) :
    parent s.par (rootOf s i) = rootOf s i := (rootOf_reach inv hi).isRoot

theorem rootOf_of_root {s : State} (inv : Inv s) {r : Nat} (hr : r < s.elts.length)
    (h : parent s.par r = r) : rootOf s r = r :=
  (rootOf_eq_iff inv hr r).mpr (Reach.root h)

theorem PEquiv.rootOf {s s' : State} (h : PEquiv s s') (inv : Inv s) (inv' : Inv s') {i : Nat}
    (hi : i < s.elts.length) : rootOf s' i = rootOf s i := by
  rw [rootOf_eq_iff inv' (by rw [h.elts]; exact hi), h.par.reach]
  exact rootOf_reach inv hi


/-! ### `connected` -/

theorem connected_spec {s : State} (inv : Inv s) {x y : Nat} (hx : x ∈ s.elts) (hy : y ∈ s.elts) :
    ∃ s' b, connected s x y = some (s', b) ∧ Inv s' ∧ PEquiv s s' ∧
      (b = true ↔ rootOf s (s.elts.idxOf x) = rootOf s (s.elts.idxOf y)) := by
  obtain ⟨s1, rx, h1, inv1, pe1, r1, _⟩ := find_spec inv hx
  have hy1 : y ∈ s1.elts := by rw [pe1.elts]; exact hy
  obtain ⟨s2, ry, h2, inv2, pe2, r2, _⟩ := find_spec inv1 hy1
  refine ⟨s2, rx == ry, ?_, inv2, pe1.trans pe2, ?_⟩
  · simp [connected, h1, h2]
  · rw [pe1.elts, pe1.par.reach] at r2
    have e1 := (rootOf_eq_iff inv (idxOf_lt hx) rx).mpr r1
    have e2 := (rootOf_eq_iff inv (idxOf_lt hy) ry).mpr r2
    rw [e1, e2]
    simp

theorem connected_eq_none_iff (s : State) (x y : Nat) :
    connected s x y = none ↔ x ∉ s.elts ∨ y ∉ s.elts := by
  by_cases hx : x ∈ s.elts
  · obtain ⟨s1, r1, h1, e1⟩ : ∃ s1 r1, find s x = some (s1, r1) ∧ s1.elts = s.elts :=
      ⟨_, _, find_of_mem hx, rfl⟩
    by_cases hy : y ∈ s.elts
    · have h2 := find_of_mem (s := s1) (x := y) (by rw [e1]; exact hy)
      simp [connected, h1, h2, hx, hy]
    · have h2 := find_of_not_mem (s := s1) (x := y) (by rw [e1]; exact hy)
      simp [connected, h1, h2, hy]
  · rw [connected, find_of_not_mem hx]
    simp [hx]

/-! ### `add` -/

theorem add_of_mem {s : State} {x : Nat} (h : x ∈ s.elts) : add s x = s := by
  have := (mem_iff s x).mpr h
  simp [add, this]

theorem add_of_not_mem {s : State} {x : Nat} (h : x ∉ s.elts) : add s x =
    { elts := s.elts ++ [x], par := s.par ++ [s.next], siz := s.siz ++ [1],
      next := s.next + 1, nElts := s.nElts + 1, nComps := s.nComps + 1 } := by
  have : s.mem x = false := by
    cases hm : s.mem x
    · rfl
    · exact absurd ((mem_iff s x).mp hm) h
  simp [add, this]

theorem mem_add_elts (s : State) (x z : Nat) : z ∈ (add s x).elts ↔ z ∈ s.elts ∨ z = x := by
  by_cases h : x ∈ s.elts
  · rw [add_of_mem h]
    constructor
    · exact Or.inl
    · rintro (h1 | rfl)
      · exact h1
      · exact h
  · rw [add_of_not_mem h]; simp

theorem numRoots_append_self (par : List Nat) :
    numRoots (par ++ [par.length]) = numRoots par + 1 := by
  rw [numRoots_eq_countP, numRoots_eq_countP]
  have : (par ++ [par.length]).length = par.length + 1 := by simp
  rw [this, List.range_succ, List.countP_append]
  have h1 : parent (par ++ [par.length]) par.length = par.length := by
    rw [parent_append_self]; exact parent_ge (Nat.le_refl _)
  have h2 : (List.range par.length).countP (fun i => decide (parent (par ++ [par.length]) i = i))
      = (List.range par.length).countP (fun i => decide (parent par i = i)) := by
    apply countP_range_congr
    intro i _
    rw [parent_append_self]
  rw [h2]
  simp [h1]

theorem wf_append_self {par : List Nat} {rk : Nat → Nat} (w : WF par rk) :
    WF (par ++ [par.length]) (fun i => if i = par.length then 0 else rk i) := by
  have hlen : (par ++ [par.length]).length = par.length + 1 := by simp
  refine ⟨?_, ?_, ?_⟩
  · intro i hi
    rw [parent_append_self, hlen] at *
    by_cases h : i < par.length
    · have := w.inRange i h; omega
    · rw [parent_ge (by omega)]; exact hi
  · intro i hi hne
    rw [parent_append_self] at *
    have hil : i < par.length := lt_of_parent_ne hne
    have h1 := w.inRange i hil
    have h2 := w.rkInc i hil hne
    show (if i = par.length then 0 else rk i) < (if parent par i = par.length then 0 else rk (parent par i))
    rw [if_neg (by omega), if_neg (by omega)]
    exact h2
  · intro i hi
    rw [numRoots_append_self, hlen] at *
    show (if i = par.length then 0 else rk i) + (numRoots par + 1) ≤ par.length + 1
    split
    · have := numRoots_le par; omega
    · have := w.rkBound i (by omega); omega

theorem inv_add {s : State} (inv : Inv s) (x : Nat) : Inv (add s x) := by
  by_cases h : x ∈ s.elts
  · rw [add_of_mem h]; exact inv
  · rw [add_of_not_mem h]
    obtain ⟨rk, w⟩ := inv.wf
    have hn : s.next = s.par.length := by rw [inv.nextEq, inv.parLen]
    refine ⟨?_, ?_, ?_, ?_, ?_, ?_, ?_⟩
    · simp [inv.parLen]
    · simp [inv.sizLen]
    · simp [inv.nextEq]
    · simp [inv.nEltsEq]
    · simp only []
      rw [List.nodup_append]
      refine ⟨inv.nodup, by simp, ?_⟩
      intro a ha b hb
      simp at hb
      subst hb
      intro e; subst e; exact h ha
    · simp only []
      rw [hn]
      exact ⟨_, wf_append_self w⟩
    · simp only []
      rw [hn, numRoots_append_self, inv.nCompsEq]

/-- `add` does not change the root of old indices; a new element is its own root. -/
theorem reach_add {s : State} (inv : Inv s) (x : Nat) (i r : Nat) :
    Reach (add s x).par i r ↔ Reach s.par i r := by
  by_cases h : x ∈ s.elts
  · rw [add_of_mem h]
  · rw [add_of_not_mem h]
    have hn : s.next = s.par.length := by rw [inv.nextEq, inv.parLen]
    simp only []
    rw [hn]
    exact ⟨Reach.congr (fun i => (parent_append_self s.par i).symm),
      Reach.congr (fun i => parent_append_self s.par i)⟩

theorem rootOf_add_old {s : State} (inv : Inv s) (x : Nat) {i : Nat} (hi : i < s.elts.length) :
    rootOf (add s x) i = rootOf s i := by
  have hi' : i < (add s x).elts.length := by
    by_cases h : x ∈ s.elts
    · rw [add_of_mem h]; exact hi
    · rw [add_of_not_mem h]; simp; omega
  rw [rootOf_eq_iff (inv_add inv x) hi', reach_add inv]
  exact rootOf_reach inv hi

theorem rootOf_add_new {s : State} (inv : Inv s) {x : Nat} (h : x ∉ s.elts) :
    rootOf (add s x) s.elts.length = s.elts.length := by
  have hi' : s.elts.length < (add s x).elts.length := by
    rw [add_of_not_mem h]; simp
  rw [rootOf_eq_iff (inv_add inv x) hi', reach_add inv]
  exact Reach.root (parent_ge (by rw [inv.parLen]; exact Nat.le_refl _))

theorem idxOf_add_old {s : State} (x : Nat) {z : Nat} (hz : z ∈ s.elts) :
    (add s x).elts.idxOf z = s.elts.idxOf z := by
  by_cases h : x ∈ s.elts
  · rw [add_of_mem h]
  · rw [add_of_not_mem h]
    simp only []
    rw [List.idxOf_append, if_pos hz]

theorem idxOf_add_new {s : State} {x : Nat} (h : x ∉ s.elts) :
    (add s x).elts.idxOf x = s.elts.length := by
  rw [add_of_not_mem h]
  simp only []
  rw [List.idxOf_append, if_neg h]
  simp


/-! ### linking a root under another root -/

theorem WF.reach_exists' {par : List Nat} {rk : Nat → Nat} (w : WF par rk) (i : Nat) :
    ∃ r, Reach par i r := by
  by_cases hi : i < par.length
  · obtain ⟨r, _, h⟩ := w.reach_exists hi; exact ⟨r, h⟩
  · exact ⟨i, Reach.root (parent_ge (by omega))⟩

theorem link_forward {par : List Nat} {a b : Nat} (ha : parent par a = a) (hb : parent par b = b) (hab : a ≠ b)
    (hal : a < par.length) {i r : Nat} (h : Reach par i r) :
    Reach (par.set a b) i (if r = a then b else r) := by
  have hpb : parent (par.set a b) b = b := by
    rw [parent_set, if_neg (fun hh => hab hh.1.symm)]; exact hb
  induction h with
  | @root r h =>
    split
    · rename_i e
      subst e
      have hpa : parent (par.set r b) r = b := by rw [parent_set, if_pos ⟨rfl, hal⟩]
      refine Reach.step (by rw [hpa]; exact fun e => hab e.symm) ?_
      rw [hpa]; exact Reach.root hpb
    · rename_i e
      refine Reach.root ?_
      rw [parent_set, if_neg (fun hh => e hh.1)]; exact h
  | @step i r hne _ ih =>
    by_cases hia : i = a
    · subst hia; exact absurd ha hne
    · have hset : parent (par.set a b) i = parent par i := by
        rw [parent_set, if_neg (fun hh => hia hh.1)]
      refine Reach.step (by rw [hset]; exact hne) ?_
      rw [hset]; exact ih


theorem link_reach {par : List Nat} {rk : Nat → Nat} (w : WF par rk) {a b : Nat}
    (ha : parent par a = a) (hb : parent par b = b) (hab : a ≠ b) (hal : a < par.length)
    (i r : Nat) :
    Reach (par.set a b) i r ↔ ∃ r0, Reach par i r0 ∧ r = if r0 = a then b else r0 := by
  constructor
  · intro h
    obtain ⟨r0, h0⟩ := w.reach_exists' i
    exact ⟨r0, h0, h.functional (link_forward ha hb hab hal h0)⟩
  · rintro ⟨r0, h0, rfl⟩
    exact link_forward ha hb hab hal h0

theorem numRoots_link {par : List Nat} {a b : Nat} (ha : parent par a = a) (hab : a ≠ b)
    (hal : a < par.length) : numRoots (par.set a b) + 1 = numRoots par := by
  rw [numRoots_eq_countP, numRoots_eq_countP, List.length_set]
  apply countP_range_flip a _ hal
  · simp [ha]
  · rw [parent_set, if_pos ⟨rfl, hal⟩]; simp; exact fun e => hab e.symm
  · intro i _ hne
    rw [parent_set, if_neg (fun hh => hne hh.1)]

theorem link_wf {par : List Nat} {rk : Nat → Nat} (w : WF par rk) {a b : Nat}
    (ha : parent par a = a) (hb : parent par b = b) (hab : a ≠ b) (hal : a < par.length)
    (hbl : b < par.length) :
    WF (par.set a b) (fun i => if i = b then max (rk b) (rk a + 1) else rk i) := by
  have hnr := numRoots_link ha hab hal
  refine ⟨?_, ?_, ?_⟩
  · intro i hi
    rw [List.length_set] at *
    rw [parent_set]
    split
    · exact hbl
    · exact w.inRange i hi
  · intro i hi
    rw [List.length_set] at hi
    rw [parent_set]
    split
    · rename_i hh
      obtain ⟨rfl, _⟩ := hh
      intro _
      show (if i = b then max (rk b) (rk i + 1) else rk i) < (if b = b then max (rk b) (rk i + 1) else rk b)
      rw [if_neg hab, if_pos rfl]
      omega
    · rename_i hh
      intro hne
      have h1 := w.rkInc i hi hne
      have hib : i ≠ b := fun e => hne (e ▸ hb)
      show (if i = b then max (rk b) (rk a + 1) else rk i)
        < (if parent par i = b then max (rk b) (rk a + 1) else rk (parent par i))
      rw [if_neg hib]
      split
      · rename_i e; rw [e] at h1; omega
      · exact h1
  · intro i hi
    rw [List.length_set] at *
    have h1 := w.rkBound i hi
    have h2 := w.rkBound a hal
    have h3 := w.rkBound b hbl
    show (if i = b then max (rk b) (rk a + 1) else rk i) + numRoots (par.set a b) ≤ par.length
    split <;> omega


theorem inv_link {s : State} (inv : Inv s) {a b : Nat} (ha : parent s.par a = a)
    (hb : parent s.par b = b) (hab : a ≠ b) (hal : a < s.elts.length) (hbl : b < s.elts.length)
    (siz' : List Nat) (hs : siz'.length = s.siz.length) :
    Inv { s with par := s.par.set a b, siz := siz', nComps := s.nComps - 1 } := by
  obtain ⟨rk, w⟩ := inv.wf
  rw [← inv.parLen] at hal hbl
  have hnr := numRoots_link ha hab hal
  refine ⟨?_, ?_, inv.nextEq, inv.nEltsEq, inv.nodup, ⟨_, link_wf w ha hb hab hal hbl⟩, ?_⟩
  · show (s.par.set a b).length = s.elts.length
    rw [List.length_set]; exact inv.parLen
  · show siz'.length = s.elts.length
    rw [hs]; exact inv.sizLen
  · show s.nComps - 1 = numRoots (s.par.set a b)
    rw [inv.nCompsEq]; omega

theorem rootOf_link {s : State} (inv : Inv s) {a b : Nat} (ha : parent s.par a = a)
    (hb : parent s.par b = b) (hab : a ≠ b) (hal : a < s.elts.length) (hbl : b < s.elts.length)
    (siz' : List Nat) (hs : siz'.length = s.siz.length) {i : Nat} (hi : i < s.elts.length) :
    rootOf { s with par := s.par.set a b, siz := siz', nComps := s.nComps - 1 } i
      = if rootOf s i = a then b else rootOf s i := by
  obtain ⟨rk, w⟩ := inv.wf
  rw [rootOf_eq_iff (inv_link inv ha hb hab hal hbl siz' hs) hi]
  show Reach (s.par.set a b) i _
  rw [link_reach w ha hb hab (by rw [inv.parLen]; exact hal)]
  exact ⟨_, rootOf_reach inv hi, rfl⟩

/-! ### `union` -/

/-- index of the root of the class of element `x` (pure observer built on `rootOf`) -/
def classOf (s : State) (x : Nat) : Nat := rootOf s (s.elts.idxOf x)

theorem classOf_lt {s : State} (inv : Inv s) {x : Nat} (hx : x ∈ s.elts) :
    classOf s x < s.elts.length := rootOf_lt inv (idxOf_lt hx)


/-- `union` unfolded: two adds, two finds (root-preserving), then possibly one link. -/
theorem union_unfold {s : State} (inv : Inv s) (x y : Nat) :
    ∃ s3, Inv s3 ∧ PEquiv (add (add s x) y) s3 ∧
      union s x y =
        (if classOf (add (add s x) y) x = classOf (add (add s x) y) y then s3
        else if s3.siz.getD (classOf (add (add s x) y) x) 0 < s3.siz.getD (classOf (add (add s x) y) y) 0 then
          { s3 with par := s3.par.set (classOf (add (add s x) y) x) (classOf (add (add s x) y) y),
                    siz := s3.siz.set (classOf (add (add s x) y) y)
                      (s3.siz.getD (classOf (add (add s x) y) y) 0 + s3.siz.getD (classOf (add (add s x) y) x) 0),
                    nComps := s3.nComps - 1 }
        else
          { s3 with par := s3.par.set (classOf (add (add s x) y) y) (classOf (add (add s x) y) x),
                    siz := s3.siz.set (classOf (add (add s x) y) x)
                      (s3.siz.getD (classOf (add (add s x) y) x) 0 + s3.siz.getD (classOf (add (add s x) y) y) 0),
                    nComps := s3.nComps - 1 }) := by
  have inv1 : Inv (add (add s x) y) := inv_add (inv_add inv x) y
  have hx1 : x ∈ (add (add s x) y).elts := by
    rw [mem_add_elts, mem_add_elts]; exact Or.inl (Or.inr rfl)
  have hy1 : y ∈ (add (add s x) y).elts := by
    rw [mem_add_elts]; exact Or.inr rfl
  generalize hs1 : add (add s x) y = s1 at *
  obtain ⟨s2, xr, h1, inv2, pe12, r1, hxr⟩ := find_spec inv1 hx1
  have hy2 : y ∈ s2.elts := by rw [pe12.elts]; exact hy1
  obtain ⟨s3, yr, h2, inv3, pe23, r2, hyr⟩ := find_spec inv2 hy2
  rw [pe12.elts, pe12.par.reach] at r2
  have exr : classOf s1 x = xr := (rootOf_eq_iff inv1 (idxOf_lt hx1) xr).mpr r1
  have eyr : classOf s1 y = yr := (rootOf_eq_iff inv1 (idxOf_lt hy1) yr).mpr r2
  refine ⟨s3, inv3, pe12.trans pe23, ?_⟩
  rw [exr, eyr]
  simp only [union, hs1, h1, h2]

theorem union_spec {s : State} (inv : Inv s) (x y : Nat) :
    Inv (union s x y) ∧ (union s x y).elts = (add (add s x) y).elts ∧
    ∃ a b,
      ((a = classOf (add (add s x) y) x ∧ b = classOf (add (add s x) y) y) ∨
       (a = classOf (add (add s x) y) y ∧ b = classOf (add (add s x) y) x)) ∧
      ∀ i, i < (add (add s x) y).elts.length →
        rootOf (union s x y) i
          = if rootOf (add (add s x) y) i = a then b else rootOf (add (add s x) y) i := by
  have inv1 : Inv (add (add s x) y) := inv_add (inv_add inv x) y
  have hx1 : x ∈ (add (add s x) y).elts := by
    rw [mem_add_elts, mem_add_elts]; exact Or.inl (Or.inr rfl)
  have hy1 : y ∈ (add (add s x) y).elts := by
    rw [mem_add_elts]; exact Or.inr rfl
  obtain ⟨s3, inv3, pe13, hu⟩ := union_unfold inv x y
  generalize add (add s x) y = s1 at *
  have hxr := classOf_lt inv1 hx1
  have hyr := classOf_lt inv1 hy1
  have hxroot : parent s3.par (classOf s1 x) = classOf s1 x :=
    (pe13.par.root_iff _).mpr (rootOf_isRoot inv1 (idxOf_lt hx1))
  have hyroot : parent s3.par (classOf s1 y) = classOf s1 y :=
    (pe13.par.root_iff _).mpr (rootOf_isRoot inv1 (idxOf_lt hy1))
  generalize classOf s1 x = xr at *
  generalize classOf s1 y = yr at *
  have hrt : ∀ i, i < s1.elts.length → rootOf s3 i = rootOf s1 i :=
    fun i hi => pe13.rootOf inv1 inv3 hi
  have hl3 : s3.elts.length = s1.elts.length := by rw [pe13.elts]
  rw [hu]
  by_cases hxy : xr = yr
  · rw [if_pos hxy]
    refine ⟨inv3, pe13.elts, xr, yr, Or.inl ⟨rfl, rfl⟩, ?_⟩
    intro i hi
    rw [hrt i hi, ← hxy]
    split
    · rename_i e; exact e
    · rfl
  · rw [if_neg hxy]
    split
    · refine ⟨inv_link inv3 hxroot hyroot hxy (by omega) (by omega) _ (List.length_set ..),
        pe13.elts, xr, yr, Or.inl ⟨rfl, rfl⟩, ?_⟩
      intro i hi
      rw [rootOf_link inv3 hxroot hyroot hxy (by omega) (by omega) _ (List.length_set ..) (by omega),
        hrt i hi]
    · refine ⟨inv_link inv3 hyroot hxroot (fun e => hxy e.symm) (by omega) (by omega) _
          (List.length_set ..), pe13.elts, yr, xr, Or.inr ⟨rfl, rfl⟩, ?_⟩
      intro i hi
      rw [rootOf_link inv3 hyroot hxroot (fun e => hxy e.symm) (by omega) (by omega) _
        (List.length_set ..) (by omega), hrt i hi]

/-! ### `rootsList` and `component` -/

/-- the fold step of `rootsList` -/
def rootsStep (acc : State × List Nat) (e : Nat) : State × List Nat :=
  match find acc.1 e with
  | none => acc
  | some (s', r) => (s', acc.2 ++ [r])

theorem rootsList_eq (s : State) : rootsList s = s.elts.foldl rootsStep (s, []) := rfl

theorem rootsFold_spec {s : State} (inv : Inv s) : ∀ (l : List Nat) (acc : State × List Nat),
    Inv acc.1 → PEquiv s acc.1 → (∀ e, e ∈ l → e ∈ s.elts) →
    Inv (l.foldl rootsStep acc).1 ∧ PEquiv s (l.foldl rootsStep acc).1 ∧
      (l.foldl rootsStep acc).2 = acc.2 ++ l.map (fun e => rootOf s (s.elts.idxOf e)) := by
  intro l
  induction l with
  | nil => intro acc ia pe _; exact ⟨ia, pe, by simp⟩
  | cons e l ih =>
    intro acc ia pe hmem
    have he : e ∈ s.elts := hmem e (List.mem_cons_self ..)
    have he' : e ∈ acc.1.elts := by rw [pe.elts]; exact he
    obtain ⟨s', r, hf, inv', pe', hr, _⟩ := find_spec ia he'
    rw [pe.elts, pe.par.reach] at hr
    have er := (rootOf_eq_iff inv (idxOf_lt he) r).mpr hr
    have hstep : rootsStep acc e = (s', acc.2 ++ [rootOf s (s.elts.idxOf e)]) := by
      rw [rootsStep, hf, er]
    rw [List.foldl_cons, hstep]
    obtain ⟨a, b, c⟩ := ih (s', acc.2 ++ [rootOf s (s.elts.idxOf e)]) inv' (pe.trans pe')
      (fun z hz => hmem z (List.mem_cons_of_mem _ hz))
    refine ⟨a, b, ?_⟩
    rw [c]; simp

theorem rootsList_spec {s : State} (inv : Inv s) :
    Inv (rootsList s).1 ∧ PEquiv s (rootsList s).1 ∧
      (rootsList s).2 = s.elts.map (fun e => rootOf s (s.elts.idxOf e)) := by
  rw [rootsList_eq]
  have := rootsFold_spec inv s.elts (s, []) inv (PEquiv.refl s) (fun _ h => h)
  simpa using this

theorem zip_map_filterMap (g : Nat → Nat) (rx : Nat) : ∀ l : List Nat,
    (l.zip (l.map g)).filterMap (fun (e, r) => if r = rx then some e else none)
      = l.filter (fun e => decide (g e = rx)) := by
  intro l
  induction l with
  | nil => rfl
  | cons a l ih =>
    rw [List.map_cons, List.zip_cons_cons, List.filterMap_cons, List.filter_cons, ih]
    by_cases h : g a = rx <;> simp [h]

theorem component_of_not_mem {s : State} {x : Nat} (h : x ∉ s.elts) : component s x = none := by
  have : s.mem x = false := by
    cases hm : s.mem x
    · rfl
    · exact absurd ((mem_iff s x).mp hm) h
  simp [component, this]

theorem compFold_spec {s : State} (inv : Inv s) (root : Nat) : ∀ (l : List Nat) (acc : State × List Nat),
    Inv acc.1 → PEquiv s acc.1 → (∀ e, e ∈ l → e ∈ s.elts) →
    Inv (l.foldl (compStep root) acc).1 ∧ PEquiv s (l.foldl (compStep root) acc).1 ∧
      (l.foldl (compStep root) acc).2
        = acc.2 ++ l.filter (fun e => decide (rootOf s (s.elts.idxOf e) = root)) := by
  intro l
  induction l with
  | nil => intro acc ia pe _; exact ⟨ia, pe, by simp⟩
  | cons e l ih =>
    intro acc ia pe hmem
    have he : e ∈ s.elts := hmem e (List.mem_cons_self ..)
    have he' : e ∈ acc.1.elts := by rw [pe.elts]; exact he
    obtain ⟨s', r, hf, inv', pe', hr, _⟩ := find_spec ia he'
    rw [pe.elts, pe.par.reach] at hr
    have er := (rootOf_eq_iff inv (idxOf_lt he) r).mpr hr
    rw [List.foldl_cons]
    by_cases hroot : r = root
    · have hstep : compStep root acc e = (s', acc.2 ++ [e]) := by
        rw [compStep, hf]; simp [hroot]
      rw [hstep]
      obtain ⟨a, b, c⟩ := ih (s', acc.2 ++ [e]) inv' (pe.trans pe')
        (fun z hz => hmem z (List.mem_cons_of_mem _ hz))
      refine ⟨a, b, ?_⟩
      rw [c, List.filter_cons]
      have : decide (rootOf s (s.elts.idxOf e) = root) = true := by rw [er, hroot]; simp
      rw [this]; simp
    · have hstep : compStep root acc e = (s', acc.2) := by
        rw [compStep, hf]; simp [hroot]
      rw [hstep]
      obtain ⟨a, b, c⟩ := ih (s', acc.2) inv' (pe.trans pe')
        (fun z hz => hmem z (List.mem_cons_of_mem _ hz))
      refine ⟨a, b, ?_⟩
      rw [c, List.filter_cons]
      have : decide (rootOf s (s.elts.idxOf e) = root) = false := by rw [er]; simp [hroot]
      rw [this]; simp

theorem component_spec' {s : State} (inv : Inv s) {x : Nat} (hx : x ∈ s.elts) :
    ∃ s', component s x = some (s', s.elts.filter (fun e =>
        decide (rootOf s (s.elts.idxOf e) = rootOf s (s.elts.idxOf x)))) ∧
      Inv s' ∧ PEquiv s s' := by
  obtain ⟨s1, rx, hf, inv1, pe1, hr, _⟩ := find_spec inv hx
  have er := (rootOf_eq_iff inv (idxOf_lt hx) rx).mpr hr
  obtain ⟨a, b, c⟩ := compFold_spec inv1 rx s1.elts (s1, []) inv1 (PEquiv.refl s1) (fun _ h => h)
  refine ⟨(s1.elts.foldl (compStep rx) (s1, [])).1, ?_, a, pe1.trans b⟩
  have hm := (mem_iff s x).mpr hx
  simp only [component, hm, if_true, hf]
  congr 1
  apply Prod.ext
  · rfl
  · simp only []
    rw [c, List.nil_append, pe1.elts, er]
    apply List.filter_congr
    intro e he
    rw [pe1.rootOf inv inv1 (idxOf_lt he)]

theorem find_elts {s s' : State} {x r : Nat} (h : find s x = some (s', r)) : s'.elts = s.elts := by
  by_cases hx : x ∈ s.elts
  · rw [find_of_mem hx] at h
    injection h with h
    injection h with h1 _
    rw [← h1]
  · rw [find_of_not_mem hx] at h; cases h

theorem rootsStep_elts (acc : State × List Nat) (e : Nat) : (rootsStep acc e).1.elts = acc.1.elts := by
  unfold rootsStep
  split
  · rfl
  · rename_i s' r h; exact find_elts h

theorem rootsFold_elts : ∀ (l : List Nat) (acc : State × List Nat),
    (l.foldl rootsStep acc).1.elts = acc.1.elts := by
  intro l
  induction l with
  | nil => intro acc; rfl
  | cons e l ih => intro acc; rw [List.foldl_cons, ih, rootsStep_elts]

theorem compStep_elts (root : Nat) (acc : State × List Nat) (e : Nat) :
    (compStep root acc e).1.elts = acc.1.elts := by
  unfold compStep
  split
  · rfl
  · rename_i s' r h
    split <;> exact find_elts h

theorem compFold_elts (root : Nat) : ∀ (l : List Nat) (acc : State × List Nat),
    (l.foldl (compStep root) acc).1.elts = acc.1.elts := by
  intro l
  induction l with
  | nil => intro acc; rfl
  | cons e l ih => intro acc; rw [List.foldl_cons, ih, compStep_elts]

theorem component_eq_none_iff (s : State) (x : Nat) : component s x = none ↔ x ∉ s.elts := by
  constructor
  · intro h hx
    have hm := (mem_iff s x).mpr hx
    simp only [component, hm, if_true] at h
    rw [find_of_mem hx] at h
    cases h
  · exact component_of_not_mem

/-! ### `step`: invariant and queries -/

/-- the three query operations -/
def Op.isQuery : Op → Bool
  | .find _ => true
  | .connected _ _ => true
  | .component _ => true
  | _ => false

theorem step_query {s : State} (inv : Inv s) {op : Op} (hq : op.isQuery = true) :
    Inv (step s op) ∧ PEquiv s (step s op) := by
  cases op with
  | add x => cases hq
  | union x y => cases hq
  | find x =>
    by_cases hx : x ∈ s.elts
    · obtain ⟨s', r, h, i', pe, _⟩ := find_spec inv hx
      simp only [step, h]; exact ⟨i', pe⟩
    · simp only [step, find_of_not_mem hx]; exact ⟨inv, PEquiv.refl s⟩
  | connected x y =>
    by_cases hxy : x ∈ s.elts ∧ y ∈ s.elts
    · obtain ⟨s', b, h, i', pe, _⟩ := connected_spec inv hxy.1 hxy.2
      simp only [step, h]; exact ⟨i', pe⟩
    · have : connected s x y = none := by
        rw [connected_eq_none_iff]
        by_cases hx : x ∈ s.elts
        · exact Or.inr (fun hy => hxy ⟨hx, hy⟩)
        · exact Or.inl hx
      simp only [step, this]; exact ⟨inv, PEquiv.refl s⟩
  | component x =>
    by_cases hx : x ∈ s.elts
    · obtain ⟨s', h, i', pe⟩ := component_spec' inv hx
      simp only [step, h]; exact ⟨i', pe⟩
    · simp only [step, component_of_not_mem hx]; exact ⟨inv, PEquiv.refl s⟩

theorem inv_init : Inv init := by
  refine ⟨rfl, rfl, rfl, rfl, List.nodup_nil, ⟨fun _ => 0, ?_⟩, rfl⟩
  refine ⟨?_, ?_, ?_⟩ <;> intro i hi <;> cases hi

theorem inv_step {s : State} (inv : Inv s) (op : Op) : Inv (step s op) := by
  cases op with
  | add x => exact inv_add inv x
  | union x y => exact (union_spec inv x y).1
  | find x => exact (step_query inv (op := .find x) rfl).1
  | connected x y => exact (step_query inv (op := .connected x y) rfl).1
  | component x => exact (step_query inv (op := .component x) rfl).1

theorem inv_foldl {s : State} (inv : Inv s) (ops : List Op) : Inv (ops.foldl step s) := by
  induction ops generalizing s with
  | nil => exact inv
  | cons op ops ih => exact ih (inv_step inv op)

theorem inv_run (ops : List Op) : Inv (run ops) := inv_foldl inv_init ops


/-! ### Specification side: the equivalence generated by the unions of a history -/

/-- reflexive-symmetric-transitive closure (core Lean has no `EqvGen`; same constructors as
Mathlib's `Relation.EqvGen`). -/
inductive EqvClosure (R : Nat → Nat → Prop) : Nat → Nat → Prop
  | rel {a b : Nat} : R a b → EqvClosure R a b
  | refl (a : Nat) : EqvClosure R a a
  | symm {a b : Nat} : EqvClosure R a b → EqvClosure R b a
  | trans {a b c : Nat} : EqvClosure R a b → EqvClosure R b c → EqvClosure R a c

theorem EqvClosure.mono {R R' : Nat → Nat → Prop} (h : ∀ a b, R a b → R' a b) {u v : Nat}
    (e : EqvClosure R u v) : EqvClosure R' u v := by
  induction e with
  | rel r => exact .rel (h _ _ r)
  | refl a => exact .refl a
  | symm _ ih => exact .symm ih
  | trans _ _ ih1 ih2 => exact .trans ih1 ih2

/-- Adding one generating pair `(x, y)`. -/
theorem EqvClosure.insert_pair {R R' : Nat → Nat → Prop} {x y : Nat}
    (hR : ∀ a b, R' a b ↔ R a b ∨ (a = x ∧ b = y)) (u v : Nat) :
    EqvClosure R' u v ↔ EqvClosure R u v ∨ (EqvClosure R u x ∧ EqvClosure R y v) ∨
      (EqvClosure R u y ∧ EqvClosure R x v) := by
  constructor
  · intro e
    induction e with
    | @rel a b r =>
      rcases (hR a b).mp r with r | ⟨rfl, rfl⟩
      · exact Or.inl (.rel r)
      · exact Or.inr (Or.inl ⟨.refl _, .refl _⟩)
    | refl a => exact Or.inl (.refl a)
    | symm _ ih =>
      rcases ih with h | ⟨h1, h2⟩ | ⟨h1, h2⟩
      · exact Or.inl h.symm
      · exact Or.inr (Or.inr ⟨h2.symm, h1.symm⟩)
      · exact Or.inr (Or.inl ⟨h2.symm, h1.symm⟩)
    | trans _ _ ih1 ih2 =>
      rcases ih1 with h | ⟨h1, h2⟩ | ⟨h1, h2⟩ <;> rcases ih2 with k | ⟨k1, k2⟩ | ⟨k1, k2⟩
      · exact Or.inl (h.trans k)
      · exact Or.inr (Or.inl ⟨h.trans k1, k2⟩)
      · exact Or.inr (Or.inr ⟨h.trans k1, k2⟩)
      · exact Or.inr (Or.inl ⟨h1, h2.trans k⟩)
      · exact Or.inr (Or.inl ⟨h1, k2⟩)
      · exact Or.inl (h1.trans k2)
      · exact Or.inr (Or.inr ⟨h1, h2.trans k⟩)
      · exact Or.inl (h1.trans k2)
      · exact Or.inr (Or.inr ⟨h1, k2⟩)
  · have hm : ∀ a b, EqvClosure R a b → EqvClosure R' a b :=
      fun a b e => e.mono (fun a b r => (hR a b).mpr (Or.inl r))
    have hxy : EqvClosure R' x y := .rel ((hR x y).mpr (Or.inr ⟨rfl, rfl⟩))
    rintro (h | ⟨h1, h2⟩ | ⟨h1, h2⟩)
    · exact hm _ _ h
    · exact ((hm _ _ h1).trans hxy).trans (hm _ _ h2)
    · exact ((hm _ _ h1).trans hxy.symm).trans (hm _ _ h2)

theorem EqvClosure.support {R : Nat → Nat → Prop} {P : Nat → Prop}
    (h : ∀ a b, R a b → P a ∧ P b) {u v : Nat} (e : EqvClosure R u v) : u = v ∨ (P u ∧ P v) := by
  induction e with
  | rel r => exact Or.inr (h _ _ r)
  | refl a => exact Or.inl rfl
  | symm _ ih =>
    rcases ih with rfl | ⟨h1, h2⟩
    · exact Or.inl rfl
    · exact Or.inr ⟨h2, h1⟩
  | trans _ _ ih1 ih2 =>
    rcases ih1 with rfl | ⟨h1, h2⟩
    · exact ih2
    · rcases ih2 with rfl | ⟨k1, k2⟩
      · exact Or.inr ⟨h1, h2⟩
      · exact Or.inr ⟨h1, k2⟩

/-- the `(x, y)` of every `union x y` of the history -/
def unionPairs : List Op → List (Nat × Nat)
  | [] => []
  | .union x y :: ops => (x, y) :: unionPairs ops
  | .add _ :: ops => unionPairs ops
  | .find _ :: ops => unionPairs ops
  | .connected _ _ :: ops => unionPairs ops
  | .component _ :: ops => unionPairs ops

/-- the elements added by `add x` or mentioned by `union x y` -/
def present : List Op → List Nat
  | [] => []
  | .add x :: ops => x :: present ops
  | .union x y :: ops => x :: y :: present ops
  | .find _ :: ops => present ops
  | .connected _ _ :: ops => present ops
  | .component _ :: ops => present ops

/-- "a chain of unions joins `a` and `b`" -/
def Joined (ops : List Op) : Nat → Nat → Prop :=
  EqvClosure (fun a b => (a, b) ∈ unionPairs ops)

theorem unionPairs_append (a b : List Op) : unionPairs (a ++ b) = unionPairs a ++ unionPairs b := by
  induction a with
  | nil => rfl
  | cons op a ih => cases op <;> simp [unionPairs, ih]

theorem present_append (a b : List Op) : present (a ++ b) = present a ++ present b := by
  induction a with
  | nil => rfl
  | cons op a ih => cases op <;> simp [present, ih]

theorem unionPairs_present {ops : List Op} {a b : Nat} (h : (a, b) ∈ unionPairs ops) :
    a ∈ present ops ∧ b ∈ present ops := by
  induction ops with
  | nil => cases h
  | cons op ops ih =>
    cases op with
    | union x y =>
      simp only [unionPairs, List.mem_cons, Prod.mk.injEq] at h
      simp only [present, List.mem_cons]
      rcases h with ⟨rfl, rfl⟩ | h
      · exact ⟨Or.inl rfl, Or.inr (Or.inl rfl)⟩
      · exact ⟨Or.inr (Or.inr (ih h).1), Or.inr (Or.inr (ih h).2)⟩
    | add x =>
      simp only [unionPairs] at h
      simp only [present, List.mem_cons]
      exact ⟨Or.inr (ih h).1, Or.inr (ih h).2⟩
    | find x => exact ih h
    | connected x y => exact ih h
    | component x => exact ih h

theorem Joined.support {ops : List Op} {u v : Nat} (h : Joined ops u v) :
    u = v ∨ (u ∈ present ops ∧ v ∈ present ops) :=
  EqvClosure.support (P := fun z => z ∈ present ops) (fun _ _ r => unionPairs_present r) h

theorem Joined.refl (ops : List Op) (a : Nat) : Joined ops a a := EqvClosure.refl a
theorem Joined.symm {ops : List Op} {a b : Nat} (h : Joined ops a b) : Joined ops b a :=
  EqvClosure.symm h
theorem Joined.trans {ops : List Op} {a b c : Nat} (h : Joined ops a b) (k : Joined ops b c) :
    Joined ops a c := EqvClosure.trans h k

theorem Joined_of_pairs_eq {ops ops' : List Op} (h : unionPairs ops' = unionPairs ops) (u v : Nat) :
    Joined ops' u v ↔ Joined ops u v := by
  unfold Joined; rw [h]

theorem Joined_snoc_union (ops : List Op) (x y u v : Nat) :
    Joined (ops ++ [.union x y]) u v ↔
      Joined ops u v ∨ (Joined ops u x ∧ Joined ops y v) ∨ (Joined ops u y ∧ Joined ops x v) := by
  unfold Joined
  apply EqvClosure.insert_pair
  intro a b
  rw [unionPairs_append]
  simp [unionPairs]


/-! ### Refinement relation between a state and (present set, joined relation) -/

theorem PEquiv.classOf {s s' : State} (h : PEquiv s s') (inv : Inv s) (inv' : Inv s') {x : Nat}
    (hx : x ∈ s.elts) : classOf s' x = classOf s x := by
  unfold UF.classOf
  rw [h.elts]
  exact h.rootOf inv inv' (idxOf_lt hx)

structure Rep (P : Nat → Prop) (J : Nat → Nat → Prop) (s : State) : Prop where
  mem : ∀ x, x ∈ s.elts ↔ P x
  cls : ∀ x y, x ∈ s.elts → y ∈ s.elts → (classOf s x = classOf s y ↔ J x y)

theorem rep_pequiv {P : Nat → Prop} {J : Nat → Nat → Prop} {s s' : State} (r : Rep P J s)
    (inv : Inv s) (inv' : Inv s') (pe : PEquiv s s') : Rep P J s' := by
  refine ⟨fun x => by rw [pe.elts]; exact r.mem x, ?_⟩
  intro x y hx hy
  rw [pe.elts] at hx hy
  rw [pe.classOf inv inv' hx, pe.classOf inv inv' hy]
  exact r.cls x y hx hy

theorem rep_congr {P P' : Nat → Prop} {J J' : Nat → Nat → Prop} {s : State} (r : Rep P J s)
    (hP : ∀ x, P' x ↔ P x) (hJ : ∀ x y, J' x y ↔ J x y) : Rep P' J' s :=
  ⟨fun x => (r.mem x).trans (hP x).symm, fun x y hx hy => (r.cls x y hx hy).trans (hJ x y).symm⟩

theorem classOf_add_old {s : State} (inv : Inv s) (x : Nat) {z : Nat} (hz : z ∈ s.elts) :
    classOf (add s x) z = classOf s z := by
  unfold classOf
  rw [idxOf_add_old x hz, rootOf_add_old inv x (idxOf_lt hz)]

theorem classOf_add_new {s : State} (inv : Inv s) {x : Nat} (h : x ∉ s.elts) :
    classOf (add s x) x = s.elts.length := by
  unfold classOf
  rw [idxOf_add_new h, rootOf_add_new inv h]

theorem rep_add {P : Nat → Prop} {J : Nat → Nat → Prop} {s : State} (r : Rep P J s) (inv : Inv s)
    (hrefl : ∀ a, J a a) (hsupp : ∀ u v, J u v → u = v ∨ (P u ∧ P v)) (x : Nat) :
    Rep (fun z => P z ∨ z = x) J (add s x) := by
  by_cases h : x ∈ s.elts
  · rw [add_of_mem h]
    refine rep_congr r (fun z => ⟨?_, Or.inl⟩) (fun _ _ => Iff.rfl)
    rintro (hz | rfl)
    · exact hz
    · exact (r.mem _).mp h
  · refine ⟨fun z => by rw [mem_add_elts, r.mem z], ?_⟩
    have hnP : ¬ P x := fun hp => h ((r.mem x).mpr hp)
    intro u v hu hv
    rw [mem_add_elts] at hu hv
    rcases hu with hu | rfl <;> rcases hv with hv | rfl
    · rw [classOf_add_old inv x hu, classOf_add_old inv x hv]; exact r.cls u v hu hv
    · rw [classOf_add_old inv _ hu, classOf_add_new inv h]
      have := classOf_lt inv hu
      constructor
      · intro e; omega
      · intro j
        rcases hsupp _ _ j with rfl | ⟨_, hp⟩
        · exact absurd hu h
        · exact absurd hp hnP
    · rw [classOf_add_old inv _ hv, classOf_add_new inv h]
      have := classOf_lt inv hv
      constructor
      · intro e; omega
      · intro j
        rcases hsupp _ _ j with rfl | ⟨hp, _⟩
        · exact absurd hv h
        · exact absurd hp hnP
    · exact ⟨fun _ => hrefl _, fun _ => rfl⟩

theorem ite_merge_iff (ce cf cx cy a b : Nat)
    (hab : (a = cx ∧ b = cy) ∨ (a = cy ∧ b = cx)) :
    ((if ce = a then b else ce) = (if cf = a then b else cf)) ↔
      (ce = cf ∨ (ce = cx ∧ cy = cf) ∨ (ce = cy ∧ cx = cf)) := by
  rcases hab with ⟨rfl, rfl⟩ | ⟨rfl, rfl⟩ <;> split <;> split <;> omega

theorem rep_union {P : Nat → Prop} {J J' : Nat → Nat → Prop} {s : State} (r : Rep P J s)
    (inv : Inv s) (hrefl : ∀ a, J a a)
    (hsupp : ∀ u v, J u v → u = v ∨ (P u ∧ P v)) (x y : Nat)
    (hJ' : ∀ u v, J' u v ↔ J u v ∨ (J u x ∧ J y v) ∨ (J u y ∧ J x v)) :
    Rep (fun z => (P z ∨ z = x) ∨ z = y) J' (union s x y) := by
  have r1 : Rep (fun z => (P z ∨ z = x) ∨ z = y) J (add (add s x) y) := by
    refine rep_add (rep_add r inv hrefl hsupp x) (inv_add inv x) hrefl ?_ y
    intro u v j
    rcases hsupp u v j with e | ⟨h1, h2⟩
    · exact Or.inl e
    · exact Or.inr ⟨Or.inl h1, Or.inl h2⟩
  obtain ⟨_, helts, a, b, hab, hroot⟩ := union_spec inv x y
  have hx1 : x ∈ (add (add s x) y).elts := by
    rw [mem_add_elts, mem_add_elts]; exact Or.inl (Or.inr rfl)
  have hy1 : y ∈ (add (add s x) y).elts := by
    rw [mem_add_elts]; exact Or.inr rfl
  refine ⟨fun z => by rw [helts]; exact r1.mem z, ?_⟩
  intro u v hu hv
  rw [helts] at hu hv
  have hcu : classOf (UF.union s x y) u = if classOf (add (add s x) y) u = a then b
      else classOf (add (add s x) y) u := by
    unfold classOf; rw [helts]; exact hroot _ (idxOf_lt hu)
  have hcv : classOf (UF.union s x y) v = if classOf (add (add s x) y) v = a then b
      else classOf (add (add s x) y) v := by
    unfold classOf; rw [helts]; exact hroot _ (idxOf_lt hv)
  rw [hcu, hcv, ite_merge_iff _ _ (classOf (add (add s x) y) x) (classOf (add (add s x) y) y) a b hab,
    hJ', r1.cls u v hu hv, r1.cls u x hu hx1,
    r1.cls y v hy1 hv, r1.cls u y hu hy1, r1.cls x v hx1 hv]


/-- The state after a history represents (present elements, joined relation) of that history. -/
def Refines (ops : List Op) (s : State) : Prop :=
  Rep (fun z => z ∈ present ops) (Joined ops) s

theorem refines_query {ops : List Op} {s : State} (r : Refines ops s) (inv : Inv s) {op : Op}
    (hq : op.isQuery = true) : Refines (ops ++ [op]) (step s op) := by
  obtain ⟨i', pe⟩ := step_query inv hq
  have hp : present (ops ++ [op]) = present ops := by
    rw [present_append]; cases op <;> first | (simp [present]; done) | cases hq
  have hu : unionPairs (ops ++ [op]) = unionPairs ops := by
    rw [unionPairs_append]; cases op <;> first | (simp [unionPairs]; done) | cases hq
  refine rep_congr (rep_pequiv r inv i' pe) (fun z => by rw [hp]) (Joined_of_pairs_eq hu)

theorem refines_step {ops : List Op} {s : State} (r : Refines ops s) (inv : Inv s) (op : Op) :
    Refines (ops ++ [op]) (step s op) := by
  cases op with
  | add x =>
    refine rep_congr (rep_add r inv (Joined.refl ops) (fun _ _ j => j.support) x) ?_ ?_
    · intro z; rw [present_append]; simp [present]
    · exact Joined_of_pairs_eq (by rw [unionPairs_append]; simp [unionPairs])
  | union x y =>
    refine rep_congr (J := Joined (ops ++ [.union x y]))
      (rep_union r inv (Joined.refl ops) (fun _ _ j => j.support) x y
        (Joined_snoc_union ops x y)) ?_ (fun _ _ => Iff.rfl)
    intro z; rw [present_append]; simp [present]
    constructor
    · rintro (h | rfl | rfl)
      · exact Or.inl (Or.inl h)
      · exact Or.inl (Or.inr rfl)
      · exact Or.inr rfl
    · rintro ((h | rfl) | rfl)
      · exact Or.inl h
      · exact Or.inr (Or.inl rfl)
      · exact Or.inr (Or.inr rfl)
  | find x => exact refines_query r inv (op := .find x) rfl
  | connected x y => exact refines_query r inv (op := .connected x y) rfl
  | component x => exact refines_query r inv (op := .component x) rfl

theorem refines_init : Refines [] init := by
  refine ⟨fun x => by simp [init, present], ?_⟩
  intro x y hx _
  simp [init] at hx

theorem refines_foldl : ∀ (ops ops0 : List Op) (s : State), Inv s → Refines ops0 s →
    Refines (ops0 ++ ops) (ops.foldl step s) := by
  intro ops
  induction ops with
  | nil => intro ops0 s _ r; rw [List.append_nil]; exact r
  | cons op ops ih =>
    intro ops0 s inv r
    rw [List.append_cons, List.foldl_cons]
    exact ih _ _ (inv_step inv op) (refines_step r inv op)

theorem refines_run (ops : List Op) : Refines ops (run ops) := by
  have := refines_foldl ops [] init inv_init refines_init
  rwa [List.nil_append] at this


/-! ### observable answers -/

theorem connected_answer {s : State} (inv : Inv s) {x y : Nat} (hx : x ∈ s.elts) (hy : y ∈ s.elts) :
    (connected s x y).map Prod.snd = some (decide (classOf s x = classOf s y)) := by
  obtain ⟨s', b, h, _, _, hb⟩ := connected_spec inv hx hy
  rw [h]
  show some b = _
  congr 1
  cases b
  · have : ¬ classOf s x = classOf s y := fun e => by have := hb.mpr e; cases this
    simp [this]
  · have : classOf s x = classOf s y := hb.mp rfl
    simp [this]

theorem connected_answer_pequiv {s s' : State} (inv : Inv s) (inv' : Inv s') (pe : PEquiv s s')
    (x y : Nat) : (connected s' x y).map Prod.snd = (connected s x y).map Prod.snd := by
  by_cases hxy : x ∈ s.elts ∧ y ∈ s.elts
  · obtain ⟨hx, hy⟩ := hxy
    rw [connected_answer inv hx hy,
      connected_answer inv' (by rw [pe.elts]; exact hx) (by rw [pe.elts]; exact hy),
      pe.classOf inv inv' hx, pe.classOf inv inv' hy]
  · have h1 : connected s x y = none := by
      rw [connected_eq_none_iff]
      by_cases hx : x ∈ s.elts
      · exact Or.inr (fun hy => hxy ⟨hx, hy⟩)
      · exact Or.inl hx
    have h2 : connected s' x y = none := by
      rw [connected_eq_none_iff, pe.elts, ← connected_eq_none_iff]; exact h1
    rw [h1, h2]

/-! ### roots are class representatives -/

/-- the list of root indices -/
def rootIdxs (s : State) : List Nat :=
  (List.range s.elts.length).filter (fun i => decide (parent s.par i = i))

/-- element stored at index `i` -/
def eltAt (s : State) (i : Nat) : Nat := s.elts.getD i 0

theorem eltAt_mem {s : State} {i : Nat} (hi : i < s.elts.length) : eltAt s i ∈ s.elts := by
  unfold eltAt
  rw [List.getD_eq_getElem?_getD, List.getElem?_eq_getElem hi]
  exact List.getElem_mem hi

theorem idxOf_eltAt {s : State} (inv : Inv s) {i : Nat} (hi : i < s.elts.length) :
    s.elts.idxOf (eltAt s i) = i := by
  unfold eltAt
  rw [List.getD_eq_getElem?_getD, List.getElem?_eq_getElem hi]
  exact inv.nodup.idxOf_getElem i hi

theorem eltAt_idxOf {s : State} {x : Nat} (hx : x ∈ s.elts) : eltAt s (s.elts.idxOf x) = x := by
  unfold eltAt
  have hi := idxOf_lt hx
  rw [List.getD_eq_getElem?_getD, List.getElem?_eq_getElem hi]
  exact List.getElem_idxOf hi

theorem mem_rootIdxs {s : State} {r : Nat} :
    r ∈ rootIdxs s ↔ r < s.elts.length ∧ parent s.par r = r := by
  simp [rootIdxs]

theorem rootIdxs_nodup (s : State) : (rootIdxs s).Nodup :=
  List.Nodup.sublist List.filter_sublist List.nodup_range

theorem nComps_eq_rootIdxs {s : State} (inv : Inv s) : s.nComps = (rootIdxs s).length := by
  rw [inv.nCompsEq, numRoots, rootIdxs, inv.parLen]

theorem classOf_mem_rootIdxs {s : State} (inv : Inv s) {x : Nat} (hx : x ∈ s.elts) :
    classOf s x ∈ rootIdxs s :=
  mem_rootIdxs.mpr ⟨classOf_lt inv hx, rootOf_isRoot inv (idxOf_lt hx)⟩

theorem classOf_eltAt_root {s : State} (inv : Inv s) {r : Nat} (hr : r ∈ rootIdxs s) :
    classOf s (eltAt s r) = r := by
  obtain ⟨h1, h2⟩ := mem_rootIdxs.mp hr
  unfold classOf
  rw [idxOf_eltAt inv h1]
  exact rootOf_of_root inv h1 h2

/-- the roots returned by `rootsList` are exactly the root indices -/
theorem mem_rootsList {s : State} (inv : Inv s) (r : Nat) :
    r ∈ (rootsList s).2 ↔ r ∈ rootIdxs s := by
  rw [(rootsList_spec inv).2.2]
  constructor
  · intro h
    obtain ⟨e, he, rfl⟩ := List.mem_map.mp h
    exact classOf_mem_rootIdxs inv he
  · intro h
    exact List.mem_map.mpr ⟨eltAt s r, eltAt_mem (mem_rootIdxs.mp h).1, classOf_eltAt_root inv h⟩

/-- Representatives: one element per root; pairwise in different classes; every element is in the
class of exactly one representative. -/
theorem reps_spec {s : State} (inv : Inv s) :
    ((rootIdxs s).map (eltAt s)).length = s.nComps ∧
    (∀ e, e ∈ (rootIdxs s).map (eltAt s) → e ∈ s.elts) ∧
    (∀ x, x ∈ s.elts → ∃ e, e ∈ (rootIdxs s).map (eltAt s) ∧ classOf s x = classOf s e) ∧
    ((rootIdxs s).map (eltAt s)).Pairwise (fun a b => classOf s a ≠ classOf s b) := by
  refine ⟨?_, ?_, ?_, ?_⟩
  · rw [List.length_map, nComps_eq_rootIdxs inv]
  · intro e he
    obtain ⟨r, hr, rfl⟩ := List.mem_map.mp he
    exact eltAt_mem (mem_rootIdxs.mp hr).1
  · intro x hx
    have h := classOf_mem_rootIdxs inv hx
    exact ⟨eltAt s (classOf s x), List.mem_map.mpr ⟨_, h, rfl⟩, (classOf_eltAt_root inv h).symm⟩
  · rw [List.pairwise_map]
    have := List.nodup_iff_pairwise_ne.mp (rootIdxs_nodup s)
    refine this.imp_of_mem ?_
    intro a b ha hb hne
    rw [classOf_eltAt_root inv ha, classOf_eltAt_root inv hb]
    exact hne

/-! ### corollaries about `add` and `union` -/

theorem add_idempotent (s : State) (x : Nat) : add (add s x) x = add s x :=
  add_of_mem ((mem_add_elts s x x).mpr (Or.inr rfl))

theorem union_self {s : State} (inv : Inv s) (x : Nat) : PEquiv (add s x) (union s x x) := by
  obtain ⟨s3, _, pe, hu⟩ := union_unfold inv x x
  rw [if_pos rfl] at hu
  rw [hu, ← add_idempotent s x]
  exact pe

theorem union_elts {s : State} (inv : Inv s) (x y z : Nat) :
    z ∈ (union s x y).elts ↔ z ∈ s.elts ∨ z = x ∨ z = y := by
  rw [(union_spec inv x y).2.1, mem_add_elts, mem_add_elts, or_assoc]

theorem Joined_union_self (ops : List Op) (x u v : Nat) :
    Joined (ops ++ [.union x x]) u v ↔ Joined ops u v := by
  rw [Joined_snoc_union]
  constructor
  · rintro (h | ⟨h1, h2⟩ | ⟨h1, h2⟩)
    · exact h
    · exact h1.trans h2
    · exact h1.trans h2
  · exact Or.inl


/-! ### Additional (spec-level) models of `components()` and `component_mapping()`

These two definitions are *not* part of the executable model file (the driver does not use them);
they transcribe the two remaining observers of `unionfind.py` on top of `rootsList`, with Python's
arbitrary set-iteration order fixed to first-occurrence order. -/

/-- elements (in `_elts` order) whose class root is `r` -/
def classList (s : State) (r : Nat) : List Nat :=
  s.elts.filter (fun e => decide (classOf s e = r))

/-- `components()`: `roots()` then, per distinct root, the elements with that root. -/
def components (s : State) : State × List (List Nat) :=
  let (s1, rs) := rootsList s
  let (s2, rs2) := rootsList s1
  (s2, rs.eraseDups.map (fun r =>
    (s.elts.zip rs2).filterMap (fun (e, r') => if r' = r then some e else none)))

/-- `component_mapping()` as an association list `element ↦ its component`. -/
def componentMapping (s : State) : State × List (Nat × List Nat) :=
  let (s1, rs) := rootsList s
  (s1, rs.eraseDups.flatMap (fun r =>
    ((s.elts.zip rs).filterMap (fun (e, r') => if r' = r then some e else none)).map
      (fun x => (x, (s.elts.zip rs).filterMap (fun (e, r') => if r' = r then some e else none)))))

theorem mem_classList {s : State} {r e : Nat} : e ∈ classList s r ↔ e ∈ s.elts ∧ classOf s e = r := by
  simp [classList]

theorem rootsList_snd {s : State} (inv : Inv s) : (rootsList s).2 = s.elts.map (classOf s) :=
  (rootsList_spec inv).2.2

theorem zip_filterMap_classList (s : State) (r : Nat) :
    (s.elts.zip (s.elts.map (classOf s))).filterMap (fun (e, r') => if r' = r then some e else none)
      = classList s r := zip_map_filterMap (classOf s) r s.elts

theorem nodup_eraseDups : ∀ (n : Nat) (l : List Nat), l.length ≤ n → l.eraseDups.Nodup := by
  intro n
  induction n with
  | zero =>
    intro l hl
    have : l = [] := List.eq_nil_of_length_eq_zero (by omega)
    subst this; simp
  | succ n ih =>
    intro l hl
    cases l with
    | nil => simp
    | cons a l =>
      rw [List.eraseDups_cons, List.nodup_cons]
      constructor
      · rw [List.mem_eraseDups]; simp
      · apply ih
        have := List.length_filter_le (fun b => !b == a) l
        simp at hl; omega

theorem eraseDups_roots_perm {s : State} (inv : Inv s) :
    (s.elts.map (classOf s)).eraseDups.Perm (rootIdxs s) := by
  rw [List.perm_ext_iff_of_nodup (nodup_eraseDups _ _ (Nat.le_refl _)) (rootIdxs_nodup s)]
  intro r
  rw [List.mem_eraseDups, ← rootsList_snd inv, mem_rootsList inv]

theorem components_spec {s : State} (inv : Inv s) :
    ∃ s', components s = (s', (s.elts.map (classOf s)).eraseDups.map (classList s)) ∧
      Inv s' ∧ PEquiv s s' := by
  obtain ⟨i1, pe1, h1⟩ := rootsList_spec inv
  obtain ⟨i2, pe2, h2⟩ := rootsList_spec i1
  refine ⟨(rootsList (rootsList s).1).1, ?_, i2, pe1.trans pe2⟩
  have h2' : (rootsList (rootsList s).1).2 = s.elts.map (classOf s) := by
    rw [rootsList_snd i1, pe1.elts]
    apply List.map_congr_left
    intro e he
    exact pe1.classOf inv i1 he
  unfold components
  simp only []
  rw [h2', rootsList_snd inv]
  congr 1
  apply List.map_congr_left
  intro r _
  exact zip_filterMap_classList s r

theorem componentMapping_spec {s : State} (inv : Inv s) :
    ∃ s', componentMapping s = (s', (s.elts.map (classOf s)).eraseDups.flatMap
        (fun r => (classList s r).map (fun x => (x, classList s r)))) ∧
      Inv s' ∧ PEquiv s s' := by
  obtain ⟨i1, pe1, h1⟩ := rootsList_spec inv
  refine ⟨(rootsList s).1, ?_, i1, pe1⟩
  unfold componentMapping
  simp only []
  rw [rootsList_snd inv]
  congr 2
  funext r
  rw [show (List.filterMap (fun (x : Nat × Nat) => if x.snd = r then some x.fst else none)
    (s.elts.zip (List.map (classOf s) s.elts))) = classList s r from zip_filterMap_classList s r]

theorem mem_componentMapping_list {s : State} (x : Nat) (c : List Nat) :
    (x, c) ∈ (s.elts.map (classOf s)).eraseDups.flatMap
        (fun r => (classList s r).map (fun x => (x, classList s r)))
      ↔ x ∈ s.elts ∧ c = classList s (classOf s x) := by
  rw [List.mem_flatMap]
  constructor
  · rintro ⟨r, _, h⟩
    obtain ⟨x', hx', e⟩ := List.mem_map.mp h
    injection e with e1 e2
    subst e1
    obtain ⟨hx, hr⟩ := mem_classList.mp hx'
    exact ⟨hx, by rw [hr]; exact e2.symm⟩
  · rintro ⟨hx, rfl⟩
    refine ⟨classOf s x, ?_, ?_⟩
    · rw [List.mem_eraseDups]; exact List.mem_map.mpr ⟨x, hx, rfl⟩
    · exact List.mem_map.mpr ⟨x, mem_classList.mpr ⟨hx, rfl⟩, rfl⟩

end Mouette.UF
