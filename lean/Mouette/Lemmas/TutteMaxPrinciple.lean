import Mouette.Lemmas.TutteLap
import Mouette.Lemmas.TutteResidual
import Mathlib.Tactic.Ring
import Mathlib.Tactic.Linarith
import Mathlib.Tactic.Positivity
/-!
Discrete maximum principle for the barycentric system of C17, on exact rationals.

`g : Nat → Rat` is *harmonic at r* when `wSum T r * g r = wDot T g r` (what `interior_is_weighted_average` gives for a
solution of the system). With strictly positive weights (`OffNeg`: off-diagonal entries of the row are negative) a harmonic
function cannot exceed, at a free vertex connected to the border through free vertices, the largest border value; and it is
strictly below it as soon as one reachable border vertex is.
-/
namespace Mouette.Tutte

/-- off-diagonal entries of row `r` are negative, i.e. every neighbour weight `w_rj = −L_rj` is positive -/
def OffNeg (T : List Triplet) (r : Nat) : Prop := ∀ t, t ∈ T → t.1 = r → t.2.1 ≠ r → t.2.2 < 0

/-- `j` is a neighbour of `r` in the rows of `T` -/
def Nbr (T : List Triplet) (r j : Nat) : Prop := ∃ t, t ∈ T ∧ t.1 = r ∧ t.2.1 = j ∧ j ≠ r

/-- `b` is reached from `r` by a path of neighbours all of whose vertices before `b` are free -/
inductive Reach (T : List Triplet) (free : List Nat) : Nat → Nat → Prop
  | refl (r : Nat) : Reach T free r r
  | step {r j b : Nat} : r ∈ free → Nbr T r j → Reach T free j b → Reach T free r b

/-- slack `Σ_j w_rj (M − g_j)`: non-negative when every neighbour value is at most `M` -/
theorem slack_nonneg (g : Nat → Rat) (M : Rat) (r : Nat) : ∀ T : List Triplet, OffNeg T r →
    (∀ t, t ∈ T → t.1 = r → t.2.1 ≠ r → g t.2.1 ≤ M) → 0 ≤ wSum T r * M - wDot T g r
  | [], _, _ => by simp [wSum, wDot]
  | t :: T, hneg, hle => by
    have ih := slack_nonneg g M r T (fun x hx => hneg x (List.mem_cons_of_mem _ hx))
      (fun x hx => hle x (List.mem_cons_of_mem _ hx))
    rw [wSum_cons, wDot_cons]
    by_cases h : t.1 = r ∧ t.2.1 ≠ r
    · rw [if_pos h, if_pos h]
      have h1 := hneg t List.mem_cons_self h.1 h.2
      have h2 := hle t List.mem_cons_self h.1 h.2
      nlinarith [mul_nonneg (by linarith : (0 : Rat) ≤ -t.2.2) (by linarith : (0 : Rat) ≤ M - g t.2.1)]
    · rw [if_neg h, if_neg h]; linarith

/-- if the slack vanishes, every neighbour has the value `M` -/
theorem nbr_eq_of_slack_zero (g : Nat → Rat) (M : Rat) (r : Nat) : ∀ T : List Triplet, OffNeg T r →
    (∀ t, t ∈ T → t.1 = r → t.2.1 ≠ r → g t.2.1 ≤ M) → wSum T r * M - wDot T g r ≤ 0 →
    ∀ t, t ∈ T → t.1 = r → t.2.1 ≠ r → g t.2.1 = M
  | [], _, _, _ => by intro t ht; simp at ht
  | t :: T, hneg, hle, hz => by
    have hneg' : OffNeg T r := fun x hx => hneg x (List.mem_cons_of_mem _ hx)
    have hle' := fun x hx => hle x (List.mem_cons_of_mem _ hx)
    have hnn := slack_nonneg g M r T hneg' hle'
    rw [wSum_cons, wDot_cons] at hz
    by_cases h : t.1 = r ∧ t.2.1 ≠ r
    · rw [if_pos h, if_pos h] at hz
      have h1 := hneg t List.mem_cons_self h.1 h.2
      have h2 := hle t List.mem_cons_self h.1 h.2
      have hprod : 0 ≤ (-t.2.2) * (M - g t.2.1) := mul_nonneg (by linarith) (by linarith)
      have hz' : wSum T r * M - wDot T g r ≤ 0 := by nlinarith
      have hp0 : (-t.2.2) * (M - g t.2.1) ≤ 0 := by nlinarith
      have heq : g t.2.1 = M := by
        have : (-t.2.2) * (M - g t.2.1) = 0 := le_antisymm hp0 hprod
        rcases mul_eq_zero.mp this with h3 | h3
        · linarith
        · linarith
      intro x hx
      rcases List.mem_cons.mp hx with rfl | hx
      · intro _ _; exact heq
      · exact nbr_eq_of_slack_zero g M r T hneg' hle' hz' x hx
    · rw [if_neg h, if_neg h] at hz
      have hz' : wSum T r * M - wDot T g r ≤ 0 := by linarith
      intro x hx
      rcases List.mem_cons.mp hx with rfl | hx
      · intro a b; exact absurd ⟨a, b⟩ h
      · exact nbr_eq_of_slack_zero g M r T hneg' hle' hz' x hx

/-- a harmonic vertex that attains an upper bound of its neighbours passes it on to all of them -/
theorem nbr_eq_of_max (T : List Triplet) (g : Nat → Rat) (M : Rat) (r : Nat) (hneg : OffNeg T r)
    (hharm : wSum T r * g r = wDot T g r) (hle : ∀ j, Nbr T r j → g j ≤ M) (hr : g r = M) :
    ∀ j, Nbr T r j → g j = M := by
  rintro j ⟨t, ht, h1, h2, h3⟩
  have := nbr_eq_of_slack_zero g M r T hneg
    (fun x hx a b => hle x.2.1 ⟨x, hx, a, rfl, b⟩) (by rw [← hr, hharm]; linarith) t ht h1 (h2 ▸ h3)
  rw [← h2]; exact this

/-- the maximum travels along a path of free vertices -/
theorem max_propagates (T : List Triplet) (free : List Nat) (g : Nat → Rat) (M : Rat)
    (hneg : ∀ r, r ∈ free → OffNeg T r) (hharm : ∀ r, r ∈ free → wSum T r * g r = wDot T g r)
    (hle : ∀ r, r ∈ free → ∀ j, Nbr T r j → g j ≤ M) {r b : Nat} (p : Reach T free r b) (hr : g r = M) : g b = M := by
  induction p with
  | refl _ => exact hr
  | step hf hn _ ih => exact ih (nbr_eq_of_max T g M _ (hneg _ hf) (hharm _ hf) (hle _ hf) hr _ hn)

theorem exists_argmax (g : Nat → Rat) : ∀ l : List Nat, l ≠ [] → ∃ m, m ∈ l ∧ ∀ x, x ∈ l → g x ≤ g m
  | [], h => absurd rfl h
  | [a], _ => ⟨a, List.mem_cons_self, fun x hx => by simp at hx; rw [hx]⟩
  | a :: b :: l, _ => by
    obtain ⟨m, hm, hmax⟩ := exists_argmax g (b :: l) (by simp)
    by_cases h : g m ≤ g a
    · exact ⟨a, List.mem_cons_self, fun x hx => by
        rcases List.mem_cons.mp hx with rfl | hx
        · exact le_refl _
        · exact le_trans (hmax x hx) h⟩
    · exact ⟨m, List.mem_cons_of_mem _ hm, fun x hx => by
        rcases List.mem_cons.mp hx with rfl | hx
        · exact le_of_lt (not_le.mp h)
        · exact hmax x hx⟩

/-- WEAK maximum principle: positive weights, every free row harmonic, neighbours of free vertices are free or border
vertices, every free vertex reaches the border through free vertices: a bound on the border values bounds the interior. -/
theorem max_principle (T : List Triplet) (free bnd : List Nat) (g : Nat → Rat) (c : Rat)
    (hneg : ∀ r, r ∈ free → OffNeg T r) (hharm : ∀ r, r ∈ free → wSum T r * g r = wDot T g r)
    (closed : ∀ r, r ∈ free → ∀ j, Nbr T r j → j ∈ free ∨ j ∈ bnd)
    (conn : ∀ r, r ∈ free → ∃ b, b ∈ bnd ∧ Reach T free r b)
    (hb : ∀ b, b ∈ bnd → g b ≤ c) : ∀ r, r ∈ free → g r ≤ c := by
  intro r hr
  obtain ⟨m, hm, hmax⟩ := exists_argmax g free (List.ne_nil_of_mem hr)
  by_contra hgt
  have hgm : c < g m := lt_of_lt_of_le (not_le.mp hgt) (hmax r hr)
  have hle : ∀ x, x ∈ free → ∀ j, Nbr T x j → g j ≤ g m := by
    intro x hx j hj
    rcases closed x hx j hj with h | h
    · exact hmax j h
    · exact le_of_lt (lt_of_le_of_lt (hb j h) hgm)
  obtain ⟨b, hbb, hp⟩ := conn m hm
  have := max_propagates T free g (g m) hneg hharm hle hp rfl
  have := hb b hbb
  linarith

/-- STRONG form: if moreover the free vertex `r` reaches a border vertex whose value is strictly below the bound, so is `r` -/
theorem max_principle_strict (T : List Triplet) (free bnd : List Nat) (g : Nat → Rat) (c : Rat)
    (hneg : ∀ r, r ∈ free → OffNeg T r) (hharm : ∀ r, r ∈ free → wSum T r * g r = wDot T g r)
    (closed : ∀ r, r ∈ free → ∀ j, Nbr T r j → j ∈ free ∨ j ∈ bnd)
    (conn : ∀ r, r ∈ free → ∃ b, b ∈ bnd ∧ Reach T free r b)
    (hb : ∀ b, b ∈ bnd → g b ≤ c) {r b0 : Nat} (hr : r ∈ free) (hp : Reach T free r b0) (hb0 : g b0 < c) :
    g r < c := by
  have hweak := max_principle T free bnd g c hneg hharm closed conn hb
  have hle : ∀ x, x ∈ free → ∀ j, Nbr T x j → g j ≤ c := by
    intro x hx j hj
    rcases closed x hx j hj with h | h
    · exact hweak j h
    · exact hb j h
  rcases lt_or_eq_of_le (hweak r hr) with h | h
  · exact h
  · have := max_propagates T free g c hneg hharm hle hp h
    linarith

/-! ### linear functionals of harmonic positions are harmonic -/

theorem wDot_linear (T : List Triplet) (u v : Nat → Rat) (α β : Rat) (r : Nat) :
    wDot T (fun x => α * u x + β * v x) r = α * wDot T u r + β * wDot T v r := by
  induction T with
  | nil => simp [wDot]
  | cons t T ih =>
    rw [wDot_cons, wDot_cons, wDot_cons, ih]
    by_cases h : t.1 = r ∧ t.2.1 ≠ r
    · simp only [if_pos h]; ring
    · simp only [if_neg h]; ring

theorem harmonic_linear (T : List Triplet) (u v : Nat → Rat) (α β : Rat) (r : Nat)
    (hu : wSum T r * u r = wDot T u r) (hv : wSum T r * v r = wDot T v r) :
    wSum T r * (α * u r + β * v r) = wDot T (fun x => α * u x + β * v x) r := by
  rw [wDot_linear, ← hu, ← hv]; ring

/-! ### the weights of the assembled Laplacian are positive -/

theorem offNeg_edgeTriplets {i j : Nat} {w : Rat} (hw : 0 < w) {t : Triplet} (ht : t ∈ edgeTriplets i j w)
    (hoff : t.2.1 ≠ t.1) : t.2.2 < 0 := by
  unfold edgeTriplets at ht
  simp only [List.mem_cons, List.mem_nil_iff, or_false] at ht
  rcases ht with rfl | rfl | rfl | rfl
  · exact absurd rfl hoff
  · exact absurd rfl hoff
  · simp only []; linarith
  · simp only []; linarith

theorem offNeg_lapTripletsFrom (cot : Option (List Rat)) (hpos : ∀ l, cot = some l → ∀ k, 0 < l.getD k 0) :
    ∀ (F : List (List Nat)) (iT : Nat) (t : Triplet), t ∈ lapTripletsFrom cot iT F → t.2.1 ≠ t.1 → t.2.2 < 0
  | [], _, _, h, _ => by simp [lapTripletsFrom] at h
  | f :: fs, iT, t, h, hoff => by
    unfold lapTripletsFrom at h
    simp only [] at h
    rw [List.mem_append] at h
    rcases h with h | h
    · have hw : ∀ k, 0 < (match cot with | none => (1 : Rat) / 2 | some l => l.getD (3 * iT + k) 0 / 2) := by
        intro k
        cases cot with
        | none => norm_num
        | some l => have := hpos l rfl (3 * iT + k); simp only []; linarith
      unfold faceTriplets at h
      rw [List.mem_append, List.mem_append] at h
      rcases h with (h | h) | h
      · exact offNeg_edgeTriplets (hw 2) h hoff
      · exact offNeg_edgeTriplets (hw 0) h hoff
      · exact offNeg_edgeTriplets (hw 1) h hoff
    · exact offNeg_lapTripletsFrom cot hpos fs (iT + 1) t h hoff

/-- uniform weights, or cotangent weights with every corner cotangent positive: every row has positive neighbour weights -/
theorem offNeg_lapTriplets (cot : Option (List Rat)) (hpos : ∀ l, cot = some l → ∀ k, 0 < l.getD k 0)
    (F : List (List Nat)) (r : Nat) : OffNeg (lapTriplets cot F) r := by
  intro t ht h1 h2
  exact offNeg_lapTripletsFrom cot hpos F 0 t ht (by rw [h1]; exact h2)

end Mouette.Tutte
