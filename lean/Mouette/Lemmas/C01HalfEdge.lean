import Mouette.Generated.C01HE
import Mouette.Lemmas.Surface
/-!
Bridge lemmas for `_compute_connectivity` as TRANSLATED from `surface.py` (`Generated/C01HE.lean`): what the corner loop, the
half-edge loops and the opposite pass leave in the caches, in terms of the model's `sides` (`Model/Surface.lean`).
-/
namespace Mouette.Lemmas.C01HalfEdge
open Mouette.Surface Mouette.SurfSource Mouette.Generated.C01HE

theorem foldl_congr_mem {α β} (l : List α) (f g : β → α → β) (h : ∀ b, ∀ x ∈ l, f b x = g b x) (b : β) :
    l.foldl f b = l.foldl g b := by
  induction l generalizing b with
  | nil => rfl
  | cons x l ih =>
    rw [List.foldl_cons, List.foldl_cons, h b x (List.mem_cons_self ..)]
    exact ih (fun b y hy => h b y (List.mem_cons_of_mem _ hy)) _

theorem pair_cons_fold {α β γ} (h1 : α → β) (h2 : α → γ) (l : List α) (acc : List β × List γ) :
    l.foldl (fun acc x => (h1 x :: acc.1, h2 x :: acc.2)) acc = ((l.map h1).reverse ++ acc.1, (l.map h2).reverse ++ acc.2) := by
  induction l generalizing acc with
  | nil => rfl
  | cons x l ih => rw [List.foldl_cons, ih]; simp

/-- the `_half_edges` entry of a side before the opposite pass, and its `_Cn2he` entry -/
def heE0 (s : Side) : (Nat × Nat) × List (Option Nat) :=
  ((s.u, s.v), [some s.c, some s.cp, some s.cn, none, some s.f, some s.i, some s.j])
def cnE (s : Side) : Nat × (Nat × Nat) := (s.c, (s.u, s.v))

/-! ### loop 1: `_adjVF2Cn` -/
theorem vf_fold (S : Surf) (l : List Nat) : ∀ st : FDict × V2Cn × VFDict,
    (l.foldl (computeConnectivity_for1_step S) st).2.2 =
      (l.map fun c => (S.fc.getD c (0, 0), c)).reverse ++ st.2.2 := by
  induction l with
  | nil => intro st; rfl
  | cons x l ih =>
    intro st
    rw [List.foldl_cons, ih]
    obtain ⟨a, b, c⟩ := st
    simp [computeConnectivity_for1_step]

theorem zipIdx_eq_range_map {α} (l : List α) (d : α) : l.zipIdx = (List.range l.length).map (fun c => (l.getD c d, c)) := by
  apply List.ext_getElem
  · simp
  · intro i h1 h2
    simp only [List.length_zipIdx] at h1
    simp [List.getElem_zipIdx, List.getD, h1]

/-- `_adjVF2Cn` after the corner loop is the `face_corners` container with its positions, last corner first -/
theorem computeConnectivity_vf (S : Surf) : (computeConnectivity S).2.1 = S.fc.zipIdx.reverse := by
  have h := vf_fold S (List.range S.fc.length) ([], List.replicate S.nv [], [])
  show (List.foldl (computeConnectivity_for1_step S) ([], List.replicate S.nv [], []) (List.range S.fc.length)).2.2 = _
  rw [h, List.append_nil, zipIdx_eq_range_map S.fc (0, 0)]

/-! ### loops 3 and 4: the half-edge table before the opposite pass -/
theorem inner_fold (S : Surf) (vf : VFDict) (faces : Faces) (k : Nat)
    (H : ∀ i, i < (fa faces k).length → dictGetD vf ((fa faces k).getD i 0, k) = offset faces k + i)
    (acc : CnDict × HEDict) :
    (List.range (fa faces k).length).foldl (computeConnectivity_for4_step S vf k (fa faces k) (fa faces k).length) acc =
      (((sidesOfFace (offset faces k) (fa faces k) k).map cnE).reverse ++ acc.1,
       ((sidesOfFace (offset faces k) (fa faces k) k).map heE0).reverse ++ acc.2) := by
  rw [foldl_congr_mem _ _ (fun acc i => (cnE (mkSide (offset faces k) (fa faces k) k i) :: acc.1,
      heE0 (mkSide (offset faces k) (fa faces k) k i) :: acc.2))]
  · rw [pair_cons_fold]
    unfold sidesOfFace
    simp [List.map_map, Function.comp_def]
  · intro acc i hi
    have hi' : i < (fa faces k).length := List.mem_range.mp hi
    have hn : 0 < (fa faces k).length := by omega
    have h1 := H i hi'
    have h2 := H ((i + (fa faces k).length - 1) % (fa faces k).length) (Nat.mod_lt _ hn)
    have h3 := H ((i + 1) % (fa faces k).length) (Nat.mod_lt _ hn)
    obtain ⟨a, b⟩ := acc
    simp only [computeConnectivity_for4_step, h1, h2, h3]
    rfl

theorem outer_fold (S : Surf) (vf : VFDict) (faces : Faces)
    (H : ∀ k i, k < faces.length → i < (fa faces k).length → dictGetD vf ((fa faces k).getD i 0, k) = offset faces k + i) :
    ∀ (rest : Faces) (k : Nat), faces.drop k = rest → ∀ acc : CnDict × HEDict,
      ((rest.zipIdx k).map fun p => (p.2, p.1)).foldl (computeConnectivity_for3_step S vf) acc =
        (((sidesFrom (offset faces k) k rest).map cnE).reverse ++ acc.1,
         ((sidesFrom (offset faces k) k rest).map heE0).reverse ++ acc.2) := by
  intro rest
  induction rest with
  | nil => intro k _ acc; simp [sidesFrom]
  | cons F rest ih =>
    intro k hk acc
    have hlt : k < faces.length := by
      rcases Nat.lt_or_ge k faces.length with h | h
      · exact h
      · rw [List.drop_eq_nil_of_le h] at hk; cases hk
    have hF : fa faces k = F := by
      have : faces[k]? = some F := by
        have := congrArg List.head? hk
        simpa [List.head?_drop] using this
      simp [fa, List.getD, this]
    have hrest : faces.drop (k + 1) = rest := by
      have : faces.drop (k + 1) = (faces.drop k).drop 1 := by rw [List.drop_drop]
      rw [this, hk]; rfl
    rw [List.zipIdx_cons, List.map_cons, List.foldl_cons]
    have hstep : computeConnectivity_for3_step S vf acc (k, F) =
        (List.range (fa faces k).length).foldl (computeConnectivity_for4_step S vf k (fa faces k) (fa faces k).length) acc := by
      rw [hF]; obtain ⟨a, b⟩ := acc; rfl
    rw [hstep, inner_fold S vf faces k (fun i hi => H k i hlt hi), ih (k + 1) hrest]
    have hoff : offset faces (k + 1) = offset faces k + F.length := by rw [offset_succ faces k hlt, hF]
    simp only [sidesFrom, hoff, hF, List.map_append, List.reverse_append, List.append_assoc]


/-! ### loop 5: the opposite pass -/
def swp (k : Nat × Nat) : Nat × Nat := (k.2, k.1)

theorem heGet0_map_pres (d : HEDict) (ψ : (Nat × Nat) × List (Option Nat) → (Nat × Nat) × List (Option Nat))
    (h1 : ∀ e, (ψ e).1 = e.1) (h0 : ∀ e, (ψ e).2.getD 0 none = e.2.getD 0 none) (k : Nat × Nat) :
    heGet0 (d.map ψ) k = heGet0 d k := by
  unfold heGet0 dictFind
  rw [List.find?_map]
  have : ((fun (e : (Nat × Nat) × List (Option Nat)) => e.1 == k) ∘ ψ) = fun e => e.1 == k := by
    funext e; simp [Function.comp, h1]
  rw [this]
  cases d.find? (fun e => e.1 == k) with
  | none => rfl
  | some e =>
    have := h0 e
    simpa [List.getD_eq_getElem?_getD] using this

theorem getD0_set3 (l : List (Option Nat)) (x : Option Nat) : (l.set 3 x).getD 0 none = l.getD 0 none := by
  simp [List.getD_eq_getElem?_getD, List.getElem?_set_ne]

/-- the value of an entry once both it and its reverse have been handled -/
def tgt (he0 : HEDict) (e : (Nat × Nat) × List (Option Nat)) : (Nat × Nat) × List (Option Nat) :=
  (e.1, e.2.set 3 (heGet0 he0 (swp e.1)))

def phi (he0 : HEDict) (P : List (Nat × Nat)) (e : (Nat × Nat) × List (Option Nat)) : (Nat × Nat) × List (Option Nat) :=
  if e.1 ∈ P ∨ swp e.1 ∈ P then tgt he0 e else e

theorem phi_key (he0 : HEDict) (P) (e) : (phi he0 P e).1 = e.1 := by unfold phi tgt; split <;> rfl
theorem phi_f0 (he0 : HEDict) (P) (e) : (phi he0 P e).2.getD 0 none = e.2.getD 0 none := by
  unfold phi tgt; split
  · exact getD0_set3 _ _
  · rfl

theorem opp_step (S : Surf) (he0 : HEDict)
    (h3 : ∀ e ∈ he0, e.2.set 3 none = e.2) (h0 : ∀ e ∈ he0, (heGet0 he0 e.1).isSome = true)
    (done : List (Nat × Nat)) (k : Nat × Nat) (hk : k ∈ he0.map (·.1)) :
    computeConnectivity_for5_step S (he0.map (phi he0 done)) k = he0.map (phi he0 (done ++ [k])) := by
  obtain ⟨A, B⟩ := k
  obtain ⟨ek, hek, hekk⟩ := List.mem_map.mp hk
  have hAB : (heGet0 he0 (A, B)).isSome = true := by rw [← hekk]; exact h0 ek hek
  have hpres := heGet0_map_pres he0 (phi he0 done) (phi_key he0 done) (phi_f0 he0 done)
  simp only [computeConnectivity_for5_step, hpres, hAB, Bool.true_and]
  cases hBA : heGet0 he0 (B, A) with
  | none =>
    simp only [Option.isSome_none, Bool.false_eq_true, if_false]
    apply List.map_congr_left
    intro e he
    unfold phi
    by_cases h1 : e.1 = (A, B)
    · have hs : swp e.1 = (B, A) := by rw [h1]; rfl
      have ht : tgt he0 e = e := by
        unfold tgt; rw [hs, hBA, h3 e he]
      simp only [h1, List.mem_append, List.mem_singleton, or_true, true_or, if_true]
      rw [← h1]
      split <;> simp [ht]
    · by_cases h2 : swp e.1 = (A, B)
      · exfalso
        have : e.1 = (B, A) := by
          obtain ⟨⟨a, b⟩, l⟩ := e
          simp only [swp, Prod.mk.injEq] at h2 ⊢
          exact ⟨h2.2, h2.1⟩
        have := h0 e he
        rw [‹e.1 = (B, A)›, hBA] at this
        simp at this
      · simp [h1, h2]
  | some x =>
    simp only [Option.isSome_some, if_true]
    unfold heSetOpp
    rw [List.map_map, List.map_map]
    apply List.map_congr_left
    intro e he
    simp only [Function.comp]
    have hkey := phi_key he0 done e
    by_cases h1 : e.1 = (A, B)
    · have hs : swp e.1 = (B, A) := by rw [h1]; rfl
      have hphi : ((phi he0 done e).1, (phi he0 done e).2.set 3 (some x)) = tgt he0 e := by
        unfold tgt phi
        rw [hs, hBA]
        split <;> simp [tgt, List.set_set]
      have hR : phi he0 (done ++ [(A, B)]) e = tgt he0 e := by
        unfold phi; simp [h1]
      rw [hR]
      simp only [hkey, h1, beq_self_eq_true, if_true]
      have hphi' : ((A, B), (phi he0 done e).2.set 3 (some x)) = tgt he0 e := by
        rw [← h1, ← hkey]; exact hphi
      by_cases hsym : (A, B) = (B, A)
      · have hx : heGet0 he0 (A, B) = some x := by rw [hsym]; exact hBA
        have hb : ((A, B) == (B, A)) = true := by simpa using hsym
        rw [hb, if_pos rfl, hx, List.set_set]
        exact hphi'
      · have hb : ((A, B) == (B, A)) = false := by simpa using hsym
        rw [hb]
        simp only [Bool.false_eq_true, if_false]
        exact hphi'
    · have hne : (e.1 == (A, B)) = false := by simpa using h1
      simp only [hkey, hne, Bool.false_eq_true, if_false]
      by_cases h2 : e.1 = (B, A)
      · have hs : swp e.1 = (A, B) := by rw [h2]; rfl
        have hR : phi he0 (done ++ [(A, B)]) e = tgt he0 e := by
          unfold phi; simp [hs]
        rw [hR]
        simp only [h2, beq_self_eq_true, if_true]
        unfold tgt phi
        rw [hs]
        split <;> simp [tgt, hs, List.set_set, h2]
      · have hne2 : (e.1 == (B, A)) = false := by simpa using h2
        have hs : swp e.1 ≠ (A, B) := by
          intro h; apply h2
          obtain ⟨⟨a, b⟩, l⟩ := e
          simp only [swp, Prod.mk.injEq] at h ⊢
          exact ⟨h.2, h.1⟩
        simp only [hne2, Bool.false_eq_true, if_false]
        unfold phi
        simp [h1, hs]

/-- **the opposite pass**: every entry gets, in field 3, the corner of the reversed key when that key is in the table -/
theorem opp_pass (S : Surf) (he0 : HEDict)
    (h3 : ∀ e ∈ he0, e.2.set 3 none = e.2) (h0 : ∀ e ∈ he0, (heGet0 he0 e.1).isSome = true) :
    (he0.map (·.1)).foldl (computeConnectivity_for5_step S) he0 = he0.map (tgt he0) := by
  have gen : ∀ (todo done : List (Nat × Nat)), (∀ k ∈ todo, k ∈ he0.map (·.1)) →
      todo.foldl (computeConnectivity_for5_step S) (he0.map (phi he0 done)) = he0.map (phi he0 (done ++ todo)) := by
    intro todo
    induction todo with
    | nil => intro done _; simp
    | cons k todo ih =>
      intro done hk
      rw [List.foldl_cons, opp_step S he0 h3 h0 done k (hk k (List.mem_cons_self ..)),
        ih (done ++ [k]) (fun k' hk' => hk k' (List.mem_cons_of_mem _ hk'))]
      simp
  have h := gen (he0.map (·.1)) [] (fun k hk => hk)
  have hnil : he0.map (phi he0 []) = he0 := by
    have : phi he0 [] = id := by funext e; simp [phi]
    rw [this, List.map_id]
  rw [hnil] at h
  rw [h]
  apply List.map_congr_left
  intro e he
  unfold phi
  have : e.1 ∈ [] ++ List.map (fun x => x.1) he0 := by
    simp only [List.nil_append]; exact List.mem_map.mpr ⟨e, he, rfl⟩
  rw [if_pos (Or.inl this)]


/-! ### the tables `_compute_connectivity` leaves, and the accessors on them -/

/-- final `_half_edges` entry of a side: field 3 is the corner of the reversed side when there is one -/
def heE (l : List Side) (s : Side) : (Nat × Nat) × List (Option Nat) :=
  ((s.u, s.v), [some s.c, some s.cp, some s.cn, oppOf l s, some s.f, some s.i, some s.j])

theorem dictFind_map_key {α ν} (l : List α) (key : α → Nat × Nat) (val : α → ν) (a b : Nat) :
    dictFind (l.map fun s => (key s, val s)) (a, b) = (l.find? fun s => key s == (a, b)).map val := by
  unfold dictFind
  rw [List.find?_map, Option.map_map]
  rfl

theorem dictFind_he (l l0 : List Side) (a b : Nat) :
    dictFind (l.map (heE l0)) (a, b) = (lookupHE l a b).map fun s => (heE l0 s).2 :=
  dictFind_map_key l (fun s => (s.u, s.v)) (fun s => (heE l0 s).2) a b

theorem dictFind_he0 (l : List Side) (a b : Nat) :
    dictFind (l.map heE0) (a, b) = (lookupHE l a b).map fun s => (heE0 s).2 :=
  dictFind_map_key l (fun s => (s.u, s.v)) (fun s => (heE0 s).2) a b

theorem dictFind_cn (l : List Side) (c : Nat) :
    dictFind (l.map cnE) c = (cn2he l c).map fun s => (s.u, s.v) := by
  unfold dictFind cn2he cnE
  rw [List.find?_map, Option.map_map]
  rfl

theorem heGet0_he0 (l : List Side) (a b : Nat) : heGet0 (l.map heE0) (a, b) = (lookupHE l a b).map (·.c) := by
  unfold heGet0; rw [dictFind_he0]; cases lookupHE l a b <;> rfl

/-- what the three loops leave in `_half_edges` / `_Cn2he`, for any mesh whose `_adjVF2Cn` lookups give `offset f + i` -/
theorem compute_tables (S : Surf) (faces : Faces) (hF : S.faces = faces) (hR : S.sidesR = (sides faces).reverse)
    (H : ∀ k i, k < faces.length → i < (fa faces k).length →
      dictGetD S.fc.zipIdx.reverse ((fa faces k).getD i 0, k) = offset faces k + i) :
    (computeConnectivity S).2.2.2.1 = S.sidesR.map (heE S.sidesR) ∧ (computeConnectivity S).2.2.2.2 = S.sidesR.map cnE := by
  have hvf := computeConnectivity_vf S
  have hof := outer_fold S S.fc.zipIdx.reverse faces H faces 0 rfl ([], [])
  simp only [List.append_nil] at hof
  have hsides : sidesFrom (offset faces 0) 0 faces = sides faces := by simp [sides, offset]
  rw [hsides, ← List.map_reverse, ← List.map_reverse, ← hR] at hof
  -- unfold the translated function: loops 3/4 run on the `_adjVF2Cn` of loop 1, loop 5 on their result
  have hshape : (computeConnectivity S).2.2.2 =
      (((List.foldl (computeConnectivity_for3_step S (computeConnectivity S).2.1) ([], [])
          ((S.faces.zipIdx.map fun p => (p.2, p.1)))).2.map fun e => e.1).foldl (computeConnectivity_for5_step S)
        (List.foldl (computeConnectivity_for3_step S (computeConnectivity S).2.1) ([], [])
          ((S.faces.zipIdx.map fun p => (p.2, p.1)))).2,
       (List.foldl (computeConnectivity_for3_step S (computeConnectivity S).2.1) ([], [])
          ((S.faces.zipIdx.map fun p => (p.2, p.1)))).1) := rfl
  rw [hvf, hF, hof] at hshape
  have h3 : ∀ e ∈ S.sidesR.map heE0, e.2.set 3 none = e.2 := by
    intro e he; obtain ⟨s, _, rfl⟩ := List.mem_map.mp he; rfl
  have h0 : ∀ e ∈ S.sidesR.map heE0, (heGet0 (S.sidesR.map heE0) e.1).isSome = true := by
    intro e he
    obtain ⟨s, hs, rfl⟩ := List.mem_map.mp he
    show (heGet0 (S.sidesR.map heE0) (s.u, s.v)).isSome = true
    rw [heGet0_he0]
    have : (lookupHE S.sidesR s.u s.v).isSome = true := by
      unfold lookupHE
      rw [List.find?_isSome]
      exact ⟨s, hs, by simp⟩
    cases h : lookupHE S.sidesR s.u s.v with
    | none => rw [h] at this; cases this
    | some t => rfl
  have hpass := opp_pass S (S.sidesR.map heE0) h3 h0
  have hfst : ((computeConnectivity S).2.2.2).1 = S.sidesR.map (heE S.sidesR) := by
    rw [hshape]
    show List.foldl (computeConnectivity_for5_step S) (S.sidesR.map heE0) ((S.sidesR.map heE0).map fun e => e.1) = _
    rw [hpass, List.map_map]
    apply List.map_congr_left
    intro s _
    show tgt (S.sidesR.map heE0) (heE0 s) = heE S.sidesR s
    show ((s.u, s.v), (heE0 s).2.set 3 (heGet0 (S.sidesR.map heE0) (s.v, s.u))) = _
    rw [heGet0_he0]
    rfl
  have hsnd : ((computeConnectivity S).2.2.2).2 = S.sidesR.map cnE := by rw [hshape]
  exact ⟨hfst, hsnd⟩

section accessors
variable (S : Surf) (cn : CnDict) (he : HEDict) (vf : VFDict)
  (hhe : he = S.sidesR.map (heE S.sidesR)) (hcn : cn = S.sidesR.map cnE)
include hhe hcn

theorem heField_he (a b i : Nat) : heField he (a, b) i = (lookupHE S.sidesR a b).bind fun s => (heE S.sidesR s).2.getD i none := by
  unfold heField; rw [hhe, dictFind_he]; cases lookupHE S.sidesR a b <;> rfl

theorem previousCorner_bridge (c : Nat) : Mouette.Generated.C01HE.previousCorner S he cn vf c = Mouette.Surface.previousCorner S c := by
  unfold Mouette.Generated.C01HE.previousCorner Mouette.Surface.previousCorner
  try simp only []
  rw [hcn, dictFind_cn]
  cases cn2he S.sidesR c with
  | none => rfl
  | some k =>
    simp only [Option.map_some]
    rw [heField_he S cn he hhe hcn]
    simp only [Option.bind_eq_bind, Option.bind_some, Option.pure_def]
    cases lookupHE S.sidesR k.u k.v <;> rfl

theorem nextCorner_bridge (c : Nat) : Mouette.Generated.C01HE.nextCorner S he cn vf c = Mouette.Surface.nextCorner S c := by
  unfold Mouette.Generated.C01HE.nextCorner Mouette.Surface.nextCorner
  try simp only []
  rw [hcn, dictFind_cn]
  cases cn2he S.sidesR c with
  | none => rfl
  | some k =>
    simp only [Option.map_some]
    rw [heField_he S cn he hhe hcn]
    simp only [Option.bind_eq_bind, Option.bind_some, Option.pure_def]
    cases lookupHE S.sidesR k.u k.v <;> rfl

theorem oppositeCorner_bridge (c : Nat) : Mouette.Generated.C01HE.oppositeCorner S he cn vf c = Mouette.Surface.oppositeCorner S c := by
  unfold Mouette.Generated.C01HE.oppositeCorner Mouette.Surface.oppositeCorner
  try simp only []
  rw [hcn, dictFind_cn]
  cases cn2he S.sidesR c with
  | none => rfl
  | some k =>
    simp only [Option.map_some]
    rw [heField_he S cn he hhe hcn]
    simp only [Option.bind_eq_bind, Option.bind_some, Option.pure_def]
    cases lookupHE S.sidesR k.u k.v <;> rfl

theorem cornerToHalfEdge_bridge (c : Nat) : Mouette.Generated.C01HE.cornerToHalfEdge S he cn vf c = Mouette.Surface.cornerToHalfEdge S c := by
  unfold Mouette.Generated.C01HE.cornerToHalfEdge Mouette.Surface.cornerToHalfEdge
  try simp only []
  rw [hcn, dictFind_cn]

theorem halfEdgeToCorner_bridge (u v : Nat) : Mouette.Generated.C01HE.halfEdgeToCorner S he cn vf u v = Mouette.Surface.halfEdgeToCorner S u v := by
  unfold Mouette.Generated.C01HE.halfEdgeToCorner Mouette.Surface.halfEdgeToCorner heGet0
  try simp only []
  rw [hhe, dictFind_he]
  cases lookupHE S.sidesR u v <;> rfl

theorem dictHas_he (a b : Nat) : dictHas he (a, b) = (lookupHE S.sidesR a b).isSome := by
  unfold dictHas lookupHE
  rw [hhe, List.any_map, Bool.eq_iff_iff, List.any_eq_true, List.find?_isSome]
  rfl

theorem directFace_bridge (u v : Nat) : Mouette.Generated.C01HE.directFace S he cn vf u v = Mouette.Surface.directFace S u v := by
  unfold Mouette.Generated.C01HE.directFace Mouette.Surface.directFace
  try simp only []
  rw [dictHas_he S cn he hhe hcn, heField_he S cn he hhe hcn]
  cases lookupHE S.sidesR u v <;> rfl

/-- with `return_inds=True` the code returns a triple of possibly-`None` values; the model an optional triple -/
def tripleOf : Option (Nat × Nat × Nat) → Option Nat × Option Nat × Option Nat
  | some (a, b, c) => (some a, some b, some c)
  | none => (none, none, none)

theorem directFaceInds_bridge (u v : Nat) :
    Mouette.Generated.C01HE.directFaceInds S he cn vf u v = tripleOf (Mouette.Surface.directFaceInds S u v) := by
  unfold Mouette.Generated.C01HE.directFaceInds Mouette.Surface.directFaceInds heInds
  try simp only []
  rw [dictHas_he S cn he hhe hcn, heField_he S cn he hhe hcn, heField_he S cn he hhe hcn, heField_he S cn he hhe hcn]
  cases lookupHE S.sidesR u v <;> rfl

theorem oppositeFace_bridge (u v F : Nat) : Mouette.Generated.C01HE.oppositeFace S he cn vf u v F = Mouette.Surface.oppositeFace S u v F := by
  unfold Mouette.Generated.C01HE.oppositeFace Mouette.Surface.oppositeFace
  try simp only []
  simp only [directFace_bridge S cn he vf hhe hcn]
  have e1 : ∀ o : Option Nat, (some F == o) = (o == some F) := fun o => BEq.comm
  simp only [e1]
  first | done | rfl

theorem oppositeFaceInds_bridge (u v F : Nat) :
    Mouette.Generated.C01HE.oppositeFaceInds S he cn vf u v F = tripleOf (Mouette.Surface.oppositeFaceInds S u v F) := by
  unfold Mouette.Generated.C01HE.oppositeFaceInds Mouette.Surface.oppositeFaceInds
  try simp only []
  simp only [directFaceInds_bridge S cn he vf hhe hcn]
  cases h1 : Mouette.Surface.directFaceInds S u v with
  | none =>
    cases h2 : Mouette.Surface.directFaceInds S v u with
    | none => simp [tripleOf]
    | some t2 =>
      obtain ⟨f2, a2, b2⟩ := t2
      by_cases hf : F = f2
      · subst hf; simp [tripleOf]
      · have hf' : ¬ f2 = F := fun h => hf h.symm
        simp [tripleOf, hf, hf']
  | some t1 =>
    obtain ⟨f1, a1, b1⟩ := t1
    cases h2 : Mouette.Surface.directFaceInds S v u with
    | none =>
      by_cases hf : F = f1
      · subst hf; simp [tripleOf]
      · have hf' : ¬ f1 = F := fun h => hf h.symm
        simp [tripleOf, hf, hf']
    | some t2 =>
      obtain ⟨f2, a2, b2⟩ := t2
      by_cases hf : F = f1
      · subst hf; simp [tripleOf]
      · have hf' : ¬ f1 = F := fun h => hf h.symm
        by_cases hg : F = f2
        · subst hg; simp [tripleOf, hf, hf']
        · have hg' : ¬ f2 = F := fun h => hg h.symm
          simp [tripleOf, hf, hf', hg, hg']

end accessors

theorem vertexToCornerInFace_bridge (S : Surf) (cn : CnDict) (he : HEDict) (vf : VFDict) (hvf : vf = S.fcR) (v f : Nat) :
    Mouette.Generated.C01HE.vertexToCornerInFace S he cn vf v f = Mouette.Surface.vertexToCornerInFace S v f := by
  unfold Mouette.Generated.C01HE.vertexToCornerInFace Mouette.Surface.vertexToCornerInFace dictGet
  try simp only []
  rw [hvf]

theorem vertexToFaces_bridge (S : Surf) (cn : CnDict) (he : HEDict) (vf : VFDict) (v : Nat) :
    Mouette.Generated.C01HE.vertexToFaces S he cn vf v = Mouette.Surface.vertexToFaces S v := rfl

end Mouette.Lemmas.C01HalfEdge
