import Mouette.Lemmas.SubdivComplete7
/-
C13 (round 2): `split_tet_from_face_center` + `_complete_faces_from_cells`: 3 faces per cell on the face are completed.
-/
namespace Mouette.Subdiv

/-- the new face keys (t, centre, opposite vertex) -/
def newFaceKeys (m : Raw) (a b c : Nat) : List (List Nat) :=
  (opps m [a, b, c]).flatMap (fun o => [keyifyL [a, m.verts.length, o], keyifyL [b, m.verts.length, o],
    keyifyL [c, m.verts.length, o]])

theorem key_sep (l₁ l₂ : List Nat) (t : Nat) (h1 : t ∈ l₁) (h2 : t ∉ l₂) : keyifyL l₁ ≠ keyifyL l₂ :=
  fun e => h2 (key_mem_of_eq e t h1)

/-- bundle of facts shared by the face and edge counts -/
theorem faceSplit_setup (m m' : Raw) (fid a b c : Nat) (hf : m.faces[fid]? = some [a, b, c])
    (h : splitTetFromFaceCenter m fid = .ok m') (hF : FacesAreCellFaces m) (hwf : WF m) (hT : TetCells m)
    (hn : [a, b, c].Nodup) :
    let ic := m.verts.length
    (m'.faces.map keyifyL).Nodup ∧
    (∀ kk ∈ m.faces.map keyifyL, kk ≠ keyifyL [a, b, c] → kk ∈ m'.faces.map keyifyL) ∧
    (keyifyL [a, b, ic] ∈ m'.faces.map keyifyL ∧ keyifyL [ic, b, c] ∈ m'.faces.map keyifyL ∧
      keyifyL [a, ic, c] ∈ m'.faces.map keyifyL) ∧
    (∀ kk ∈ m'.faces.map keyifyL, kk ∈ m.faces.map keyifyL ∨ kk = keyifyL [a, b, ic] ∨ kk = keyifyL [ic, b, c] ∨
      kk = keyifyL [a, ic, c]) ∧
    (∀ l : List Nat, ic ∈ l → keyifyL l ∉ m.faces.map keyifyL) := by
  intro ic
  obtain ⟨_, _, _, _, _, _, hfa, _⟩ := faceSplit_spec m m' fid a b c hf h
  have hfm : [a, b, c] ∈ m.faces := List.mem_of_getElem? hf
  have la : a < ic := hwf _ hfm a (by simp)
  have lb : b < ic := hwf _ hfm b (by simp)
  have lc : c < ic := hwf _ hfm c (by simp)
  obtain ⟨nab, nbc, nca⟩ := nodup3 hn
  have hi : fid < m.faces.length := by
    by_contra hc; rw [List.getElem?_eq_none (by omega)] at hf; cases hf
  have hget : m.faces[fid] = [a, b, c] := by
    have := List.getElem?_eq_getElem hi; rw [this] at hf; exact Option.some.inj hf
  have hfresh : ∀ l : List Nat, ic ∈ l → keyifyL l ∉ m.faces.map keyifyL := by
    intro l hl hk
    obtain ⟨f, hf', e⟩ := List.mem_map.mp hk
    have := key_mem_of_eq e.symm ic hl
    exact absurd (hwf f hf' ic this) (by omega)
  have hkeys : m'.faces.map keyifyL = (m.faces.map keyifyL).set fid (keyifyL [a, b, ic]) ++
      [keyifyL [ic, b, c], keyifyL [a, ic, c]] := by
    rw [hfa]; simp only [List.map_append, List.map_set, List.map_cons, List.map_nil]; rfl
  have k12 : keyifyL [a, b, ic] ≠ keyifyL [ic, b, c] := key_sep _ _ a (by simp) (by simp; omega)
  have k13 : keyifyL [a, b, ic] ≠ keyifyL [a, ic, c] := key_sep _ _ b (by simp) (by simp; omega)
  have k23 : keyifyL [ic, b, c] ≠ keyifyL [a, ic, c] := key_sep _ _ b (by simp) (by simp; omega)
  refine ⟨?_, ?_, ?_, ?_, hfresh⟩
  · rw [hkeys, List.nodup_append]
    refine ⟨hF.1.set (hfresh _ (by simp)), ?_, ?_⟩
    · simp only [List.nodup_cons, List.mem_cons, List.not_mem_nil, or_false, List.nodup_nil, and_true, not_false_eq_true]
      exact k23
    · intro x hx y hy hxy
      subst hxy
      simp only [List.mem_cons, List.not_mem_nil, or_false] at hy
      rcases List.mem_or_eq_of_mem_set hx with h1 | h1
      · rcases hy with rfl | rfl <;> exact hfresh _ (by simp) h1
      · rcases hy with rfl | rfl
        · exact k12 h1.symm
        · exact k13 h1.symm
  · intro kk hkk hne
    rw [hkeys]
    apply List.mem_append_left
    obtain ⟨j, hj, rfl⟩ := List.getElem_of_mem hkk
    have hj' : j < m.faces.length := by simpa using hj
    have hjf : fid ≠ j := by
      intro e; subst e
      apply hne; simp [hget]
    have : ((m.faces.map keyifyL).set fid (keyifyL [a, b, ic]))[j]'(by simpa using hj') = (m.faces.map keyifyL)[j] := by
      rw [List.getElem_set]; simp [hjf]
    rw [← this]; exact List.getElem_mem _
  · rw [hkeys]
    refine ⟨List.mem_append_left _ (mem_set_self' _ _ _ (by simpa using hi)), ?_, ?_⟩ <;> simp
  · intro kk hkk
    rw [hkeys] at hkk
    rcases List.mem_append.mp hkk with h1 | h1
    · rcases List.mem_or_eq_of_mem_set h1 with h2 | h2
      · exact Or.inl h2
      · exact Or.inr (Or.inl h2)
    · simp only [List.mem_cons, List.not_mem_nil, or_false] at h1
      rcases h1 with h2 | h2
      · exact Or.inr (Or.inr (Or.inl h2))
      · exact Or.inr (Or.inr (Or.inr h2))

theorem faceSplit_faces_count (m m' : Raw) (fid a b c : Nat) (hf : m.faces[fid]? = some [a, b, c])
    (h : splitTetFromFaceCenter m fid = .ok m') (hF : FacesAreCellFaces m) (hwf : WF m) (hT : TetCells m)
    (hD : CellsDistinct m) (hn : [a, b, c].Nodup) :
    (completeFaces m').faces.length = m.faces.length + 2 + 3 * (adjacentCells m [a, b, c]).length ∧
    (∀ kk ∈ newFaceKeys m a b c, kk ∈ (m'.cells.flatMap tetFaces).map keyifyL) := by
  set ic := m.verts.length with hic
  obtain ⟨hnd', hinK, ⟨hk1, hk2, hk3⟩, hK'cases, hfresh⟩ := faceSplit_setup m m' fid a b c hf h hF hwf hT hn
  obtain ⟨_, _, _, _, _, _, hfa, _⟩ := faceSplit_spec m m' fid a b c hf h
  have hfm : [a, b, c] ∈ m.faces := List.mem_of_getElem? hf
  have la : a < ic := hwf _ hfm a (by simp)
  have lb : b < ic := hwf _ hfm b (by simp)
  have lc : c < ic := hwf _ hfm c (by simp)
  obtain ⟨nab, nbc, nca⟩ := nodup3 hn
  -- facts about opposite vertices
  have hoppf : ∀ o ∈ opps m [a, b, c], o < ic ∧ o ≠ a ∧ o ≠ b ∧ o ≠ c := by
    intro o ho
    obtain ⟨cell, hcm, _, hopp⟩ := (mem_opps m _ hT hn rfl o).mp ho
    have := (hT cell hcm).2.2 o hopp.1
    have hnf := hopp.2.1
    simp only [List.mem_cons, List.not_mem_nil, or_false, not_or] at hnf
    exact ⟨this, hnf.1, hnf.2.1, hnf.2.2⟩
  -- the new keys really occur among the faces of the new cells
  have hNL : ∀ kk ∈ newFaceKeys m a b c, kk ∈ (m'.cells.flatMap tetFaces).map keyifyL := by
    intro kk hkk
    simp only [newFaceKeys, List.mem_flatMap] at hkk
    obtain ⟨o, ho, hkk⟩ := hkk
    obtain ⟨lo, oa, ob, oc⟩ := hoppf o ho
    obtain ⟨cell, hcm, hsub, hopp⟩ := (mem_opps m _ hT hn rfl o).mp ho
    have mk : ∀ t x, t ∈ [a, b, c] → x ∈ [a, b, c] → x ≠ t → t ≠ o → t < ic →
        keyifyL [t, ic, o] ∈ (m'.cells.flatMap tetFaces).map keyifyL := by
      intro t x ht hx hxt hto lt
      obtain ⟨cell', hc', h4', hcn', hdesc⟩ := (faceSplit_cells m m' fid a b c hf h hT hn).2 cell hcm hsub x hx
      have hsub3 : [t, ic, o] ⊆ cell' := by
        intro v hv
        simp only [List.mem_cons, List.not_mem_nil, or_false] at hv
        rcases hv with rfl | rfl | rfl
        · exact (hdesc _).mpr (Or.inr ⟨hsub ht, fun e => hxt e.symm⟩)
        · exact (hdesc _).mpr (Or.inl rfl)
        · exact (hdesc _).mpr (Or.inr ⟨hopp.1, fun e => hopp.2.1 (e ▸ hx)⟩)
      obtain ⟨g0, hg0, e0⟩ := face_of_cell' cell' [t, ic, o] h4' hcn' (by
        simp only [List.nodup_cons, List.mem_cons, List.not_mem_nil, or_false, not_or, List.nodup_nil, and_true,
          not_false_eq_true]
        omega) rfl hsub3
      exact List.mem_map.mpr ⟨g0, List.mem_flatMap.mpr ⟨cell', hc', hg0⟩, e0⟩
    simp only [List.mem_cons, List.not_mem_nil, or_false] at hkk
    rcases hkk with rfl | rfl | rfl
    · exact mk a b (by simp) (by simp) (fun e => nab e.symm) (fun e => oa e.symm) la
    · exact mk b a (by simp) (by simp) nab (fun e => ob e.symm) lb
    · exact mk c a (by simp) (by simp) (fun e => nca e.symm) (fun e => oc e.symm) lc
  refine ⟨?_, hNL⟩
  have hcount := completeFold_count keyifyL (m'.faces.map keyifyL) m'.faces (m'.cells.flatMap tetFaces)
    (newFaceKeys m a b c) hnd' ?_ ?_ ?_
  · rw [completeFaces_eq, hcount, hfa]
    have hNlen : (newFaceKeys m a b c).length = 3 * (opps m [a, b, c]).length :=
      flatMap_length_const _ 3 _ (fun _ _ => rfl)
    rw [hNlen, opps_length m _ hT hn rfl]
    simp
  · -- the new keys are pairwise different
    rw [newFaceKeys, List.nodup_flatMap]
    constructor
    · intro o ho
      obtain ⟨lo, oa, ob, oc⟩ := hoppf o ho
      simp only [List.nodup_cons, List.mem_cons, List.not_mem_nil, or_false, not_or, List.nodup_nil, and_true,
        not_false_eq_true]
      refine ⟨⟨key_sep _ _ a (by simp) (by simp; omega), key_sep _ _ a (by simp) (by simp; omega)⟩,
        key_sep _ _ b (by simp) (by simp; omega)⟩
    · have hop := opps_nodup m _ hT hD hn rfl
      refine (List.Pairwise.and_mem.mp hop).imp ?_
      rintro o o' ⟨ho, ho', hne⟩
      obtain ⟨lo, oa, ob, oc⟩ := hoppf o ho
      obtain ⟨lo', oa', ob', oc'⟩ := hoppf o' ho'
      simp only [Function.onFun, List.disjoint_left, List.mem_cons, List.not_mem_nil, or_false]
      rintro x (rfl | rfl | rfl) (e | e | e) <;>
        (have := key_mem_of_eq e o (by simp); simp at this; omega)
  · -- and are not keys of the face list
    intro kk hkk hin
    simp only [newFaceKeys, List.mem_flatMap] at hkk
    obtain ⟨o, ho, hkk⟩ := hkk
    obtain ⟨lo, oa, ob, oc⟩ := hoppf o ho
    simp only [List.mem_cons, List.not_mem_nil, or_false] at hkk
    rcases hK'cases kk hin with h1 | h1 | h1 | h1
    · rcases hkk with rfl | rfl | rfl <;> exact hfresh _ (by simp) h1
    all_goals
      rcases hkk with rfl | rfl | rfl <;>
        (have := key_mem_of_eq h1 o (by simp); simp at this; omega)
  · intro kk
    constructor
    · rintro (hk | hk)
      · exact Or.inl hk
      · obtain ⟨g, hg, rfl⟩ := List.mem_map.mp hk
        obtain ⟨cell', hc', hgc⟩ := List.mem_flatMap.mp hg
        rcases classify_key m m' fid a b c hf h hF hwf hT hn cell' hc' g hgc with ⟨h1, h2⟩ | (h1 | h1 | h1) | ⟨t, ht, o, ho, e⟩
        · exact Or.inl (hinK _ h1 h2)
        · exact Or.inl (h1 ▸ hk1)
        · exact Or.inl (h1 ▸ hk2)
        · exact Or.inl (h1 ▸ hk3)
        · right
          rw [e]
          simp only [newFaceKeys, List.mem_flatMap]
          refine ⟨o, ho, ?_⟩
          simp only [List.mem_cons, List.not_mem_nil, or_false] at ht ⊢
          rcases ht with rfl | rfl | rfl <;> simp
    · rintro (hk | hk)
      · exact Or.inl hk
      · exact Or.inr (hNL kk hk)

end Mouette.Subdiv
