import Mathlib.Data.Rat.Floor
import Mouette.Lemmas.AnglesR
import Mouette.Lemmas.AABB
import Mouette.Lemmas.BoxHist
import Mouette.Model.Turns
/-
Helper lemmas for `Props/C12T.lean`: the turn-based executable reductions versus the real specifications, and
`AABB.pad` (clamping, superset).
-/
namespace Mouette.Turns
open Real Mouette.Angles

theorem fractTurn_range (t : ℚ) : 0 ≤ fractTurn t ∧ fractTurn t < 1 := by
  unfold fractTurn
  have h1 : ((Rat.floor t : ℤ) : ℚ) ≤ t := Int.floor_le t
  have h2 : t < ((Rat.floor t : ℤ) : ℚ) + 1 := Int.lt_floor_add_one t
  constructor <;> linarith

/-- `(2π·t) mod 2π = 2π·(t mod 1)` -/
theorem pmod_turn (t : ℚ) : pmod (2 * π * (t : ℝ)) (2 * π) = 2 * π * ((fractTurn t : ℚ) : ℝ) := by
  unfold pmod fractTurn
  have hpi : (2 * π) ≠ 0 := by positivity
  have e : 2 * π * (t : ℝ) / (2 * π) = (t : ℝ) := by field_simp
  rw [e, Rat.floor_cast]
  push_cast
  have : (Rat.floor t : ℤ) = ⌊t⌋ := rfl
  rw [this]; ring

end Mouette.Turns

namespace Mouette.AABB
open EQ
namespace Box

theorem addR_neg_le {l : EQ} {x : Rat} (hx : 0 ≤ x) : l.addR (-x) ≤ l := by
  cases l <;> simp [EQ.addR, leB]; linarith

theorem le_addR {h : EQ} {x : Rat} (hx : 0 ≤ x) : h ≤ h.addR x := by
  cases h <;> simp [EQ.addR, leB]; linarith

theorem rmax_zero_nonneg (x : Rat) : 0 ≤ rmax x 0 := by unfold rmax; split_ifs <;> linarith

theorem rmax_zero_idem (x : Rat) : rmax (rmax x 0) 0 = rmax x 0 := by unfold rmax; split_ifs <;> linarith

theorem zipWith_sub_le : ∀ {lo : List EQ} {p : List Rat}, lo.length = p.length → (∀ x ∈ p, 0 ≤ x) →
    AllLe (List.zipWith (fun l x => l.addR (-x)) lo p) lo
  | [], [], _, _ => by simp
  | [], _ :: _, h, _ => by simp at h
  | _ :: _, [], h, _ => by simp at h
  | l :: ls, x :: xs, h, hp => by
    simp only [List.zipWith_cons_cons]
    exact List.Forall₂.cons (addR_neg_le (hp x (by simp)))
      (zipWith_sub_le (by simpa using h) (fun y hy => hp y (List.mem_cons_of_mem _ hy)))

theorem le_zipWith_add : ∀ {hi : List EQ} {p : List Rat}, hi.length = p.length → (∀ x ∈ p, 0 ≤ x) →
    AllLe hi (List.zipWith (fun h x => h.addR x) hi p)
  | [], [], _, _ => by simp
  | [], _ :: _, h, _ => by simp at h
  | _ :: _, [], h, _ => by simp at h
  | l :: ls, x :: xs, h, hp => by
    simp only [List.zipWith_cons_cons]
    exact List.Forall₂.cons (le_addR (hp x (by simp)))
      (le_zipWith_add (by simpa using h) (fun y hy => hp y (List.mem_cons_of_mem _ hy)))

end Box
end Mouette.AABB
