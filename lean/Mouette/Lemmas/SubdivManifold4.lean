import Mouette.Lemmas.SubdivManifold
/-
C13 (round 6): the 1→3 quads refinement (`subdivide_triangles_3quads` on a triangle mesh) preserves consistent orientation /
edge-manifoldness ("every directed side occurs in at most one face") and maps border sides to border sides.
The directed sides of the result are the halves (u → m_uv), (m_uv → v) of the directed sides of the input, and the spokes
(m → S), (S → m) joining the three edge midpoints of a face to its barycentre vertex S.
-/
namespace Mouette.Subdiv

section
variable (es : List (Nat × Nat)) (base : Nat)

/-- `x` joins the midpoint of a side of `f` and the barycentre vertex `s` of `f` (either orientation) -/
def IsSpoke (f : List Nat) (s : Nat) (x : Nat × Nat) : Prop :=
  ∃ t mt, t ∈ sidesKeyed f ∧ halfLookup es base t = some mt ∧ (x = (mt, s) ∨ x = (s, mt))

end

theorem twelveQ_eq (a b c mab mbc mca s : Nat) :
    [[a, mab, s, mca], [b, mbc, s, mab], [c, mca, s, mbc]].flatMap cycPairs =
      [(a, mab), (mab, s), (s, mca), (mca, a), (b, mbc), (mbc, s), (s, mab), (mab, b),
       (c, mca), (mca, s), (s, mbc), (mbc, c)] := rfl

theorem twelveQ_nodup (base a b c mab mbc mca s : Nat) (ha : a < base) (hb : b < base) (hc : c < base)
    (h1 : base ≤ mab) (h2 : base ≤ mbc) (h3 : base ≤ mca) (s1 : mab < s) (s2 : mbc < s) (s3 : mca < s)
    (d1 : mab ≠ mbc) (d2 : mbc ≠ mca) (d3 : mca ≠ mab) :
    ([[a, mab, s, mca], [b, mbc, s, mab], [c, mca, s, mbc]].flatMap cycPairs).Nodup := by
  simp only [twelveQ_eq, List.nodup_cons, List.mem_cons, Prod.mk.injEq, List.not_mem_nil, or_false, List.nodup_nil,
    and_true, not_or]
  repeat' apply And.intro
  all_goals (first | omega | (intro h; omega))

theorem twelveQ_mem (es : List (Nat × Nat)) (base a b c mab mbc mca s : Nat)
    (l1 : halfLookup es base (keyify a b) = some mab) (l2 : halfLookup es base (keyify b c) = some mbc)
    (l3 : halfLookup es base (keyify c a) = some mca) (x : Nat × Nat) :
    x ∈ [[a, mab, s, mca], [b, mbc, s, mab], [c, mca, s, mbc]].flatMap cycPairs ↔
      IsHalf es base [a, b, c] x ∨ IsSpoke es base [a, b, c] s x := by
  have cA : (a, b) ∈ cycPairs [a, b, c] := by simp [cycPairs, cycGo]
  have cB : (b, c) ∈ cycPairs [a, b, c] := by simp [cycPairs, cycGo]
  have cC : (c, a) ∈ cycPairs [a, b, c] := by simp [cycPairs, cycGo]
  have mA : keyify a b ∈ sidesKeyed [a, b, c] := by simp [sidesKeyed_tri]
  have mB : keyify b c ∈ sidesKeyed [a, b, c] := by simp [sidesKeyed_tri]
  have mC : keyify c a ∈ sidesKeyed [a, b, c] := by simp [sidesKeyed_tri]
  rw [twelveQ_eq]
  constructor
  · intro hx
    simp only [List.mem_cons, List.not_mem_nil, or_false] at hx
    rcases hx with rfl | rfl | rfl | rfl | rfl | rfl | rfl | rfl | rfl | rfl | rfl | rfl
    · exact Or.inl ⟨a, b, mab, cA, l1, Or.inl rfl⟩
    · exact Or.inr ⟨_, mab, mA, l1, Or.inl rfl⟩
    · exact Or.inr ⟨_, mca, mC, l3, Or.inr rfl⟩
    · exact Or.inl ⟨c, a, mca, cC, l3, Or.inr rfl⟩
    · exact Or.inl ⟨b, c, mbc, cB, l2, Or.inl rfl⟩
    · exact Or.inr ⟨_, mbc, mB, l2, Or.inl rfl⟩
    · exact Or.inr ⟨_, mab, mA, l1, Or.inr rfl⟩
    · exact Or.inl ⟨a, b, mab, cA, l1, Or.inr rfl⟩
    · exact Or.inl ⟨c, a, mca, cC, l3, Or.inl rfl⟩
    · exact Or.inr ⟨_, mca, mC, l3, Or.inl rfl⟩
    · exact Or.inr ⟨_, mbc, mB, l2, Or.inr rfl⟩
    · exact Or.inl ⟨b, c, mbc, cB, l2, Or.inr rfl⟩
  · rintro (⟨u, v, mu, huv, hl, hx⟩ | ⟨t, mt, ht, hl, hx⟩)
    · simp only [cycPairs, cycGo, List.mem_cons, Prod.mk.injEq, List.not_mem_nil, or_false] at huv
      rcases huv with ⟨rfl, rfl⟩ | ⟨rfl, rfl⟩ | ⟨rfl, rfl⟩
      · rw [l1] at hl; cases hl; rcases hx with rfl | rfl <;> simp
      · rw [l2] at hl; cases hl; rcases hx with rfl | rfl <;> simp
      · rw [l3] at hl; cases hl; rcases hx with rfl | rfl <;> simp
    · simp only [sidesKeyed_tri, List.mem_cons, List.not_mem_nil, or_false] at ht
      rcases ht with rfl | rfl | rfl
      · rw [l1] at hl; cases hl; rcases hx with rfl | rfl <;> simp
      · rw [l2] at hl; cases hl; rcases hx with rfl | rfl <;> simp
      · rw [l3] at hl; cases hl; rcases hx with rfl | rfl <;> simp

/-! ### `enumerate` -/

theorem number_mem {α} : ∀ (l : List α) (k : Nat) (e : Nat × α), e ∈ number k l → k ≤ e.1 ∧ e.1 < k + l.length ∧ e.2 ∈ l := by
  intro l
  induction l with
  | nil => intro k e he; simp [number] at he
  | cons a t ih =>
    intro k e he
    simp only [number, List.mem_cons] at he
    rcases he with he | he
    · subst he; simp
    · obtain ⟨h1, h2, h3⟩ := ih (k + 1) e he
      simp only [List.length_cons, List.mem_cons]
      exact ⟨by omega, by omega, Or.inr h3⟩

theorem mem_number_of_mem {α} : ∀ (l : List α) (k : Nat) (a : α), a ∈ l → ∃ i, (i, a) ∈ number k l := by
  intro l
  induction l with
  | nil => intro k a ha; simp at ha
  | cons b t ih =>
    intro k a ha
    rcases List.mem_cons.mp ha with rfl | ha'
    · exact ⟨k, by simp [number]⟩
    · obtain ⟨i, hi⟩ := ih (k + 1) a ha'
      exact ⟨i, by simp [number, hi]⟩

theorem number_pairwiseR {α} (R : α → α → Prop) : ∀ (l : List α) (k : Nat), l.Pairwise R →
    (number k l).Pairwise (fun p q => p.1 ≠ q.1 ∧ R p.2 q.2) := by
  intro l
  induction l with
  | nil => intro k _; exact List.Pairwise.nil
  | cons a t ih =>
    intro k hp
    rw [List.pairwise_cons] at hp
    simp only [number]
    rw [List.pairwise_cons]
    refine ⟨?_, ih (k + 1) hp.2⟩
    intro q hq
    obtain ⟨h1, _, h3⟩ := number_mem t (k + 1) q hq
    exact ⟨by simp only [ne_eq]; omega, hp.1 q.2 h3⟩

/-! ### the refined mesh -/

theorem q3_part_desc (m : Raw) (hes : EdgesSorted m) (s : Nat) (f : List Nat) (p : List (List Nat) × List (Nat × Nat))
    (hp : quadsFace (m.edges, m.verts.length) s f = .ok p) :
    ∃ a b c mab mbc mca, f = [a, b, c] ∧ a ≠ b ∧ b ≠ c ∧ c ≠ a ∧
      halfLookup m.edges m.verts.length (keyify a b) = some mab ∧
      halfLookup m.edges m.verts.length (keyify b c) = some mbc ∧
      halfLookup m.edges m.verts.length (keyify c a) = some mca ∧
      p.1 = [[a, mab, s, mca], [b, mbc, s, mab], [c, mca, s, mbc]] := by
  obtain ⟨fs, es⟩ := p
  obtain ⟨a, b, c, mab, mbc, mca, hf, g1, g2, g3, hfs⟩ := quadsFace_spec _ _ _ _ _ hp
  have l1 := getHalf_ok _ _ _ _ _ g1
  have l2 := getHalf_ok _ _ _ _ _ g2
  have l3 := getHalf_ok _ _ _ _ _ g3
  exact ⟨a, b, c, mab, mbc, mca, hf, (half_bounds hes l1).2.2.1, (half_bounds hes l2).2.2.1, (half_bounds hes l3).2.2.1,
    l1, l2, l3, hfs⟩

/-- a directed side of the 1→3 quads mesh is a half of a directed side of some face, or a spoke of some face -/
theorem mem_dirSides_q3 (m m' : Raw) (h : quads3Core m = .ok m') (hes : EdgesSorted m) (x : Nat × Nat) :
    x ∈ dirSides m' ↔ ∃ sf ∈ number (m.verts.length + m.edges.length) m.faces,
      IsHalf m.edges m.verts.length sf.2 x ∨ IsSpoke m.edges m.verts.length sf.2 sf.1 x := by
  obtain ⟨mids, bs, parts, _, _, h3, _, hf, _⟩ := quads3Core_spec m m' h
  simp only [dirSides, hf, List.mem_flatMap]
  constructor
  · rintro ⟨face, ⟨p, hp, hfp⟩, hx⟩
    obtain ⟨sf, hsf, hfl⟩ := mapE_mem_back _ _ _ h3 p hp
    obtain ⟨a, b, c, mab, mbc, mca, hfe, _, _, _, l1, l2, l3, hp1⟩ := q3_part_desc m hes sf.1 sf.2 p hfl
    refine ⟨sf, hsf, ?_⟩
    rw [hfe]
    refine (twelveQ_mem m.edges m.verts.length a b c mab mbc mca sf.1 l1 l2 l3 x).mp ?_
    rw [← hp1]; exact List.mem_flatMap.mpr ⟨face, hfp, hx⟩
  · rintro ⟨sf, hsf, hx⟩
    obtain ⟨p, hp, hfl⟩ := mapE_mem_of _ _ _ h3 sf hsf
    obtain ⟨a, b, c, mab, mbc, mca, hfe, _, _, _, l1, l2, l3, hp1⟩ := q3_part_desc m hes sf.1 sf.2 p hfl
    rw [hfe] at hx
    have := (twelveQ_mem m.edges m.verts.length a b c mab mbc mca sf.1 l1 l2 l3 x).mpr hx
    rw [← hp1] at this
    obtain ⟨face, hface, hxf⟩ := List.mem_flatMap.mp this
    exact ⟨face, ⟨p, hp, hface⟩, hxf⟩

/-- a half has an end among the old vertices, a spoke has none -/
theorem half_not_spoke {es : List (Nat × Nat)} {base : Nat} (hes : ∀ e ∈ es, e.1 < e.2 ∧ e.2 < base) (f g : List Nat) (s : Nat)
    (hs : base ≤ s) (x : Nat × Nat) (hf : IsHalf es base f x) (hg : IsSpoke es base g s x) : False := by
  obtain ⟨u, v, mu, _, hl, hx⟩ := hf
  obtain ⟨t, mt, _, l1, hx'⟩ := hg
  obtain ⟨b1, b2, _, _⟩ := half_bounds hes hl
  have g1 := (lookup_ge _ _ _ _ l1).1
  rcases hx with rfl | rfl <;> rcases hx' with e | e <;> simp only [Prod.mk.injEq] at e <;> omega

/-- **the 1→3 quads refinement preserves "every directed side occurs in at most one face"** -/
theorem q3_oriented (m m' : Raw) (h : quads3Core m = .ok m') (hes : EdgesSorted m) (ho : OrientedSides m) :
    OrientedSides m' := by
  have hesb : ∀ e ∈ m.edges, e.1 < e.2 ∧ e.2 < m.verts.length := hes
  obtain ⟨mids, bs, parts, _, _, h3, _, hf, _⟩ := quads3Core_spec m m' h
  unfold OrientedSides dirSides at ho ⊢
  rw [hf, List.flatMap_assoc, List.nodup_flatMap]
  rw [List.nodup_flatMap] at ho
  constructor
  · intro p hp
    obtain ⟨sf, hsf, hfl⟩ := mapE_mem_back _ _ _ h3 p hp
    obtain ⟨hs1, _, _⟩ := number_mem _ _ sf hsf
    obtain ⟨a, b, c, mab, mbc, mca, _, hab, hbc, hca, l1, l2, l3, hp1⟩ := q3_part_desc m hes sf.1 sf.2 p hfl
    obtain ⟨a1, a2, _, a4⟩ := half_bounds hesb l1
    obtain ⟨_, b2, _, b4⟩ := half_bounds hesb l2
    obtain ⟨_, _, _, c4⟩ := half_bounds hesb l3
    have u1 := (lookup_ge _ _ _ _ l1).2
    have u2 := (lookup_ge _ _ _ _ l2).2
    have u3 := (lookup_ge _ _ _ _ l3).2
    obtain ⟨d1, d2, d3⟩ := lookups_distinct _ _ _ _ _ _ _ _
      (by simp only [List.nodup_cons, List.mem_cons, List.not_mem_nil, or_false, not_or, List.nodup_nil, and_true,
            not_false_eq_true]; exact ⟨⟨hab, fun e => hca e.symm⟩, hbc⟩) l1 l2 l3
    rw [hp1]
    exact twelveQ_nodup m.verts.length a b c mab mbc mca sf.1 a1 a2 b2 a4 b4 c4 (by omega) (by omega) (by omega) d1 d2 d3
  · have hpw := number_pairwiseR (fun f g => List.Disjoint (cycPairs f) (cycPairs g)) m.faces
        (m.verts.length + m.edges.length) ho.2
    have hpw2 : (number (m.verts.length + m.edges.length) m.faces).Pairwise
        (fun p q => (p.1 ≠ q.1 ∧ List.Disjoint (cycPairs p.2) (cycPairs q.2)) ∧
          m.verts.length + m.edges.length ≤ p.1 ∧ m.verts.length + m.edges.length ≤ q.1) := by
      refine List.Pairwise.and hpw ?_
      rw [List.pairwise_iff_forall_sublist]
      intro p q hsub
      exact ⟨(number_mem _ _ p (hsub.subset (by simp))).1, (number_mem _ _ q (hsub.subset (by simp))).1⟩
    refine mapE_pairwise (fun sf : Nat × List Nat => quadsFace (m.edges, m.verts.length) sf.1 sf.2) _ _ ?_ _ parts hpw2 h3
    intro sf sg p q hp hq ⟨⟨hne, hdis⟩, hb1, hb2⟩
    obtain ⟨a, b, c, mab, mbc, mca, hfe, _, _, _, l1, l2, l3, hp1⟩ := q3_part_desc m hes sf.1 sf.2 p hp
    obtain ⟨a', b', c', nab, nbc, nca, hge, _, _, _, k1, k2, k3, hq1⟩ := q3_part_desc m hes sg.1 sg.2 q hq
    simp only [Function.onFun, List.disjoint_left]
    intro x hx hy
    rw [hp1] at hx; rw [hq1] at hy
    rcases (twelveQ_mem _ _ a b c mab mbc mca sf.1 l1 l2 l3 x).mp hx with hx | hx <;>
      rcases (twelveQ_mem _ _ a' b' c' nab nbc nca sg.1 k1 k2 k3 x).mp hy with hy | hy
    · obtain ⟨s, s1, s2⟩ := half_half hesb _ _ x hx hy
      rw [← hfe] at s1; rw [← hge] at s2
      exact List.disjoint_left.mp hdis s1 s2
    · exact half_not_spoke hesb _ _ _ (by omega) x hx hy
    · exact half_not_spoke hesb _ _ _ (by omega) x hy hx
    · obtain ⟨t, mt, _, lt1, hxe⟩ := hx
      obtain ⟨t', mt', _, lt2, hxe'⟩ := hy
      have w1 := (lookup_ge _ _ _ _ lt1).2
      have w2 := (lookup_ge _ _ _ _ lt2).2
      rcases hxe with rfl | rfl <;> rcases hxe' with e | e <;> simp only [Prod.mk.injEq] at e <;> omega

/-- **border sides map to border sides**: a directed side of the 1→3 quads mesh has no opposite side iff it is one of the two
halves of a directed side of the input that has no opposite side (a spoke always has its opposite in the same face) -/
theorem q3_border (m m' : Raw) (h : quads3Core m = .ok m') (hes : EdgesSorted m) (x : Nat × Nat) (hx : x ∈ dirSides m') :
    (x.2, x.1) ∉ dirSides m' ↔
      ∃ u v mu, (u, v) ∈ dirSides m ∧ (v, u) ∉ dirSides m ∧
        halfLookup m.edges m.verts.length (keyify u v) = some mu ∧ (x = (u, mu) ∨ x = (mu, v)) := by
  have hesb : ∀ e ∈ m.edges, e.1 < e.2 ∧ e.2 < m.verts.length := hes
  have memD := mem_dirSides_q3 m m' h hes
  obtain ⟨sf, hsf, hx⟩ := (memD x).mp hx
  obtain ⟨hsb, _, hfm⟩ := number_mem _ _ sf hsf
  rcases hx with ⟨u, v, mu, huv, hl, hxe⟩ | ⟨t, mt, ht, l1, hxe⟩
  · obtain ⟨b1, b2, b3, b4⟩ := half_bounds hesb hl
    have huvD : (u, v) ∈ dirSides m := List.mem_flatMap.mpr ⟨sf.2, hfm, huv⟩
    constructor
    · intro hno
      refine ⟨u, v, mu, huvD, ?_, hl, hxe⟩
      intro hvu
      obtain ⟨g, hgm, hvug⟩ := List.mem_flatMap.mp hvu
      obtain ⟨j, hj⟩ := mem_number_of_mem m.faces (m.verts.length + m.edges.length) g hgm
      have hl' : halfLookup m.edges m.verts.length (keyify v u) = some mu := by rw [keyify_comm]; exact hl
      apply hno
      rcases hxe with rfl | rfl
      · exact (memD _).mpr ⟨(j, g), hj, Or.inl ⟨v, u, mu, hvug, hl', Or.inr rfl⟩⟩
      · exact (memD _).mpr ⟨(j, g), hj, Or.inl ⟨v, u, mu, hvug, hl', Or.inl rfl⟩⟩
    · rintro ⟨u', v', mu', _, hborder, hl', hxe'⟩ hopp
      obtain ⟨c1, c2, c3, c4⟩ := half_bounds hesb hl'
      have hsame : u' = u ∧ v' = v := by
        rcases hxe with rfl | rfl <;> rcases hxe' with e | e <;> simp only [Prod.mk.injEq] at e
        · obtain ⟨e1, e2⟩ := e; subst e2
          rcases same_mid hl hl' with ⟨e3, e4⟩ | ⟨e3, e4⟩ <;> omega
        · omega
        · omega
        · obtain ⟨e1, e2⟩ := e; subst e1
          rcases same_mid hl hl' with ⟨e3, e4⟩ | ⟨e3, e4⟩ <;> omega
      obtain ⟨rfl, rfl⟩ := hsame
      obtain ⟨sg, hsg, hg⟩ := (memD _).mp hopp
      obtain ⟨hgb, _, hgm⟩ := number_mem _ _ sg hsg
      rcases hg with ⟨u2, v2, mu2, huv2, hl2, hx2⟩ | ⟨t2, mt2, _, k1, hx2⟩
      · obtain ⟨d1, d2, d3, d4⟩ := half_bounds hesb hl2
        have : (v', u') ∈ cycPairs sg.2 := by
          rcases hxe with rfl | rfl <;> rcases hx2 with e | e <;> simp only [Prod.mk.injEq] at e
          · omega
          · obtain ⟨e1, e2⟩ := e; subst e1
            rcases same_mid hl hl2 with ⟨e3, e4⟩ | ⟨e3, e4⟩
            · omega
            · subst e2; subst e4; exact huv2
          · obtain ⟨e1, e2⟩ := e; subst e2
            rcases same_mid hl hl2 with ⟨e3, e4⟩ | ⟨e3, e4⟩
            · omega
            · subst e1; subst e3; exact huv2
          · omega
        exact hborder (List.mem_flatMap.mpr ⟨sg.2, hgm, this⟩)
      · have g1 := (lookup_ge _ _ _ _ k1).1
        rcases hxe with rfl | rfl <;> rcases hx2 with e | e <;> simp only [Prod.mk.injEq] at e <;> omega
  · -- a spoke always has its opposite in the same face, and is never a half
    have g1 := (lookup_ge _ _ _ _ l1).1
    constructor
    · intro hno
      refine absurd ((memD _).mpr ⟨sf, hsf, Or.inr ⟨t, mt, ht, l1, ?_⟩⟩) hno
      rcases hxe with rfl | rfl
      · exact Or.inr rfl
      · exact Or.inl rfl
    · rintro ⟨u', v', mu', _, _, hl', hxe'⟩
      obtain ⟨c1, c2, c3, c4⟩ := half_bounds hesb hl'
      rcases hxe with rfl | rfl <;> rcases hxe' with e | e <;> simp only [Prod.mk.injEq] at e <;> omega

end Mouette.Subdiv
